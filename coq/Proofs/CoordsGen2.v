(* C01, route T: the generated link with the sort of the rows as an ORACLE (Gen/coords.v py_link_srt).
   trackpy.link sorts the copied table with pandas_sort = DataFrame.sort_values, default kind
   (quicksort): NOT stable.  Everything here is proved for every [srt] with [sort_ok srt]
   (Model/SortOracle.v: the result is a permutation of the rows, ordered by the key) - nothing is
   assumed about the order of rows with the same frame number.

   Why the labels stay with their rows: coords_from_df sorts the (already sorted) table once more
   with a stable argsort; a stable sort of an ordered list is the identity (isort_nd_id), so the
   frames it hands to the linker, concatenated, are the rows of the table in the order srt left
   them, and the labels are written back by position in that same order. *)
From Coq Require Import String ZArith List Bool Lia Permutation.
From TP Require Import Model.Assign Model.Link Model.LinkTable Model.CoordsFromDf Model.PyCoords Model.LinkTable2
     Model.SortOracle Gen.coords Proofs.Cands Proofs.Labels Proofs.LinkTable Proofs.CoordsFromDf Proofs.CoordsGen.
Import ListNotations.
Open Scope Z_scope.

(* ---- ordered lists, the example oracles ----------------------------------------------------- *)
Lemma insert_k_sorted {A} (key : A -> Z) a l : sorted_by key l -> sorted_by key (insert_k key a l).
Proof.
  induction 1 as [|x l Hx Hl IH]; cbn; [repeat constructor|].
  destruct (key x <? key a) eqn:E.
  - apply Z.ltb_lt in E. constructor; [|exact IH].
    rewrite Forall_forall in *. intros y Hy. apply (Permutation_in _ (insert_k_perm key a l)) in Hy.
    destruct Hy as [Hy|Hy]; [subst y; lia|apply Hx; exact Hy].
  - apply Z.ltb_ge in E. constructor; [|constructor; assumption].
    constructor; [exact E|]. rewrite Forall_forall in *. intros y Hy. specialize (Hx y Hy). lia.
Qed.
Lemma isort_k_sorted {A} (key : A -> Z) l : sorted_by key (isort_k key l).
Proof.
  induction l as [|x l IH]; [constructor|].
  change (isort_k key (x :: l)) with (insert_k key x (isort_k key l)). apply insert_k_sorted. exact IH.
Qed.

Theorem stable_sort_ok : sort_ok stable_sort.
Proof. intros key l. split; [apply isort_k_perm|apply isort_k_sorted]. Qed.
Theorem reversing_sort_ok : sort_ok reversing_sort.
Proof.
  intros key l. unfold reversing_sort. split; [|apply isort_k_sorted].
  eapply Permutation_trans; [apply isort_k_perm|apply Permutation_sym, Permutation_rev].
Qed.
Theorem id_desc_sort_ok : sort_ok id_desc_sort.
Proof.
  intros key l. unfold id_desc_sort. split; [|apply isort_k_sorted].
  eapply Permutation_trans; apply isort_k_perm.
Qed.

Lemma sorted_by_map {A B} (g : A -> B) (ka : A -> Z) (kb : B -> Z) :
  (forall x, kb (g x) = ka x) -> forall l, sorted_by kb (map g l) <-> sorted_by ka l.
Proof.
  intros H l. induction l as [|a l IH]; cbn [map]; [split; constructor|].
  split; intros Hs; inversion Hs as [|? ? Hall Hrest]; subst; constructor.
  - rewrite Forall_forall in *. intros x Hx. rewrite <- !H. apply Hall. apply in_map. exact Hx.
  - apply IH. exact Hrest.
  - rewrite Forall_forall in *. intros y Hy. apply in_map_iff in Hy. destruct Hy as [x [E Hx]]. subst y. rewrite !H. apply Hall. exact Hx.
  - apply IH. exact Hrest.
Qed.
Lemma sorted_by_nd l : sorted_by r_frame l <-> nd l.
Proof. split; induction 1; constructor; assumption. Qed.
Lemma sorted_rows_nd pc tc S : sorted_by (cell tc) S -> nd (map (row_of pc tc) S).
Proof. intros H. apply sorted_by_nd. apply (sorted_by_map (row_of pc tc) (cell tc) r_frame); [reflexivity|exact H]. Qed.

(* a table that is already ordered by frame: the frames, concatenated, are the table itself *)
Lemma concat_table_frames_nd rows : nd rows -> concat (table_frames rows) = rows.
Proof. intros H. rewrite concat_table_frames, sort_rows_isort. apply isort_nd_id. exact H. Qed.

(* ---- the frames of a table do not depend on the order of its rows, up to the order within a frame --- *)
Lemma filter_perm {A} (p : A -> bool) l l' : Permutation l l' -> Permutation (filter p l) (filter p l').
Proof.
  induction 1 as [|x l l' _ IH|x y l|l l' l'' _ IH1 _ IH2]; cbn.
  - constructor.
  - destruct (p x); [apply perm_skip|]; exact IH.
  - destruct (p x), (p y); try apply Permutation_refl. apply perm_swap.
  - eapply Permutation_trans; eassumption.
Qed.
Lemma frames_from_frames_perm rows rows' : Permutation rows rows' ->
  forall n t, frames_perm (frames_from t n rows) (frames_from t n rows').
Proof.
  intros HP. induction n as [|n IH]; intros t; cbn [frames_from]; constructor; [|apply IH].
  unfold rows_at. apply filter_perm. exact HP.
Qed.
Lemma zmin_perm (rows rows' : list row) d d' : Permutation rows rows' -> In d rows -> In d' rows' ->
  zmin_list (map r_frame rows) (r_frame d) = zmin_list (map r_frame rows') (r_frame d').
Proof.
  intros HP Hd Hd'.
  assert (HPt : Permutation (map r_frame rows) (map r_frame rows')) by (apply Permutation_map; exact HP).
  destruct (zmin_le (map r_frame rows) (r_frame d)) as [_ H1]. destruct (zmin_le (map r_frame rows') (r_frame d')) as [_ H2].
  pose proof (zmin_attained (map r_frame rows) (r_frame d)) as A1. pose proof (zmin_attained (map r_frame rows') (r_frame d')) as A2.
  assert (A1' : In (zmin_list (map r_frame rows) (r_frame d)) (map r_frame rows)) by (destruct A1 as [E|E]; [rewrite <- E; apply in_map; exact Hd|exact E]).
  assert (A2' : In (zmin_list (map r_frame rows') (r_frame d')) (map r_frame rows')) by (destruct A2 as [E|E]; [rewrite <- E; apply in_map; exact Hd'|exact E]).
  pose proof (H2 _ (Permutation_in _ HPt A1')). pose proof (H1 _ (Permutation_in _ (Permutation_sym HPt) A2')). lia.
Qed.
Lemma zmax_perm (rows rows' : list row) d d' : Permutation rows rows' -> In d rows -> In d' rows' ->
  zmax_list (map r_frame rows) (r_frame d) = zmax_list (map r_frame rows') (r_frame d').
Proof.
  intros HP Hd Hd'.
  assert (HPt : Permutation (map r_frame rows) (map r_frame rows')) by (apply Permutation_map; exact HP).
  destruct (zmax_ge (map r_frame rows) (r_frame d)) as [_ H1]. destruct (zmax_ge (map r_frame rows') (r_frame d')) as [_ H2].
  pose proof (zmax_attained (map r_frame rows) (r_frame d)) as A1. pose proof (zmax_attained (map r_frame rows') (r_frame d')) as A2.
  assert (A1' : In (zmax_list (map r_frame rows) (r_frame d)) (map r_frame rows)) by (destruct A1 as [E|E]; [rewrite <- E; apply in_map; exact Hd|exact E]).
  assert (A2' : In (zmax_list (map r_frame rows') (r_frame d')) (map r_frame rows')) by (destruct A2 as [E|E]; [rewrite <- E; apply in_map; exact Hd'|exact E]).
  pose proof (H2 _ (Permutation_in _ HPt A1')). pose proof (H1 _ (Permutation_in _ (Permutation_sym HPt) A2')). lia.
Qed.
Theorem table_frames_frames_perm rows rows' : Permutation rows rows' -> frames_perm (table_frames rows) (table_frames rows').
Proof.
  intros HP. destruct rows as [|r0 rows0], rows' as [|r0' rows0'].
  - constructor.
  - apply Permutation_nil in HP. discriminate.
  - apply Permutation_sym, Permutation_nil in HP. discriminate.
  - unfold table_frames.
    rewrite (zmin_perm (r0 :: rows0) (r0' :: rows0') r0 r0' HP (or_introl eq_refl) (or_introl eq_refl)).
    rewrite (zmax_perm (r0 :: rows0) (r0' :: rows0') r0 r0' HP (or_introl eq_refl) (or_introl eq_refl)).
    apply frames_from_frames_perm. exact HP.
Qed.

(* ---- the frame coercion (f[t_column] = f[t_column].astype(np.int64) when the dtype is not an integer) --- *)
Lemma coerce_cell tc f r c : cell c (coerce_frame tc f r) = cell c r.
Proof.
  unfold coerce_frame. destruct (mem_str tc (df_float f)); [|reflexivity].
  rewrite cell_set_cell. destruct (String.eqb c tc) eqn:E; [apply String.eqb_eq in E; subst; reflexivity|reflexivity].
Qed.
Lemma coerce_id tc f r : d_id (coerce_frame tc f r) = d_id r.
Proof. unfold coerce_frame. destruct (mem_str tc (df_float f)); reflexivity. Qed.

(* py_link is py_link_srt with the stable sort: the two generated texts differ in that primitive only *)
Theorem py_link_is_stable_instance L f pcs tc : py_link L f pcs tc = py_link_srt stable_sort L f pcs tc.
Proof. reflexivity. Qed.

Section LinkSrt.
  Variables (m : metric) (mem max_size : nat).
  Let Lm := model_linker m mem max_size.

  (* generated link, ANY sort oracle that returns the rows ordered by frame: there is an order S of
     the caller's rows - a permutation, ordered by the frame column, namely the one the oracle chose
     (third conjunct: up to the frame coercion of the cells, S is what srt returned) - such that the
     generated link behaves as link_table does on the rows in THAT order: the returned rows are S
     (same identities, every cell other than 'particle' unchanged), row k carries the label link_table
     gives to row k, an oversize subnet is SubnetOversizeException. *)
  Theorem py_link_srt_eq srt f pcs tc :
    sort_ok srt -> metric_ok m ->
    let pc := match pcs with Some v => v | None => guess_pos_columns f end in
    has_col tc f = true -> has_cols pc f = true -> df_rows f <> [] -> ~ In "particle"%string (tc :: pc) ->
    exists S, Permutation S (df_rows f) /\ sorted_by (cell tc) S /\
      map (coerce_frame tc f) S = srt (cell tc) (map (coerce_frame tc f) (df_rows f)) /\
      match link_table m mem max_size (map (row_of pc tc) S) with
      | Oversize => py_link_srt srt Lm f pcs tc = RRaise EOversize
      | Ok out => exists g, py_link_srt srt Lm f pcs tc = ROk g /\
          map fst out = map (row_of pc tc) S /\
          map (row_of pc tc) (df_rows g) = map fst out /\
          map d_id (df_rows g) = map d_id S /\
          (forall c, c <> "particle"%string -> map (cell c) (df_rows g) = map (cell c) S) /\
          map (cell "particle") (df_rows g) = map Z.of_nat (map snd out)
      end.
  Proof.
    intros Hs Hm pc Ht Hp Hne Hpart.
    set (gf := coerce_frame tc f).
    assert (Hgc : forall r c, cell c (gf r) = cell c r) by (intros r c; apply coerce_cell).
    assert (Hgi : forall r, d_id (gf r) = d_id r) by (intros r; apply coerce_id).
    (* frame coercion *)
    assert (Hco : exists f1,
      (rbind (p_getitem (p_copy f) tc) (fun tmp1 =>
        if negb (s_int tmp1)
        then rbind (p_getitem (p_copy f) tc) (fun tmp2 => rbind (p_setitem (p_copy f) tc (s_astype_int64 tmp2)) (fun f => ROk f))
        else ROk (p_copy f))) = ROk f1 /\
      df_rows f1 = map gf (df_rows f) /\ df_columns f1 = df_columns f).
    { unfold p_copy, p_getitem. rewrite Ht. cbn [rbind s_int]. unfold gf, coerce_frame.
      destruct (mem_str tc (df_float f)); cbn [negb].
      - cbn [rbind]. unfold p_setitem. cbn [s_astype_int64 s_values s_int]. rewrite map_length, Nat.eqb_refl. cbn [rbind].
        eexists. split; [reflexivity|]. cbn [df_rows df_columns]. split; [apply set_cells_map|rewrite Ht; reflexivity].
      - exists f. split; [reflexivity|]. split; [rewrite map_id|]; reflexivity. }
    destruct Hco as [f1 [Ef1 [Hr1 Hc1]]].
    set (f2 := {| df_columns := df_columns f1; df_float := df_float f1; df_rows := srt (cell tc) (df_rows f1) |}).
    destruct (Hs (cell tc) (df_rows f1)) as [HP1 Hso1].
    assert (HP1' : Permutation (srt (cell tc) (df_rows f1)) (map gf (df_rows f))) by (rewrite <- Hr1; exact HP1).
    destruct (Permutation_map_inv gf _ HP1') as [S [ES HPS]].
    assert (HsoS : sorted_by (cell tc) S).
    { apply (sorted_by_map gf (cell tc) (cell tc)); [intros r; apply Hgc|]. rewrite <- ES. exact Hso1. }
    exists S. split; [apply Permutation_sym; exact HPS|]. split; [exact HsoS|].
    split; [rewrite <- Hr1; symmetry; exact ES|].
    set (rows := map (row_of pc tc) S).
    assert (Hr2 : df_rows f2 = map gf S) by exact ES.
    assert (Hcol2 : forall c, has_col c f2 = has_col c f) by (intros c; unfold has_col; cbn; rewrite Hc1; reflexivity).
    assert (Erows2 : rows_of pc tc f2 = rows).
    { unfold rows_of at 1. rewrite Hr2, map_map. apply map_ext. intros r. apply row_of_ext; [intros c; apply Hgc|apply Hgi]. }
    assert (Hnd : nd rows) by (apply sorted_rows_nd; exact HsoS).
    assert (HSne : S <> []).
    { intros E. subst S. apply Permutation_sym, Permutation_nil in HPS. congruence. }
    assert (Hrne : rows <> []) by (unfold rows; destruct S; [congruence|discriminate]).
    assert (Hcfd : py_coords_from_df f2 pc tc = ROk (combine (table_times rows) (map (map r_pos) (table_frames rows)))).
    { pose proof (py_coords_from_df_eq f2 pc tc) as H. cbv zeta in H. rewrite Erows2 in H. apply H.
      - rewrite Hcol2. exact Ht.
      - unfold has_cols. rewrite (forallb_ext' _ (fun c => has_col c f)) by (intros c; apply Hcol2). exact Hp.
      - rewrite Hr2. destruct S; [congruence|discriminate]. }
    set (fr := table_frames rows) in *. set (ts := table_times rows) in *.
    assert (Hlts : length ts = length (map (map r_pos) fr)).
    { unfold ts. rewrite table_times_length, map_length. reflexivity. }
    assert (Hfrne : fr <> []) by (apply table_frames_nonempty; exact Hrne).
    assert (E0 : forall (K : list string -> res DataFrame),
      rbind (match pcs with
             | Some tmp0 => ROk tmp0
             | None => let pos_columns := guess_pos_columns f in ROk pos_columns
             end) K = K pc) by (intros K; destruct pcs; reflexivity).
    unfold py_link_srt. rewrite E0.
    cbv zeta.
    destruct (p_getitem (p_copy f) tc) as [s|e] eqn:Es; [|discriminate]. cbn [rbind] in Ef1. cbn [rbind]. rewrite Ef1. cbn [rbind].
    unfold pandas_sort_inplace_by. replace (has_col tc f1) with true by (unfold has_col; rewrite Hc1; symmetry; exact Ht).
    fold f2. cbn [rbind]. rewrite Hcfd. unfold gen_items_Z, gen_map. cbn [rbind]. rewrite items_Z.
    rewrite (py_link_iter_tuples m mem max_size).
    2:{ destruct ts, fr; cbn in *; try congruence; discriminate. }
    assert (Hl0 : length (map Some ts) = length (map (map r_pos) fr)) by (rewrite map_length; exact Hlts).
    rewrite combine_snd_len by exact Hl0.
    unfold link_table. fold rows. fold fr.
    destruct (link_iter m mem max_size no_pred (map (map r_pos) fr)) as [labs|] eqn:El; [|reflexivity].
    pose proof (link_iter_valid _ _ _ _ _ _ Hm El) as Hv.
    assert (Hll : length labs = length fr) by (apply Forall2_len in Hv; rewrite map_length in Hv; lia).
    assert (Hlen : length (concat fr) = length (concat labs)).
    { clear -Hv. revert Hv. generalize fr. intros fr0. revert labs.
      induction fr0 as [|x fr0 IH]; intros labs Hv; inversion Hv as [|? lb ? labs' Hfv Hrest]; subst; cbn; [reflexivity|].
      rewrite !app_length. destruct Hfv as [HL _]. rewrite map_length in HL. rewrite (IH _ Hrest). lia. }
    cbn [rbind]. rewrite link_loop. cbn [app].
    assert (Hl3 : length (map Some ts) = length (zlabs labs)).
    { unfold zlabs. rewrite !map_length. rewrite map_length in Hlts. lia. }
    rewrite combine_fst_len by exact Hl0. rewrite combine_snd_len by exact Hl3.
    assert (Eids : concat (zlabs labs) = map Z.of_nat (concat labs)) by (unfold zlabs; symmetry; apply concat_map).
    rewrite Eids.
    (* the labels are written back in the order of the table: the second (stable) sort did nothing *)
    assert (Ecf : concat fr = map (row_of pc tc) S) by (unfold fr; apply concat_table_frames_nd; exact Hnd).
    assert (Hl2 : length (map Z.of_nat (concat labs)) = length (df_rows f2)).
    { rewrite map_length, <- Hlen, Ecf, Hr2, !map_length. reflexivity. }
    cbn [rbind]. unfold p_setitem_list, p_setitem. cbn [s_values s_int]. rewrite Hl2, Nat.eqb_refl. cbn [rbind].
    eexists. split; [reflexivity|]. cbn [df_rows].
    destruct (set_cells_facts "particle" (df_rows f2) (map Z.of_nat (concat labs)) Hl2) as [H1 [H2 H3]].
    rewrite Hr2 in H1, H2, H3 |- *.
    split; [rewrite (combine_fst_len _ _ Hlen); exact Ecf|].
    split.
    { rewrite (combine_fst_len _ _ Hlen), Ecf, (row_of_set_cells pc tc "particle" Hpart) by (rewrite Hl2, Hr2; reflexivity).
      rewrite map_map. apply map_ext. intros r. apply row_of_ext; [intros c; apply Hgc|apply Hgi]. }
    split; [rewrite H1, map_map; apply map_ext; intros r; apply Hgi|].
    split.
    - intros c Hc. rewrite (H3 c Hc), map_map. apply map_ext. intros r. apply Hgc.
    - rewrite H2. rewrite (combine_snd_len _ _ Hlen). reflexivity.
  Qed.

  (* C01's headline for the generated link, ANY such oracle.  Whenever it returns a table g:
     - the rows of g are a permutation S of the caller's rows (identities), ordered by the frame column,
       every cell other than 'particle' as the caller gave it: only the particle column is added;
     - the frames handed to the linker (one per frame number from the smallest to the largest, empty
       for missing numbers) are the caller's frames up to the order WITHIN each frame
       (frames_perm .. (table_frames of the caller's rows)); that order is the only thing the oracle decides;
     - the rows of g are those frames concatenated and the particle column is the concatenation of the
       per-frame label lists in the same order: each row carries the label the linker gave to ITS
       position; in every frame there is one label per row and no label twice.
     What may depend on the order within a frame: which fresh integer a trajectory that starts in a
     frame receives (fresh ids are handed out in the order of the frame's rows) and, between candidate
     links of equal total cost, which one the linker takes; validity does not. *)
  Theorem gen_link_srt_valid srt f pcs tc g :
    sort_ok srt -> metric_ok m ->
    let pc := match pcs with Some v => v | None => guess_pos_columns f end in
    has_col tc f = true -> has_cols pc f = true -> df_rows f <> [] -> ~ In "particle"%string (tc :: pc) ->
    py_link_srt srt Lm f pcs tc = ROk g ->
    exists S, Permutation S (df_rows f) /\ sorted_by (cell tc) S /\
      map (coerce_frame tc f) S = srt (cell tc) (map (coerce_frame tc f) (df_rows f)) /\
      map d_id (df_rows g) = map d_id S /\
      (forall c, c <> "particle"%string -> map (cell c) (df_rows g) = map (cell c) S) /\
      Permutation (map d_id (df_rows g)) (map d_id (df_rows f)) /\ length (df_rows g) = length (df_rows f) /\
      sorted_by (cell tc) (df_rows g) /\
      let frs := table_frames (map (row_of pc tc) S) in
      frames_perm frs (table_frames (rows_of pc tc f)) /\
      exists labs, Forall2 frame_ok (map (map r_pos) frs) labs /\
                   map (row_of pc tc) (df_rows g) = concat frs /\
                   map (cell "particle") (df_rows g) = map Z.of_nat (concat labs).
  Proof.
    intros Hs Hm pc Ht Hp Hne Hpart H.
    destruct (py_link_srt_eq srt f pcs tc Hs Hm Ht Hp Hne Hpart) as [S [HPS [HsoS [Epin E]]]]. fold pc in E.
    exists S. split; [exact HPS|]. split; [exact HsoS|]. split; [exact Epin|].
    unfold link_table in E.
    destruct (link_iter m mem max_size no_pred (map (map r_pos) (table_frames (map (row_of pc tc) S)))) as [labs|] eqn:El.
    2:{ rewrite E in H. discriminate. }
    destruct E as [g' [Eg [E1 [E1' [E2 [E3 E4]]]]]]. rewrite Eg in H. inversion H; subst g'. clear H.
    pose proof (link_iter_valid _ _ _ _ _ _ Hm El) as Hv.
    assert (Hlen : length (concat (table_frames (map (row_of pc tc) S))) = length (concat labs)).
    { clear -Hv. revert Hv. generalize (table_frames (map (row_of pc tc) S)). intros fr0. revert labs.
      induction fr0 as [|x fr0 IH]; intros labs Hv; inversion Hv as [|? lb ? labs' Hfv Hrest]; subst; cbn; [reflexivity|].
      rewrite !app_length. destruct Hfv as [HL _]. rewrite map_length in HL. rewrite (IH _ Hrest). lia. }
    assert (HP : Permutation (map d_id (df_rows g)) (map d_id (df_rows f))) by (rewrite E2; apply Permutation_map; exact HPS).
    split; [exact E2|]. split; [exact E3|]. split; [exact HP|].
    split; [apply Permutation_length in HP; rewrite !map_length in HP; exact HP|].
    split.
    { assert (Hk : map (cell tc) (df_rows g) = map (cell tc) S).
      { apply E3. intros Ec. apply Hpart. left. exact Ec. }
      apply (sorted_by_map (cell tc) (cell tc) (fun z => z)); [reflexivity|]. rewrite Hk.
      apply (sorted_by_map (cell tc) (cell tc) (fun z => z)); [reflexivity|exact HsoS]. }
    cbv zeta. split.
    { apply table_frames_frames_perm. unfold rows_of. apply Permutation_map. exact HPS. }
    exists labs. split; [exact Hv|]. split.
    - rewrite E1'. apply combine_fst_len. exact Hlen.
    - rewrite E4. f_equal. apply combine_snd_len. exact Hlen.
  Qed.

  (* the same, read per row: row k of the result is row k of S with the k-th label, and two rows of the
     same frame never carry the same label *)
  Theorem gen_link_srt_labels_distinct srt f pcs tc g :
    sort_ok srt -> metric_ok m ->
    let pc := match pcs with Some v => v | None => guess_pos_columns f end in
    has_col tc f = true -> has_cols pc f = true -> df_rows f <> [] -> ~ In "particle"%string (tc :: pc) ->
    py_link_srt srt Lm f pcs tc = ROk g ->
    Forall (fun r => 0 <= cell "particle" r) (df_rows g) /\
    forall i j ri rj, nth_error (df_rows g) i = Some ri -> nth_error (df_rows g) j = Some rj -> i <> j ->
      cell tc ri = cell tc rj -> cell "particle" ri <> cell "particle" rj.
  Proof.
    intros Hs Hm pc Ht Hp Hne Hpart H.
    destruct (gen_link_srt_valid srt f pcs tc g Hs Hm Ht Hp Hne Hpart H) as [SS [_ [_ [_ [_ [_ [_ [_ [_ Hrest]]]]]]]]].
    cbv zeta in Hrest. fold pc in Hrest. destruct Hrest as [_ [labs [Hv [Erows Elabs]]]].
    set (frs := table_frames (map (row_of pc tc) SS)) in *.
    split.
    { assert (HF : Forall (fun v => 0 <= v) (map (cell "particle") (df_rows g))).
      { rewrite Elabs. rewrite Forall_forall. intros v Hv'. apply in_map_iff in Hv'. destruct Hv' as [k [Ek _]]. lia. }
      rewrite Forall_forall in *. intros r Hr. apply HF. apply in_map. exact Hr. }
    (* position k of the concatenation lies in frame number lo + (index of the frame) *)
    assert (Hfr : forall k fr r, nth_error frs k = Some fr -> In r fr -> exists t0, r_frame r = t0 + Z.of_nat k /\
                  forall k' fr' r', nth_error frs k' = Some fr' -> In r' fr' -> r_frame r' = t0 + Z.of_nat k').
    { intros k fr r Hk Hr. unfold frs, table_frames in *. destruct (map (row_of pc tc) SS) as [|r0 rs] eqn:ES; [destruct k; discriminate|].
      eexists. split; [eapply frames_from_frame; eassumption|]. intros k' fr' r' Hk' Hr'. eapply frames_from_frame; eassumption. }
    (* generic fact about two aligned concatenations *)
    assert (Hgen : forall (fs : list (list row)) (ls : list (list nat)),
      Forall2 frame_ok (map (map r_pos) fs) ls ->
      forall i j ri rj li, i <> j ->
        nth_error (concat fs) i = Some ri -> nth_error (concat fs) j = Some rj ->
        nth_error (concat ls) i = Some li -> nth_error (concat ls) j = Some li ->
        exists k k' fk fk', k <> k' /\ nth_error fs k = Some fk /\ nth_error fs k' = Some fk' /\ In ri fk /\ In rj fk').
    { induction fs as [|fr0 fs IH]; intros ls HF2 i j ri rj li Hij Hi Hj Hli Hlj.
      { destruct i; discriminate. }
      destruct ls as [|l0 ls]; [inversion HF2|]. cbn [map] in HF2. inversion HF2 as [|? ? ? ? [HL HN] HF2']; subst.
      rewrite map_length in HL. cbn [concat] in *.
      destruct (Nat.ltb i (length fr0)) eqn:Ei, (Nat.ltb j (length fr0)) eqn:Ej.
      - apply Nat.ltb_lt in Ei, Ej. rewrite nth_error_app1 in Hli, Hlj by lia.
        exfalso. apply Hij. rewrite NoDup_nth_error in HN. apply HN; [apply nth_error_Some; congruence|]. congruence.
      - apply Nat.ltb_lt in Ei. apply Nat.ltb_ge in Ej.
        rewrite nth_error_app1 in Hi by lia. rewrite nth_error_app2 in Hj by lia.
        assert (Hin : In rj (concat fs)) by (eapply nth_error_In; exact Hj).
        apply in_concat in Hin. destruct Hin as [fk' [Hfk' Hrj]]. apply In_nth_error in Hfk'. destruct Hfk' as [k' Hk'].
        exists 0%nat, (S k'), fr0, fk'. repeat split; [discriminate|exact Hk'|eapply nth_error_In; exact Hi|exact Hrj].
      - apply Nat.ltb_ge in Ei. apply Nat.ltb_lt in Ej.
        rewrite nth_error_app2 in Hi by lia. rewrite nth_error_app1 in Hj by lia.
        assert (Hin : In ri (concat fs)) by (eapply nth_error_In; exact Hi).
        apply in_concat in Hin. destruct Hin as [fk [Hfk Hri]]. apply In_nth_error in Hfk. destruct Hfk as [k Hk].
        exists (S k), 0%nat, fk, fr0. repeat split; [discriminate|exact Hk|exact Hri|eapply nth_error_In; exact Hj].
      - apply Nat.ltb_ge in Ei, Ej.
        rewrite nth_error_app2 in Hi, Hj by lia. rewrite nth_error_app2 in Hli, Hlj by lia. rewrite HL in Hli, Hlj.
        destruct (IH ls HF2' (i - length fr0)%nat (j - length fr0)%nat ri rj li ltac:(lia) Hi Hj Hli Hlj)
          as [k [k' [fk [fk' [Hkk [Hk [Hk' [Hri Hrj]]]]]]]].
        exists (S k), (S k'), fk, fk'. repeat split; [lia|exact Hk|exact Hk'|exact Hri|exact Hrj]. }
    intros i j ri rj Hi Hj Hij Hsame Hlab.
    assert (Hi' : nth_error (concat frs) i = Some (row_of pc tc ri)) by (rewrite <- Erows; apply map_nth_error; exact Hi).
    assert (Hj' : nth_error (concat frs) j = Some (row_of pc tc rj)) by (rewrite <- Erows; apply map_nth_error; exact Hj).
    assert (Hli : nth_error (map Z.of_nat (concat labs)) i = Some (cell "particle" ri)) by (rewrite <- Elabs; apply map_nth_error; exact Hi).
    assert (Hlj : nth_error (map Z.of_nat (concat labs)) j = Some (cell "particle" rj)) by (rewrite <- Elabs; apply map_nth_error; exact Hj).
    destruct (nth_error (concat labs) i) as [li|] eqn:Eli; [|rewrite nth_error_map, Eli in Hli; discriminate].
    destruct (nth_error (concat labs) j) as [lj|] eqn:Elj; [|rewrite nth_error_map, Elj in Hlj; discriminate].
    rewrite nth_error_map, Eli in Hli. rewrite nth_error_map, Elj in Hlj. cbn in Hli, Hlj.
    assert (li = lj) by (inversion Hli; inversion Hlj; lia). subst lj.
    destruct (Hgen frs labs Hv i j _ _ li Hij Hi' Hj' Eli Elj) as [k [k' [fk [fk' [Hkk [Hk [Hk' [Hri Hrj]]]]]]]].
    destruct (Hfr k fk _ Hk Hri) as [t0 [Et Hall]]. pose proof (Hall k' fk' _ Hk' Hrj) as Et'.
    cbn [row_of r_frame] in Et, Et'. lia.
  Qed.
End LinkSrt.
