(* C14, route T: the subnets the generated code builds are a partition of the source points; hence the safety
   theorems hold for the generated next_level / find_link_iter. *)
From Coq Require Import ZArith QArith List Bool Arith Lia Permutation.
From TP Require Import Model.Assign Model.Link Model.Dilation Model.FindLink Model.FindLink3 Model.PyFind Model.PyFindlink
     Model.PyFindstep Gen.findlink Gen.findstep Proofs.Cands Proofs.Labels Proofs.Comps Proofs.FindLink Proofs.FindlinkGen
     Proofs.FindstepGen Proofs.FindstepGen2 Proofs.FindstepGen3 Proofs.FindstepSafe.
Import ListNotations.
Open Scope Z_scope.

Definition dcat (d : sdict) : list item := concat (map snd d).

Lemma dcat_del i : forall d g, d_get i d = Some g -> Permutation (g ++ dcat (d_del i d)) (dcat d).
Proof.
  induction d as [|[k g0] d IH]; intros g H; cbn in H; [discriminate|]. cbn [d_del].
  destruct (Nat.eqb i k); [inversion H; subst; apply Permutation_refl|].
  unfold dcat in *. cbn [map snd concat]. eapply Permutation_trans; [apply Permutation_app_swap_app|].
  apply Permutation_app_head. apply IH. exact H.
Qed.

Lemma dcat_set i g1 : forall d g2, d_get i d = Some g2 -> Permutation (dcat (d_set i (g2 ++ g1) d)) (g1 ++ dcat d).
Proof.
  induction d as [|[k g0] d IH]; intros g2 H; cbn in H; [discriminate|]. cbn [d_set].
  destruct (Nat.eqb i k).
  - inversion H; subst. unfold dcat. cbn [map snd concat]. rewrite <- app_assoc.
    eapply Permutation_trans; [apply Permutation_app_swap_app|]. apply Permutation_refl.
  - unfold dcat in *. cbn [map snd concat]. eapply Permutation_trans; [apply Permutation_app_head; apply IH; exact H|].
    apply Permutation_app_swap_app.
Qed.

Lemma d_get_set_ne i j g : i <> j -> forall d, d_get i (d_set j g d) = d_get i d.
Proof.
  intros Hne. induction d as [|[k g0] d IH]; cbn.
  - destruct (Nat.eqb i j) eqn:E; [apply Nat.eqb_eq in E; contradiction|reflexivity].
  - destruct (Nat.eqb j k) eqn:Ej; cbn; destruct (Nat.eqb i k) eqn:Ei; try reflexivity; try exact IH.
    apply Nat.eqb_eq in Ej, Ei. congruence.
Qed.

Lemma d_merge_perm d i2 i1 : Permutation (dcat (d_merge d i2 i1)) (dcat d).
Proof.
  unfold d_merge. destruct (Nat.eqb i1 i2) eqn:E; [apply Permutation_refl|]. apply Nat.eqb_neq in E.
  destruct (d_get i1 d) as [g1|] eqn:E1; [|apply Permutation_refl].
  destruct (d_get i2 d) as [g2|] eqn:E2; [|apply Permutation_refl].
  assert (H1 : d_get i1 (d_set i2 (g2 ++ g1) d) = Some g1) by (rewrite d_get_set_ne by exact E; exact E1).
  apply (Permutation_app_inv_l g1).
  eapply Permutation_trans; [apply dcat_del; exact H1|]. apply dcat_set. exact E2.
Qed.

Lemma merge_one_perm d p wp : Permutation (dcat (merge_one d p wp)) (dcat d).
Proof.
  unfold merge_one. destruct (d_key_of p d), (d_key_of wp d); try apply Permutation_refl.
  destruct (Nat.eqb n n0); [apply Permutation_refl|]. destruct (n <? n0)%nat; apply d_merge_perm.
Qed.

Lemma fold_perm {B} (f : sdict -> B -> sdict) (l : list B) :
  (forall d x, Permutation (dcat (f d x)) (dcat d)) -> forall d, Permutation (dcat (fold_left f l d)) (dcat d).
Proof. intros Hf. induction l as [|x l IH]; intros d; cbn; [apply Permutation_refl|]. eapply Permutation_trans; [apply IH|apply Hf]. Qed.

Lemma merge_lost_c_perm m pos n d : Permutation (dcat (merge_lost_c m pos n d)) (dcat d).
Proof. unfold merge_lost_c. apply fold_perm. intros d' p. apply fold_perm. intros d'' wp. apply merge_one_perm. Qed.

Lemma dcat_enum k (gs : list group) : dcat (enum_from k gs) = concat gs.
Proof.
  unfold dcat, enum_from. f_equal. revert k. induction gs as [|g gs IH]; intros k; cbn; [reflexivity|]. f_equal. apply IH.
Qed.

Lemma dcat_lost items : forall k, dcat (lost_from k items) = filter (fun it => negb (has_cands it)) items.
Proof.
  induction items as [|it items IH]; intros k; cbn; [reflexivity|].
  destruct (has_cands it); cbn; [apply IH|]. unfold dcat in *. cbn. f_equal. apply IH.
Qed.

Lemma filter_split_perm {A} (p : A -> bool) l : Permutation (filter p l ++ filter (fun x => negb (p x)) l) l.
Proof.
  induction l as [|x l IH]; cbn; [constructor|]. destruct (p x); cbn.
  - constructor. exact IH.
  - eapply Permutation_trans; [apply Permutation_sym, Permutation_middle|]. constructor. exact IH.
Qed.

Definition code_dict (m : metric) (pred : nat -> src -> pt) (st : lstate) (ds : list pt) : sdict :=
  let items := raw_items m pred st ds in
  merge_lost_c m (src_pos pred st) (length (live st)) (include_lost_c (subnets_compute items) items).

Theorem code_dict_partition m pred st ds : Permutation (dcat (code_dict m pred st ds)) (raw_items m pred st ds).
Proof.
  unfold code_dict. eapply Permutation_trans; [apply merge_lost_c_perm|].
  unfold include_lost_c, dcat. rewrite map_app, concat_app. fold (dcat (subnets_compute (raw_items m pred st ds))).
  match goal with |- context [lost_from ?k _] => fold (dcat (lost_from k (raw_items m pred st ds))) end.
  rewrite dcat_lost. unfold subnets_compute. rewrite dcat_enum.
  eapply Permutation_trans; [|apply (filter_split_perm has_cands)].
  apply Permutation_app_tail. destruct (components_spec (filter has_cands (raw_items m pred st ds))) as [_ H]. exact H.
Qed.

Theorem code_groups_partition m pred st ds : Permutation (concat (code_groups m pred st ds)) (raw_items m pred st ds).
Proof. exact (code_dict_partition m pred st ds). Qed.

(* every visiting order that keeps the source points *)
Definition ord_ok (ord : sdict -> list group) : Prop := forall d, Permutation (concat (ord d)) (dcat d).

Lemma ord_snd_ok : ord_ok (map snd).
Proof. intros d. apply Permutation_refl. Qed.

Lemma raw_items_raw init0 st ds it :
  In it (raw_items (fmet (params_of init0)) no_pred st ds) -> raw_it init0 st ds it.
Proof.
  unfold raw_items. intros H. apply mapi_from_in in H. destruct H as [i [s [Hn E]]]. subst it.
  unfold raw_it. cbn [fst snd]. unfold src_pos. cbn [Nat.add]. rewrite Hn. reflexivity.
Qed.

Lemma ord_raw ord init0 st ds : ord_ok ord ->
  Forall (Forall (raw_it init0 st ds)) (ord (code_dict (fmet (params_of init0)) no_pred st ds)).
Proof.
  intros Ho. rewrite Forall_forall. intros g Hg. rewrite Forall_forall. intros it Hit.
  apply raw_items_raw. eapply Permutation_in; [apply code_dict_partition|].
  eapply Permutation_in; [apply Ho|]. apply in_concat. exists g. split; assumption.
Qed.

(* the grouping of a step of the generated code *)
Definition gen_grouping (ord : sdict -> list group) (m : metric) : grouping := fun st ds => ord (code_dict m no_pred st ds).

Lemma gen_grouping_partition ord m : ord_ok ord ->
  forall st ds, Permutation (concat (gen_grouping ord m st ds)) (raw_items m no_pred st ds).
Proof. intros Ho st ds. eapply Permutation_trans; [apply Ho|apply code_dict_partition]. Qed.

(* generated next_level = the model of the code on the subnets the code builds, and it keeps the linker's parameters *)
Theorem py_next_level_gen relocate_m ord (self : flk) coords t im :
  ord_ok ord -> k_pred self = None ->
  let m := k_met self in
  let rel := relocate_m (params_of (k_init self)) im t (i_threshold (k_init self)) (i_percentile (k_init self)) in
  map_result flk_view (py_next_level relocate_m ord self coords t im)
  = find_step_gs m (k_mem self) (k_max self) no_pred rel (gen_grouping ord m (k_st self) coords) (k_st self) coords.
Proof.
  intros Ho Hp m rel. apply py_next_level_eq; [exact Hp|]. apply ord_raw. exact Ho.
Qed.

Lemma py_next_level_keeps relocate_m ord (self : flk) coords t im self' :
  ord_ok ord -> k_pred self = None ->
  py_next_level relocate_m ord self coords t im = Ok self' ->
  k_init self' = k_init self /\ k_max self' = k_max self /\ k_pred self' = None.
Proof.
  intros Ho Hp. destruct self as [init0 max pr st labs0 im0 t0 ds0 ad0 ids0 nx0 sn0]. cbn in Hp. subst pr.
  unfold py_next_level. cbn [k_init k_max k_pred].
  set (self1 := flk_update_hash _ coords).
  assert (E1 : set_k_subnets self1 (subnets_new self1) = mkself init0 max st labs0 im t coords (subnets_new self1) (cacc0 coords)) by reflexivity.
  rewrite E1.
  assert (Hd : sn_subnets (py_merge_lost_subnets (py_include_lost (subnets_new self1)) (fmet (params_of init0)))
               = code_dict (fmet (params_of init0)) no_pred st coords).
  { rewrite py_include_lost_eq. rewrite py_merge_lost_subnets_eq by reflexivity. reflexivity. }
  pose proof (py_assign_links_eq relocate_m ord init0 max st labs0 im t coords (subnets_new self1) eq_refl) as H.
  cbv zeta in H. rewrite Hd in H. specialize (H (ord_raw ord init0 st coords Ho)).
  destruct (py_assign_links _ _ _) as [[[s' spl] dpl]|]; [|discriminate].
  destruct (groups_run_c _ _ _ _ _ _ _ _) as [a|]; cbn in H; [|contradiction].
  destruct H as [-> _]. intros E. inversion E; subst self'. unfold flk_apply_links.
  destruct (apply_links _ _ _ _). cbn. auto.
Qed.

Section DriverModel.
  Variables (relocate_m : relocate_method) (ord : sdict -> list group).
  Hypothesis Ho : ord_ok ord.
  Variables (init0 : flinit) (max0 : nat) (dets : rframe -> list pt) (pf : image -> image).
  Let m := fmet (params_of init0).

  Definition frame_of (fr : rframe) : list pt * reloc_fn :=
    (dets fr, relocate_m (params_of init0) (pf (r_image fr)) (r_no fr) (i_threshold init0) (i_percentile init0)).

  Theorem drive_eq : forall frames linker,
    k_init linker = init0 -> k_max linker = max0 -> k_pred linker = None ->
    drive relocate_m ord dets pf linker frames
    = find_run_gs m (i_memory init0) max0 no_pred (gen_grouping ord m) (k_st linker) (map frame_of frames).
  Proof.
    induction frames as [|fr frames IH]; intros linker Hi Hmx Hp; cbn [drive map find_run_gs]; [reflexivity|].
    unfold frame_of at 1.
    pose proof (py_next_level_gen relocate_m ord linker (dets fr) (r_no fr) (pf (r_image fr)) Ho Hp) as H.
    cbv zeta in H. unfold k_met, k_mem in H. rewrite Hi, Hmx in H. fold m in H. rewrite <- H.
    destruct (py_next_level relocate_m ord linker (dets fr) (r_no fr) (pf (r_image fr))) as [l'|] eqn:E; [|reflexivity].
    destruct (py_next_level_keeps _ _ _ _ _ _ _ Ho Hp E) as [K1 [K2 K3]].
    cbn [map_result]. unfold flk_view. rewrite (IH l') by congruence. reflexivity.
  Qed.
End DriverModel.

(* the generated driver, end to end: find_link_iter (generated) on a movie = the model of the code (find_link_gs)
   with the linker parameters the generated __init__ derives from the driver's own arguments, every frame's
   oracle being the relocate method at the USER's percentile *)
Theorem py_find_link_iter_model relocate_m ord gd ch k max_size r0 rest sr sep diam perc mm pf bl kw :
  ord_ok ord ->
  let ndim := py_len (np_shape (r_image r0)) in
  let sr' := validate_tup sr ndim in
  let sep' := validate_tup sep ndim in
  let d' := match diam with None => sep' | Some d => validate_tup d ndim end in
  let pf' := match pf with None => identity_proc | Some f => f end in
  let dets := detections gd ch k sep' d' perc mm pf' bl in
  let init0 := py_FindLinker_init k sr' sep' (Some d') mm perc kw in
  margins_cover (np_shape (r_image r0)) (tup_map (fun d => num_half_int k d) d') = false ->
  py_find_link_iter relocate_m ord gd ch k max_size (r0, rest) sr sep diam perc mm pf bl kw
  = Some (find_link_gs (fmet (params_of init0)) (kw_memory kw) max_size no_pred (gen_grouping ord (fmet (params_of init0)))
            (dets r0) (map (frame_of relocate_m init0 dets pf') rest)).
Proof.
  intros Ho ndim sr' sep' d' pf' dets init0 Hmc.
  pose proof (py_find_link_iter_eq relocate_m ord gd ch k max_size r0 rest sr sep diam perc mm pf bl kw) as H.
  cbv zeta in H. fold ndim sr' sep' d' pf' in H. fold dets in H. fold init0 in H. rewrite Hmc in H. rewrite H. f_equal.
  unfold find_link_gs, flk_init_level. destruct (init_state (dets r0)) as [st labs] eqn:Ei.
  rewrite (drive_eq relocate_m ord Ho init0 max_size dets pf') by reflexivity.
  cbn [k_st]. replace (i_memory init0) with (kw_memory kw) by reflexivity.
  destruct (find_run_gs _ _ _ _ _ _ _); [|reflexivity].
  unfold flk_coords_df, hash_points. cbn. rewrite app_nil_r. reflexivity.
Qed.

(* ------------------------------------------------------------ consequences for the generated code *)
Lemma init_covers k sr sep diam mm perc kw :
  0 < k -> 0 <= t_v sr -> 0 < t_v sep -> 0 <= t_v (match diam with Some d => d | None => sep end) / (2 * k) ->
  bg_covers (params_of (py_FindLinker_init k sr sep diam mm perc kw)) /\
  fixed (params_of (py_FindLinker_init k sr sep diam mm perc kw)) = true.
Proof.
  intros Hk Hs Hp Hr. split; [|reflexivity].
  rewrite (proj1 (py_FindLinker_init_eq k sr sep diam mm perc kw)). apply mk_params_covers; assumption.
Qed.

Theorem gen_step_labels relocate_m ord (self self' : flk) coords t im :
  ord_ok ord -> k_pred self = None -> metric_ok (k_met self) -> state_ok (k_mem self) (k_st self) ->
  py_next_level relocate_m ord self coords t im = Ok self' ->
  state_ok (k_mem self) (k_st self') /\ now (k_st self') = S (now (k_st self)) /\
  length (k_labs self') = length (hash_points self') /\ NoDup (k_labs self') /\
  exists added, hash_points self' = coords ++ added /\
    forall q, In q added -> exists s, In s (live (k_st self)) /\ in_range (k_met self) (s_pos s) q.
Proof.
  intros Ho Hp Hm Hst E.
  pose proof (py_next_level_gen relocate_m ord self coords t im Ho Hp) as H. cbv zeta in H. rewrite E in H. cbn [map_result] in H.
  unfold flk_view in H. symmetry in H.
  exact (find_step_gs_labels _ _ _ _ _ _ _ _ _ _ _ Hm Hst (gen_grouping_partition ord (k_met self) Ho (k_st self) coords) H).
Qed.

Definition dframe_ok (npp : list Z -> Q -> Q) (P : fparams) (perc : Q) (sh : list Z) (pf : image -> image)
           (dets : rframe -> list pt) (fr : rframe) : Prop :=
  shape (pf (r_image fr)) = sh /\
  (forall t0, frame_thr npp (pf (r_image fr)) (r_no fr) (None, None) perc = Some t0 -> (0 <= t0)%Q) /\
  separated (fk P) (sepk P) (dets fr) /\ Forall (fun p => length p = length sh) (dets fr).

Theorem gen_driver_safe npp ord gd ch k max_size r0 rest sr sep diam perc mm pf bl kw sh out :
  ord_ok ord ->
  let ndim := py_len (np_shape (r_image r0)) in
  let sr' := validate_tup sr ndim in
  let sep' := validate_tup sep ndim in
  let d' := match diam with None => sep' | Some d => validate_tup d ndim end in
  let pf' := match pf with None => identity_proc | Some f => f end in
  let dets := detections gd ch k sep' d' perc mm pf' bl in
  let P := params_of (py_FindLinker_init k sr' sep' (Some d') mm perc kw) in
  0 < k -> 0 <= t_v sr -> 0 < t_v sep -> 0 <= t_v d' / (2 * k) -> metric_ok (fmet P) ->
  Forall (fun p => length p = length sh) (dets r0) ->
  Forall (dframe_ok npp P perc sh pf' dets) rest ->
  py_find_link_iter (gen_reloc npp) ord gd ch k max_size (r0, rest) sr sep diam perc mm pf bl kw = Some (Ok out) ->
  exists labs0 out', out = (labs0, dets r0) :: out' /\ length labs0 = length (dets r0) /\ NoDup labs0 /\
    run_ok (fmet P) (fk P) (sepk P) (off_margin sh (rad P)) [dets r0]
           (map (frame_of (gen_reloc npp) (py_FindLinker_init k sr' sep' (Some d') mm perc kw) dets pf') rest) out'.
Proof.
  intros Ho ndim sr' sep' d' pf' dets P Hk Hsr Hsep Hr Hm Hd0 Hfr H.
  destruct (margins_cover (np_shape (r_image r0)) (tup_map (fun d => num_half_int k d) d')) eqn:Emc.
  { rewrite (py_find_link_iter_eq (gen_reloc npp) ord gd ch k max_size r0 rest sr sep diam perc mm pf bl kw) in H.
    cbv zeta in H. fold ndim sr' sep' d' in H. rewrite Emc in H. discriminate. }
  rewrite (py_find_link_iter_model (gen_reloc npp) ord gd ch k max_size r0 rest sr sep diam perc mm pf bl kw Ho Emc) in H.
  inversion H as [H']. clear H.
  destruct (init_covers k sr' sep' (Some d') mm perc kw Hk Hsr Hsep Hr) as [Hc Hf]. fold P in Hc, Hf.
  assert (HS : 0 < sepk P) by exact Hsep.
  eapply (find_link_gs_safe (fmet P) (kw_memory kw) max_size (length sh) (fk P) (sepk P) (off_margin sh (rad P))
            (gen_grouping ord (fmet P)) Hm HS (gen_grouping_partition ord (fmet P) Ho)); [exact Hd0| |exact H'].
  rewrite Forall_map. eapply Forall_impl; [|exact Hfr].
  intros fr [Hsh [Ht [Hs Hl]]]. unfold input_ok, frame_of. cbn [fst snd]. split; [|split; assumption].
  rewrite <- Hsh. apply gen_reloc_ok; assumption.
Qed.
