(* Route T for the array-based solver: the kernel GENERATED from the current source text of
   _numba_subnet_norecur (Gen/numbakernel.v, by tools/py2coq_numbakernel.py) computes, for every
   input whose partial sums stay below the float literal 1e23 used as infinity, what the stack
   machine of Model/Iterative.v computes with the switches (ties := true, up := true) - hence
   (Proofs/Iterative.v: iterative_optimal) an optimal assignment.

     nk_step          one machine step = exactly one iteration of the generated loop body
     nk_loop_machine  the generated `while 1` loop from any reachable state
     py_kernel_machine / py_kernel_optimal   the whole generated def *)
From Coq Require Import ZArith List Bool Arith Lia.
From TP Require Import Model.Assign Model.Link Model.Iterative Proofs.BnB Proofs.Iterative
     Model.PyLinker Model.PyIterative Model.PyNumbakernel Gen.numbakernel Model.NumbaGenCheck
     Proofs.IterativeGen.
Import ListNotations.
Open Scope Z_scope.

(* ---------- arrays ---------- *)
Lemma set_nth_length {T} (l : list T) : forall p v, length (set_nth l p v) = length l.
Proof. induction l as [|a l IH]; intros [|p] v; cbn; try reflexivity. rewrite IH. reflexivity. Qed.

Lemma nth_error_set_nth_eq {T} (l : list T) : forall p v, (p < length l)%nat -> nth_error (set_nth l p v) p = Some v.
Proof. induction l as [|a l IH]; intros [|p] v H; cbn in *; try lia; [reflexivity|]. apply IH. lia. Qed.

Lemma nth_error_set_nth_neq {T} (l : list T) : forall p q v, p <> q -> nth_error (set_nth l p v) q = nth_error l q.
Proof.
  induction l as [|a l IH]; intros [|p] [|q] v H; cbn; try reflexivity; try congruence.
  apply IH. congruence.
Qed.

Lemma py_set_index_nat {T} (l : list T) (p : nat) v : (p < length l)%nat -> py_set_index l (Z.of_nat p) v = Some (set_nth l p v).
Proof.
  intros H. unfold py_set_index, py_pos.
  destruct (0 <=? Z.of_nat p) eqn:E; [|apply Z.leb_gt in E; lia].
  destruct (Z.of_nat p <? Z.of_nat (length l)) eqn:E2; [|apply Z.ltb_ge in E2; lia].
  rewrite Nat2Z.id. reflexivity.
Qed.

Lemma firstn_set_nth_ge {T} (l : list T) : forall k p v, (k <= p)%nat -> firstn k (set_nth l p v) = firstn k l.
Proof.
  induction l as [|a l IH]; intros [|k] [|p] v H; cbn; try reflexivity; try lia.
  rewrite IH by lia. reflexivity.
Qed.

Lemma firstn_S_set_nth {T} (l : list T) : forall p v, (p < length l)%nat -> firstn (S p) (set_nth l p v) = firstn p l ++ [v].
Proof.
  induction l as [|a l IH]; intros [|p] v H; cbn in *; try lia; [reflexivity|].
  rewrite <- IH by lia. reflexivity.
Qed.

Lemma firstn_S_nth {T} (l : list T) : forall p x, nth_error l p = Some x -> firstn (S p) l = firstn p l ++ [x].
Proof.
  induction l as [|a l IH]; intros [|p] x H; cbn in *; try discriminate; [inversion H; reflexivity|].
  rewrite <- (IH _ _ H). reflexivity.
Qed.

Lemma firstn_firstn_le {T} (l : list T) k p : (k <= p)%nat -> firstn k (firstn p l) = firstn k l.
Proof. intros H. rewrite firstn_firstn. f_equal. lia. Qed.

(* ---------- for loops ---------- *)
Lemma for_list_inv {T S R} (body : T -> S -> outcome S R) (P : nat -> S -> Prop) : forall l k s,
  P k s ->
  (forall i x s, nth_error l i = Some x -> P (k + i)%nat s -> exists s', body x s = Normal s' /\ P (Datatypes.S (k + i)) s') ->
  exists s', for_list body l s = Normal s' /\ P (k + length l)%nat s'.
Proof.
  induction l as [|x l IH]; intros k s HP Hstep.
  - exists s. split; [reflexivity|]. cbn [length]. rewrite Nat.add_0_r. exact HP.
  - destruct (Hstep 0%nat x s eq_refl) as [s1 [E1 P1]]; [rewrite Nat.add_0_r; exact HP|].
    cbn [for_list]. rewrite E1. rewrite Nat.add_0_r in P1.
    destruct (IH (Datatypes.S k) s1 P1) as [s' [E' P']].
    + intros i y s0 Hn HP0.
      replace (Datatypes.S k + i)%nat with (k + Datatypes.S i)%nat in * by lia.
      apply (Hstep (Datatypes.S i) y s0 Hn). exact HP0.
    + exists s'. split; [exact E'|]. cbn [length]. replace (k + Datatypes.S (length l))%nat with (Datatypes.S k + length l)%nat by lia. exact P'.
Qed.

Lemma py_range_nth {T} (L : list T) i x : nth_error (py_range (py_len L)) i = Some x -> x = Z.of_nat i /\ (i < length L)%nat.
Proof.
  unfold py_len. generalize (length L). intros n. unfold py_range. rewrite Nat2Z.id. intros H.
  rewrite nth_error_map in H. destruct (nth_error (seq 0 n) i) eqn:E; [|discriminate].
  injection H as H. subst x.
  assert (Hlt : (i < n)%nat).
  { assert (Hs : nth_error (seq 0 n) i <> None) by congruence. apply nth_error_Some in Hs. rewrite seq_length in Hs. exact Hs. }
  rewrite (nth_error_nth' _ 0%nat) in E by (rewrite seq_length; exact Hlt).
  rewrite seq_nth in E by exact Hlt. injection E as E. subst n0. split; [reflexivity|exact Hlt].
Qed.

Lemma py_range_length {T} (L : list T) : length (py_range (py_len L)) = length L.
Proof. unfold py_range, py_len. rewrite map_length, seq_length, Nat2Z.id. reflexivity. Qed.

(* ---------- the bound of the partial sums ---------- *)
Lemma max_cost_nonneg cs : 0 <= max_cost cs.
Proof. induction cs as [|c cs IH]; [cbn; lia|]. change (max_cost (c :: cs)) with (Z.max (snd c) (max_cost cs)). lia. Qed.
Lemma max_cost_ge cs c : In c cs -> snd c <= max_cost cs.
Proof.
  induction cs as [|c0 cs IH]; intros H; [inversion H|]. change (max_cost (c0 :: cs)) with (Z.max (snd c0) (max_cost cs)).
  destruct H as [E|H]; [subst; lia|apply IH in H; lia].
Qed.
Lemma bound_sum_firstn_S A : forall p cs, nth_error A p = Some cs -> bound_sum (firstn (Datatypes.S p) A) = bound_sum (firstn p A) + max_cost cs.
Proof.
  induction A as [|a A IH]; intros [|p] cs H; cbn [nth_error] in H; try discriminate.
  - inversion H; subst. unfold bound_sum. cbn [firstn fold_right]. lia.
  - change (firstn (Datatypes.S (Datatypes.S p)) (a :: A)) with (a :: firstn (Datatypes.S p) A).
    change (firstn (Datatypes.S p) (a :: A)) with (a :: firstn p A).
    change (bound_sum (a :: firstn (Datatypes.S p) A)) with (max_cost a + bound_sum (firstn (Datatypes.S p) A)).
    change (bound_sum (a :: firstn p A)) with (max_cost a + bound_sum (firstn p A)).
    rewrite (IH _ _ H). lia.
Qed.
Lemma bound_sum_firstn_le A : forall p, bound_sum (firstn p A) <= bound_sum A.
Proof.
  induction A as [|a A IH]; intros [|p]; cbn [firstn]; try (unfold bound_sum; cbn [fold_right]; lia).
  - pose proof (max_cost_nonneg a). specialize (IH 0%nat). cbn [firstn] in IH.
    change (bound_sum (a :: A)) with (max_cost a + bound_sum A). unfold bound_sum at 1. cbn [fold_right]. unfold bound_sum at 1 in IH. cbn [fold_right] in IH. lia.
  - specialize (IH p). change (bound_sum (a :: A)) with (max_cost a + bound_sum A).
    change (bound_sum (a :: firstn p A)) with (max_cost a + bound_sum (firstn p A)). lia.
Qed.

(* ---------- the end of an iteration: the if-chain on delta ---------- *)
Ltac nks :=
  unfold set_nk_ncands, set_nk_candsarray, set_nk_dists2array, set_nk_cur_assignments, set_nk_cur_sums, set_nk_tmp_assignments,
         set_nk_best_assignments, set_nk_nj, set_nk_tmp_sum, set_nk_best_sum, set_nk_j, set_nk_loopcount, set_nk_delta, set_nk_flag;
  cbn [nk_ncands nk_candsarray nk_dists2array nk_cur_assignments nk_cur_sums nk_tmp_assignments nk_best_assignments nk_nj
       nk_tmp_sum nk_best_sum nk_j nk_loopcount nk_delta nk_flag bind fst snd].

Lemma tail_return nc ca da cura sums tmp besta nj tsum bsum cnt flag :
  nk_tail (mk_nkl nc ca da cura sums tmp besta nj tsum bsum 0 cnt (-1) flag)
  = Return (cnt, mk_nkl nc ca da cura sums tmp besta nj tsum bsum 0 cnt (-1) flag).
Proof. reflexivity. Qed.

Lemma tail_up nc ca da cura sums tmp besta nj tsum bsum (q : nat) cnt flag v :
  nth_error tmp q = Some v ->
  nk_tail (mk_nkl nc ca da cura sums tmp besta nj tsum bsum (Z.of_nat (Datatypes.S q)) cnt (-1) flag)
  = Continue (mk_nkl nc ca da cura sums (set_nth tmp q (v + 1)) besta nj tsum bsum (Z.of_nat q) cnt (-1) flag).
Proof.
  intros H. unfold nk_tail. nks.
  destruct (0 <? Z.of_nat (Datatypes.S q)) eqn:E; [|apply Z.ltb_ge in E; lia].
  replace (Z.of_nat (Datatypes.S q) + -1) with (Z.of_nat q) by lia.
  rewrite py_index_nat, H. rewrite py_set_index_nat by (apply nth_error_Some; congruence). reflexivity.
Qed.

Lemma tail_down nc ca da cura sums tmp besta nj tsum bsum (p : nat) cnt flag :
  (Datatypes.S p < length sums)%nat -> (Datatypes.S p < length tmp)%nat ->
  nk_tail (mk_nkl nc ca da cura sums tmp besta nj tsum bsum (Z.of_nat p) cnt 1 flag)
  = Normal (mk_nkl nc ca da cura (set_nth sums (Datatypes.S p) tsum) (set_nth tmp (Datatypes.S p) 0) besta nj tsum bsum (Z.of_nat (Datatypes.S p)) cnt 1 flag).
Proof.
  intros H1 H2. unfold nk_tail. nks.
  replace (Z.of_nat p + 1) with (Z.of_nat (Datatypes.S p)) by lia.
  rewrite py_set_index_nat by exact H1. nks. rewrite py_set_index_nat by exact H2. reflexivity.
Qed.

Lemma tail_next nc ca da cura sums tmp besta nj tsum bsum (p : nat) cnt flag v :
  nth_error tmp p = Some v ->
  nk_tail (mk_nkl nc ca da cura sums tmp besta nj tsum bsum (Z.of_nat p) cnt 0 flag)
  = Normal (mk_nkl nc ca da cura sums (set_nth tmp p (v + 1)) besta nj tsum bsum (Z.of_nat p) cnt 0 flag).
Proof.
  intros H. unfold nk_tail. nks.
  rewrite py_index_nat, H. rewrite py_set_index_nat by (apply nth_error_Some; congruence). reflexivity.
Qed.

(* ---------- how the kernel's registers represent a machine state ---------- *)
Definition opt_list {T} (o : option T) : list T := match o with Some x => [x] | None => [] end.

Lemma existsb_rev' {T} (f : T -> bool) l : existsb f (rev l) = existsb f l.
Proof.
  induction l as [|x l IH]; [reflexivity|]. cbn [rev existsb]. rewrite existsb_app, IH. cbn [existsb].
  rewrite orb_false_r. apply orb_comm.
Qed.

Section Kernel.
Variable enc : nat -> Z.
Hypothesis enc_nonneg : forall d, 0 <= enc d.
Hypothesis enc_inj : forall d d', enc d = enc d' -> d = d'.
Variable A : list (list cand).
Variable ncands0 : list Z.
Variables cands0 dists0 : list (list Z).
Hypothesis Hin : kernel_inputs enc A ncands0 cands0 dists0.
Hypothesis Hbound : bound_sum A <= lit_1e23.
Variable ba0 : list Z.            (* best_assignments as handed in *)

Definition encf (c : cand) : Z := encd enc (fst c).

(* level at position p (= number of levels below): the candidates of source p are
   pre ++ [the one chosen, when a deeper level exists] ++ the ones not tried yet, and the cursor
   tmp_assignments[p] = len pre (it is advanced past the chosen one only when the search comes back up) *)
Fixpoint wfk (sums tmp : list Z) (stk : list level) (above : option cand) {struct stk} : Prop :=
  match stk with
  | [] => True
  | lv :: below =>
    (exists pre, nth_error A (length below) = Some (pre ++ opt_list above ++ l_cs lv) /\
                 nth_error tmp (length below) = Some (py_len pre)) /\
    nth_error sums (length below) = Some (l_cur lv) /\
    l_rest lv = skipn (Datatypes.S (length below)) A /\
    length (l_path lv) = length below /\
    l_taken lv = taken_of (l_path lv) /\
    l_cur lv <= bound_sum (firstn (length below) A) /\
    match below with
    | [] => True
    | lb :: _ => exists x, l_path lv = x :: l_path lb /\ wfk sums tmp below (Some x)
    end
  end.

Definition top_path (stk : list level) (cura : list Z) : Prop :=
  match stk with
  | [] => True
  | lv :: below => firstn (length below) cura = map encf (rev (l_path lv))
  end.

Definition best_ok (best : best_t) (bsum : Z) (besta : list Z) : Prop :=
  match best with
  | None => bsum = lit_1e23 /\ besta = ba0
  | Some (v, a) => bsum = v /\ besta = map encf a
  end.

Definition rep (stk : list level) (best : best_t) (cnt : Z) (st : nkl) : Prop :=
  nk_ncands st = ncands0 /\ nk_candsarray st = cands0 /\ nk_dists2array st = dists0 /\ nk_nj st = py_len A /\
  length (nk_cur_assignments st) = length A /\ length (nk_cur_sums st) = length A /\
  length (nk_tmp_assignments st) = length A /\ length (nk_best_assignments st) = length A /\
  nk_j st = py_len stk - 1 /\
  wfk (nk_cur_sums st) (nk_tmp_assignments st) stk None /\
  top_path stk (nk_cur_assignments st) /\
  best_ok best (nk_best_sum st) (nk_best_assignments st) /\
  nk_loopcount st = cnt.

Lemma wfk_ext sums tmp sums' tmp' : forall stk above,
  (forall q, (q < length stk)%nat -> nth_error sums' q = nth_error sums q) ->
  (forall q, (q < length stk)%nat -> nth_error tmp' q = nth_error tmp q) ->
  wfk sums tmp stk above -> wfk sums' tmp' stk above.
Proof.
  induction stk as [|lv below IH]; intros above H1 H2 H; [exact I|].
  cbn [wfk] in *. destruct H as [[pre [Ha Ht]] [Hs [Hr [Hl [Htk [Hb Hc]]]]]].
  cbn [length] in H1, H2.
  refine (conj _ (conj _ (conj Hr (conj Hl (conj Htk (conj Hb _)))))).
  - exists pre. split; [exact Ha|]. rewrite H2 by lia. exact Ht.
  - rewrite H1 by lia. exact Hs.
  - destruct below as [|lb below']; [exact I|]. destruct Hc as [x [Hx Hw]]. exists x. split; [exact Hx|].
    apply IH; [intros q Hq; apply H1; cbn [length] in *; lia|intros q Hq; apply H2; cbn [length] in *; lia|exact Hw].
Qed.

(* the scan over cur_assignments[:j] finds the destination iff the machine's taken set has it *)
Lemma scan_taken d c path :
  andb (existsb (fun y => Z.eqb y (encf (d, c))) (map encf (rev path))) (0 <=? encf (d, c)) = taken_b d (taken_of path).
Proof.
  unfold encf. cbn [fst]. destruct d as [v|].
  - cbn [encd taken_b]. pose proof (enc_nonneg v) as Hv. destruct (0 <=? enc v) eqn:E; [|apply Z.leb_gt in E; lia].
    rewrite andb_true_r. rewrite map_rev, existsb_rev'.
    induction path as [|[d' c'] path IH]; [reflexivity|].
    cbn [map existsb fst taken_of fold_right]. fold (taken_of path). rewrite IH.
    destruct d' as [w|]; cbn [encd add_taken existsb].
    + f_equal. destruct (Nat.eqb_spec v w) as [->|Hne]; [apply Z.eqb_refl|].
      apply Z.eqb_neq. intros Heq. apply Hne. symmetry. apply enc_inj. exact Heq.
    + replace (-1 =? enc v) with false; [reflexivity|]. symmetry. apply Z.eqb_neq. lia.
  - cbn [encd taken_b]. replace (0 <=? -1) with false by reflexivity. apply andb_false_r.
Qed.

Definition final_ok (best : best_t) (st : nkl) : Prop := best_ok best (nk_best_sum st) (nk_best_assignments st).

Ltac nk_start :=
  unfold nk_body;
  match goal with |- context [bind _ ?K] => change K with nk_tail end.

(* (a) the candidates of source j are exhausted: GO UP *)
Lemma head_empty ca da cura sums tmp besta nj tsum bsum (p : nat) cnt delta flag pre :
  nth_error A p = Some pre -> nth_error tmp p = Some (py_len pre) ->
  nk_body (mk_nkl (map py_len A) ca da cura sums tmp besta nj tsum bsum (Z.of_nat p) cnt delta flag)
  = nk_tail (mk_nkl (map py_len A) ca da cura sums tmp besta nj tsum bsum (Z.of_nat p) (cnt + 1) (-1) flag).
Proof.
  intros Ha Ht. nk_start. nks.
  rewrite py_index_nat, Ht. rewrite py_index_nat, (map_nth_error py_len _ _ Ha). rewrite Z.leb_refl. nks. reflexivity.
Qed.

(* (b) the partial sum exceeds the incumbent: GO UP *)
Lemma head_exceeds ca da cura sums tmp besta nj tsum bsum (p : nat) cnt delta flag (pre : list cand) d c (cs' : list cand) cur :
  nth_error A p = Some (pre ++ (d, c) :: cs') -> nth_error tmp p = Some (py_len pre) ->
  nth_error sums p = Some cur -> py_index2 da (Z.of_nat p) (py_len pre) = Some c ->
  (bsum <? cur + c) = true ->
  nk_body (mk_nkl (map py_len A) ca da cura sums tmp besta nj tsum bsum (Z.of_nat p) cnt delta flag)
  = nk_tail (mk_nkl (map py_len A) ca da cura sums tmp besta nj (cur + c) bsum (Z.of_nat p) (cnt + 1) (-1) flag).
Proof.
  intros Ha Ht Hs Hd Hex. nk_start. nks.
  rewrite py_index_nat, Ht. rewrite py_index_nat, (map_nth_error py_len _ _ Ha). cbv iota beta zeta.
  match goal with |- context [if ?a <=? ?b then _ else _] =>
    assert (E : (a <=? b) = false) by (apply Z.leb_gt; unfold py_len; rewrite app_length; cbn [length]; lia); rewrite E end. rewrite py_index_nat, Hs, Hd. nks. rewrite Hex. nks. reflexivity.
Qed.

Lemma set_nth_mid {T} (l1 : list T) z r y : set_nth (l1 ++ z :: r) (length l1) y = l1 ++ y :: r.
Proof. induction l1 as [|a l1 IH]; cbn; [reflexivity|]. rewrite IH. reflexivity. Qed.

Lemma skipn_nth_cons {T} (l : list T) : forall k z, nth_error l k = Some z -> skipn k l = z :: skipn (Datatypes.S k) l.
Proof.
  induction l as [|a l IH]; intros [|k] z H; cbn in *; try discriminate; [inversion H; reflexivity|].
  apply IH. exact H.
Qed.

(* (c)-(e) a candidate that has to be considered: the scan for its destination among
   cur_assignments[:j], then "next candidate" / a leaf (GO UP) / GO DOWN *)
Lemma head_cons ca da cura sums tmp besta tsum bsum (p : nat) cnt delta flag (pre : list cand) d c (cs' : list cand) cur x :
  nth_error A p = Some (pre ++ (d, c) :: cs') -> nth_error tmp p = Some (py_len pre) ->
  nth_error sums p = Some cur -> py_index2 da (Z.of_nat p) (py_len pre) = Some c ->
  py_index2 ca (Z.of_nat p) (py_len pre) = Some x ->
  (bsum <? cur + c) = false ->
  length cura = length A -> length besta = length A ->
  let fl := if existsb (fun y => Z.eqb y x) (firstn p cura) then 1 else 0 in
  nk_body (mk_nkl (map py_len A) ca da cura sums tmp besta (py_len A) tsum bsum (Z.of_nat p) cnt delta flag)
  = if andb (negb (fl =? 0)) (0 <=? x)
    then nk_tail (mk_nkl (map py_len A) ca da cura sums tmp besta (py_len A) (cur + c) bsum (Z.of_nat p) (cnt + 1) 0 fl)
    else if (Z.of_nat p + 1 =? py_len A)
    then nk_tail (mk_nkl (map py_len A) ca da (set_nth cura p x) sums tmp (set_nth cura p x) (py_len A) (cur + c) (cur + c) (Z.of_nat p) (cnt + 1) (-1) fl)
    else nk_tail (mk_nkl (map py_len A) ca da (set_nth cura p x) sums tmp besta (py_len A) (cur + c) bsum (Z.of_nat p) (cnt + 1) 1 fl).
Proof.
  intros Ha Ht Hs Hd Hc Hex Lca Lba fl. nk_start. nks.
  rewrite py_index_nat, Ht. rewrite py_index_nat, (map_nth_error py_len _ _ Ha). cbv iota beta zeta.
  match goal with |- context [if ?a <=? ?b then _ else _] =>
    assert (E : (a <=? b) = false) by (apply Z.leb_gt; unfold py_len; rewrite app_length; cbn [length]; lia); rewrite E end. rewrite py_index_nat, Hs, Hd. nks. rewrite Hex. nks.
  assert (Hp : (p < length A)%nat) by (apply nth_error_Some; congruence).
  (* the scan *)
  match goal with |- context [for_list ?b ?l ?s] =>
    destruct (for_list_inv b (fun k s' => s' = set_nk_flag s (if existsb (fun y => Z.eqb y x) (firstn (Nat.min k p) cura) then 1 else 0)) l 0%nat s)
      as [s1 [E1 P1]] end.
  { reflexivity. }
  { intros i jt s0 Hn HP. cbn [Nat.add] in HP |- *. subst s0. apply py_range_nth in Hn. destruct Hn as [-> Hi].
    nks. rewrite py_index_nat. destruct (nth_error cura i) as [y|] eqn:Ey; [|apply nth_error_None in Ey; lia].
    rewrite Hc.
    destruct (Z.ltb_spec (Z.of_nat i) (Z.of_nat p)) as [Hlt|Hge].
    - rewrite (Nat.min_l (Datatypes.S i) p) by lia. rewrite (Nat.min_l i p) by lia.
      rewrite (firstn_S_nth _ _ _ Ey), existsb_app. cbn [existsb]. rewrite orb_false_r.
      destruct (y =? x); eexists; (split; [reflexivity|]); [rewrite orb_true_r|rewrite orb_false_r]; nks; reflexivity.
    - rewrite (Nat.min_r (Datatypes.S i) p) by lia. rewrite (Nat.min_r i p) by lia.
      destruct (y =? x); eexists; (split; [reflexivity|]); nks; reflexivity. }
  rewrite E1. cbn [Nat.add] in P1. rewrite py_range_length in P1. rewrite Nat.min_r in P1 by lia.
  fold fl in P1. subst s1. nks. rewrite Hc.
  assert (Hleaf : forall fl0 : Z,
    bind (for_list
            (fun (jtmp1 : Z) (st : nkl) =>
             match py_index (nk_cur_assignments st) jtmp1 with
             | Some x10 => match py_set_index (nk_best_assignments st) jtmp1 x10 with
                           | Some d11 => Normal (set_nk_best_assignments st d11)
                           | None => Raise IndexError end
             | None => Raise IndexError end) (py_range (py_len A))
            (mk_nkl (map py_len A) ca da (set_nth cura p x) sums tmp besta (py_len A) (cur + c) (cur + c) (Z.of_nat p) (cnt + 1) 0 fl0))
         (fun st => Normal (set_nk_delta st (-1)))
    = (Normal (mk_nkl (map py_len A) ca da (set_nth cura p x) sums tmp (set_nth cura p x) (py_len A) (cur + c) (cur + c) (Z.of_nat p) (cnt + 1) (-1) fl0)
       : outcome nkl nk_result)).
  { intros fl0.
    match goal with |- context [for_list ?b ?l ?s] =>
      destruct (for_list_inv b (fun k s' => s' = set_nk_best_assignments s (firstn k (set_nth cura p x) ++ skipn k besta)) l 0%nat s)
        as [s1 [E2 P2]] end.
    { reflexivity. }
    { intros i jt s0 Hn HP. cbn [Nat.add] in HP |- *. subst s0. apply py_range_nth in Hn. destruct Hn as [-> Hi].
      nks. rewrite py_index_nat.
      destruct (nth_error (set_nth cura p x) i) as [y|] eqn:Ey; [|apply nth_error_None in Ey; rewrite set_nth_length in Ey; lia].
      destruct (nth_error besta i) as [z|] eqn:Ez; [|apply nth_error_None in Ez; lia].
      assert (Lf : length (firstn i (set_nth cura p x)) = i) by (rewrite firstn_length, set_nth_length; lia).
      rewrite py_set_index_nat by (rewrite app_length, Lf, skipn_length; lia).
      eexists. split; [reflexivity|]. nks. f_equal.
      rewrite (skipn_nth_cons _ _ _ Ez).
      pose proof (set_nth_mid (firstn i (set_nth cura p x)) z (skipn (Datatypes.S i) besta) y) as Hm. rewrite Lf in Hm. rewrite Hm.
      rewrite (firstn_S_nth _ _ _ Ey), <- app_assoc. reflexivity. }
    rewrite E2. cbn [Nat.add] in P2. rewrite py_range_length in P2. subst s1. nks.
    rewrite skipn_all2 by lia. rewrite app_nil_r. rewrite firstn_all2 by (rewrite set_nth_length; lia). reflexivity. }
  destruct (negb (fl =? 0)); cbn [andb]; [destruct (0 <=? x)|]; nks; [reflexivity| |];
    (rewrite py_set_index_nat by lia; nks;
     destruct (Z.of_nat p + 1 =? py_len A); [|reflexivity]);
    exact (f_equal (fun o => bind o nk_tail) (Hleaf fl)).
Qed.

(* ---------- one machine step = one iteration ---------- *)
Lemma firstn_app_exact {T} (l1 l2 : list T) n : length l1 = n -> firstn n (l1 ++ l2) = l1.
Proof. intros <-. rewrite firstn_app, Nat.sub_diag, firstn_all. cbn [firstn]. apply app_nil_r. Qed.

(* GO UP from any state whose registers represent (lv :: below): the level is dropped and the cursor
   of the level below moves past the candidate it had chosen; from the bottom level the kernel returns *)
Lemma pop_step cura1 sums tmp besta1 tsum1 bsum1 flag1 lv below best' cnt1 :
  length cura1 = length A -> length sums = length A -> length tmp = length A -> length besta1 = length A ->
  wfk sums tmp (lv :: below) None ->
  top_path (lv :: below) cura1 ->
  best_ok best' bsum1 besta1 ->
  let st1 := mk_nkl (map py_len A) cands0 dists0 cura1 sums tmp besta1 (py_len A) tsum1 bsum1 (Z.of_nat (length below)) cnt1 (-1) flag1 in
  match below with
  | [] => nk_tail st1 = Return (cnt1, st1) /\ final_ok best' st1
  | _ => exists st', nk_tail st1 = Continue st' /\ rep below best' cnt1 st'
  end.
Proof.
  intros Lca Lcs Lta Lba Hwf Htop Hbest st1.
  destruct Hin as [Hnc [Hlc Hcd]].
  destruct below as [|lb below'].
  - split; [apply tail_return|exact Hbest].
  - cbn [wfk] in Hwf. destruct Hwf as [_ [_ [_ [_ [_ [_ [x [Hx Hwb]]]]]]]].
    pose proof Hwb as Hwb0.
    cbn [wfk opt_list] in Hwb. destruct Hwb as [[preb [Hab Htb]] [Hsb [Hrb [Hlb [Htkb [Hbb Hcb]]]]]].
    eexists. split; [apply (tail_up _ _ _ _ _ _ _ _ _ _ (length below') _ _ _ Htb)|].
    unfold rep. nks.
    refine (conj (eq_sym Hnc) (conj eq_refl (conj eq_refl (conj eq_refl (conj Lca (conj Lcs (conj _ (conj Lba (conj _ (conj _ (conj _ (conj Hbest eq_refl)))))))))))).
    + rewrite set_nth_length. exact Lta.
    + rewrite py_len_cons. unfold py_len. lia.
    + cbn [wfk opt_list app].
      refine (conj _ (conj Hsb (conj Hrb (conj Hlb (conj Htkb (conj Hbb _)))))).
      * exists (preb ++ [x]). split; [rewrite <- app_assoc; exact Hab|].
        rewrite nth_error_set_nth_eq by (apply nth_error_Some; congruence).
        rewrite py_len_app. reflexivity.
      * destruct below' as [|lb2 below2]; [exact I|]. destruct Hcb as [x2 [Hx2 Hw2]]. exists x2. split; [exact Hx2|].
        eapply wfk_ext; [intros q Hq; reflexivity| |exact Hw2].
        intros q Hq. apply nth_error_set_nth_neq. cbn [length] in *. lia.
    + cbn [top_path] in Htop |- *. cbn [length] in Htop.
      rewrite Hx in Htop. cbn [rev] in Htop. rewrite map_app in Htop.
      rewrite <- (firstn_firstn_le cura1 (length below') (Datatypes.S (length below'))) by lia.
      rewrite Htop. apply firstn_app_exact. rewrite map_length, rev_length. exact Hlb.
Qed.

Lemma skipn_nil_len' {T} (l : list T) n : skipn n l = [] -> (length l <= n)%nat.
Proof. apply skipn_nil_len. Qed.

Lemma nk_step lv below best cnt st :
  rep (lv :: below) best cnt st ->
  match fst (mstep true true (lv :: below, best)) with
  | [] => exists st', nk_body st = Return (cnt + 1, st') /\ final_ok (snd (mstep true true (lv :: below, best))) st'
  | _ => exists st', (nk_body st = Normal st' \/ nk_body st = Continue st') /\
                     rep (fst (mstep true true (lv :: below, best))) (snd (mstep true true (lv :: below, best))) (cnt + 1) st'
  end.
Proof.
  intros Hrep. destruct st as [nc ca da cura sums tmp besta nj tsum bsum j cnt0 delta flag].
  unfold rep in Hrep. cbn [nk_ncands nk_candsarray nk_dists2array nk_cur_assignments nk_cur_sums nk_tmp_assignments nk_best_assignments nk_nj
       nk_tmp_sum nk_best_sum nk_j nk_loopcount nk_delta nk_flag] in Hrep.
  destruct Hrep as [-> [-> [-> [-> [Lca [Lcs [Lta [Lba [Hj [Hwf [Htop [Hbest ->]]]]]]]]]]]].
  pose proof Hwf as Hwf0. pose proof Htop as Htop0.
  destruct lv as [cs rest taken cur path].
  cbn [wfk l_cs l_rest l_taken l_cur l_path opt_list app] in Hwf.
  destruct Hwf as [[pre [Ha Ht]] [Hs [Hr [Hl [Htk [Hb Hc]]]]]].
  cbn [top_path l_path] in Htop.
  assert (Hj' : j = Z.of_nat (length below)) by (rewrite Hj, py_len_cons; unfold py_len; lia). clear Hj. subst j.
  pose proof Hin as [Hnc [Hlc Hcd]]. rewrite Hnc.
  assert (Hp : (length below < length A)%nat) by (apply nth_error_Some; congruence).
  assert (Hpop : forall cura1 besta1 tsum1 bsum1 flag1 best',
            length cura1 = length A -> length besta1 = length A ->
            firstn (length below) cura1 = map encf (rev path) -> best_ok best' bsum1 besta1 ->
            nk_body (mk_nkl (map py_len A) cands0 dists0 cura sums tmp besta (py_len A) tsum bsum (Z.of_nat (length below)) cnt delta flag)
            = nk_tail (mk_nkl (map py_len A) cands0 dists0 cura1 sums tmp besta1 (py_len A) tsum1 bsum1 (Z.of_nat (length below)) (cnt + 1) (-1) flag1) ->
            match below with
            | [] => exists st', nk_body (mk_nkl (map py_len A) cands0 dists0 cura sums tmp besta (py_len A) tsum bsum (Z.of_nat (length below)) cnt delta flag)
                                = Return (cnt + 1, st') /\ final_ok best' st'
            | _ => exists st', (nk_body (mk_nkl (map py_len A) cands0 dists0 cura sums tmp besta (py_len A) tsum bsum (Z.of_nat (length below)) cnt delta flag) = Normal st' \/
                                nk_body (mk_nkl (map py_len A) cands0 dists0 cura sums tmp besta (py_len A) tsum bsum (Z.of_nat (length below)) cnt delta flag) = Continue st') /\
                               rep below best' (cnt + 1) st'
            end).
  { intros cura1 besta1 tsum1 bsum1 flag1 best' L1 L2 Hf Hbo E.
    pose proof (pop_step cura1 sums tmp besta1 tsum1 bsum1 flag1 _ below best' (cnt + 1) L1 Lcs Lta L2 Hwf0 Hf Hbo) as Hp0.
    cbv zeta in Hp0. rewrite <- E in Hp0. destruct below as [|lb below'].
    - destruct Hp0 as [E0 F0]. eexists. split; [exact E0|exact F0].
    - destruct Hp0 as [st' [E0 R0]]. exists st'. split; [right; exact E0|exact R0]. }
  unfold mstep. cbn [l_cs l_rest l_taken l_cur l_path].
  destruct cs as [|[d c] cs'].
  { (* exhausted *)
    rewrite app_nil_r in Ha. cbn [fst snd].
    apply (Hpop cura besta tsum bsum flag best Lca Lba Htop Hbest).
    eapply head_empty; eassumption. }
  assert (Hcdp := Hcd _ _ (length pre) (d, c) Ha (nth_error_pre pre (d, c) cs')).
  destruct Hcdp as [Hcx Hdx]. cbn [fst snd] in Hcx, Hdx. fold (encf (d, c)) in Hcx.
  change (Z.of_nat (length pre)) with (py_len pre) in Hcx, Hdx.
  assert (Hsum : cur + c <= lit_1e23).
  { pose proof (bound_sum_firstn_S _ _ _ Ha) as HS. pose proof (bound_sum_firstn_le A (Datatypes.S (length below))).
    match type of HS with _ = _ + ?M => assert (Hm : c <= M) by (apply (max_cost_ge _ (d, c)); apply in_elt) end.
    lia. }
  assert (Hexc : exceeds (cur + c) best = (bsum <? cur + c)).
  { unfold exceeds. destruct best as [[bv bp]|]; cbn [best_ok] in Hbest; destruct Hbest as [-> _]; [reflexivity|].
    symmetry. apply Z.ltb_ge. exact Hsum. }
  rewrite Hexc. destruct (bsum <? cur + c) eqn:Eex.
  { cbn [fst snd].
    apply (Hpop cura besta (cur + c) bsum flag best Lca Lba Htop Hbest).
    exact (head_exceeds _ _ _ _ _ _ _ _ _ _ _ _ _ pre d c cs' cur Ha Ht Hs Hdx Eex). }
  pose proof (head_cons cands0 dists0 cura sums tmp besta tsum bsum (length below) cnt delta flag pre d c cs' cur (encf (d, c))
                Ha Ht Hs Hdx Hcx Eex Lca Lba) as Hhead.
  cbv zeta in Hhead. rewrite Htop in Hhead.
  assert (Hflag : andb (negb ((if existsb (fun y => y =? encf (d, c)) (map encf (rev path)) then 1 else 0) =? 0)) (0 <=? encf (d, c))
                  = taken_b d taken).
  { rewrite Htk, <- (scan_taken d c path). f_equal. destruct (existsb _ _); reflexivity. }
  rewrite Hflag in Hhead.
  set (fl := if existsb (fun y => y =? encf (d, c)) (map encf (rev path)) then 1 else 0) in *.
  set (lv' := {| l_cs := cs'; l_rest := rest; l_taken := taken; l_cur := cur; l_path := path |}).
  assert (Hwf' : forall sums' tmp' above,
            (forall q, (q <= length below)%nat -> nth_error sums' q = nth_error sums q) ->
            (forall q, (q < length below)%nat -> nth_error tmp' q = nth_error tmp q) ->
            nth_error tmp' (length below) = Some (py_len pre + (match above with None => 1 | Some _ => 0 end)) ->
            (above = None \/ above = Some (d, c)) ->
            wfk sums' tmp' (lv' :: below) above).
  { intros sums' tmp' above H1 H2 H3 Hab. cbn [wfk lv' l_cs l_rest l_taken l_cur l_path].
    refine (conj _ (conj _ (conj Hr (conj Hl (conj Htk (conj Hb _)))))).
    - destruct Hab as [-> | ->]; cbn [opt_list app].
      + exists (pre ++ [(d, c)]). split; [rewrite <- app_assoc; exact Ha|]. rewrite H3, py_len_app. reflexivity.
      + exists pre. split; [exact Ha|]. rewrite H3. f_equal. lia.
    - rewrite H1 by lia. exact Hs.
    - destruct below as [|lb below']; [exact I|]. destruct Hc as [x [Hx Hw]]. exists x. split; [exact Hx|].
      eapply wfk_ext; [| |exact Hw]; intros q Hq; [apply H1|apply H2]; cbn [length] in *; lia. }
  destruct (taken_b d taken).
  { (* destination already used: next candidate *)
    cbn [fst snd]. rewrite (tail_next _ _ _ _ _ _ _ _ _ _ _ _ _ _ Ht) in Hhead.
    eexists. split; [left; exact Hhead|].
    unfold rep. nks.
    refine (conj (eq_sym Hnc) (conj eq_refl (conj eq_refl (conj eq_refl (conj Lca (conj Lcs (conj _ (conj Lba (conj _ (conj _ (conj Htop (conj Hbest eq_refl)))))))))))).
    - rewrite set_nth_length. exact Lta.
    - rewrite !py_len_cons. unfold py_len. lia.
    - apply Hwf'; [reflexivity| |rewrite nth_error_set_nth_eq by lia; reflexivity|left; reflexivity].
      intros q Hq. apply nth_error_set_nth_neq. lia. }
  destruct rest as [|cs2 rest2].
  { (* the last source: a leaf, recorded; GO UP *)
    cbn zeta. cbn [fst snd].
    symmetry in Hr. apply skipn_nil_len in Hr.
    assert (HSp : Datatypes.S (length below) = length A) by lia.
    assert (E1 : (Z.of_nat (length below) + 1 =? py_len A) = true) by (apply Z.eqb_eq; unfold py_len; lia).
    rewrite E1 in Hhead.
    assert (Himp : improve_t true (cur + c) ((d, c) :: path) best = Some (cur + c, rev ((d, c) :: path))).
    { unfold improve_t. destruct best as [[bv bp]|]; [|reflexivity]. cbn [best_ok] in Hbest. destruct Hbest as [-> _].
      apply Z.ltb_ge in Eex. destruct (Z.leb_spec (cur + c) bv); [reflexivity|lia]. }
    rewrite Himp.
    apply (Hpop (set_nth cura (length below) (encf (d, c))) (set_nth cura (length below) (encf (d, c))) (cur + c) (cur + c) fl);
      try (rewrite set_nth_length; exact Lca); [rewrite firstn_set_nth_ge by lia; exact Htop| |exact Hhead].
    cbn [best_ok]. split; [reflexivity|].
    rewrite <- (firstn_all (set_nth cura (length below) (encf (d, c)))). rewrite set_nth_length, Lca, <- HSp.
    rewrite firstn_S_set_nth by lia. rewrite Htop. cbn [rev]. rewrite map_app. reflexivity. }
  (* GO DOWN *)
  cbn [fst snd].
  symmetry in Hr. apply skipn_cons_nth in Hr. destruct Hr as [Hn2 Hr2].
  assert (HSp : (Datatypes.S (length below) < length A)%nat) by (apply nth_error_Some; congruence).
  assert (E1 : (Z.of_nat (length below) + 1 =? py_len A) = false) by (apply Z.eqb_neq; unfold py_len; lia).
  rewrite E1 in Hhead.
  rewrite tail_down in Hhead by lia.
  eexists. split; [left; exact Hhead|].
  unfold rep. nks.
  refine (conj (eq_sym Hnc) (conj eq_refl (conj eq_refl (conj eq_refl (conj _ (conj _ (conj _ (conj Lba (conj _ (conj _ (conj _ (conj Hbest eq_refl)))))))))))).
  - rewrite set_nth_length. exact Lca.
  - rewrite set_nth_length. exact Lcs.
  - rewrite set_nth_length. exact Lta.
  - rewrite !py_len_cons. unfold py_len. lia.
  - assert (Hinner : wfk (set_nth sums (Datatypes.S (length below)) (cur + c)) (set_nth tmp (Datatypes.S (length below)) 0) (lv' :: below) (Some (d, c))).
    { apply Hwf'; [| | |right; reflexivity].
      * intros q Hq. apply nth_error_set_nth_neq. lia.
      * intros q Hq. apply nth_error_set_nth_neq. lia.
      * rewrite nth_error_set_nth_neq by lia. rewrite Ht. f_equal. lia. }
    cbn [wfk l_cs l_rest l_taken l_cur l_path opt_list app length].
    refine (conj _ (conj _ (conj _ (conj _ (conj _ (conj _ _)))))).
    + exists []. split; [exact Hn2|]. rewrite nth_error_set_nth_eq by lia. reflexivity.
    + rewrite nth_error_set_nth_eq by lia. reflexivity.
    + symmetry. exact Hr2.
    + f_equal. exact Hl.
    + rewrite Htk. reflexivity.
    + pose proof (bound_sum_firstn_S _ _ _ Ha) as HS.
      match type of HS with _ = _ + ?M => assert (Hm : c <= M) by (apply (max_cost_ge _ (d, c)); apply in_elt) end.
      lia.
    + exists (d, c). split; [reflexivity|]. exact Hinner.
  - cbn [top_path l_path length]. rewrite firstn_S_set_nth by lia. rewrite Htop. cbn [rev]. rewrite map_app. reflexivity.
Qed.

(* ---------- the loop ---------- *)
Definition nk_cond : nkl -> bool := fun _ => true.

Theorem nk_loop_machine : forall n fuel stk best cnt st,
  stk <> [] -> rep stk best cnt st -> (cost_stk stk <= n)%nat -> (n <= fuel)%nat ->
  exists cnt' st', while_loop fuel nk_cond nk_body st = Return (cnt', st') /\
                   final_ok (unwind true true (stk, best)) st' /\ cnt < cnt' <= cnt + Z.of_nat (cost_stk stk).
Proof.
  induction n as [|n IH]; intros fuel stk best cnt st Hne Hrep Hc Hf.
  - destruct stk as [|lv below]; [congruence|]. pose proof (cost_stk_pos lv below). lia.
  - destruct stk as [|lv below]; [congruence|].
    destruct fuel as [|f]; [lia|].
    rewrite while_loop_step by reflexivity.
    pose proof (nk_step lv below best cnt st Hrep) as Hstep.
    pose proof (mstep_decreases true true (lv :: below) best ltac:(discriminate)) as Hdec.
    rewrite <- (mstep_unwind true true (lv :: below, best)).
    destruct (mstep true true (lv :: below, best)) as [stk' best'] eqn:Em. cbn [fst snd] in Hstep, Hdec.
    destruct stk' as [|lv2 below2].
    + destruct Hstep as [st' [E F]]. rewrite E. exists (cnt + 1), st'. split; [reflexivity|]. split; [exact F|].
      pose proof (cost_stk_pos lv below). lia.
    + destruct Hstep as [st' [E R]].
      destruct (IH f (lv2 :: below2) best' (cnt + 1) st' ltac:(discriminate) R ltac:(lia) ltac:(lia)) as [cnt' [st2 [E2 [F2 B2]]]].
      exists cnt', st2. split; [destruct E as [E|E]; rewrite E; exact E2|]. split; [exact F2|]. lia.
Qed.

End Kernel.

(* ---------- the whole generated kernel ---------- *)
Definition kernel_best (enc : nat -> Z) (ba0 : list Z) (b : best_t) (st : nkl) : Prop :=
  match b with
  | None => nk_best_assignments st = ba0
  | Some (v, a) => nk_best_sum st = v /\ nk_best_assignments st = map (fun c : cand => encd enc (fst c)) a
  end.

Theorem py_kernel_machine enc (A : list (list cand)) ncands cands dists cura sums tmp ba fuel :
  (forall d, 0 <= enc d) -> (forall d d', enc d = enc d' -> d = d') ->
  kernel_inputs enc A ncands cands dists -> bound_sum A <= lit_1e23 -> A <> [] ->
  length cura = length A -> length sums = length A -> length tmp = length A -> length ba = length A ->
  nth_error sums 0 = Some 0 -> nth_error tmp 0 = Some 0 ->
  (cost_full A <= fuel)%nat ->
  exists b cnt st', mrun true true (cost_full A) (minit A) = Some b /\
    py__numba_subnet_norecur fuel ncands cands dists cura sums tmp ba = Done (Some (cnt, st')) /\
    kernel_best enc ba b st' /\ 0 < cnt <= Z.of_nat (cost_full A).
Proof.
  intros Hnn Hinj Hin Hbd Hne Lca Lcs Lta Lba Hs0 Ht0 Hf.
  exists (unwind true true (minit A)).
  assert (Hrun : mrun true true (cost_full A) (minit A) = Some (unwind true true (minit A))).
  { apply mrun_terminates. destruct A as [|cs rest]; cbn; [lia|]. unfold cost_lv. cbn [l_cs l_rest]. lia. }
  destruct A as [|cs rest] eqn:EA; [congruence|]. rewrite <- EA in *.
  set (lv0 := {| l_cs := cs; l_rest := rest; l_taken := []; l_cur := 0; l_path := [] |}).
  pose proof Hin as [Hnc [Hlc Hcd]].
  assert (Hrep : rep enc A ncands cands dists ba [lv0] None 0
                   (mk_nkl ncands cands dists cura sums tmp ba (py_len cands) 0 lit_1e23 0 0 0 0)).
  { unfold rep. nks.
    refine (conj eq_refl (conj eq_refl (conj eq_refl (conj _ (conj Lca (conj Lcs (conj Lta (conj Lba (conj eq_refl (conj _ (conj eq_refl (conj (conj eq_refl eq_refl) eq_refl)))))))))))).
    - unfold py_len. rewrite Hlc. reflexivity.
    - cbn [wfk length lv0 l_cs l_rest l_taken l_cur l_path opt_list app].
      refine (conj _ (conj Hs0 (conj _ (conj eq_refl (conj eq_refl (conj _ I)))))).
      + exists []. split; [rewrite EA; reflexivity|exact Ht0].
      + rewrite EA. reflexivity.
      + cbn [firstn]. unfold bound_sum. cbn [fold_right]. lia. }
  destruct (nk_loop_machine enc Hnn Hinj A ncands cands dists Hin Hbd ba (cost_full A) fuel [lv0] None 0 _ ltac:(discriminate) Hrep)
    as [cnt [st' [E [F B]]]].
  { rewrite EA. cbn [cost_stk fold_right]. unfold cost_lv. cbn [l_cs l_rest lv0 cost_full]. lia. }
  { exact Hf. }
  exists cnt, st'. split; [exact Hrun|]. split.
  - unfold py__numba_subnet_norecur.
    match goal with |- context [while_loop fuel ?c ?b ?s] => change b with nk_body; change c with nk_cond end.
    cbv beta iota zeta delta [blank_nkl set_nk_ncands set_nk_candsarray set_nk_dists2array set_nk_cur_assignments set_nk_cur_sums
      set_nk_tmp_assignments set_nk_best_assignments set_nk_nj set_nk_tmp_sum set_nk_best_sum set_nk_j set_nk_loopcount set_nk_delta set_nk_flag
      nk_ncands nk_candsarray nk_dists2array nk_cur_assignments nk_cur_sums nk_tmp_assignments nk_best_assignments nk_nj
      nk_tmp_sum nk_best_sum nk_j nk_loopcount nk_delta nk_flag].
    exact (f_equal fn_end_v E).
  - split.
    + unfold final_ok, best_ok in F. unfold kernel_best, minit. rewrite EA. fold lv0.
      change (unwind true true ([lv0], None)) with (unwind true true ([lv0], None)) in F.
      destruct (unwind true true ([lv0], None)) as [[v a]|]; [exact F|destruct F as [_ F]; exact F].
    + assert (Hcs : cost_stk [lv0] = cost_full A).
      { rewrite EA. cbn [cost_stk fold_right]. unfold cost_lv. cbn [l_cs l_rest lv0 cost_full]. lia. }
      rewrite Hcs in B. lia.
Qed.

(* ... hence an optimum (Proofs/Iterative.v: iterative_optimal with ties := true, up := true) *)
Theorem py_kernel_optimal enc (A : list (list cand)) ncands cands dists cura sums tmp ba fuel :
  (forall d, 0 <= enc d) -> (forall d d', enc d = enc d' -> d = d') ->
  kernel_inputs enc A ncands cands dists -> bound_sum A <= lit_1e23 -> A <> [] ->
  length cura = length A -> length sums = length A -> length tmp = length A -> length ba = length A ->
  nth_error sums 0 = Some 0 -> nth_error tmp 0 = Some 0 ->
  (cost_full A <= fuel)%nat ->
  nonneg A -> Forall sorted A -> Forall (fun cs => exists c, In (None, c) cs) A ->
  exists cnt st' a,
    py__numba_subnet_norecur fuel ncands cands dists cura sums tmp ba = Done (Some (cnt, st')) /\
    nk_best_assignments st' = map (fun c : cand => encd enc (fst c)) a /\
    completion A [] a /\ nk_best_sum st' = total a /\
    (forall sigma, completion A [] sigma -> total a <= total sigma).
Proof.
  intros Hnn Hinj Hin Hbd Hne Lca Lcs Lta Lba Hs0 Ht0 Hf Hn Hso Hnull.
  destruct (py_kernel_machine enc A ncands cands dists cura sums tmp ba fuel Hnn Hinj Hin Hbd Hne Lca Lcs Lta Lba Hs0 Ht0 Hf)
    as [b [cnt [st' [Hrun [E [Hk _]]]]]].
  destruct b as [[v a]|].
  - destruct (iterative_optimal true true A v a Hne Hn Hso Hrun) as [Hc [Hv Ho]].
    destruct Hk as [K1 K2]. exists cnt, st', a. repeat split; try assumption; [congruence|].
    intros sigma Hs. rewrite <- Hv. apply Ho. exact Hs.
  - exfalso. destruct (completion_exists A [] Hnull) as [sigma Hc].
    rewrite machine_is_recursive_search in Hrun. injection Hrun as Hrun.
    destruct A as [|cs rest]; [congruence|]. unfold solve_g in Hrun.
    pose proof (sg_le_all true true rest cs Hn Hso [] 0 [] None sigma Hc) as Hle. rewrite Hrun in Hle. exact Hle.
Qed.
