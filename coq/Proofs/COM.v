(* Proofs about Model/COM.v (property C07):
   - the generic numba kernel and the reference loop compute the same rows
     (position, mass, size^2, signal, raw_mass) for every image, radii, start,
     iteration limit, whenever every evaluated window has non-zero mass -- and the
     kernel divides by zero exactly when one has not;
   - every evaluated window lies inside the image;
   - the reported position is the brightness centroid of the window on which mass,
     size, signal and raw_mass are measured. *)
From Coq Require Import ZArith QArith Qabs List Bool Lia Qfield Lqa.
From TP Require Import Model.COM.
Import ListNotations.
Open Scope Z_scope.

(* ---------- lists ---------- *)
Lemma nth_map_seq : forall (A : Type) (f : nat -> A) n s d def,
  (d < n)%nat -> nth d (map f (seq s n)) def = f (s + d)%nat.
Proof.
  induction n; intros s d def H; [lia|].
  destruct d; cbn [seq map nth].
  - f_equal; lia.
  - rewrite IHn by lia. f_equal; lia.
Qed.

Lemma ix_map_seq : forall (f : nat -> Z) n d, (d < n)%nat -> ix (map f (seq 0 n)) d = f d.
Proof. intros. unfold ix. now rewrite nth_map_seq. Qed.

Lemma qx_map_seq : forall (f : nat -> Q) n d, (d < n)%nat -> qx (map f (seq 0 n)) d = f d.
Proof. intros. unfold qx. now rewrite nth_map_seq. Qed.

Lemma map_seq_ext : forall (A : Type) (f g : nat -> A) n,
  (forall d, (d < n)%nat -> f d = g d) -> map f (seq 0 n) = map g (seq 0 n).
Proof. intros. apply map_ext_in. intros d Hd. apply in_seq in Hd. apply H; lia. Qed.

Lemma fold_add_zsum : forall (A : Type) (f : A -> Z) l a,
  fold_left (fun acc p => acc + f p) l a = a + zsum (map f l).
Proof.
  induction l; intro a0; cbn [fold_left map zsum fold_right]; [lia|].
  rewrite IHl. unfold zsum. lia.
Qed.

Lemma zsum_filter : forall (A : Type) (m : A -> bool) (f : A -> Z) l,
  zsum (map f (filter m l)) = zsum (map (fun p => if m p then f p else 0) l).
Proof.
  induction l; [reflexivity|]. unfold zsum in *. cbn [filter map]. destruct (m a); cbn [map fold_right]; rewrite IHl; lia.
Qed.

Lemma zsum_ext : forall (A : Type) (f g : A -> Z) l,
  (forall p, In p l -> f p = g p) -> zsum (map f l) = zsum (map g l).
Proof. intros. f_equal. now apply map_ext_in. Qed.

Lemma zsum_scale : forall (A : Type) (k : Z) (f : A -> Z) l,
  zsum (map (fun p => k * f p) l) = k * zsum (map f l).
Proof. unfold zsum. induction l; cbn [map fold_right]; [lia | rewrite IHl; lia]. Qed.

Lemma zsum_affine : forall (A : Type) (k : Z) (f g : A -> Z) l,
  zsum (map (fun p => f p * (k + g p)) l) = k * zsum (map f l) + zsum (map (fun p => f p * g p) l).
Proof. unfold zsum. induction l; cbn [map fold_right]; [lia | rewrite IHl; lia]. Qed.

Lemma fold_combine_zsum : forall (A : Type) (w g : A -> Z) l a,
  fold_left (fun acc wp => acc + fst wp * g (snd wp)) (combine (map w l) l) a
  = a + zsum (map (fun p => w p * g p) l).
Proof.
  induction l; intro a0; cbn [map combine fold_left zsum fold_right fst snd]; [lia|].
  rewrite IHl. unfold zsum. lia.
Qed.

(* ---------- maxima ---------- *)
Lemma fold_max_ge : forall l a, a <= fold_left Z.max l a.
Proof. induction l; intro b; cbn [fold_left]; [lia|]. specialize (IHl (Z.max b a)). lia. Qed.

Lemma fold_max_in : forall l a x, In x l -> x <= fold_left Z.max l a.
Proof.
  induction l; intros b x H; [destruct H|]. cbn [fold_left]. destruct H as [->|H].
  - pose proof (fold_max_ge l (Z.max b x)). lia.
  - now apply IHl.
Qed.

Lemma fold_max_comm : forall l a b, fold_left Z.max l (Z.max a b) = Z.max b (fold_left Z.max l a).
Proof.
  induction l; intros b c; cbn [fold_left]; [lia|].
  replace (Z.max (Z.max b c) a) with (Z.max (Z.max b a) c) by lia. apply IHl.
Qed.

Lemma list_max_with_zero : forall l, In 0 l -> list_max l = fold_left Z.max l 0.
Proof.
  destruct l as [|x t]; intro H; [destruct H|]. cbn [list_max fold_left].
  replace (Z.max 0 x) with (Z.max x 0) by lia. rewrite fold_max_comm.
  assert (0 <= fold_left Z.max t x).
  { destruct H as [->|H]; [apply fold_max_ge | now apply fold_max_in]. }
  lia.
Qed.

Lemma fold_max_fold_right : forall l a, 0 <= a -> fold_left Z.max l a = Z.max a (fold_right Z.max 0 l).
Proof.
  induction l; intros b Hb; cbn [fold_left fold_right]; [lia|].
  rewrite IHl by lia. lia.
Qed.

Lemma kmax_filter : forall (A : Type) (m : A -> bool) (f : A -> Z) l a, 0 <= a ->
  fold_left (fun s p => let px := f p in if px >? s then px else s) (filter m l) a
  = fold_left Z.max (map (fun p => if m p then f p else 0) l) a.
Proof.
  induction l; intros b Hb; [reflexivity|]. cbn [filter map fold_left].
  destruct (m a).
  - cbn [fold_left]. cbv zeta. destruct (f a >? b) eqn:E.
    + replace (Z.max b (f a)) with (f a) by lia. apply IHl; lia.
    + replace (Z.max b (f a)) with b by lia. now apply IHl.
  - replace (Z.max b 0) with b by lia. now apply IHl.
Qed.

Lemma kmax_fold_right : forall (A : Type) (f : A -> Z) l a, 0 <= a ->
  fold_left (fun s p => let px := f p in if px >? s then px else s) l a
  = Z.max a (fold_right Z.max 0 (map f l)).
Proof.
  induction l; intros b Hb; cbn [fold_left map fold_right]; [lia|]. cbv zeta.
  destruct (f a >? b) eqn:E; rewrite IHl by lia; lia.
Qed.

(* ---------- Q helpers ---------- *)
Lemma Qltb_true : forall a b, Qltb a b = true -> (a < b)%Q.
Proof.
  unfold Qltb; intros a b H. apply negb_true_iff in H.
  destruct (Qlt_le_dec a b) as [L|L]; [exact L|].
  apply Qle_bool_iff in L. congruence.
Qed.

(* ---------- the grid ---------- *)
Lemma in_zrange : forall n i, In i (zrange n) <-> 0 <= i < n.
Proof.
  intros n i. unfold zrange. rewrite in_map_iff. split.
  - intros [k [<- Hk]]. apply in_seq in Hk. lia.
  - intros H. exists (Z.to_nat i). split; [lia|]. apply in_seq. lia.
Qed.

Lemma in_grid : forall ds p, In p (grid ds) ->
  length p = length ds /\ forall d, (d < length ds)%nat -> 0 <= ix p d < ix ds d.
Proof.
  induction ds as [|n ds IH]; intros p H.
  - cbn in H. destruct H as [<-|[]]. split; [reflexivity|]. cbn; lia.
  - cbn [grid] in H. apply in_flat_map in H. destruct H as [i [Hi H]].
    apply in_map_iff in H. destruct H as [q [<- Hq]]. apply in_zrange in Hi.
    destruct (IH q Hq) as [L B]. split; [cbn; lia|].
    intros d Hd. destruct d; [exact Hi|]. apply B. cbn in Hd. lia.
Qed.

Lemma grid_in : forall ds p, length p = length ds ->
  (forall d, (d < length ds)%nat -> 0 <= ix p d < ix ds d) -> In p (grid ds).
Proof.
  induction ds as [|n ds IH]; intros p L B.
  - destruct p; [now left | discriminate].
  - destruct p as [|i q]; [discriminate|]. cbn [grid]. apply in_flat_map. exists i. split.
    + apply in_zrange. apply (B 0%nat). cbn; lia.
    + apply in_map. apply IH; [cbn in L; lia|]. intros d Hd. apply (B (S d)). cbn; lia.
Qed.

Lemma ix_map_box : forall radius d, (d < length radius)%nat ->
  ix (map (fun r => 2 * r + 1) radius) d = 2 * ix radius d + 1.
Proof.
  intros radius d H. unfold ix.
  rewrite nth_indep with (d' := (fun r => 2 * r + 1) 0) by now rewrite map_length.
  exact (map_nth (fun r => 2 * r + 1) radius 0 d).
Qed.

Lemma in_box : forall radius p, In p (box radius) ->
  length p = length radius /\ forall d, (d < length radius)%nat -> 0 <= ix p d <= 2 * ix radius d.
Proof.
  intros radius p H. apply in_grid in H. rewrite map_length in H. destruct H as [L B].
  split; [exact L|]. intros d Hd. specialize (B d Hd). rewrite ix_map_box in B by exact Hd. lia.
Qed.

(* ================= kernel = reference ================= *)
Section Agree.
  Variable pix rawpix : list Z -> Z.
  Variable radius shape : list Z.
  Variable thresh : Q.
  Variable mask : list Z -> bool.
  Hypothesis thresh_nonneg : (0 <= thresh)%Q.

  Let mpts := filter mask (box radius).
  Let nd := length radius.

  Definition square_of (coord : list Z) : list Z := map (fun d => ix coord d - ix radius d) (dims radius).

  Lemma k_px_at : forall img coord p, k_px radius img (square_of coord) p = img (at_win radius coord p).
  Proof.
    intros. unfold k_px, at_win, square_of, dims, ndim. f_equal. apply map_seq_ext. intros d Hd.
    now rewrite ix_map_seq.
  Qed.

  Lemma k_mass_eq : forall coord, k_mass pix radius mpts (square_of coord) = nb_sum pix radius mask coord.
  Proof.
    intros. unfold k_mass, nb_sum, mpts. rewrite fold_add_zsum, zsum_filter. cbn.
    apply zsum_ext. intros p _. unfold nbh. now rewrite k_px_at.
  Qed.

  Lemma k_mom_eq : forall coord d, k_mom pix radius mpts (square_of coord) d = nb_moment pix radius mask coord d.
  Proof.
    intros. unfold k_mom, nb_moment, mpts. rewrite fold_add_zsum, zsum_filter. cbn.
    apply zsum_ext. intros p _. unfold nbh. rewrite k_px_at. destruct (mask p); lia.
  Qed.

  Lemma shift_eq : forall c o, k_shift1 thresh c o = r_shift1 thresh c o.
  Proof.
    intros. unfold k_shift1, r_shift1.
    destruct (Qltb thresh o) eqn:A; destruct (Qltb o (- thresh)) eqn:B; try reflexivity; try lia.
    exfalso. apply Qltb_true in A. apply Qltb_true in B.
    assert (- thresh <= 0)%Q by (rewrite <- (Qopp_involutive 0); apply Qopp_le_compat; exact thresh_nonneg).
    apply (Qlt_irrefl o). eapply Qlt_trans; [exact B|]. eapply Qle_lt_trans; [exact H|].
    eapply Qle_lt_trans; [exact thresh_nonneg | exact A].
  Qed.

  Lemma clip_eq : forall c lo hi, k_clip1 c lo hi = r_clip1 c lo hi.
  Proof.
    intros. unfold k_clip1, r_clip1. destruct (c <? lo) eqn:A.
    - destruct (lo >? hi) eqn:B; lia.
    - destruct (c >? hi) eqn:B; lia.
  Qed.

  (* what the kernel keeps of a reference state *)
  Definition conv (st : rstate) : kstate :=
    mkK (square_of (r_rect st)) (r_cmi st) (nb_sum pix radius mask (r_rect st)).

  Theorem k_loop_eq_ref : forall n coord,
    k_loop pix radius shape thresh mpts n coord =
    if ref_nonzero pix radius shape thresh mask n coord
    then KOk (conv (ref_loop pix radius shape thresh mask n coord)) else KDivZero.
  Proof.
    induction n; intro coord.
    - cbn [k_loop ref_nonzero ref_loop]. cbv zeta. fold (square_of coord). rewrite k_mass_eq.
      unfold safe_com. destruct (nb_sum pix radius mask coord =? 0) eqn:E; [reflexivity|].
      rewrite (map_ext (fun d0 => qdiv (k_mom pix radius mpts (square_of coord) d0) (nb_sum pix radius mask coord))
                       (fun d0 => qdiv (nb_moment pix radius mask coord d0) (nb_sum pix radius mask coord)))
        by (intro; now rewrite k_mom_eq).
      destruct (all_lt thresh _); reflexivity.
    - cbn [k_loop ref_nonzero ref_loop]. cbv zeta. fold (square_of coord). rewrite k_mass_eq.
      unfold safe_com. destruct (nb_sum pix radius mask coord =? 0) eqn:E; [reflexivity|].
      rewrite (map_ext (fun d0 => qdiv (k_mom pix radius mpts (square_of coord) d0) (nb_sum pix radius mask coord))
                       (fun d0 => qdiv (nb_moment pix radius mask coord d0) (nb_sum pix radius mask coord)))
        by (intro; now rewrite k_mom_eq).
      match goal with |- context [all_lt thresh ?o] => set (off := o) end.
      rewrite (map_ext (fun d => k_clip1 (k_shift1 thresh (ix coord d) (qx off d)) (ix radius d) (upper radius shape d))
                       (fun d => r_clip1 (r_shift1 thresh (ix coord d) (qx off d)) (ix radius d) (upper radius shape d)))
        by (intro; now rewrite shift_eq, clip_eq).
      destruct (all_lt thresh off); [reflexivity|].
      now rewrite IHn.
  Qed.
End Agree.

(* ---------- characterisation columns ---------- *)
Section AgreeOut.
  Variable pix rawpix : list Z -> Z.
  Variable radius : list Z.
  Variable mask : list Z -> bool.
  Hypothesis masked_out : exists p, In p (box radius) /\ mask p = false.

  Let mpts := filter mask (box radius).
  Let w_r2 (p : list Z) : Z := if mask p then zsum (map (fun c => c * c) (offs radius p)) else 0.
  Let w_x2 (d : nat) (p : list Z) : Z := if mask p then (ix p d - ix radius d) * (ix p d - ix radius d) else 0.

  Lemma k_signal_eq : forall rect,
    fold_left (fun s p => let px := k_px radius pix (square_of radius rect) p in if px >? s then px else s) mpts 0
    = list_max (map (nbh pix radius mask rect) (box radius)).
  Proof.
    intro rect. unfold mpts. rewrite kmax_filter by lia.
    rewrite list_max_with_zero.
    - f_equal. apply map_ext. intro p. unfold nbh. now rewrite k_px_at.
    - destruct masked_out as [p [Hp Hm]]. apply in_map_iff. exists p. split; [|exact Hp].
      unfold nbh. now rewrite Hm.
  Qed.

  Theorem k_output_eq_ref : forall ch st,
    k_output pix rawpix radius mpts (map w_r2 mpts)
             (map (fun d => map (fun p => Z.of_nat (length radius) * w_x2 d p) mpts) (seq 0 (length radius)))
             ch (conv pix radius mask st)
    = ref_output pix rawpix radius mask ch st.
  Proof.
    intros ch st. unfold k_output, ref_output, conv. cbn [k_square k_cmi k_m].
    destruct ch; cbn [negb]; [|reflexivity].
    set (rect := r_rect st).
    f_equal. f_equal. f_equal; [f_equal|].
    - destruct (isotropic radius).
      + f_equal. f_equal. rewrite fold_combine_zsum. unfold mpts. rewrite zsum_filter. cbn.
        apply zsum_ext. intros p _. unfold nbh, w_r2. rewrite k_px_at. destruct (mask p); reflexivity.
      + rewrite map_map. apply map_ext. intro d. f_equal.
        rewrite fold_combine_zsum. unfold mpts. rewrite zsum_filter. cbn. unfold ndim. rewrite <- zsum_scale.
        apply zsum_ext. intros p _. unfold nbh, w_x2. rewrite k_px_at. destruct (mask p); ring.
    - apply k_signal_eq.
    - rewrite fold_add_zsum. unfold mpts. rewrite zsum_filter. cbn.
      apply zsum_ext. intros p _. now rewrite k_px_at.
  Qed.
End AgreeOut.

(* ---------- the corner of the box is outside the ellipse ---------- *)
Lemma sum_ones : forall (f : nat -> Q) l, (forall d, In d l -> f d == 1)%Q ->
  (fold_right Qplus 0 (map f l) == inject_Z (Z.of_nat (length l)))%Q.
Proof.
  induction l; intro H; [reflexivity|].
  cbn [map fold_right length]. rewrite IHl by (intros; apply H; now right).
  rewrite (H a) by now left. rewrite Nat2Z.inj_succ. unfold Z.succ. rewrite inject_Z_plus. ring.
Qed.

Lemma radius_pos : forall radius d, Forall (fun r => 1 <= r) radius -> (d < length radius)%nat -> 1 <= ix radius d.
Proof. intros radius d F H. rewrite Forall_forall in F. apply F. unfold ix. now apply nth_In. Qed.

Lemma corner_masked_out : forall radius, (2 <= length radius)%nat -> Forall (fun r => 1 <= r) radius ->
  exists p, In p (box radius) /\ binary_mask radius p = false.
Proof.
  intros radius L F. exists (map (fun _ => 0) radius).
  assert (Z0 : forall d, ix (map (fun _ : Z => 0) radius) d = 0).
  { intro d. unfold ix. exact (map_nth (fun _ => 0) radius 0 d). }
  split.
  - apply grid_in; [now rewrite !map_length|]. rewrite map_length. intros d Hd.
    rewrite Z0, ix_map_box by exact Hd. pose proof (radius_pos radius d F Hd). lia.
  - unfold binary_mask. destruct (Qle_bool _ 1) eqn:E; [|reflexivity]. exfalso.
    apply Qle_bool_iff in E. unfold ell in E. rewrite sum_ones in E.
    + rewrite seq_length in E. change 1%Q with (inject_Z 1) in E. rewrite <- Zle_Qle in E. lia.
    + intros d Hd. apply in_seq in Hd. cbv zeta. unfold offs. rewrite ix_map_seq by lia. rewrite Z0.
      pose proof (radius_pos radius d F ltac:(lia)).
      assert (~ inject_Z (ix radius d) == 0)%Q by (unfold Qeq; cbn; lia).
      replace (0 - ix radius d) with (- ix radius d) by lia. rewrite inject_Z_opp. field. exact H0.
Qed.

(* ================= the engines agree ================= *)
Theorem engines_agree : forall pix rawpix radius shape thresh max_iterations characterize start,
  (0 <= thresh)%Q -> (2 <= length radius)%nat -> Forall (fun r => 1 <= r) radius ->
  refine_numba pix rawpix radius shape thresh max_iterations characterize start =
  if ref_nonzero pix radius shape thresh (binary_mask radius) (pred (iters_of max_iterations)) start
  then KOk (refine_python pix rawpix radius shape thresh max_iterations characterize start)
  else KDivZero.
Proof.
  intros pix rawpix radius shape thresh mi ch start Ht L F.
  unfold refine_numba, refine_python, k_run, ref_run, mask_points.
  rewrite (k_loop_eq_ref pix radius shape thresh (binary_mask radius) Ht).
  destruct (ref_nonzero _ _ _ _ _ _ _); [|reflexivity]. f_equal.
  apply (k_output_eq_ref pix rawpix radius (binary_mask radius) (corner_masked_out radius L F)).
Qed.

(* ================= inside the image; position = centroid of the measured window ================= *)
Lemma maxr_nonneg : forall l, 0 <= fold_right Z.max 0 l.
Proof. induction l; cbn [fold_right]; lia. Qed.

Lemma maxr_filter : forall (A : Type) (m : A -> bool) (f : A -> Z) l,
  fold_right Z.max 0 (map f (filter m l)) = fold_right Z.max 0 (map (fun p => if m p then f p else 0) l).
Proof.
  induction l; [reflexivity|]. cbn [filter map]. destruct (m a); cbn [map fold_right]; rewrite IHl.
  - reflexivity.
  - pose proof (maxr_nonneg (map (fun p => if m p then f p else 0) l)). lia.
Qed.

Section Consistent.
  Variable pix rawpix : list Z -> Z.
  Variable radius shape : list Z.
  Variable thresh : Q.
  Let mask := binary_mask radius.
  Let nd := length radius.

  Definition cmi_at (coord : list Z) : list Q :=
    let cm_n := safe_com pix radius mask coord in
    let off := map (fun d => (qx cm_n d - inject_Z (ix radius d))%Q) (dims radius) in
    map (fun d => (qx off d + inject_Z (ix coord d))%Q) (dims radius).

  Lemma ref_loop_inv : forall n coord, length coord = nd -> window_inside radius shape coord ->
    let st := ref_loop pix radius shape thresh mask n coord in
    length (r_rect st) = nd /\ window_inside radius shape (r_rect st) /\ r_cmi st = cmi_at (r_rect st).
  Proof.
    assert (Step : forall coord off, window_inside radius shape coord ->
              let coord' := map (fun d => r_clip1 (r_shift1 thresh (ix coord d) (qx off d)) (ix radius d) (upper radius shape d)) (dims radius) in
              length coord' = nd /\ window_inside radius shape coord').
    { intros coord off Hin. cbv zeta. split.
      - unfold dims, ndim. now rewrite map_length, seq_length.
      - intros d Hd. unfold dims, ndim. rewrite ix_map_seq by exact Hd.
        specialize (Hin d Hd). unfold r_clip1, upper. lia. }
    induction n; intros coord L Hin; cbn [ref_loop]; cbv zeta.
    - destruct (all_lt thresh _); cbn [r_rect r_cmi]; auto.
    - match goal with |- context [all_lt thresh ?o] => set (off := o) end.
      destruct (all_lt thresh off); cbn [r_rect r_cmi]; auto.
      destruct (Step coord off Hin) as [L' Hin']. apply IHn; assumption.
  Qed.

  Lemma ref_nonzero_final : forall n coord,
    ref_nonzero pix radius shape thresh mask n coord = true ->
    nb_sum pix radius mask (r_rect (ref_loop pix radius shape thresh mask n coord)) <> 0.
  Proof.
    induction n; intros coord; cbn [ref_nonzero ref_loop]; cbv zeta.
    - destruct (nb_sum pix radius mask coord =? 0) eqn:E; [discriminate|]. intros _.
      apply Z.eqb_neq in E. destruct (all_lt thresh _); exact E.
    - destruct (nb_sum pix radius mask coord =? 0) eqn:E; [discriminate|].
      apply Z.eqb_neq in E.
      match goal with |- context [all_lt thresh ?o] => set (off := o) end.
      destruct (all_lt thresh off); [intros _; exact E|]. apply IHn.
  Qed.

  Lemma total_nbhd : forall (f : list Z -> Z) c,
    total f (nbhd radius c) = zsum (map (fun p => if mask p then f (at_win radius c p) else 0) (box radius)).
  Proof.
    intros. unfold total, nbhd, mask_points. rewrite map_map. now rewrite zsum_filter.
  Qed.

  Lemma ix_at_win : forall c p d, (d < nd)%nat -> ix (at_win radius c p) d = ix c d - ix radius d + ix p d.
  Proof. intros. unfold at_win, dims, ndim. now rewrite ix_map_seq. Qed.

  Lemma mass_spec : forall c, nb_sum pix radius mask c = total pix (nbhd radius c).
  Proof. intros. now rewrite total_nbhd. Qed.

  Lemma moment_spec : forall c d, (d < nd)%nat ->
    total (fun x => pix x * ix x d) (nbhd radius c)
    = (ix c d - ix radius d) * nb_sum pix radius mask c + nb_moment pix radius mask c d.
  Proof.
    intros c d Hd. rewrite total_nbhd. unfold nb_sum, nb_moment. rewrite <- zsum_affine.
    apply zsum_ext. intros p _. unfold nbh. rewrite ix_at_win by exact Hd. destruct (mask p); ring.
  Qed.

  Lemma centroid_spec : forall c d, (d < nd)%nat -> nb_sum pix radius mask c <> 0 ->
    (qx (cmi_at c) d == centroid pix (nbhd radius c) d)%Q.
  Proof.
    intros c d Hd Hm. unfold cmi_at, centroid. cbv zeta. unfold dims, ndim.
    rewrite qx_map_seq by exact Hd. rewrite qx_map_seq by exact Hd.
    unfold safe_com. destruct (nb_sum pix radius mask c =? 0) eqn:E; [apply Z.eqb_eq in E; contradiction|].
    unfold dims, ndim. rewrite qx_map_seq by exact Hd.
    rewrite moment_spec by exact Hd. rewrite <- mass_spec.
    unfold qdiv. rewrite inject_Z_plus, inject_Z_mult. unfold Z.sub. rewrite inject_Z_plus, inject_Z_opp.
    assert (~ inject_Z (nb_sum pix radius mask c) == 0)%Q by (unfold Qeq; cbn; lia).
    field. exact H.
  Qed.

  Lemma offs_at_win : forall c p, length c = nd ->
    map (fun d => ix (at_win radius c p) d - ix c d) (seq 0 (length c)) = offs radius p.
  Proof.
    intros c p L. rewrite L. unfold offs. apply map_seq_ext. intros d Hd. rewrite ix_at_win by exact Hd. lia.
  Qed.

  Lemma gyration_spec : forall c, length c = nd ->
    qdiv (zsum (map (fun p => (if mask p then zsum (map (fun c => c * c) (offs radius p)) else 0) * nbh pix radius mask c p)
                    (box radius))) (nb_sum pix radius mask c)
    = gyration2 pix c (nbhd radius c).
  Proof.
    intros c L. unfold gyration2. rewrite <- mass_spec. f_equal. rewrite total_nbhd.
    apply zsum_ext. intros p _. unfold nbh. destruct (mask p); [|reflexivity].
    rewrite <- (offs_at_win c p L). rewrite map_map. ring.
  Qed.

  Lemma gyration_axis_spec : forall c d, length c = nd -> (d < nd)%nat ->
    qdiv (Z.of_nat (ndim radius) *
          zsum (map (fun p => (if mask p then (ix p d - ix radius d) * (ix p d - ix radius d) else 0) * nbh pix radius mask c p)
                    (box radius))) (nb_sum pix radius mask c)
    = gyration2_axis pix c (nbhd radius c) d.
  Proof.
    intros c d L Hd. unfold gyration2_axis. rewrite <- mass_spec, L. unfold ndim. f_equal. f_equal.
    rewrite total_nbhd. apply zsum_ext. intros p _. unfold nbh. destruct (mask p); [|reflexivity].
    rewrite ix_at_win by exact Hd. ring.
  Qed.

  Lemma signal_spec : forall c, (exists p, In p (box radius) /\ mask p = false) ->
    list_max (map (nbh pix radius mask c) (box radius)) = brightest pix (nbhd radius c).
  Proof.
    intros c [p [Hp Hm]]. rewrite list_max_with_zero.
    - rewrite fold_max_fold_right by lia. unfold brightest, nbhd, mask_points. rewrite map_map, maxr_filter.
      match goal with |- _ = fold_right Z.max 0 ?m => change m with (map (nbh pix radius mask c) (box radius)) end.
      pose proof (maxr_nonneg (map (nbh pix radius mask c) (box radius))). lia.
    - apply in_map_iff. exists p. split; [|exact Hp]. unfold nbh. now rewrite Hm.
  Qed.

  Lemma nbhd_inside : forall c x, length shape = nd -> window_inside radius shape c -> In x (nbhd radius c) ->
    in_image shape x /\ in_ellipse radius (map (fun d => ix x d - ix c d) (seq 0 (length radius))).
  Proof.
    intros c x Ls Hin Hx. unfold nbhd, mask_points in Hx. apply in_map_iff in Hx. destruct Hx as [p [<- Hp]].
    apply filter_In in Hp. destruct Hp as [Hb Hm]. apply in_box in Hb. destruct Hb as [Lp B].
    change (map (fun d => ix c d - ix radius d + ix p d) (seq 0 (length radius))) with (at_win radius c p).
    split.
    - intros d Hd. rewrite Ls in Hd. rewrite ix_at_win by exact Hd. specialize (Hin d Hd). specialize (B d Hd). lia.
    - unfold in_ellipse.
      replace (map (fun d => ix (at_win radius c p) d - ix c d) (seq 0 (length radius))) with (offs radius p).
      + unfold binary_mask in Hm. now apply Qle_bool_iff in Hm.
      + unfold offs. apply map_seq_ext. intros d Hd. rewrite ix_at_win by exact Hd. lia.
  Qed.

  Theorem self_consistent : forall n characterize start,
    (2 <= length radius)%nat -> Forall (fun r => 1 <= r) radius ->
    length start = length radius -> length shape = length radius ->
    window_inside radius shape start ->
    ref_nonzero pix radius shape thresh mask n start = true ->
    let out := ref_output pix rawpix radius mask characterize (ref_loop pix radius shape thresh mask n start) in
    exists c,
      length c = length radius /\ window_inside radius shape c /\
      let pts := nbhd radius c in
      (forall x, In x pts -> in_image shape x /\
                             in_ellipse radius (map (fun d => ix x d - ix c d) (seq 0 (length radius)))) /\
      total pix pts <> 0 /\
      length (o_pos out) = length radius /\
      (forall d, (d < length radius)%nat -> (qx (o_pos out) d == centroid pix pts d)%Q) /\
      o_mass out = total pix pts /\
      o_char out =
        if characterize
        then Some (if isotropic radius then [gyration2 pix c pts]
                   else map (gyration2_axis pix c pts) (seq 0 (length radius)),
                   brightest pix pts, total rawpix pts)
        else None.
  Proof.
    intros n ch start L2 F Lst Lsh Hin Hnz. cbv zeta.
    destruct (ref_loop_inv n start Lst Hin) as [Lc [Hc Hcmi]].
    pose proof (ref_nonzero_final n start Hnz) as Hm.
    set (st := ref_loop pix radius shape thresh mask n start) in *.
    exists (r_rect st). split; [exact Lc|]. split; [exact Hc|].
    split; [intros x Hx; now apply nbhd_inside|].
    split; [now rewrite <- mass_spec|].
    assert (Hpos : o_pos (ref_output pix rawpix radius mask ch st) = cmi_at (r_rect st)).
    { unfold ref_output. destruct ch; cbn [negb o_pos]; exact Hcmi. }
    assert (Hmass : o_mass (ref_output pix rawpix radius mask ch st) = nb_sum pix radius mask (r_rect st)).
    { unfold ref_output. destruct ch; reflexivity. }
    rewrite Hpos, Hmass.
    split; [unfold cmi_at, dims, ndim; cbv zeta; now rewrite map_length, seq_length|].
    split; [intros d Hd; now apply centroid_spec|].
    split; [apply mass_spec|].
    unfold ref_output. destruct ch; cbn [negb o_char]; [|reflexivity].
    f_equal. f_equal; [f_equal|].
    - destruct (isotropic radius).
      + f_equal. now apply gyration_spec.
      + apply map_seq_ext. intros d Hd. now apply gyration_axis_spec.
    - apply signal_spec. now apply corner_masked_out.
    - now rewrite total_nbhd.
  Qed.
End Consistent.

(* ================= the two statements at the level of refine_com_arr ================= *)
(* the property's clause about one result row [out], written with the declarative
   vocabulary of Model/COM.v only *)
Definition row_is_consistent (pix rawpix : list Z -> Z) (radius shape : list Z) (characterize : bool) (out : output) : Prop :=
  exists c,
    length c = length radius /\ window_inside radius shape c /\
    let pts := nbhd radius c in
    (forall x, In x pts -> in_image shape x /\
                           in_ellipse radius (map (fun d => ix x d - ix c d) (seq 0 (length radius)))) /\
    total pix pts <> 0 /\
    length (o_pos out) = length radius /\
    (forall d, (d < length radius)%nat -> (qx (o_pos out) d == centroid pix pts d)%Q) /\
    o_mass out = total pix pts /\
    o_char out =
      if characterize
      then Some (if isotropic radius then [gyration2 pix c pts]
                 else map (gyration2_axis pix c pts) (seq 0 (length radius)),
                 brightest pix pts, total rawpix pts)
      else None.

Theorem python_self_consistent : forall pix rawpix radius shape thresh max_iterations characterize start,
  (2 <= length radius)%nat -> Forall (fun r => 1 <= r) radius ->
  length start = length radius -> length shape = length radius ->
  window_inside radius shape start ->
  ref_nonzero pix radius shape thresh (binary_mask radius) (pred (iters_of max_iterations)) start = true ->
  row_is_consistent pix rawpix radius shape characterize
    (refine_python pix rawpix radius shape thresh max_iterations characterize start).
Proof.
  intros. unfold row_is_consistent, refine_python, ref_run.
  now apply (self_consistent pix rawpix radius shape thresh).
Qed.

Theorem numba_self_consistent : forall pix rawpix radius shape thresh max_iterations characterize start out,
  (0 <= thresh)%Q -> (2 <= length radius)%nat -> Forall (fun r => 1 <= r) radius ->
  length start = length radius -> length shape = length radius ->
  window_inside radius shape start ->
  refine_numba pix rawpix radius shape thresh max_iterations characterize start = KOk out ->
  out = refine_python pix rawpix radius shape thresh max_iterations characterize start /\
  row_is_consistent pix rawpix radius shape characterize out.
Proof.
  intros pix rawpix radius shape thresh mi ch start out Ht L F Lst Lsh Hin H.
  rewrite engines_agree in H by assumption.
  destruct (ref_nonzero _ _ _ _ _ _ _) eqn:E; [|discriminate].
  injection H as <-. split; [reflexivity|]. now apply python_self_consistent.
Qed.

(* with zero brightness under the mask the engines do differ: the reference answers
   (mask centre, mass 0), the kernels divide by zero *)
Theorem zero_mass_differs : forall pix rawpix radius shape thresh max_iterations characterize start,
  (0 <= thresh)%Q -> (2 <= length radius)%nat -> Forall (fun r => 1 <= r) radius ->
  nb_sum pix radius (binary_mask radius) start = 0 ->
  refine_numba pix rawpix radius shape thresh max_iterations characterize start = KDivZero.
Proof.
  intros pix rawpix radius shape thresh mi ch start Ht L F Hz.
  rewrite engines_agree by assumption.
  destruct (pred (iters_of mi)); cbn [ref_nonzero]; cbv zeta; rewrite Hz; reflexivity.
Qed.

(* ================= the mask neighbourhood is the whole ellipse ================= *)
Lemma Qsqr_nonneg' : forall q : Q, (0 <= q * q)%Q.
Proof. intro q. destruct (Qlt_le_dec q 0) as [H|H].
  - setoid_replace (q * q)%Q with ((- q) * (- q))%Q by ring. apply Qmult_le_0_compat; apply (Qopp_le_compat q 0), Qlt_le_weak, H.
  - now apply Qmult_le_0_compat.
Qed.

Lemma term_le_sum : forall (f : nat -> Q) l d, (forall k, 0 <= f k)%Q -> In d l ->
  (f d <= fold_right Qplus 0 (map f l))%Q.
Proof.
  induction l; intros d Hf Hd; [destruct Hd|]. cbn [map fold_right].
  assert (0 <= fold_right Qplus 0 (map f l))%Q.
  { clear -Hf. induction l; cbn [map fold_right]; [apply Qle_refl|]. pose proof (Hf a). lra. }
  destruct Hd as [->|Hd].
  - lra.
  - pose proof (Hf a). pose proof (IHl d Hf Hd). lra.
Qed.

Lemma sq_ratio_le_1 : forall o r, 1 <= r ->
  (let q := (inject_Z o / inject_Z r)%Q in q * q <= 1)%Q -> - r <= o <= r.
Proof.
  intros o r Hr H. cbv zeta in H.
  assert (Hr0 : ~ (inject_Z r == 0)%Q) by (unfold Qeq; cbn; lia).
  assert (E : (inject_Z o / inject_Z r * (inject_Z o / inject_Z r) * inject_Z (r * r) == inject_Z (o * o))%Q).
  { rewrite !inject_Z_mult. field. exact Hr0. }
  assert (P : (0 <= inject_Z (r * r))%Q) by (change 0%Q with (inject_Z 0); rewrite <- Zle_Qle; nia).
  pose proof (Qmult_le_compat_r _ _ _ H P) as M. rewrite E, Qmult_1_l in M.
  rewrite <- Zle_Qle in M. nia.
Qed.

Lemma list_as_map_ix : forall (x : list Z), x = map (fun d => ix x d) (seq 0 (length x)).
Proof.
  intro x. apply nth_ext with (d := 0) (d' := 0).
  - now rewrite map_length, seq_length.
  - intros n Hn. change (nth n (map (fun d => ix x d) (seq 0 (length x))) 0) with (ix (map (fun d => ix x d) (seq 0 (length x))) n).
    now rewrite ix_map_seq.
Qed.

Theorem nbhd_complete : forall radius c x,
  Forall (fun r => 1 <= r) radius -> length x = length radius ->
  in_ellipse radius (map (fun d => ix x d - ix c d) (seq 0 (length radius))) ->
  In x (nbhd radius c).
Proof.
  intros radius c x F Lx He. unfold nbhd, mask_points.
  set (n := length radius) in *.
  set (p := map (fun d => ix x d - ix c d + ix radius d) (seq 0 n)).
  assert (Ho : offs radius p = map (fun d => ix x d - ix c d) (seq 0 n)).
  { unfold offs. apply map_seq_ext. intros d Hd. unfold p. rewrite ix_map_seq by exact Hd. lia. }
  apply in_map_iff. exists p. split.
  - etransitivity; [|symmetry; apply list_as_map_ix]. rewrite Lx. apply map_seq_ext. intros d Hd.
    unfold p. rewrite ix_map_seq by exact Hd. lia.
  - apply filter_In. split.
    + apply grid_in; [unfold p; now rewrite !map_length, seq_length|].
      rewrite map_length. intros d Hd. rewrite ix_map_box by exact Hd.
      unfold p. rewrite ix_map_seq by exact Hd.
      pose proof (radius_pos radius d F Hd) as Hr.
      unfold in_ellipse, ell in He.
      pose proof (term_le_sum
        (fun d0 => let q := (inject_Z (ix (map (fun d1 => (ix x d1 - ix c d1)%Z) (seq 0 n)) d0) / inject_Z (ix radius d0))%Q in (q * q)%Q)
        (seq 0 n) d) as T.
      cbv zeta in T.
      assert (T' := T (fun k => Qsqr_nonneg' _)). clear T.
      assert (Hd' : In d (seq 0 n)) by (apply in_seq; lia).
      specialize (T' Hd'). fold n in He.
      pose proof (Qle_trans _ _ _ T' He) as B.
      rewrite ix_map_seq in B by exact Hd.
      apply (sq_ratio_le_1 _ _ Hr) in B. lia.
    + unfold binary_mask. rewrite Ho. now apply Qle_bool_iff.
Qed.

(* ... and contains every pixel once *)
Lemma NoDup_app_disj : forall (A : Type) (l1 l2 : list A),
  NoDup l1 -> NoDup l2 -> (forall a, In a l1 -> ~ In a l2) -> NoDup (l1 ++ l2).
Proof.
  induction l1; intros l2 H1 H2 D; [exact H2|]. cbn [app]. inversion H1; subst. constructor.
  - rewrite in_app_iff. intros [H|H]; [contradiction | apply (D a); [now left | exact H]].
  - apply IHl1; try assumption. intros b Hb. apply D. now right.
Qed.

Lemma NoDup_map_in_inj : forall (A B : Type) (f : A -> B) l,
  (forall a b, In a l -> In b l -> f a = f b -> a = b) -> NoDup l -> NoDup (map f l).
Proof.
  induction l; intros Inj H; [constructor|]. cbn [map]. inversion H; subst. constructor.
  - intro Hin. apply in_map_iff in Hin. destruct Hin as [b [E Hb]].
    assert (b = a) by (apply Inj; [now right | now left | exact E]). subst. contradiction.
  - apply IHl; [|assumption]. intros x y Hx Hy. apply Inj; now right.
Qed.

Lemma NoDup_grid : forall ds, NoDup (grid ds).
Proof.
  induction ds as [|n ds IH]; [repeat constructor; intros []|]. cbn [grid].
  assert (Hz : NoDup (zrange n)).
  { unfold zrange. apply NoDup_map_in_inj; [intros; lia | apply seq_NoDup]. }
  induction (zrange n) as [|i is IHis]; [constructor|]. cbn [flat_map]. inversion Hz; subst.
  apply NoDup_app_disj.
  - apply NoDup_map_in_inj; [|exact IH]. intros a b _ _ E. now injection E.
  - now apply IHis.
  - intros a Ha Hb. apply in_map_iff in Ha. destruct Ha as [q [<- _]].
    apply in_flat_map in Hb. destruct Hb as [j [Hj Hb]]. apply in_map_iff in Hb.
    destruct Hb as [q' [E _]]. injection E as -> _. contradiction.
Qed.

Theorem nbhd_NoDup : forall radius c, NoDup (nbhd radius c).
Proof.
  intros radius c. unfold nbhd, mask_points. apply NoDup_map_in_inj.
  - intros a b Ha Hb E. apply filter_In in Ha. apply filter_In in Hb.
    destruct Ha as [Ha _]. destruct Hb as [Hb _]. apply in_box in Ha. apply in_box in Hb.
    destruct Ha as [La _]. destruct Hb as [Lb _].
    apply nth_ext with (d := 0) (d' := 0); [congruence|]. intros k Hk. rewrite La in Hk.
    assert (Ek : ix (map (fun d => ix c d - ix radius d + ix a d) (seq 0 (length radius))) k
                 = ix (map (fun d => ix c d - ix radius d + ix b d) (seq 0 (length radius))) k) by now rewrite E.
    rewrite !ix_map_seq in Ek by exact Hk. unfold ix in Ek. lia.
  - apply NoDup_filter. apply NoDup_grid.
Qed.

Theorem nbhd_is_ellipse : forall radius shape c,
  Forall (fun r => 1 <= r) radius -> length shape = length radius ->
  window_inside radius shape c ->
  NoDup (nbhd radius c) /\
  forall x, In x (nbhd radius c) <->
            length x = length radius /\ in_image shape x /\
            in_ellipse radius (map (fun d => ix x d - ix c d) (seq 0 (length radius))).
Proof.
  intros radius shape c F Ls Hin. split; [apply nbhd_NoDup|]. intro x. split.
  - intro Hx. split.
    + unfold nbhd in Hx. apply in_map_iff in Hx. destruct Hx as [p [<- _]]. now rewrite map_length, seq_length.
    + now apply nbhd_inside.
  - intros [Lx [_ He]]. now apply nbhd_complete.
Qed.
