(* The CORNER regime of the 3-D edge correction (trackpy.static.area_3d_bounded,
   sphere_corner_area), and with it the general statement: for every r > 0 and
   every centre in the closed box, area_3d_bounded is the area (about any
   coordinate axis) of the part of the sphere inside the box.

   Slicing perpendicular to an axis ax, the slice measure is the 2-D edge
   correction of the slice circle inside the slab -lo <= t <= hi of the two
   faces perpendicular to ax and 0 outside (Proofs/StaticGeom4.v).  The 2-D
   correction is  2 PI - four cap widths + four corner widths, and over the
   whole height [-r, r] these integrate to the 3-D caps and edges
   (Proofs/StaticLune.v: cap_piece, corner_piece).  Here the TAILS beyond a face
   perpendicular to ax at distance h are evaluated with the same antiderivative
   Gh:

   cap_tail     r * INT_{min h r}^{r} cap_term g (rho t) / rho t dt      = sedge_term g h r
                (the lune beyond the faces at distances g and h, now measured
                 about an axis PERPENDICULAR to one of its two faces)
   corner_tail  r * INT_{min h r}^{r} corner_term g1 g2 (rho t) / rho t dt = scorner_term g1 g2 h r
                (the spherical triangle beyond three mutually adjacent faces)

   both with the code's masks, for all g, g1, g2, h >= 0 (centre on a face, an
   edge or a corner included).  The end values need no new arctangent identity
   beyond atan u + atan (1/u) = PI/2: the upper end is Fh_end / edge_value of
   Proofs/StaticLune.v, the lower end Gh r g h is term by term what
   sphere_edge_area / sphere_corner_area contain.

   Then  INT over the slab = whole - lower tail - upper tail  for each of the
   nine pieces, and the sum is the code's  4 PI r^2 - 6 caps + 12 edges - 8 corners. *)
From Coq Require Import Reals Lra List.
From Coquelicot Require Import Coquelicot.
From TP Require Import Model.StaticGeom Model.StaticGeom2 Model.StaticGeom3 Model.StaticGeom4 Model.StaticGeom5 Gen.static_geom.
From TP Require Import Proofs.StaticGeom Proofs.StaticGeom2 Proofs.StaticGen Proofs.StaticGeom3 Proofs.StaticLune Proofs.StaticGeom4.
Import ListNotations.
Open Scope R_scope.

(* ------------------------------------------------------------------ *)
(* integrals: zero tails, mirror image, slab = whole - tails           *)
(* ------------------------------------------------------------------ *)
Lemma is_RInt_zero_right (f : R -> R) a b c v :
  a <= b -> b <= c -> (forall x, b < x < c -> f x = 0) -> is_RInt f a b v -> is_RInt f a c v.
Proof.
  intros H1 H2 Z I. apply (is_RInt_middle f a a b c); auto; try lra. intros x Hx. lra.
Qed.

Lemma is_RInt_even_mirror (f : R -> R) a b v :
  (forall t, f (- t) = f t) -> is_RInt f a b v -> is_RInt f (- b) (- a) v.
Proof.
  intros E I.
  assert (I' : is_RInt f (- - a) (- - b) v) by (rewrite !Ropp_involutive; exact I).
  apply (is_RInt_comp_opp (V := R_NormedModule)) in I'.
  apply (is_RInt_opp (V := R_NormedModule)) in I'.
  apply (is_RInt_swap (V := R_NormedModule)) in I'.
  apply is_RInt_val with (opp (opp v)); [|unfold opp; simpl; ring].
  apply is_RInt_ext with (2 := I').
  intros x _. rewrite E. unfold opp; simpl. ring.
Qed.

Lemma slab_piece (f : R -> R) r l h total tl th :
  is_RInt f (- r) r total -> is_RInt f (- r) (- l) tl -> is_RInt f h r th ->
  is_RInt f (- l) h (total - tl - th).
Proof.
  intros I T1 T2.
  apply (is_RInt_swap (V := R_NormedModule)) in T1.
  apply (is_RInt_swap (V := R_NormedModule)) in T2.
  pose proof (is_RInt_Chasles (V := R_NormedModule) f (- l) (- r) r _ _ T1 I) as A.
  pose proof (is_RInt_Chasles (V := R_NormedModule) f (- l) r h _ _ A T2) as B.
  apply is_RInt_val with (1 := B). unfold plus, opp; simpl. ring.
Qed.

Lemma rho_even r t : rho r (- t) = rho r t.
Proof. unfold rho. replace (- t * - t) with (t * t) by ring. reflexivity. Qed.

Lemma Rmin_cases h r : 0 <= h -> 0 < r ->
  (h < r /\ Rmin h r = h) \/ (r <= h /\ Rmin h r = r).
Proof. intros. unfold Rmin. destruct (Rle_dec h r); [destruct (Req_dec h r)|]; try subst; lra. Qed.

(* ------------------------------------------------------------------ *)
(* the tail of the cap piece: a lune seen from an axis perpendicular   *)
(* to one of its faces                                                 *)
(* ------------------------------------------------------------------ *)
Lemma cap_tail_core r g h : 0 < g < r -> 0 <= h -> h * h + g * g < r * r ->
  is_RInt (fun t => atan (qh r g t / g)) h (sqrt (r * r - g * g)) ((r - g) * (PI / 2) - Gh r g h).
Proof.
  intros G Hh M. destruct (S_facts r g G) as [[S0 S1] S2]. destruct (Fh_end r g G) as [E1 _].
  set (S := sqrt (r * r - g * g)) in *.
  assert (HS : h < S) by nra.
  apply is_RInt_val with (Fh r g S - Fh r g h).
  - apply FTC_open.
    + exact HS.
    + intros x. apply qh_continuous.
    + intros x Hx. apply Fh_continuous; auto. nra.
    + intros x Hx. apply Fh_derive; auto. nra.
  - rewrite E1, Fh_eq_Gh by (auto; nra). reflexivity.
Qed.

Lemma atan_swap a b : 0 < a -> 0 < b -> atan (a / b) = PI / 2 - atan (b / a).
Proof.
  intros Ha Hb. replace (a / b) with (/ (b / a)) by (field; split; lra).
  apply atan_inv. apply Rdiv_lt_0_compat; lra.
Qed.

Lemma edge_tail_value r g h : 0 < g -> 0 <= h -> h * h + g * g < r * r -> 0 < r ->
  r * (2 * ((r - g) * (PI / 2) - Gh r g h)) = sphere_edge_area g h r.
Proof.
  intros Hg Hh M Hr. unfold Gh, qh, sphere_edge_area. cbv zeta.
  assert (P : 0 < r * r - g * g - h * h) by lra.
  pose proof (sqrt_lt_R0 _ P) as Hp.
  set (p := sqrt (r * r - g * g - h * h)) in *.
  rewrite (atan_swap p g) by lra.
  replace (g * h / (p * r)) with (g * h / (r * p)) by (field; split; lra).
  field.
Qed.

Theorem cap_tail r g h : 0 < r -> 0 <= g -> 0 <= h ->
  is_RInt (fun t => r * (cap_term g (rho r t) / rho r t)) (Rmin h r) r (sedge_term g h r).
Proof.
  intros Hr Hg Hh. unfold sedge_term. destruct (Rlt_dec _ _) as [M|M].
  - assert (Lh : h < r) by nra. assert (Lg : g < r) by nra.
    rewrite Rmin_left by lra.
    destruct (Req_dec g 0) as [Z|Z].
    + subst g. rewrite sphere_edge_sym, sphere_edge_y0. unfold sphere_cap_area.
      apply is_RInt_val with ((r - h) * (r * PI)); [|field].
      apply is_RInt_const_on; [lra|]. intros t Ht.
      destruct (rho_pos r t Hr) as (P0 & _); [lra|]. unfold cap_term.
      destruct (Rlt_dec 0 (rho r t)); [|lra]. unfold circle_cap_arclen.
      rewrite zero_div, acos_0. field. lra.
    + assert (G : 0 < g < r) by lra. destruct (S_facts r g G) as [[S0 S1] S2].
      assert (M' : h * h + g * g < r * r) by lra.
      rewrite <- (edge_tail_value r g h) by (auto; lra).
      apply is_RInt_ext with (f := fun t => r * (2 * atan (qh r g t / g))).
      { intros t Ht. rewrite Rmin_left, Rmax_right in Ht by lra. rewrite cap_term_atan by lra. reflexivity. }
      apply (is_RInt_scal (fun t => 2 * atan (qh r g t / g)) h r r).
      apply (is_RInt_scal (fun t => atan (qh r g t / g)) h r 2).
      set (S := sqrt (r * r - g * g)) in *.
      apply (is_RInt_zero_right _ h S r); try nra.
      * intros x Hx. rewrite qh_zero by nra. unfold Rdiv. rewrite Rmult_0_l. apply atan_0.
      * apply cap_tail_core; auto.
  - destruct (Rmin_cases h r Hh Hr) as [[L E]|[L E]]; rewrite E.
    + apply is_RInt_val with ((r - h) * 0); [|ring].
      apply is_RInt_const_on; [lra|]. intros t Ht.
      destruct (rho_pos r t Hr) as (P0 & P2 & P1); [lra|]. unfold cap_term.
      destruct (Rlt_dec g (rho r t)) as [A|A]; [exfalso; nra|]. unfold Rdiv. ring.
    + apply is_RInt_val with ((r - r) * 0); [|ring].
      apply is_RInt_const_on; [lra|]. intros t Ht. lra.
Qed.

(* ------------------------------------------------------------------ *)
(* the tail of the corner piece: the spherical triangle beyond three    *)
(* mutually adjacent faces                                              *)
(* ------------------------------------------------------------------ *)
Lemma corner_tail_core r g1 g2 h : 0 < g1 -> 0 < g2 -> 0 <= h -> g1 * g1 + g2 * g2 + h * h < r * r -> 0 < r ->
  let T := sqrt (r * r - g1 * g1 - g2 * g2) in
  is_RInt (fun t => atan (qh r g1 t / g1) + atan (qh r g2 t / g2) - PI / 2) h T
          ((Gh r g1 T + Gh r g2 T - PI / 2 * T) - (Gh r g1 h + Gh r g2 h - PI / 2 * h)).
Proof.
  intros H1 H2 Hh M Hr T.
  assert (M2 : g1 * g1 + g2 * g2 < r * r) by nra.
  destruct (T_facts r g1 g2 H1 H2 M2 Hr) as (T0 & T2 & T1 & _). fold T in T0, T2, T1.
  assert (HT : h < T) by nra.
  set (F := fun t => Gh r g1 t + Gh r g2 t - PI / 2 * t).
  assert (D : forall x, h <= x <= T ->
              is_derive F x (atan (qh r g1 x / g1) + atan (qh r g2 x / g2) - PI / 2)).
  { intros x Hx. assert (x * x <= T * T) by nra. unfold F.
    apply (is_derive_minus (V := R_NormedModule)); [apply (is_derive_plus (V := R_NormedModule))|].
    - apply Gh_derive; nra.
    - apply Gh_derive; nra.
    - auto_derive; auto. ring. }
  apply is_RInt_val with (F T - F h); [|reflexivity].
  apply FTC_open.
  - exact HT.
  - intros x. apply cont_minus; [apply cont_plus|apply cont_const]; apply qh_continuous.
  - intros x Hx. apply (ex_derive_continuous (V := R_NormedModule)). eexists. apply D. exact Hx.
  - intros x Hx. apply D. lra.
Qed.

Lemma corner_tail_value r g1 g2 h : 0 < g1 -> 0 < g2 -> 0 <= h -> g1 * g1 + g2 * g2 + h * h < r * r -> 0 < r ->
  let T := sqrt (r * r - g1 * g1 - g2 * g2) in
  r * ((Gh r g1 T + Gh r g2 T - PI / 2 * T) - (Gh r g1 h + Gh r g2 h - PI / 2 * h))
  = sphere_corner_area g1 g2 h r.
Proof.
  intros H1 H2 Hh M Hr T.
  assert (M2 : g1 * g1 + g2 * g2 < r * r) by nra.
  pose proof (edge_value r g1 g2 H1 H2 M2 Hr) as V. cbv zeta in V. fold T in V.
  replace (r * ((Gh r g1 T + Gh r g2 T - PI / 2 * T) - (Gh r g1 h + Gh r g2 h - PI / 2 * h)))
    with (sphere_edge_area g1 g2 r / 2 - r * (Gh r g1 h + Gh r g2 h - PI / 2 * h))
    by (rewrite <- V; field).
  unfold Gh, qh, sphere_edge_area, sphere_corner_area. cbv zeta. fold T.
  assert (P1 : 0 < r * r - g1 * g1 - h * h) by nra.
  assert (P2 : 0 < r * r - g2 * g2 - h * h) by nra.
  pose proof (sqrt_lt_R0 _ P1) as Hp1. pose proof (sqrt_lt_R0 _ P2) as Hp2.
  destruct (T_facts r g1 g2 H1 H2 M2 Hr) as (T0 & _). fold T in T0.
  set (p1 := sqrt (r * r - g1 * g1 - h * h)) in *.
  set (p2 := sqrt (r * r - g2 * g2 - h * h)) in *.
  rewrite (atan_swap p1 g1), (atan_swap p2 g2) by lra.
  replace (g1 * g2 / (T * r)) with (g1 * g2 / (r * T)) by (field; split; lra).
  field.
Qed.

Lemma scorner_zero_x g h r : sphere_corner_area 0 g h r = sphere_edge_area g h r / 2.
Proof.
  rewrite sphere_edge_is_two_corners.
  rewrite (sphere_corner_sym_xy 0 g h), (sphere_corner_sym_yz g 0 h). field.
Qed.

Lemma scorner_zero_y g h r : sphere_corner_area g 0 h r = sphere_edge_area g h r / 2.
Proof. rewrite sphere_edge_is_two_corners, (sphere_corner_sym_yz g 0 h). field. Qed.

Lemma half_cap_tail r g h : 0 < r -> 0 <= g -> 0 <= h ->
  is_RInt (fun t => r * (cap_term g (rho r t) / 2 / rho r t)) (Rmin h r) r (sedge_term g h r / 2).
Proof.
  intros Hr Hg Hh.
  apply is_RInt_ext with (f := fun t => / 2 * (r * (cap_term g (rho r t) / rho r t))).
  { assert (E : forall t, / 2 * (r * (cap_term g (rho r t) / rho r t)) = r * (cap_term g (rho r t) / 2 / rho r t))
      by (intros; unfold Rdiv; ring).
    intros t _. apply E. }
  apply is_RInt_val with (/ 2 * sedge_term g h r); [|unfold Rdiv; ring].
  apply (is_RInt_scal (fun t => r * (cap_term g (rho r t) / rho r t)) (Rmin h r) r (/ 2)).
  apply cap_tail; assumption.
Qed.

Theorem corner_tail r g1 g2 h : 0 < r -> 0 <= g1 -> 0 <= g2 -> 0 <= h ->
  is_RInt (fun t => r * (corner_term g1 g2 (rho r t) / rho r t)) (Rmin h r) r (scorner_term g1 g2 h r).
Proof.
  intros Hr H1 H2 Hh. unfold scorner_term. destruct (Rlt_dec _ _) as [M|M].
  - assert (Lh : h < r) by nra.
    destruct (Req_dec g1 0) as [Z1|Z1]; [|destruct (Req_dec g2 0) as [Z2|Z2]].
    + subst g1. apply is_RInt_ext with (f := fun t => r * (cap_term g2 (rho r t) / 2 / rho r t)).
      { intros t Ht. rewrite Rmin_left in Ht by (apply Rmin_r). rewrite Rmax_right in Ht by (apply Rmin_r).
        assert (Ht' : - r < t < r) by (rewrite Rmin_left in Ht; lra).
        destruct (rho_pos r t Hr Ht') as (P0 & _). rewrite corner_term_zero_l by lra. reflexivity. }
      apply is_RInt_val with (sedge_term g2 h r / 2); [apply half_cap_tail; auto|].
      unfold sedge_term. destruct (Rlt_dec _ _); [|nra]. rewrite scorner_zero_x. reflexivity.
    + subst g2. apply is_RInt_ext with (f := fun t => r * (cap_term g1 (rho r t) / 2 / rho r t)).
      { intros t Ht. rewrite Rmin_left in Ht by (apply Rmin_r). rewrite Rmax_right in Ht by (apply Rmin_r).
        assert (Ht' : - r < t < r) by (rewrite Rmin_left in Ht; lra).
        destruct (rho_pos r t Hr Ht') as (P0 & _). rewrite corner_term_zero_r by lra. reflexivity. }
      apply is_RInt_val with (sedge_term g1 h r / 2); [apply half_cap_tail; auto|].
      unfold sedge_term. destruct (Rlt_dec _ _); [|nra]. rewrite scorner_zero_y. reflexivity.
    + assert (P1 : 0 < g1) by lra. assert (P2 : 0 < g2) by lra.
      assert (M2 : g1 * g1 + g2 * g2 < r * r) by nra.
      destruct (T_facts r g1 g2 P1 P2 M2 Hr) as (T0 & T2 & T1 & _).
      pose proof (corner_tail_core r g1 g2 h P1 P2 Hh M Hr) as I. cbv zeta in I.
      pose proof (corner_tail_value r g1 g2 h P1 P2 Hh M Hr) as V. cbv zeta in V.
      set (T := sqrt (r * r - g1 * g1 - g2 * g2)) in *.
      assert (HT : h < T) by nra.
      rewrite Rmin_left by lra. rewrite <- V.
      apply (is_RInt_scal (fun t => corner_term g1 g2 (rho r t) / rho r t) h r r).
      apply (is_RInt_zero_right _ h T r); try lra.
      * intros x Hx. assert (Hx' : - r < x < r) by lra.
        destruct (rho_pos r x Hr Hx') as (Q0 & Q2 & Q1). unfold corner_term.
        destruct (Rlt_dec _ _) as [A|A]; [nra|]. unfold Rdiv. ring.
      * apply is_RInt_ext with (f := fun t => atan (qh r g1 t / g1) + atan (qh r g2 t / g2) - PI / 2); [|exact I].
        intros t Ht. rewrite Rmin_left, Rmax_right in Ht by lra.
        symmetry. apply corner_term_atan; auto; [lra|nra].
  - destruct (Rmin_cases h r Hh Hr) as [[L E]|[L E]]; rewrite E.
    + apply is_RInt_val with ((r - h) * 0); [|ring].
      apply is_RInt_const_on; [lra|]. intros t Ht.
      destruct (rho_pos r t Hr) as (P0 & P2 & P1); [lra|]. unfold corner_term.
      destruct (Rlt_dec _ _) as [A|A]; [exfalso; nra|]. unfold Rdiv. ring.
    + apply is_RInt_val with ((r - r) * 0); [|ring].
      apply is_RInt_const_on; [lra|]. intros t Ht. lra.
Qed.

(* ------------------------------------------------------------------ *)
(* each lateral piece integrated over the slab only                    *)
(* ------------------------------------------------------------------ *)
Lemma cap_in_slab r lo hi g : 0 < r -> 0 <= lo -> 0 <= hi -> 0 <= g ->
  is_RInt (fun t => r * (cap_term g (rho r t) / rho r t)) (- Rmin lo r) (Rmin hi r)
          (lateral_cap_in_slab r lo hi g).
Proof.
  intros Hr Hlo Hhi Hg. unfold lateral_cap_in_slab. apply (slab_piece _ r).
  - apply cap_piece; assumption.
  - apply is_RInt_even_mirror; [intros t; rewrite rho_even; reflexivity|]. apply cap_tail; assumption.
  - apply cap_tail; assumption.
Qed.

Lemma edge_in_slab r lo hi g1 g2 : 0 < r -> 0 <= lo -> 0 <= hi -> 0 <= g1 -> 0 <= g2 ->
  is_RInt (fun t => r * (corner_term g1 g2 (rho r t) / rho r t)) (- Rmin lo r) (Rmin hi r)
          (lateral_edge_in_slab r lo hi g1 g2).
Proof.
  intros Hr Hlo Hhi H1 H2. unfold lateral_edge_in_slab. apply (slab_piece _ r).
  - apply corner_piece; assumption.
  - apply is_RInt_even_mirror; [intros t; rewrite rho_even; reflexivity|]. apply corner_tail; assumption.
  - apply corner_tail; assumption.
Qed.

(* ------------------------------------------------------------------ *)
(* the slice integral in EVERY regime                                  *)
(* ------------------------------------------------------------------ *)
Theorem slice_integral_closed_form r lo hi hl hr hb ht :
  0 < r -> 0 <= lo -> 0 <= hi -> 0 <= hl -> 0 <= hr -> 0 <= hb -> 0 <= ht ->
  is_RInt (fun t => r * slice_measure r lo hi hl hr hb ht t) (- r) r (area_3d_sliced r lo hi hl hr hb ht).
Proof.
  intros Hr Hlo Hhi Hl Hrr Hb Htt.
  pose proof (cap_in_slab r lo hi hl Hr Hlo Hhi Hl) as C1. pose proof (cap_in_slab r lo hi hr Hr Hlo Hhi Hrr) as C2.
  pose proof (cap_in_slab r lo hi hb Hr Hlo Hhi Hb) as C3. pose proof (cap_in_slab r lo hi ht Hr Hlo Hhi Htt) as C4.
  pose proof (edge_in_slab r lo hi hl hb Hr Hlo Hhi Hl Hb) as K1. pose proof (edge_in_slab r lo hi hl ht Hr Hlo Hhi Hl Htt) as K2.
  pose proof (edge_in_slab r lo hi hr hb Hr Hlo Hhi Hrr Hb) as K3. pose proof (edge_in_slab r lo hi hr ht Hr Hlo Hhi Hrr Htt) as K4.
  set (l := Rmin lo r) in *. set (h := Rmin hi r) in *.
  assert (Bl : 0 <= l <= r /\ l <= lo /\ (l = lo \/ l = r)).
  { unfold l. destruct (Rmin_cases lo r Hlo Hr) as [[A E]|[A E]]; rewrite E; lra. }
  assert (Bh : 0 <= h <= r /\ h <= hi /\ (h = hi \/ h = r)).
  { unfold h. destruct (Rmin_cases hi r Hhi Hr) as [[A E]|[A E]]; rewrite E; lra. }
  assert (C0 : is_RInt (fun _ : R => r * (2 * PI)) (- l) h ((h - - l) * (r * (2 * PI)))).
  { apply is_RInt_const_on; [lra|auto]. }
  pose proof (is_RInt_minus (V := R_NormedModule) _ _ _ _ _ _ C0 C1) as X1.
  pose proof (is_RInt_minus (V := R_NormedModule) _ _ _ _ _ _ X1 C2) as X2.
  pose proof (is_RInt_minus (V := R_NormedModule) _ _ _ _ _ _ X2 C3) as X3.
  pose proof (is_RInt_minus (V := R_NormedModule) _ _ _ _ _ _ X3 C4) as X4.
  pose proof (is_RInt_plus (V := R_NormedModule) _ _ _ _ _ _ X4 K1) as X5.
  pose proof (is_RInt_plus (V := R_NormedModule) _ _ _ _ _ _ X5 K2) as X6.
  pose proof (is_RInt_plus (V := R_NormedModule) _ _ _ _ _ _ X6 K3) as X7.
  pose proof (is_RInt_plus (V := R_NormedModule) _ _ _ _ _ _ X7 K4) as X8.
  apply (is_RInt_middle _ (- r) (- l) h r); try lra.
  - intros x Hx. unfold slice_measure. destruct (Rle_dec (- lo) x) as [A|A]; [exfalso; lra|ring].
  - intros x Hx. unfold slice_measure.
    destruct (Rle_dec (- lo) x) as [A|A]; [destruct (Rle_dec x hi) as [B|B]; [exfalso; lra|ring]|ring].
  - set (g := fun t : R =>
      r * (2 * PI) - r * (cap_term hl (rho r t) / rho r t) - r * (cap_term hr (rho r t) / rho r t)
      - r * (cap_term hb (rho r t) / rho r t) - r * (cap_term ht (rho r t) / rho r t)
      + r * (corner_term hl hb (rho r t) / rho r t) + r * (corner_term hl ht (rho r t) / rho r t)
      + r * (corner_term hr hb (rho r t) / rho r t) + r * (corner_term hr ht (rho r t) / rho r t)).
    assert (E : forall t, - l < t < h -> g t = r * slice_measure r lo hi hl hr hb ht t).
    { intros t Ht. destruct (rho_pos r t Hr) as (P0 & _); [lra|]. unfold g, slice_measure.
      destruct (Rle_dec (- lo) t) as [A|A]; [destruct (Rle_dec t hi) as [B|B]|]; try (exfalso; lra).
      unfold arclen_2d. field. lra. }
    apply is_RInt_ext with (f := g).
    { intros t Ht. rewrite Rmin_left, Rmax_right in Ht by lra. apply E. exact Ht. }
    match type of X8 with is_RInt _ _ _ ?v => apply is_RInt_val with (l := v) end; [exact X8|].
    unfold area_3d_sliced. rewrite (scap_min lo), (scap_min hi). fold l h. unfold plus, minus, opp; cbn. unfold plus, opp; cbn. ring.
Qed.

(* ------------------------------------------------------------------ *)
(* the code's expression, grouped by the slicing axis                  *)
(* ------------------------------------------------------------------ *)
Lemma scorner_term_rot a b c r : scorner_term a b c r = scorner_term c a b r.
Proof.
  unfold scorner_term. replace (c * c + a * a + b * b) with (a * a + b * b + c * c) by ring.
  destruct (Rlt_dec _ _); [|reflexivity].
  rewrite (sphere_corner_sym_xy c a b), (sphere_corner_sym_yz a c b). reflexivity.
Qed.

Lemma scorner_term_rot2 a b c r : scorner_term a b c r = scorner_term b c a r.
Proof. rewrite (scorner_term_rot b c a). reflexivity. Qed.

(* No hypothesis: a regrouping of the 27 terms, using only the symmetry of
   sphere_edge_area / sphere_corner_area in their face arguments. *)
Lemma area_3d_is_sliced ax r xm xp ym yp zm zp :
  area_3d r xm xp ym yp zm zp =
  let '(hl, hr, hb, ht) := lateral ax xm xp ym yp zm zp in
  area_3d_sliced r (fst (along ax xm xp ym yp zm zp)) (snd (along ax xm xp ym yp zm zp)) hl hr hb ht.
Proof.
  unfold area_3d, area_3d_sliced, lateral_cap_in_slab, lateral_edge_in_slab.
  destruct ax; cbn [along lateral fst snd].
  - rewrite (sedge_term_sym ym xm), (sedge_term_sym ym xp), (sedge_term_sym yp xm), (sedge_term_sym yp xp),
            (sedge_term_sym zm xm), (sedge_term_sym zm xp), (sedge_term_sym zp xm), (sedge_term_sym zp xp).
    rewrite (scorner_term_rot ym zm xm), (scorner_term_rot ym zm xp), (scorner_term_rot ym zp xm), (scorner_term_rot ym zp xp),
            (scorner_term_rot yp zm xm), (scorner_term_rot yp zm xp), (scorner_term_rot yp zp xm), (scorner_term_rot yp zp xp).
    ring.
  - rewrite (sedge_term_sym zm ym), (sedge_term_sym zm yp), (sedge_term_sym zp ym), (sedge_term_sym zp yp),
            (sedge_term_sym zm xm), (sedge_term_sym zm xp), (sedge_term_sym zp xm), (sedge_term_sym zp xp).
    rewrite (scorner_term_rot2 zm xm ym), (scorner_term_rot2 zm xm yp), (scorner_term_rot2 zm xp ym), (scorner_term_rot2 zm xp yp),
            (scorner_term_rot2 zp xm ym), (scorner_term_rot2 zp xm yp), (scorner_term_rot2 zp xp ym), (scorner_term_rot2 zp xp yp).
    ring.
  - ring.
Qed.

(* ------------------------------------------------------------------ *)
(* MAIN: every r > 0, every centre in the closed box, every axis        *)
(* ------------------------------------------------------------------ *)
Theorem area_3d_bounded_is_area ax r cx cy cz x0 x1 y0 y1 z0 z1 :
  0 < r -> in_box3 x0 x1 y0 y1 z0 z1 (cx, cy, cz) ->
  has_axial_area ax r (fun p => in_box3 x0 x1 y0 y1 z0 z1 (shift3 cx cy cz p))
                 (area_3d_bounded r cx cy cz x0 x1 y0 y1 z0 z1).
Proof.
  intros Hr B. apply axial_area_iff_slice_integral; auto.
  unfold area_3d_bounded. rewrite (area_3d_is_sliced ax).
  unfold in_box3 in B. cbn [fst snd] in B.
  pose proof (lateral_nonneg ax (cx - x0) (x1 - cx) (cy - y0) (y1 - cy) (cz - z0) (z1 - cz)) as LN.
  unfold slice_measure_ax.
  destruct (lateral ax (cx - x0) (x1 - cx) (cy - y0) (y1 - cy) (cz - z0) (z1 - cz)) as [[[hl hr] hb] ht].
  destruct LN as (L1 & L2 & L3 & L4); try lra.
  apply slice_integral_closed_form; auto; destruct ax; cbn [along fst snd]; lra.
Qed.

(* about the generated function, with its NaN mask spelled out *)
Theorem gen_area_3d_bounded_is_area ax r cx cy cz x0 x1 y0 y1 z0 z1 :
  0 < r -> in_box3 x0 x1 y0 y1 z0 z1 (cx, cy, cz) ->
  exists a,
    has_axial_area ax r (fun p => in_box3 x0 x1 y0 y1 z0 z1 (shift3 cx cy cz p)) a /\
    (a < / (10 ^ 7) * r ^ 2 -> py_area_3d_bounded r cx cy cz x0 x1 y0 y1 z0 z1 = None) /\
    (/ (10 ^ 7) * r ^ 2 <= a -> py_area_3d_bounded r cx cy cz x0 x1 y0 y1 z0 z1 = Some a).
Proof.
  intros Hr B. exists (area_3d_bounded r cx cy cz x0 x1 y0 y1 z0 z1). split.
  - apply area_3d_bounded_is_area; auto.
  - rewrite gen_area_3d_bounded_is_model. fold (area_3d_bounded r cx cy cz x0 x1 y0 y1 z0 z1).
    apply nan_below_spec.
Qed.

(* for these sets (sphere /\ box) the axial area does not depend on the axis *)
Theorem box_area_axis_independent ax ax' r cx cy cz x0 x1 y0 y1 z0 z1 a a' :
  0 < r -> in_box3 x0 x1 y0 y1 z0 z1 (cx, cy, cz) ->
  has_axial_area ax r (fun p => in_box3 x0 x1 y0 y1 z0 z1 (shift3 cx cy cz p)) a ->
  has_axial_area ax' r (fun p => in_box3 x0 x1 y0 y1 z0 z1 (shift3 cx cy cz p)) a' ->
  a = a'.
Proof.
  intros Hr B A A'.
  rewrite (axial_area_unique ax r _ a _ Hr A (area_3d_bounded_is_area ax r cx cy cz x0 x1 y0 y1 z0 z1 Hr B)).
  apply (axial_area_unique ax' r _ _ _ Hr (area_3d_bounded_is_area ax' r cx cy cz x0 x1 y0 y1 z0 z1 Hr B) A').
Qed.

(* ------------------------------------------------------------------ *)
(* the corner term itself                                              *)
(* ------------------------------------------------------------------ *)
Lemma arc_measure_iff (P Q : R -> Prop) m : (forall phi, P phi <-> Q phi) -> has_arc_measure Q m -> has_arc_measure P m.
Proof.
  intros E (l & S & I & V). exists l. split; [exact S|]. split; [|exact V].
  intros theta Ht. rewrite E. apply I. exact Ht.
Qed.

(* sphere_corner_area dx dy dz r is the area, about the direction of one of the
   three box edges meeting in the corner, of the spherical triangle beyond the
   three faces *)
Theorem corner_area_is_triangle dx dy dz r :
  0 < r -> 0 <= dx -> 0 <= dy -> 0 <= dz -> dx * dx + dy * dy + dz * dz < r * r ->
  has_axial_area AZ r (beyond_xyz dx dy dz) (sphere_corner_area dx dy dz r).
Proof.
  intros Hr Hx Hy Hz M. assert (Lz : dz < r) by nra.
  exists (fun t => if Rle_dec dz t then corner_term dx dy (rho r t) / rho r t else 0). split.
  - intros t Ht. destruct (rho_pos r t Hr Ht) as (P0 & _).
    destruct (Rle_dec dz t) as [A|A].
    + apply (arc_measure_iff _ (fun phi => dx <= rho r t * cos phi /\ dy <= rho r t * sin phi)).
      * intros phi. unfold beyond_xyz, X3, Y3, Z3. cbn [sphere_pt fst snd]. fold (rho r t). tauto.
      * apply lune_slice_measure; lra.
    + apply empty_measure. intros phi. unfold beyond_xyz, X3, Y3, Z3. cbn [sphere_pt fst snd]. lra.
  - pose proof (corner_tail r dx dy dz Hr Hx Hy Hz) as I. rewrite Rmin_left in I by lra.
    unfold scorner_term in I. destruct (Rlt_dec _ _) as [_|N] in I; [|lra].
    apply (is_RInt_middle _ (- r) dz r r); try lra.
    + intros x Hx'. destruct (Rle_dec dz x); [lra|ring].
    + intros x Hx'. lra.
    + apply is_RInt_ext with (2 := I). intros t Ht. rewrite Rmin_left, Rmax_right in Ht by lra.
      destruct (Rle_dec dz t); [reflexivity|lra].
Qed.

(* three mutually adjacent faces (x+, y+, z+ at distances dx, dy, dz) within
   reach with the box corner inside the sphere, the three others out of reach:
   the value of the code's expression *)
Theorem area_3d_three_adjacent r xm dx ym dy zm dz :
  0 < r -> 0 <= dx -> 0 <= dy -> 0 <= dz -> dx * dx + dy * dy + dz * dz < r * r ->
  r <= xm -> r <= ym -> r <= zm ->
  area_3d r xm dx ym dy zm dz
  = 4 * PI * (r * r) - sphere_cap_area dx r - sphere_cap_area dy r - sphere_cap_area dz r
    + sphere_edge_area dx dy r + sphere_edge_area dx dz r + sphere_edge_area dy dz r
    - sphere_corner_area dx dy dz r.
Proof.
  intros Hr Hx Hy Hz M F1 F2 F3. unfold area_3d.
  rewrite (scap_far xm), (scap_far ym), (scap_far zm) by assumption.
  rewrite !(sedge_far xm), (sedge_far dx ym), (sedge_far dx zm), !(sedge_far ym), (sedge_far dy zm) by auto.
  rewrite !(scorner_far xm), (scorner_far dx ym), (scorner_far dx ym), (scorner_far dx dy zm) by auto.
  unfold scap_term, sedge_term, scorner_term.
  destruct (Rlt_dec dx r); [|nra]. destruct (Rlt_dec dy r); [|nra]. destruct (Rlt_dec dz r); [|nra].
  destruct (Rlt_dec (dx * dx + dy * dy) (r * r)); [|nra].
  destruct (Rlt_dec (dx * dx + dz * dz) (r * r)); [|nra].
  destruct (Rlt_dec (dy * dy + dz * dz) (r * r)); [|nra].
  destruct (Rlt_dec (dx * dx + dy * dy + dz * dz) (r * r)); [|nra].
  ring.
Qed.

(* non-vacuity: box [0,10]^3, r = 2, centre (9, 9, 9): the faces x+, y+, z+ at
   distance 1, the box corner (10,10,10) inside the sphere (1 + 1 + 1 < 4): all
   three edge terms and the corner term are on *)
Theorem area_3d_corner_example :
  in_box3 0 10 0 10 0 10 (9, 9, 9) /\
  (10 - 9) * (10 - 9) + (10 - 9) * (10 - 9) + (10 - 9) * (10 - 9) < 2 * 2 /\
  area_3d_bounded 2 9 9 9 0 10 0 10 0 10
  = 4 * PI * (2 * 2) - 3 * sphere_cap_area 1 2 + 3 * sphere_edge_area 1 1 2 - sphere_corner_area 1 1 1 2.
Proof.
  split; [unfold in_box3; cbn [fst snd]; lra|]. split; [lra|].
  unfold area_3d_bounded. replace (10 - 9) with 1 by lra.
  rewrite area_3d_three_adjacent by lra. ring.
Qed.
