(* split_subnet (Model/SplitSubnet.v): the dictionary built by split_dict does not
   depend on the stale .subnet attribute maps the heap carried before the call.

     split_dict_stale_indep   option_map subs (split_dict st0 dest srcs)
                              = option_map subs (split_dict st1 dest srcs)

   Proof: a simulation between the two runs; they agree on the dictionary, on the
   attributes of every destination, and on the attributes of the sources visited so far. *)
From Coq Require Import List Arith Bool Lia.
From TP Require Import Model.SubnetMerge Model.SplitSubnet Proofs.SubnetMerge Proofs.SplitMerge.
Import ListNotations.
Local Open Scope nat_scope.

Definition sim (S D : list nat) (a b : mst) : Prop :=
  subs a = subs b /\
  (forall d, In d D -> alook d (dsub a) = alook d (dsub b)) /\
  (forall s, In s S -> alook s (ssub a) = alook s (ssub b)).

Definition osim (S D : list nat) (oa ob : option mst) : Prop :=
  match oa, ob with
  | Some a, Some b => sim S D a b
  | None, None => True
  | _, _ => False
  end.

(* ---- attribute maps ---- *)
Lemma alook_aset_agree k k' v m m' :
  alook k m = alook k m' -> alook k (aset k' v m) = alook k (aset k' v m').
Proof.
  intros H. destruct (Nat.eq_dec k k') as [E|E].
  - subst k'. rewrite !alook_aset_eq. reflexivity.
  - rewrite !alook_aset_ne by exact E. exact H.
Qed.

Lemma alook_aset_all_agree l k v m m' :
  alook k m = alook k m' -> alook k (aset_all l v m) = alook k (aset_all l v m').
Proof.
  intros H. destruct (in_dec Nat.eq_dec k l) as [I|I].
  - rewrite !alook_aset_all_in by exact I. reflexivity.
  - rewrite !alook_aset_all_out by exact I. exact H.
Qed.

(* ---- (1) reset_dests ---- *)
Lemma reset_subs_indep : forall dest i a b,
  subs a = subs b -> subs (reset_dests i dest a) = subs (reset_dests i dest b).
Proof.
  induction dest as [|d0 dest IH]; intros i a b H; cbn [reset_dests]; [exact H|].
  apply IH. unfold reset_dest; cbn [subs]. rewrite H. reflexivity.
Qed.

Lemma reset_dsub_out : forall dest i x d,
  ~ In d dest -> alook d (dsub (reset_dests i dest x)) = alook d (dsub x).
Proof.
  induction dest as [|d0 dest IH]; intros i x d H; cbn [reset_dests]; [reflexivity|].
  rewrite IH by (intro; apply H; right; assumption).
  unfold reset_dest; cbn [dsub]. apply alook_aset_ne.
  intro E. apply H. left. symmetry. exact E.
Qed.

Lemma reset_dsub_in : forall dest i a b d,
  NoDup dest -> In d dest ->
  alook d (dsub (reset_dests i dest a)) = alook d (dsub (reset_dests i dest b)).
Proof.
  induction dest as [|d0 dest IH]; intros i a b d ND Hin; [destruct Hin|].
  inversion ND as [|? ? Hnin ND']; subst. cbn [reset_dests].
  destruct (Nat.eq_dec d0 d) as [E|E].
  - subst d0. rewrite !reset_dsub_out by exact Hnin.
    unfold reset_dest; cbn [dsub]. rewrite !alook_aset_eq. reflexivity.
  - apply IH; [exact ND'|]. destruct Hin as [H|H]; [contradiction|exact H].
Qed.

Lemma reset_sim dest i a b :
  NoDup dest -> subs a = subs b ->
  sim [] dest (reset_dests i dest a) (reset_dests i dest b).
Proof.
  intros ND H. split; [|split].
  - apply reset_subs_indep. exact H.
  - intros d Hd. apply reset_dsub_in; assumption.
  - intros s [].
Qed.

(* ---- (2) clear_src ---- *)
Lemma clear_sim S D a b s :
  sim S D a b -> sim (s :: S) D (clear_src a s) (clear_src b s).
Proof.
  intros (Hs & Hd & Hss). split; [|split]; unfold clear_src; cbn [subs ssub dsub].
  - exact Hs.
  - exact Hd.
  - intros s' Hin. destruct (Nat.eq_dec s' s) as [E|E].
    + subst s'. rewrite !alook_clear_eq. reflexivity.
    + rewrite !alook_clear_ne by exact E. apply Hss.
      destruct Hin as [H|H]; [congruence|exact H].
Qed.

(* ---- (3) one assign_subnet ---- *)
Lemma assign_sim S D a b s d :
  sim S D a b -> In s S -> In d D ->
  osim S D (assign_subnet a (s, d)) (assign_subnet b (s, d)).
Proof.
  intros (Hs & Hd & Hss) HS HD. unfold assign_subnet.
  rewrite (Hss s HS), (Hd d HD), Hs.
  destruct (alook s (ssub b)) as [i1|], (alook d (dsub b)) as [i2|]; cbn [osim].
  - destruct (Nat.eqb i1 i2); cbn [osim].
    + split; [exact Hs|split; assumption].
    + destruct (sfind i1 (subs b)) as [[s1 d1]|]; [|exact I].
      destruct (sfind i2 (subs b)) as [[s2 d2]|]; [|exact I].
      split; [|split]; cbn [subs ssub dsub].
      * reflexivity.
      * intros k Hk. apply alook_aset_all_agree. apply Hd. exact Hk.
      * intros k Hk. apply alook_aset_all_agree. apply Hss. exact Hk.
  - destruct (sfind i1 (subs b)) as [[s1 d1]|]; [|exact I].
    split; [|split]; cbn [subs ssub dsub].
    + reflexivity.
    + intros k Hk. apply alook_aset_agree. apply Hd. exact Hk.
    + exact Hss.
  - destruct (sfind i2 (subs b)) as [[s2 d2]|]; [|exact I].
    split; [|split]; cbn [subs ssub dsub].
    + reflexivity.
    + exact Hd.
    + intros k Hk. apply alook_aset_agree. apply Hss. exact Hk.
  - exact I.
Qed.

(* ---- (4) the folds ---- *)
Lemma fold_step_none es : fold_left step_o es None = None.
Proof. induction es as [|e es IH]; [reflexivity|exact IH]. Qed.

Lemma fold_split_none srcs : fold_left split_src srcs None = None.
Proof. induction srcs as [|e srcs IH]; [reflexivity|exact IH]. Qed.

Lemma fold_step_sim S D s : forall ds oa ob,
  In s S -> (forall d, In d ds -> In d D) ->
  osim S D oa ob ->
  osim S D (fold_left step_o (map (pair s) ds) oa) (fold_left step_o (map (pair s) ds) ob).
Proof.
  induction ds as [|d ds IH]; intros oa ob HS HD H; cbn [map fold_left]; [exact H|].
  apply IH; [exact HS|intros d' Hd'; apply HD; right; exact Hd'|].
  destruct oa as [a|], ob as [b|]; cbn [osim step_o] in *; try contradiction; [|exact I].
  apply assign_sim; [exact H|exact HS|apply HD; left; reflexivity].
Qed.

Lemma split_src_sim S D oa ob s ds :
  (forall d, In d ds -> In d D) ->
  osim S D oa ob ->
  osim (s :: S) D (split_src oa (s, ds)) (split_src ob (s, ds)).
Proof.
  intros HD H. destruct oa as [a|], ob as [b|]; cbn [osim split_src fst snd] in *;
    try contradiction; [|exact I].
  apply fold_step_sim; [left; reflexivity|exact HD|].
  cbn [osim]. apply clear_sim. exact H.
Qed.

Lemma fold_split_sim D : forall srcs S oa ob,
  (forall s ds d, In (s, ds) srcs -> In d ds -> In d D) ->
  osim S D oa ob ->
  exists S', osim S' D (fold_left split_src srcs oa) (fold_left split_src srcs ob).
Proof.
  induction srcs as [|[s ds] srcs IH]; intros S oa ob HD H; cbn [fold_left].
  - exists S. exact H.
  - apply (IH (s :: S)).
    + intros s' ds' d Hin Hd. apply (HD s' ds' d); [right; exact Hin|exact Hd].
    + apply split_src_sim; [|exact H].
      intros d Hd. apply (HD s ds d); [left; reflexivity|exact Hd].
Qed.

(* ---- (5) ---- *)
Theorem split_dict_stale_indep st0 st1 dest srcs :
  NoDup dest ->
  (forall s ds d, In (s, ds) srcs -> In d ds -> In d dest) ->
  option_map subs (split_dict st0 dest srcs) = option_map subs (split_dict st1 dest srcs).
Proof.
  intros ND HD. unfold split_dict.
  destruct (fold_split_sim dest srcs []
              (Some (reset_dests 0 dest {| subs := []; ssub := ssub st0; dsub := dsub st0 |}))
              (Some (reset_dests 0 dest {| subs := []; ssub := ssub st1; dsub := dsub st1 |}))
              HD) as [S' H].
  - cbn [osim]. apply reset_sim; [exact ND|reflexivity].
  - destruct (fold_left split_src srcs
                (Some (reset_dests 0 dest {| subs := []; ssub := ssub st0; dsub := dsub st0 |})))
      as [a|];
    destruct (fold_left split_src srcs
                (Some (reset_dests 0 dest {| subs := []; ssub := ssub st1; dsub := dsub st1 |})))
      as [b|]; cbn [osim option_map] in *; try contradiction; [|reflexivity].
    destruct H as (Hs & _). rewrite Hs. reflexivity.
Qed.
