(* Proofs about Model/TrajData.v: every producer's output rows are an explicit
   function of the input ROWS alone (the index a table arrives with is
   overwritten or ignored before anything reads it), hence pipelines of any
   length give the same rows on a table and on the same data default-indexed. *)
From Coq Require Import ZArith List Bool Lia Permutation.
From TP Require Import Model.TrajFilter Model.TrajData Proofs.TrajFilter.
Import ListNotations.
Open Scope Z_scope.

Lemma insert_map {A B} (h : A -> B) (lebB : B -> B -> bool) x l :
  map h (insert (fun a b => lebB (h a) (h b)) x l) = insert lebB (h x) (map h l).
Proof.
  induction l as [|y l IH]; cbn; [reflexivity|].
  destruct (lebB (h x) (h y)); cbn; [reflexivity|now rewrite IH].
Qed.

Lemma isort_map {A B} (h : A -> B) (lebB : B -> B -> bool) l :
  map h (isort (fun a b => lebB (h a) (h b)) l) = isort lebB (map h l).
Proof.
  unfold isort. induction l as [|x l IH]; cbn [fold_right map]; [reflexivity|].
  rewrite insert_map. now rewrite IH.
Qed.

Lemma isort_length {A} (leb : A -> A -> bool) l : length (isort leb l) = length l.
Proof. apply Permutation_length, isort_perm. Qed.

Lemma map_snd_combine {A B} (l1 : list A) : forall l2 : list B,
  map snd (combine l1 l2) = firstn (length l1) l2.
Proof. induction l1 as [|a l1 IH]; intros [|b l2]; cbn; [reflexivity..|now rewrite IH]. Qed.

Section Data.
  Variable R : Type.
  Variable fr part : R -> Z.
  Variable k_link k_link_partial : list R -> list R.
  Variable k_keep_stubs k_keep_clusters : list R -> R -> bool.
  Variable drift_t : Type.
  Variable k_drift : list R -> drift_t.
  Variable k_sub : drift_t -> Z -> R -> R.

  Notation body := (body R).
  Notation d_run1 := (d_run1 R fr part k_link k_link_partial k_keep_stubs k_keep_clusters drift_t k_drift k_sub).
  Notation d_run := (d_run R fr part k_link k_link_partial k_keep_stubs k_keep_clusters drift_t k_drift k_sub).

  Lemma number_from_rows rows : forall i, map snd (number_from R i rows) = rows.
  Proof. induction rows as [|r rows IH]; intros i; cbn; [reflexivity|now rewrite IH]. Qed.

  Lemma default_indexed_rows (b : body) : map snd (default_indexed R b) = map snd b.
  Proof. apply number_from_rows. Qed.

  Lemma set_index_rows keys (b : body) :
    set_index R keys b = map (fun r => (map (fun k => k r) keys, r)) (map snd b).
  Proof. unfold set_index. now rewrite map_map. Qed.

  Lemma sort_values_rows leb (b : body) : map snd (sort_values R leb b) = isort leb (map snd b).
  Proof. apply (isort_map snd leb). Qed.

  (* order of rows after set_index(['frame','particle']).sort_index() *)
  Definition by_frame_particle (r1 r2 : R) : bool := lex_leb [fr r1; part r1] [fr r2; part r2].

  (* ---- each stage as an explicit function of the rows ---- *)
  Theorem link_rows (b : body) :
    map snd (d_link R fr k_link b) = firstn (length b) (k_link (isort (by_frame R fr) (map snd b))).
  Proof.
    unfold d_link. rewrite map_snd_combine, map_length, sort_values_rows.
    unfold sort_values. now rewrite isort_length.
  Qed.

  Theorem link_partial_rows (b : body) :
    map snd (d_link R fr k_link_partial b) = firstn (length b) (k_link_partial (isort (by_frame R fr) (map snd b))).
  Proof.
    unfold d_link. rewrite map_snd_combine, map_length, sort_values_rows.
    unfold sort_values. now rewrite isort_length.
  Qed.

  (* kept rows keep their order; the new index is the row's own frame number *)
  Theorem filter_rows keep (b : body) :
    d_filter R fr keep b = map (fun r => ([fr r], r)) (filter (keep (map snd b)) (map snd b)).
  Proof.
    unfold d_filter. rewrite set_index_rows. cbn [map]. f_equal.
    unfold reset_index_drop. rewrite number_from_rows.
    generalize (map snd b) at 1 3 as all. intros all. generalize 0 as i.
    induction (map snd b) as [|r rows IH]; intros i; cbn; [reflexivity|].
    destruct (keep all r); cbn; now rewrite IH.
  Qed.

  Theorem compute_drift_rows (b : body) :
    d_compute_drift R fr part drift_t k_drift b = k_drift (isort (by_particle_frame R fr part) (map snd b)).
  Proof.
    unfold d_compute_drift. rewrite sort_values_rows. unfold reset_index_drop. now rewrite number_from_rows.
  Qed.

  (* subtract_drift reads the index level 'frame' -- which at that point holds each row's own
     frame number: every row gets the drift AT ITS OWN FRAME subtracted, rows ordered by
     (frame, particle), whatever index the table arrived with *)
  Theorem subtract_drift_rows (b : body) :
    d_subtract_drift R fr part drift_t k_drift k_sub b =
    let d := k_drift (isort (by_particle_frame R fr part) (map snd b)) in
    map (fun r => ([fr r; part r], k_sub d (fr r) r)) (isort by_frame_particle (map snd b)).
  Proof.
    unfold d_subtract_drift. rewrite compute_drift_rows. cbn zeta.
    rewrite set_index_rows. cbn [map]. unfold sort_index.
    set (g := fun r : R => ([fr r; part r], r)).
    assert (E : isort (fun p q : ixv * R => lex_leb (fst p) (fst q)) (map g (map snd b))
                = map g (isort by_frame_particle (map snd b))).
    { symmetry. apply (isort_map g (fun p q => lex_leb (fst p) (fst q))). }
    rewrite E, map_map. reflexivity.
  Qed.

  (* ---- index independence ---- *)
  Theorem stage_rows_independent st (b b' : body) :
    map snd b = map snd b' -> map snd (d_run1 st b) = map snd (d_run1 st b').
  Proof.
    intros H. assert (L : length b = length b') by (rewrite <- (map_length snd b), H; apply map_length).
    destruct st; cbn [TrajData.d_run1].
    - now rewrite !link_rows, H, L.
    - now rewrite !link_partial_rows, H, L.
    - now rewrite !filter_rows, H.
    - now rewrite !filter_rows, H.
    - now rewrite !subtract_drift_rows, H.
  Qed.

  Theorem pipeline_rows_independent ps : forall b b' : body,
    map snd b = map snd b' -> map snd (d_run ps b) = map snd (d_run ps b').
  Proof.
    induction ps as [|st ps IH]; intros b b' H; cbn [TrajData.d_run]; [exact H|].
    apply IH, stage_rows_independent, H.
  Qed.

  Theorem same_numbers ps (b : body) :
    map snd (d_run ps b) = map snd (d_run ps (default_indexed R b)) /\
    d_compute_drift R fr part drift_t k_drift (d_run ps b) =
    d_compute_drift R fr part drift_t k_drift (d_run ps (default_indexed R b)).
  Proof.
    assert (E : map snd (d_run ps b) = map snd (d_run ps (default_indexed R b))).
    { apply pipeline_rows_independent. symmetry. apply default_indexed_rows. }
    split; [exact E|]. now rewrite !compute_drift_rows, E.
  Qed.

  (* once a stage that sets the index has run, the index values agree as well *)
  Theorem index_set_by_stage st (b b' : body) :
    st <> DLink -> st <> DLinkPartial -> map snd b = map snd b' -> d_run1 st b = d_run1 st b'.
  Proof.
    intros N1 N2 H. destruct st; cbn [TrajData.d_run1]; try contradiction.
    - now rewrite !filter_rows, H.
    - now rewrite !filter_rows, H.
    - now rewrite !subtract_drift_rows, H.
  Qed.
End Data.
