(* split_subnet (Model/SplitSubnet.v): the FRESH dictionary built by
   reset_dests / clear_src / assign_subnet is, whatever stale .subnet attributes
   the heap carried before the call, exactly the connected components of the pruned
   candidate graph.

     split_dict_total        the call never raises
     split_dict_inv          the final state satisfies [Inv2]
     split_dict_components   the returned subnets are the groups of Link.components
                             (filter has_reals items) + the singleton destinations *)
From Coq Require Import List Arith Bool Lia Relations Permutation BinNums.
From TP Require Import Model.Assign Model.Link Model.SubnetMerge Model.SplitSubnet
  Proofs.Opt Proofs.Comps Proofs.Connected Proofs.SubnetMerge.
Import ListNotations.
Local Open Scope nat_scope.

(* the points of this call: the sources visited so far, the destinations *)
Definition Dom (S D : list nat) (x : vert) : Prop :=
  match x with inl s => In s S | inr d => In d D end.

Record Inv2 (S D : list nat) (es : list (nat * nat)) (st : mst) : Prop := {
  j_ids : NoDup (map fst (subs st));
  j_in  : forall x i, Dom S D x -> vsub st x = Some i -> exists v, sfind i (subs st) = Some v /\ verts v x;
  j_sub : forall i v x, sfind i (subs st) = Some v -> verts v x -> vsub st x = Some i;
  j_dom : forall i v x, sfind i (subs st) = Some v -> verts v x -> Dom S D x;
  j_conn : forall i v x y, sfind i (subs st) = Some v -> verts v x -> verts v y -> conn es x y;
  j_edge : forall s d, In (s, d) es -> exists i, alook s (ssub st) = Some i /\ alook d (dsub st) = Some i;
  j_es : forall s d, In (s, d) es -> In s S /\ In d D;
  j_dest : forall d, In d D -> alook d (dsub st) <> None;
  j_src  : forall s i, In s S -> alook s (ssub st) = Some i -> exists d, In (s, d) es;
  j_nodup : forall i v, sfind i (subs st) = Some v -> NoDup (fst v) /\ NoDup (snd v);
  j_nonempty : forall i v, sfind i (subs st) = Some v -> snd v <> []
}.

Lemma Inv2_ext S S' D D' es st :
  (forall s, In s S <-> In s S') -> (forall d, In d D <-> In d D') ->
  Inv2 S D es st -> Inv2 S' D' es st.
Proof.
  intros HS HD I. destruct I.
  assert (Hdom : forall x, Dom S D x <-> Dom S' D' x).
  { intros [s|d]; cbn; auto. }
  constructor; auto.
  - intros x i Hx. apply j_in0. apply Hdom. exact Hx.
  - intros i v x Hv Hx. apply Hdom. eapply j_dom0; eassumption.
  - intros s d H. destruct (j_es0 s d H). split; [apply HS|apply HD]; assumption.
  - intros d H. apply j_dest0. apply HD. exact H.
  - intros s i H. apply j_src0. apply HS. exact H.
Qed.

(* ---------- dictionary / attribute helpers ---------- *)
Lemma sfind_sset j i v l : sfind j (sset i v l) = if Nat.eqb j i then Some v else sfind j l.
Proof.
  induction l as [|[k w] l IH]; cbn.
  - destruct (Nat.eqb_spec j i); reflexivity.
  - destruct (Nat.eqb_spec i k) as [E|E]; cbn.
    + subst k. destruct (Nat.eqb_spec j i); reflexivity.
    + destruct (Nat.eqb_spec j k) as [E2|E2].
      * subst k. destruct (Nat.eqb_spec j i); [congruence|reflexivity].
      * exact IH.
Qed.
Lemma in_keys_sset k i v l : In k (map fst (sset i v l)) <-> k = i \/ In k (map fst l).
Proof.
  induction l as [|[j w] l IH]; cbn.
  - split; [intros [H|[]]; auto|intros [H|[]]; auto].
  - destruct (Nat.eqb_spec i j) as [E|E]; cbn.
    + subst j. split; [intros [H|H]; auto|intros [H|[H|H]]; auto].
    + rewrite IH. split; [intros [H|[H|H]]; auto|intros [H|[H|H]]; auto].
Qed.
Lemma nodup_sset i v l : NoDup (map fst l) -> NoDup (map fst (sset i v l)).
Proof.
  induction l as [|[j w] l IH]; cbn; intros H.
  - constructor; [intros []|constructor].
  - inversion H as [|a b Hn Hd]; subst.
    destruct (Nat.eqb_spec i j) as [E|E]; cbn.
    + constructor; assumption.
    + constructor; [|apply IH; exact Hd]. intros Hin. apply in_keys_sset in Hin.
      destruct Hin as [Hin|Hin]; [congruence|contradiction].
Qed.
Lemma sfind_in_keys i l v : sfind i l = Some v -> In i (map fst l).
Proof.
  induction l as [|[j w] l IH]; cbn; [discriminate|].
  destruct (Nat.eqb_spec i j); [left; auto|intros H; right; auto].
Qed.
Lemma sfind_In i v l : NoDup (map fst l) -> (In (i, v) l <-> sfind i l = Some v).
Proof.
  induction l as [|[j w] l IH]; cbn; intros H.
  - split; [intros []|discriminate].
  - inversion H as [|a b Hn Hd]; subst. destruct (Nat.eqb_spec i j) as [E|E].
    + subst j. split.
      * intros [E|Hin]; [congruence|]. exfalso. apply Hn. apply in_map_iff. exists (i, v). auto.
      * intros E. left. congruence.
    + rewrite <- (IH Hd). split; [intros [E'|Hin]; [congruence|exact Hin]|auto].
Qed.

Lemma alook_clear_eq k m : alook k (clear_key k m) = None.
Proof.
  induction m as [|[j w] m IH]; cbn; [reflexivity|].
  destruct (Nat.eqb_spec j k) as [E|E]; cbn; [exact IH|].
  destruct (Nat.eqb_spec k j); [congruence|exact IH].
Qed.
Lemma alook_clear_ne k k' m : k' <> k -> alook k' (clear_key k m) = alook k' m.
Proof.
  intros Hne. induction m as [|[j w] m IH]; cbn; [reflexivity|].
  destruct (Nat.eqb_spec j k) as [E|E]; cbn.
  - subst j. destruct (Nat.eqb_spec k' k); [congruence|exact IH].
  - destruct (Nat.eqb_spec k' j); [reflexivity|exact IH].
Qed.

(* ---------- the fresh dictionary: enumerate(dest) ---------- *)
Lemma inv2_empty a b : Inv2 [] [] [] {| subs := []; ssub := a; dsub := b |}.
Proof.
  constructor; cbn; try (intros; discriminate); try (intros; contradiction).
  - constructor.
  - intros [s|d] i [].
Qed.

Lemma reset_dest_inv D st i d :
  Inv2 [] D [] st -> (forall k, In k (map fst (subs st)) -> k < i) -> ~ In d D ->
  Inv2 [] (d :: D) [] (reset_dest st i d) /\
  (forall k, In k (map fst (subs (reset_dest st i d))) -> k < S i).
Proof.
  intros I Hk Hd. destruct I. split.
  2:{ cbn [reset_dest subs]. intros k H. apply in_keys_sset in H. destruct H as [H|H]; [lia|]. apply Hk in H. lia. }
  assert (Hfresh : forall j v, sfind j (subs st) = Some v -> j <> i).
  { intros j v H E. apply sfind_in_keys in H. apply Hk in H. lia. }
  unfold reset_dest. constructor; cbn [subs ssub dsub].
  - apply nodup_sset. exact j_ids0.
  - intros [s|d0] j Hx Hv; cbn in Hx; [destruct Hx|]. cbn [vsub dsub] in Hv. rewrite sfind_sset.
    destruct (Nat.eq_dec d0 d) as [E|E].
    + subst d0. rewrite alook_aset_eq in Hv. inversion Hv; subst j. rewrite Nat.eqb_refl.
      exists ([], [d]). split; [reflexivity|cbn; auto].
    + rewrite alook_aset_ne in Hv by exact E. destruct Hx as [Hx|Hx]; [congruence|].
      destruct (j_in0 (inr d0) j Hx Hv) as [v [Hf Hin]].
      destruct (Nat.eqb_spec j i) as [E2|E2]; [exfalso; exact (Hfresh j v Hf E2)|]. exists v. auto.
  - intros j v x Hf Hx. rewrite sfind_sset in Hf. destruct (Nat.eqb_spec j i) as [E2|E2].
    + subst j. inversion Hf; subst v. destruct x as [s|d0]; cbn in Hx; [destruct Hx|].
      destruct Hx as [Hx|[]]. subst d0. cbn. rewrite Nat.eqb_refl. reflexivity.
    + pose proof (j_sub0 j v x Hf Hx) as H1. pose proof (j_dom0 j v x Hf Hx) as H2.
      destruct x as [s|d0]; cbn in H2; [destruct H2|]. cbn [vsub dsub]. cbn in H1.
      rewrite alook_aset_ne; [exact H1|]. intros E; subst d0; contradiction.
  - intros j v x Hf Hx. rewrite sfind_sset in Hf. destruct (Nat.eqb_spec j i) as [E2|E2].
    + inversion Hf; subst v. destruct x as [s|d0]; cbn in Hx; [destruct Hx|].
      destruct Hx as [Hx|[]]. subst d0. cbn. auto.
    + pose proof (j_dom0 j v x Hf Hx) as H2. destruct x as [s|d0]; cbn in *; auto.
  - intros j v x y Hf Hx Hy. rewrite sfind_sset in Hf. destruct (Nat.eqb_spec j i) as [E2|E2].
    + inversion Hf; subst v. destruct x as [s|d0]; cbn in Hx; [destruct Hx|]. destruct Hx as [Hx|[]].
      destruct y as [s|d1]; cbn in Hy; [destruct Hy|]. destruct Hy as [Hy|[]]. subst. apply rst_refl.
    + eapply j_conn0; eassumption.
  - intros s d0 [].
  - intros s d0 [].
  - intros d0 [E|H].
    + subst d0. rewrite alook_aset_eq. discriminate.
    + destruct (Nat.eq_dec d0 d) as [E|E]; [subst d0; rewrite alook_aset_eq; discriminate|].
      rewrite alook_aset_ne by exact E. apply j_dest0. exact H.
  - intros s j [].
  - intros j v Hf. rewrite sfind_sset in Hf. destruct (Nat.eqb_spec j i) as [E2|E2]; [|eapply j_nodup0; eassumption].
    inversion Hf; subst v. cbn. split; [constructor|constructor; [intros []|constructor]].
  - intros j v Hf. rewrite sfind_sset in Hf. destruct (Nat.eqb_spec j i) as [E2|E2]; [|eapply j_nonempty0; eassumption].
    inversion Hf; subst v. cbn. discriminate.
Qed.

Lemma reset_dests_inv : forall ds D st i,
  Inv2 [] D [] st -> (forall k, In k (map fst (subs st)) -> k < i) ->
  NoDup ds -> (forall d, In d ds -> ~ In d D) ->
  Inv2 [] (rev ds ++ D) [] (reset_dests i ds st).
Proof.
  induction ds as [|d ds IH]; intros D st i I Hk Hn Hdis; cbn [reset_dests rev].
  - exact I.
  - inversion Hn as [|a b Hnd Hn']; subst.
    destruct (reset_dest_inv D st i d I Hk) as [I1 Hk1]; [apply Hdis; left; reflexivity|].
    rewrite <- app_assoc. cbn [app]. apply IH; [exact I1|exact Hk1|exact Hn'|].
    intros d0 H0 [E|H1]; [subst d0; contradiction|]. apply (Hdis d0); [right; exact H0|exact H1].
Qed.

Lemma reset_inv a b dest :
  NoDup dest -> Inv2 [] dest [] (reset_dests 0 dest {| subs := []; ssub := a; dsub := b |}).
Proof.
  intros Hn. apply (Inv2_ext [] [] (rev dest ++ []) dest); [tauto| |].
  - intros d. rewrite app_nil_r. symmetry. apply in_rev.
  - apply reset_dests_inv; [apply inv2_empty|intros k []|exact Hn|intros d _ []].
Qed.

(* ---------- sp.subnet = None for a source not visited before ---------- *)
Lemma clear_src_inv S D es st s :
  Inv2 S D es st -> ~ In s S -> Inv2 (s :: S) D es (clear_src st s).
Proof.
  intros I Hs. destruct I. unfold clear_src. constructor; cbn [subs ssub dsub]; auto.
  - intros [s0|d0] i Hx Hv; cbn [vsub ssub dsub] in Hv.
    + destruct (Nat.eq_dec s0 s) as [E|E]; [subst s0; rewrite alook_clear_eq in Hv; discriminate|].
      rewrite alook_clear_ne in Hv by exact E. destruct Hx as [Hx|Hx]; [congruence|].
      apply (j_in0 (inl s0) i Hx Hv).
    + apply (j_in0 (inr d0) i Hx Hv).
  - intros i v x Hf Hx. pose proof (j_sub0 i v x Hf Hx) as H1. pose proof (j_dom0 i v x Hf Hx) as H2.
    destruct x as [s0|d0]; cbn [vsub ssub dsub] in *; [|exact H1].
    rewrite alook_clear_ne; [exact H1|]. intros E; subst s0; contradiction.
  - intros i v x Hf Hx. pose proof (j_dom0 i v x Hf Hx) as H2. destruct x as [s0|d0]; cbn in *; auto.
  - intros s0 d0 Hin. destruct (j_edge0 s0 d0 Hin) as [i [H1 H2]]. exists i. split; [|exact H2].
    rewrite alook_clear_ne; [exact H1|]. intros E; subst s0. destruct (j_es0 s d0 Hin). contradiction.
  - intros s0 d0 Hin. destruct (j_es0 s0 d0 Hin). split; [right|]; assumption.
  - intros s0 i Hin Hv. destruct (Nat.eq_dec s0 s) as [E|E]; [subst s0; rewrite alook_clear_eq in Hv; discriminate|].
    rewrite alook_clear_ne in Hv by exact E. destruct Hin as [Hin|Hin]; [congruence|].
    apply (j_src0 s0 i Hin Hv).
Qed.

(* ---------- one call of assign_subnet (cf. Proofs/SubnetMerge.v) ---------- *)
Lemma step_same2 S D es st s d i :
  Inv2 S D es st -> In s S -> In d D -> alook s (ssub st) = Some i -> alook d (dsub st) = Some i ->
  Inv2 S D (es ++ [(s, d)]) st.
Proof.
  intros I HsS HdD Hs Hd. destruct I. constructor; auto.
  - intros j v x y Hf Hx Hy. apply conn_app. eapply j_conn0; eassumption.
  - intros s0 d0 Hin. apply in_app_or in Hin. destruct Hin as [Hin|[E|[]]]; [auto|].
    inversion E; subst. exists i. auto.
  - intros s0 d0 Hin. apply in_app_or in Hin. destruct Hin as [Hin|[E|[]]]; [auto|].
    inversion E; subst. auto.
  - intros s0 j Hin H. destruct (j_src0 s0 j Hin H) as [d0 H0]. exists d0. apply in_or_app. auto.
Qed.

Lemma step_join2 S D es st s d i2 s2 d2 :
  Inv2 S D es st -> In s S -> In d D -> alook s (ssub st) = None -> alook d (dsub st) = Some i2 ->
  sfind i2 (subs st) = Some (s2, d2) ->
  Inv2 S D (es ++ [(s, d)])
      {| subs := sput i2 (s :: s2, d2) (subs st); ssub := aset s i2 (ssub st); dsub := dsub st |}.
Proof.
  intros I HsS HdD Hs Hd Hf. destruct I.
  assert (Hd2 : In d d2).
  { destruct (j_in0 (inr d) i2 HdD Hd) as [v [Hv Hx]]. rewrite Hf in Hv. inversion Hv; subst v. exact Hx. }
  assert (Hns : ~ In s s2).
  { intros H. pose proof (j_sub0 i2 (s2, d2) (inl s) Hf H) as H'. cbn in H'. congruence. }
  assert (Hfind : forall j, sfind j (sput i2 (s :: s2, d2) (subs st)) =
                            if Nat.eqb j i2 then Some (s :: s2, d2) else sfind j (subs st)).
  { intros j. destruct (Nat.eqb_spec j i2) as [E|E].
    - subst j. apply sfind_sput_eq. congruence.
    - apply sfind_sput_ne. auto. }
  assert (Hvs : forall x, vsub {| subs := sput i2 (s :: s2, d2) (subs st); ssub := aset s i2 (ssub st); dsub := dsub st |} x =
                          match x with inl s0 => if Nat.eqb s0 s then Some i2 else alook s0 (ssub st) | inr d0 => alook d0 (dsub st) end).
  { intros [s0|d0]; cbn; reflexivity. }
  assert (Hall : forall x, verts (s :: s2, d2) x -> conn (es ++ [(s, d)]) x (inr d)).
  { intros [s0|d0] Hx; cbn in Hx.
    - destruct Hx as [E|Hx]; [subst s0; apply conn_new|].
      apply conn_app. apply (j_conn0 i2 (s2, d2)); [exact Hf|exact Hx|exact Hd2].
    - apply conn_app. apply (j_conn0 i2 (s2, d2)); [exact Hf|exact Hx|exact Hd2]. }
  constructor; cbn [subs ssub dsub].
  - rewrite map_fst_sput. exact j_ids0.
  - intros x i HD Hx. rewrite Hvs in Hx. rewrite Hfind.
    destruct x as [s0|d0].
    + destruct (Nat.eqb_spec s0 s) as [E|E].
      * inversion Hx; subst. rewrite Nat.eqb_refl. exists (s :: s2, d2). split; [reflexivity|cbn; auto].
      * destruct (j_in0 (inl s0) i HD Hx) as [v [Hv Hin]].
        destruct (Nat.eqb_spec i i2) as [E2|E2].
        -- subst i. rewrite Hf in Hv. inversion Hv; subst v. exists (s :: s2, d2). split; [reflexivity|cbn; right; exact Hin].
        -- exists v. auto.
    + destruct (j_in0 (inr d0) i HD Hx) as [v [Hv Hin]].
      destruct (Nat.eqb_spec i i2) as [E2|E2].
      * subst i. rewrite Hf in Hv. inversion Hv; subst v. exists (s :: s2, d2). split; [reflexivity|exact Hin].
      * exists v. auto.
  - intros i v x Hv Hx. rewrite Hfind in Hv. rewrite Hvs.
    destruct (Nat.eqb_spec i i2) as [E2|E2].
    + subst i. inversion Hv; subst v. destruct x as [s0|d0]; cbn in Hx.
      * destruct (Nat.eqb_spec s0 s) as [E|E]; [reflexivity|].
        destruct Hx as [Hx|Hx]; [congruence|]. apply (j_sub0 i2 (s2, d2) (inl s0) Hf Hx).
      * apply (j_sub0 i2 (s2, d2) (inr d0) Hf Hx).
    + pose proof (j_sub0 i v x Hv Hx) as H. destruct x as [s0|d0]; cbn in H; [|exact H].
      destruct (Nat.eqb_spec s0 s) as [E|E]; [subst s0; congruence|exact H].
  - intros i v x Hv Hx. rewrite Hfind in Hv.
    destruct (Nat.eqb_spec i i2) as [E2|E2]; [|eapply j_dom0; eassumption].
    inversion Hv; subst v. destruct x as [s0|d0]; cbn in Hx; cbn.
    + destruct Hx as [Hx|Hx]; [subst s0; exact HsS|]. apply (j_dom0 i2 (s2, d2) (inl s0) Hf Hx).
    + apply (j_dom0 i2 (s2, d2) (inr d0) Hf Hx).
  - intros i v x y Hv Hx Hy. rewrite Hfind in Hv.
    destruct (Nat.eqb_spec i i2) as [E2|E2].
    + inversion Hv; subst v. eapply conn_trans; [apply Hall; exact Hx|apply conn_sym; apply Hall; exact Hy].
    + apply conn_app. eapply j_conn0; eassumption.
  - intros s0 d0 Hin. apply in_app_or in Hin. destruct Hin as [Hin|[E|[]]].
    + destruct (j_edge0 s0 d0 Hin) as [i [H1 H2]]. exists i. split; [|exact H2].
      rewrite alook_aset_ne; [exact H1|]. intros E; subst s0; congruence.
    + inversion E; subst. exists i2. split; [apply alook_aset_eq|exact Hd].
  - intros s0 d0 Hin. apply in_app_or in Hin. destruct Hin as [Hin|[E|[]]]; [auto|].
    inversion E; subst. auto.
  - exact j_dest0.
  - intros s0 i Hin H. destruct (Nat.eq_dec s0 s) as [E|E].
    + subst s0. exists d. apply in_or_app. right. left. reflexivity.
    + rewrite alook_aset_ne in H by exact E. destruct (j_src0 s0 i Hin H) as [d0 H0]. exists d0. apply in_or_app. auto.
  - intros i v Hv. rewrite Hfind in Hv. destruct (Nat.eqb_spec i i2) as [E2|E2]; [|eapply j_nodup0; eassumption].
    inversion Hv; subst v. destruct (j_nodup0 i2 (s2, d2) Hf) as [N1 N2]. cbn in *. split; [constructor; assumption|exact N2].
  - intros i v Hv. rewrite Hfind in Hv. destruct (Nat.eqb_spec i i2) as [E2|E2]; [|eapply j_nonempty0; eassumption].
    inversion Hv; subst v. apply (j_nonempty0 i2 (s2, d2) Hf).
Qed.

Lemma step_merge2 S D es st s d i1 i2 s1 d1 s2 d2 :
  Inv2 S D es st -> In s S -> In d D ->
  alook s (ssub st) = Some i1 -> alook d (dsub st) = Some i2 -> i1 <> i2 ->
  sfind i1 (subs st) = Some (s1, d1) -> sfind i2 (subs st) = Some (s2, d2) ->
  Inv2 S D (es ++ [(s, d)])
      {| subs := sdel i1 (sput i2 (s2 ++ s1, d2 ++ d1) (subs st));
         ssub := aset_all s1 i2 (ssub st); dsub := aset_all d1 i2 (dsub st) |}.
Proof.
  intros I HsS HdD Hs Hd Hne Hf1 Hf2. destruct I.
  set (st' := {| subs := sdel i1 (sput i2 (s2 ++ s1, d2 ++ d1) (subs st));
                 ssub := aset_all s1 i2 (ssub st); dsub := aset_all d1 i2 (dsub st) |}).
  assert (Hs1 : In s s1).
  { destruct (j_in0 (inl s) i1 HsS Hs) as [v [Hv Hx]]. rewrite Hf1 in Hv. inversion Hv; subst v. exact Hx. }
  assert (Hd2 : In d d2).
  { destruct (j_in0 (inr d) i2 HdD Hd) as [v [Hv Hx]]. rewrite Hf2 in Hv. inversion Hv; subst v. exact Hx. }
  assert (Hfind : forall j, sfind j (subs st') =
            if Nat.eqb j i1 then None else if Nat.eqb j i2 then Some (s2 ++ s1, d2 ++ d1) else sfind j (subs st)).
  { intros j. cbn [st' subs]. destruct (Nat.eqb_spec j i1) as [E|E].
    - subst j. apply sfind_sdel_eq.
    - rewrite sfind_sdel_ne by auto. destruct (Nat.eqb_spec j i2) as [E2|E2].
      + subst j. apply sfind_sput_eq. congruence.
      + apply sfind_sput_ne. auto. }
  assert (Hvs : forall x, vsub st' x = if verts_dec (s1, d1) x then Some i2 else vsub st x).
  { intros [s0|d0]; cbn [st' vsub ssub dsub]; destruct (verts_dec (s1, d1) _) as [H|H]; cbn in H.
    - apply alook_aset_all_in. exact H.
    - apply alook_aset_all_out. exact H.
    - apply alook_aset_all_in. exact H.
    - apply alook_aset_all_out. exact H. }
  assert (Hmerged : forall x, verts (s2 ++ s1, d2 ++ d1) x <-> verts (s2, d2) x \/ verts (s1, d1) x).
  { intros [s0|d0]; cbn; rewrite in_app_iff; tauto. }
  assert (Hall : forall x, verts (s2 ++ s1, d2 ++ d1) x -> conn (es ++ [(s, d)]) x (inr d)).
  { intros x Hx. apply Hmerged in Hx. destruct Hx as [Hx|Hx].
    - apply conn_app. apply (j_conn0 i2 (s2, d2)); [exact Hf2|exact Hx|exact Hd2].
    - eapply conn_trans; [|apply conn_new]. apply conn_app.
      apply (j_conn0 i1 (s1, d1)); [exact Hf1|exact Hx|exact Hs1]. }
  constructor.
  - cbn [st' subs]. apply nodup_sdel. rewrite map_fst_sput. exact j_ids0.
  - intros x i HD Hx. rewrite Hvs in Hx. rewrite Hfind.
    destruct (verts_dec (s1, d1) x) as [H1|H1].
    + inversion Hx; subst i. destruct (Nat.eqb_spec i2 i1); [congruence|]. rewrite Nat.eqb_refl.
      exists (s2 ++ s1, d2 ++ d1). split; [reflexivity|]. apply Hmerged. right. exact H1.
    + destruct (j_in0 x i HD Hx) as [v [Hv Hin]].
      destruct (Nat.eqb_spec i i1) as [E1|E1].
      * exfalso. subst i. rewrite Hf1 in Hv. inversion Hv; subst v. exact (H1 Hin).
      * destruct (Nat.eqb_spec i i2) as [E2|E2].
        -- subst i. rewrite Hf2 in Hv. inversion Hv; subst v. exists (s2 ++ s1, d2 ++ d1).
           split; [reflexivity|]. apply Hmerged. left. exact Hin.
        -- exists v. auto.
  - intros i v x Hv Hx. rewrite Hfind in Hv. rewrite Hvs.
    destruct (Nat.eqb_spec i i1) as [E1|E1]; [discriminate|].
    destruct (verts_dec (s1, d1) x) as [H1|H1].
    + destruct (Nat.eqb_spec i i2) as [E2|E2]; [subst i; reflexivity|].
      exfalso. pose proof (j_sub0 i v x Hv Hx) as Ha. pose proof (j_sub0 i1 (s1, d1) x Hf1 H1) as Hb. congruence.
    + destruct (Nat.eqb_spec i i2) as [E2|E2].
      * subst i. inversion Hv; subst v. apply Hmerged in Hx. destruct Hx as [Hx|Hx]; [|contradiction].
        apply (j_sub0 i2 (s2, d2) x Hf2 Hx).
      * apply (j_sub0 i v x Hv Hx).
  - intros i v x Hv Hx. rewrite Hfind in Hv.
    destruct (Nat.eqb_spec i i1) as [E1|E1]; [discriminate|].
    destruct (Nat.eqb_spec i i2) as [E2|E2]; [|eapply j_dom0; eassumption].
    inversion Hv; subst v. apply Hmerged in Hx.
    destruct Hx as [Hx|Hx]; [exact (j_dom0 i2 _ x Hf2 Hx)|exact (j_dom0 i1 _ x Hf1 Hx)].
  - intros i v x y Hv Hx Hy. rewrite Hfind in Hv.
    destruct (Nat.eqb_spec i i1) as [E1|E1]; [discriminate|].
    destruct (Nat.eqb_spec i i2) as [E2|E2].
    + inversion Hv; subst v. eapply conn_trans; [apply Hall; exact Hx|apply conn_sym; apply Hall; exact Hy].
    + apply conn_app. eapply j_conn0; eassumption.
  - assert (Hold : forall s0 d0 i, In s0 S -> In d0 D -> alook s0 (ssub st) = Some i -> alook d0 (dsub st) = Some i ->
                   exists i', alook s0 (ssub st') = Some i' /\ alook d0 (dsub st') = Some i').
    { intros s0 d0 i Hi1 Hi2 H1 H2.
      pose proof (Hvs (inl s0)) as Va. pose proof (Hvs (inr d0)) as Vb. cbn [vsub] in Va, Vb.
      destruct (Nat.eq_dec i i1) as [E|E].
      - subst i. exists i2.
        destruct (j_in0 (inl s0) i1 Hi1 H1) as [v [Hv Hin]]. rewrite Hf1 in Hv. inversion Hv; subst v.
        destruct (j_in0 (inr d0) i1 Hi2 H2) as [v [Hv' Hin']]. rewrite Hf1 in Hv'. inversion Hv'; subst v.
        destruct (verts_dec (s1, d1) (inl s0)); [|contradiction].
        destruct (verts_dec (s1, d1) (inr d0)); [|contradiction]. auto.
      - exists i.
        destruct (verts_dec (s1, d1) (inl s0)) as [Ha|Ha].
        { exfalso. pose proof (j_sub0 i1 (s1, d1) (inl s0) Hf1 Ha) as Hc. cbn in Hc. congruence. }
        destruct (verts_dec (s1, d1) (inr d0)) as [Hb|Hb].
        { exfalso. pose proof (j_sub0 i1 (s1, d1) (inr d0) Hf1 Hb) as Hc. cbn in Hc. congruence. }
        split; congruence. }
    intros s0 d0 Hin. apply in_app_or in Hin. destruct Hin as [Hin|[E|[]]].
    + destruct (j_edge0 s0 d0 Hin) as [i [H1 H2]]. destruct (j_es0 s0 d0 Hin) as [Hi1 Hi2].
      eapply Hold; eassumption.
    + inversion E; subst s0 d0. exists i2.
      pose proof (Hvs (inl s)) as Va. pose proof (Hvs (inr d)) as Vb. cbn [vsub] in Va, Vb.
      destruct (verts_dec (s1, d1) (inl s)); [|contradiction].
      split; [exact Va|]. destruct (verts_dec (s1, d1) (inr d)); [exact Vb|congruence].
  - intros s0 d0 Hin. apply in_app_or in Hin. destruct Hin as [Hin|[E|[]]]; [auto|].
    inversion E; subst. auto.
  - intros d0 Hin. pose proof (Hvs (inr d0)) as Vb. cbn [vsub] in Vb. rewrite Vb.
    destruct (verts_dec (s1, d1) (inr d0)) as [Hb|Hb]; [discriminate|apply j_dest0; exact Hin].
  - intros s0 i Hin H. pose proof (Hvs (inl s0)) as Va. cbn [vsub] in Va. rewrite Va in H.
    assert (Hex : exists j, alook s0 (ssub st) = Some j).
    { destruct (verts_dec (s1, d1) (inl s0)) as [Ha|Ha]; [|eauto].
      exists i1. apply (j_sub0 i1 (s1, d1) (inl s0) Hf1 Ha). }
    destruct Hex as [j Hj]. destruct (j_src0 s0 j Hin Hj) as [d0 H0]. exists d0. apply in_or_app. auto.
  - intros i v Hv. rewrite Hfind in Hv.
    destruct (Nat.eqb_spec i i1) as [E1|E1]; [discriminate|].
    destruct (Nat.eqb_spec i i2) as [E2|E2]; [|eapply j_nodup0; eassumption].
    inversion Hv; subst v. cbn [fst snd].
    destruct (j_nodup0 i1 (s1, d1) Hf1) as [A1 A2]. destruct (j_nodup0 i2 (s2, d2) Hf2) as [B1 B2]. cbn [fst snd] in *.
    assert (Hdis : forall x, verts (s2, d2) x -> verts (s1, d1) x -> False).
    { intros x Ha Hb. pose proof (j_sub0 i2 _ x Hf2 Ha). pose proof (j_sub0 i1 _ x Hf1 Hb). congruence. }
    split; apply NoDup_app_intro; auto.
    + intros a Ha Hb. exact (Hdis (inl a) Ha Hb).
    + intros a Ha Hb. exact (Hdis (inr a) Ha Hb).
  - intros i v Hv. rewrite Hfind in Hv.
    destruct (Nat.eqb_spec i i1) as [E1|E1]; [discriminate|].
    destruct (Nat.eqb_spec i i2) as [E2|E2]; [|eapply j_nonempty0; eassumption].
    inversion Hv; subst v. cbn [snd]. pose proof (j_nonempty0 i2 (s2, d2) Hf2) as Hn. cbn in Hn.
    destruct d2; [congruence|discriminate].
Qed.

(* ---------- assign_subnet never raises ---------- *)
Lemma assign_step2 S D es st s d :
  Inv2 S D es st -> In s S -> In d D ->
  exists st', assign_subnet st (s, d) = Some st' /\ Inv2 S D (es ++ [(s, d)]) st'.
Proof.
  intros I HsS HdD. pose proof I as I0. destruct I0.
  destruct (alook d (dsub st)) as [i2|] eqn:E2; [|exfalso; exact (j_dest0 d HdD E2)].
  destruct (j_in0 (inr d) i2 HdD E2) as [[s2 d2] [Hf2 _]].
  unfold assign_subnet. rewrite E2.
  destruct (alook s (ssub st)) as [i1|] eqn:E1.
  - destruct (Nat.eqb_spec i1 i2) as [E|E].
    + subst i2. exists st. split; [reflexivity|]. eapply step_same2; eassumption.
    + destruct (j_in0 (inl s) i1 HsS E1) as [[s1 d1] [Hf1 _]]. rewrite Hf1, Hf2.
      eexists. split; [reflexivity|]. eapply step_merge2; eassumption.
  - rewrite Hf2. eexists. split; [reflexivity|]. eapply step_join2; eassumption.
Qed.

Lemma run_from2 S D : forall es pre st,
  Inv2 S D pre st -> (forall s d, In (s, d) es -> In s S /\ In d D) ->
  exists st', fold_left step_o es (Some st) = Some st' /\ Inv2 S D (pre ++ es) st'.
Proof.
  induction es as [|[s d] es IH]; intros pre st I Hb; cbn [fold_left].
  - exists st. rewrite app_nil_r. auto.
  - destruct (Hb s d (or_introl eq_refl)) as [HsS HdD].
    destruct (assign_step2 S D pre st s d I HsS HdD) as [st1 [H1 I1]].
    cbn [step_o]. rewrite H1.
    destruct (IH (pre ++ [(s, d)]) st1 I1) as [st' [H' I']]; [intros s0 d0 H0; apply (Hb s0 d0); right; exact H0|].
    exists st'. split; [exact H'|]. rewrite <- app_assoc in I'. exact I'.
Qed.

(* ---------- the loop over the sources ---------- *)
(* the (source, destination) pairs handed to assign_subnet, in order *)
Definition sedges (srcs : list (nat * list nat)) : list (nat * nat) :=
  flat_map (fun e : nat * list nat => map (pair (fst e)) (snd e)) srcs.

Lemma in_sedges srcs s d : In (s, d) (sedges srcs) <-> exists ds, In (s, ds) srcs /\ In d ds.
Proof.
  unfold sedges. rewrite in_flat_map. split.
  - intros [[s0 ds] [Hin H]]. cbn [fst snd] in H. apply in_map_iff in H. destruct H as [d0 [E Hd]].
    inversion E; subst. exists ds. auto.
  - intros [ds [Hin Hd]]. exists (s, ds). split; [exact Hin|]. cbn [fst snd]. apply in_map. exact Hd.
Qed.

Lemma split_run D : forall srcs S es st,
  Inv2 S D es st -> NoDup (map fst srcs) ->
  (forall s, In s (map fst srcs) -> ~ In s S) ->
  (forall s ds d, In (s, ds) srcs -> In d ds -> In d D) ->
  exists st', fold_left split_src srcs (Some st) = Some st' /\
              Inv2 (rev (map fst srcs) ++ S) D (es ++ sedges srcs) st'.
Proof.
  induction srcs as [|[s ds] srcs IH]; intros S es st I Hn Hfresh Hd.
  - exists st. cbn. rewrite app_nil_r. auto.
  - cbn [map fst] in Hn. inversion Hn as [|a b Hns Hn']; subst.
    assert (I1 : Inv2 (s :: S) D es (clear_src st s)).
    { apply clear_src_inv; [exact I|]. apply Hfresh. left. reflexivity. }
    destruct (run_from2 (s :: S) D (map (pair s) ds) es (clear_src st s) I1) as [st1 [H1 I2]].
    { intros s0 d0 H. apply in_map_iff in H. destruct H as [d1 [E H]]. inversion E; subst.
      split; [left; reflexivity|]. apply (Hd s0 ds d0); [left; reflexivity|exact H]. }
    destruct (IH (s :: S) (es ++ map (pair s) ds) st1 I2 Hn') as [st' [H' I']].
    { intros s0 H0 [E|H1']; [subst s0; contradiction|]. apply (Hfresh s0); [right; exact H0|exact H1']. }
    { intros s0 ds0 d0 H0 H1'. apply (Hd s0 ds0 d0); [right; exact H0|exact H1']. }
    exists st'. split.
    + cbn [fold_left split_src fst snd]. rewrite H1. exact H'.
    + cbn [map fst rev]. unfold sedges. cbn [flat_map fst snd]. fold (sedges srcs).
      rewrite <- !app_assoc in *. cbn [app]. exact I'.
Qed.

(* the state returned by split_subnet's dictionary part satisfies the invariant for
   S = all sources, D = dest, es = all kept (source, candidate) pairs *)
Theorem split_dict_inv st0 dest srcs :
  NoDup dest -> NoDup (map fst srcs) ->
  (forall s ds d, In (s, ds) srcs -> In d ds -> In d dest) ->
  exists st', split_dict st0 dest srcs = Some st' /\ Inv2 (map fst srcs) dest (sedges srcs) st'.
Proof.
  intros Hnd Hns Hd. unfold split_dict.
  destruct (split_run dest srcs [] [] _ (reset_inv (ssub st0) (dsub st0) dest Hnd) Hns) as [st' [H I]].
  - intros s _ [].
  - exact Hd.
  - exists st'. split; [exact H|]. cbn [app] in I.
    apply (Inv2_ext (rev (map fst srcs) ++ []) (map fst srcs) dest dest); [| tauto | exact I].
    intros s. rewrite app_nil_r. symmetry. apply in_rev.
Qed.

Theorem split_dict_total st0 dest srcs :
  NoDup dest -> NoDup (map fst srcs) ->
  (forall s ds d, In (s, ds) srcs -> In d ds -> In d dest) ->
  exists st', split_dict st0 dest srcs = Some st'.
Proof.
  intros H1 H2 H3. destruct (split_dict_inv st0 dest srcs H1 H2 H3) as [st' [H _]]. eauto.
Qed.

(* ---------- ids = connected components (cf. same_subnet_iff_connected) ---------- *)
Lemma conn_same_id2 S D es st x y : Inv2 S D es st -> conn es x y -> vsub st x = vsub st y.
Proof.
  intros I H. induction H as [x y [s [d [Hin [Hx Hy]]]] | x | x y _ IH | x y z _ IH1 _ IH2].
  - subst. destruct (j_edge _ _ _ _ I s d Hin) as [i [H1 H2]]. cbn. congruence.
  - reflexivity.
  - auto.
  - congruence.
Qed.
Lemma conn_dom S D es st x y : Inv2 S D es st -> conn es x y -> (Dom S D x <-> Dom S D y).
Proof.
  intros I H. induction H as [x y [s [d [Hin [Hx Hy]]]] | x | x y _ IH | x y z _ IH1 _ IH2].
  - subst. destruct (j_es _ _ _ _ I s d Hin) as [H1 H2]. cbn. tauto.
  - tauto.
  - tauto.
  - tauto.
Qed.

Theorem same_subnet_iff_connected2 S D es st x y i :
  Inv2 S D es st -> Dom S D x -> vsub st x = Some i ->
  ((Dom S D y /\ vsub st y = Some i) <-> conn es x y).
Proof.
  intros I HD Hx. split.
  - intros [HDy Hy]. destruct (j_in _ _ _ _ I x i HD Hx) as [v [Hv Hvx]].
    destruct (j_in _ _ _ _ I y i HDy Hy) as [v' [Hv' Hvy]]. rewrite Hv in Hv'. inversion Hv'; subst v'.
    eapply (j_conn _ _ _ _ I); eassumption.
  - intros Hc. split; [apply (conn_dom S D es st x y I Hc); exact HD|].
    rewrite <- (conn_same_id2 S D es st x y I Hc). exact Hx.
Qed.

(* ---------- facts about Link.components ---------- *)
Lemma components_nonempty items g : In g (components items) -> g <> [].
Proof.
  unfold components.
  assert (Hgen : forall gs, Forall (fun g : group => g <> []) gs ->
                 Forall (fun g : group => g <> []) (fold_left add_item items gs)).
  { induction items as [|x items IH]; intros gs H; cbn [fold_left]; [exact H|].
    apply IH. unfold add_item. constructor; [discriminate|].
    rewrite Forall_forall in *. intros g' Hg'. apply filter_In in Hg'. apply H. tauto. }
  intros Hg. pose proof (Hgen [] (Forall_nil _)) as H. rewrite Forall_forall in H. apply H. exact Hg.
Qed.

Lemma nodup_map_filter {A B} (f : A -> B) (p : A -> bool) (l : list A) :
  NoDup (map f l) -> NoDup (map f (filter p l)).
Proof.
  induction l as [|a l IH]; cbn; intros H; [constructor|].
  inversion H as [|x y Hn Hd]; subst. destruct (p a); cbn; [|auto].
  constructor; [|auto]. intros Hin. apply Hn. apply in_map_iff in Hin. destruct Hin as [b [E Hb]].
  apply filter_In in Hb. apply in_map_iff. exists b. tauto.
Qed.

Lemma nodup_concat_member {A B} (f : A -> B) (gs : list (list A)) g :
  NoDup (map f (concat gs)) -> In g gs -> NoDup (map f g).
Proof.
  induction gs as [|g0 gs IH]; cbn; intros Hn Hin0; [destruct Hin0|]. destruct Hin0 as [E|Hin].
  - subst g0. rewrite map_app in Hn. eapply NoDup_app_l; exact Hn.
  - rewrite map_app in Hn. apply IH; [eapply NoDup_app_r; exact Hn|exact Hin].
Qed.

Lemma nodup_group (items : list item) g :
  NoDup (map fst items) -> In g (components items) -> NoDup (map fst g).
Proof.
  intros Hn Hg. destruct (components_spec items) as [_ Hp].
  apply (nodup_concat_member fst (components items) g); [|exact Hg].
  eapply Permutation_NoDup; [apply Permutation_map; apply Permutation_sym; exact Hp|exact Hn].
Qed.

(* ---------- an entry of the dictionary that meets a group IS that group ---------- *)
Lemma entry_is_group S D es st (items : list item) g s0 c i ss dd :
  Inv2 S D es st -> NoDup (map fst items) -> edges_of items es ->
  In g (components items) -> In (s0, c) g ->
  sfind i (subs st) = Some (ss, dd) -> In s0 ss ->
  forall x, verts (ss, dd) x <-> vin g x.
Proof.
  intros I Hn He Hg Hs0g Hf Hs0 x.
  assert (Hv0 : vin g (inl s0)) by (cbn; exists c; exact Hs0g).
  split.
  - intros Hx.
    assert (Hc : conn es (inl s0) x) by (apply (j_conn _ _ _ _ I i (ss, dd)); [exact Hf|exact Hs0|exact Hx]).
    apply (vin_conn items es g _ _ Hn He Hg Hc). exact Hv0.
  - intros Hx.
    pose proof (components_connected items) as Hcc. rewrite Forall_forall in Hcc.
    assert (Hc : conn es (inl s0) x).
    { destruct x as [s|d]; cbn in Hx.
      - destruct Hx as [c' Hc'].
        apply (chain_conn items es g (s0, c) (s, c') He Hg). apply (Hcc g Hg); assumption.
      - apply gdests_in in Hx. destruct Hx as [y [Hyg Hk]].
        eapply conn_trans.
        + apply (chain_conn items es g (s0, c) y He Hg). apply (Hcc g Hg); assumption.
        + apply conn_edge. apply He. exists (snd y). split; [|exact Hk].
          rewrite <- surjective_pairing. eapply comps_incl; eassumption. }
    assert (HD0 : Dom S D (inl s0)) by (apply (j_dom _ _ _ _ I i (ss, dd)); [exact Hf|exact Hs0]).
    assert (Hi0 : vsub st (inl s0) = Some i) by (apply (j_sub _ _ _ _ I i (ss, dd)); [exact Hf|exact Hs0]).
    destruct (proj2 (same_subnet_iff_connected2 S D es st _ x i I HD0 Hi0) Hc) as [HDx Hix].
    destruct (j_in _ _ _ _ I x i HDx Hix) as [v [Hv Hin]]. rewrite Hf in Hv. inversion Hv; subst v. exact Hin.
Qed.

Lemma group_same_sets (g : group) ss dd :
  (forall x, verts (ss, dd) x <-> vin g x) -> NoDup ss -> NoDup (map fst g) ->
  Permutation ss (map fst g) /\ (forall d, In d dd <-> In d (gdests g)).
Proof.
  intros H N1 N2. split.
  - apply NoDup_Permutation; [exact N1|exact N2|]. intros s. pose proof (H (inl s)) as Hs. cbn in Hs.
    rewrite Hs. split.
    + intros [c Hc]. apply in_map_iff. exists (s, c). auto.
    + intros Hin. apply in_map_iff in Hin. destruct Hin as [[s' c] [E Hc]]. cbn in E. subst s'. exists c. exact Hc.
  - intros d. exact (H (inr d)).
Qed.

(* the pairs split_subnet visits are the edges of the candidate graph of the sources
   that kept at least one candidate *)
Lemma has_reals_in (it : item) d : In d (reals (snd it)) -> has_reals it = true.
Proof. unfold has_reals. destruct (reals (snd it)); [intros []|reflexivity]. Qed.

Lemma edges_of_split (items : list item) :
  edges_of (filter has_reals items) (sedges (map (fun it : item => (fst it, reals (snd it))) items)).
Proof.
  intros s d. rewrite in_sedges. split.
  - intros [ds [Hin Hd]]. apply in_map_iff in Hin. destruct Hin as [[s' c] [E Hit]].
    cbn [fst snd] in E. inversion E; subst. exists c. split; [|exact Hd].
    apply filter_In. split; [exact Hit|]. apply (has_reals_in (s, c) d). exact Hd.
  - intros [c [Hin Hd]]. apply filter_In in Hin. destruct Hin as [Hin _].
    exists (reals c). split; [|exact Hd]. apply in_map_iff. exists (s, c). auto.
Qed.

(* ---------- everything the invariant says about the final dictionary ---------- *)
Theorem inv2_components S dest (items : list item) es st :
  Inv2 S dest es st -> NoDup (map fst items) -> edges_of items es ->
  (forall x, In x items -> reals (snd x) <> []) ->
  (forall i ss dd, sfind i (subs st) = Some (ss, dd) -> ss <> [] ->
     exists g, In g (components items) /\ Permutation ss (map fst g) /\
               (forall d, In d dd <-> In d (gdests g))) /\
  (forall g, In g (components items) ->
     exists i ss dd, sfind i (subs st) = Some (ss, dd) /\ Permutation ss (map fst g) /\
                     (forall d, In d dd <-> In d (gdests g))) /\
  NoDup (map fst (subs st)) /\
  (forall i ss dd, sfind i (subs st) = Some (ss, dd) ->
     NoDup ss /\ NoDup dd /\ dd <> [] /\ incl dd dest /\ incl ss (map fst items)) /\
  (forall d, In d dest -> exists i ss dd, sfind i (subs st) = Some (ss, dd) /\ In d dd) /\
  (forall i ss dd s d, sfind i (subs st) = Some (ss, dd) -> In s ss -> In (s, d) es -> In d dd).
Proof.
  intros I Hn He Hr.
  assert (Hsrc_edge : forall i ss dd s, sfind i (subs st) = Some (ss, dd) -> In s ss ->
                      exists c, In (s, c) items).
  { intros i ss dd s Hf Hs.
    pose proof (j_sub _ _ _ _ I i (ss, dd) (inl s) Hf Hs) as H1. cbn in H1.
    pose proof (j_dom _ _ _ _ I i (ss, dd) (inl s) Hf Hs) as H2. cbn in H2.
    destruct (j_src _ _ _ _ I s i H2 H1) as [d Hd]. apply He in Hd. destruct Hd as [c [Hc _]]. eauto. }
  split; [|split; [|split; [|split; [|split]]]].
  - intros i ss dd Hf Hne. destruct ss as [|s0 ss0]; [congruence|].
    destruct (Hsrc_edge i _ dd s0 Hf (or_introl eq_refl)) as [c Hc].
    destruct (comps_cover items (s0, c) Hc) as [g [Hg Hs0g]]. exists g. split; [exact Hg|].
    apply group_same_sets.
    + apply (entry_is_group S dest es st items g s0 c i); auto. left. reflexivity.
    + apply (j_nodup _ _ _ _ I i _ Hf).
    + apply (nodup_group items); assumption.
  - intros g Hg. pose proof (components_nonempty items g Hg) as Hne.
    destruct g as [|[s0 c] g0]; [congruence|]. set (g := (s0, c) :: g0) in *.
    assert (Hs0g : In (s0, c) g) by (left; reflexivity).
    assert (Hit : In (s0, c) items) by (eapply comps_incl; eassumption).
    pose proof (Hr (s0, c) Hit) as Hrc. cbn [snd] in Hrc.
    destruct (reals c) as [|d r] eqn:E; [congruence|].
    assert (Hin : In (s0, d) es) by (apply He; exists c; split; [exact Hit|rewrite E; left; reflexivity]).
    destruct (j_edge _ _ _ _ I s0 d Hin) as [i [H1 _]]. destruct (j_es _ _ _ _ I s0 d Hin) as [HS _].
    destruct (j_in _ _ _ _ I (inl s0) i HS H1) as [[ss dd] [Hf Hs0]]. cbn in Hs0.
    exists i, ss, dd. split; [exact Hf|]. apply group_same_sets.
    + apply (entry_is_group S dest es st items g s0 c i); auto.
    + apply (j_nodup _ _ _ _ I i _ Hf).
    + apply (nodup_group items); assumption.
  - apply (j_ids _ _ _ _ I).
  - intros i ss dd Hf. destruct (j_nodup _ _ _ _ I i _ Hf) as [N1 N2]. cbn [fst snd] in *.
    split; [exact N1|split; [exact N2|split; [exact (j_nonempty _ _ _ _ I i _ Hf)|split]]].
    + intros d Hd. apply (j_dom _ _ _ _ I i (ss, dd) (inr d) Hf Hd).
    + intros s Hs. destruct (Hsrc_edge i ss dd s Hf Hs) as [c Hc]. apply in_map_iff. exists (s, c). auto.
  - intros d Hd. pose proof (j_dest _ _ _ _ I d Hd) as H.
    destruct (alook d (dsub st)) as [i|] eqn:E; [|congruence].
    destruct (j_in _ _ _ _ I (inr d) i Hd E) as [[ss dd] [Hf Hin]]. exists i, ss, dd. auto.
  - intros i ss dd s d Hf Hs Hin.
    destruct (j_edge _ _ _ _ I s d Hin) as [i' [H1 H2]]. destruct (j_es _ _ _ _ I s d Hin) as [_ HD].
    pose proof (j_sub _ _ _ _ I i (ss, dd) (inl s) Hf Hs) as H3. cbn in H3.
    assert (i' = i) by congruence. subst i'.
    destruct (j_in _ _ _ _ I (inr d) i HD H2) as [v [Hv Hx]]. rewrite Hf in Hv. inversion Hv; subst v. exact Hx.
Qed.

(* ---------- headline: split_subnet returns the connected components ---------- *)
Theorem split_dict_components st0 dest (items : list item) st' :
  NoDup dest -> NoDup (map fst items) ->
  (forall it d, In it items -> In d (reals (snd it)) -> In d dest) ->
  split_dict st0 dest (map (fun it : item => (fst it, reals (snd it))) items) = Some st' ->
  (forall i ss dd, sfind i (subs st') = Some (ss, dd) -> ss <> [] ->
     exists g, In g (components (filter has_reals items)) /\ Permutation ss (map fst g) /\
               (forall d, In d dd <-> In d (gdests g))) /\
  (forall g, In g (components (filter has_reals items)) ->
     exists i ss dd, sfind i (subs st') = Some (ss, dd) /\ Permutation ss (map fst g) /\
                     (forall d, In d dd <-> In d (gdests g))) /\
  NoDup (map fst (subs st')) /\
  (forall i ss dd, sfind i (subs st') = Some (ss, dd) ->
     NoDup ss /\ NoDup dd /\ dd <> [] /\ incl dd dest /\ incl ss (map fst (filter has_reals items))) /\
  (forall d, In d dest -> exists i ss dd, sfind i (subs st') = Some (ss, dd) /\ In d dd) /\
  (forall i ss dd it d, sfind i (subs st') = Some (ss, dd) -> In it items -> In (fst it) ss ->
     In d (reals (snd it)) -> In d dd).
Proof.
  intros Hnd Hni Hd Hrun.
  set (srcs := map (fun it : item => (fst it, reals (snd it))) items) in *.
  assert (Hfst : map fst srcs = map fst items).
  { unfold srcs. rewrite map_map. apply map_ext. reflexivity. }
  destruct (split_dict_inv st0 dest srcs Hnd) as [st'' [Hrun' I]].
  { rewrite Hfst. exact Hni. }
  { intros s ds d Hin Hdd. unfold srcs in Hin. apply in_map_iff in Hin. destruct Hin as [it [E Hit]].
    inversion E; subst. apply (Hd it d Hit Hdd). }
  rewrite Hrun in Hrun'. inversion Hrun'; subst st''. clear Hrun'.
  destruct (inv2_components (map fst srcs) dest (filter has_reals items) (sedges srcs) st' I)
    as [P1 [P2 [P3 [P4 [P5 P6]]]]].
  { apply nodup_map_filter. exact Hni. }
  { apply edges_of_split. }
  { intros x Hx. apply filter_In in Hx. destruct Hx as [_ Hx]. unfold has_reals in Hx.
    destruct (reals (snd x)); [discriminate|discriminate]. }
  split; [exact P1|split; [exact P2|split; [exact P3|split; [exact P4|split; [exact P5|]]]]].
  intros i ss dd it d Hf Hit Hs Hdd. apply (P6 i ss dd (fst it) d Hf Hs).
  apply in_sedges. exists (reals (snd it)). split; [|exact Hdd].
  unfold srcs. apply in_map_iff. exists it. auto.
Qed.

(* the same, for the values the generator yields: map snd (subs st') *)
Corollary split_dict_values st0 dest (items : list item) st' :
  NoDup dest -> NoDup (map fst items) ->
  (forall it d, In it items -> In d (reals (snd it)) -> In d dest) ->
  split_dict st0 dest (map (fun it : item => (fst it, reals (snd it))) items) = Some st' ->
  (forall ss dd, In (ss, dd) (map snd (subs st')) -> ss <> [] ->
     exists g, In g (components (filter has_reals items)) /\ Permutation ss (map fst g) /\
               (forall d, In d dd <-> In d (gdests g))) /\
  (forall g, In g (components (filter has_reals items)) ->
     exists ss dd, In (ss, dd) (map snd (subs st')) /\ Permutation ss (map fst g) /\
                   (forall d, In d dd <-> In d (gdests g))) /\
  (forall d, In d dest -> exists ss dd, In (ss, dd) (map snd (subs st')) /\ In d dd).
Proof.
  intros Hnd Hni Hd Hrun.
  destruct (split_dict_components st0 dest items st' Hnd Hni Hd Hrun) as [P1 [P2 [P3 [_ [P5 _]]]]].
  assert (Hval : forall v, In v (map snd (subs st')) <-> exists i, sfind i (subs st') = Some v).
  { intros v. split.
    - intros H. apply in_map_iff in H. destruct H as [[i v'] [E H]]. cbn in E. subst v'.
      exists i. apply sfind_In; assumption.
    - intros [i H]. apply sfind_In in H; [|exact P3]. apply in_map_iff. exists (i, v). auto. }
  split; [|split].
  - intros ss dd H Hne. apply Hval in H. destruct H as [i H]. eapply P1; eassumption.
  - intros g Hg. destruct (P2 g Hg) as [i [ss [dd [Hf H]]]]. exists ss, dd. split; [|exact H].
    apply Hval. eauto.
  - intros d Hdd. destruct (P5 d Hdd) as [i [ss [dd [Hf H]]]]. exists ss, dd. split; [|exact H].
    apply Hval. eauto.
Qed.

(* ---------- non-vacuity: stale attributes and a stale dictionary before the call ---------- *)
Definition ex_items : list item :=
  [(0, [(Some 1, Z0); (Some 0, Z0); (None, Z0)]); (1, [(None, Z0)]); (2, [(Some 1, Z0); (None, Z0)])].
Definition ex_st0 : mst :=
  {| subs := [(7, ([0], [1]))]; ssub := [(0, 7); (2, 5); (1, 4)]; dsub := [(1, 7); (0, 3); (9, 2)] |}.
Example split_dict_example :
  NoDup [1; 0; 2] /\ NoDup (map fst ex_items) /\
  (forall it d, In it ex_items -> In d (reals (snd it)) -> In d [1; 0; 2]) /\
  option_map (fun st => map snd (subs st))
    (split_dict ex_st0 [1; 0; 2] (map (fun it : item => (fst it, reals (snd it))) ex_items))
  = Some [([2; 0], [0; 1]); ([], [2])] /\
  components (filter has_reals ex_items) = [[(2, [(Some 1, Z0); (None, Z0)]); (0, [(Some 1, Z0); (Some 0, Z0); (None, Z0)])]].
Proof.
  split; [repeat constructor; cbn; intuition discriminate|].
  split; [repeat constructor; cbn; intuition discriminate|].
  split; [|split; reflexivity].
  intros it d [E|[E|[E|[]]]]; subst it; cbn; intuition.
Qed.
