(* C14: the safety statements for the model of the code (Model/FindLink3.v: find_step_gs, only the CLAIMED
   relocated points enter the frame), for ANY list of subnets that is a partition of the source points --
   in particular for the subnets the generated code builds. *)
From Coq Require Import ZArith QArith List Bool Arith Lia Permutation.
From TP Require Import Model.Assign Model.Link Model.Dilation Model.FindLink Model.FindLink3
     Proofs.Cands Proofs.Step Proofs.Labels Proofs.Comps Proofs.FindLink.
Import ListNotations.
Open Scope Z_scope.

Lemma keep_in {A} (mask : list bool) : forall (l : list A) x, In x (keep mask l) -> In x l.
Proof.
  induction mask as [|b mask IH]; intros [|y l] x H; cbn in H; try destruct H.
  destruct b; [destruct H as [->|H]; [left; reflexivity|right; apply IH; exact H]|right; apply IH; exact H].
Qed.

Lemma keep_nodup {A} (mask : list bool) : forall (l : list A), NoDup l -> NoDup (keep mask l).
Proof.
  induction mask as [|b mask IH]; intros [|y l] H; cbn; try constructor.
  inversion H; subst. destruct b; [constructor; [intros Hin; apply keep_in in Hin; contradiction|apply IH; assumption]|apply IH; assumption].
Qed.

Section StepC.
  Variables (m : metric) (max_size : nat) (pred : nat -> src -> pt) (rel : reloc_fn) (st : lstate) (ds : list pt).
  Hypothesis Hm : metric_ok m.

  Lemma group_step_c_spec a g a' :
    group_step_c m max_size pred rel st ds a g = Ok a' ->
    exists l mask, c_added a' = c_added a ++ keep mask (new_of m pred rel st ds g (c_added a)) /\
                   c_links a' = c_links a ++ l /\ Permutation (map fst l) (map fst g).
  Proof.
    unfold group_step_c. fold (pos_of pred st g). fold (new_of m pred rel st ds g (c_added a)).
    set (new := new_of m pred rel st ds g (c_added a)).
    set (g' := map (ext_item m pred st ds new (c_next a)) g).
    assert (Hok : Forall item_ok g').
    { unfold g'. rewrite Forall_forall. intros it Hin. apply in_map_iff in Hin. destruct Hin as [it0 [<- _]]. apply ext_item_ok. exact Hm. }
    destruct (solve_group_spec max_size g' Hok) as [_ Hk].
    destruct (solve_group max_size g') as [l|] eqn:E; [|discriminate].
    intros H. inversion H; subst a'. cbn. exists l, (map (claimed_b l) (seq (c_next a) (length new))).
    split; [reflexivity|]. split; [reflexivity|].
    destruct (Hk l eq_refl) as [pairs [Hl [Hp _]]]. subst l.
    rewrite strip_fst. rewrite <- (ext_fst m pred st ds new (c_next a) g). apply Permutation_map. exact Hp.
  Qed.

  Lemma groups_run_c_links : forall gs a a',
    groups_run_c m max_size pred rel st ds a gs = Ok a' ->
    exists l, c_links a' = c_links a ++ l /\ Permutation (map fst l) (map fst (concat gs)).
  Proof.
    induction gs as [|g gs IH]; intros a a' H; cbn in H.
    - inversion H; subst. exists []. rewrite app_nil_r. split; [reflexivity|constructor].
    - destruct (group_step_c m max_size pred rel st ds a g) as [a1|] eqn:E; [|discriminate].
      destruct (group_step_c_spec _ _ _ E) as [l1 [mask [_ [Hl1 Hp1]]]].
      destruct (IH _ _ H) as [l2 [Hl2 Hp2]]. exists (l1 ++ l2). split.
      + rewrite Hl2, Hl1, app_assoc. reflexivity.
      + cbn [concat]. rewrite !map_app. apply Permutation_app; assumption.
  Qed.

  Lemma groups_run_c_inv (I : list pt -> Prop) : forall gs,
    (forall g added mask, In g gs -> I added -> I (added ++ keep mask (new_of m pred rel st ds g added))) ->
    forall a a', I (c_added a) -> groups_run_c m max_size pred rel st ds a gs = Ok a' -> I (c_added a').
  Proof.
    induction gs as [|g gs IH]; intros Hstep a a' Ha H; cbn in H.
    - inversion H; subst. exact Ha.
    - destruct (group_step_c m max_size pred rel st ds a g) as [a1|] eqn:E; [|discriminate].
      destruct (group_step_c_spec _ _ _ E) as [l1 [mask [Hadd _]]].
      eapply IH; [|rewrite Hadd; apply Hstep; [left; reflexivity|exact Ha]|exact H].
      intros g0 added mask0 Hin. apply Hstep. right. exact Hin.
  Qed.

  Lemma raw_valid it : In it (raw_items m pred st ds) -> exists s, nth_error (live st) (fst it) = Some s.
  Proof.
    unfold raw_items. intros H. apply mapi_from_in in H. destruct H as [i [s [Hn E]]]. subst it. cbn. exists s. exact Hn.
  Qed.

  Lemma new_of_source_raw gs g added q :
    Permutation (concat gs) (raw_items m pred st ds) -> In g gs -> In q (new_of m pred rel st ds g added) ->
    exists s, In s (live st) /\ in_range m (pred (now st) s) q.
  Proof.
    intros Hp Hg Hq. unfold new_of in Hq. destruct (0 <? shortage g)%nat; [|destruct Hq].
    apply filter_In in Hq. destruct Hq as [_ Hr]. unfold in_range_any in Hr.
    apply existsb_exists in Hr. destruct Hr as [p [Hpin Hle]]. unfold pos_of in Hpin.
    apply in_map_iff in Hpin. destruct Hpin as [it [Ep Hit]].
    assert (Hin : In it (raw_items m pred st ds)).
    { eapply Permutation_in; [exact Hp|]. apply in_concat. exists g. split; assumption. }
    destruct (raw_valid it Hin) as [s Hs]. exists s. split; [eapply nth_error_In; exact Hs|].
    unfold in_range. apply Z.leb_le. unfold src_pos in Ep. rewrite Hs in Ep. rewrite Ep. exact Hle.
  Qed.
End StepC.

Lemma final_link_fst n ids L : map fst (map (final_link n ids) L) = map fst L.
Proof. rewrite map_map. apply map_ext. intros l. reflexivity. Qed.

(* one step of the code's next_level, for EVERY relocation oracle and every partition [gs] of the
   source points into subnets: valid state, one label per feature, no label twice, and every
   feature it ADDED lies within search_range of the (predicted) position of a live source *)
Theorem find_step_gs_labels m mem max_size pred rel gs st ds st' labs D :
  metric_ok m -> state_ok mem st ->
  Permutation (concat gs) (raw_items m pred st ds) ->
  find_step_gs m mem max_size pred rel gs st ds = Ok (st', labs, D) ->
  state_ok mem st' /\ now st' = S (now st) /\ length labs = length D /\ NoDup labs /\
  exists added, D = ds ++ added /\
    forall q, In q added -> exists s, In s (live st) /\ in_range m (pred (now st) s) q.
Proof.
  intros Hm Hst Hp H. unfold find_step_gs in H.
  destruct (groups_run_c m max_size pred rel st ds (cacc0 ds) gs) as [a|] eqn:E; [|discriminate].
  cbv zeta in H.
  destruct (apply_links mem st (ds ++ c_added a) (map (final_link (length ds) (c_ids a)) (c_links a))) as [st1 labs1] eqn:Ea.
  inversion H; subst st1 labs1 D. clear H.
  destruct (groups_run_c_links m max_size pred rel st ds Hm _ _ _ E) as [l [Hl Hpl]]. cbn in Hl. subst l.
  assert (Hwf : links_wf st (map (final_link (length ds) (c_ids a)) (c_links a))).
  { assert (Hseq : Permutation (map fst (c_links a)) (seq 0 (length (live st)))).
    { eapply Permutation_trans; [exact Hpl|]. eapply Permutation_trans; [apply Permutation_map; exact Hp|].
      unfold raw_items. rewrite mapi_from_fst. apply Permutation_refl. }
    constructor.
    - rewrite final_link_fst. eapply Permutation_NoDup; [apply Permutation_sym; exact Hseq|apply seq_NoDup].
    - intros i c Hin. assert (In i (seq 0 (length (live st)))).
      { eapply Permutation_in; [exact Hseq|]. rewrite <- (final_link_fst (length ds) (c_ids a)).
        change i with (fst (i, c)). apply in_map. exact Hin. }
      apply in_seq in H. lia. }
  destruct (apply_links_valid _ _ _ _ _ _ Hst Hwf Ea) as [H1 [H2 [H3 [H4 _]]]].
  split; [exact H1|split; [exact H4|split; [exact H2|split; [exact H3|]]]].
  exists (c_added a). split; [reflexivity|].
  apply (groups_run_c_inv m max_size pred rel st ds Hm
           (fun added => forall q, In q added -> exists s, In s (live st) /\ in_range m (pred (now st) s) q) gs)
    with (a := cacc0 ds); [|intros q []|exact E].
  intros g added mask Hg IH q Hq. apply in_app_or in Hq. destruct Hq as [Hq|Hq]; [apply IH; exact Hq|].
  apply keep_in in Hq. eapply new_of_source_raw; eassumption.
Qed.

(* ------------------------------------------------------------ geometry *)
Section GeoC.
  Variables (m : metric) (max_size : nat) (pred : nat -> src -> pt) (rel : reloc_fn) (st : lstate) (ds : list pt).
  Variables (n : nat) (k S : Z) (Good : pt -> Prop).
  Hypothesis HS : 0 < S.
  Hypothesis Hrel : rel_ok rel n k S Good.
  Hypothesis Hds : Forall (fun p => length p = n) ds.
  Hypothesis Hsrc : forall s, In s (live st) -> length (pred (now st) s) = n.

  Lemma pos_of_dim_raw gs g : Permutation (concat gs) (raw_items m pred st ds) -> In g gs ->
    Forall (fun p => length p = n) (pos_of pred st g).
  Proof.
    intros Hp Hg. rewrite Forall_forall. intros p Hin. unfold pos_of in Hin.
    apply in_map_iff in Hin. destruct Hin as [it [Ep Hit]].
    assert (Hin : In it (raw_items m pred st ds)).
    { eapply Permutation_in; [exact Hp|]. apply in_concat. exists g. split; assumption. }
    destruct (raw_valid m pred st ds it Hin) as [s Hs]. unfold src_pos in Ep. rewrite Hs in Ep. subst p.
    apply Hsrc. eapply nth_error_In; exact Hs.
  Qed.

  Lemma frame_inv_step_c gs g added mask :
    Permutation (concat gs) (raw_items m pred st ds) -> In g gs ->
    frame_inv ds n k S Good added -> frame_inv ds n k S Good (added ++ keep mask (new_of m pred rel st ds g added)).
  Proof.
    intros Hp Hg [Hsep [Hdim Hgood]]. unfold new_of.
    destruct (0 <? shortage g)%nat; [|replace (keep mask (@nil pt)) with (@nil pt) by (destruct mask; reflexivity); rewrite app_nil_r; split; [exact Hsep|split; assumption]].
    assert (Hk : Forall (fun b => length b = n) (ds ++ added)) by (apply Forall_app; split; assumption).
    destruct (Hrel (pos_of pred st g) (ds ++ added) (shortage g) (pos_of_dim_raw gs g Hp Hg) Hk) as [Hnd [Hq Hqq]].
    set (r := rel (pos_of pred st g) (ds ++ added) (shortage g)) in *.
    split; [|split].
    - rewrite app_assoc. apply separated_app; [exact HS|exact Hsep|apply keep_nodup, NoDup_filter; exact Hnd| |].
      + intros q q' H1 H2. apply keep_in in H1, H2. apply filter_In in H1, H2. apply Hqq; tauto.
      + intros q b H1 H2. apply keep_in in H1. apply filter_In in H1. destruct (Hq q (proj1 H1)) as [_ [_ Hf]]. apply Hf. exact H2.
    - apply Forall_app. split; [exact Hdim|]. rewrite Forall_forall. intros q H1. apply keep_in in H1. apply filter_In in H1.
      destruct (Hq q (proj1 H1)) as [Hl _]. exact Hl.
    - apply Forall_app. split; [exact Hgood|]. rewrite Forall_forall. intros q H1. apply keep_in in H1. apply filter_In in H1.
      destruct (Hq q (proj1 H1)) as [_ [Hg' _]]. exact Hg'.
  Qed.
End GeoC.

Theorem find_step_gs_geometry m mem max_size pred rel gs st (ds : list pt) st' labs D n k S Good :
  metric_ok m -> 0 < S -> rel_ok rel n k S Good ->
  Forall (fun p => length p = n) ds -> (forall s, In s (live st) -> length (pred (now st) s) = n) ->
  separated k S ds ->
  Permutation (concat gs) (raw_items m pred st ds) ->
  find_step_gs m mem max_size pred rel gs st ds = Ok (st', labs, D) ->
  exists added, D = ds ++ added /\ separated k S D /\
                Forall (fun p => length p = n) added /\ Forall Good added.
Proof.
  intros Hm HS Hrel Hds Hsrc Hsep Hp H. unfold find_step_gs in H.
  destruct (groups_run_c m max_size pred rel st ds (cacc0 ds) gs) as [a|] eqn:E; [|discriminate].
  cbv zeta in H. destruct (apply_links mem st (ds ++ c_added a) _) as [st1 labs1] eqn:Ea. inversion H; subst. clear H.
  exists (c_added a). split; [reflexivity|].
  assert (Hinv : frame_inv ds n k S Good (c_added a)).
  { apply (groups_run_c_inv m max_size pred rel st ds Hm (frame_inv ds n k S Good) gs) with (a := cacc0 ds); [| |exact E].
    - intros g added mask Hg IH. eapply frame_inv_step_c; eassumption.
    - unfold frame_inv. cbn. rewrite app_nil_r. split; [exact Hsep|split; constructor]. }
  destruct Hinv as [H1 [H2 H3]]. auto.
Qed.

Lemma find_step_gs_live m mem max_size pred rel gs st ds st' labs D :
  find_step_gs m mem max_size pred rel gs st ds = Ok (st', labs, D) ->
  forall s, In s (live st') -> In (s_pos s) D \/ In s (live st).
Proof.
  intros H. unfold find_step_gs in H.
  destruct (groups_run_c _ _ _ _ _ _ _ _) as [a|]; [|discriminate]. cbv zeta in H. unfold apply_links in H.
  destruct (assign_labels _ _ _ _ _) as [ls f]. inversion H; subst. clear H. cbn [live].
  intros s Hs. apply in_app_or in Hs. destruct Hs as [Hs|Hs].
  - left. eapply mk_srcs_pos. exact Hs.
  - right. destruct (remembered_spec _ _ _ _ _ _ Hs) as [i [Hi _]]. eapply nth_error_In. exact Hi.
Qed.

(* ------------------------------------------------------------ whole movies *)
Section RunC.
  Variables (m : metric) (mem max_size : nat) (n : nat) (k S : Z) (Good : pt -> Prop) (grp : grouping).
  Hypothesis Hm : metric_ok m.
  Hypothesis HS : 0 < S.
  Hypothesis Hgrp : forall st ds, Permutation (concat (grp st ds)) (raw_items m no_pred st ds).

  Theorem find_run_gs_safe : forall frames hist st out,
    st_inv mem n hist st -> Forall (input_ok n k S Good) frames ->
    find_run_gs m mem max_size no_pred grp st frames = Ok out -> run_ok m k S Good hist frames out.
  Proof.
    induction frames as [|[ds rel] frames IH]; intros hist st out [Hst Hsrc] Hin H; cbn in H.
    - inversion H; subst. exact I.
    - destruct (find_step_gs m mem max_size no_pred rel (grp st ds) st ds) as [[[st' labs] D]|] eqn:E; [|discriminate].
      destruct (find_run_gs m mem max_size no_pred grp st' frames) as [out'|] eqn:Er; [|discriminate].
      inversion H; subst out. clear H. inversion Hin as [|? ? [Hrel [Hsep Hdim]] Hin']; subst. cbn in Hrel, Hsep, Hdim.
      destruct (find_step_gs_labels m mem max_size no_pred rel (grp st ds) st ds st' labs D Hm Hst (Hgrp st ds) E)
        as [Hst' [_ [HL [Hnd [added [HD Hrange]]]]]].
      destruct (find_step_gs_geometry m mem max_size no_pred rel (grp st ds) st ds st' labs D n k S Good Hm HS Hrel Hdim
                  (fun s Hs => proj1 (Hsrc s Hs)) Hsep (Hgrp st ds) E) as [added' [HD' [HsepD [Hdim' Hgood]]]].
      assert (added' = added) by (rewrite HD in HD'; apply app_inv_head in HD'; congruence). subst added'.
      cbn [run_ok fst snd]. split.
      + unfold frame_ok. split; [exact HL|split; [exact Hnd|split; [exact HsepD|]]].
        exists added. split; [exact HD|split; [exact Hgood|]].
        intros q Hq. destruct (Hrange q Hq) as [s [Hs Hr]]. destruct (Hsrc s Hs) as [_ [D0 [HD0 Hp]]].
        exists D0, (s_pos s). auto.
      + apply (IH (D :: hist) st' out'); [|exact Hin'|exact Er]. split; [exact Hst'|].
        intros s Hs. destruct (find_step_gs_live _ _ _ _ _ _ _ _ _ _ _ E s Hs) as [HsD|Hold].
        * split; [|exists D; split; [left; reflexivity|exact HsD]].
          rewrite HD in HsD. apply in_app_or in HsD. rewrite Forall_forall in Hdim, Hdim'.
          destruct HsD; [apply Hdim|apply Hdim']; assumption.
        * destruct (Hsrc s Hold) as [Hl [D0 [HD0 Hp]]]. split; [exact Hl|]. exists D0. split; [right; exact HD0|exact Hp].
  Qed.

  Theorem find_link_gs_safe f0 rest out :
    Forall (fun p => length p = n) f0 -> Forall (input_ok n k S Good) rest ->
    find_link_gs m mem max_size no_pred grp f0 rest = Ok out ->
    exists labs0 out', out = (labs0, f0) :: out' /\ length labs0 = length f0 /\ NoDup labs0 /\
                       run_ok m k S Good [f0] rest out'.
  Proof.
    intros Hdim Hin H. unfold find_link_gs in H.
    destruct (init_state_ok mem f0) as [Hok Hlabs]. unfold init_state in *. cbn [fst snd] in *.
    destruct (find_run_gs _ _ _ _ _ _ rest) as [out'|] eqn:Er; [|discriminate].
    inversion H; subst out. exists (seq 0 (length f0)), out'.
    split; [reflexivity|split; [apply seq_length|split; [apply seq_NoDup|]]].
    eapply find_run_gs_safe; [|exact Hin|exact Er]. split; [exact Hok|].
    cbn [live]. intros s Hs. pose proof (mk_srcs_pos _ _ _ _ Hs) as Hp. split.
    - rewrite Forall_forall in Hdim. apply Hdim. exact Hp.
    - exists f0. split; [left; reflexivity|exact Hp].
  Qed.
End RunC.
