(* C09 -- translation equivariance WITH preprocessing, part 1: bandpass.

   For the exact rational model of bandpass (Model/Bandpass.v; Properties/C10.v proves that it is
   the documented filter of Model/BandpassSpec.v pixel for pixel, and that the generated
   Gen/preproc.py_bandpass is this model), a content pasted into a blank canvas with the padding
   of Model/BandpassShift.paddedb is filtered to a canvas that shows ONE content
   (bp_content2 / bp_content3: a function of the kernel parameters, the threshold and the
   original content only) in the box grown by the filter reach, at the same place, blank
   elsewhere.  Hence the same content at two offsets in two canvases of any two shapes gives
   two bandpassed images that are moved by the offset difference, pixel for pixel, clip at the
   threshold included (bandpass2_moved, bandpass3_moved). *)
From Coq Require Import ZArith QArith Qabs Qround List Bool Lia Setoid Morphisms.
From TP Require Import Model.Bandpass Model.BandpassSpec Model.BandpassSpec3 Model.BandpassShift
                       Proofs.Bandpass Proofs.Bandpass3.
Import ListNotations.
Open Scope Q_scope.

(* ====================================================================== *)
(* one axis                                                                *)
(* ====================================================================== *)
Lemma in_iv_true o n x : in_iv o n x = true <-> (o <= x < o + n)%Z.
Proof. unfold in_iv. rewrite andb_true_iff, Z.leb_le, Z.ltb_lt. tauto. Qed.

Lemma in_iv_false o n x : in_iv o n x = false <-> ~ (o <= x < o + n)%Z.
Proof.
  rewrite <- in_iv_true. destruct (in_iv o n x); split; intros H; try reflexivity; try discriminate.
  exfalso. apply H. reflexivity.
Qed.

Lemma in_iv_eq o n x o' n' x' : ((o <= x < o + n)%Z <-> (o' <= x' < o' + n')%Z) -> in_iv o n x = in_iv o' n' x'.
Proof. intros E. apply eq_true_iff_eq. rewrite !in_iv_true. exact E. Qed.

(* the replicated border cannot see the content: with r blank pixels on both sides and an
   offset of at most r, the clamped index is in the content interval iff the index itself is,
   and then it is not clamped *)
Lemma clamp_iv n o c r i a :
  (0 <= i < Z.of_nat n)%Z -> (- r <= a <= r)%Z -> (r <= o)%Z -> (o + c + r <= Z.of_nat n)%Z ->
  in_iv o c (clamp n (i + a)) = in_iv o c (i + a) /\
  (in_iv o c (i + a) = true -> clamp n (i + a) = (i + a)%Z).
Proof.
  intros Hi Ha Ho Hn. split.
  - apply in_iv_eq. unfold clamp. lia.
  - rewrite in_iv_true. unfold clamp. lia.
Qed.

Lemma inside_false n i : inside n i = false -> ~ (0 <= i < Z.of_nat n)%Z.
Proof. intros E C. apply inside_true in C. congruence. Qed.

Lemma box_hw_nonneg s : (1 <= s)%Z -> (0 <= box_hw s)%Z.
Proof. intros. unfold box_hw. apply Z.div_pos; lia. Qed.

Lemma reach_of_bounds t p : (1 <= size p)%Z ->
  (0 <= reach_of t p /\ ghw_of t p <= reach_of t p /\ bhw_of p <= reach_of t p)%Z.
Proof. intros S. pose proof (box_hw_nonneg _ S). unfold reach_of, bhw_of in *. lia. Qed.

Lemma clip_below_0 thr : clip_below thr 0 == 0.
Proof. unfold clip_below. destruct (Qle_bool thr 0); reflexivity. Qed.

(* ====================================================================== *)
(* 2-D                                                                     *)
(* ====================================================================== *)
Lemma place2_intro oy ox h w g i j (X : Q) :
  (in_iv oy h i && in_iv ox w j = true -> X == g (i - oy)%Z (j - ox)%Z) ->
  (in_iv oy h i && in_iv ox w j = false -> X == 0) ->
  X == place2 oy ox h w g i j.
Proof. intros A B. unfold place2. destruct (in_iv oy h i && in_iv ox w j); auto. Qed.

Lemma place2_shift oy ox h w g i j dy dx :
  place2 (oy + dy) (ox + dx) h w g (i + dy) (j + dx) = place2 oy ox h w g i j.
Proof.
  unfold place2.
  rewrite (in_iv_eq (oy + dy) h (i + dy) oy h i) by lia.
  rewrite (in_iv_eq (ox + dx) w (j + dx) ox w j) by lia.
  destruct (in_iv oy h i && in_iv ox w j); [|reflexivity]. f_equal; lia.
Qed.

Lemma padded2_unpack H W oy ox h w gy gx by_ bx :
  paddedb [Z.of_nat H; Z.of_nat W] [oy; ox] [h; w] [gy; gx] [by_; bx] = true ->
  (Z.max gy by_ <= oy /\ oy + h + Z.max gy by_ <= Z.of_nat H /\
   Z.max gx bx <= ox /\ ox + w + Z.max gx bx <= Z.of_nat W)%Z.
Proof.
  cbn [paddedb]. rewrite !andb_true_iff, !Z.leb_le. tauto.
Qed.

(* the zero continuation of a canvas is the plane function *)
Lemma ZE2_pasted H W oy ox h w g im i j :
  pasted2 H W oy ox h w g im ->
  (0 <= oy)%Z -> (oy + h <= Z.of_nat H)%Z -> (0 <= ox)%Z -> (ox + w <= Z.of_nat W)%Z ->
  zero_ext2 H W im i j == place2 oy ox h w g i j.
Proof.
  intros [R P] Hy1 Hy2 Hx1 Hx2. unfold zero_ext2. destruct (inside H i && inside W j) eqn:E.
  - apply andb_true_iff in E as [Ei Ej]. apply inside_true in Ei, Ej. apply P; assumption.
  - unfold place2. destruct (in_iv oy h i && in_iv ox w j) eqn:E2; [|reflexivity].
    apply andb_true_iff in E2 as [A B]. apply in_iv_true in A, B.
    apply andb_false_iff in E. destruct E as [E|E]; apply inside_false in E; lia.
Qed.

(* so is the edge-replicating continuation, within the reach *)
Lemma EE2_pasted H W oy ox h w g im ry rx i j a b :
  pasted2 H W oy ox h w g im ->
  (0 <= i < Z.of_nat H)%Z -> (0 <= j < Z.of_nat W)%Z -> (- ry <= a <= ry)%Z -> (- rx <= b <= rx)%Z ->
  (ry <= oy)%Z -> (oy + h + ry <= Z.of_nat H)%Z -> (rx <= ox)%Z -> (ox + w + rx <= Z.of_nat W)%Z ->
  edge_ext2 H W im (i + a) (j + b) == place2 oy ox h w g (i + a) (j + b).
Proof.
  intros [R P] Hi Hj Ha Hb Hy1 Hy2 Hx1 Hx2. unfold edge_ext2.
  rewrite P by (apply clamp_range; lia).
  destruct (clamp_iv H oy h ry i a Hi Ha Hy1 Hy2) as [A1 A2].
  destruct (clamp_iv W ox w rx j b Hj Hb Hx1 Hx2) as [B1 B2].
  unfold place2. rewrite A1, B1.
  destruct (in_iv oy h (i + a) && in_iv ox w (j + b)) eqn:E; [|reflexivity].
  apply andb_true_iff in E as [Ea Eb]. rewrite (A2 Ea), (B2 Eb). reflexivity.
Qed.

(* the documented value on a padded canvas is the border-free value of the plane function *)
Lemma documented2_plane H W t py px thr oy ox h w g im i j :
  (1 <= size py)%Z -> (1 <= size px)%Z ->
  pasted2 H W oy ox h w g im ->
  paddedb [Z.of_nat H; Z.of_nat W] [oy; ox] [h; w] [ghw_of t py; ghw_of t px] [bhw_of py; bhw_of px] = true ->
  (0 <= i < Z.of_nat H)%Z -> (0 <= j < Z.of_nat W)%Z ->
  documented2 H W t (sigma py) (sigma px) (expo py) (expo px) (size py) (size px) thr im i j ==
  plane_doc2 (ghw_of t py) (ghw_of t px) (gauss_w t (sigma py) (expo py)) (gauss_w t (sigma px) (expo px))
             (bhw_of py) (bhw_of px) thr (place2 oy ox h w g) i j.
Proof.
  intros Sy Sx HP Hpad Hi Hj.
  apply padded2_unpack in Hpad. fold (reach_of t py) (reach_of t px) in Hpad.
  destruct Hpad as (Y1 & Y2 & X1 & X2).
  destruct (reach_of_bounds t py Sy) as (Ry0 & Ryg & Ryb). destruct (reach_of_bounds t px Sx) as (Rx0 & Rxg & Rxb).
  unfold documented2, plane_doc2. apply clip_compat. unfold difference2, Qminus. apply Qplus_comp.
  - unfold smooth2, ghw_of. apply Qsum_sym_ext. intros a Ha. apply Qsum_sym_ext. intros b Hb.
    apply Qmult_comp; [reflexivity|]. apply (ZE2_pasted H W oy ox h w g im); [exact HP|lia..].
  - apply Qopp_comp. unfold average2, bhw_of, Qdiv. apply Qmult_comp; [|reflexivity].
    apply Qsum_sym_ext. intros a Ha. apply Qsum_sym_ext. intros b Hb.
    apply (EE2_pasted H W oy ox h w g im (reach_of t py) (reach_of t px)); try assumption; unfold bhw_of in *; lia.
Qed.

Lemma plane_doc2_shift ly lx gy gx by_ bx thr oy ox h w g i j :
  plane_doc2 ly lx gy gx by_ bx thr (place2 oy ox h w g) i j ==
  plane_doc2 ly lx gy gx by_ bx thr (place2 0 0 h w g) (i - oy) (j - ox).
Proof.
  assert (E : forall a b, place2 oy ox h w g (i + a) (j + b) = place2 0 0 h w g (i - oy + a) (j - ox + b)).
  { intros a b. rewrite <- (place2_shift 0 0 h w g (i - oy + a) (j - ox + b) oy ox).
    f_equal; lia. }
  unfold plane_doc2. apply clip_compat. unfold Qminus. apply Qplus_comp.
  - apply Qsum_sym_ext. intros a _. apply Qsum_sym_ext. intros b _. rewrite E. reflexivity.
  - apply Qopp_comp. unfold Qdiv. apply Qmult_comp; [|reflexivity].
    apply Qsum_sym_ext. intros a _. apply Qsum_sym_ext. intros b _. rewrite E. reflexivity.
Qed.

(* outside the content box grown by the reach every term of both sums is blank *)
Lemma plane_doc2_blank ly lx gy gx by_ bx thr h w g ry rx i j :
  (ly <= ry)%Z -> (by_ <= ry)%Z -> (lx <= rx)%Z -> (bx <= rx)%Z ->
  ~ (- ry <= i < h + ry)%Z \/ ~ (- rx <= j < w + rx)%Z ->
  plane_doc2 ly lx gy gx by_ bx thr (place2 0 0 h w g) i j == 0.
Proof.
  intros L1 L2 L3 L4 Hout.
  assert (Z0 : forall a b, (- ry <= a <= ry)%Z -> (- rx <= b <= rx)%Z -> place2 0 0 h w g (i + a) (j + b) = 0).
  { intros a b Ha Hb. unfold place2. destruct (in_iv 0 h (i + a) && in_iv 0 w (j + b)) eqn:E; [|reflexivity].
    exfalso. apply andb_true_iff in E as [A B]. apply in_iv_true in A, B. lia. }
  unfold plane_doc2. transitivity (clip_below thr 0); [|apply clip_below_0]. apply clip_compat.
  match goal with |- ?A - ?B / ?n == 0 => assert (S1 : A == 0); [|assert (S2 : B == 0); [|rewrite S1, S2; unfold Qdiv; ring]] end.
  - apply Qsum_sym_zero. intros a Ha. apply Qsum_sym_zero. intros b Hb. rewrite Z0 by lia. ring.
  - apply Qsum_sym_zero. intros a Ha. apply Qsum_sym_zero. intros b Hb. rewrite Z0 by lia. reflexivity.
Qed.

(* ---- the bandpassed canvas shows bp_content2 in the grown box, blank elsewhere ---- *)
Theorem bandpass2_pasted H W t py px thr oy ox h w g im out :
  0 <= t -> (1 <= size py)%Z -> (1 <= size px)%Z ->
  pasted2 H W oy ox h w g im ->
  paddedb [Z.of_nat H; Z.of_nat W] [oy; ox] [h; w] [ghw_of t py; ghw_of t px] [bhw_of py; bhw_of px] = true ->
  bandpass2 t py px thr im = Ok out ->
  pasted2 H W (oy - reach_of t py) (ox - reach_of t px) (h + 2 * reach_of t py) (w + 2 * reach_of t px)
          (bp_content2 t py px thr h w g) out.
Proof.
  intros Ht Sy Sx HP Hpad E. pose proof HP as [R _].
  destruct (bandpass2_pointwise H W t py px Ht Sy Sx thr im out R E) as [Ro P].
  split; [exact Ro|]. intros i j Hi Hj. rewrite P by assumption.
  rewrite (documented2_plane H W t py px thr oy ox h w g im i j Sy Sx HP Hpad Hi Hj).
  rewrite plane_doc2_shift.
  destruct (reach_of_bounds t py Sy) as (Ry0 & Ryg & Ryb). destruct (reach_of_bounds t px Sx) as (Rx0 & Rxg & Rxb).
  apply place2_intro; intros B.
  - unfold bp_content2.
    replace (i - (oy - reach_of t py) - reach_of t py)%Z with (i - oy)%Z by lia.
    replace (j - (ox - reach_of t px) - reach_of t px)%Z with (j - ox)%Z by lia. reflexivity.
  - apply (plane_doc2_blank _ _ _ _ _ _ _ _ _ _ (reach_of t py) (reach_of t px)); try assumption.
    apply andb_false_iff in B. destruct B as [B|B]; apply in_iv_false in B; [left|right]; lia.
Qed.

(* ---- one content shown at two places: the two canvases are moved ---- *)
Lemma pasted2_qmoved H1 W1 H2 W2 oy1 ox1 oy2 ox2 h w g out1 out2 :
  pasted2 H1 W1 oy1 ox1 h w g out1 -> pasted2 H2 W2 oy2 ox2 h w g out2 ->
  (0 <= oy1)%Z -> (oy1 + h <= Z.of_nat H1)%Z -> (0 <= ox1)%Z -> (ox1 + w <= Z.of_nat W1)%Z ->
  (0 <= oy2)%Z -> (oy2 + h <= Z.of_nat H2)%Z -> (0 <= ox2)%Z -> (ox2 + w <= Z.of_nat W2)%Z ->
  qmoved2 (oy2 - oy1) (ox2 - ox1) H1 W1 out1 H2 W2 out2.
Proof.
  intros P1 P2 A1 A2 A3 A4 B1 B2 B3 B4 i j.
  rewrite (ZE2_pasted H2 W2 oy2 ox2 h w g out2) by assumption.
  rewrite (ZE2_pasted H1 W1 oy1 ox1 h w g out1) by assumption.
  rewrite <- (place2_shift oy1 ox1 h w g i j (oy2 - oy1) (ox2 - ox1)).
  replace (oy1 + (oy2 - oy1))%Z with oy2 by lia. replace (ox1 + (ox2 - ox1))%Z with ox2 by lia. reflexivity.
Qed.

(* ---- bandpass commutes with moving padded content (2-D) ---- *)
Theorem bandpass2_moved H1 W1 H2 W2 oy1 ox1 oy2 ox2 h w g t py px thr im1 im2 out1 out2 :
  0 <= t -> (1 <= size py)%Z -> (1 <= size px)%Z ->
  pasted2 H1 W1 oy1 ox1 h w g im1 -> pasted2 H2 W2 oy2 ox2 h w g im2 ->
  paddedb [Z.of_nat H1; Z.of_nat W1] [oy1; ox1] [h; w] [ghw_of t py; ghw_of t px] [bhw_of py; bhw_of px] = true ->
  paddedb [Z.of_nat H2; Z.of_nat W2] [oy2; ox2] [h; w] [ghw_of t py; ghw_of t px] [bhw_of py; bhw_of px] = true ->
  bandpass2 t py px thr im1 = Ok out1 -> bandpass2 t py px thr im2 = Ok out2 ->
  rect2 H1 W1 out1 /\ rect2 H2 W2 out2 /\ qmoved2 (oy2 - oy1) (ox2 - ox1) H1 W1 out1 H2 W2 out2.
Proof.
  intros Ht Sy Sx P1 P2 D1 D2 E1 E2.
  pose proof (bandpass2_pasted H1 W1 t py px thr oy1 ox1 h w g im1 out1 Ht Sy Sx P1 D1 E1) as Q1.
  pose proof (bandpass2_pasted H2 W2 t py px thr oy2 ox2 h w g im2 out2 Ht Sy Sx P2 D2 E2) as Q2.
  split; [apply Q1|]. split; [apply Q2|].
  apply padded2_unpack in D1, D2. fold (reach_of t py) (reach_of t px) in D1, D2.
  replace (oy2 - oy1)%Z with ((oy2 - reach_of t py) - (oy1 - reach_of t py))%Z by lia.
  replace (ox2 - ox1)%Z with ((ox2 - reach_of t px) - (ox1 - reach_of t px))%Z by lia.
  apply (pasted2_qmoved H1 W1 H2 W2 _ _ _ _ _ _ _ out1 out2 Q1 Q2); lia.
Qed.

(* the threshold clip is inside the statement: a pixel of the bandpassed canvas is 0 or at least the threshold,
   in either placement, at corresponding pixels alike (from bandpass2_sign); and with a non-negative
   threshold the bandpassed content is non-negative *)
Lemma bp_content2_nonneg t py px thr h w g i j : 0 <= thr -> 0 <= bp_content2 t py px thr h w g i j.
Proof.
  intros Hthr. unfold bp_content2, plane_doc2.
  match goal with |- 0 <= clip_below thr ?d => destruct (clip_below_sign thr d) as [Z|[L E]] end.
  - rewrite Z. apply Qle_refl.
  - rewrite E. eapply Qle_trans; eassumption.
Qed.

(* ====================================================================== *)
(* 3-D                                                                     *)
(* ====================================================================== *)
Lemma place3_intro oz oy ox d h w g i j k (X : Q) :
  (in_iv oz d i && in_iv oy h j && in_iv ox w k = true -> X == g (i - oz)%Z (j - oy)%Z (k - ox)%Z) ->
  (in_iv oz d i && in_iv oy h j && in_iv ox w k = false -> X == 0) ->
  X == place3 oz oy ox d h w g i j k.
Proof. intros A B. unfold place3. destruct (in_iv oz d i && in_iv oy h j && in_iv ox w k); auto. Qed.

Lemma place3_shift oz oy ox d h w g i j k dz dy dx :
  place3 (oz + dz) (oy + dy) (ox + dx) d h w g (i + dz) (j + dy) (k + dx) = place3 oz oy ox d h w g i j k.
Proof.
  unfold place3.
  rewrite (in_iv_eq (oz + dz) d (i + dz) oz d i) by lia.
  rewrite (in_iv_eq (oy + dy) h (j + dy) oy h j) by lia.
  rewrite (in_iv_eq (ox + dx) w (k + dx) ox w k) by lia.
  destruct (in_iv oz d i && in_iv oy h j && in_iv ox w k); [|reflexivity]. f_equal; lia.
Qed.

Lemma padded3_unpack D H W oz oy ox d h w gz gy gx bz by_ bx :
  paddedb [Z.of_nat D; Z.of_nat H; Z.of_nat W] [oz; oy; ox] [d; h; w] [gz; gy; gx] [bz; by_; bx] = true ->
  (Z.max gz bz <= oz /\ oz + d + Z.max gz bz <= Z.of_nat D /\
   Z.max gy by_ <= oy /\ oy + h + Z.max gy by_ <= Z.of_nat H /\
   Z.max gx bx <= ox /\ ox + w + Z.max gx bx <= Z.of_nat W)%Z.
Proof.
  cbn [paddedb]. rewrite !andb_true_iff, !Z.leb_le. tauto.
Qed.

Lemma ZE3_pasted D H W oz oy ox d h w g im i j k :
  pasted3 D H W oz oy ox d h w g im ->
  (0 <= oz)%Z -> (oz + d <= Z.of_nat D)%Z -> (0 <= oy)%Z -> (oy + h <= Z.of_nat H)%Z ->
  (0 <= ox)%Z -> (ox + w <= Z.of_nat W)%Z ->
  zero_ext3 D H W im i j k == place3 oz oy ox d h w g i j k.
Proof.
  intros [R P] Hz1 Hz2 Hy1 Hy2 Hx1 Hx2. unfold zero_ext3. destruct (inside D i && inside H j && inside W k) eqn:E.
  - apply andb_true_iff in E as [E Ek]. apply andb_true_iff in E as [Ei Ej].
    apply inside_true in Ei, Ej, Ek. apply P; assumption.
  - unfold place3. destruct (in_iv oz d i && in_iv oy h j && in_iv ox w k) eqn:E2; [|reflexivity].
    apply andb_true_iff in E2 as [E2 C]. apply andb_true_iff in E2 as [A B]. apply in_iv_true in A, B, C.
    apply andb_false_iff in E. destruct E as [E|E]; [apply andb_false_iff in E; destruct E as [E|E]|];
      apply inside_false in E; lia.
Qed.

Lemma EE3_pasted D H W oz oy ox d h w g im rz ry rx i j k a b c :
  pasted3 D H W oz oy ox d h w g im ->
  (0 <= i < Z.of_nat D)%Z -> (0 <= j < Z.of_nat H)%Z -> (0 <= k < Z.of_nat W)%Z ->
  (- rz <= a <= rz)%Z -> (- ry <= b <= ry)%Z -> (- rx <= c <= rx)%Z ->
  (rz <= oz)%Z -> (oz + d + rz <= Z.of_nat D)%Z -> (ry <= oy)%Z -> (oy + h + ry <= Z.of_nat H)%Z ->
  (rx <= ox)%Z -> (ox + w + rx <= Z.of_nat W)%Z ->
  edge_ext3 D H W im (i + a) (j + b) (k + c) == place3 oz oy ox d h w g (i + a) (j + b) (k + c).
Proof.
  intros [R P] Hi Hj Hk Ha Hb Hc Hz1 Hz2 Hy1 Hy2 Hx1 Hx2. unfold edge_ext3.
  rewrite P by (apply clamp_range; lia).
  destruct (clamp_iv D oz d rz i a Hi Ha Hz1 Hz2) as [A1 A2].
  destruct (clamp_iv H oy h ry j b Hj Hb Hy1 Hy2) as [B1 B2].
  destruct (clamp_iv W ox w rx k c Hk Hc Hx1 Hx2) as [C1 C2].
  unfold place3. rewrite A1, B1, C1.
  destruct (in_iv oz d (i + a) && in_iv oy h (j + b) && in_iv ox w (k + c)) eqn:E; [|reflexivity].
  apply andb_true_iff in E as [E Ec]. apply andb_true_iff in E as [Ea Eb].
  rewrite (A2 Ea), (B2 Eb), (C2 Ec). reflexivity.
Qed.

Lemma documented3_plane D H W t pz py px thr oz oy ox d h w g im i j k :
  (1 <= size pz)%Z -> (1 <= size py)%Z -> (1 <= size px)%Z ->
  pasted3 D H W oz oy ox d h w g im ->
  paddedb [Z.of_nat D; Z.of_nat H; Z.of_nat W] [oz; oy; ox] [d; h; w]
          [ghw_of t pz; ghw_of t py; ghw_of t px] [bhw_of pz; bhw_of py; bhw_of px] = true ->
  (0 <= i < Z.of_nat D)%Z -> (0 <= j < Z.of_nat H)%Z -> (0 <= k < Z.of_nat W)%Z ->
  documented3 D H W t (sigma pz) (sigma py) (sigma px) (expo pz) (expo py) (expo px)
              (size pz) (size py) (size px) thr im i j k ==
  plane_doc3 (ghw_of t pz) (ghw_of t py) (ghw_of t px)
             (gauss_w t (sigma pz) (expo pz)) (gauss_w t (sigma py) (expo py)) (gauss_w t (sigma px) (expo px))
             (bhw_of pz) (bhw_of py) (bhw_of px) thr (place3 oz oy ox d h w g) i j k.
Proof.
  intros Sz Sy Sx HP Hpad Hi Hj Hk.
  apply padded3_unpack in Hpad. fold (reach_of t pz) (reach_of t py) (reach_of t px) in Hpad.
  destruct Hpad as (Z1 & Z2 & Y1 & Y2 & X1 & X2).
  destruct (reach_of_bounds t pz Sz) as (Rz0 & Rzg & Rzb).
  destruct (reach_of_bounds t py Sy) as (Ry0 & Ryg & Ryb). destruct (reach_of_bounds t px Sx) as (Rx0 & Rxg & Rxb).
  unfold documented3, plane_doc3. apply clip_compat. unfold difference3, Qminus. apply Qplus_comp.
  - unfold smooth3, ghw_of. apply Qsum_sym_ext. intros a Ha. apply Qsum_sym_ext. intros b Hb.
    apply Qsum_sym_ext. intros c Hc.
    apply Qmult_comp; [reflexivity|]. apply (ZE3_pasted D H W oz oy ox d h w g im); [exact HP|lia..].
  - apply Qopp_comp. unfold average3, bhw_of, Qdiv. apply Qmult_comp; [|reflexivity].
    apply Qsum_sym_ext. intros a Ha. apply Qsum_sym_ext. intros b Hb. apply Qsum_sym_ext. intros c Hc.
    apply (EE3_pasted D H W oz oy ox d h w g im (reach_of t pz) (reach_of t py) (reach_of t px));
      try assumption; unfold bhw_of in *; lia.
Qed.

Lemma plane_doc3_shift lz ly lx gz gy gx bz by_ bx thr oz oy ox d h w g i j k :
  plane_doc3 lz ly lx gz gy gx bz by_ bx thr (place3 oz oy ox d h w g) i j k ==
  plane_doc3 lz ly lx gz gy gx bz by_ bx thr (place3 0 0 0 d h w g) (i - oz) (j - oy) (k - ox).
Proof.
  assert (E : forall a b c, place3 oz oy ox d h w g (i + a) (j + b) (k + c) =
                            place3 0 0 0 d h w g (i - oz + a) (j - oy + b) (k - ox + c)).
  { intros a b c. rewrite <- (place3_shift 0 0 0 d h w g (i - oz + a) (j - oy + b) (k - ox + c) oz oy ox).
    f_equal; lia. }
  unfold plane_doc3. apply clip_compat. unfold Qminus. apply Qplus_comp.
  - apply Qsum_sym_ext. intros a _. apply Qsum_sym_ext. intros b _. apply Qsum_sym_ext. intros c _.
    rewrite E. reflexivity.
  - apply Qopp_comp. unfold Qdiv. apply Qmult_comp; [|reflexivity].
    apply Qsum_sym_ext. intros a _. apply Qsum_sym_ext. intros b _. apply Qsum_sym_ext. intros c _.
    rewrite E. reflexivity.
Qed.

Lemma plane_doc3_blank lz ly lx gz gy gx bz by_ bx thr d h w g rz ry rx i j k :
  (lz <= rz)%Z -> (bz <= rz)%Z -> (ly <= ry)%Z -> (by_ <= ry)%Z -> (lx <= rx)%Z -> (bx <= rx)%Z ->
  ~ (- rz <= i < d + rz)%Z \/ ~ (- ry <= j < h + ry)%Z \/ ~ (- rx <= k < w + rx)%Z ->
  plane_doc3 lz ly lx gz gy gx bz by_ bx thr (place3 0 0 0 d h w g) i j k == 0.
Proof.
  intros L1 L2 L3 L4 L5 L6 Hout.
  assert (Z0 : forall a b c, (- rz <= a <= rz)%Z -> (- ry <= b <= ry)%Z -> (- rx <= c <= rx)%Z ->
                             place3 0 0 0 d h w g (i + a) (j + b) (k + c) = 0).
  { intros a b c Ha Hb Hc. unfold place3.
    destruct (in_iv 0 d (i + a) && in_iv 0 h (j + b) && in_iv 0 w (k + c)) eqn:E; [|reflexivity].
    exfalso. apply andb_true_iff in E as [E C]. apply andb_true_iff in E as [A B].
    apply in_iv_true in A, B, C. lia. }
  unfold plane_doc3. transitivity (clip_below thr 0); [|apply clip_below_0]. apply clip_compat.
  match goal with |- ?A - ?B / ?n == 0 => assert (S1 : A == 0); [|assert (S2 : B == 0); [|rewrite S1, S2; unfold Qdiv; ring]] end.
  - apply Qsum_sym_zero. intros a Ha. apply Qsum_sym_zero. intros b Hb. apply Qsum_sym_zero. intros c Hc.
    rewrite Z0 by lia. ring.
  - apply Qsum_sym_zero. intros a Ha. apply Qsum_sym_zero. intros b Hb. apply Qsum_sym_zero. intros c Hc.
    rewrite Z0 by lia. reflexivity.
Qed.

Theorem bandpass3_pasted D H W t pz py px thr oz oy ox d h w g im out :
  0 <= t -> (1 <= size pz)%Z -> (1 <= size py)%Z -> (1 <= size px)%Z ->
  pasted3 D H W oz oy ox d h w g im ->
  paddedb [Z.of_nat D; Z.of_nat H; Z.of_nat W] [oz; oy; ox] [d; h; w]
          [ghw_of t pz; ghw_of t py; ghw_of t px] [bhw_of pz; bhw_of py; bhw_of px] = true ->
  bandpass3 t pz py px thr im = Ok out ->
  pasted3 D H W (oz - reach_of t pz) (oy - reach_of t py) (ox - reach_of t px)
          (d + 2 * reach_of t pz) (h + 2 * reach_of t py) (w + 2 * reach_of t px)
          (bp_content3 t pz py px thr d h w g) out.
Proof.
  intros Ht Sz Sy Sx HP Hpad E. pose proof HP as [R _].
  destruct (bandpass3_pointwise D H W t pz py px Ht Sz Sy Sx thr im out R E) as [Ro P].
  split; [exact Ro|]. intros i j k Hi Hj Hk. rewrite P by assumption.
  rewrite (documented3_plane D H W t pz py px thr oz oy ox d h w g im i j k Sz Sy Sx HP Hpad Hi Hj Hk).
  rewrite plane_doc3_shift.
  destruct (reach_of_bounds t pz Sz) as (Rz0 & Rzg & Rzb).
  destruct (reach_of_bounds t py Sy) as (Ry0 & Ryg & Ryb). destruct (reach_of_bounds t px Sx) as (Rx0 & Rxg & Rxb).
  apply place3_intro; intros B.
  - unfold bp_content3.
    replace (i - (oz - reach_of t pz) - reach_of t pz)%Z with (i - oz)%Z by lia.
    replace (j - (oy - reach_of t py) - reach_of t py)%Z with (j - oy)%Z by lia.
    replace (k - (ox - reach_of t px) - reach_of t px)%Z with (k - ox)%Z by lia. reflexivity.
  - apply (plane_doc3_blank _ _ _ _ _ _ _ _ _ _ _ _ _ _ (reach_of t pz) (reach_of t py) (reach_of t px)); try assumption.
    apply andb_false_iff in B. destruct B as [B|B]; [apply andb_false_iff in B; destruct B as [B|B]|];
      apply in_iv_false in B; [left|right; left|right; right]; lia.
Qed.

Lemma pasted3_qmoved D1 H1 W1 D2 H2 W2 oz1 oy1 ox1 oz2 oy2 ox2 d h w g out1 out2 :
  pasted3 D1 H1 W1 oz1 oy1 ox1 d h w g out1 -> pasted3 D2 H2 W2 oz2 oy2 ox2 d h w g out2 ->
  (0 <= oz1)%Z -> (oz1 + d <= Z.of_nat D1)%Z -> (0 <= oy1)%Z -> (oy1 + h <= Z.of_nat H1)%Z ->
  (0 <= ox1)%Z -> (ox1 + w <= Z.of_nat W1)%Z ->
  (0 <= oz2)%Z -> (oz2 + d <= Z.of_nat D2)%Z -> (0 <= oy2)%Z -> (oy2 + h <= Z.of_nat H2)%Z ->
  (0 <= ox2)%Z -> (ox2 + w <= Z.of_nat W2)%Z ->
  qmoved3 (oz2 - oz1) (oy2 - oy1) (ox2 - ox1) D1 H1 W1 out1 D2 H2 W2 out2.
Proof.
  intros P1 P2 A1 A2 A3 A4 A5 A6 B1 B2 B3 B4 B5 B6 i j k.
  rewrite (ZE3_pasted D2 H2 W2 oz2 oy2 ox2 d h w g out2) by assumption.
  rewrite (ZE3_pasted D1 H1 W1 oz1 oy1 ox1 d h w g out1) by assumption.
  rewrite <- (place3_shift oz1 oy1 ox1 d h w g i j k (oz2 - oz1) (oy2 - oy1) (ox2 - ox1)).
  replace (oz1 + (oz2 - oz1))%Z with oz2 by lia.
  replace (oy1 + (oy2 - oy1))%Z with oy2 by lia. replace (ox1 + (ox2 - ox1))%Z with ox2 by lia. reflexivity.
Qed.

(* ---- bandpass commutes with moving padded content (3-D) ---- *)
Theorem bandpass3_moved D1 H1 W1 D2 H2 W2 oz1 oy1 ox1 oz2 oy2 ox2 d h w g t pz py px thr im1 im2 out1 out2 :
  0 <= t -> (1 <= size pz)%Z -> (1 <= size py)%Z -> (1 <= size px)%Z ->
  pasted3 D1 H1 W1 oz1 oy1 ox1 d h w g im1 -> pasted3 D2 H2 W2 oz2 oy2 ox2 d h w g im2 ->
  paddedb [Z.of_nat D1; Z.of_nat H1; Z.of_nat W1] [oz1; oy1; ox1] [d; h; w]
          [ghw_of t pz; ghw_of t py; ghw_of t px] [bhw_of pz; bhw_of py; bhw_of px] = true ->
  paddedb [Z.of_nat D2; Z.of_nat H2; Z.of_nat W2] [oz2; oy2; ox2] [d; h; w]
          [ghw_of t pz; ghw_of t py; ghw_of t px] [bhw_of pz; bhw_of py; bhw_of px] = true ->
  bandpass3 t pz py px thr im1 = Ok out1 -> bandpass3 t pz py px thr im2 = Ok out2 ->
  rect3 D1 H1 W1 out1 /\ rect3 D2 H2 W2 out2 /\
  qmoved3 (oz2 - oz1) (oy2 - oy1) (ox2 - ox1) D1 H1 W1 out1 D2 H2 W2 out2.
Proof.
  intros Ht Sz Sy Sx P1 P2 D1' D2' E1 E2.
  pose proof (bandpass3_pasted D1 H1 W1 t pz py px thr oz1 oy1 ox1 d h w g im1 out1 Ht Sz Sy Sx P1 D1' E1) as Q1.
  pose proof (bandpass3_pasted D2 H2 W2 t pz py px thr oz2 oy2 ox2 d h w g im2 out2 Ht Sz Sy Sx P2 D2' E2) as Q2.
  split; [apply Q1|]. split; [apply Q2|].
  apply padded3_unpack in D1', D2'. fold (reach_of t pz) (reach_of t py) (reach_of t px) in D1', D2'.
  replace (oz2 - oz1)%Z with ((oz2 - reach_of t pz) - (oz1 - reach_of t pz))%Z by lia.
  replace (oy2 - oy1)%Z with ((oy2 - reach_of t py) - (oy1 - reach_of t py))%Z by lia.
  replace (ox2 - ox1)%Z with ((ox2 - reach_of t px) - (ox1 - reach_of t px))%Z by lia.
  apply (pasted3_qmoved D1 H1 W1 D2 H2 W2 _ _ _ _ _ _ _ _ _ _ out1 out2 Q1 Q2); lia.
Qed.

(* ====================================================================== *)
(* non-vacuity                                                             *)
(* ====================================================================== *)
Lemma canvas2_pasted H W oy ox h w g : pasted2 H W oy ox h w g (canvas2 H W oy ox h w g).
Proof.
  split.
  - split. unfold canvas2. rewrite map_length, seq_length. reflexivity.
    apply Forall_forall. intros r Hr. unfold canvas2 in Hr. apply in_map_iff in Hr as [i [<- _]].
    rewrite map_length, seq_length. reflexivity.
  - intros i j Hi Hj. unfold px2, canvas2.
    rewrite (nth_map_seq (fun i => map (fun j => place2 oy ox h w g (Z.of_nat i) (Z.of_nat j)) (seq 0 W)) H (Z.to_nat i) []) by lia.
    rewrite (nth_map_seq (fun j => place2 oy ox h w g (Z.of_nat (Z.to_nat i)) (Z.of_nat j)) W (Z.to_nat j) 0) by lia.
    rewrite !Z2Nat.id by lia. reflexivity.
Qed.

(* lshort = (1, 2), truncate = 1: Gaussian half-widths (1, 2); llong = (5, 7): boxcar half-widths (2, 3);
   reach (2, 3).  A 3 x 4 content at (2, 4) in a 9 x 12 canvas and at (5, 3) in a 10 x 11 canvas is
   padded; at (1, 4) in the 9 x 12 canvas it is not. *)
Definition e_py : axis_par := mkpar 1 [1; 5 # 8; 1 # 8] 5.
Definition e_px : axis_par := mkpar 2 [1; 7 # 8; 5 # 8; 3 # 8] 7.
Definition e_g (i j : Z) : Q := inject_Z (1 + 3 * i + j).

Lemma ex_padded2 :
  [ghw_of 1 e_py; ghw_of 1 e_px] = [1; 2]%Z /\ [bhw_of e_py; bhw_of e_px] = [2; 3]%Z /\
  paddedb [9; 12]%Z [2; 4]%Z [3; 4]%Z [ghw_of 1 e_py; ghw_of 1 e_px] [bhw_of e_py; bhw_of e_px] = true /\
  paddedb [10; 11]%Z [5; 3]%Z [3; 4]%Z [ghw_of 1 e_py; ghw_of 1 e_px] [bhw_of e_py; bhw_of e_px] = true /\
  paddedb [9; 12]%Z [1; 4]%Z [3; 4]%Z [ghw_of 1 e_py; ghw_of 1 e_px] [bhw_of e_py; bhw_of e_px] = false /\
  paddedb [7; 9; 12]%Z [3; 2; 4]%Z [2; 3; 4]%Z [ghw_of 1 e_py; ghw_of 1 e_py; ghw_of 1 e_px]
          [bhw_of e_py; bhw_of e_py; bhw_of e_px] = true.
Proof. repeat split. Qed.

Lemma ex_bandpass2_moved :
  exists a b, bandpass2 1 e_py e_px (1 # 2) (canvas2 9 12 2 4 3 4 e_g) = Ok a /\
              bandpass2 1 e_py e_px (1 # 2) (canvas2 10 11 5 3 3 4 e_g) = Ok b /\
              px2 a 3 5 == 53334 # 20160 /\ px2 b 6 4 == 53334 # 20160 /\
              px2 a 3 8 == 18666 # 20160 /\ px2 b 6 7 == 18666 # 20160 /\ px2 a 0 1 == 0 /\ px2 b 3 0 == 0.
Proof. eexists. eexists. split. vm_compute. reflexivity. split. vm_compute. reflexivity. repeat split. Qed.
