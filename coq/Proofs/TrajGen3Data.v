(* C20, route T, tables WITH further columns (z, y, x, mass, ...): the rows and the data-flow
   readings of the generated functions (Model/PyFiltering3.v: RowsI3 xcols, BodyI3 .. xcols).

     RowsI3   the generated filters equal Model/TrajFilter.v's whatever further columns the table
              has -- they never read one (no EUnmodelled) --, and the generated guess_pos_columns
              answers ['z','y','x'] exactly when 'z' is one of them;
     BodyI3   the data-flow pipeline rebuilt on the generated functions, with the numeric kernels
              of link / link_partial / compute_drift given the position columns the GENERATED
              guess_pos_columns answers for the table at hand, equals Model/TrajData.v's d_run for
              the kernels at [guess_of xcols]; same_numbers is carried over: no hypothesis on z. *)
From Coq Require Import ZArith QArith String List Bool Lia.
From TP Require Import Model.TrajFilter Model.TrajLayout Model.TrajData Model.PyFiltering Model.PyFiltering3
                       Gen.filtering Proofs.TrajFilter Proofs.TrajLayout Proofs.TrajData Proofs.TrajGen.
Import ListNotations.
Local Open Scope string_scope.

(* =====================================================================================
   RowsI3
   ===================================================================================== *)
Section RowsGen3.
  Variable xcols : list name.
  Notation RI := (RowsI3 xcols).

  Ltac rows3_step :=
    cbn [RowsI3 p_getitem p_contains p_reset_index_drop p_groupby p_gb_filter p_set_index_keep p_count p_mean
         p_quantile DataFrame GroupBy Series rbind catch_KeyError];
    rewrite ?row_col_frame, ?row_col_particle, ?row_col_size;
    change (String.eqb "particle" "particle") with true; cbn [rbind catch_KeyError].

  Theorem gen_filter_stubs_rows3 rows thr : py_filter_stubs RI rows thr = ROk (filter_stubs rows thr).
  Proof.
    unfold py_filter_stubs. rows3_step.
    rewrite (rows_gb_filter_pure rows _ (stub_func thr)).
    - rows3_step. reflexivity.
    - intros x. rows3_step. f_equal. unfold stub_func. rewrite count_frame. apply Z.geb_leb.
  Qed.

  Theorem gen_filter_clusters_rows3_threshold rows q cut :
    py_filter_clusters RI rows q (Some (Some cut)) = ROk (filter_clusters rows cut).
  Proof.
    unfold py_filter_clusters. rows3_step. cbv zeta.
    rewrite (rows_gb_filter_pure rows _ (cluster_func cut)).
    - rows3_step. reflexivity.
    - intros x. rows3_step. f_equal. unfold cluster_func. now rewrite somes_size, flt_lt_some.
  Qed.

  Theorem gen_filter_clusters_rows3_nan rows q : py_filter_clusters RI rows q (Some None) = ROk [].
  Proof.
    unfold py_filter_clusters. rows3_step. cbv zeta.
    rewrite (rows_gb_filter_pure rows _ (fun _ => false)).
    - rows3_step. now rewrite gb_filter_none.
    - intros x. rows3_step. f_equal. unfold flt_lt, flt_cmp. now destruct (qmean _).
  Qed.

  Theorem gen_filter_clusters_rows3_quantile rows q :
    py_filter_clusters RI rows q None = ROk (filter_clusters_q rows q).
  Proof.
    unfold filter_clusters_q. rewrite <- somes_size.
    destruct (quantile (somes (map size rows)) q) as [t|] eqn:E.
    - rewrite <- (gen_filter_clusters_rows3_threshold rows q t).
      unfold py_filter_clusters. rows3_step. now rewrite E.
    - rewrite <- (gen_filter_clusters_rows3_nan rows q).
      unfold py_filter_clusters. rows3_step. now rewrite E.
  Qed.

  Theorem gen_filter_rows3 rows (f : list row -> bool) :
    py_filter RI rows (fun g => ROk (f g)) = ROk (gb_filter f rows).
  Proof.
    unfold py_filter. rows3_step. rewrite (rows_gb_filter_pure rows _ f) by reflexivity. rows3_step. reflexivity.
  Qed.

  Theorem gen_guess_rows3 rows : py_guess_pos_columns RI rows = guess_of xcols.
  Proof.
    unfold py_guess_pos_columns, guess_of. cbn [RowsI3 p_contains].
    change (row_col "z") with (@None (row -> option Q)). cbv iota.
    now destruct (mem_name "z" xcols).
  Qed.
End RowsGen3.

(* the headline statements of Properties/C20.v (a) for a table with any further columns *)
Theorem gen_filters_exact3 (xcols : list name) :
  (forall rows threshold,
     py_filter_stubs (RowsI3 xcols) rows threshold =
     ROk (filter (fun r => match pid r with
                           | Some p => (threshold <=? observations p rows)%Z
                           | None => false
                           end) rows)) /\
  (forall rows q cut,
     py_filter_clusters (RowsI3 xcols) rows q (Some (Some cut)) =
     ROk (filter (fun r => match pid r with
                           | Some p => match qmean (traj_sizes p rows) with
                                       | Some m => Qltb m cut
                                       | None => false
                                       end
                           | None => false
                           end) rows)) /\
  (forall rows q, py_filter_clusters (RowsI3 xcols) rows q None = ROk (filter_clusters_q rows q)) /\
  (forall rows, py_guess_pos_columns (RowsI3 xcols) rows
                = if mem_name "z" xcols then ["z"; "y"; "x"] else ["y"; "x"]).
Proof.
  split; [|split; [|split]].
  - intros. rewrite gen_filter_stubs_rows3. f_equal. apply filter_stubs_exact.
  - intros. rewrite gen_filter_clusters_rows3_threshold. f_equal. apply filter_clusters_exact.
  - apply gen_filter_clusters_rows3_quantile.
  - apply gen_guess_rows3.
Qed.

(* =====================================================================================
   BodyI3
   ===================================================================================== *)
Section BodyGen3.
  Variable R : Type.
  Variable fr part : R -> Z.
  (* the linker and the drift curve are functions of the position columns they are told to read *)
  Variable k_link k_link_partial : list name -> list R -> list R.
  Variable k_keep_stubs k_keep_clusters : list R -> R -> bool.
  Variable drift_t : Type.
  Variable k_drift : list name -> list R -> drift_t.
  Variable k_sub : drift_t -> Z -> R -> R.
  Variable xcols : list name.

  Notation BI := (fun keep => BodyI3 R fr part keep xcols).

  Ltac body3_step :=
    cbn [BodyI3 p_getitem p_contains p_reset_index_drop p_groupby p_gb_filter p_set_index_keep p_count p_mean
         p_quantile p_index_name p_index_nlevels p_index_names p_set_index_name p_set_index_names p_sort_values
         DataFrame GroupBy Series rbind catch_KeyError];
    change (String.eqb "particle" "particle") with true;
    change (body_col R fr part "frame") with (Some fr);
    cbn [rbind catch_KeyError].

  Theorem gen_filter_stubs_body3 keep (b : body R) thr :
    py_filter_stubs (BI keep) b thr = ROk (d_filter R fr keep b).
  Proof. unfold py_filter_stubs. body3_step. reflexivity. Qed.

  Theorem gen_filter_clusters_body3 keep (b : body R) q thr :
    py_filter_clusters (BI keep) b q thr = ROk (d_filter R fr keep b).
  Proof. unfold py_filter_clusters. body3_step. destruct thr; body3_step; reflexivity. Qed.

  Theorem gen_pandas_sort_body3_inplace keep (b : body R) :
    py_pandas_sort (BI keep) b (ByStr "frame") true = ROk (sort_values R (by_frame R fr) b, None).
  Proof.
    unfold py_pandas_sort. body3_step. cbn [by_keys body_cols]. change (body_col R fr part "frame") with (Some fr).
    cbv iota beta. do 2 f_equal. unfold sort_values. apply isort_ext. intros x y. apply by_frame_leb_of.
  Qed.

  Theorem gen_pandas_sort_body3_returned keep (b : body R) :
    py_pandas_sort (BI keep) b (ByList ["particle"; "frame"]) false
    = ROk (b, Some (sort_values R (by_particle_frame R fr part) b)).
  Proof. reflexivity. Qed.

  Theorem gen_guess_body3 keep (b : body R) : py_guess_pos_columns (BI keep) b = guess_of xcols.
  Proof.
    unfold py_guess_pos_columns, guess_of. cbn [BodyI3 p_contains].
    change (body_col R fr part "z") with (@None (R -> Z)). cbv iota.
    now destruct (mem_name "z" xcols).
  Qed.

  (* the data-flow stages built on the generated functions; pos_columns=None everywhere *)
  Definition g_d_link3 (kl : list name -> list R -> list R) (b : body R) : body R :=
    (* pos_columns = guess_pos_columns(f); f = f.copy(); pandas_sort(f, t_column, inplace=True); f['particle'] = ids *)
    let pos := py_guess_pos_columns (BI k_keep_stubs) b in
    let b1 := res_get b (rbind (py_pandas_sort (BI k_keep_stubs) b (ByStr "frame") true) (fun r => ROk (fst r))) in
    combine (map fst b1) (kl pos (map snd b1)).
  Definition g_d_compute_drift3 (b : body R) : drift_t :=
    (* pos_columns = guess_pos_columns(traj);
       f_sort = pandas_sort(traj[pos_columns + ['particle', 'frame']].reset_index(drop=True), ['particle', 'frame']) *)
    let pos := py_guess_pos_columns (BI k_keep_stubs) b in
    let t := TrajData.reset_index_drop R b in
    let f_sort := res_get t (rbind (py_pandas_sort (BI k_keep_stubs) t (ByList ["particle"; "frame"]) false)
                                   (fun r => match snd r with Some v => ROk v | None => RRaise EUnmodelled end)) in
    k_drift pos (map snd f_sort).
  Definition g_d_subtract_drift3 (b : body R) : body R :=
    let d := g_d_compute_drift3 b in
    let b2 := sort_index R (TrajData.set_index R [fr; part] b) in
    map (fun p => (fst p, k_sub d (nth 0 (fst p) 0%Z) (snd p))) b2.
  Definition g_d_run1_3 (a : filter_args) (st : dstage) (b : body R) : body R :=
    match st with
    | DLink => g_d_link3 k_link b
    | DLinkPartial => g_d_link3 k_link_partial b
    | DFilterStubs => res_get b (py_filter_stubs (BI k_keep_stubs) b (a_stub_threshold a))
    | DFilterClusters => res_get b (py_filter_clusters (BI k_keep_clusters) b (a_quantile a) (a_cluster_threshold a))
    | DSubtractDrift => g_d_subtract_drift3 b
    end.
  Fixpoint g_d_run3 (a : filter_args) (ps : list dstage) (b : body R) : body R :=
    match ps with [] => b | st :: ps' => g_d_run3 a ps' (g_d_run1_3 a st b) end.

  (* Model/TrajData.v's stages with the kernels at the guessed position columns *)
  Let pos := guess_of xcols.
  Notation d_run1 := (d_run1 R fr part (k_link pos) (k_link_partial pos) k_keep_stubs k_keep_clusters drift_t (k_drift pos) k_sub).
  Notation d_run := (d_run R fr part (k_link pos) (k_link_partial pos) k_keep_stubs k_keep_clusters drift_t (k_drift pos) k_sub).

  Lemma g_d_compute_drift3_eq b : g_d_compute_drift3 b = d_compute_drift R fr part drift_t (k_drift pos) b.
  Proof. unfold g_d_compute_drift3. now rewrite gen_guess_body3, gen_pandas_sort_body3_returned. Qed.

  Theorem g_d_run1_3_eq a st b : g_d_run1_3 a st b = d_run1 st b.
  Proof.
    destruct st; cbn [g_d_run1_3 TrajData.d_run1].
    - unfold g_d_link3. now rewrite gen_guess_body3, gen_pandas_sort_body3_inplace.
    - unfold g_d_link3. now rewrite gen_guess_body3, gen_pandas_sort_body3_inplace.
    - now rewrite gen_filter_stubs_body3.
    - now rewrite gen_filter_clusters_body3.
    - unfold g_d_subtract_drift3. now rewrite g_d_compute_drift3_eq.
  Qed.

  Theorem g_d_run3_eq a ps : forall b, g_d_run3 a ps b = d_run ps b.
  Proof. induction ps as [|st ps IH]; intros b; cbn; [reflexivity|]. now rewrite g_d_run1_3_eq, IH. Qed.

  (* C20_same_numbers for the pipelines built on the generated functions, any further columns *)
  Theorem g_same_numbers3 a ps (b : body R) :
    map snd (g_d_run3 a ps b) = map snd (g_d_run3 a ps (default_indexed R b)) /\
    g_d_compute_drift3 (g_d_run3 a ps b) = g_d_compute_drift3 (g_d_run3 a ps (default_indexed R b)).
  Proof. rewrite !g_d_run3_eq, !g_d_compute_drift3_eq. apply same_numbers. Qed.

  (* the position columns handed to the kernels are the generated guess: z, y, x iff the table has z *)
  Theorem g_d_kernels_get_guess kl b :
    g_d_link3 kl b =
    (let b1 := sort_values R (by_frame R fr) b in
     combine (map fst b1) (kl (if mem_name "z" xcols then ["z"; "y"; "x"] else ["y"; "x"]) (map snd b1))) /\
    g_d_compute_drift3 b =
    k_drift (if mem_name "z" xcols then ["z"; "y"; "x"] else ["y"; "x"])
            (map snd (sort_values R (by_particle_frame R fr part) (TrajData.reset_index_drop R b))).
  Proof.
    split.
    - unfold g_d_link3. now rewrite gen_guess_body3, gen_pandas_sort_body3_inplace.
    - rewrite g_d_compute_drift3_eq. reflexivity.
  Qed.
End BodyGen3.
