(* C09 -- translation equivariance of the WHOLE locate with preprocess=True (Model/LocateWhole2.v):
   (a) the tail (where_close, mass /= scale_factor, minmass / maxsize, topn) on two tables of refine rows that
       correspond row by row, whatever image their raw_mass was measured on, and two scale factors that are the
       same number;
   (b) measure_noise(processed image, raw image) for two placements of one content: the background VALUES are the
       same multiset as soon as the two canvases have the same NUMBER of pixels (the blank pixels of the canvas
       are part of the background: their number enters the mean and the standard deviation);
   (c) the composition with Proofs/PreprocessMoved.v. *)
From Coq Require Import ZArith NArith QArith Qabs List Bool Arith Lia Permutation Sorting.Sorted Setoid Morphisms.
From TP Require Import Model.Dilation Model.COM Model.Equivariance Model.LocateTail Model.LocateWhole Model.LocateWhole2.
From TP Require Model.LocatePipe.
From TP Require Import Proofs.Dilation Proofs.Equivariance Proofs.LocateTail Proofs.LocateWhole.
Import ListNotations.
Open Scope Q_scope.

(* =============================================================== (a) the generic tail *)
Lemma no_tie_g_iff : forall pass mass sep topn outs,
  no_tie_g pass mass sep topn outs = true <->
  NoCloseTie sep outs /\
  match topn with None => True | Some _ => Distinct output mass (filter pass (dedupe_out sep outs)) end.
Proof.
  intros. unfold no_tie_g. rewrite andb_true_iff, no_close_tie_iff.
  destruct topn as [n|]; [|tauto].
  assert (E : forallb (fun xy : output * output => negb (Qeq_bool (mass (fst xy)) (mass (snd xy))))
                      (ordpairs (filter pass (dedupe_out sep outs))) = true <->
              Distinct output mass (filter pass (dedupe_out sep outs))).
  { generalize (filter pass (dedupe_out sep outs)). intro l. unfold Distinct. rewrite forallb_forall. split.
    - intro H. apply fop_of_ordpairs. intros x y Hin E. specialize (H (x, y) Hin). cbn in H.
      apply Qeq_bool_iff in E. rewrite E in H. discriminate.
    - intros H [x y] Hin. cbn. pose proof (ordpairs_of_fop _ _ H x y Hin) as K. cbn beta in K.
      destruct (Qeq_bool (mass x) (mass y)) eqn:E; [|reflexivity].
      apply Qeq_bool_iff in E. exfalso. now apply K. }
  rewrite E. tauto.
Qed.

Section GTailRel.
  Variable R : output -> output -> Prop.
  Variables (sep sep' : list Q) (topn : option nat).
  Variables (passA passB : output -> bool) (massA massB : output -> Q).
  Hypothesis Rmass : forall a b, R a b -> o_mass b = o_mass a.
  Hypothesis Rpass : forall a b, R a b -> passB b = passA a.
  Hypothesis Rtop : forall a b, R a b -> massB b == massA a.
  Hypothesis Rclose : forall a b a' b', R a b -> R a' b' ->
    close sep' (o_pos b) (o_pos b') = close sep (o_pos a) (o_pos a').
  Hypothesis Hsep : forallb (Qltb 0) sep' = forallb (Qltb 0) sep.

  Lemma gsurvivors_rel : forall outs rows, Forall2 R outs rows -> NoCloseTie sep outs ->
    Forall2 R (filter passA (dedupe_out sep outs)) (filter passB (dedupe_out sep' rows)).
  Proof.
    intros. apply Forall2_filter; [|exact Rpass].
    apply (dedupe_rel R sep sep' Rmass Rclose Hsep); assumption.
  Qed.

  Lemma gtail_rel : forall outs rows, Forall2 R outs rows -> NoCloseTie sep outs ->
    Forall2 R (gtail passA massA sep topn outs) (gtail passB massB sep' topn rows).
  Proof.
    intros outs rows H Hnt. unfold gtail.
    apply (g_topn_rel output output massA massB R Rtop). apply gsurvivors_rel; assumption.
  Qed.

  Lemma distinct_rel : forall l l', Forall2 R l l' -> Distinct output massA l -> Distinct output massB l'.
  Proof.
    intros l l' H. unfold Distinct. apply (fop_Forall2 R _ _ l l' H).
    intros a b a' b' Ha Hb K E. apply K. rewrite <- (Rtop _ _ Ha), <- (Rtop _ _ Hb). exact E.
  Qed.

  Lemma no_tie_g_rel : forall outs rows, Forall2 R outs rows ->
    no_tie_g passA massA sep topn outs = true -> no_tie_g passB massB sep' topn rows = true.
  Proof.
    intros outs rows H Hn. apply no_tie_g_iff in Hn. destruct Hn as [H1 H2]. apply no_tie_g_iff. split.
    - apply (NoCloseTie_rel R sep sep' Rmass Rclose outs rows H H1).
    - destruct topn; [|exact I]. eapply distinct_rel; [|exact H2]. apply gsurvivors_rel; assumption.
  Qed.
End GTailRel.

Theorem gtail_perm : forall pass mass sep topn outs outs', Permutation outs outs' ->
  no_tie_g pass mass sep topn outs = true ->
  Permutation (gtail pass mass sep topn outs) (gtail pass mass sep topn outs').
Proof.
  intros pass mass sep topn outs outs' P Hn. apply no_tie_g_iff in Hn. destruct Hn as [H1 H2]. unfold gtail.
  assert (PS : Permutation (filter pass (dedupe_out sep outs)) (filter pass (dedupe_out sep outs')))
    by (apply filter_perm, dedupe_perm; assumption).
  destruct topn as [n|]; [|exact PS].
  apply g_topn_perm; [exact PS|exact H2].
Qed.

(* refine's two tables correspond row by row (R) up to the row order; filter and topn column agree on related
   rows; without ties, so do the two final tables *)
Theorem gtail_equivariant : forall (R : output -> output -> Prop) sep sep' topn passA passB massA massB,
  (forall a b, R a b -> o_mass b = o_mass a) ->
  (forall a b, R a b -> passB b = passA a) ->
  (forall a b, R a b -> massB b == massA a) ->
  (forall a b a' b', R a b -> R a' b' -> close sep' (o_pos b) (o_pos b') = close sep (o_pos a) (o_pos a')) ->
  forallb (Qltb 0) sep' = forallb (Qltb 0) sep ->
  forall outs1 outs2 rows,
    no_tie_g passA massA sep topn outs1 = true -> Permutation outs2 rows -> Forall2 R outs1 rows ->
    exists rows', Permutation (gtail passB massB sep' topn outs2) rows' /\
                  Forall2 R (gtail passA massA sep topn outs1) rows'.
Proof.
  intros R sep sep' topn passA passB massA massB Rm Rp Rt Rc Hs outs1 outs2 rows Hn P H.
  exists (gtail passB massB sep' topn rows). split.
  - apply Permutation_sym. apply gtail_perm; [apply Permutation_sym, P|].
    apply (no_tie_g_rel R sep sep' topn passA passB massA massB Rm Rp Rt Rc Hs outs1 rows H Hn).
  - apply (gtail_rel R sep sep' topn passA passB massA massB Rm Rp Rt Rc Hs); [exact H|].
    apply no_tie_g_iff in Hn. apply Hn.
Qed.

(* tail_out is the instance scale factor 1, size^2 against maxsize^2 *)
Lemma tail_out_is_gtail : forall sep T outs, tail_out sep T outs = gtail (pass_out T) out_mass sep (t_topn T) outs.
Proof. reflexivity. Qed.

(* ------------------------------------------------ the instance of locate: two scale factors, one number *)
Section TailSf.
  Variable sqrtf : Q -> Q.

  Lemma fin_row_moved : forall d sf1 sf2 a b, sf1 == sf2 -> row_moved d a b ->
    pos_moved d (r_pos (fin_row sqrtf sf1 a)) (r_pos (fin_row sqrtf sf2 b)) /\
    r_mass (fin_row sqrtf sf2 b) == r_mass (fin_row sqrtf sf1 a) /\
    r_size (fin_row sqrtf sf2 b) = r_size (fin_row sqrtf sf1 a) /\
    r_raw (fin_row sqrtf sf2 b) = r_raw (fin_row sqrtf sf1 a).
  Proof.
    intros d sf1 sf2 a b Es [Hp [Hm Hc]]. unfold fin_row, scale, LocatePipe.row_of.
    cbn [r_pos r_mass r_size r_raw]. rewrite Hm, Hc. split; [exact Hp|]. split; [|split; reflexivity].
    rewrite Es. reflexivity.
  Qed.

  Lemma pass_sf_moved : forall d T sf1 sf2 a b, sf1 == sf2 -> row_moved d a b ->
    pass_sf sqrtf T sf2 b = pass_sf sqrtf T sf1 a.
  Proof.
    intros d T sf1 sf2 a b Es H. destruct (fin_row_moved d sf1 sf2 a b Es H) as (_ & Hm & Hs & _).
    unfold pass_sf, passes. rewrite Hs. f_equal. apply Qltb_comp; [reflexivity|exact Hm].
  Qed.

  (* THE TAIL STEP FOR TWO IMAGES: the rows may come from anywhere (raw_mass measured on a second image included) *)
  Theorem tail_sf_moved : forall d sep T sf1 sf2 outs1 outs2 rows,
    sf1 == sf2 ->
    no_tie_sf sqrtf sep T sf1 outs1 = true -> Permutation outs2 rows -> Forall2 (row_moved d) outs1 rows ->
    exists rows', Permutation (tail_sf sqrtf sep T sf2 outs2) rows' /\
                  Forall2 (row_moved d) (tail_sf sqrtf sep T sf1 outs1) rows'.
  Proof.
    intros d sep T sf1 sf2 outs1 outs2 rows Es Hn P H. unfold tail_sf.
    apply (gtail_equivariant (row_moved d) sep sep (t_topn T)) with (rows := rows); auto.
    - intros a b K. apply K.
    - intros a b K. apply (pass_sf_moved d T sf1 sf2 a b Es K).
    - intros a b K. apply (fin_row_moved d sf1 sf2 a b Es K).
    - intros a b a' b' [Hp _] [Hp' _]. eapply close_moved; eauto.
  Qed.
End TailSf.

(* =============================================================== (b) measure_noise on two placements *)
Local Open Scope Z_scope.

Lemma filter_partition_perm : forall {A} (f : A -> bool) (l : list A),
  Permutation l (filter f l ++ filter (fun x => negb (f x)) l).
Proof.
  intros A f l. induction l as [|a l IH]; cbn [filter]; [constructor|].
  destruct (f a); cbn [negb app].
  - constructor. exact IH.
  - apply Permutation_cons_app. exact IH.
Qed.

Lemma forallb_false_ex : forall {A} (f : A -> bool) (l : list A),
  forallb f l = false -> exists x, In x l /\ f x = false.
Proof.
  intros A f l. induction l as [|a l IH]; cbn [forallb]; [discriminate|].
  destruct (f a) eqn:E; cbn [andb].
  - intro H. destruct (IH H) as [x [Hx Fx]]. exists x. split; [right; exact Hx|exact Fx].
  - intros _. exists a. split; [left; reflexivity|exact E].
Qed.

Lemma filter_all_in : forall {A} (f : A -> bool) (l : list A), (forall x, In x l -> f x = true) -> filter f l = l.
Proof.
  intros A f l. induction l as [|a l IH]; intro H; cbn [filter]; [reflexivity|].
  rewrite (H a (or_introl eq_refl)). f_equal. apply IH. intros x Hx. apply H. right. exact Hx.
Qed.

Lemma map_all_zero : forall {A} (g : A -> Z) (l : list A), (forall x, In x l -> g x = 0) -> map g l = repeat 0 (length l).
Proof.
  intros A g l. induction l as [|a l IH]; intro H; cbn; [reflexivity|].
  rewrite (H a (or_introl eq_refl)). f_equal. apply IH. intros x Hx. apply H. right. exact Hx.
Qed.

Lemma flat_map_length_const : forall {A B} (f : A -> list B) (k : nat) (l : list A),
  (forall x, length (f x) = k) -> length (flat_map f l) = (length l * k)%nat.
Proof.
  intros A B f k l H. induction l as [|a l IH]; cbn; [reflexivity|]. rewrite app_length, H, IH. reflexivity.
Qed.

Lemma coords_length_2 : forall H W, 0 <= H -> 0 <= W -> length (coords [H; W]) = Z.to_nat (H * W).
Proof.
  intros H W H0 W0. unfold coords. cbn [map prod_ranges fst snd].
  rewrite (flat_map_length_const _ (Z.to_nat W)).
  - unfold zint. rewrite map_length, seq_length. rewrite Z2Nat.inj_mul by lia. f_equal. lia.
  - intros i. rewrite map_length. rewrite (flat_map_length_const _ 1%nat).
    + unfold zint. rewrite map_length, seq_length. lia.
    + intros j. reflexivity.
Qed.

Lemma nbhd_point : forall radius c x, In x (nbhd radius c) ->
  length x = length radius /\
  forall j, (j < length radius)%nat -> ix c j - ix radius j <= ix x j <= ix c j + ix radius j.
Proof.
  intros radius c x H. unfold nbhd in H. apply in_map_iff in H. destruct H as [m [<- Hm]].
  unfold mask_points in Hm. apply filter_In in Hm. destruct Hm as [Hb _].
  apply Proofs.COM.in_box in Hb. destruct Hb as [L B].
  split; [rewrite map_length, seq_length; reflexivity|].
  intros j Hj. rewrite Proofs.COM.ix_map_seq by exact Hj. specialize (B j Hj). lia.
Qed.

Lemma nbhd_vadd : forall radius c d, length c = length radius -> length d = length radius ->
  nbhd radius (vadd c d) = map (fun q => vadd q d) (nbhd radius c).
Proof.
  intros radius c d Hc Hd. unfold nbhd. rewrite map_map. apply map_ext. intros m.
  apply list_eq_ix.
  - rewrite vadd_length by (rewrite map_length, seq_length; lia). rewrite map_length, seq_length. lia.
  - intros k Hk. rewrite map_length, seq_length in Hk. rewrite Proofs.COM.ix_map_seq by exact Hk.
    rewrite !ix_vadd by (try rewrite map_length, seq_length; lia). rewrite Proofs.COM.ix_map_seq by exact Hk.
    lia.
Qed.

Lemma is_background_moved : forall d im1 im2 radius p,
  moved d im1 im2 -> length d = length radius -> length (shape im1) = length radius -> length p = length radius ->
  LocatePipe.is_background im2 radius (vadd p d) = LocatePipe.is_background im1 radius p.
Proof.
  intros d im1 im2 radius p [_ Hm] Hd Hs Hp. unfold LocatePipe.is_background. rewrite nbhd_vadd by assumption.
  assert (H : forall q, In q (nbhd radius p) -> length q = length radius)
    by (intros q Hq; apply (nbhd_point radius p q Hq)).
  induction (nbhd radius p) as [|q l IH]; [reflexivity|]. cbn [map forallb].
  rewrite Hm by (rewrite Hs; apply H; now left). f_equal. apply IH. intros q' Hq'. apply H. now right.
Qed.

Section Background.
  Variables (d radius : list Z) (im1 im2 raw1 raw2 : image).
  Let n := length radius.
  Hypothesis Hd : length d = n.
  Hypothesis Hs1 : length (shape im1) = n.
  Hypothesis Hm : moved d im1 im2.
  Hypothesis Hr : moved d raw1 raw2.
  Hypothesis Hrs : length (shape raw1) = n.
  Hypothesis Hroom : forall p, pix im1 p <> 0 -> room radius (shape im1) 0 p /\ room radius (shape im2) 0 (vadd p d).
  Hypothesis Hraw1 : forall p, pix raw1 p <> 0 -> in_bounds (shape im1) p.
  Hypothesis Hraw2 : forall p, pix raw2 p <> 0 -> in_bounds (shape im2) p.

  (* a pixel that is not (background with the raw value 0) *)
  Definition ntriv (im raw : image) (p : list Z) : bool :=
    negb (LocatePipe.is_background im radius p) || nzb (pix raw p).

  Lemma Hs2 : length (shape im2) = n.
  Proof. destruct Hm as [L _]. rewrite L. exact Hs1. Qed.

  Lemma ntriv_moved : forall p, length p = n -> ntriv im2 raw2 (vadd p d) = ntriv im1 raw1 p.
  Proof.
    intros p Hp. unfold ntriv. rewrite (is_background_moved d im1 im2 radius p Hm Hd Hs1 Hp).
    destruct Hr as [_ Hr']. rewrite Hr' by (rewrite Hrs; exact Hp). reflexivity.
  Qed.

  Lemma near_room_inb : forall sh p q, length sh = n -> length p = n -> In q (nbhd radius p) ->
    room radius sh 0 q -> in_bounds sh p.
  Proof.
    intros sh p q Ls Lp Hq R. apply Proofs.Equivariance3.in_bounds_ix. split; [lia|].
    intros k Hk. rewrite Ls in Hk. destruct (nbhd_point radius p q Hq) as [_ B]. specialize (B k Hk).
    specialize (R k Hk). lia.
  Qed.

  Lemma ntriv_inb : forall p, length p = n -> ntriv im1 raw1 p = true ->
    in_bounds (shape im1) p /\ in_bounds (shape im2) (vadd p d).
  Proof.
    intros p Hp H. unfold ntriv in H. apply orb_true_iff in H. destruct H as [H|H].
    - apply negb_true_iff in H. unfold LocatePipe.is_background in H.
      destruct (forallb_false_ex _ _ H) as [q [Hq Fq]]. apply Z.eqb_neq in Fq.
      destruct (Hroom q Fq) as [R1 R2]. split.
      + exact (near_room_inb (shape im1) p q Hs1 Hp Hq R1).
      + apply (near_room_inb (shape im2) (vadd p d) (vadd q d) Hs2).
        * rewrite vadd_length; lia.
        * rewrite nbhd_vadd by lia. apply (in_map (fun x => vadd x d)). exact Hq.
        * exact R2.
    - unfold nzb in H. apply negb_true_iff, Z.eqb_neq in H. split; [apply Hraw1, H|].
      apply Hraw2. destruct Hr as [_ Hr']. rewrite Hr' by (rewrite Hrs; exact Hp). exact H.
  Qed.

  Let A1 := filter (ntriv im1 raw1) (coords (shape im1)).
  Let A2 := filter (ntriv im2 raw2) (coords (shape im2)).

  Lemma A1_len : forall p, In p A1 -> length p = n.
  Proof.
    intros p Hp. apply filter_In in Hp. destruct Hp as [Hp _]. apply in_coords, in_bounds_length in Hp. lia.
  Qed.

  Lemma nontrivial_moved : Permutation (map (fun p => vadd p d) A1) A2.
  Proof.
    apply NoDup_Permutation.
    - apply NoDup_map_inj_in; [|apply NoDup_filter, nodup_coords].
      intros x y Hx Hy E. apply (vadd_inj x y d); [rewrite (A1_len x Hx); lia|rewrite (A1_len y Hy); lia|exact E].
    - apply NoDup_filter, nodup_coords.
    - intros x. split.
      + intro Hx. apply in_map_iff in Hx. destruct Hx as [p [<- Hp]]. pose proof (A1_len p Hp) as Lp.
        apply filter_In in Hp. destruct Hp as [_ Hn]. apply filter_In. split.
        * apply in_coords. apply (ntriv_inb p Lp Hn).
        * rewrite ntriv_moved by exact Lp. exact Hn.
      + intro Hx. apply filter_In in Hx. destruct Hx as [Hc Hn]. apply in_coords in Hc.
        pose proof (in_bounds_length _ _ Hc) as Lx. rewrite Hs2 in Lx.
        assert (Lp : length (vsub x d) = n) by (rewrite vsub_length; lia).
        assert (E : vadd (vsub x d) d = x) by (apply vadd_vsub; lia).
        apply in_map_iff. exists (vsub x d). split; [exact E|].
        assert (Hn1 : ntriv im1 raw1 (vsub x d) = true) by (rewrite <- (ntriv_moved _ Lp), E; exact Hn).
        apply filter_In. split; [|exact Hn1]. apply in_coords. apply (ntriv_inb _ Lp Hn1).
  Qed.

  (* the background values of one image: those of the non-trivial pixels, and one 0 for every other pixel *)
  Lemma background_split : forall im raw,
    Permutation (map (pix raw) (LocatePipe.background im radius))
                (map (pix raw) (filter (LocatePipe.is_background im radius) (filter (ntriv im raw) (coords (shape im)))) ++
                 repeat 0 (length (coords (shape im)) - length (filter (ntriv im raw) (coords (shape im))))).
  Proof.
    intros im raw. unfold LocatePipe.background.
    set (C := coords (shape im)). set (A := filter (ntriv im raw) C).
    set (B := filter (fun x => negb (ntriv im raw x)) C).
    assert (PC : Permutation C (A ++ B)) by apply filter_partition_perm.
    assert (LB : length B = (length C - length A)%nat).
    { apply Permutation_length in PC. rewrite app_length in PC. lia. }
    eapply Permutation_trans; [apply Permutation_map, filter_perm, PC|].
    rewrite filter_app, map_app. apply Permutation_app_head.
    assert (HB : forall x, In x B -> LocatePipe.is_background im radius x = true /\ pix raw x = 0).
    { intros x Hx. apply filter_In in Hx. destruct Hx as [_ Hx]. apply negb_true_iff in Hx. unfold ntriv in Hx.
      apply orb_false_iff in Hx. destruct Hx as [H1 H2]. apply negb_false_iff in H1. split; [exact H1|].
      unfold nzb in H2. apply negb_false_iff, Z.eqb_eq in H2. exact H2. }
    rewrite (filter_all_in _ B) by (intros x Hx; apply (HB x Hx)).
    rewrite (map_all_zero (pix raw) B) by (intros x Hx; apply (HB x Hx)). rewrite LB. apply Permutation_refl.
  Qed.

  (* the background values of the two placements: the same multiset when the canvases have the same number of pixels *)
  Theorem background_values_moved :
    length (coords (shape im1)) = length (coords (shape im2)) ->
    Permutation (map (pix raw1) (LocatePipe.background im1 radius)) (map (pix raw2) (LocatePipe.background im2 radius)).
  Proof.
    intro HL.
    eapply Permutation_trans; [apply (background_split im1 raw1)|].
    eapply Permutation_trans; [|apply Permutation_sym, (background_split im2 raw2)].
    fold A1 A2. pose proof nontrivial_moved as PA.
    assert (LA : length A1 = length A2) by (apply Permutation_length in PA; rewrite map_length in PA; exact PA).
    rewrite HL, LA. apply Permutation_app_tail.
    eapply Permutation_trans;
      [|apply Permutation_map, (filter_perm (LocatePipe.is_background im2 radius) _ _ PA)].
    rewrite filter_map_comm, map_map.
    rewrite (filter_ext_in (fun x => LocatePipe.is_background im2 radius (vadd x d)) (LocatePipe.is_background im1 radius)).
    - rewrite (map_ext_in (fun x => pix raw2 (vadd x d)) (pix raw1)); [apply Permutation_refl|].
      intros p Hp. apply filter_In in Hp. destruct Hp as [Hp _]. destruct Hr as [_ Hr']. apply Hr'.
      rewrite Hrs. apply A1_len, Hp.
    - intros p Hp. apply (is_background_moved d im1 im2 radius p Hm Hd Hs1). apply A1_len, Hp.
  Qed.
End Background.

(* ---------------------------------------------------------------- mean and standard deviation of a multiset *)
Definition oqeq (a b : option Q) : Prop :=
  match a, b with Some x, Some y => (x == y)%Q | None, None => True | _, _ => False end.

(* LocatePipe.measure_noise as a function of the list of background values *)
Definition mn_vals (sqrtf : Q -> Q) (vs : list Z) : option Q * option Q :=
  match vs with
  | [] => (None, None)
  | [v] => (Some (inject_Z v), None)
  | _ => let n := Z.of_nat (length vs) in
         let mean := qdiv (zsum vs) n in
         (Some mean, Some (sqrtf (LocatePipe.qsumsq mean vs / inject_Z n)%Q))
  end.

Lemma measure_noise_vals : forall sqrtf im raw radius,
  LocatePipe.measure_noise sqrtf im raw radius = mn_vals sqrtf (map (pix raw) (LocatePipe.background im radius)).
Proof. reflexivity. Qed.

Lemma qsumsq_perm : forall mean l l', Permutation l l' -> (LocatePipe.qsumsq mean l == LocatePipe.qsumsq mean l')%Q.
Proof.
  intros mean l l' P. unfold LocatePipe.qsumsq. induction P; cbn [map fold_right].
  - reflexivity.
  - rewrite IHP. reflexivity.
  - ring.
  - rewrite IHP1. exact IHP2.
Qed.

Lemma mn_vals_perm : forall sqrtf, (forall a b, (a == b)%Q -> (sqrtf a == sqrtf b)%Q) ->
  forall vs vs', Permutation vs vs' ->
  fst (mn_vals sqrtf vs) = fst (mn_vals sqrtf vs') /\ oqeq (snd (mn_vals sqrtf vs)) (snd (mn_vals sqrtf vs')).
Proof.
  intros sqrtf Hs vs vs' P.
  pose proof (Permutation_length P) as L.
  destruct vs as [|v [|w t]]; destruct vs' as [|v' [|w' t']]; cbn [length] in L; try discriminate L.
  - split; [reflexivity|exact I].
  - apply Permutation_length_1 in P. subst v'. split; [reflexivity|exact I].
  - set (l := v :: w :: t) in *. set (l' := v' :: w' :: t') in *.
    change (mn_vals sqrtf l) with (Some (qdiv (zsum l) (Z.of_nat (length l))),
                                   Some (sqrtf (LocatePipe.qsumsq (qdiv (zsum l) (Z.of_nat (length l))) l /
                                                inject_Z (Z.of_nat (length l)))%Q)).
    change (mn_vals sqrtf l') with (Some (qdiv (zsum l') (Z.of_nat (length l'))),
                                    Some (sqrtf (LocatePipe.qsumsq (qdiv (zsum l') (Z.of_nat (length l'))) l' /
                                                 inject_Z (Z.of_nat (length l')))%Q)).
    cbn [fst snd oqeq]. rewrite <- (Permutation_length P), <- (Proofs.Equivariance2.zsum_perm l l' P).
    split; [reflexivity|]. apply Hs. rewrite (qsumsq_perm _ l l' P). reflexivity.
Qed.

(* ---------------------------------------------------------------- the static error of one row *)
Lemma fval_eq_refl : forall v, fval_eq v v.
Proof. destruct v; cbn; try exact I. reflexivity. Qed.

Lemma nan_if_negative_compat : forall a b, fval_eq a b -> fval_eq (nan_if_negative a) (nan_if_negative b).
Proof.
  intros [| | |x] [| | |y] H; cbn in H; try contradiction; cbn [nan_if_negative]; try exact I.
  rewrite (Qltb_comp x 0 y 0 H (Qeq_refl 0)). destruct (Qltb y 0); [exact I|exact H].
Qed.

Lemma ep_raw_compat : forall n1 n2 bl npx c raw, oqeq n1 n2 ->
  fval_eq (ep_raw n1 bl npx c raw) (ep_raw n2 bl npx c raw).
Proof.
  intros [x|] [y|] bl npx c raw H; cbn in H; try contradiction; [|exact I].
  unfold ep_raw. destruct bl as [b|]; [|exact I]. cbv zeta.
  assert (E : (x * c == y * c)%Q) by (rewrite H; reflexivity).
  destruct (Qeq_bool (raw - npx * b) 0).
  - rewrite (Qltb_comp 0 (x * c) 0 (y * c) (Qeq_refl 0) E), (Qltb_comp (x * c) 0 (y * c) 0 E (Qeq_refl 0)).
    destruct (Qltb 0 (y * c)); [exact I|]. destruct (Qltb (y * c) 0); exact I.
  - cbn. rewrite H. reflexivity.
Qed.

Lemma ep_row_compat : forall n1 n2 bl npx cs r1 r2, oqeq n1 n2 -> r_raw r1 = r_raw r2 ->
  Forall2 fval_eq (ep_row n1 bl npx cs r1) (ep_row n2 bl npx cs r2).
Proof.
  intros n1 n2 bl npx cs r1 r2 H E. unfold ep_row. rewrite E.
  induction cs as [|c cs IH]; cbn [map]; constructor; [|exact IH].
  unfold ep_one. apply nan_if_negative_compat, ep_raw_compat, H.
Qed.

Lemma ep_of_compat : forall sqrtf radius ns ch im1 raw1 im2 raw2 r1 r2,
  (ch = true -> fst (LocatePipe.measure_noise sqrtf im1 raw1 radius) = fst (LocatePipe.measure_noise sqrtf im2 raw2 radius) /\
                oqeq (snd (LocatePipe.measure_noise sqrtf im1 raw1 radius)) (snd (LocatePipe.measure_noise sqrtf im2 raw2 radius))) ->
  r_raw r1 = r_raw r2 ->
  Forall2 fval_eq (ep_of sqrtf radius ns ch im1 raw1 r1) (ep_of sqrtf radius ns ch im2 raw2 r2).
Proof.
  intros sqrtf radius ns ch im1 raw1 im2 raw2 r1 r2 H E. unfold ep_of. destruct ch.
  - destruct (H eq_refl) as [Hb Hn]. rewrite Hb. apply ep_row_compat; assumption.
  - cbn. constructor.
Qed.

Lemma room_weaken : forall radius sh k c, room radius sh k c -> room radius sh 0 c.
Proof. intros radius sh k c R j Hj. specialize (R j Hj). lia. Qed.

Lemma Forall2_map2 : forall {A B C D} (R : C -> D -> Prop) (f : A -> C) (g : B -> D) l l',
  Forall2 (fun a b => R (f a) (g b)) l l' -> Forall2 R (map f l) (map g l').
Proof. intros. induction H; cbn; constructor; assumption. Qed.

(* =============================================================== (c) the whole locate with preprocess=True *)
From TP Require Model.Bandpass Model.BandpassShift Proofs.BandpassShift Gen.preproc.
From TP Require Import Model.PyTail Model.PyLocatehead Model.PreprocessMoved Proofs.PreprocessMoved Proofs.PreprocessMoved2.

(* what Proofs/PreprocessMoved.preprocess_moved (threshold >= 0) and Proofs/PreprocessMoved2.preprocess_moved2 (any threshold, a
   pixel outside the grown content box in each canvas) establish about the two runs of preprocess_stage *)
Definition stage_moved_ok (np_exp : Q -> Q) (dt : int_dtype) (content : image) (h w H1 W1 oy1 ox1 H2 W2 oy2 ox2 : Z)
           (ny nx : Q) (sy sx : Z) (thr : Q) : Prop :=
  let ry := stage_reach np_exp ny sy in
  let rx := stage_reach np_exp nx sx in
  let csh' := [h + 2 * ry; w + 2 * rx] in
  let d := vsub [oy2; ox2] [oy1; ox1] in
  exists sf1 sf2 im1 im2,
    preprocess_stage np_exp dt (embed [H1; W1] [oy1; ox1] content) [ny; nx] [sy; sx] thr = ROk (sf1, ImZ dt im1) /\
    preprocess_stage np_exp dt (embed [H2; W2] [oy2; ox2] content) [ny; nx] [sy; sx] thr = ROk (sf2, ImZ dt im2) /\
    (sf1 == sf2)%Q /\ shape im1 = [H1; W1] /\ shape im2 = [H2; W2] /\
    moved d im1 im2 /\
    (forall p, 0 <= pix im1 p) /\ (forall p, 0 <= pix im2 p) /\
    (forall mg, fitsb [H1; W1] [oy1 - ry; ox1 - rx] csh' mg = true -> content_inside mg im1) /\
    (forall mg, fitsb [H2; W2] [oy2 - ry; ox2 - rx] csh' mg = true -> content_inside mg im2) /\
    (forall P, let m := map (fun r => r + Z.of_nat (pred (iters_of (lp_maxit P)))) (lp_radius P) in
               fitsb [H1; W1] [oy1 - ry; ox1 - rx] csh' m = true -> fitsb [H2; W2] [oy2 - ry; ox2 - rx] csh' m = true ->
               content_has_room P d im1 im2).

Section PreWhole.
  Variable sqrtf : Q -> Q.
  Variable percentile : list Z -> Q.
  Hypothesis Hperm : forall l l', Permutation l l' -> percentile l = percentile l'.
  Hypothesis Hnn : forall l, (forall v, In v l -> 0 <= v) -> (0 <= percentile l)%Q.

  Theorem locate_pre_whole_moved_core :
    forall np_exp dt content h w H1 W1 oy1 ox1 H2 W2 oy2 ox2 (P : Equivariance.lparams) (T : tparams) ny nx sy sx thr,
    let Tr := Gen.preproc.py_bandpass_default_truncate in
    let py := stage_par np_exp ny sy in
    let px := stage_par np_exp nx sx in
    let ry := stage_reach np_exp ny sy in
    let rx := stage_reach np_exp nx sx in
    let csh' := [h + 2 * ry; w + 2 * rx] in
    let d := vsub [oy2; ox2] [oy1; ox1] in
    let m := map (fun r => r + Z.of_nat (pred (iters_of (lp_maxit P)))) (lp_radius P) in
    let raw1 := embed [H1; W1] [oy1; ox1] content in
    let raw2 := embed [H2; W2] [oy2; ox2] content in
    shape content = [h; w] -> (forall c, pix content c <> 0 -> in_bounds (shape content) c) ->
    1 <= h -> 1 <= w -> 1 <= sy -> 1 <= sx ->
    stage_moved_ok np_exp dt content h w H1 W1 oy1 ox1 H2 W2 oy2 ox2 ny nx sy sx thr ->
    length (lp_sep P) = 2%nat -> length (lp_margin P) = 2%nat -> length (lp_radius P) = 2%nat ->
    Forall (fun s => 1 <= s) (map (box_size 2) (lp_sep P)) ->
    BandpassShift.paddedb [H1; W1] [oy1; ox1] [h; w] [BandpassShift.ghw_of Tr py; BandpassShift.ghw_of Tr px]
                          [BandpassShift.bhw_of py; BandpassShift.bhw_of px] = true ->
    BandpassShift.paddedb [H2; W2] [oy2; ox2] [h; w] [BandpassShift.ghw_of Tr py; BandpassShift.ghw_of Tr px]
                          [BandpassShift.bhw_of py; BandpassShift.bhw_of px] = true ->
    fitsb [H1; W1] [oy1 - ry; ox1 - rx] csh' (lp_margin P) = true ->
    fitsb [H2; W2] [oy2 - ry; ox2 - rx] csh' (lp_margin P) = true ->
    fitsb [H1; W1] [oy1 - ry; ox1 - rx] csh' m = true -> fitsb [H2; W2] [oy2 - ry; ox2 - rx] csh' m = true ->
    (forall sf im, preprocess_stage np_exp dt raw1 [ny; nx] [sy; sx] thr = ROk (sf, ImZ dt im) ->
                   no_tie_sf sqrtf (lp_sep P) T sf (refine_rows2 percentile P raw1 im) = true) ->
    exists sf1 sf2 t1 t2 rows,
      locate_pre_whole sqrtf percentile np_exp dt P T [ny; nx] [sy; sx] thr raw1 = ROk (sf1, t1) /\
      locate_pre_whole sqrtf percentile np_exp dt P T [ny; nx] [sy; sx] thr raw2 = ROk (sf2, t2) /\
      (sf1 == sf2)%Q /\
      Permutation t2 rows /\ Forall2 (wline_moved d) t1 rows /\
      (H1 * W1 = H2 * W2 -> (forall a b, (a == b)%Q -> (sqrtf a == sqrtf b)%Q) ->
       Forall2 (wline_moved_ep d) t1 rows).
  Proof.
    intros np_exp dt content h w H1 W1 oy1 ox1 H2 W2 oy2 ox2 P T ny nx sy sx thr Tr py px ry rx csh' d m raw1 raw2
           S Hwf Hh Hw Sy1 Sx1 Hstage Lsep Lm Lr Hsz D1 D2 F1 F2 G1 G2 Hnt.
    destruct Hstage as (sf1 & sf2 & im1 & im2 & E1 & E2 & Es & Sh1 & Sh2 & Hm & N1 & N2 & CI1 & CI2 & HR).
    fold ry rx in CI1, CI2, HR. fold d in Hm, HR. fold raw1 in E1. fold raw2 in E2.
    assert (L1 : length (shape im1) = 2%nat) by (rewrite Sh1; reflexivity).
    assert (L2 : length (shape im2) = 2%nat) by (rewrite Sh2; reflexivity).
    assert (Hsz1 : Forall (fun s => 1 <= s) (sizes_of im1 (lp_sep P))) by (unfold sizes_of; rewrite L1; exact Hsz).
    (* sizes of the canvases *)
    pose proof (Proofs.BandpassShift.reach_of_bounds Tr py Sy1) as RBy.
    pose proof (Proofs.BandpassShift.reach_of_bounds Tr px Sx1) as RBx.
    pose proof (padded2_unpackZ _ _ _ _ _ _ _ _ _ _ D1) as U1. pose proof (padded2_unpackZ _ _ _ _ _ _ _ _ _ _ D2) as U2.
    assert (B1 : fitsb [H1; W1] [oy1; ox1] [h; w] [0; 0] = true).
    { unfold BandpassShift.reach_of in *. cbn [fitsb]. rewrite !andb_true_iff, !Z.leb_le. lia. }
    assert (B2 : fitsb [H2; W2] [oy2; ox2] [h; w] [0; 0] = true).
    { unfold BandpassShift.reach_of in *. cbn [fitsb]. rewrite !andb_true_iff, !Z.leb_le. lia. }
    assert (Hrm : moved d raw1 raw2).
    { unfold d, raw1, raw2. apply embed_moved; try reflexivity. intros c _ Hc. apply Hwf in Hc. rewrite S in Hc.
      destruct (fitsb_spec _ _ _ _ c B1 Hc) as [X _]. destruct (fitsb_spec _ _ _ _ c B2 Hc) as [Y _]. split; assumption. }
    assert (Ldd : length d = length (shape im1)) by (rewrite L1; reflexivity).
    assert (Lraw : length (shape raw1) = length (shape im1)) by (rewrite L1; reflexivity).
    assert (Lsp : length (lp_sep P) = length (shape im1)) by (rewrite L1; exact Lsep).
    assert (Lmp : length (lp_margin P) = length (shape im1)) by (rewrite L1; exact Lm).
    assert (Lrp : length (lp_radius P) = length (shape im1)) by (rewrite L1; exact Lr).
    pose proof (CI1 _ F1) as In1. pose proof (CI2 _ F2) as In2. pose proof (HR P G1 G2) as Room.
    destruct (pre_rows_moved (fun l _ => percentile l) 0%Q Hperm Hnn d P raw1 raw2 im1 im2 Hm Hrm Lraw Ldd Lsp Lmp Lrp
                Hsz1 N1 In1 In2 Room) as (rows0 & Pr & Fr).
    change (pre_rows (fun l _ => percentile l) 0%Q P raw2 im2) with (refine_rows2 percentile P raw2 im2) in Pr.
    change (pre_rows (fun l _ => percentile l) 0%Q P raw1 im1) with (refine_rows2 percentile P raw1 im1) in Fr.
    destruct (tail_sf_moved sqrtf d (lp_sep P) T sf1 sf2 _ _ rows0 Es (Hnt sf1 im1 E1) Pr Fr) as (rows' & Pt & Ft).
    set (F1' := fun o => (o, fin_row sqrtf sf1 o,
                          ep_of sqrtf (lp_radius P) [ny; nx] (lp_char P) im1 raw1 (fin_row sqrtf sf1 o))).
    set (F2' := fun o => (o, fin_row sqrtf sf2 o,
                          ep_of sqrtf (lp_radius P) [ny; nx] (lp_char P) im2 raw2 (fin_row sqrtf sf2 o))).
    exists sf1, sf2, (map F1' (tail_sf sqrtf (lp_sep P) T sf1 (refine_rows2 percentile P raw1 im1))),
           (map F2' (tail_sf sqrtf (lp_sep P) T sf2 (refine_rows2 percentile P raw2 im2))), (map F2' rows').
    split; [unfold locate_pre_whole; rewrite E1; reflexivity|].
    split; [unfold locate_pre_whole; rewrite E2; reflexivity|].
    split; [exact Es|]. split; [apply Permutation_map, Pt|].
    assert (Wm : Forall2 (fun a b => wline_moved d (F1' a) (F2' b))
                         (tail_sf sqrtf (lp_sep P) T sf1 (refine_rows2 percentile P raw1 im1)) rows').
    { eapply Forall2_impl; [|exact Ft]. intros a b K. unfold wline_moved, F1', F2'. split; [exact K|].
      apply (fin_row_moved sqrtf d sf1 sf2 a b Es K). }
    split; [apply Forall2_map2, Wm|].
    intros HW Hsq. apply Forall2_map2.
    assert (HN : lp_char P = true ->
                 fst (LocatePipe.measure_noise sqrtf im1 raw1 (lp_radius P)) = fst (LocatePipe.measure_noise sqrtf im2 raw2 (lp_radius P)) /\
                 oqeq (snd (LocatePipe.measure_noise sqrtf im1 raw1 (lp_radius P)))
                      (snd (LocatePipe.measure_noise sqrtf im2 raw2 (lp_radius P)))).
    { intros _. rewrite !measure_noise_vals. apply mn_vals_perm; [exact Hsq|].
      apply (background_values_moved d (lp_radius P) im1 im2 raw1 raw2).
      - rewrite Lr. reflexivity.
      - rewrite Lr. exact L1.
      - exact Hm.
      - exact Hrm.
      - rewrite Lr. reflexivity.
      - intros p Hp. destruct (Room p Hp) as [R1 R2]. split; eapply room_weaken; eassumption.
      - intros p Hp. unfold raw1 in Hp. rewrite pix_embed in Hp. rewrite Sh1.
        destruct (inb [H1; W1] p) eqn:E; [apply inb_iff, E|congruence].
      - intros p Hp. unfold raw2 in Hp. rewrite pix_embed in Hp. rewrite Sh2.
        destruct (inb [H2; W2] p) eqn:E; [apply inb_iff, E|congruence].
      - rewrite Sh1, Sh2. unfold BandpassShift.reach_of in *. rewrite !coords_length_2 by lia. f_equal. exact HW. }
    eapply Forall2_impl; [|exact Wm]. intros a b K. split; [exact K|]. unfold F1', F2'. cbn [snd].
    apply ep_of_compat; [exact HN|]. unfold wline_moved, F1', F2' in K. symmetry. apply K.
  Qed.

  Theorem locate_pre_whole_moved :
    forall np_exp dt content h w H1 W1 oy1 ox1 H2 W2 oy2 ox2 (P : Equivariance.lparams) (T : tparams) ny nx sy sx thr,
    let Tr := Gen.preproc.py_bandpass_default_truncate in
    let py := stage_par np_exp ny sy in
    let px := stage_par np_exp nx sx in
    let ry := stage_reach np_exp ny sy in
    let rx := stage_reach np_exp nx sx in
    let csh' := [h + 2 * ry; w + 2 * rx] in
    let d := vsub [oy2; ox2] [oy1; ox1] in
    let m := map (fun r => r + Z.of_nat (pred (iters_of (lp_maxit P)))) (lp_radius P) in
    let raw1 := embed [H1; W1] [oy1; ox1] content in
    let raw2 := embed [H2; W2] [oy2; ox2] content in
    shape content = [h; w] -> (forall c, pix content c <> 0 -> in_bounds (shape content) c) ->
    1 <= h -> 1 <= w -> (0 <= thr)%Q -> 0 <= iinfo_max dt -> 1 <= sy -> 1 <= sx ->
    (ny < inject_Z sy)%Q -> (nx < inject_Z sx)%Q -> Z.odd sy = true -> Z.odd sx = true ->
    length (lp_sep P) = 2%nat -> length (lp_margin P) = 2%nat -> length (lp_radius P) = 2%nat ->
    Forall (fun s => 1 <= s) (map (box_size 2) (lp_sep P)) ->
    BandpassShift.paddedb [H1; W1] [oy1; ox1] [h; w] [BandpassShift.ghw_of Tr py; BandpassShift.ghw_of Tr px]
                          [BandpassShift.bhw_of py; BandpassShift.bhw_of px] = true ->
    BandpassShift.paddedb [H2; W2] [oy2; ox2] [h; w] [BandpassShift.ghw_of Tr py; BandpassShift.ghw_of Tr px]
                          [BandpassShift.bhw_of py; BandpassShift.bhw_of px] = true ->
    fitsb [H1; W1] [oy1 - ry; ox1 - rx] csh' (lp_margin P) = true ->
    fitsb [H2; W2] [oy2 - ry; ox2 - rx] csh' (lp_margin P) = true ->
    fitsb [H1; W1] [oy1 - ry; ox1 - rx] csh' m = true -> fitsb [H2; W2] [oy2 - ry; ox2 - rx] csh' m = true ->
    (forall sf im, preprocess_stage np_exp dt raw1 [ny; nx] [sy; sx] thr = ROk (sf, ImZ dt im) ->
                   no_tie_sf sqrtf (lp_sep P) T sf (refine_rows2 percentile P raw1 im) = true) ->
    exists sf1 sf2 t1 t2 rows,
      locate_pre_whole sqrtf percentile np_exp dt P T [ny; nx] [sy; sx] thr raw1 = ROk (sf1, t1) /\
      locate_pre_whole sqrtf percentile np_exp dt P T [ny; nx] [sy; sx] thr raw2 = ROk (sf2, t2) /\
      (sf1 == sf2)%Q /\
      Permutation t2 rows /\ Forall2 (wline_moved d) t1 rows /\
      (H1 * W1 = H2 * W2 -> (forall a b, (a == b)%Q -> (sqrtf a == sqrtf b)%Q) ->
       Forall2 (wline_moved_ep d) t1 rows).
  Proof.
    intros np_exp dt content h w H1 W1 oy1 ox1 H2 W2 oy2 ox2 P T ny nx sy sx thr Tr py px ry rx csh' d m raw1 raw2
           S Hwf Hh Hw Hthr Hdt Sy1 Sx1 Gy Gx Oy Ox Lsep Lm Lr Hsz D1 D2 F1 F2 G1 G2 Hnt.
    apply (locate_pre_whole_moved_core np_exp dt content h w H1 W1 oy1 ox1 H2 W2 oy2 ox2 P T ny nx sy sx thr); try assumption.
    unfold stage_moved_ok. apply preprocess_moved; assumption.
  Qed.

  (* any threshold: each canvas has a pixel outside the grown content box *)
  Theorem locate_pre_whole_moved2 :
    forall np_exp dt content h w H1 W1 oy1 ox1 H2 W2 oy2 ox2 (P : Equivariance.lparams) (T : tparams) ny nx sy sx thr,
    let Tr := Gen.preproc.py_bandpass_default_truncate in
    let py := stage_par np_exp ny sy in
    let px := stage_par np_exp nx sx in
    let ry := stage_reach np_exp ny sy in
    let rx := stage_reach np_exp nx sx in
    let csh' := [h + 2 * ry; w + 2 * rx] in
    let d := vsub [oy2; ox2] [oy1; ox1] in
    let m := map (fun r => r + Z.of_nat (pred (iters_of (lp_maxit P)))) (lp_radius P) in
    let raw1 := embed [H1; W1] [oy1; ox1] content in
    let raw2 := embed [H2; W2] [oy2; ox2] content in
    shape content = [h; w] -> (forall c, pix content c <> 0 -> in_bounds (shape content) c) ->
    1 <= h -> 1 <= w -> 0 <= iinfo_max dt -> 1 <= sy -> 1 <= sx ->
    (ny < inject_Z sy)%Q -> (nx < inject_Z sx)%Q -> Z.odd sy = true -> Z.odd sx = true ->
    length (lp_sep P) = 2%nat -> length (lp_margin P) = 2%nat -> length (lp_radius P) = 2%nat ->
    Forall (fun s => 1 <= s) (map (box_size 2) (lp_sep P)) ->
    BandpassShift.paddedb [H1; W1] [oy1; ox1] [h; w] [BandpassShift.ghw_of Tr py; BandpassShift.ghw_of Tr px]
                          [BandpassShift.bhw_of py; BandpassShift.bhw_of px] = true ->
    BandpassShift.paddedb [H2; W2] [oy2; ox2] [h; w] [BandpassShift.ghw_of Tr py; BandpassShift.ghw_of Tr px]
                          [BandpassShift.bhw_of py; BandpassShift.bhw_of px] = true ->
    h + 2 * ry < H1 \/ w + 2 * rx < W1 -> h + 2 * ry < H2 \/ w + 2 * rx < W2 ->
    fitsb [H1; W1] [oy1 - ry; ox1 - rx] csh' (lp_margin P) = true ->
    fitsb [H2; W2] [oy2 - ry; ox2 - rx] csh' (lp_margin P) = true ->
    fitsb [H1; W1] [oy1 - ry; ox1 - rx] csh' m = true -> fitsb [H2; W2] [oy2 - ry; ox2 - rx] csh' m = true ->
    (forall sf im, preprocess_stage np_exp dt raw1 [ny; nx] [sy; sx] thr = ROk (sf, ImZ dt im) ->
                   no_tie_sf sqrtf (lp_sep P) T sf (refine_rows2 percentile P raw1 im) = true) ->
    exists sf1 sf2 t1 t2 rows,
      locate_pre_whole sqrtf percentile np_exp dt P T [ny; nx] [sy; sx] thr raw1 = ROk (sf1, t1) /\
      locate_pre_whole sqrtf percentile np_exp dt P T [ny; nx] [sy; sx] thr raw2 = ROk (sf2, t2) /\
      (sf1 == sf2)%Q /\
      Permutation t2 rows /\ Forall2 (wline_moved d) t1 rows /\
      (H1 * W1 = H2 * W2 -> (forall a b, (a == b)%Q -> (sqrtf a == sqrtf b)%Q) ->
       Forall2 (wline_moved_ep d) t1 rows).
  Proof.
    intros np_exp dt content h w H1 W1 oy1 ox1 H2 W2 oy2 ox2 P T ny nx sy sx thr Tr py px ry rx csh' d m raw1 raw2
           S Hwf Hh Hw Hdt Sy1 Sx1 Gy Gx Oy Ox Lsep Lm Lr Hsz D1 D2 K1 K2 F1 F2 G1 G2 Hnt.
    apply (locate_pre_whole_moved_core np_exp dt content h w H1 W1 oy1 ox1 H2 W2 oy2 ox2 P T ny nx sy sx thr); try assumption.
    unfold stage_moved_ok. apply preprocess_moved2; assumption.
  Qed.
End PreWhole.
