(* Proofs about Model/StaticPairCorr.v: the histogram loop computes, per bin, the
   sum over all ordered particle pairs whose distance falls in the bin of
   1/arc, normalised by density * N * dr; g(r) is invariant under permutation
   of the particles and under translation of particles and box. *)
From Coq Require Import QArith Qabs Qround List Bool Arith NArith ZArith Lia Permutation.
From TP Require Import Model.StaticPairCorr.
Import ListNotations.
Open Scope Q_scope.

(* ------------------------------------------------------------------ *)
(* generic list lemmas                                                 *)
(* ------------------------------------------------------------------ *)
Lemma filter_map_comm {A B} (f : A -> B) (P : B -> bool) l :
  filter P (map f l) = map f (filter (fun x => P (f x)) l).
Proof. induction l; simpl; auto. destruct (P (f a)); simpl; congruence. Qed.

Lemma filter_filter_and {A} (P R : A -> bool) l :
  filter P (filter R l) = filter (fun x => R x && P x) l.
Proof.
  induction l; simpl; auto. destruct (R a); simpl; auto. destruct (P a); simpl; congruence.
Qed.

Lemma flat_map_as_prod {A B} (g : A -> A -> B) (r : A -> A -> bool) (l' : list A) : forall l,
  flat_map (fun p => map (g p) (filter (r p) l')) l
  = map (fun pq => g (fst pq) (snd pq)) (filter (fun pq => r (fst pq) (snd pq)) (list_prod l l')).
Proof.
  induction l; simpl; auto. rewrite filter_app, map_app, IHl. f_equal.
  rewrite filter_map_comm, map_map. simpl. reflexivity.
Qed.

Lemma upd_length {A} k (f : A -> A) l : length (upd k f l) = length l.
Proof. revert k; induction l; intros [|k]; simpl; auto. Qed.

Lemma upd_nth {A} k j (f : A -> A) l d : (j < length l)%nat ->
  nth j (upd k f l) d = if (k =? j)%nat then f (nth j l d) else nth j l d.
Proof.
  revert k j; induction l; intros [|k] [|j] L; simpl in *; try lia; auto.
  apply IHl. lia.
Qed.

(* ------------------------------------------------------------------ *)
(* bin index = the bin whose half-open interval contains the value     *)
(* ------------------------------------------------------------------ *)
Lemma count_downclosed (P : nat -> bool) :
  (forall k k', (k' <= k)%nat -> P k = true -> P k' = true) ->
  forall m, let c := length (filter P (seq 0 m)) in
    (c <= m)%nat /\ forall k, (k < m)%nat -> (P k = true <-> (k < c)%nat).
Proof.
  intros D. induction m as [|m IH]; cbv zeta in *.
  - simpl. split; [lia|]. intros; lia.
  - destruct IH as [IH1 IH2]. rewrite seq_S, filter_app, app_length. simpl.
    destruct (P m) eqn:E; simpl.
    + assert (length (filter P (seq 0 m)) = m).
      { destruct m as [|m']; auto.
        assert (P m' = true) by (apply (D (S m')); auto).
        apply IH2 in H; lia. }
      split; [lia|]. intros k L. split; intros; [lia|]. apply (D m); auto. lia.
    + split; [lia|]. intros k L. rewrite Nat.add_0_r.
      destruct (Nat.eq_dec k m) as [->|N].
      * rewrite E. split; [discriminate|lia].
      * apply IH2. lia.
Qed.

Definition inbin (f : nat -> Q) (k : nat) (v : Q) : bool :=
  Qle_bool (f k) v && Qltb v (f (S k)).

Lemma Qltb_lt a b : Qltb a b = true <-> a < b.
Proof.
  unfold Qltb. rewrite negb_true_iff. split.
  - intros H. apply Qnot_le_lt. intro L. apply Qle_bool_iff in L. congruence.
  - intros H. destruct (Qle_bool b a) eqn:E; auto. apply Qle_bool_iff in E.
    exfalso. eapply Qlt_not_le; eauto.
Qed.

Lemma bin_of_spec (f : nat -> Q) nb v k :
  (forall i j, (i < j)%nat -> f i < f j) -> v < f nb ->
  (bin_of (map f (seq 0 (S nb))) v = Some k <-> (k < nb)%nat /\ inbin f k v = true).
Proof.
  intros Mono Hv. unfold bin_of, count_le, inbin.
  rewrite filter_map_comm, !map_length, seq_length.
  set (P := fun x => Qle_bool (f x) v).
  assert (D : forall k k', (k' <= k)%nat -> P k = true -> P k' = true).
  { unfold P. intros a a' L H. apply Qle_bool_iff in H. apply Qle_bool_iff.
    destruct (Nat.eq_dec a' a) as [->|N]; auto.
    eapply Qle_trans; [apply Qlt_le_weak, (Mono a' a); lia|auto]. }
  destruct (count_downclosed P D (S nb)) as [C1 C2].
  set (c := length (filter P (seq 0 (S nb)))) in *.
  assert (Pnb : P nb = false).
  { unfold P. destruct (Qle_bool (f nb) v) eqn:E; auto. apply Qle_bool_iff in E.
    exfalso. eapply Qlt_not_le; eauto. }
  assert (Cnb : (c <= nb)%nat).
  { destruct (le_lt_dec c nb); auto. assert (X : P nb = true) by (apply C2; lia). congruence. }
  replace (S nb - 1)%nat with nb by lia.
  destruct (c =? 0)%nat eqn:E0.
  - apply Nat.eqb_eq in E0. split; [discriminate|].
    intros [L H]. apply andb_true_iff in H. destruct H as [H _].
    fold (P k) in H. apply C2 in H; lia.
  - apply Nat.eqb_neq in E0. destruct (c <=? nb)%nat eqn:E1; [|apply Nat.leb_gt in E1; lia].
    split.
    + intros H. inversion H; subst k. split; [lia|].
      apply andb_true_iff. split.
      * fold (P (c - 1)%nat). apply C2; lia.
      * replace (S (c - 1)) with c by lia. apply Qltb_lt. apply Qnot_le_lt. intro X.
        apply Qle_bool_iff in X. fold (P c) in X. apply C2 in X; lia.
    + intros [L H]. apply andb_true_iff in H. destruct H as [H1 H2].
      fold (P k) in H1. apply C2 in H1; [|lia].
      apply Qltb_lt in H2. f_equal.
      destruct (le_lt_dec c (S k)); [lia|].
      assert (X : P (S k) = true) by (apply C2; lia).
      unfold P in X. apply Qle_bool_iff in X. exfalso. eapply Qlt_not_le; eauto.
Qed.

(* ------------------------------------------------------------------ *)
(* the histogram loop = per-bin sums                                   *)
(* ------------------------------------------------------------------ *)
Definition goes_to (es : list Q) (k : nat) (vw : Q * option Q) : bool :=
  match bin_of es (fst vw) with Some j => (j =? k)%nat | None => false end.

Lemma hist_step_length es h vw : length (hist_step es h vw) = length h.
Proof. unfold hist_step. destruct (bin_of es (fst vw)); auto. apply upd_length. Qed.

Lemma fold_hist_length es vals : forall h, length (fold_left (hist_step es) vals h) = length h.
Proof. induction vals; simpl; intros; auto. rewrite IHvals. apply hist_step_length. Qed.

Lemma fold_hist_nth es vals : forall h k, (k < length h)%nat ->
  nth k (fold_left (hist_step es) vals h) (0%nat, 0)
  = fold_left addw (map snd (filter (goes_to es k) vals)) (nth k h (0%nat, 0)).
Proof.
  induction vals as [|vw vals IH]; simpl; intros h k L; auto.
  rewrite IH by (rewrite hist_step_length; auto).
  unfold goes_to at 2. unfold hist_step.
  destruct (bin_of es (fst vw)) as [j|]; auto.
  rewrite upd_nth by auto. destruct (j =? k)%nat; simpl; auto.
Qed.

Lemma hist_length es vals : length (hist es vals) = (length es - 1)%nat.
Proof. unfold hist. rewrite fold_hist_length. apply repeat_length. Qed.

Lemma hist_nth es vals k : (k < length es - 1)%nat ->
  nth k (hist es vals) (0%nat, 0)
  = fold_left addw (map snd (filter (goes_to es k) vals)) (0%nat, 0).
Proof.
  intros L. unfold hist. rewrite fold_hist_nth by (rewrite repeat_length; auto).
  f_equal. apply nth_repeat.
Qed.

(* ------------------------------------------------------------------ *)
(* edges                                                               *)
(* ------------------------------------------------------------------ *)
Definition edge2 (dr : Q) (k : nat) : Q :=
  (inject_Z (Z.of_nat k) * dr) * (inject_Z (Z.of_nat k) * dr).

Lemma edge2_mono dr : 0 < dr -> forall i j, (i < j)%nat -> edge2 dr i < edge2 dr j.
Proof.
  intros Hd i j L. unfold edge2.
  assert (A : 0 <= inject_Z (Z.of_nat i) * dr).
  { apply Qmult_le_0_compat; [|apply Qlt_le_weak; auto].
    change 0 with (inject_Z 0). rewrite <- Zle_Qle. lia. }
  assert (B : inject_Z (Z.of_nat i) * dr < inject_Z (Z.of_nat j) * dr).
  { apply Qmult_lt_r; auto. rewrite <- Zlt_Qlt. lia. }
  apply Qmult_lt_compat_nonneg; split; auto.
Qed.

Lemma nbins_covers cutoff dr : 0 < dr -> 0 <= cutoff ->
  cutoff * cutoff <= edge2 dr (nbins cutoff dr).
Proof.
  intros Hd Hc. unfold edge2, nbins.
  assert (A : cutoff <= inject_Z (Z.of_nat (Z.to_nat (Qceiling (cutoff / dr)))) * dr).
  { assert (C := Qle_ceiling (cutoff / dr)).
    assert (P : (0 <= Qceiling (cutoff / dr))%Z).
    { assert (0 <= cutoff / dr) by (apply Qle_shift_div_l; auto; rewrite Qmult_0_l; auto).
      assert (X : 0 <= inject_Z (Qceiling (cutoff / dr))) by (eapply Qle_trans; eauto).
      change 0 with (inject_Z 0) in X. rewrite <- Zle_Qle in X. auto. }
    rewrite Z2Nat.id by auto.
    apply (proj2 (Qmult_le_r _ _ dr Hd)) in C.
    assert (E : cutoff / dr * dr == cutoff).
    { field. intro H0. rewrite H0 in Hd. apply Qlt_irrefl in Hd. auto. }
    rewrite E in C. auto. }
  apply Qmult_le_compat_nonneg; split; auto.
Qed.

(* ------------------------------------------------------------------ *)
(* g(r) = corrected pair histogram, normalised                          *)
(* ------------------------------------------------------------------ *)
Section Spec.
Variable arc : Q -> list Q -> option Q.

(* the 1/arc terms of all ordered pairs (p, q) of particles with
   0 < |p-q| < cutoff and  k dr <= |p-q| < (k+1) dr  (compared squared) *)
Definition bin_terms (b : box) (feat : list qpt) (cutoff dr : Q) (k : nat) : list (option Q) :=
  map (fun pq => weight arc b (fst pq) (snd pq))
      (filter (fun pq => in_range (cutoff * cutoff) (fst pq) (snd pq)
                         && inbin (edge2 dr) k (qd2 (fst pq) (snd pq)))
              (list_prod feat feat)).

Lemma Qle_bool_comp a a' b b' : a == a' -> b == b' -> Qle_bool a b = Qle_bool a' b'.
Proof.
  intros E1 E2. destruct (Qle_bool a b) eqn:X; destruct (Qle_bool a' b') eqn:Y; auto.
  - apply Qle_bool_iff in X. rewrite E1, E2 in X. apply Qle_bool_iff in X. congruence.
  - apply Qle_bool_iff in Y. rewrite <- E1, <- E2 in Y. apply Qle_bool_iff in Y. congruence.
Qed.

Lemma inbin_comp f k v v' : v == v' -> inbin f k v = inbin f k v'.
Proof.
  intros E. unfold inbin, Qltb. f_equal; [|f_equal]; apply Qle_bool_comp; auto; reflexivity.
Qed.

Theorem gr_box_spec b feat ndens cutoff dr k :
  0 < dr -> 0 <= cutoff -> (k < nbins cutoff dr)%nat ->
  let n := length feat in
  let rho := match ndens with Some r => r | None => ndens_default n b end in
  nth_error (gr_box arc b feat ndens cutoff dr) k
  = Some (finish (rho * inject_Z (Z.of_nat n) * dr)
                 (fold_left addw (bin_terms b feat cutoff dr k) (0%nat, 0))).
Proof.
  intros Hd Hc Lk n rho. unfold gr_box. fold n. fold rho.
  set (nb := nbins cutoff dr) in *.
  assert (LE : (length (edges2 dr nb) - 1 = nb)%nat).
  { unfold edges2. rewrite map_length, seq_length. lia. }
  rewrite nth_error_map.
  assert (LH : (k < length (hist (edges2 dr nb) (values arc b (cutoff * cutoff) feat)))%nat).
  { rewrite hist_length, LE. auto. }
  rewrite (nth_error_nth' _ ((0%nat, 0) : acc) LH). simpl. f_equal. f_equal.
  rewrite hist_nth by (rewrite LE; auto). f_equal.
  unfold values, bin_terms.
  rewrite (flat_map_as_prod (fun p q => (Qred (qd2 p q), weight arc b p q)) (in_range (cutoff * cutoff)) feat feat).
  rewrite filter_map_comm, map_map. simpl. rewrite filter_filter_and. f_equal.
  apply filter_ext_in. intros [p q] _. simpl.
  destruct (in_range (cutoff * cutoff) p q) eqn:R; simpl; auto. unfold goes_to. simpl.
  assert (V : Qred (qd2 p q) < edge2 dr nb).
  { rewrite Qred_correct. unfold in_range in R. apply andb_true_iff in R. destruct R as [_ R].
    apply Qltb_lt in R. eapply Qlt_le_trans; [exact R|]. apply nbins_covers; auto. }
  assert (S := bin_of_spec (edge2 dr) nb (Qred (qd2 p q))).
  fold (edges2 dr nb) in S. change (map (edge2 dr) (seq 0 (Datatypes.S nb))) with (edges2 dr nb) in S.
  rewrite <- (inbin_comp _ _ _ _ (Qred_correct (qd2 p q))).
  destruct (bin_of (edges2 dr nb) (Qred (qd2 p q))) as [j|] eqn:E.
  - destruct (Nat.eqb_spec j k) as [->|N].
    + symmetry. apply (S k (edge2_mono dr Hd) V). auto.
    + destruct (inbin (edge2 dr) k (Qred (qd2 p q))) eqn:E2; auto.
      assert (X : Some j = Some k) by (apply (S k (edge2_mono dr Hd) V); auto). congruence.
  - destruct (inbin (edge2 dr) k (Qred (qd2 p q))) eqn:E2; auto.
    assert (X : None = Some k) by (apply (S k (edge2_mono dr Hd) V); auto). discriminate.
Qed.
End Spec.

(* ------------------------------------------------------------------ *)
(* permutation invariance                                              *)
(* ------------------------------------------------------------------ *)
Definition acc_eq (a a' : acc) : Prop := fst a = fst a' /\ snd a == snd a'.

Lemma acc_eq_refl a : acc_eq a a.
Proof. split; reflexivity. Qed.

Lemma acc_eq_trans a b c : acc_eq a b -> acc_eq b c -> acc_eq a c.
Proof. intros [A1 A2] [B1 B2]. split; [congruence|]. rewrite A2. auto. Qed.

Lemma addw_comp a a' w : acc_eq a a' -> acc_eq (addw a w) (addw a' w).
Proof.
  intros [E1 E2]. destruct w; unfold addw; split; cbn [fst snd]; auto. rewrite !Qred_correct, E2. reflexivity.
Qed.

Lemma addw_swap a x y : acc_eq (addw (addw a x) y) (addw (addw a y) x).
Proof.
  destruct x, y; unfold addw; split; cbn [fst snd]; auto; try reflexivity.
  rewrite !Qred_correct. ring.
Qed.

Lemma fold_addw_comp l : forall a a', acc_eq a a' -> acc_eq (fold_left addw l a) (fold_left addw l a').
Proof. induction l; simpl; intros; auto. apply IHl, addw_comp. auto. Qed.

Lemma fold_addw_perm l l' : Permutation l l' ->
  forall a, acc_eq (fold_left addw l a) (fold_left addw l' a).
Proof.
  induction 1; simpl; intros.
  - apply acc_eq_refl.
  - auto.
  - apply fold_addw_comp, addw_swap.
  - eapply acc_eq_trans; eauto.
Qed.

Lemma finish_comp norm a a' : acc_eq a a' -> finish norm a = finish norm a'.
Proof.
  intros [E1 E2]. unfold finish. rewrite E1. destruct (fst a' =? 0)%nat; auto.
  f_equal. apply Qred_complete. rewrite E2. reflexivity.
Qed.

Lemma perm_filter {A} (P : A -> bool) l l' :
  Permutation l l' -> Permutation (filter P l) (filter P l').
Proof.
  induction 1; simpl; auto.
  - destruct (P x); auto.
  - destruct (P x), (P y); auto. apply perm_swap.
  - eapply perm_trans; eauto.
Qed.

Lemma flat_map_pointwise_perm {A B} (f g : A -> list B) l :
  (forall x, Permutation (f x) (g x)) -> Permutation (flat_map f l) (flat_map g l).
Proof. intros H. induction l; simpl; auto. apply Permutation_app; auto. Qed.

Lemma hist_perm es norm vals vals' :
  Permutation vals vals' ->
  map (finish norm) (hist es vals) = map (finish norm) (hist es vals').
Proof.
  intros P. apply nth_ext with (d := finish norm (0%nat, 0)) (d' := finish norm (0%nat, 0)).
  - rewrite !map_length, !hist_length. auto.
  - intros k L. rewrite map_length, hist_length in L.
    rewrite !map_nth, !hist_nth by auto. apply finish_comp.
    apply fold_addw_perm. apply Permutation_map. apply perm_filter. auto.
Qed.

Section Invariance.
Variable arc : Q -> list Q -> option Q.

Lemma values_perm b c2 feat feat' :
  Permutation feat feat' -> Permutation (values arc b c2 feat) (values arc b c2 feat').
Proof.
  intros P. unfold values.
  eapply perm_trans.
  - apply Permutation_flat_map. exact P.
  - apply flat_map_pointwise_perm. intros p. apply Permutation_map. apply perm_filter. auto.
Qed.

Theorem gr_box_permutation b feat feat' ndens cutoff dr :
  Permutation feat feat' ->
  gr_box arc b feat' ndens cutoff dr = gr_box arc b feat ndens cutoff dr.
Proof.
  intros P. unfold gr_box. rewrite <- (Permutation_length P).
  symmetry. apply hist_perm. apply values_perm. auto.
Qed.

(* min / max of a column do not depend on the order *)
Lemma qmin_le_l a b : qmin a b <= a.
Proof.
  unfold qmin. destruct (Qle_bool a b) eqn:E; [apply Qle_refl|].
  apply Qlt_le_weak, Qnot_le_lt. intro L. apply Qle_bool_iff in L. congruence.
Qed.
Lemma qmin_le_r a b : qmin a b <= b.
Proof. unfold qmin. destruct (Qle_bool a b) eqn:E; [apply Qle_bool_iff; auto|apply Qle_refl]. Qed.
Lemma qmax_ge_l a b : a <= qmax a b.
Proof. unfold qmax. destruct (Qle_bool a b) eqn:E; [apply Qle_bool_iff; auto|apply Qle_refl]. Qed.
Lemma qmax_ge_r a b : b <= qmax a b.
Proof.
  unfold qmax. destruct (Qle_bool a b) eqn:E; [apply Qle_refl|].
  apply Qlt_le_weak, Qnot_le_lt. intro L. apply Qle_bool_iff in L. congruence.
Qed.

Lemma fold_qmin_le l : forall a,
  fold_left qmin l a <= a /\ forall y, In y l -> fold_left qmin l a <= y.
Proof.
  induction l as [|x l IH]; simpl; intros a.
  - split; [apply Qle_refl|tauto].
  - destruct (IH (qmin a x)) as [I1 I2]. split.
    + eapply Qle_trans; [exact I1|apply qmin_le_l].
    + intros y [<-|H]; auto. eapply Qle_trans; [exact I1|apply qmin_le_r].
Qed.
Lemma fold_qmin_in l : forall a, fold_left qmin l a = a \/ In (fold_left qmin l a) l.
Proof.
  induction l as [|x l IH]; simpl; intros a; auto.
  destruct (IH (qmin a x)) as [E|I]; auto. rewrite E. unfold qmin. destruct (Qle_bool a x); auto.
Qed.
Lemma fold_qmax_ge l : forall a,
  a <= fold_left qmax l a /\ forall y, In y l -> y <= fold_left qmax l a.
Proof.
  induction l as [|x l IH]; simpl; intros a.
  - split; [apply Qle_refl|tauto].
  - destruct (IH (qmax a x)) as [I1 I2]. split.
    + eapply Qle_trans; [apply qmax_ge_l|exact I1].
    + intros y [<-|H]; auto. eapply Qle_trans; [apply qmax_ge_r|exact I1].
Qed.
Lemma fold_qmax_in l : forall a, fold_left qmax l a = a \/ In (fold_left qmax l a) l.
Proof.
  induction l as [|x l IH]; simpl; intros a; auto.
  destruct (IH (qmax a x)) as [E|I]; auto. rewrite E. unfold qmax. destruct (Qle_bool a x); auto.
Qed.

Lemma qminl_spec l : l <> [] -> In (qminl l) l /\ forall y, In y l -> qminl l <= y.
Proof.
  destruct l as [|x l]; [congruence|]. intros _. simpl.
  destruct (fold_qmin_le l x) as [L1 L2]. split.
  - destruct (fold_qmin_in l x) as [E|I]; auto.
  - intros y [<-|H]; auto.
Qed.
Lemma qmaxl_spec l : l <> [] -> In (qmaxl l) l /\ forall y, In y l -> y <= qmaxl l.
Proof.
  destruct l as [|x l]; [congruence|]. intros _. simpl.
  destruct (fold_qmax_ge l x) as [L1 L2]. split.
  - destruct (fold_qmax_in l x) as [E|I]; auto.
  - intros y [<-|H]; auto.
Qed.

Lemma qminl_perm l l' : Permutation l l' -> qminl l == qminl l'.
Proof.
  intros P. destruct l as [|x l].
  - apply Permutation_nil in P. subst. reflexivity.
  - assert (N : x :: l <> []) by discriminate.
    assert (N' : l' <> []) by (intro; subst; apply Permutation_sym, Permutation_nil in P; discriminate).
    destruct (qminl_spec _ N) as [I M]. destruct (qminl_spec _ N') as [I' M'].
    apply Qle_antisym.
    + apply M. eapply Permutation_in; [apply Permutation_sym; eauto|auto].
    + apply M'. eapply Permutation_in; eauto.
Qed.
Lemma qmaxl_perm l l' : Permutation l l' -> qmaxl l == qmaxl l'.
Proof.
  intros P. destruct l as [|x l].
  - apply Permutation_nil in P. subst. reflexivity.
  - assert (N : x :: l <> []) by discriminate.
    assert (N' : l' <> []) by (intro; subst; apply Permutation_sym, Permutation_nil in P; discriminate).
    destruct (qmaxl_spec _ N) as [I M]. destruct (qmaxl_spec _ N') as [I' M'].
    apply Qle_antisym.
    + apply M'. eapply Permutation_in; eauto.
    + apply M. eapply Permutation_in; [apply Permutation_sym; eauto|auto].
Qed.

Lemma bbox_perm dim pts pts' : Permutation pts pts' -> bbox dim pts' = bbox dim pts.
Proof.
  intros P. unfold bbox. apply map_ext. intros k.
  assert (C : Permutation (column k pts') (column k pts)) by (apply Permutation_map, Permutation_sym; auto).
  f_equal; apply Qred_complete; [apply qminl_perm|apply qmaxl_perm]; auto.
Qed.

Theorem pair_correlation_permutation dim boundary pts pts' ndens cutoff dr :
  Permutation pts pts' ->
  pair_correlation arc dim boundary pts' ndens cutoff dr
  = pair_correlation arc dim boundary pts ndens cutoff dr.
Proof.
  intros P. unfold pair_correlation. destruct boundary as [b|].
  - apply gr_box_permutation. apply perm_filter. auto.
  - rewrite (bbox_perm dim pts pts' P). apply gr_box_permutation. auto.
Qed.

(* ------------------------------------------------------------------ *)
(* translation invariance                                              *)
(* ------------------------------------------------------------------ *)
Lemma qd2_shift t : forall p q, qd2 (shift t p) (shift t q) == qd2 p q.
Proof.
  induction t as [|a t IH]; intros [|x p] [|y q]; cbn [qd2 shift]; try reflexivity.
  rewrite IH. ring.
Qed.

Lemma walls_shift t : forall p b, walls (shift t p) (shift_box t b) = walls p b.
Proof.
  induction t as [|a t IH]; intros [|x p] [|[lo hi] b]; cbn [walls shift shift_box]; auto.
  rewrite IH. f_equal; [|f_equal]; apply Qred_complete; ring.
Qed.

Lemma extent_shift t : forall b, extent (shift_box t b) == extent b.
Proof.
  induction t as [|a t IH]; intros [|[lo hi] b]; cbn [extent shift_box]; try reflexivity.
  rewrite IH. ring.
Qed.

Lemma in_range_shift t c2 p q : in_range c2 (shift t p) (shift t q) = in_range c2 p q.
Proof.
  unfold in_range, Qltb. f_equal; f_equal; apply Qle_bool_comp; try reflexivity; apply qd2_shift.
Qed.

Lemma weight_shift t b p q :
  weight arc (shift_box t b) (shift t p) (shift t q) = weight arc b p q.
Proof.
  unfold weight. rewrite walls_shift. rewrite (Qred_complete _ _ (qd2_shift t p q)). reflexivity.
Qed.

Lemma flat_map_map {A B C} (f : B -> list C) (g : A -> B) l :
  flat_map f (map g l) = flat_map (fun x => f (g x)) l.
Proof. induction l; simpl; auto. rewrite IHl. auto. Qed.

Lemma values_shift t b c2 feat :
  values arc (shift_box t b) c2 (map (shift t) feat) = values arc b c2 feat.
Proof.
  unfold values. rewrite flat_map_map. apply flat_map_ext. intros p.
  rewrite filter_map_comm, map_map.
  rewrite (filter_ext _ (in_range c2 p)) by (intros q; apply in_range_shift).
  apply map_ext. intros q. rewrite weight_shift. rewrite (Qred_complete _ _ (qd2_shift t p q)). reflexivity.
Qed.

Theorem gr_box_translation t b feat ndens cutoff dr :
  gr_box arc (shift_box t b) (map (shift t) feat) ndens cutoff dr
  = gr_box arc b feat ndens cutoff dr.
Proof.
  unfold gr_box. rewrite map_length, values_shift.
  replace (ndens_default (length feat) (shift_box t b)) with (ndens_default (length feat) b); auto.
  unfold ndens_default. apply Qred_complete. rewrite extent_shift. reflexivity.
Qed.

Lemma inside_shift t : forall b p, inside (shift_box t b) (shift t p) = inside b p.
Proof.
  induction t as [|a t IH]; intros [|[lo hi] b] [|x p]; cbn [inside shift shift_box]; auto.
  rewrite IH. f_equal. f_equal.
  - destruct (Qle_bool lo x) eqn:E.
    + apply Qle_bool_iff. apply Qplus_le_l. apply Qle_bool_iff. auto.
    + destruct (Qle_bool (lo + a) (x + a)) eqn:E'; auto.
      apply Qle_bool_iff in E'. apply Qplus_le_l in E'. apply Qle_bool_iff in E'. congruence.
  - destruct (Qle_bool x hi) eqn:E.
    + apply Qle_bool_iff. apply Qplus_le_l. apply Qle_bool_iff. auto.
    + destruct (Qle_bool (x + a) (hi + a)) eqn:E'; auto.
      apply Qle_bool_iff in E'. apply Qplus_le_l in E'. apply Qle_bool_iff in E'. congruence.
Qed.

Theorem pair_correlation_translation dim t b pts ndens cutoff dr :
  pair_correlation arc dim (Some (shift_box t b)) (map (shift t) pts) ndens cutoff dr
  = pair_correlation arc dim (Some b) pts ndens cutoff dr.
Proof.
  unfold pair_correlation. rewrite filter_map_comm.
  rewrite (filter_ext _ (inside b)) by (intros p; apply inside_shift).
  apply gr_box_translation.
Qed.
End Invariance.
