(* C07: ENGINE INDEPENDENCE AT THE LEVEL OF THE GENERATED refine_com_arr.

   Joins the pieces of Proofs/COM.v (kernel model = reference model), Proofs/COMGen.v (generated
   kernels = kernel model) and Proofs/COMRefine.v (generated _refine / refine_com_arr = reference
   rows / kernel runs) into one statement:  py_refine_com_arr with engine='python' and with
   engine='numba' return the same rows.  Three new ingredients:

     (b) the models read the image only inside the image: the reference loop, its non-zero test,
         its output row -- and so the kernel model -- are unchanged when pix / rawpix are replaced
         by functions that agree with them on the index vectors inside the image
         ([refine_python_ext], [ref_nonzero_ext], [refine_numba_ext]); the nested-list view handed
         to the kernels (img2 (as_nested2 a), img3 (as_nested3 a)) agrees with a_at a there;
     (a) the kernel's outer loop on np.empty((N, k)): every feature writes its own row only, so the
         result is the list of rows [fill_row (repeat CNone k) (cells out)] ([feats_rows]); and for
         the cells each kernel writes that row IS ref_row out -- the ecc cell stays the np.empty
         cell in both engines ([row_2D] ... [row_3D]);
     the headline [generated_engines_agree]. *)
From Coq Require Import String.
From Coq Require Import ZArith QArith Qabs List Bool Lia.
From TP Require Import Model.COM Proofs.COM Model.PyKernel Gen.com_kernels Model.COMGen Proofs.COMGen
                       Model.PyRefine Gen.refine Model.COMRefine Proofs.COMRefine.
Import ListNotations.
Open Scope Z_scope.
Open Scope list_scope.
Notation length := List.length.

(* ================= (b) the models read the image inside the image only ================= *)
(* f and g are the same image as far as index vectors inside [shape] go *)
Definition agree_inside (shape : list Z) (f g : list Z -> Z) : Prop :=
  forall x, length x = length shape -> in_image shape x -> f x = g x.

Section Ext.
  Variable pix pix' rawpix rawpix' : list Z -> Z.
  Variable radius shape : list Z.
  Variable thresh : Q.
  Variable mask : list Z -> bool.
  Hypothesis Hsh : length shape = length radius.
  Hypothesis Hpix : agree_inside shape pix pix'.
  Hypothesis Hraw : agree_inside shape rawpix rawpix'.

  Lemma at_win_in_image : forall c p, window_inside radius shape c -> In p (box radius) ->
    length (at_win radius c p) = length shape /\ in_image shape (at_win radius c p).
  Proof.
    intros c p Hin Hp. apply in_box in Hp. destruct Hp as [_ B]. split.
    - unfold at_win, dims, ndim. now rewrite map_length, seq_length.
    - intros d Hd. rewrite Hsh in Hd. rewrite ix_at_win by exact Hd.
      specialize (Hin d Hd). specialize (B d Hd). lia.
  Qed.

  Lemma nbh_ext : forall c p, window_inside radius shape c -> In p (box radius) ->
    nbh pix radius mask c p = nbh pix' radius mask c p.
  Proof.
    intros c p Hin Hp. unfold nbh. destruct (mask p); [|reflexivity].
    destruct (at_win_in_image c p Hin Hp). now apply Hpix.
  Qed.

  Lemma nb_sum_ext : forall c, window_inside radius shape c ->
    nb_sum pix radius mask c = nb_sum pix' radius mask c.
  Proof. intros c Hin. unfold nb_sum. apply zsum_ext. intros p Hp. now apply nbh_ext. Qed.

  Lemma nb_moment_ext : forall c d, window_inside radius shape c ->
    nb_moment pix radius mask c d = nb_moment pix' radius mask c d.
  Proof. intros c d Hin. unfold nb_moment. apply zsum_ext. intros p Hp. now rewrite nbh_ext. Qed.

  Lemma safe_com_ext : forall c, window_inside radius shape c ->
    safe_com pix radius mask c = safe_com pix' radius mask c.
  Proof.
    intros c Hin. unfold safe_com. rewrite (nb_sum_ext c Hin).
    destruct (nb_sum pix' radius mask c =? 0); [reflexivity|].
    apply map_ext. intro d. now rewrite nb_moment_ext.
  Qed.

  (* shift-and-clip keeps the window inside the image *)
  Lemma step_inside : forall c (off : list Q), window_inside radius shape c ->
    window_inside radius shape
      (map (fun d => r_clip1 (r_shift1 thresh (ix c d) (qx off d)) (ix radius d) (upper radius shape d)) (dims radius)).
  Proof.
    intros c off Hin d Hd. unfold dims, ndim. rewrite ix_map_seq by exact Hd.
    specialize (Hin d Hd). unfold r_clip1, upper. lia.
  Qed.

  Lemma ref_loop_ext : forall n c, window_inside radius shape c ->
    ref_loop pix radius shape thresh mask n c = ref_loop pix' radius shape thresh mask n c.
  Proof.
    induction n; intros c Hin; cbn [ref_loop]; cbv zeta; rewrite (safe_com_ext c Hin).
    - reflexivity.
    - match goal with |- context [all_lt thresh ?o] => set (off := o) end.
      destruct (all_lt thresh off); [reflexivity|]. apply IHn. now apply step_inside.
  Qed.

  Lemma ref_nonzero_ext : forall n c, window_inside radius shape c ->
    ref_nonzero pix radius shape thresh mask n c = ref_nonzero pix' radius shape thresh mask n c.
  Proof.
    induction n; intros c Hin; cbn [ref_nonzero]; cbv zeta; rewrite (safe_com_ext c Hin), (nb_sum_ext c Hin).
    - reflexivity.
    - destruct (nb_sum pix' radius mask c =? 0); [reflexivity|].
      match goal with |- context [all_lt thresh ?o] => set (off := o) end.
      destruct (all_lt thresh off); [reflexivity|]. apply IHn. now apply step_inside.
  Qed.

  Lemma ref_loop_inside : forall n c, window_inside radius shape c ->
    window_inside radius shape (r_rect (ref_loop pix radius shape thresh mask n c)).
  Proof.
    induction n; intros c Hin; cbn [ref_loop]; cbv zeta.
    - destruct (all_lt thresh _); exact Hin.
    - match goal with |- context [all_lt thresh ?o] => set (off := o) end.
      destruct (all_lt thresh off); [exact Hin|]. apply IHn. now apply step_inside.
  Qed.

  Lemma ref_output_ext : forall ch st, window_inside radius shape (r_rect st) ->
    ref_output pix rawpix radius mask ch st = ref_output pix' rawpix' radius mask ch st.
  Proof.
    intros ch st Hin. unfold ref_output. rewrite (nb_sum_ext _ Hin).
    destruct ch; cbn [negb]; [|reflexivity].
    f_equal. f_equal. f_equal; [f_equal|].
    - destruct (isotropic radius).
      + f_equal. f_equal. apply zsum_ext. intros p Hp. now rewrite nbh_ext.
      + apply map_ext. intro d. f_equal. f_equal. apply zsum_ext. intros p Hp. now rewrite nbh_ext.
    - f_equal. apply map_ext_in. intros p Hp. now apply nbh_ext.
    - apply zsum_ext. intros p Hp. destruct (mask p); [|reflexivity].
      destruct (at_win_in_image _ p Hin Hp). now apply Hraw.
  Qed.

  Lemma ref_run_ext : forall iters ch start, window_inside radius shape start ->
    ref_run pix rawpix radius shape thresh mask iters ch start =
    ref_run pix' rawpix' radius shape thresh mask iters ch start.
  Proof.
    intros iters ch start Hin. unfold ref_run. rewrite <- (ref_loop_ext _ _ Hin).
    apply ref_output_ext. now apply ref_loop_inside.
  Qed.
End Ext.

Theorem refine_python_ext : forall pix pix' rawpix rawpix' radius shape thresh max_iterations characterize start,
  length shape = length radius -> agree_inside shape pix pix' -> agree_inside shape rawpix rawpix' ->
  window_inside radius shape start ->
  refine_python pix rawpix radius shape thresh max_iterations characterize start =
  refine_python pix' rawpix' radius shape thresh max_iterations characterize start.
Proof. intros. unfold refine_python. now apply ref_run_ext. Qed.

(* extensionality of the kernel model in the images (through Proofs/COM.engines_agree) *)
Theorem refine_numba_ext : forall pix pix' rawpix rawpix' radius shape thresh max_iterations characterize start,
  (0 <= thresh)%Q -> (2 <= length radius)%nat -> Forall (fun r => 1 <= r) radius ->
  length shape = length radius -> agree_inside shape pix pix' -> agree_inside shape rawpix rawpix' ->
  window_inside radius shape start ->
  refine_numba pix rawpix radius shape thresh max_iterations characterize start =
  refine_numba pix' rawpix' radius shape thresh max_iterations characterize start.
Proof.
  intros pix pix' rawpix rawpix' radius shape thresh mi ch start Ht L F Ls Hp Hr Hin.
  rewrite !engines_agree by assumption.
  rewrite (ref_nonzero_ext pix pix' radius shape thresh (binary_mask radius) Ls Hp _ _ Hin).
  now rewrite (refine_python_ext pix pix' rawpix rawpix') by assumption.
Qed.

(* ---------- the nested-list view handed to the kernels reads the same pixels ---------- *)
Lemma nth_zrange_map : forall (A : Type) (F : Z -> A) n i def, 0 <= i < n ->
  nth (Z.to_nat i) (map F (zrange n)) def = F i.
Proof.
  intros A F n i def H. unfold zrange. rewrite map_map.
  rewrite nth_map_seq by lia. cbn [plus]. f_equal. lia.
Qed.

Lemma get1_zrange : forall (F : Z -> Z) n i, 0 <= i < n -> get1 (map F (zrange n)) i = F i.
Proof.
  intros F n i H. unfold get1. destruct (i <? 0) eqn:E; [apply Z.ltb_lt in E; lia|].
  now apply nth_zrange_map.
Qed.

Lemma two_list : forall (x : list Z), length x = 2%nat -> x = [ix x 0; ix x 1].
Proof. intros [|a [|b [|c x]]] H; try discriminate. reflexivity. Qed.
Lemma three_list : forall (x : list Z), length x = 3%nat -> x = [ix x 0; ix x 1; ix x 2].
Proof. intros [|a [|b [|c [|e x]]]] H; try discriminate. reflexivity. Qed.

Lemma img2_nested_agrees : forall (a : zarr), length (a_shape a) = 2%nat ->
  agree_inside (a_shape a) (img2 (as_nested2 a)) (a_at a).
Proof.
  intros a L x Lx Hx. rewrite L in Lx.
  pose proof (Hx 0%nat ltac:(lia)) as H0. pose proof (Hx 1%nat ltac:(lia)) as H1.
  rewrite (two_list x Lx) at 2. unfold img2, as_nested2, get2.
  destruct (ix x 0 <? 0) eqn:E; [apply Z.ltb_lt in E; lia|].
  rewrite nth_zrange_map by exact H0. now apply get1_zrange.
Qed.

Lemma img3_nested_agrees : forall (a : zarr), length (a_shape a) = 3%nat ->
  agree_inside (a_shape a) (img3 (as_nested3 a)) (a_at a).
Proof.
  intros a L x Lx Hx. rewrite L in Lx.
  pose proof (Hx 0%nat ltac:(lia)) as H0. pose proof (Hx 1%nat ltac:(lia)) as H1.
  pose proof (Hx 2%nat ltac:(lia)) as H2.
  rewrite (three_list x Lx) at 2. unfold img3, as_nested3, get3.
  destruct (ix x 0 <? 0) eqn:E; [apply Z.ltb_lt in E; lia|].
  rewrite nth_zrange_map by exact H0. unfold get2.
  destruct (ix x 1 <? 0) eqn:E1; [apply Z.ltb_lt in E1; lia|].
  rewrite nth_zrange_map by exact H1. now apply get1_zrange.
Qed.

(* ================= (a) the kernel's outer loop on np.empty((N, k)) ================= *)
(* results[feat, k] = v for the (k, v) of [cs], on one row *)
Definition fill_row (row : list cell) (cs : list (Z * cell)) : list cell :=
  fold_left (fun r kc => upd (Z.to_nat (fst kc)) (snd kc) r) cs row.

Lemma upd_app_len : forall (A : Type) (done : list A) x rest v,
  upd (length done) v (done ++ x :: rest) = done ++ v :: rest.
Proof. induction done; intros; cbn [length app upd]; [reflexivity|]. now rewrite IHdone. Qed.

Lemma nth_app_len : forall (A : Type) (done : list A) x rest d, nth (length done) (done ++ x :: rest) d = x.
Proof. induction done; intros; cbn [length app nth]; [reflexivity|]. apply IHdone. Qed.

Lemma set2_own_row : forall done row rest j v, 0 <= j ->
  set2 (done ++ row :: rest) (Z.of_nat (length done)) j v = done ++ upd (Z.to_nat j) v row :: rest.
Proof.
  intros done row rest j v Hj. unfold set2.
  destruct (Z.of_nat (length done) <? 0) eqn:E; [apply Z.ltb_lt in E; lia|].
  destruct (j <? 0) eqn:E'; [apply Z.ltb_lt in E'; lia|]. cbn [orb].
  rewrite Nat2Z.id, nth_app_len. apply upd_app_len.
Qed.

(* a feature's cells land in its own row, every other row is untouched *)
Lemma write_cells_own_row : forall cs done row rest, Forall (fun kc => 0 <= fst kc) cs ->
  write_cells (done ++ row :: rest) (Z.of_nat (length done)) cs = done ++ fill_row row cs :: rest.
Proof.
  unfold write_cells, fill_row. induction cs as [|[k v] cs IH]; intros done row rest F; [reflexivity|].
  inversion F; subst. cbn [fold_left fst snd]. rewrite set2_own_row by assumption. now apply IH.
Qed.

(* the whole outer loop: [R j] is the row feature j ends with *)
Lemma feats_rows : forall (run : list Z -> kres output) start cells (empty : list cell) (R : nat -> list cell) n done,
  (forall j, (length done <= j < length done + n)%nat ->
     exists out, run (start (Z.of_nat j)) = KOk out /\ Forall (fun kc => 0 <= fst kc) (cells out) /\
                 fill_row empty (cells out) = R j) ->
  feats (feat_step run start cells) n (Z.of_nat (length done)) (done ++ repeat empty n) =
  Ok (done ++ map R (seq (length done) n)).
Proof.
  induction n; intros done H; cbn [feats repeat seq map]; [reflexivity|].
  destruct (H (length done) ltac:(lia)) as [out [Hr [Hc Hf]]].
  unfold feat_step at 1. rewrite Hr. rewrite write_cells_own_row by exact Hc. rewrite Hf.
  replace (Z.of_nat (length done) + 1) with (Z.of_nat (length (done ++ [R (length done)])))
    by (rewrite app_length; cbn [List.length]; lia).
  replace (done ++ R (length done) :: repeat empty n) with ((done ++ [R (length done)]) ++ repeat empty n)
    by (now rewrite <- app_assoc).
  rewrite IHn.
  - rewrite <- app_assoc. cbn [app]. rewrite app_length. cbn [List.length].
    replace (length done + 1)%nat with (S (length done)) by lia. reflexivity.
  - intros j Hj. rewrite app_length in Hj. cbn [List.length] in Hj. apply H. lia.
Qed.

(* engine='numba': one row per start; [rowf] is what a start's row looks like *)
Lemma numba_rows_are : forall run start cells k (rowf : list Z -> list cell) (starts : list (list Z)) dflt,
  (forall j, (j < length starts)%nat -> start (Z.of_nat j) = nth j starts dflt) ->
  (forall s, In s starts ->
     exists out, run s = KOk out /\ Forall (fun kc => 0 <= fst kc) (cells out) /\
                 fill_row (repeat CNone (Z.to_nat k)) (cells out) = rowf s) ->
  numba_rows run start cells (Z.of_nat (length starts)) k = Ret (map rowf starts).
Proof.
  intros run start cells k rowf starts dflt Hs H. unfold numba_rows, np_empty_rows. rewrite Nat2Z.id.
  pose proof (feats_rows run start cells (repeat CNone (Z.to_nat k)) (fun j => rowf (nth j starts dflt)) (length starts) []) as G.
  cbn [app List.length Z.of_nat] in G. rewrite G.
  - cbn [of_kernel]. now rewrite map_nth_seq.
  - intros j Hj. rewrite Hs by lia. apply H. apply nth_In. lia.
Qed.

(* ---------- the row a kernel fills in IS the reference engine's row ---------- *)
(* the form of a model output: nd position entries; with characterize one size^2 entry (isotropic)
   or nd of them, signal, raw_mass *)
Definition out_shape (nd : nat) (ch iso : bool) (out : output) : Prop :=
  length (o_pos out) = nd /\
  match o_char out with
  | None => ch = false
  | Some (rg2, _, _) => ch = true /\ length rg2 = if iso then 1%nat else nd
  end.

Lemma ref_loop_cmi_length : forall pix radius shape thresh mask n c,
  length (r_cmi (ref_loop pix radius shape thresh mask n c)) = length radius.
Proof.
  induction n; intro c; cbn [ref_loop]; cbv zeta.
  - destruct (all_lt thresh _); cbn [r_cmi]; unfold dims, ndim; now rewrite map_length, seq_length.
  - match goal with |- context [all_lt thresh ?o] => set (off := o) end.
    destruct (all_lt thresh off); [cbn [r_cmi]; unfold dims, ndim; now rewrite map_length, seq_length|].
    apply IHn.
Qed.

Lemma refine_python_shape : forall pix rawpix radius shape thresh max_iterations characterize start,
  out_shape (length radius) characterize (isotropic radius)
            (refine_python pix rawpix radius shape thresh max_iterations characterize start).
Proof.
  intros. unfold refine_python, ref_run, ref_output, out_shape.
  destruct characterize; cbn [negb o_pos o_char]; (split; [apply ref_loop_cmi_length|]); [|reflexivity].
  split; [reflexivity|]. destruct (isotropic radius); [reflexivity|].
  unfold dims, ndim. now rewrite map_length, seq_length.
Qed.

Ltac cells_done := split; [repeat constructor; cbn [fst]; lia | reflexivity].

Lemma row_2D : forall iso out, out_shape 2 false iso out ->
  Forall (fun kc => 0 <= fst kc) (cells_2D out) /\
  fill_row (repeat CNone (Z.to_nat 3)) (cells_2D out) = ref_row out.
Proof.
  intros iso [pos m c] [Lp Hc]. cbn [o_pos o_char] in *.
  destruct pos as [|a [|b [|e pos]]]; try discriminate.
  destruct c as [[[rg2 sg] rw]|]; [destruct Hc; discriminate|]. cells_done.
Qed.

Lemma row_2D_c : forall out, out_shape 2 true true out ->
  Forall (fun kc => 0 <= fst kc) (cells_2D_c out) /\
  fill_row (repeat CNone (Z.to_nat 7)) (cells_2D_c out) = ref_row out.
Proof.
  intros [pos m c] [Lp Hc]. cbn [o_pos o_char] in *.
  destruct pos as [|a [|b [|e pos]]]; try discriminate.
  destruct c as [[[rg2 sg] rw]|]; [|discriminate]. destruct Hc as [_ Lr].
  destruct rg2 as [|s [|s' rg2]]; try discriminate. cells_done.
Qed.

Lemma row_2D_c_a : forall out, out_shape 2 true false out ->
  Forall (fun kc => 0 <= fst kc) (cells_2D_c_a out) /\
  fill_row (repeat CNone (Z.to_nat 8)) (cells_2D_c_a out) = ref_row out.
Proof.
  intros [pos m c] [Lp Hc]. cbn [o_pos o_char] in *.
  destruct pos as [|a [|b [|e pos]]]; try discriminate.
  destruct c as [[[rg2 sg] rw]|]; [|discriminate]. destruct Hc as [_ Lr].
  destruct rg2 as [|s [|s' [|s'' rg2]]]; try discriminate. cells_done.
Qed.

Lemma row_3D : forall ch iso out, out_shape 3 ch iso out ->
  Forall (fun kc => 0 <= fst kc) (cells_3D ch iso out) /\
  fill_row (repeat CNone (Z.to_nat (if ch then if iso then 8 else 10 else 4))) (cells_3D ch iso out) = ref_row out.
Proof.
  intros ch iso [pos m c] [Lp Hc]. cbn [o_pos o_char] in *.
  destruct pos as [|a [|b [|e [|e' pos]]]]; try discriminate.
  destruct c as [[[rg2 sg] rw]|].
  - destruct Hc as [-> Lr]. destruct iso.
    + destruct rg2 as [|s [|s' rg2]]; try discriminate. cells_done.
    + destruct rg2 as [|s [|s' [|s'' [|s''' rg2]]]]; try discriminate. cells_done.
  - subst ch. cells_done.
Qed.

(* the start pixel the kernels read from the coords array is the row the python engine iterates over *)
Lemma get2_row : forall (rows : list (list Z)) j c, get2 rows (Z.of_nat j) c = get1 (nth j rows []) c.
Proof.
  intros. unfold get2. destruct (Z.of_nat j <? 0) eqn:E; [apply Z.ltb_lt in E; lia|]. now rewrite Nat2Z.id.
Qed.

Lemma start2_nth : forall (rows : list (list Z)) j, Forall (fun c => length c = 2%nat) rows -> (j < length rows)%nat ->
  [get2 rows (Z.of_nat j) 0; get2 rows (Z.of_nat j) 1] = nth j rows [].
Proof.
  intros rows j F Hj. rewrite !get2_row. rewrite Forall_forall in F.
  pose proof (F _ (nth_In rows [] Hj)) as L. destruct (nth j rows []) as [|a [|b [|e r]]]; try discriminate. reflexivity.
Qed.

Lemma start3_nth : forall (rows : list (list Z)) j, Forall (fun c => length c = 3%nat) rows -> (j < length rows)%nat ->
  [get2 rows (Z.of_nat j) 0; get2 rows (Z.of_nat j) 1; get2 rows (Z.of_nat j) 2] = nth j rows [].
Proof.
  intros rows j F Hj. rewrite !get2_row. rewrite Forall_forall in F.
  pose proof (F _ (nth_In rows [] Hj)) as L. destruct (nth j rows []) as [|a [|b [|e [|e' r]]]]; try discriminate. reflexivity.
Qed.

(* ================= one call of the numba engine = the rows of the reference engine ================= *)
Lemma numba_rows_agree : forall (image raw_image : zarr) (pixN rawN : list Z -> Z) radius thresh max_iterations characterize
                                cells k start starts,
  (0 <= thresh)%Q -> (2 <= length radius)%nat -> Forall (fun r => 1 <= r) radius ->
  length (a_shape image) = length radius ->
  agree_inside (a_shape image) pixN (a_at image) -> agree_inside (a_shape image) rawN (a_at raw_image) ->
  (forall j, (j < length starts)%nat -> start (Z.of_nat j) = nth j starts []) ->
  (forall s, In s starts ->
     window_inside radius (a_shape image) s /\
     ref_nonzero (a_at image) radius (a_shape image) thresh (binary_mask radius) (pred (iters_of max_iterations)) s = true) ->
  (forall out, out_shape (length radius) characterize (isotropic radius) out ->
     Forall (fun kc => 0 <= fst kc) (cells out) /\ fill_row (repeat CNone (Z.to_nat k)) (cells out) = ref_row out) ->
  numba_rows (refine_numba pixN rawN radius (a_shape image) thresh max_iterations characterize) start cells
             (Z.of_nat (length starts)) k =
  Ret (refine_rows (a_at image) (a_at raw_image) radius (a_shape image) thresh max_iterations characterize starts).
Proof.
  intros image raw pixN rawN radius thresh mi ch cells k start starts Ht L2 F Ls Hp Hr Hst Hs Hcells.
  unfold refine_rows. apply numba_rows_are with (dflt := []); [exact Hst|].
  intros s Hin. destruct (Hs s Hin) as [Hw Hn].
  exists (refine_python (a_at image) (a_at raw) radius (a_shape image) thresh mi ch s). split.
  - rewrite (refine_numba_ext pixN (a_at image) rawN (a_at raw)) by assumption.
    rewrite engines_agree by assumption. now rewrite Hn.
  - apply Hcells. apply refine_python_shape.
Qed.

(* ================= the headline: refine_com_arr is engine-independent ================= *)
Theorem generated_engines_agree :
  forall NUMBA_AVAILABLE NUMBA_AVAILABLE' raw_image image radius coords max_iterations engine_py engine_nb
         thresh characterize walkthrough,
  mat_wf coords -> a_ndim raw_image = m_ncols coords -> a_shape raw_image = a_shape image ->
  Z.of_nat (length radius) = a_ndim image -> (a_ndim image = 2 \/ a_ndim image = 3) ->
  (engine_py = "python"%string \/
   (engine_py = "auto"%string /\ NUMBA_AVAILABLE && ((a_ndim image =? 2) || (a_ndim image =? 3)) = false)) ->
  (engine_nb = "numba"%string \/ (engine_nb = "auto"%string /\ NUMBA_AVAILABLE' = true)) ->
  (0 <= thresh)%Q -> Forall (fun r => 1 <= r) radius ->
  (forall start, In start (m_rows (mat_round_int coords)) ->
     window_inside radius (a_shape image) start /\
     ref_nonzero (a_at image) radius (a_shape image) thresh (binary_mask radius) (pred (iters_of max_iterations)) start = true) ->
  exists rows,
    py_refine_com_arr NUMBA_AVAILABLE raw_image image (RTuple radius) coords max_iterations engine_py thresh characterize walkthrough
      = Ret rows /\
    py_refine_com_arr NUMBA_AVAILABLE' raw_image image (RTuple radius) coords max_iterations engine_nb thresh characterize false
      = Ret rows /\
    rows = refine_rows (a_at image) (a_at raw_image) radius (a_shape image) thresh max_iterations characterize
                       (m_rows (mat_round_int coords)) /\
    forall k start, nth_error (m_rows (mat_round_int coords)) k = Some start ->
      exists out,
        nth_error rows k = Some (ref_row out) /\
        out = refine_python (a_at image) (a_at raw_image) radius (a_shape image) thresh max_iterations characterize start /\
        row_is_consistent (a_at image) (a_at raw_image) radius (a_shape image) characterize out.
Proof.
  intros NA NA' raw image radius coords mi epy enb thresh ch wt W Hc Hsh Hr Hd Hepy Henb Ht F Hs.
  assert (Hi : a_ndim image = a_ndim raw) by (unfold a_ndim; now rewrite Hsh).
  assert (Ls : length (a_shape image) = length radius) by (unfold a_ndim in Hr; lia).
  assert (L2 : (2 <= length radius)%nat) by (unfold a_ndim in *; lia).
  assert (Fl : Forall (fun c => length c = length radius) (m_rows (mat_round_int coords))).
  { apply rounded_rows_length; [exact W|]. rewrite <- Hc, <- Hi, Hr. reflexivity. }
  assert (Nr : m_nrows coords = Z.of_nat (length (m_rows (mat_round_int coords)))) by (now rewrite <- round_nrows).
  exists (refine_rows (a_at image) (a_at raw) radius (a_shape image) thresh mi ch (m_rows (mat_round_int coords))).
  split; [now apply gen_refine_com_arr_python|]. split; [|split; [reflexivity|]].
  - destruct Hd as [H2|H3].
    + (* 2-D *)
      assert (Lr : length radius = 2%nat) by lia.
      destruct radius as [|rY [|rX [|e radius]]]; try discriminate.
      assert (Lsh : length (a_shape image) = 2%nat) by (rewrite Ls; reflexivity).
      pose proof (gen_refine_com_arr_numba_2D NA' raw image rY rX coords mi enb thresh ch Hc H2 Henb) as G.
      cbv zeta in G. rewrite G. clear G.
      change [zget (a_shape image) 0; zget (a_shape image) 1] with [ix (a_shape image) 0; ix (a_shape image) 1].
      rewrite <- (two_list (a_shape image) Lsh), Nr.
      assert (Ai : agree_inside (a_shape image) (img2 (as_nested2 image)) (a_at image)) by now apply img2_nested_agrees.
      assert (Ar : agree_inside (a_shape image) (img2 (as_nested2 raw)) (a_at raw)).
      { rewrite <- Hsh. apply img2_nested_agrees. now rewrite Hsh. }
      assert (St : forall j, (j < length (m_rows (mat_round_int coords)))%nat ->
                   (fun feat => [get2 (m_rows (mat_round_int coords)) feat 0; get2 (m_rows (mat_round_int coords)) feat 1]) (Z.of_nat j)
                   = nth j (m_rows (mat_round_int coords)) []).
      { intros j Hj. now apply start2_nth. }
      destruct ch; cbn [negb].
      * destruct (rY =? rX) eqn:Er.
        -- apply Z.eqb_eq in Er. apply numba_rows_agree; try assumption.
           intros out Ho. rewrite (iso2D rY rX Er) in Ho. exact (row_2D_c out Ho).
        -- apply Z.eqb_neq in Er. apply numba_rows_agree; try assumption.
           intros out Ho. rewrite (aniso2D rY rX Er) in Ho. exact (row_2D_c_a out Ho).
      * apply numba_rows_agree; try assumption.
        intros out Ho. exact (row_2D _ out Ho).
    + (* 3-D *)
      assert (Lr : length radius = 3%nat) by lia.
      destruct radius as [|rZ [|rY [|rX [|e radius]]]]; try discriminate.
      assert (Lsh : length (a_shape image) = 3%nat) by (rewrite Ls; reflexivity).
      pose proof (gen_refine_com_arr_numba_3D NA' raw image rZ rY rX coords mi enb thresh ch Hc H3 Henb) as G.
      cbv zeta in G. rewrite G. clear G.
      change [zget (a_shape image) 0; zget (a_shape image) 1; zget (a_shape image) 2]
        with [ix (a_shape image) 0; ix (a_shape image) 1; ix (a_shape image) 2].
      rewrite <- (three_list (a_shape image) Lsh), Nr.
      assert (Ai : agree_inside (a_shape image) (img3 (as_nested3 image)) (a_at image)) by now apply img3_nested_agrees.
      assert (Ar : agree_inside (a_shape image) (img3 (as_nested3 raw)) (a_at raw)).
      { rewrite <- Hsh. apply img3_nested_agrees. now rewrite Hsh. }
      assert (St : forall j, (j < length (m_rows (mat_round_int coords)))%nat ->
                   (fun feat => [get2 (m_rows (mat_round_int coords)) feat 0; get2 (m_rows (mat_round_int coords)) feat 1;
                                 get2 (m_rows (mat_round_int coords)) feat 2]) (Z.of_nat j)
                   = nth j (m_rows (mat_round_int coords)) []).
      { intros j Hj. now apply start3_nth. }
      apply numba_rows_agree; try assumption.
      intros out Ho. exact (row_3D ch _ out Ho).
  - intros k start Hk.
    exists (refine_python (a_at image) (a_at raw) radius (a_shape image) thresh mi ch start).
    split; [|split; [reflexivity|]].
    + unfold refine_rows.
      exact (map_nth_error (fun s => ref_row (refine_python (a_at image) (a_at raw) radius (a_shape image) thresh mi ch s)) k _ Hk).
    + pose proof (nth_error_In _ _ Hk) as Hin. destruct (Hs start Hin) as [Hw Hn].
      apply python_self_consistent; try assumption.
      rewrite Forall_forall in Fl. now apply Fl.
Qed.

(* ================= the same through refine_com (DataFrame or array in, frame out) ================= *)
(* the float coords array refine_com hands to refine_com_arr *)
Definition coords_of (c : coords_arg) (pos_columns : option (list string)) : result qmat :=
  match c with
  | CDataFrame f => df_getitem_values f (match pos_columns with None => guess_pos_columns f | Some p => p end)
  | CArray m => Ret m
  end.

Lemma validate_tuple_length : forall radius nd r, 0 <= nd -> validate_tuple radius nd = Ret r -> Z.of_nat (length r) = nd.
Proof.
  intros [s|l] nd r Hnd H; cbn [validate_tuple] in H.
  - injection H as <-. rewrite repeat_length. lia.
  - destruct (Z.of_nat (length l) =? nd) eqn:E; [|discriminate]. injection H as <-. now apply Z.eqb_eq.
Qed.

Theorem generated_refine_com_engines_agree :
  forall NUMBA_AVAILABLE NUMBA_AVAILABLE' raw_image image radius r c m max_iterations engine_py engine_nb
         thresh characterize pos_columns,
  validate_tuple radius (a_ndim image) = Ret r -> coords_of c pos_columns = Ret m ->
  mat_wf m -> a_ndim raw_image = m_ncols m -> a_shape raw_image = a_shape image ->
  (a_ndim image = 2 \/ a_ndim image = 3) ->
  (engine_py = "python"%string \/
   (engine_py = "auto"%string /\ NUMBA_AVAILABLE && ((a_ndim image =? 2) || (a_ndim image =? 3)) = false)) ->
  (engine_nb = "numba"%string \/ (engine_nb = "auto"%string /\ NUMBA_AVAILABLE' = true)) ->
  (0 <= thresh)%Q -> Forall (fun r => 1 <= r) r ->
  (forall start, In start (m_rows (mat_round_int m)) ->
     window_inside r (a_shape image) start /\
     ref_nonzero (a_at image) r (a_shape image) thresh (binary_mask r) (pred (iters_of max_iterations)) start = true) ->
  exists frame,
    py_refine_com NUMBA_AVAILABLE raw_image image radius c max_iterations engine_py thresh characterize pos_columns = Ret frame /\
    py_refine_com NUMBA_AVAILABLE' raw_image image radius c max_iterations engine_nb thresh characterize pos_columns = Ret frame /\
    of_rows frame = refine_rows (a_at image) (a_at raw_image) r (a_shape image) thresh max_iterations characterize
                                (m_rows (mat_round_int m)).
Proof.
  intros NA NA' raw image radius r c m mi epy enb thresh ch pc Hv Hm W Hc Hsh Hd Hepy Henb Ht F Hs.
  assert (Hr : Z.of_nat (length r) = a_ndim image).
  { apply (validate_tuple_length radius); [unfold a_ndim; lia | exact Hv]. }
  destruct (generated_engines_agree NA NA' raw image r m mi epy enb thresh ch false W Hc Hsh Hr Hd Hepy Henb Ht F Hs)
    as [rows [P [N [E _]]]].
  assert (Z0 : m_nrows m = 0 -> rows = []).
  { intro H0. rewrite E. unfold m_nrows in H0. destruct (m_rows m) eqn:Em; [|cbn [length] in H0; lia].
    unfold mat_round_int. cbn [m_rows]. rewrite Em. reflexivity. }
  destruct c as [f|m']; cbn [coords_of] in Hm.
  - rewrite (gen_refine_com_dataframe NA raw image radius r f m mi epy thresh ch pc Hv Hm).
    rewrite (gen_refine_com_dataframe NA' raw image radius r f m mi enb thresh ch pc Hv Hm).
    rewrite P, N. unfold frame_of. destruct (m_nrows m =? 0) eqn:E0; cbn [rbind].
    + eexists. split; [reflexivity|]. split; [reflexivity|]. cbn [of_rows]. rewrite <- E. symmetry. apply Z0. now apply Z.eqb_eq.
    + eexists. split; [reflexivity|]. split; [reflexivity|]. cbn [of_rows]. exact E.
  - injection Hm as ->.
    rewrite (gen_refine_com_array NA raw image radius r m mi epy thresh ch pc Hv).
    rewrite (gen_refine_com_array NA' raw image radius r m mi enb thresh ch pc Hv).
    rewrite P, N. unfold frame_of. destruct (m_nrows m =? 0) eqn:E0; cbn [rbind].
    + eexists. split; [reflexivity|]. split; [reflexivity|]. cbn [of_rows]. rewrite <- E. symmetry. apply Z0. now apply Z.eqb_eq.
    + eexists. split; [reflexivity|]. split; [reflexivity|]. cbn [of_rows]. exact E.
Qed.
