(* Calculus behind the 3-D edge correction (trackpy.static.sphere_cap_area,
   sphere_edge_area), in the variable t = height along an axis PARALLEL to the
   faces concerned:

   cap_piece     r * INT_{-r}^{r} cap_term h (rho t) / rho t dt = the cap area 2 PI r (r - h)
   corner_piece  r * INT_{-r}^{r} corner_term h1 h2 (rho t) / rho t dt = sphere_edge_area h1 h2 r

   (with the code's masks on both sides), rho t = sqrt(r^2 - t^2) the radius of
   the slice circle: the integrands are the angular widths cut off from that
   circle by one wall / by two adjacent walls (2-D theory, Proofs/StaticGeom2.v).

   Route: acos(h / rho t) = atan(q t / h) with q t = sqrt(r^2 - h^2 - t^2), which is
   continuous on R and vanishes where the mask is off; an explicit antiderivative
   Gh (derivative checked by auto_derive + field); a fundamental theorem of
   calculus with the derivative only required in the OPEN interval (the
   derivative of the integrand blows up where the slicing plane is tangent to
   the cap's rim), applied to a half-angle form Fh of Gh that is continuous up
   to the end points; atan addition formulas for the end values. *)
From Coq Require Import Reals Lra Lia.
From Coquelicot Require Import Coquelicot.
From TP Require Import Model.StaticGeom Model.StaticGeom2 Model.StaticGeom3 Model.StaticGeom4.
From TP Require Import Proofs.StaticGeom Proofs.StaticGeom2 Proofs.StaticGeom3.
Open Scope R_scope.

(* ------------------------------------------------------------------ *)
(* fundamental theorem, derivative in the open interval only           *)
(* ------------------------------------------------------------------ *)
Lemma FTC_open (f F : R -> R) (a b : R) :
  a < b ->
  (forall x, continuous f x) ->
  (forall x, a <= x <= b -> continuous F x) ->
  (forall x, a < x < b -> is_derive F x (f x)) ->
  is_RInt f a b (F b - F a).
Proof.
  intros Hab Cf CF DF.
  assert (Ex : forall x, ex_RInt f a x).
  { intros x. apply (ex_RInt_continuous (V := R_CompleteNormedModule)). intros z _. apply Cf. }
  set (I := fun x => RInt f a x).
  assert (DI : forall x, is_derive I x (f x)).
  { intros x. apply (is_derive_RInt f I a x).
    - apply filter_forall. intros y. apply (RInt_correct (V := R_CompleteNormedModule)). apply Ex.
    - apply Cf. }
  destruct (MVT_gen (fun x => F x - I x) a b (fun x => f x - f x)) as (c & _ & E).
  - rewrite Rmin_left, Rmax_right by lra. intros x Hx.
    apply (is_derive_minus (V := R_NormedModule)); [apply DF; lra|apply DI].
  - rewrite Rmin_left, Rmax_right by lra. intros x Hx. apply continuity_pt_filterlim.
    apply (continuous_minus (V := R_NormedModule)); [apply CF; lra|].
    apply (ex_derive_continuous (V := R_NormedModule)). exists (f x). apply DI.
  - assert (Ia : I a = 0) by (unfold I; apply (RInt_point (V := R_CompleteNormedModule))).
    assert (Eb : F b - F a = I b) by lra.
    rewrite Eb. apply (RInt_correct (V := R_CompleteNormedModule)), Ex.
Qed.

(* ------------------------------------------------------------------ *)
(* continuity toolkit for real functions                               *)
(* ------------------------------------------------------------------ *)
Lemma cont_plus (f g : R -> R) x : continuous f x -> continuous g x -> continuous (fun t => f t + g t) x.
Proof. apply (continuous_plus (V := R_NormedModule)). Qed.
Lemma cont_minus (f g : R -> R) x : continuous f x -> continuous g x -> continuous (fun t => f t - g t) x.
Proof. apply (continuous_minus (V := R_NormedModule)). Qed.
Lemma cont_opp (f : R -> R) x : continuous f x -> continuous (fun t => - f t) x.
Proof. apply (continuous_opp (V := R_NormedModule)). Qed.
Lemma cont_mult (f g : R -> R) x : continuous f x -> continuous g x -> continuous (fun t => f t * g t) x.
Proof. apply (continuous_mult (K := R_AbsRing)). Qed.
Lemma cont_const (c x : R) : continuous (fun _ : R => c) x.
Proof. apply continuous_const. Qed.
Lemma cont_id (x : R) : continuous (fun t : R => t) x.
Proof. apply continuous_id. Qed.
Lemma cont_atan (f : R -> R) x : continuous f x -> continuous (fun t => atan (f t)) x.
Proof. apply continuous_atan_comp. Qed.
Lemma cont_sqrt (f : R -> R) x : continuous f x -> continuous (fun t => sqrt (f t)) x.
Proof. apply continuous_sqrt_comp. Qed.
Lemma cont_div (f g : R -> R) x : continuous f x -> continuous g x -> g x <> 0 -> continuous (fun t => f t / g t) x.
Proof. intros F G N. unfold Rdiv. apply cont_mult; auto. apply continuous_Rinv_comp; auto. Qed.

(* syntactic (no conversion): one rule per head symbol of the function body *)
Ltac cont_step :=
  lazymatch goal with
  | |- continuous (fun _ => ?c) _ => apply (cont_const c)
  | |- continuous (fun t => t) _ => apply cont_id
  | |- continuous (fun t => atan (@?f t)) _ => apply (cont_atan f)
  | |- continuous (fun t => sqrt (@?f t)) _ => apply (cont_sqrt f)
  | |- continuous (fun t => @?f t + @?g t) _ => apply (cont_plus f g)
  | |- continuous (fun t => @?f t - @?g t) _ => apply (cont_minus f g)
  | |- continuous (fun t => - @?f t) _ => apply (cont_opp f)
  | |- continuous (fun t => @?f t * @?g t) _ => apply (cont_mult f g)
  | |- continuous (fun t => @?f t / ?c) _ => apply (cont_mult f (fun _ => / c))
  | |- continuous (Rmult ?c) _ => apply (cont_mult (fun _ => c) (fun t => t))
  end.
Ltac cont := solve [repeat cont_step].

(* ------------------------------------------------------------------ *)
(* arctangent identities                                               *)
(* ------------------------------------------------------------------ *)
Lemma atan_lt_PI4 u : -1 < u < 1 -> - (PI / 4) < atan u < PI / 4.
Proof.
  intros [A B]. split.
  - rewrite <- atan_1, <- atan_opp. apply atan_increasing. lra.
  - rewrite <- atan_1. apply atan_increasing. lra.
Qed.

Lemma atan_add a b : 0 < a -> 0 < b -> a * b < 1 ->
  atan a + atan b = atan ((a + b) / (1 - a * b)).
Proof.
  intros Ha Hb Hab. assert (P := PI_RGT_0).
  destruct (atan_bound a) as [A0 A1]. destruct (atan_bound b) as [B0 B1].
  assert (A2 : 0 < atan a) by (rewrite <- atan_0; apply atan_increasing; lra).
  assert (B2 : 0 < atan b) by (rewrite <- atan_0; apply atan_increasing; lra).
  assert (S : atan a + atan b < PI / 2).
  { assert (atan a < atan (/ b)).
    { apply atan_increasing. apply Rmult_lt_reg_r with b; auto. rewrite Rinv_l by lra. lra. }
    rewrite atan_inv in H by lra. lra. }
  rewrite <- (atan_tan (atan a + atan b)) by lra. f_equal.
  rewrite tan_plus.
  - rewrite !tan_atan. reflexivity.
  - apply Rgt_not_eq, cos_gt_0; lra.
  - apply Rgt_not_eq, cos_gt_0; lra.
  - apply Rgt_not_eq, cos_gt_0; lra.
  - rewrite !tan_atan. lra.
Qed.

Lemma atan_three a b c : 0 < a -> 0 < b -> 0 < c -> a * b < 1 ->
  (a + b) * c = 1 - a * b -> atan a + atan b + atan c = PI / 2.
Proof.
  intros Ha Hb Hc Hab E. rewrite atan_add by assumption.
  replace ((a + b) / (1 - a * b)) with (/ c).
  - rewrite atan_inv by assumption. lra.
  - field_simplify_eq; [lra|]. split; lra.
Qed.

Lemma atan_half c s : 0 < c ->
  atan (s / c) = 2 * atan (s / (c + sqrt (c * c + s * s))).
Proof.
  intros Hc. assert (P := PI_RGT_0).
  assert (Q : 0 <= c * c + s * s) by nra.
  pose proof (sqrt_sqrt _ Q) as D2. pose proof (sqrt_pos (c * c + s * s)) as D0.
  set (d := sqrt (c * c + s * s)) in *.
  assert (Dc : c <= d) by nra.
  assert (Ds : - d <= s <= d) by nra.
  set (u := s / (c + d)).
  assert (U : -1 < u < 1).
  { unfold u. split.
    - apply Rmult_lt_reg_r with (c + d); [lra|]. unfold Rdiv. rewrite Rmult_assoc, Rinv_l by lra. lra.
    - apply Rmult_lt_reg_r with (c + d); [lra|]. unfold Rdiv. rewrite Rmult_assoc, Rinv_l by lra. lra. }
  destruct (atan_lt_PI4 u U) as [A0 A1].
  replace (2 * atan u) with (atan u + atan u) by ring.
  rewrite <- (atan_tan (atan u + atan u)) by lra. f_equal.
  assert (U2 : u * u < 1) by nra.
  rewrite tan_plus.
  - rewrite !tan_atan.
    assert (N : 1 - u * u <> 0) by lra.
    assert (E : u + u = s / c * (1 - u * u)).
    { unfold u. field_simplify_eq; [|split; lra]. nra. }
    rewrite E. unfold Rdiv. rewrite Rmult_assoc, Rinv_r, Rmult_1_r by exact N. reflexivity.
  - apply Rgt_not_eq, cos_gt_0; lra.
  - apply Rgt_not_eq, cos_gt_0; lra.
  - apply Rgt_not_eq, cos_gt_0; lra.
  - rewrite !tan_atan. lra.
Qed.

(* ------------------------------------------------------------------ *)
(* the integrand and its antiderivative                                *)
(* ------------------------------------------------------------------ *)
(* q = sqrt(r^2 - h^2 - t^2): half the chord, at height t, of the circle in which
   the plane at distance h cuts the sphere (0 where the plane misses the slice) *)
Definition qh (r h t : R) : R := sqrt (r * r - h * h - t * t).
Definition Gh (r h t : R) : R :=
  t * atan (qh r h t / h) + r * atan (h * t / (r * qh r h t)) - h * atan (t / qh r h t).
Lemma Gh_derive r h t : 0 < h -> 0 < r -> t * t < r * r - h * h ->
  is_derive (Gh r h) t (atan (qh r h t / h)).
Proof.
  intros Hh Hr Ht. unfold Gh, qh.
  assert (P : 0 < r * r - h * h - t * t) by lra.
  pose proof (sqrt_lt_R0 _ P) as Hq. pose proof (sqrt_sqrt _ (Rlt_le _ _ P)) as Q.
  auto_derive.
  - replace (r * r - h * h + - (t * t)) with (r * r - h * h - t * t) by ring.
    repeat split; try lra; apply Rgt_not_eq; try lra. apply Rmult_lt_0_compat; lra.
  - replace (r * r - h * h + - (t * t)) with (r * r - h * h - t * t) by ring.
    set (q := sqrt (r * r - h * h - t * t)) in *.
    match goal with |- 1 * ?a + ?A + ?B + ?C = _ => assert (E : A + B + C = 0) end.
    { assert (R2 : r ^ 2 = q ^ 2 + h ^ 2 + t ^ 2) by (simpl; lra).
      field_simplify_eq.
      - rewrite R2. ring.
      - repeat split; try (apply Rgt_not_eq; nra). }
    unfold Rdiv. lra.
Qed.
(* half-angle form of Gh: the same function for |t| < S = sqrt(r^2 - h^2), but
   continuous up to t = +-S, where q = 0 *)
Definition Fh (r h t : R) : R :=
  t * atan (qh r h t / h)
  + 2 * r * atan (h * t / (r * qh r h t + sqrt (r * r - h * h) * rho r t))
  - 2 * h * atan (t / (qh r h t + sqrt (r * r - h * h))).

Lemma S_facts r h : 0 < h < r ->
  0 < sqrt (r * r - h * h) < r /\ sqrt (r * r - h * h) * sqrt (r * r - h * h) = r * r - h * h.
Proof.
  intros H. assert (P : 0 < r * r - h * h) by nra.
  pose proof (sqrt_lt_R0 _ P) as S0. pose proof (sqrt_sqrt _ (Rlt_le _ _ P)) as S2.
  split; [split; [exact S0|nra]|exact S2].
Qed.

Lemma Fh_eq_Gh r h t : 0 < h < r -> t * t < r * r - h * h -> Fh r h t = Gh r h t.
Proof.
  intros H Ht. destruct (S_facts r h H) as [[S0 S1] S2]. unfold Fh, Gh, qh, rho.
  assert (P : 0 < r * r - h * h - t * t) by lra.
  pose proof (sqrt_lt_R0 _ P) as Hq. pose proof (sqrt_sqrt _ (Rlt_le _ _ P)) as Q.
  assert (Pr : 0 < r * r - t * t) by nra.
  pose proof (sqrt_lt_R0 _ Pr) as Hrho. pose proof (sqrt_sqrt _ (Rlt_le _ _ Pr)) as Q2.
  set (q := sqrt (r * r - h * h - t * t)) in *.
  set (S := sqrt (r * r - h * h)) in *. set (p := sqrt (r * r - t * t)) in *.
  rewrite (atan_half (r * q) (h * t)) by (apply Rmult_lt_0_compat; lra).
  rewrite (atan_half q t) by lra.
  replace (sqrt (q * q + t * t)) with S.
  2:{ symmetry. apply sqrt_lem_1; [nra|lra|]. rewrite S2, Q. ring. }
  replace (sqrt (r * q * (r * q) + h * t * (h * t))) with (S * p).
  2:{ symmetry. apply sqrt_lem_1; [nra|apply Rmult_le_pos; lra|].
      replace (S * p * (S * p)) with ((S * S) * (p * p)) by ring. rewrite S2, Q2.
      replace (r * q * (r * q)) with (r * r * (q * q)) by ring. rewrite Q. ring. }
  ring.
Qed.

Lemma Fh_derive r h t : 0 < h < r -> t * t < r * r - h * h ->
  is_derive (Fh r h) t (atan (qh r h t / h)).
Proof.
  intros H Ht. destruct (S_facts r h H) as [[S0 S1] S2].
  set (S := sqrt (r * r - h * h)) in *.
  apply (is_derive_ext_loc (Gh r h)).
  - apply (locally_interval _ t (- S) S); cbn.
    + nra.
    + nra.
    + intros y Y0 Y1. cbn in Y0, Y1. symmetry. apply Fh_eq_Gh; auto.
      assert (0 < (S - y) * (S + y)) by (apply Rmult_lt_0_compat; lra). nra.
  - apply Gh_derive; lra.
Qed.

Lemma Fh_continuous r h t : 0 < h < r -> t * t <= r * r - h * h -> continuous (Fh r h) t.
Proof.
  intros H Ht. destruct (S_facts r h H) as [[S0 S1] S2].
  pose proof (sqrt_pos (r * r - h * h - t * t)) as Hq.
  assert (Pr : 0 < r * r - t * t) by nra.
  pose proof (sqrt_lt_R0 _ Pr) as Hrho.
  unfold Fh, qh, rho.
  apply cont_minus; [apply cont_plus|]; apply cont_mult; try cont.
  - apply cont_atan, cont_div; [cont|cont|]. cbv beta.
    apply Rgt_not_eq. apply Rplus_le_lt_0_compat; [apply Rmult_le_pos; lra|apply Rmult_lt_0_compat; lra].
  - apply cont_atan, cont_div; [cont|cont|]. cbv beta. apply Rgt_not_eq. lra.
Qed.

Lemma qh_continuous r h t : continuous (fun t => atan (qh r h t / h)) t.
Proof.
  destruct (Req_dec h 0) as [Z|Z].
  - subst h. apply (continuous_ext (fun _ => atan (qh r 0 0 / 0))); [|apply cont_const].
    intros x. f_equal. unfold Rdiv. rewrite Rinv_0. ring.
  - unfold qh. cont.
Qed.

Lemma Fh_end r h : 0 < h < r ->
  Fh r h (sqrt (r * r - h * h)) = (r - h) * (PI / 2) /\ Fh r h (- sqrt (r * r - h * h)) = - ((r - h) * (PI / 2)).
Proof.
  intros H. destruct (S_facts r h H) as [[S0 S1] S2]. unfold Fh, qh, rho.
  set (S := sqrt (r * r - h * h)) in *.
  replace (- S * - S) with (S * S) by ring. rewrite S2.
  replace (r * r - h * h - (r * r - h * h)) with 0 by ring.
  replace (r * r - (r * r - h * h)) with (h * h) by ring.
  rewrite sqrt_0, (sqrt_square h) by lra.
  replace (0 / h) with 0 by (field; lra). rewrite atan_0.
  replace (h * S / (r * 0 + S * h)) with 1 by (field; lra).
  replace (h * - S / (r * 0 + S * h)) with (- (1)) by (field; lra).
  replace (S / (0 + S)) with 1 by (field; lra).
  replace (- S / (0 + S)) with (- (1)) by (field; lra).
  rewrite atan_opp, atan_1. split; field.
Qed.

(* the cap seen from an axis parallel to its base plane *)
Lemma cap_integral_core r h : 0 < h < r ->
  is_RInt (fun t => atan (qh r h t / h)) (- sqrt (r * r - h * h)) (sqrt (r * r - h * h)) (PI * (r - h)).
Proof.
  intros H. destruct (S_facts r h H) as [[S0 S1] S2]. destruct (Fh_end r h H) as [E1 E2].
  set (S := sqrt (r * r - h * h)) in *.
  apply is_RInt_val with (Fh r h S - Fh r h (- S)); [|rewrite E1, E2; field].
  apply FTC_open.
  - lra.
  - intros x. apply qh_continuous.
  - intros x Hx. apply Fh_continuous; auto. nra.
  - intros x Hx. apply Fh_derive; auto. nra.
Qed.

(* ------------------------------------------------------------------ *)
(* the slice radius                                                    *)
(* ------------------------------------------------------------------ *)
Lemma rho_pos r t : 0 < r -> - r < t < r ->
  0 < rho r t /\ rho r t * rho r t = r * r - t * t /\ rho r t <= r.
Proof.
  intros Hr Ht. unfold rho. assert (P : 0 < r * r - t * t) by nra.
  pose proof (sqrt_lt_R0 _ P). pose proof (sqrt_sqrt _ (Rlt_le _ _ P)).
  split; [auto|split; [auto|]]. destruct (rho_bounds r t Hr); lra.
Qed.

Lemma qh_zero r h t : r * r - h * h <= t * t -> qh r h t = 0.
Proof. intros H. unfold qh. apply sqrt_neg_0. lra. Qed.

Lemma qh_sqr r h t : t * t <= r * r - h * h -> 0 <= qh r h t /\ qh r h t * qh r h t = r * r - h * h - t * t.
Proof. intros H. unfold qh. split; [apply sqrt_pos|apply sqrt_sqrt; lra]. Qed.

(* acos(h / rho) = atan(q / h) where the wall at distance h reaches the slice *)
Lemma acos_atan_q r h t : 0 < h -> 0 < r -> - r < t < r -> h <= rho r t ->
  acos (h / rho r t) = atan (qh r h t / h).
Proof.
  intros Hh Hr Ht L. destruct (rho_pos r t Hr Ht) as (P0 & P2 & P1).
  assert (T2 : t * t <= r * r - h * h) by nra.
  destruct (qh_sqr r h t T2) as [Q0 Q2].
  set (p := rho r t) in *. set (q := qh r h t) in *.
  assert (X : 0 < h / p) by (apply Rdiv_lt_0_compat; lra).
  assert (Q2' : q * q = p * p - h * h) by lra.
  rewrite (acos_atan _ X). f_equal.
  replace (sqrt (1 - Rsqr (h / p))) with (q / p).
  - field. split; lra.
  - symmetry. apply sqrt_lem_1.
    + unfold Rsqr. replace (1 - h / p * (h / p)) with ((q * q) / (p * p)).
      * apply Rmult_le_pos; [nra|]. left. apply Rinv_0_lt_compat. nra.
      * rewrite Q2'. field. lra.
    + apply Rmult_le_pos; [lra|]. left. apply Rinv_0_lt_compat. lra.
    + unfold Rsqr. replace (q / p * (q / p)) with ((q * q) / (p * p)) by (field; lra).
      rewrite Q2'. field. lra.
Qed.

Lemma cap_term_atan r h t : 0 < h -> 0 < r -> - r < t < r ->
  cap_term h (rho r t) / rho r t = 2 * atan (qh r h t / h).
Proof.
  intros Hh Hr Ht. destruct (rho_pos r t Hr Ht) as (P0 & P2 & P1). unfold cap_term.
  destruct (Rlt_dec h (rho r t)) as [L|L].
  - unfold circle_cap_arclen. rewrite (acos_atan_q r h t) by lra. field. lra.
  - rewrite qh_zero by nra. unfold Rdiv. rewrite !Rmult_0_l, atan_0. ring.
Qed.

(* ------------------------------------------------------------------ *)
(* integrals that vanish outside a middle interval                     *)
(* ------------------------------------------------------------------ *)
Lemma is_RInt_middle (f : R -> R) a b c d v :
  a <= b -> b <= c -> c <= d ->
  (forall x, a < x < b -> f x = 0) -> (forall x, c < x < d -> f x = 0) ->
  is_RInt f b c v -> is_RInt f a d v.
Proof.
  intros H1 H2 H3 Z1 Z2 I.
  pose proof (is_RInt_const_on f a b 0 H1 Z1) as I1.
  pose proof (is_RInt_const_on f c d 0 H3 Z2) as I3.
  apply is_RInt_val with (plus (plus ((b - a) * 0) v) ((d - c) * 0)).
  - exact (is_RInt_Chasles (V := R_NormedModule) f a c d _ _
             (is_RInt_Chasles (V := R_NormedModule) f a b c _ _ I1 I) I3).
  - unfold plus; simpl. ring.
Qed.

(* ------------------------------------------------------------------ *)
(* the cap piece                                                       *)
(* ------------------------------------------------------------------ *)
Theorem cap_piece r h : 0 < r -> 0 <= h ->
  is_RInt (fun t => r * (cap_term h (rho r t) / rho r t)) (- r) r (scap_term h r).
Proof.
  intros Hr Hh. unfold scap_term. destruct (Rlt_dec h r) as [L|L].
  - destruct (Req_dec h 0) as [Z|Z].
    + subst h. unfold sphere_cap_area.
      apply is_RInt_val with ((r - - r) * (r * PI)); [|ring].
      apply is_RInt_const_on; [lra|]. intros t Ht.
      destruct (rho_pos r t Hr Ht) as (P0 & P2 & P1). unfold cap_term.
      destruct (Rlt_dec 0 (rho r t)); [|lra]. unfold circle_cap_arclen.
      rewrite zero_div, acos_0. field. lra.
    + assert (H : 0 < h < r) by lra. destruct (S_facts r h H) as [[S0 S1] S2].
      apply is_RInt_ext with (f := fun t => r * (2 * atan (qh r h t / h))).
      { intros t Ht. rewrite Rmin_left, Rmax_right in Ht by lra. rewrite cap_term_atan by lra. reflexivity. }
      apply is_RInt_val with (r * (2 * (PI * (r - h)))); [|unfold sphere_cap_area; ring].
      apply (is_RInt_scal (fun t => 2 * atan (qh r h t / h)) (- r) r r).
      apply (is_RInt_scal (fun t => atan (qh r h t / h)) (- r) r 2).
      set (S := sqrt (r * r - h * h)) in *.
      apply (is_RInt_middle _ (- r) (- S) S r); try lra.
      * intros x Hx. rewrite qh_zero by nra. unfold Rdiv. rewrite Rmult_0_l. apply atan_0.
      * intros x Hx. rewrite qh_zero by nra. unfold Rdiv. rewrite Rmult_0_l. apply atan_0.
      * apply cap_integral_core. exact H.
  - apply is_RInt_val with ((r - - r) * 0); [|ring].
    apply is_RInt_const_on; [lra|]. intros t Ht.
    destruct (rho_pos r t Hr Ht) as (P0 & P2 & P1). unfold cap_term.
    destruct (Rlt_dec h (rho r t)); [lra|]. unfold Rdiv. ring.
Qed.

(* ------------------------------------------------------------------ *)
(* the corner (edge-of-the-box) piece                                  *)
(* ------------------------------------------------------------------ *)
Lemma Gh_odd r h t : Gh r h (- t) = - Gh r h t.
Proof.
  unfold Gh, qh. replace (- t * - t) with (t * t) by ring.
  set (q := sqrt (r * r - h * h - t * t)).
  replace (h * - t / (r * q)) with (- (h * t / (r * q))) by (unfold Rdiv; ring).
  replace (- t / q) with (- (t / q)) by (unfold Rdiv; ring).
  rewrite !atan_opp. ring.
Qed.

Lemma T_facts r h1 h2 : 0 < h1 -> 0 < h2 -> h1 * h1 + h2 * h2 < r * r -> 0 < r ->
  let T := sqrt (r * r - h1 * h1 - h2 * h2) in
  0 < T /\ T * T = r * r - h1 * h1 - h2 * h2 /\ T < r /\ qh r h1 T = h2 /\ qh r h2 T = h1.
Proof.
  intros H1 H2 M Hr T. assert (P : 0 < r * r - h1 * h1 - h2 * h2) by lra.
  pose proof (sqrt_lt_R0 _ P) as T0. pose proof (sqrt_sqrt _ (Rlt_le _ _ P)) as T2. fold T in T0, T2.
  split; [exact T0|]. split; [exact T2|]. split; [nra|]. unfold qh. rewrite T2. split.
  - replace (r * r - h1 * h1 - (r * r - h1 * h1 - h2 * h2)) with (h2 * h2) by ring. apply sqrt_square. lra.
  - replace (r * r - h2 * h2 - (r * r - h1 * h1 - h2 * h2)) with (h1 * h1) by ring. apply sqrt_square. lra.
Qed.

Lemma edge_value r h1 h2 : 0 < h1 -> 0 < h2 -> h1 * h1 + h2 * h2 < r * r -> 0 < r ->
  let T := sqrt (r * r - h1 * h1 - h2 * h2) in
  2 * (Gh r h1 T + Gh r h2 T - PI / 2 * T) * r = sphere_edge_area h1 h2 r.
Proof.
  intros H1 H2 M Hr T. destruct (T_facts r h1 h2 H1 H2 M Hr) as (T0 & T2 & T1 & Q1 & Q2). fold T in T0, T2, T1, Q1, Q2.
  unfold Gh, sphere_edge_area. cbv zeta. fold T. rewrite Q1, Q2.
  assert (I12 : atan (h2 / h1) + atan (h1 / h2) = PI / 2).
  { replace (h1 / h2) with (/ (h2 / h1)) by (field; split; lra).
    rewrite atan_inv by (apply Rdiv_lt_0_compat; lra). lra. }
  assert (J2 : atan (T / h2) = PI / 2 - atan (h2 / T)).
  { replace (T / h2) with (/ (h2 / T)) by (field; split; lra).
    apply atan_inv. apply Rdiv_lt_0_compat; lra. }
  assert (J1 : atan (T / h1) = PI / 2 - atan (h1 / T)).
  { replace (T / h1) with (/ (h1 / T)) by (field; split; lra).
    apply atan_inv. apply Rdiv_lt_0_compat; lra. }
  assert (K : atan (h1 * T / (r * h2)) + atan (h2 * T / (r * h1)) + atan (h1 * h2 / (T * r)) = PI / 2).
  { apply atan_three.
    - apply Rdiv_lt_0_compat; [|apply Rmult_lt_0_compat; lra]. apply Rmult_lt_0_compat; lra.
    - apply Rdiv_lt_0_compat; [|apply Rmult_lt_0_compat; lra]. apply Rmult_lt_0_compat; lra.
    - apply Rdiv_lt_0_compat; [|apply Rmult_lt_0_compat; lra]. apply Rmult_lt_0_compat; lra.
    - replace (h1 * T / (r * h2) * (h2 * T / (r * h1))) with ((T * T) / (r * r)) by (field; repeat split; lra).
      apply Rmult_lt_reg_r with (r * r); [nra|]. unfold Rdiv. rewrite Rmult_assoc, Rinv_l by nra. nra.
    - field_simplify_eq; [|repeat split; lra].
      replace (r ^ 2) with (T * T + h1 * h1 + h2 * h2) by (simpl; lra). ring. }
  rewrite J1, J2.
  replace (atan (h1 * T / (r * h2))) with (PI / 2 - atan (h2 * T / (r * h1)) - atan (h1 * h2 / (T * r))) by lra.
  replace (atan (h2 / h1)) with (PI / 2 - atan (h1 / h2)) by lra.
  field.
Qed.

Lemma corner_integral_core r h1 h2 : 0 < h1 -> 0 < h2 -> h1 * h1 + h2 * h2 < r * r -> 0 < r ->
  let T := sqrt (r * r - h1 * h1 - h2 * h2) in
  is_RInt (fun t => atan (qh r h1 t / h1) + atan (qh r h2 t / h2) - PI / 2) (- T) T
          (2 * (Gh r h1 T + Gh r h2 T - PI / 2 * T)).
Proof.
  intros H1 H2 M Hr T. destruct (T_facts r h1 h2 H1 H2 M Hr) as (T0 & T2 & T1 & _). fold T in T0, T2, T1.
  set (F := fun t => Gh r h1 t + Gh r h2 t - PI / 2 * t).
  assert (D : forall x, - T <= x <= T ->
              is_derive F x (atan (qh r h1 x / h1) + atan (qh r h2 x / h2) - PI / 2)).
  { intros x Hx. assert (x * x <= T * T) by nra. unfold F.
    apply (is_derive_minus (V := R_NormedModule)); [apply (is_derive_plus (V := R_NormedModule))|].
    - apply Gh_derive; nra.
    - apply Gh_derive; nra.
    - auto_derive; auto. ring. }
  apply is_RInt_val with (F T - F (- T)).
  - apply FTC_open.
    + lra.
    + intros x. apply cont_minus; [apply cont_plus|apply cont_const]; apply qh_continuous.
    + intros x Hx. apply (ex_derive_continuous (V := R_NormedModule)). eexists. apply D. exact Hx.
    + intros x Hx. apply D. lra.
  - unfold F. rewrite !Gh_odd. ring.
Qed.

(* one of the two walls through the centre: half a cap *)
Lemma corner_term_zero_l h p : 0 <= h -> 0 < p -> corner_term 0 h p = cap_term h p / 2.
Proof.
  intros Hh Hp. unfold corner_term, cap_term.
  destruct (Rlt_dec (0 * 0 + h * h) (p * p)) as [A|A]; destruct (Rlt_dec h p) as [B|B]; try nra.
  unfold circle_corner_arclen, circle_cap_arclen. rewrite zero_div, asin_0. field.
Qed.

Lemma corner_term_zero_r h p : 0 <= h -> 0 < p -> corner_term h 0 p = cap_term h p / 2.
Proof.
  intros Hh Hp. unfold corner_term, cap_term.
  destruct (Rlt_dec (h * h + 0 * 0) (p * p)) as [A|A]; destruct (Rlt_dec h p) as [B|B]; try nra.
  unfold circle_corner_arclen, circle_cap_arclen. rewrite zero_div, acos_0.
  destruct (ratio_bounds h p (conj Hh B)). rewrite (asin_acos (h / p)) by lra. field.
Qed.

Lemma half_cap_piece r h : 0 < r -> 0 <= h ->
  is_RInt (fun t => r * (cap_term h (rho r t) / 2 / rho r t)) (- r) r (scap_term h r / 2).
Proof.
  intros Hr Hh.
  apply is_RInt_ext with (f := fun t => / 2 * (r * (cap_term h (rho r t) / rho r t))).
  { assert (E : forall t, / 2 * (r * (cap_term h (rho r t) / rho r t)) = r * (cap_term h (rho r t) / 2 / rho r t))
      by (intros; unfold Rdiv; ring).
    intros t _. apply E. }
  apply is_RInt_val with (/ 2 * scap_term h r); [|unfold Rdiv; ring].
  apply (is_RInt_scal (fun t => r * (cap_term h (rho r t) / rho r t)) (- r) r (/ 2)).
  apply cap_piece; assumption.
Qed.

Lemma corner_term_atan r h1 h2 t : 0 < h1 -> 0 < h2 -> 0 < r -> - r < t < r ->
  t * t < r * r - h1 * h1 - h2 * h2 ->
  corner_term h1 h2 (rho r t) / rho r t = atan (qh r h1 t / h1) + atan (qh r h2 t / h2) - PI / 2.
Proof.
  intros H1 H2 Hr Ht M. destruct (rho_pos r t Hr Ht) as (P0 & P2 & P1). unfold corner_term.
  destruct (Rlt_dec _ _) as [A|A]; [|nra].
  unfold circle_corner_arclen.
  assert (B1 : h1 < rho r t) by nra. assert (B2 : h2 < rho r t) by nra.
  destruct (ratio_bounds h1 (rho r t)) as [X0 X1]; [lra|].
  rewrite (asin_acos (h1 / rho r t)) by lra.
  rewrite (acos_atan_q r h1 t), (acos_atan_q r h2 t) by lra. field. lra.
Qed.

Theorem corner_piece r h1 h2 : 0 < r -> 0 <= h1 -> 0 <= h2 ->
  is_RInt (fun t => r * (corner_term h1 h2 (rho r t) / rho r t)) (- r) r (sedge_term h1 h2 r).
Proof.
  intros Hr H1 H2. unfold sedge_term. destruct (Rlt_dec _ _) as [M|M].
  - destruct (Req_dec h1 0) as [Z1|Z1]; [|destruct (Req_dec h2 0) as [Z2|Z2]].
    + subst h1. apply is_RInt_ext with (f := fun t => r * (cap_term h2 (rho r t) / 2 / rho r t)).
      { intros t Ht. rewrite Rmin_left, Rmax_right in Ht by lra.
        destruct (rho_pos r t Hr Ht) as (P0 & _). rewrite corner_term_zero_l by lra. reflexivity. }
      apply is_RInt_val with (scap_term h2 r / 2); [apply half_cap_piece; auto|].
      unfold scap_term. destruct (Rlt_dec h2 r); [|nra].
      rewrite sphere_edge_sym, sphere_edge_y0. reflexivity.
    + subst h2. apply is_RInt_ext with (f := fun t => r * (cap_term h1 (rho r t) / 2 / rho r t)).
      { intros t Ht. rewrite Rmin_left, Rmax_right in Ht by lra.
        destruct (rho_pos r t Hr Ht) as (P0 & _). rewrite corner_term_zero_r by lra. reflexivity. }
      apply is_RInt_val with (scap_term h1 r / 2); [apply half_cap_piece; auto|].
      unfold scap_term. destruct (Rlt_dec h1 r); [|nra].
      rewrite sphere_edge_y0. reflexivity.
    + assert (P1 : 0 < h1) by lra. assert (P2 : 0 < h2) by lra.
      destruct (T_facts r h1 h2 P1 P2 M Hr) as (T0 & T2 & T1 & _).
      pose proof (corner_integral_core r h1 h2 P1 P2 M Hr) as I. cbv zeta in I.
      pose proof (edge_value r h1 h2 P1 P2 M Hr) as V. cbv zeta in V.
      set (T := sqrt (r * r - h1 * h1 - h2 * h2)) in *.
      rewrite <- V.
      apply is_RInt_val with (r * (2 * (Gh r h1 T + Gh r h2 T - PI / 2 * T))); [|ring].
      apply (is_RInt_scal (fun t => corner_term h1 h2 (rho r t) / rho r t) (- r) r r).
      apply (is_RInt_middle _ (- r) (- T) T r); try lra.
      * intros x Hx. assert (Hx' : - r < x < r) by lra.
        destruct (rho_pos r x Hr Hx') as (Q0 & Q2 & Q1). unfold corner_term.
        destruct (Rlt_dec _ _) as [A|A]; [nra|]. unfold Rdiv. ring.
      * intros x Hx. assert (Hx' : - r < x < r) by lra.
        destruct (rho_pos r x Hr Hx') as (Q0 & Q2 & Q1). unfold corner_term.
        destruct (Rlt_dec _ _) as [A|A]; [nra|]. unfold Rdiv. ring.
      * apply is_RInt_ext with (f := fun t => atan (qh r h1 t / h1) + atan (qh r h2 t / h2) - PI / 2); [|exact I].
        intros t Ht. rewrite Rmin_left, Rmax_right in Ht by lra.
        symmetry. apply corner_term_atan; auto; [lra|nra].
  - apply is_RInt_val with ((r - - r) * 0); [|ring].
    apply is_RInt_const_on; [lra|]. intros t Ht.
    destruct (rho_pos r t Hr Ht) as (P0 & P2 & P1). unfold corner_term.
    destruct (Rlt_dec _ _) as [A|A]; [nra|]. unfold Rdiv. ring.
Qed.

(* ------------------------------------------------------------------ *)
(* all four lateral faces together                                     *)
(* ------------------------------------------------------------------ *)
Theorem lateral_integral r hl hr hb ht :
  0 < r -> 0 <= hl -> 0 <= hr -> 0 <= hb -> 0 <= ht ->
  is_RInt (fun t => r * (arclen_2d (rho r t) hl hr hb ht / rho r t)) (- r) r
    (4 * PI * (r * r) - scap_term hl r - scap_term hr r - scap_term hb r - scap_term ht r
     + sedge_term hl hb r + sedge_term hl ht r + sedge_term hr hb r + sedge_term hr ht r).
Proof.
  intros Hr Hl Hrr Hb Htt.
  pose proof (cap_piece r hl Hr Hl) as C1. pose proof (cap_piece r hr Hr Hrr) as C2.
  pose proof (cap_piece r hb Hr Hb) as C3. pose proof (cap_piece r ht Hr Htt) as C4.
  pose proof (corner_piece r hl hb Hr Hl Hb) as K1. pose proof (corner_piece r hl ht Hr Hl Htt) as K2.
  pose proof (corner_piece r hr hb Hr Hrr Hb) as K3. pose proof (corner_piece r hr ht Hr Hrr Htt) as K4.
  assert (C0 : is_RInt (fun _ : R => r * (2 * PI)) (- r) r (4 * PI * (r * r))).
  { apply is_RInt_val with ((r - - r) * (r * (2 * PI))); [|ring]. apply is_RInt_const_on; [lra|auto]. }
  pose proof (is_RInt_minus (V := R_NormedModule) _ _ _ _ _ _ C0 C1) as A1.
  pose proof (is_RInt_minus (V := R_NormedModule) _ _ _ _ _ _ A1 C2) as A2.
  pose proof (is_RInt_minus (V := R_NormedModule) _ _ _ _ _ _ A2 C3) as A3.
  pose proof (is_RInt_minus (V := R_NormedModule) _ _ _ _ _ _ A3 C4) as A4.
  pose proof (is_RInt_plus (V := R_NormedModule) _ _ _ _ _ _ A4 K1) as A5.
  pose proof (is_RInt_plus (V := R_NormedModule) _ _ _ _ _ _ A5 K2) as A6.
  pose proof (is_RInt_plus (V := R_NormedModule) _ _ _ _ _ _ A6 K3) as A7.
  pose proof (is_RInt_plus (V := R_NormedModule) _ _ _ _ _ _ A7 K4) as A8.
  set (g := fun t : R =>
    r * (2 * PI) - r * (cap_term hl (rho r t) / rho r t) - r * (cap_term hr (rho r t) / rho r t)
    - r * (cap_term hb (rho r t) / rho r t) - r * (cap_term ht (rho r t) / rho r t)
    + r * (corner_term hl hb (rho r t) / rho r t) + r * (corner_term hl ht (rho r t) / rho r t)
    + r * (corner_term hr hb (rho r t) / rho r t) + r * (corner_term hr ht (rho r t) / rho r t)).
  assert (E : forall t, 0 < rho r t -> g t = r * (arclen_2d (rho r t) hl hr hb ht / rho r t)).
  { intros t P0. unfold g, arclen_2d. field. lra. }
  apply is_RInt_ext with (f := g).
  { intros t Ht. rewrite Rmin_left, Rmax_right in Ht by lra.
    destruct (rho_pos r t Hr Ht) as (P0 & _). apply E. exact P0. }
  exact A8.
Qed.
