(* Proofs for property C17 (MSD).  Model: Model/MSD.v, statement side:
   Model/MSDSpec.v.  Everything is over Qc (Leibniz equality). *)
From Coq Require Import ZArith QArith Qcanon List Bool Lia Permutation Sorted Field.
From TP Require Import Model.MSD Model.MSDSpec.
Import ListNotations.
Open Scope Qc_scope.

(* ------------------------------------------------------------------ *)
(** * Numbers *)

Lemma Q2Qc_plus : forall a b : Q, Q2Qc (a + b) = Q2Qc a + Q2Qc b.
Proof.
  intros. unfold Qcplus. apply Q2Qc_eq_iff. simpl.
  rewrite !Qred_correct. reflexivity.
Qed.

Lemma zq_plus : forall a b : Z, zq (a + b) = zq a + zq b.
Proof. intros. unfold zq. rewrite inject_Z_plus. apply Q2Qc_plus. Qed.

Lemma nq_plus : forall a b : nat, nq (a + b) = nq a + nq b.
Proof. intros. unfold nq. rewrite Nat2Z.inj_add. apply zq_plus. Qed.

Lemma nq_0 : nq 0 = 0.
Proof. apply Qc_is_canon. reflexivity. Qed.

Lemma nq_1 : nq 1 = 1.
Proof. apply Qc_is_canon. reflexivity. Qed.

Lemma nq_S : forall n, nq (S n) = 1 + nq n.
Proof. intros. change (S n) with (1 + n)%nat. rewrite nq_plus, nq_1. reflexivity. Qed.

Lemma nq_inj : forall a b : nat, nq a = nq b -> a = b.
Proof.
  intros a b H. unfold nq, zq in H. apply Q2Qc_eq_iff in H.
  apply (proj1 (inject_Z_injective _ _)) in H. lia.
Qed.

Lemma nq_nonzero : forall n, n <> 0%nat -> nq n <> 0.
Proof. intros n H E. rewrite <- nq_0 in E. apply nq_inj in E. contradiction. Qed.

(* ------------------------------------------------------------------ *)
(** * Sums *)

Lemma qsum_app : forall l1 l2, qsum (l1 ++ l2) = qsum l1 + qsum l2.
Proof. induction l1; intros; simpl. ring. rewrite IHl1. ring. Qed.

Lemma qsum_rev : forall l, qsum (rev l) = qsum l.
Proof. induction l; simpl; auto. rewrite qsum_app, IHl. simpl. ring. Qed.

Lemma qsum_map_plus : forall (A : Type) (f g : A -> Qc) l,
  qsum (map (fun x => f x + g x) l) = qsum (map f l) + qsum (map g l).
Proof. induction l; simpl. ring. rewrite IHl. ring. Qed.

Lemma qsum_map_scal : forall (A : Type) (c : Qc) (f : A -> Qc) l,
  qsum (map (fun x => c * f x) l) = c * qsum (map f l).
Proof. induction l; simpl. ring. rewrite IHl. ring. Qed.

Lemma qsum_map_zero : forall (A : Type) (f : A -> Qc) l,
  (forall x, In x l -> f x = 0) -> qsum (map f l) = 0.
Proof.
  induction l; simpl; intros; auto.
  rewrite H by auto. rewrite IHl by auto. ring.
Qed.

Lemma qsum_map_ext : forall (A : Type) (f g : A -> Qc) l,
  (forall x, In x l -> f x = g x) -> qsum (map f l) = qsum (map g l).
Proof. intros. f_equal. apply map_ext_in. auto. Qed.

Lemma qsum_filter : forall (A : Type) (p : A -> bool) (g : A -> Qc) l,
  qsum (map g (filter p l)) = qsum (map (fun x => if p x then g x else 0) l).
Proof.
  induction l; simpl; auto. destruct (p a); simpl; rewrite IHl; ring.
Qed.

Lemma qsum_list_prod : forall (A B : Type) (g : A * B -> Qc) l l',
  qsum (map g (list_prod l l')) = qsum (map (fun a => qsum (map (fun b => g (a, b)) l')) l).
Proof.
  induction l; intros; simpl; auto.
  rewrite map_app, qsum_app, map_map, IHl. reflexivity.
Qed.

Lemma qsum_ones : forall (A : Type) (l : list A), qsum (map (fun _ => 1) l) = nq (length l).
Proof. induction l; simpl. symmetry; apply nq_0. rewrite IHl, nq_S. reflexivity. Qed.

Lemma qsum_swap : forall (A B : Type) (f : A -> B -> Qc) l1 l2,
  qsum (map (fun a => qsum (map (fun b => f a b) l2)) l1) =
  qsum (map (fun b => qsum (map (fun a => f a b) l1)) l2).
Proof.
  induction l1; intros; simpl.
  - symmetry. apply qsum_map_zero. auto.
  - rewrite IHl1. rewrite <- qsum_map_plus. reflexivity.
Qed.

Lemma qsum_perm : forall l l', Permutation l l' -> qsum l = qsum l'.
Proof. induction 1; simpl; try congruence; ring. Qed.

Lemma mean_eq : forall X Y, qsum X = qsum Y -> length X = length Y -> mean X = mean Y.
Proof.
  intros X Y HS HL. destruct X, Y; simpl in HL; try discriminate; auto.
  unfold mean. rewrite HS. simpl length. rewrite HL. reflexivity.
Qed.

(* ------------------------------------------------------------------ *)
(** * map2, nth, firstn, skipn *)

Lemma map2_length : forall (A B C : Type) (f : A -> B -> C) l1 l2,
  length (map2 f l1 l2) = Nat.min (length l1) (length l2).
Proof. induction l1; destruct l2; simpl; auto. Qed.

Lemma map2_index : forall (A B C : Type) (f : A -> B -> C) (d1 : A) (d2 : B) l1 l2,
  map2 f l1 l2 = map (fun i => f (nth i l1 d1) (nth i l2 d2)) (seq 0 (Nat.min (length l1) (length l2))).
Proof.
  induction l1; destruct l2; simpl; auto.
  rewrite IHl1. rewrite <- seq_shift, map_map. reflexivity.
Qed.

Lemma nth_skipn' : forall (A : Type) (d : A) m i (l : list A), nth i (skipn m l) d = nth (m + i) l d.
Proof. induction m; intros; simpl; auto. destruct l; simpl; auto. destruct i; auto. Qed.

Lemma nth_firstn' : forall (A : Type) (d : A) m i (l : list A), (i < m)%nat -> nth i (firstn m l) d = nth i l d.
Proof.
  induction m; intros; [lia|]. destruct l; simpl; auto. destruct i; auto. apply IHm. lia.
Qed.

Lemma firstn_map2 : forall (A B C : Type) (f : A -> B -> C) m l1 l2,
  firstn m (map2 f l1 l2) = map2 f (firstn m l1) (firstn m l2).
Proof.
  induction m; intros; simpl; auto. destruct l1, l2; simpl; auto. f_equal. apply IHm.
Qed.

Lemma qsum_map2_plus : forall l1 l2, length l1 = length l2 ->
  qsum (map2 Qcplus l1 l2) = qsum l1 + qsum l2.
Proof.
  induction l1; destruct l2; simpl; intros; try discriminate. ring.
  rewrite IHl1 by lia. ring.
Qed.

Lemma nth_map' : forall (A B : Type) (f : A -> B) (d : A) (d' : B) l i,
  (i < length l)%nat -> nth i (map f l) d' = f (nth i l d).
Proof.
  induction l; simpl; intros; [lia|]. destruct i; auto. apply IHl. lia.
Qed.

Lemma nth_map2 : forall (A B C : Type) (f : A -> B -> C) (d1 : A) (d2 : B) (d : C) l1 l2 i,
  (i < length l1)%nat -> (i < length l2)%nat ->
  nth i (map2 f l1 l2) d = f (nth i l1 d1) (nth i l2 d2).
Proof.
  induction l1; destruct l2; simpl; intros; try lia. destruct i; auto. apply IHl1; lia.
Qed.

Lemma cumsum_from_length : forall l a, length (cumsum_from a l) = length l.
Proof. induction l; simpl; auto. Qed.

Lemma cumsum_from_nth : forall l a k, (k < length l)%nat ->
  nth k (cumsum_from a l) 0 = a + qsum (firstn (S k) l).
Proof.
  induction l; simpl; intros; [lia|]. destruct k.
  - destruct l; simpl; ring.
  - rewrite IHl by lia. simpl. ring.
Qed.

(* ------------------------------------------------------------------ *)
(** * The FFT path: S1(m) - 2 S2(m) is the sum of squared displacements *)

Lemma sq_zip_expand : forall a b,
  qsum (map2 (fun x y => sqr (y - x)) a b) =
  qsum (map2 (fun x _ => sqr x) a b) + qsum (map2 (fun _ y => sqr y) a b) - q2 * dot a b.
Proof.
  unfold dot. induction a; destruct b; simpl; try (unfold q2; ring).
  rewrite IHa. unfold sqr, q2. ring.
Qed.

Lemma zip_left : forall (f : Qc -> Qc) a b,
  qsum (map2 (fun x (_ : Qc) => f x) a b) = qsum (map f (firstn (length b) a)).
Proof. induction a; destruct b; simpl; auto. rewrite IHa. reflexivity. Qed.

Lemma zip_right : forall (f : Qc -> Qc) a b,
  qsum (map2 (fun (_ : Qc) y => f y) a b) = qsum (map f (firstn (length a) b)).
Proof. induction a; destruct b; simpl; auto. rewrite IHa. reflexivity. Qed.

Lemma qsum_split : forall j l, qsum l = qsum (firstn j l) + qsum (skipn j l).
Proof. intros. rewrite <- qsum_app, firstn_skipn. reflexivity. Qed.

(* the algebraic heart: with D = r^2, T = sum D,
   2T - sum_{j<m} (D_j + D_{N-1-j}) - 2 sum_i r_i r_{i+m} = sum_{i<N-m} (r_{i+m} - r_i)^2 *)
Lemma fft_identity : forall (r : list Qc) (m : nat), (m <= length r)%nat ->
  let D := map sqr r in
  q2 * qsum D - (qsum (firstn m D) + qsum (firstn m (rev D))) - q2 * autocorr r m
  = qsum (map2 (fun x y => sqr (y - x)) r (skipn m r)).
Proof.
  intros r m Hm D. rewrite sq_zip_expand. unfold autocorr.
  rewrite zip_left, zip_right. rewrite skipn_length.
  rewrite (firstn_all2 (n := length r) (skipn m r)) by (rewrite skipn_length; lia).
  rewrite firstn_rev, qsum_rev. unfold D. rewrite map_length.
  rewrite <- !firstn_map, <- !skipn_map. fold D.
  rewrite (qsum_split m D) at 1.
  pose proof (qsum_split (length r - m) D) as E.
  assert (qsum (firstn m D) + qsum (skipn m D) = qsum (firstn (length r - m) D) + qsum (skipn (length r - m) D)) as E2
    by (rewrite <- !qsum_split; reflexivity).
  set (F1 := qsum (firstn m D)) in *. set (K1 := qsum (skipn m D)) in *.
  set (F2 := qsum (firstn (length r - m) D)) in *. set (K2 := qsum (skipn (length r - m) D)) in *.
  assert (F1 = F2 + K2 - K1) as -> by (rewrite <- E2; ring).
  unfold q2. ring.
Qed.

(* entry k of the squared-displacement column of _msd_fft *)
Lemma fft_sq_nth : forall (r : list Qc) (L k : nat), (k < L)%nat -> (L <= length r - 1)%nat ->
  nth k (fft_sq r L) 0 =
  qsum (map2 (fun x y => sqr (y - x)) r (skipn (S k) r)) / nq (length r - S k).
Proof.
  intros r L k Hk HL. unfold fft_sq.
  assert (HlenD : length (map sqr r) = length r) by apply map_length.
  set (D := map sqr r) in *.
  assert (Hl1 : length (map2 Qcplus (firstn L D) (firstn L (rev D))) = L).
  { rewrite map2_length, !firstn_length, rev_length. lia. }
  rewrite (nth_map2 _ _ _ _ 0 0%nat).
  2:{ rewrite map2_length, map_length, map_length. unfold cumsum. rewrite cumsum_from_length, Hl1.
      unfold lags. rewrite seq_length. lia. }
  2:{ unfold lags. rewrite seq_length. lia. }
  unfold lags at 2. rewrite seq_nth by lia. simpl plus.
  rewrite (nth_map2 _ _ _ _ 0 0).
  2:{ rewrite map_length. unfold cumsum. rewrite cumsum_from_length, Hl1. lia. }
  2:{ rewrite map_length. unfold lags. rewrite seq_length. lia. }
  rewrite (nth_map' _ _ _ 0) by (unfold cumsum; rewrite cumsum_from_length, Hl1; lia).
  rewrite (nth_map' _ _ _ 0%nat) by (unfold lags; rewrite seq_length; lia).
  unfold lags. rewrite seq_nth by lia. simpl plus.
  unfold cumsum. rewrite cumsum_from_nth by lia.
  rewrite firstn_map2, !firstn_firstn. rewrite (Nat.min_l (S k) L) by lia.
  rewrite qsum_map2_plus by (rewrite !firstn_length, rev_length; lia).
  rewrite <- (fft_identity r (S k)) by lia. fold D.
  f_equal. ring.
Qed.

(* ------------------------------------------------------------------ *)
(** * The two paths agree on a gap-free column *)

Lemma somes_map_Some : forall l, somes (map Some l) = l.
Proof. induction l; simpl; congruence. Qed.

Lemma map2_osub_Some : forall a b, map2 osub (map Some a) (map Some b) = map Some (map2 Qcminus a b).
Proof. induction a; destruct b; simpl; auto. rewrite IHa. reflexivity. Qed.

Lemma map_map2 : forall (A B C D : Type) (g : C -> D) (f : A -> B -> C) a b,
  map g (map2 f a b) = map2 (fun x y => g (f x y)) a b.
Proof. induction a; destruct b; simpl; auto. rewrite IHa. reflexivity. Qed.

Lemma map2_flip : forall (A B C : Type) (f : A -> B -> C) a b,
  map2 f a b = map2 (fun y x => f x y) b a.
Proof. induction a; destruct b; simpl; auto. rewrite IHa. reflexivity. Qed.

Lemma map2_firstn_l : forall (A B C : Type) (f : A -> B -> C) a b,
  map2 f (firstn (length b) a) b = map2 f a b.
Proof. induction a; destruct b; simpl; auto. rewrite IHa. reflexivity. Qed.

Lemma mean_nonempty : forall X, length X <> 0%nat -> mean X = Some (qsum X / nq (length X)).
Proof. destruct X; simpl; intros; [contradiction | reflexivity]. Qed.

Theorem fft_sq_eq_gaps_col : forall (c : list Qc) (L k : nat),
  (k < L)%nat -> (L <= length c - 1)%nat ->
  Some (nth k (fft_sq c L) 0) = gaps_col sqr (S k) (map Some c).
Proof.
  intros c L k Hk HL. rewrite (fft_sq_nth c L k Hk HL).
  unfold gaps_col, shift_diff, nanmean. rewrite map_length.
  rewrite skipn_map, firstn_map, map2_osub_Some.
  rewrite map_map. simpl option_map.
  rewrite <- (map_map (fun x => sqr x) Some), somes_map_Some.
  rewrite map_map2.
  replace (length c - S k)%nat with (length (skipn (S k) c)) by (rewrite skipn_length; lia).
  rewrite (map2_flip _ _ _ _ (skipn (S k) c)), map2_firstn_l.
  rewrite mean_nonempty.
  - rewrite map2_length, skipn_length. rewrite Nat.min_r by lia. reflexivity.
  - rewrite map2_length, skipn_length. lia.
Qed.

(* ------------------------------------------------------------------ *)
(** * Sums over all pairs n frames apart, as sums over the frame range *)

Definition keys (t : list row) : list Z := map fst t.

Lemma lookup_cons : forall k a t,
  lookup k (a :: t) = if (fst a =? k)%Z then Some (snd a) else lookup k t.
Proof. intros. unfold lookup. simpl. destruct (fst a =? k)%Z; reflexivity. Qed.

Lemma lookup_notin : forall k t, ~ In k (keys t) -> lookup k t = None.
Proof.
  induction t; intros; auto. rewrite lookup_cons.
  destruct (Z.eqb_spec (fst a) k).
  - exfalso. apply H. left. auto.
  - apply IHt. intro. apply H. right. auto.
Qed.

Lemma lookup_in : forall f v t, NoDup (keys t) -> In (f, v) t -> lookup f t = Some v.
Proof.
  induction t; simpl; intros ND HI; [contradiction|].
  rewrite lookup_cons. inversion ND; subst. destruct HI as [E | HI].
  - subst a. simpl. rewrite Z.eqb_refl. reflexivity.
  - destruct (Z.eqb_spec (fst a) f).
    + exfalso. apply H1. subst f. apply (in_map fst) in HI. exact HI.
    + auto.
Qed.

Lemma inner_sum : forall (G : vec -> Qc) k t, NoDup (keys t) ->
  qsum (map (fun b => if (fst b =? k)%Z then G (snd b) else 0) t)
  = match lookup k t with Some v => G v | None => 0 end.
Proof.
  induction t; intros ND; simpl; [reflexivity|].
  rewrite lookup_cons. inversion ND; subst.
  destruct (Z.eqb_spec (fst a) k).
  - rewrite IHt by auto. rewrite lookup_notin by (subst; auto). ring.
  - rewrite IHt by auto. ring.
Qed.

Lemma single_hit : forall (X : Qc) (f0 x : Z) len s,
  (f0 + Z.of_nat s <= x < f0 + Z.of_nat (s + len))%Z ->
  qsum (map (fun i => if (x =? f0 + Z.of_nat i)%Z then X else 0) (seq s len)) = X.
Proof.
  induction len; intros s H; [lia|]. simpl.
  destruct (Z.eqb_spec x (f0 + Z.of_nat s)).
  - rewrite qsum_map_zero. ring.
    intros i Hi. apply in_seq in Hi. destruct (Z.eqb_spec x (f0 + Z.of_nat i)); auto. lia.
  - rewrite IHlen by lia. ring.
Qed.

Lemma outer_sum : forall (F : Z -> vec -> Qc) f0 len t, NoDup (keys t) ->
  (forall a, In a t -> (f0 <= fst a < f0 + Z.of_nat len)%Z) ->
  qsum (map (fun a => F (fst a) (snd a)) t) =
  qsum (map (fun i => match lookup (f0 + Z.of_nat i) t with
                      | Some v => F (f0 + Z.of_nat i)%Z v | None => 0 end) (seq 0 len)).
Proof.
  induction t; intros ND HR.
  - simpl. symmetry. apply qsum_map_zero. reflexivity.
  - inversion ND; subst.
    rewrite (qsum_map_ext _ _
      (fun i => (if (fst a =? f0 + Z.of_nat i)%Z then F (fst a) (snd a) else 0) +
                match lookup (f0 + Z.of_nat i) t with
                | Some v => F (f0 + Z.of_nat i)%Z v | None => 0 end)).
    + rewrite qsum_map_plus. rewrite single_hit.
      * simpl. rewrite <- IHt; auto. intros; apply HR; right; auto.
      * specialize (HR a (or_introl eq_refl)). simpl. lia.
    + intros i _. rewrite lookup_cons.
      destruct (Z.eqb_spec (fst a) (f0 + Z.of_nat i)).
      * rewrite lookup_notin by (rewrite <- e; auto). rewrite e. ring.
      * ring.
Qed.

Definition in_range (f0 : Z) (len : nat) (t : list row) : Prop :=
  forall a, In a t -> (f0 <= fst a < f0 + Z.of_nat len)%Z.

Lemma pairs_sum : forall (g : vec -> vec -> Qc) (n : Z) f0 len t,
  NoDup (keys t) -> in_range f0 len t ->
  qsum (map (fun ab => g (snd (fst ab)) (snd (snd ab))) (pairs n t)) =
  qsum (map (fun i => match lookup (f0 + Z.of_nat i) t with
                      | Some v => match lookup (f0 + Z.of_nat i + n) t with
                                  | Some w => g v w | None => 0 end
                      | None => 0 end) (seq 0 len)).
Proof.
  intros g n f0 len t ND HR. unfold pairs.
  rewrite qsum_filter, qsum_list_prod. simpl.
  etransitivity;
    [| exact (outer_sum (fun f v => match lookup (f + n) t with Some w => g v w | None => 0 end)
                        f0 len t ND HR)].
  apply qsum_map_ext. intros a _. simpl.
  rewrite <- (inner_sum (fun w => g (snd a) w)) by auto.
  apply qsum_map_ext. intros b _.
  destruct (Z.eqb_spec (fst b - fst a) n); destruct (Z.eqb_spec (fst b) (fst a + n)); auto; lia.
Qed.

Lemma tail_cut : forall (T : vec -> vec -> Qc) (n : nat) f0 len t,
  in_range f0 len t -> (n <= len)%nat ->
  qsum (map (fun i => match lookup (f0 + Z.of_nat i) t with
                      | Some v => match lookup (f0 + Z.of_nat i + Z.of_nat n) t with
                                  | Some w => T v w | None => 0 end
                      | None => 0 end) (seq 0 len)) =
  qsum (map (fun i => match lookup (f0 + Z.of_nat i) t with
                      | Some v => match lookup (f0 + Z.of_nat i + Z.of_nat n) t with
                                  | Some w => T v w | None => 0 end
                      | None => 0 end) (seq 0 (len - n))).
Proof.
  intros T n f0 len t HR Hn.
  replace len with ((len - n) + n)%nat at 1 by lia.
  rewrite seq_app, map_app, qsum_app. simpl plus.
  rewrite (qsum_map_zero _ _ (seq (len - n) n)). ring.
  intros i Hi. apply in_seq in Hi.
  rewrite (lookup_notin (f0 + Z.of_nat i + Z.of_nat n)).
  - destruct (lookup (f0 + Z.of_nat i) t); reflexivity.
  - intro HI. unfold keys in HI. apply in_map_iff in HI. destruct HI as [a [E HI]].
    apply HR in HI. lia.
Qed.

(* ------------------------------------------------------------------ *)
(** * The gap path: reindex, shifted difference, nanmean *)

Lemma somes_sum : forall (f : Qc -> Qc) l,
  qsum (somes (map (option_map f) l)) =
  qsum (map (fun o => match o with Some x => f x | None => 0 end) l).
Proof. induction l as [|[x|] l]; simpl; auto. rewrite IHl. reflexivity. rewrite IHl. ring. Qed.

Lemma somes_map : forall (f : Qc -> Qc) l, map f (somes l) = somes (map (option_map f) l).
Proof. induction l as [|[x|] l]; simpl; auto. rewrite IHl. reflexivity. Qed.

Definition gcol (d : nat) (mpp : Qc) (t : list row) (f0 : Z) (len : nat) : list (option Qc) :=
  map (option_map (coord d mpp)) (reindex t f0 len).

Lemma gcol_length : forall d mpp t f0 len, length (gcol d mpp t f0 len) = len.
Proof. intros. unfold gcol, reindex. rewrite !map_length, seq_length. reflexivity. Qed.

Lemma gcol_nth : forall d mpp t f0 len i, (i < len)%nat ->
  nth i (gcol d mpp t f0 len) None = option_map (coord d mpp) (lookup (f0 + Z.of_nat i) t).
Proof.
  intros. unfold gcol, reindex. rewrite map_map.
  rewrite (nth_map' _ _ _ 0%nat) by (rewrite seq_length; lia).
  rewrite seq_nth by lia. reflexivity.
Qed.

Lemma shift_diff_index : forall m c, (m <= length c)%nat ->
  shift_diff m c = map (fun i => osub (nth (m + i) c None) (nth i c None)) (seq 0 (length c - m)).
Proof.
  intros. unfold shift_diff. rewrite (map2_index _ _ _ _ None None).
  rewrite skipn_length, firstn_length.
  replace (Nat.min (length c - m) (Nat.min (length c - m) (length c))) with (length c - m)%nat by lia.
  apply map_ext_in. intros i Hi. apply in_seq in Hi.
  rewrite nth_skipn', nth_firstn' by lia. reflexivity.
Qed.

Lemma gaps_sum : forall (stat : Qc -> Qc) d mpp t f0 len m,
  NoDup (keys t) -> in_range f0 len t -> (m <= len)%nat ->
  qsum (somes (map (option_map stat) (shift_diff m (gcol d mpp t f0 len)))) =
  qsum (map (fun ab => stat (coord d mpp (snd (snd ab)) - coord d mpp (snd (fst ab))))
            (pairs (Z.of_nat m) t)).
Proof.
  intros stat d mpp t f0 len m ND HR Hm.
  rewrite somes_sum, shift_diff_index by (rewrite gcol_length; lia).
  rewrite gcol_length, map_map.
  rewrite (pairs_sum (fun a b => stat (coord d mpp b - coord d mpp a)) (Z.of_nat m) f0 len t ND HR).
  rewrite tail_cut by auto.
  apply qsum_map_ext. intros i Hi. apply in_seq in Hi.
  rewrite !gcol_nth by lia.
  replace (f0 + Z.of_nat (m + i))%Z with (f0 + Z.of_nat i + Z.of_nat m)%Z by lia.
  destruct (lookup (f0 + Z.of_nat i) t), (lookup (f0 + Z.of_nat i + Z.of_nat m) t); reflexivity.
Qed.

(* one column of the gap path is the mean over all pairs *)
Theorem gaps_col_def : forall (stat : Qc -> Qc) d mpp t f0 len m,
  NoDup (keys t) -> in_range f0 len t -> (m <= len)%nat ->
  gaps_col stat m (gcol d mpp t f0 len) =
  mean (map (fun ab => stat (coord d mpp (snd (snd ab)) - coord d mpp (snd (fst ab))))
            (pairs (Z.of_nat m) t)).
Proof.
  intros stat d mpp t f0 len m ND HR Hm. unfold gaps_col, nanmean.
  apply mean_eq.
  - apply gaps_sum; auto.
  - apply nq_inj. rewrite <- !qsum_ones.
    rewrite (somes_map (fun _ => 1)), map_map.
    rewrite (map_ext (fun x => option_map (fun _ : Qc => 1) (option_map stat x)) (option_map (fun _ => 1)))
      by (intros [x|]; reflexivity).
    rewrite (gaps_sum (fun _ => 1)); auto.
    rewrite map_map. reflexivity.
Qed.

(* ------------------------------------------------------------------ *)
(** * From per-axis means to the mean of the squared displacement *)

Lemma osum_Some : forall xs, osum (map Some xs) = Some (qsum xs).
Proof. induction xs; simpl; auto. rewrite IHxs. reflexivity. Qed.

Lemma osum_means : forall (A : Type) (h : nat -> A -> Qc) (P : list A) ds, ds <> [] ->
  osum (map (fun d => mean (map (h d) P)) ds) =
  mean (map (fun ab => qsum (map (fun d => h d ab) ds)) P).
Proof.
  intros A h P ds Hds. destruct P as [|p P].
  - destruct ds; [contradiction|]. reflexivity.
  - rewrite (map_ext (fun d => mean (map (h d) (p :: P)))
                     (fun d => Some (qsum (map (h d) (p :: P)) / nq (S (length P))))).
    2:{ intros d. rewrite mean_nonempty; rewrite map_length; simpl; auto. }
    rewrite <- (map_map (fun d => qsum (map (h d) (p :: P)) / nq (S (length P))) Some).
    rewrite osum_Some. rewrite mean_nonempty by (rewrite map_length; simpl; auto).
    rewrite map_length. simpl length. f_equal.
    rewrite (qsum_map_ext _ (fun d => qsum (map (h d) (p :: P)) / nq (S (length P)))
                          (fun d => / nq (S (length P)) * qsum (map (h d) (p :: P))))
      by (intros; unfold Qcdiv; ring).
    rewrite qsum_map_scal. rewrite (qsum_swap _ _ (fun d ab => h d ab)).
    unfold Qcdiv. ring.
Qed.

Lemma axis_sum_sqdisp : forall mpp ndim (a b : row),
  qsum (map (fun d => sqr (coord d mpp (snd b) - coord d mpp (snd a))) (seq 0 ndim)) = sqdisp mpp ndim a b.
Proof.
  intros. unfold sqdisp. rewrite <- qsum_map_scal. apply qsum_map_ext.
  intros d _. unfold coord, sqr. ring.
Qed.

Lemma axis_means_msd : forall mpp ndim t m, (0 < ndim)%nat ->
  osum (map (fun d => axis_sq_def mpp d t m) (seq 0 ndim)) = msd_def mpp ndim t m.
Proof.
  intros. unfold axis_sq_def, msd_def.
  rewrite (osum_means _ (fun d ab => sqr (coord d mpp (snd (snd ab)) - coord d mpp (snd (fst ab))))).
  - f_equal. apply map_ext. intros ab. apply axis_sum_sqdisp.
  - destruct ndim; [lia|]. discriminate.
Qed.

(* ------------------------------------------------------------------ *)
(** * Sorting by frame *)

Definition fle (a b : row) : Prop := (fst a <= fst b)%Z.

Lemma insert_perm : forall r l, Permutation (insert r l) (r :: l).
Proof.
  induction l; simpl; auto. destruct (fst r <=? fst a)%Z; auto.
  rewrite IHl. apply perm_swap.
Qed.

Lemma isort_perm : forall l, Permutation (isort l) l.
Proof. induction l; simpl; auto. rewrite insert_perm. auto. Qed.

Lemma insert_sorted : forall r l, StronglySorted fle l -> StronglySorted fle (insert r l).
Proof.
  induction l; simpl; intros H.
  - constructor; constructor.
  - inversion H; subst. destruct (fst r <=? fst a)%Z eqn:E.
    + constructor; auto. constructor.
      * apply Z.leb_le in E. exact E.
      * apply Z.leb_le in E. eapply Forall_impl; [|exact H3]. unfold fle. intros; lia.
    + constructor; auto.
      apply (Permutation_Forall (Permutation_sym (insert_perm r l))).
      constructor; auto. apply Z.leb_gt in E. unfold fle. lia.
Qed.

Lemma isort_sorted : forall l, StronglySorted fle (isort l).
Proof. induction l; simpl. constructor. apply insert_sorted. auto. Qed.

Lemma sorted_strict : forall l, StronglySorted fle l -> NoDup (keys l) -> StronglySorted Z.lt (keys l).
Proof.
  induction l; simpl; intros HS ND. constructor.
  inversion HS; subst. inversion ND; subst. constructor; auto.
  apply Forall_forall. intros x Hx.
  assert (x <> fst a) by (intro; subst; contradiction).
  unfold keys in Hx. apply in_map_iff in Hx. destruct Hx as [b [E Hb]].
  rewrite Forall_forall in H2. apply H2 in Hb. unfold fle in Hb. lia.
Qed.

Lemma last_default : forall (A : Type) (l : list A) a d d', last (a :: l) d = last (a :: l) d'.
Proof. induction l; intros; auto. change (last (a0 :: a :: l) d) with (last (a :: l) d).
  change (last (a0 :: a :: l) d') with (last (a :: l) d'). apply IHl. Qed.

Lemma sorted_span_lower : forall l x, StronglySorted Z.lt (x :: l) ->
  (last (x :: l) x - x + 1 >= Z.of_nat (length (x :: l)))%Z.
Proof.
  induction l; intros x H. simpl; lia.
  inversion H; subst. inversion H3; subst. specialize (IHl a H2).
  change (last (x :: a :: l) x) with (last (a :: l) x).
  rewrite (last_default _ l a x a). simpl length in *. lia.
Qed.

Lemma sorted_contig : forall l x, StronglySorted Z.lt (x :: l) ->
  (last (x :: l) x - x + 1 = Z.of_nat (length (x :: l)))%Z ->
  x :: l = map (fun i => (x + Z.of_nat i)%Z) (seq 0 (length (x :: l))).
Proof.
  induction l; intros x H E.
  - simpl. f_equal. lia.
  - inversion H; subst. inversion H3; subst.
    pose proof (sorted_span_lower l a H2) as LB.
    change (last (x :: a :: l) x) with (last (a :: l) x) in E.
    rewrite (last_default _ l a x a) in E.
    assert (a = x + 1)%Z by (simpl length in *; lia).
    assert (E' : (last (a :: l) a - a + 1 = Z.of_nat (length (a :: l)))%Z) by (simpl length in *; lia).
    specialize (IHl a H2 E').
    remember (length (a :: l)) as n.
    change (length (x :: a :: l)) with (S (length (a :: l))). rewrite <- Heqn.
    rewrite IHl. simpl. f_equal. lia.
    rewrite <- seq_shift, map_map. apply map_ext. intros. lia.
Qed.

Lemma fold_max_spec : forall t x,
  (x <= fold_right Z.max x t)%Z /\ (forall y, In y t -> (y <= fold_right Z.max x t)%Z) /\
  In (fold_right Z.max x t) (x :: t).
Proof.
  induction t; intros x; simpl.
  - split. lia. split. intros y []. auto.
  - destruct (IHt x) as [A [B C]]. split; [lia|]. split.
    + intros y [->|Hy]. lia. apply B in Hy. lia.
    + destruct (Z.max_spec a (fold_right Z.max x t)) as [[_ E]|[_ E]]; rewrite E.
      * simpl in C. destruct C; auto.
      * auto.
Qed.

Lemma fold_min_spec : forall t x,
  (fold_right Z.min x t <= x)%Z /\ (forall y, In y t -> (fold_right Z.min x t <= y)%Z) /\
  In (fold_right Z.min x t) (x :: t).
Proof.
  induction t; intros x; simpl.
  - split. lia. split. intros y []. auto.
  - destruct (IHt x) as [A [B C]]. split; [lia|]. split.
    + intros y [->|Hy]. lia. apply B in Hy. lia.
    + destruct (Z.min_spec a (fold_right Z.min x t)) as [[_ E]|[_ E]]; rewrite E.
      * auto.
      * simpl in C. destruct C; auto.
Qed.

Lemma zmax_char : forall l, l <> [] -> In (zmax l) l /\ forall y, In y l -> (y <= zmax l)%Z.
Proof.
  destruct l as [|x t]; [contradiction|]. intros _. unfold zmax.
  destruct (fold_max_spec t x) as [A [B C]]. split; auto. intros y [->|Hy]; auto.
Qed.

Lemma zmin_char : forall l, l <> [] -> In (zmin l) l /\ forall y, In y l -> (zmin l <= y)%Z.
Proof.
  destruct l as [|x t]; [contradiction|]. intros _. unfold zmin.
  destruct (fold_min_spec t x) as [A [B C]]. split; auto. intros y [->|Hy]; auto.
Qed.

Lemma perm_nonnil : forall (A : Type) (l l' : list A), Permutation l l' -> l <> [] -> l' <> [].
Proof. intros A l l' P H E. subst. apply Permutation_sym, Permutation_nil in P. contradiction. Qed.

Lemma zmax_perm : forall l l', Permutation l l' -> zmax l = zmax l'.
Proof.
  intros l l' P. destruct l as [|x t].
  - apply Permutation_nil in P. subst. reflexivity.
  - assert (H1 : x :: t <> []) by discriminate. pose proof (perm_nonnil _ _ _ P H1) as H2.
    destruct (zmax_char _ H1) as [A B]. destruct (zmax_char _ H2) as [A' B'].
    apply (Permutation_in _ P) in A. apply (Permutation_in _ (Permutation_sym P)) in A'.
    apply B' in A. apply B in A'. lia.
Qed.

Lemma zmin_perm : forall l l', Permutation l l' -> zmin l = zmin l'.
Proof.
  intros l l' P. destruct l as [|x t].
  - apply Permutation_nil in P. subst. reflexivity.
  - assert (H1 : x :: t <> []) by discriminate. pose proof (perm_nonnil _ _ _ P H1) as H2.
    destruct (zmin_char _ H1) as [A B]. destruct (zmin_char _ H2) as [A' B'].
    apply (Permutation_in _ P) in A. apply (Permutation_in _ (Permutation_sym P)) in A'.
    apply B' in A. apply B in A'. lia.
Qed.

Lemma sorted_head_le : forall a l, StronglySorted fle (a :: l) ->
  forall b, In b (a :: l) -> (fst a <= fst b)%Z.
Proof.
  intros a l H b [->|Hb]. lia. inversion H; subst. rewrite Forall_forall in H3. apply H3. auto.
Qed.

Lemma sorted_last_ge : forall l a, StronglySorted fle (a :: l) ->
  forall b, In b (a :: l) -> (fst b <= fst (last (a :: l) a))%Z.
Proof.
  induction l; intros a0 H b Hb.
  - destruct Hb as [->|[]]. simpl. lia.
  - inversion H; subst. change (last (a0 :: a :: l) a0) with (last (a :: l) a0).
    rewrite (last_default _ l a a0 a).
    destruct Hb as [->|Hb].
    + inversion H3; subst. unfold fle in H4.
      specialize (IHl a H2 a (or_introl eq_refl)). lia.
    + apply IHl; auto.
Qed.

Lemma last_in : forall (A : Type) (l : list A) a, In (last (a :: l) a) (a :: l).
Proof.
  induction l; intros. left; auto. change (last (a0 :: a :: l) a0) with (last (a :: l) a0).
  rewrite (last_default _ l a a0 a). right. apply IHl.
Qed.

Lemma sorted_zmin : forall a l, StronglySorted fle (a :: l) -> zmin (keys (a :: l)) = fst a.
Proof.
  intros a l H. assert (N : keys (a :: l) <> []) by discriminate.
  destruct (zmin_char _ N) as [A B].
  specialize (B (fst a) (or_introl eq_refl)).
  apply in_map_iff in A. destruct A as [b [E Hb]].
  apply (sorted_head_le _ _ H) in Hb. lia.
Qed.

Lemma sorted_zmax : forall a l, StronglySorted fle (a :: l) ->
  zmax (keys (a :: l)) = fst (last (a :: l) a).
Proof.
  intros a l H. assert (N : keys (a :: l) <> []) by discriminate.
  destruct (zmax_char _ N) as [A B].
  specialize (B (fst (last (a :: l) a)) (in_map fst _ _ (last_in _ l a))).
  apply in_map_iff in A. destruct A as [b [E Hb]].
  apply (sorted_last_ge _ _ H) in Hb. lia.
Qed.

(* ------------------------------------------------------------------ *)
(** * The statistic does not depend on the order of the rows *)

Lemma pairs_qsum_perm : forall (g : row * row -> Qc) n t t', Permutation t t' ->
  qsum (map g (pairs n t)) = qsum (map g (pairs n t')).
Proof.
  intros g n t t' P. unfold pairs. rewrite !qsum_filter, !qsum_list_prod.
  rewrite (qsum_perm _ _ (Permutation_map _ P)).
  apply qsum_map_ext. intros a _. apply qsum_perm. apply Permutation_map. exact P.
Qed.

Lemma pairs_length_perm : forall n t t', Permutation t t' -> length (pairs n t) = length (pairs n t').
Proof.
  intros. apply nq_inj. rewrite <- !qsum_ones. apply pairs_qsum_perm. auto.
Qed.

Lemma mean_pairs_perm : forall (g : row * row -> Qc) n t t', Permutation t t' ->
  mean (map g (pairs n t)) = mean (map g (pairs n t')).
Proof.
  intros. apply mean_eq. apply pairs_qsum_perm; auto.
  rewrite !map_length. apply pairs_length_perm; auto.
Qed.

Theorem msd_def_perm : forall mpp ndim t t' n, Permutation t t' ->
  msd_def mpp ndim t n = msd_def mpp ndim t' n.
Proof. intros. unfold msd_def. apply mean_pairs_perm. auto. Qed.

Lemma axis_sq_def_perm : forall mpp d t t' n, Permutation t t' ->
  axis_sq_def mpp d t n = axis_sq_def mpp d t' n.
Proof. intros. unfold axis_sq_def. apply mean_pairs_perm. auto. Qed.

Lemma axis_disp_def_perm : forall mpp d t t' n, Permutation t t' ->
  axis_disp_def mpp d t n = axis_disp_def mpp d t' n.
Proof. intros. unfold axis_disp_def. apply mean_pairs_perm. auto. Qed.

Lemma span_perm : forall t t', Permutation t t' -> span t = span t'.
Proof.
  intros. unfold span.
  rewrite (zmax_perm _ _ (Permutation_map fst H)), (zmin_perm _ _ (Permutation_map fst H)). reflexivity.
Qed.

Lemma N_eff_perm : forall t t' n, Permutation t t' -> N_eff t n = N_eff t' n.
Proof.
  intros. unfold N_eff. rewrite (span_perm _ _ H), (Permutation_length H). reflexivity.
Qed.

(* ------------------------------------------------------------------ *)
(** * Facts about the sorted table *)

Lemma nodupb_true : forall l, NoDup l -> nodupb l = true.
Proof.
  induction 1; simpl; auto. rewrite IHNoDup, andb_true_r.
  destruct (existsb (Z.eqb x) l) eqn:E; auto.
  apply existsb_exists in E. destruct E as [y [Hy E]]. apply Z.eqb_eq in E. subst. contradiction.
Qed.

Lemma nodupb_false : forall l, ~ NoDup l -> nodupb l = false.
Proof.
  induction l; intros H. exfalso; apply H; constructor.
  simpl. destruct (existsb (Z.eqb a) l) eqn:E; auto. simpl. apply IHl. intro ND. apply H.
  constructor; auto. intro HI.
  assert (existsb (Z.eqb a) l = true) by (apply existsb_exists; exists a; split; auto; apply Z.eqb_refl).
  congruence.
Qed.

Lemma isort_facts : forall traj, traj <> [] -> NoDup (keys traj) ->
  exists r0 t', isort traj = r0 :: t' /\
    NoDup (keys (r0 :: t')) /\ StronglySorted fle (r0 :: t') /\ Permutation (r0 :: t') traj /\
    fst r0 = zmin (keys traj) /\ fst (last (r0 :: t') r0) = zmax (keys traj) /\
    (zmin (keys traj) <= zmax (keys traj))%Z.
Proof.
  intros traj NE ND.
  pose proof (isort_perm traj) as P. pose proof (isort_sorted traj) as S.
  destruct (isort traj) as [|r0 t'] eqn:E.
  - apply Permutation_nil in P. contradiction.
  - exists r0, t'. split; auto.
    assert (PK : Permutation (keys (r0 :: t')) (keys traj)) by (apply Permutation_map; auto).
    split. { apply (Permutation_NoDup (Permutation_sym PK)). auto. }
    split; auto. split; auto.
    rewrite <- (zmin_perm _ _ PK), <- (zmax_perm _ _ PK).
    rewrite (sorted_zmin _ _ S), (sorted_zmax _ _ S).
    split; auto. split; auto.
    apply (sorted_head_le _ _ S). apply last_in.
Qed.

Lemma sorted_in_range : forall r0 t', StronglySorted fle (r0 :: t') ->
  in_range (fst r0) (Z.to_nat (fst (last (r0 :: t') r0) - fst r0 + 1)) (r0 :: t').
Proof.
  intros r0 t' S a Ha.
  pose proof (sorted_head_le _ _ S a Ha). pose proof (sorted_last_ge _ _ S a Ha). lia.
Qed.

Lemma last_map : forall (A B : Type) (f : A -> B) l d, last (map f l) (f d) = f (last l d).
Proof. induction l; intros; auto. destruct l; auto. simpl in *. apply IHl. Qed.

(* a sorted duplicate-free table whose span + 1 equals its length has no gaps:
   reindexing it over its frame range changes nothing *)
Lemma contig_gcol : forall d mpp r0 t',
  StronglySorted fle (r0 :: t') -> NoDup (keys (r0 :: t')) ->
  (fst (last (r0 :: t') r0) - fst r0 + 1 = Z.of_nat (length (r0 :: t')))%Z ->
  gcol d mpp (r0 :: t') (fst r0) (length (r0 :: t')) = map Some (col d mpp (r0 :: t')).
Proof.
  intros d mpp r0 t' S ND E. set (t := r0 :: t') in *.
  pose proof (sorted_strict _ S ND) as SS.
  assert (LK : last (keys t) (fst r0) = fst (last t r0)).
  { unfold keys. apply last_map. }
  assert (KE : keys t = map (fun i => (fst r0 + Z.of_nat i)%Z) (seq 0 (length t))).
  { unfold t in *. simpl keys in *. 
    replace (length (r0 :: t')) with (length (fst r0 :: keys t')) by (unfold keys; simpl; rewrite map_length; auto).
    apply sorted_contig; auto. rewrite LK. simpl length. unfold keys. rewrite map_length. simpl length in E. exact E. }
  apply (nth_ext _ _ None None).
  - rewrite gcol_length. unfold col. rewrite !map_length. reflexivity.
  - rewrite gcol_length. intros i Hi. rewrite gcol_nth by auto.
    unfold col. rewrite map_map. rewrite (nth_map' _ _ _ r0) by auto.
    assert (HI : In (nth i t r0) t) by (apply nth_In; auto).
    assert (FK : fst (nth i t r0) = (fst r0 + Z.of_nat i)%Z).
    { assert (H0 : nth i (keys t) 0%Z = fst (nth i t r0)) by (unfold keys; apply nth_map'; auto).
      rewrite <- H0, KE.
      rewrite (nth_map' _ _ _ 0%nat) by (rewrite seq_length; auto).
      rewrite seq_nth by auto. reflexivity. }
    rewrite (lookup_in _ (snd (nth i t r0)) t ND).
    + reflexivity.
    + rewrite <- FK. rewrite <- surjective_pairing. exact HI.
Qed.

(* ------------------------------------------------------------------ *)
(** * msd returns the table of the definition *)

Definition row_ok (mpp fps : Qc) (ndim : nat) (t : list row) (r : mrow) : Prop :=
  r_lagt r = nq (r_lag r) / fps /\
  r_msd r = msd_def mpp ndim t (r_lag r) /\
  r_sq r = map (fun d => axis_sq_def mpp d t (r_lag r)) (seq 0 ndim) /\
  r_N r = N_eff t (r_lag r).

Lemma sorted_span : forall r0 t', StronglySorted fle (r0 :: t') ->
  span (r0 :: t') = Z.to_nat (fst (last (r0 :: t') r0) - fst r0).
Proof.
  intros. unfold span. fold (keys (r0 :: t')). rewrite sorted_zmax, sorted_zmin by auto. reflexivity.
Qed.

Lemma sorted_first_le_last : forall r0 t', StronglySorted fle (r0 :: t') ->
  (fst r0 <= fst (last (r0 :: t') r0))%Z.
Proof. intros. apply (sorted_head_le _ _ H). apply last_in. Qed.

Lemma msd_gaps_ok : forall r0 t' mpp fps maxlag ndim,
  StronglySorted fle (r0 :: t') -> NoDup (keys (r0 :: t')) -> (0 < ndim)%nat ->
  exists rows, msd_gaps (r0 :: t') mpp fps maxlag ndim = Some rows /\
     map r_lag rows = seq 1 (Nat.min maxlag (span (r0 :: t'))) /\
     Forall (row_ok mpp fps ndim (r0 :: t')) rows.
Proof.
  intros r0 t' mpp fps maxlag ndim HS ND Hd.
  pose proof (sorted_first_le_last _ _ HS) as Hle.
  pose proof (sorted_span _ _ HS) as Hspan.
  pose proof (sorted_in_range _ _ HS) as HR.
  unfold msd_gaps. fold (keys (r0 :: t')). rewrite (nodupb_true _ ND). cbn [negb].
  set (t := r0 :: t') in *.
  set (f0 := fst r0) in *. set (f1 := fst (last t r0)) in *.
  set (len := Z.to_nat (f1 - f0 + 1)) in *.
  assert (Hlen : len = S (span t)) by (rewrite Hspan; unfold len; lia).
  eexists. split; [reflexivity|]. split.
  - rewrite map_map. cbn [r_lag]. rewrite map_id. unfold lags. f_equal. lia.
  - apply Forall_forall. intros r Hr. apply in_map_iff in Hr. destruct Hr as [m [Er Hm]].
    unfold lags in Hm. apply in_seq in Hm.
    assert (Hsq : map (gaps_col sqr m)
              (map (fun d => map (option_map (coord d mpp)) (reindex t f0 len)) (seq 0 ndim)) =
            map (fun d => axis_sq_def mpp d t m) (seq 0 ndim)).
    { rewrite map_map. apply map_ext. intros d. unfold axis_sq_def.
      apply (gaps_col_def sqr d mpp t f0 len m ND HR). lia. }
    subst r. unfold row_ok. cbn [r_lag r_lagt r_msd r_sq r_N].
    split; [reflexivity|]. split; [|split].
    + rewrite Hsq. apply axis_means_msd. auto.
    + exact Hsq.
    + unfold N_eff. rewrite <- Hlen. reflexivity.
Qed.

Lemma msd_fft_ok : forall r0 t' mpp fps maxlag ndim,
  StronglySorted fle (r0 :: t') -> NoDup (keys (r0 :: t')) -> (0 < ndim)%nat ->
  (fst (last (r0 :: t') r0) - fst r0 + 1 = Z.of_nat (length (r0 :: t')))%Z ->
  map r_lag (msd_fft (r0 :: t') mpp fps maxlag ndim) = seq 1 (Nat.min maxlag (span (r0 :: t'))) /\
  Forall (row_ok mpp fps ndim (r0 :: t')) (msd_fft (r0 :: t') mpp fps maxlag ndim).
Proof.
  intros r0 t' mpp fps maxlag ndim HS ND Hd HC.
  pose proof (sorted_span _ _ HS) as Hspan.
  pose proof (sorted_in_range _ _ HS) as HR.
  set (t := r0 :: t') in *.
  assert (H1 : (1 <= length t)%nat) by (unfold t; simpl; lia).
  assert (HN : length t = S (span t)) by (rewrite Hspan; lia).
  assert (HR' : in_range (fst r0) (length t) t).
  { replace (length t) with (Z.to_nat (fst (last t r0) - fst r0 + 1)) by lia. exact HR. }
  unfold msd_fft. set (L := Nat.min maxlag (length t - 1)).
  assert (HL : L = Nat.min maxlag (span t)) by (unfold L; rewrite HN; f_equal; lia).
  split.
  - rewrite map_map. cbn [r_lag]. rewrite seq_shift. rewrite HL. reflexivity.
  - apply Forall_forall. intros r Hr. apply in_map_iff in Hr. destruct Hr as [k [Er Hk]].
    apply in_seq in Hk.
    assert (Hsq : map Some (map (fun c => nth k c 0)
                     (map (fun r => fft_sq r L) (map (fun d => col d mpp t) (seq 0 ndim)))) =
                  map (fun d => axis_sq_def mpp d t (S k)) (seq 0 ndim)).
    { rewrite !map_map. apply map_ext. intros d.
      assert (Hc : length (col d mpp t) = length t) by (unfold col; apply map_length).
      rewrite (fft_sq_eq_gaps_col (col d mpp t) L k) by (rewrite ?Hc; unfold L; lia).
      unfold t at 1. rewrite <- (contig_gcol d mpp r0 t' HS ND HC). fold t.
      unfold axis_sq_def. apply (gaps_col_def sqr d mpp t (fst r0) (length t) (S k) ND HR').
      unfold L in Hk. lia. }
    subst r. unfold row_ok. cbn [r_lag r_lagt r_msd r_sq r_N].
    split; [reflexivity|]. split; [|split].
    + rewrite <- osum_Some. rewrite Hsq. apply axis_means_msd. auto.
    + exact Hsq.
    + unfold N_eff. rewrite <- HN. field. apply nq_nonzero. rewrite HN. discriminate.
Qed.

Theorem msd_ok : forall traj mpp fps maxlag ndim,
  traj <> [] -> NoDup (keys traj) -> (0 < ndim)%nat ->
  exists rows, msd traj mpp fps maxlag ndim = Some rows /\
     map r_lag rows = seq 1 (Nat.min maxlag (span traj)) /\
     Forall (row_ok mpp fps ndim traj) rows.
Proof.
  intros traj mpp fps maxlag ndim NE ND Hd.
  destruct (isort_facts traj NE ND) as [r0 [t' [E [ND' [HS [P [Hmin [Hmax Hle]]]]]]]].
  assert (Hperm : forall rows, Forall (row_ok mpp fps ndim (r0 :: t')) rows ->
                               Forall (row_ok mpp fps ndim traj) rows).
  { intros rows H. eapply Forall_impl; [|exact H]. intros r [A [B [C D]]].
    unfold row_ok. rewrite <- (msd_def_perm _ _ _ _ _ P), <- (N_eff_perm _ _ _ P).
    repeat split; auto. rewrite C. apply map_ext. intros d. apply axis_sq_def_perm. auto. }
  unfold msd. rewrite E. cbv beta iota zeta. fold (keys (r0 :: t')).
  rewrite (sorted_zmax _ _ HS), (sorted_zmin _ _ HS).
  rewrite <- (span_perm _ _ P).
  destruct (Z.eqb_spec (fst (last (r0 :: t') r0) - fst r0 + 1) (Z.of_nat (length (r0 :: t')))) as [HC|HC].
  - destruct (msd_fft_ok r0 t' mpp fps maxlag ndim HS ND' Hd HC) as [A B].
    eexists. split; [reflexivity|]. split; auto.
  - destruct (msd_gaps_ok r0 t' mpp fps maxlag ndim HS ND' Hd) as [rows [A [B C]]].
    exists rows. split; auto.
Qed.

Lemma rows_table : forall mpp fps ndim t rows ls,
  map r_lag rows = ls -> Forall (row_ok mpp fps ndim t) rows ->
  map (fun r => (r_lag r, r_lagt r, r_msd r)) rows =
  map (fun n => (n, nq n / fps, msd_def mpp ndim t n)) ls.
Proof.
  induction rows; intros ls E F; simpl in *; subst; auto.
  inversion F; subst. destruct H1 as [A [B _]]. simpl. rewrite A, B. f_equal. apply IHrows; auto.
Qed.

(* msd, as a table of (lag, lag/fps, value), is the table of the definition *)
Theorem msd_eq_def : forall traj mpp fps maxlag ndim,
  traj <> [] -> NoDup (map fst traj) -> (0 < ndim)%nat ->
  exists rows, msd traj mpp fps maxlag ndim = Some rows /\
    map (fun r => (r_lag r, r_lagt r, r_msd r)) rows = msd_table mpp fps maxlag ndim traj.
Proof.
  intros traj mpp fps maxlag ndim NE ND Hd.
  destruct (msd_ok traj mpp fps maxlag ndim NE ND Hd) as [rows [A [B C]]].
  exists rows. split; auto. unfold msd_table. eapply rows_table; eauto.
Qed.

Lemma rows_table5 : forall mpp fps ndim t rows ls,
  map r_lag rows = ls -> Forall (row_ok mpp fps ndim t) rows ->
  map (fun r => (r_lag r, r_lagt r, r_msd r, r_sq r, r_N r)) rows =
  map (fun n => (n, nq n / fps, msd_def mpp ndim t n,
                 map (fun d => axis_sq_def mpp d t n) (seq 0 ndim), N_eff t n)) ls.
Proof.
  induction rows; intros ls E F; simpl in *; subst; auto.
  inversion F; subst. destruct H1 as [A [B [C D]]]. simpl. rewrite A, B, C, D. f_equal. apply IHrows; auto.
Qed.

(* on a gap-free trajectory the FFT path and the reindex/nanmean path return
   the same lag index, times, values, per-axis values and weights *)
Theorem paths_agree : forall r0 t' mpp fps maxlag ndim,
  StronglySorted fle (r0 :: t') -> NoDup (map fst (r0 :: t')) -> (0 < ndim)%nat ->
  (fst (last (r0 :: t') r0) - fst r0 + 1 = Z.of_nat (length (r0 :: t')))%Z ->
  exists rows, msd_gaps (r0 :: t') mpp fps maxlag ndim = Some rows /\
    map (fun r => (r_lag r, r_lagt r, r_msd r, r_sq r, r_N r)) rows =
    map (fun r => (r_lag r, r_lagt r, r_msd r, r_sq r, r_N r)) (msd_fft (r0 :: t') mpp fps maxlag ndim).
Proof.
  intros r0 t' mpp fps maxlag ndim HS ND Hd HC.
  destruct (msd_gaps_ok r0 t' mpp fps maxlag ndim HS ND Hd) as [rows [A [B C]]].
  destruct (msd_fft_ok r0 t' mpp fps maxlag ndim HS ND Hd HC) as [B' C'].
  exists rows. split; auto.
  rewrite (rows_table5 _ _ _ _ _ _ B C), (rows_table5 _ _ _ _ _ _ B' C'). reflexivity.
Qed.

(* ------------------------------------------------------------------ *)
(** * NaN exactly where no pair exists *)

Lemma mean_none_iff : forall l, mean l = None <-> l = [].
Proof. destruct l; simpl; split; intros; auto; discriminate. Qed.

Lemma msd_def_none_iff : forall mpp ndim t n,
  msd_def mpp ndim t n = None <-> pairs (Z.of_nat n) t = [].
Proof.
  intros. unfold msd_def. rewrite mean_none_iff. split; intros H.
  - destruct (pairs (Z.of_nat n) t); [auto | discriminate].
  - rewrite H. reflexivity.
Qed.

Theorem msd_nan_iff_no_pair : forall traj mpp fps maxlag ndim,
  traj <> [] -> NoDup (map fst traj) -> (0 < ndim)%nat ->
  exists rows, msd traj mpp fps maxlag ndim = Some rows /\
    forall r, In r rows -> (r_msd r = None <-> pairs (Z.of_nat (r_lag r)) traj = []).
Proof.
  intros traj mpp fps maxlag ndim NE ND Hd.
  destruct (msd_ok traj mpp fps maxlag ndim NE ND Hd) as [rows [A [B C]]].
  exists rows. split; auto. intros r Hr. rewrite Forall_forall in C.
  destruct (C r Hr) as [_ [E _]]. rewrite E. apply msd_def_none_iff.
Qed.

Lemma filter_nil : forall (A : Type) (p : A -> bool) l, (forall x, In x l -> p x = false) -> filter p l = [].
Proof. induction l; simpl; intros; auto. rewrite H by auto. apply IHl. auto. Qed.

Lemma no_pairs_beyond_span : forall t n, (span t < n)%nat -> pairs (Z.of_nat n) t = [].
Proof.
  intros t n H. unfold pairs. apply filter_nil. intros [a b] Hab.
  apply in_prod_iff in Hab. destruct Hab as [Ha Hb]. simpl.
  assert (NE : keys t <> []) by (destruct t; [destruct Ha | discriminate]).
  destruct (zmax_char _ NE) as [_ MX]. destruct (zmin_char _ NE) as [_ MN].
  pose proof (MX (fst b) (in_map fst _ _ Hb)). pose proof (MN (fst a) (in_map fst _ _ Ha)).
  unfold span in H. fold (keys t) in H.
  destruct (Z.eqb_spec (fst b - fst a) (Z.of_nat n)); auto. lia.
Qed.

(* ------------------------------------------------------------------ *)
(** * Order independence *)

Lemma sorted_perm_eq : forall l l', StronglySorted fle l -> StronglySorted fle l' ->
  NoDup (keys l) -> Permutation l l' -> l = l'.
Proof.
  induction l as [|a l1 IH]; intros l' S1 S2 ND P.
  - apply Permutation_nil in P. auto.
  - destruct l' as [|b l2]. { apply Permutation_sym, Permutation_nil in P. discriminate. }
    assert (Ha : In a (b :: l2)) by (apply (Permutation_in _ P); left; auto).
    assert (Hb : In b (a :: l1)) by (apply (Permutation_in _ (Permutation_sym P)); left; auto).
    pose proof (sorted_head_le _ _ S2 a Ha). pose proof (sorted_head_le _ _ S1 b Hb).
    assert (a = b).
    { destruct Hb as [|Hb]; auto. inversion ND; subst. exfalso. apply H3.
      replace (fst a) with (fst b) by lia. apply in_map. auto. }
    subst b. f_equal. apply Permutation_cons_inv in P.
    inversion S1; inversion S2; inversion ND; subst. apply IH; auto.
Qed.

Theorem msd_order_independent : forall traj traj' mpp fps maxlag ndim,
  NoDup (map fst traj) -> Permutation traj traj' ->
  msd traj mpp fps maxlag ndim = msd traj' mpp fps maxlag ndim.
Proof.
  intros traj traj' mpp fps maxlag ndim ND P.
  assert (E : isort traj = isort traj').
  { apply sorted_perm_eq; try apply isort_sorted.
    - apply (Permutation_NoDup (Permutation_sym (Permutation_map fst (isort_perm traj)))). auto.
    - rewrite (isort_perm traj), P. symmetry. apply isort_perm. }
  unfold msd. rewrite E. reflexivity.
Qed.

(* ------------------------------------------------------------------ *)
(** * imsd and emsd *)

Lemma zinsert_u_in : forall x y l, In x (zinsert_u y l) <-> x = y \/ In x l.
Proof.
  induction l; simpl. intuition.
  destruct (Z.ltb_spec y a). simpl; intuition.
  destruct (Z.eqb_spec y a). subst; simpl; intuition.
  simpl. rewrite IHl. intuition.
Qed.

Lemma pids_in : forall p tr, In p (pids tr) <-> In p (map fst tr).
Proof.
  intros p tr. unfold pids. induction (map fst tr); simpl. reflexivity.
  rewrite zinsert_u_in, IHl. intuition.
Qed.

Lemma rows_of_nonempty : forall p tr, In p (pids tr) -> rows_of p tr <> [].
Proof.
  intros p tr H. apply pids_in in H. apply in_map_iff in H. destruct H as [pr [E H]].
  unfold rows_of. intro N. apply map_eq_nil in N.
  assert (In pr (filter (fun pr => (fst pr =? p)%Z) tr)) by (apply filter_In; split; auto; apply Z.eqb_eq; auto).
  rewrite N in H0. destruct H0.
Qed.

(* the per-particle table, as a function of the particle id *)
Definition ptab (tr : list prow) (mpp fps : Qc) (maxlag ndim : nat) (p : Z) : list mrow :=
  match msd (rows_of p tr) mpp fps maxlag ndim with Some rows => rows | None => [] end.

Definition well_formed (tr : list prow) : Prop :=
  forall p, In p (pids tr) -> NoDup (map fst (rows_of p tr)).

Lemma all_some_map : forall (A B : Type) (f : A -> option B) (g : A -> B) l,
  (forall x, In x l -> f x = Some (g x)) -> all_some (map f l) = Some (map g l).
Proof.
  induction l; simpl; intros; auto. rewrite H by auto. rewrite IHl by auto. reflexivity.
Qed.

Lemma ptab_ok : forall tr mpp fps maxlag ndim p, well_formed tr -> (0 < ndim)%nat -> In p (pids tr) ->
  msd (rows_of p tr) mpp fps maxlag ndim = Some (ptab tr mpp fps maxlag ndim p) /\
  map r_lag (ptab tr mpp fps maxlag ndim p) = seq 1 (Nat.min maxlag (span (rows_of p tr))) /\
  Forall (row_ok mpp fps ndim (rows_of p tr)) (ptab tr mpp fps maxlag ndim p).
Proof.
  intros tr mpp fps maxlag ndim p WF Hd Hp.
  destruct (msd_ok (rows_of p tr) mpp fps maxlag ndim (rows_of_nonempty _ _ Hp) (WF p Hp) Hd)
    as [rows [A [B C]]].
  unfold ptab. rewrite A. auto.
Qed.

Lemma per_particle_eq : forall tr mpp fps maxlag ndim, well_formed tr -> (0 < ndim)%nat ->
  per_particle tr mpp fps maxlag ndim =
  Some (map (fun p => (p, ptab tr mpp fps maxlag ndim p)) (pids tr)).
Proof.
  intros. unfold per_particle. apply all_some_map. intros p Hp.
  destruct (ptab_ok tr mpp fps maxlag ndim p H H0 Hp) as [A _]. rewrite A. reflexivity.
Qed.

Lemma ptab_length : forall tr mpp fps maxlag ndim p, well_formed tr -> (0 < ndim)%nat -> In p (pids tr) ->
  length (ptab tr mpp fps maxlag ndim p) = Nat.min maxlag (span (rows_of p tr)).
Proof.
  intros. destruct (ptab_ok tr mpp fps maxlag ndim p H H0 H1) as [_ [B _]].
  rewrite <- (map_length r_lag), B, seq_length. reflexivity.
Qed.

Lemma max_lag_eq : forall tr mpp fps maxlag ndim, well_formed tr -> (0 < ndim)%nat ->
  max_lag (map (fun p => (p, ptab tr mpp fps maxlag ndim p)) (pids tr)) = ens_lags maxlag tr.
Proof.
  intros. unfold max_lag, ens_lags. rewrite map_map. simpl. f_equal.
  apply map_ext_in. intros p Hp. apply ptab_length; auto.
Qed.

Lemma ens_lags_le : forall maxlag tr, (ens_lags maxlag tr <= maxlag)%nat.
Proof. intros. unfold ens_lags. induction (pids tr); simpl; lia. Qed.

Lemma find_lag_found : forall m rows s L, map r_lag rows = seq s L -> (s <= m < s + L)%nat ->
  exists r, find_lag m rows = Some r /\ In r rows /\ r_lag r = m.
Proof.
  induction rows; intros s L E H.
  - destruct L; [lia | discriminate].
  - destruct L; [lia|]. simpl in E. inversion E. unfold find_lag. simpl.
    destruct (Nat.eqb_spec (r_lag a) m).
    + exists a. auto.
    + rewrite H1 in H2. destruct (IHrows (S s) L H2) as [r [A [B C]]]. lia. exists r. auto.
Qed.

Lemma find_lag_none : forall m rows s L, map r_lag rows = seq s L -> (m < s \/ s + L <= m)%nat ->
  find_lag m rows = None.
Proof.
  induction rows; intros s L E H; auto.
  destruct L; [discriminate|]. simpl in E. inversion E. unfold find_lag. simpl.
  rewrite H1 in H2. destruct (Nat.eqb_spec (r_lag a) m). lia. apply (IHrows (S s) L H2). lia.
Qed.

(* value and weight of particle p at lag m, read off its table *)
Lemma entry_eq_def : forall tr mpp fps maxlag ndim p m, well_formed tr -> (0 < ndim)%nat ->
  In p (pids tr) -> (1 <= m <= maxlag)%nat ->
  entry m (ptab tr mpp fps maxlag ndim p) = msd_def mpp ndim (rows_of p tr) m.
Proof.
  intros tr mpp fps maxlag ndim p m WF Hd Hp Hm.
  destruct (ptab_ok tr mpp fps maxlag ndim p WF Hd Hp) as [_ [B C]]. unfold entry.
  destruct (le_lt_dec m (Nat.min maxlag (span (rows_of p tr)))).
  - destruct (find_lag_found m _ _ _ B) as [r [A [I E]]]. lia. rewrite A.
    rewrite Forall_forall in C. destruct (C r I) as [_ [V _]]. rewrite V, E. reflexivity.
  - rewrite (find_lag_none m _ _ _ B) by lia. symmetry.
    apply msd_def_none_iff. apply no_pairs_beyond_span. lia.
Qed.

Lemma flat_map_map_ext : forall (A B C : Type) (g : A -> B) (f : B -> list C) (h : A -> list C) l,
  (forall x, In x l -> f (g x) = h x) -> flat_map f (map g l) = flat_map h l.
Proof. induction l; simpl; intros; auto. rewrite H by auto. rewrite IHl by auto. reflexivity. Qed.

Lemma contrib_eq_def : forall tr mpp fps maxlag ndim m, well_formed tr -> (0 < ndim)%nat ->
  (1 <= m <= maxlag)%nat ->
  contrib_entries m (map (fun p => (p, ptab tr mpp fps maxlag ndim p)) (pids tr)) =
  contributing mpp ndim tr m.
Proof.
  intros tr mpp fps maxlag ndim m WF Hd Hm. unfold contrib_entries, contributing.
  apply flat_map_map_ext. intros p Hp. cbn [snd].
  destruct (ptab_ok tr mpp fps maxlag ndim p WF Hd Hp) as [_ [B C]].
  destruct (le_lt_dec m (Nat.min maxlag (span (rows_of p tr)))).
  - destruct (find_lag_found m _ _ _ B) as [r [A [I E]]]. lia. rewrite A.
    rewrite Forall_forall in C. destruct (C r I) as [_ [V [_ W]]]. rewrite V, W, E. reflexivity.
  - rewrite (find_lag_none m _ _ _ B) by lia.
    replace (msd_def mpp ndim (rows_of p tr) m) with (@None Qc); auto.
    symmetry. apply msd_def_none_iff. apply no_pairs_beyond_span. lia.
Qed.

(* mean(N*m)/mean(N) over the same non-empty set of particles is sum(N*m)/sum(N) *)
Lemma weighted_mean : forall (c : list (Qc * Qc)), c <> [] ->
  odiv (mean (map (fun e => snd e * fst e) c)) (mean (map fst c)) =
  Some (qsum (map (fun e => fst e * snd e) c) / qsum (map fst c)).
Proof.
  intros c NE. rewrite !mean_nonempty by (rewrite map_length; destruct c; [contradiction | discriminate]).
  rewrite !map_length. simpl. f_equal.
  rewrite (qsum_map_ext _ (fun e => snd e * fst e) (fun e => fst e * snd e)) by (intros; ring).
  assert (NZ : nq (length c) <> 0) by (apply nq_nonzero; destruct c; [contradiction | discriminate]).
  set (a := qsum (map (fun e => fst e * snd e) c)). set (b := qsum (map fst c)). set (n := nq (length c)) in *.
  destruct (Qc_eq_dec b 0) as [Z|NZb].
  - rewrite Z. unfold Qcdiv. replace (0 * / n) with 0 by ring.
    replace (/ 0) with 0 by reflexivity. ring.
  - field. auto.
Qed.

Theorem emsd_ok : forall tr mpp fps maxlag ndim,
  tr <> [] -> well_formed tr -> (0 < ndim)%nat ->
  exists rows, emsd tr mpp fps maxlag ndim = Some rows /\
    map e_lag rows = seq 1 (ens_lags maxlag tr) /\
    forall r, In r rows ->
      e_lagt r = nq (e_lag r) / fps /\
      e_msd r = emsd_def mpp ndim tr (e_lag r) /\
      e_N r = qsum (map fst (contributing mpp ndim tr (e_lag r))).
Proof.
  intros tr mpp fps maxlag ndim NE WF Hd. unfold emsd.
  destruct tr as [|x tr']; [contradiction|]. set (tr := x :: tr') in *.
  rewrite (per_particle_eq tr mpp fps maxlag ndim WF Hd).
  rewrite (max_lag_eq tr mpp fps maxlag ndim WF Hd).
  eexists. split; [reflexivity|]. split.
  - rewrite map_map. simpl. rewrite map_id. reflexivity.
  - intros r Hr. apply in_map_iff in Hr. destruct Hr as [m [E Hm]]. unfold lags in Hm. apply in_seq in Hm.
    pose proof (ens_lags_le maxlag tr).
    subst r. cbn [e_lag e_lagt e_msd e_N].
    rewrite (contrib_eq_def tr mpp fps maxlag ndim m WF Hd) by lia.
    split; [reflexivity|]. split; [|reflexivity].
    unfold emsd_def. destruct (contributing mpp ndim tr m) eqn:EC.
    + reflexivity.
    + apply weighted_mean. discriminate.
Qed.

Lemma filter_map_comm : forall (A B : Type) (f : B -> bool) (g : A -> B) l,
  filter f (map g l) = map g (filter (fun x => f (g x)) l).
Proof. induction l; simpl; auto. destruct (f (g a)); simpl; rewrite IHl; reflexivity. Qed.

Theorem imsd_ok : forall tr mpp fps maxlag ndim,
  tr <> [] -> well_formed tr -> (0 < ndim)%nat ->
  exists rows, imsd tr mpp fps maxlag ndim = Some (imsd_columns maxlag tr, rows) /\
    map i_lag rows = seq 1 (ens_lags maxlag tr) /\
    forall r, In r rows ->
      i_lagt r = nq (i_lag r) / fps /\
      i_vals r = map (fun p => msd_def mpp ndim (rows_of p tr) (i_lag r)) (imsd_columns maxlag tr).
Proof.
  intros tr mpp fps maxlag ndim NE WF Hd. unfold imsd.
  destruct tr as [|x tr']; [contradiction|]. set (tr := x :: tr') in *.
  rewrite (per_particle_eq tr mpp fps maxlag ndim WF Hd).
  rewrite filter_map_comm. cbn [snd].
  assert (EF : filter (fun p => match ptab tr mpp fps maxlag ndim p with [] => false | _ :: _ => true end) (pids tr)
               = imsd_columns maxlag tr).
  { unfold imsd_columns. apply filter_ext_in. intros p Hp.
    pose proof (ptab_length tr mpp fps maxlag ndim p WF Hd Hp) as HL.
    destruct (ptab tr mpp fps maxlag ndim p); simpl in HL; rewrite <- HL; reflexivity. }
  rewrite EF.
  assert (EM : max_lag (map (fun p => (p, ptab tr mpp fps maxlag ndim p)) (imsd_columns maxlag tr)) = ens_lags maxlag tr).
  { unfold max_lag, ens_lags, imsd_columns. rewrite map_map. cbn [snd].
    assert (G : forall l, (forall p, In p l -> In p (pids tr)) ->
       fold_right Nat.max 0%nat (map (fun p => length (ptab tr mpp fps maxlag ndim p))
          (filter (fun p => (1 <=? Nat.min maxlag (span (rows_of p tr)))%nat) l)) =
       fold_right Nat.max 0%nat (map (fun p => Nat.min maxlag (span (rows_of p tr))) l)).
    { induction l; intros HI; [reflexivity|].
      assert (IHl' := IHl (fun p Hp => HI p (or_intror Hp))).
      cbn [filter map fold_right].
      destruct (1 <=? Nat.min maxlag (span (rows_of a tr)))%nat eqn:EL.
      - cbn [map fold_right]. rewrite IHl'. rewrite ptab_length; auto. apply HI. left; auto.
      - rewrite IHl'. apply Nat.leb_gt in EL. lia. }
    apply G. auto. }
  rewrite EM. eexists. split.
  - rewrite map_map. cbn [fst]. rewrite map_id. reflexivity.
  - split.
    + rewrite map_map. simpl. rewrite map_id. reflexivity.
    + intros r Hr. apply in_map_iff in Hr. destruct Hr as [m [E Hm]]. unfold lags in Hm. apply in_seq in Hm.
      pose proof (ens_lags_le maxlag tr).
      subst r. cbn [i_lag i_lagt i_vals]. split; [reflexivity|].
      rewrite map_map. cbn [snd]. apply map_ext_in. intros p Hp.
      apply entry_eq_def; auto; try lia.
      unfold imsd_columns in Hp. apply filter_In in Hp. tauto.
Qed.
