(* Route T for the linking core: the functions GENERATED from the current source text
   (Gen/linker_core.v, by tools/py2coq_linker.py) are the hand-written models the C02
   theorems are about.

     py_assign_subnet_eq   generated assign_subnet = Model.SubnetMerge.assign_subnet on EVERY state
     py_do_recur_search    generated do_recur(j) from any state of the search = Model.Assign.search
                           on the remaining sources; the in-place undo (cur_sum -= dist**2,
                           d_taken.remove, cur_pairs.pop) restores the state exactly
     py_init_solve         generated SubnetLinker.__init__ = size check, then Model.Assign.solve
                           on the sorted sources *)
From Coq Require Import ZArith List Bool Arith Lia.
From TP Require Import Model.Assign Model.Link Model.SubnetMerge Model.PyLinker Gen.linker_core Model.LinkerGenCheck
     Proofs.BnB Proofs.SubnetMerge.
Import ListNotations.

(* ================= assign_subnet ================= *)
Lemma sput_sput i v v' l : sput i v' (sput i v l) = sput i v' l.
Proof.
  induction l as [|[k w] l IH]; cbn; [reflexivity|].
  destruct (Nat.eqb_spec i k) as [E|E]; cbn.
  - subst k. rewrite Nat.eqb_refl. reflexivity.
  - destruct (Nat.eqb_spec i k); [contradiction|]. rewrite IH. reflexivity.
Qed.

Lemma for_each_pure {A S : Type} (f : S -> A -> S) l :
  forall s, for_each (fun x s => Normal (f s x)) l s = Normal (fold_left f l s).
Proof. induction l as [|a l IH]; intros s; cbn; [reflexivity|apply IH]. Qed.

Lemma fold_set_src s1 i : forall st,
  fold_left (fun st p => set_subnet_vert st p i) (map inl s1) st
  = {| subs := subs st; ssub := aset_all s1 i (ssub st); dsub := dsub st |}.
Proof.
  induction s1 as [|a s1 IH]; intros st; cbn.
  - destruct st; reflexivity.
  - rewrite IH. reflexivity.
Qed.
Lemma fold_set_dst d1 i : forall st,
  fold_left (fun st p => set_subnet_vert st p i) (map inr d1) st
  = {| subs := subs st; ssub := ssub st; dsub := aset_all d1 i (dsub st) |}.
Proof.
  induction d1 as [|a d1 IH]; intros st; cbn.
  - destruct st; reflexivity.
  - rewrite IH. reflexivity.
Qed.

Theorem py_assign_subnet_eq st s d :
  to_option (py_assign_subnet st s d) = assign_subnet st (s, d).
Proof.
  unfold py_assign_subnet, assign_subnet, get_subnet_src, get_subnet_dst.
  destruct (alook s (ssub st)) as [i1|] eqn:E1, (alook d (dsub st)) as [i2|] eqn:E2; cbn.
  - destruct (Nat.eqb_spec i1 i2) as [E|E]; cbn; [reflexivity|].
    unfold dict_get. cbn.
    destruct (sfind i2 (subs st)) as [[s2 d2]|] eqn:F2; cbn.
    2:{ destruct (sfind i1 (subs st)) as [[? ?]|]; reflexivity. }
    destruct (sfind i1 (subs st)) as [[s1 d1]|] eqn:F1; cbn; [|reflexivity].
    rewrite sfind_sput_eq by congruence.
    rewrite (sfind_sput_ne i2 i1) by congruence. rewrite F1. cbn.
    unfold ent_update0, ent_update1; cbn. rewrite sput_sput.
    rewrite (sfind_sput_ne i2 i1) by congruence. rewrite F1.
    rewrite (for_each_pure (fun st p => set_subnet_vert st p i2)).
    unfold chain_star; cbn. rewrite fold_left_app, fold_set_src, fold_set_dst. cbn.
    unfold dict_del; cbn. rewrite sput_sput. rewrite (sfind_sput_ne i2 i1) by congruence. rewrite F1. cbn.
    reflexivity.
  - unfold dict_get.
    destruct (sfind i1 (subs st)) as [[s1 d1]|] eqn:F1; cbn; reflexivity.
  - unfold dict_get.
    destruct (sfind i2 (subs st)) as [[s2 d2]|] eqn:F2; cbn; reflexivity.
  - reflexivity.
Qed.

(* Subnets.reset() followed by the generated assign_subnet on every visited spair *)
Theorem py_run_edges_eq nd es : py_run_edges nd es = run_edges nd es.
Proof.
  unfold py_run_edges, run_edges. generalize (Some (init nd)).
  induction es as [|[s d] es IH]; intros o; cbn [fold_left]; [reflexivity|].
  rewrite IH. f_equal. destruct o as [st|]; [|reflexivity].
  cbn [py_step_o step_o fst snd]. apply py_assign_subnet_eq.
Qed.

Theorem py_run_edges_spec nd es :
  (forall s d, In (s, d) es -> (d < nd)%nat) ->
  exists st, py_run_edges nd es = Some st /\ Inv nd es st.
Proof. rewrite py_run_edges_eq. apply run_edges_spec. Qed.

Theorem py_same_subnet_iff_connected nd es st x y i :
  (forall s d, In (s, d) es -> (d < nd)%nat) ->
  py_run_edges nd es = Some st -> vsub st x = Some i ->
  (vsub st y = Some i <-> conn es x y).
Proof.
  intros Hd Hr. destruct (py_run_edges_spec nd es Hd) as [st' [Hr' Hinv]].
  rewrite Hr in Hr'. injection Hr' as E. subst st'.
  apply (same_subnet_iff_connected nd). exact Hinv.
Qed.

(* ================= do_recur ================= *)
Open Scope Z_scope.

(* how the object's fields represent the model's incumbent: best_sum = its cost (inf when
   there is none), best_pairs = the sources of s_lst paired with the chosen destinations *)
Definition enc_pairs (S : list spoint) (a : list cand) : list spair := combine S (map fst a).
Definition bsum_of (b : best_t) : zinf := option_map fst b.
Definition bpairs_of (S : list spoint) (b : best_t) : option (list spair) :=
  option_map (fun va : Z * list cand => enc_pairs S (snd va)) b.

(* the object in the middle of the search: do_recur(j) is about to run with
   d_taken = taken, cur_sum = cur, cur_pairs = the j choices made so far (path, newest first) *)
Definition obj (ms : nat) (S : list spoint) (j : nat) (taken : list nat) (cur : Z)
           (path : list cand) (best : best_t) : linker :=
  mk_linker ms S (length S) (bpairs_of S best) (enc_pairs (firstn j S) (rev path)) (bsum_of best) taken cur.

Lemma skipn_nth {A : Type} (l : list A) : forall j x, nth_error l j = Some x -> skipn j l = x :: skipn (S j) l.
Proof.
  induction l as [|a l IH]; intros [|j] x H; cbn in *; try discriminate.
  - inversion H; reflexivity.
  - apply IH. exact H.
Qed.
Lemma firstn_S_nth {A : Type} (l : list A) : forall j x, nth_error l j = Some x -> firstn (S j) l = firstn j l ++ [x].
Proof.
  induction l as [|a l IH]; intros [|j] x H; cbn in *; try discriminate.
  - inversion H; reflexivity.
  - f_equal. apply IH. exact H.
Qed.
Lemma combine_snoc {A B : Type} (l : list A) : forall (m : list B) a b,
  length l = length m -> combine (l ++ [a]) (m ++ [b]) = combine l m ++ [(a, b)].
Proof.
  induction l as [|x l IH]; intros [|y m] a b H; cbn in *; try discriminate; [reflexivity|].
  f_equal. apply IH. lia.
Qed.
Lemma enc_snoc (S : list spoint) j cur_s d c path :
  length path = j -> nth_error S j = Some cur_s ->
  deque_append (enc_pairs (firstn j S) (rev path)) (cur_s, d) = enc_pairs (firstn (Datatypes.S j) S) (rev ((d, c) :: path)).
Proof.
  intros Hl Hn. unfold deque_append, enc_pairs. rewrite (firstn_S_nth _ _ _ Hn). cbn [rev].
  rewrite map_app. cbn [map fst]. rewrite combine_snoc; [reflexivity|].
  rewrite map_length, rev_length, firstn_length_le; [symmetry; exact Hl|].
  assert (nth_error S j <> None) by congruence. apply nth_error_Some in H. lia.
Qed.

Lemma set_remove_add k taken : set_in k taken = false -> set_remove k (set_add k taken) = Some taken.
Proof.
  intros H. unfold set_remove, set_add, set_in in *. cbn. rewrite Nat.eqb_refl. cbn. f_equal.
  induction taken as [|y t IH]; cbn in *; [reflexivity|].
  apply orb_false_iff in H. destruct H as [H1 H2]. rewrite H1. cbn. f_equal. apply IH. exact H2.
Qed.
Lemma deque_pop_append {A : Type} (d : list A) x : deque_pop (deque_append d x) = Some d.
Proof.
  unfold deque_pop, deque_append. destruct (d ++ [x]) eqn:E.
  - destruct d; discriminate.
  - rewrite <- E. rewrite removelast_last. reflexivity.
Qed.

Lemma enc_pop (S : list spoint) j cur_s d c path :
  length path = j -> nth_error S j = Some cur_s ->
  deque_pop (enc_pairs (firstn (Datatypes.S j) S) (rev ((d, c) :: path))) = Some (enc_pairs (firstn j S) (rev path)).
Proof.
  intros Hl Hn. rewrite <- (enc_snoc S j cur_s d c path Hl Hn). apply deque_pop_append.
Qed.

Lemma gt_inf_exceeds v b : gt_inf v (bsum_of b) = exceeds v b.
Proof. destruct b as [[bv bp]|]; reflexivity. Qed.

(* the leaf: if cur_sum < best_sum: best_sum = cur_sum; best_pairs = list(cur_pairs) *)
Lemma leaf_improve (S : list spoint) v p b :
  (if lt_inf v (bsum_of b) then (Some v, Some (enc_pairs S (rev p))) else (bsum_of b, bpairs_of S b))
  = (bsum_of (improve v p b), bpairs_of S (improve v p b)).
Proof.
  destruct b as [[bv bp]|]; cbn; [|reflexivity].
  destruct (v <? bv); reflexivity.
Qed.

Ltac norm :=
  unfold set_max_size, set_s_lst, set_MAX, set_best_pairs, set_cur_pairs, set_best_sum, set_d_taken, set_cur_sum;
  cbn [max_size s_lst MAX best_pairs cur_pairs best_sum d_taken cur_sum bind fst snd call fn_end deque_to_list].

Lemma py_do_recur_search : forall fuel ms S j taken cur path best,
  (j < length S)%nat -> (length S - j <= fuel)%nat -> length path = j ->
  py_do_recur fuel (obj ms S j taken cur path best) j
  = Done (obj ms S j taken cur path (search (skipn j (map snd S)) taken cur path best)).
Proof.
  induction fuel as [|fuel IHf]; intros ms S j taken cur path best Hj Hf Hp; [lia|].
  destruct (nth_error S j) as [cur_s|] eqn:En; [|apply nth_error_None in En; lia].
  rewrite (skipn_nth _ _ _ (map_nth_error snd _ _ En)), search_cons.
  unfold obj at 1. cbn [py_do_recur s_lst]. rewrite En.
  match goal with |- context [for_each ?b _ _] => set (body := b) end.
  set (rest := skipn (Datatypes.S j) (map snd S)).
  assert (Hstep : forall d c best,
    body (d, c) (obj ms S j taken cur path best) =
    if exceeds (cur + c) best then Return (obj ms S j taken cur path best)
    else if taken_b d taken then Continue (obj ms S j taken cur path best)
    else Normal (obj ms S j taken cur path (search rest (add_taken d taken) (cur + c) ((d, c) :: path) best))).
  { intros d c b. unfold body, obj. norm.
    rewrite gt_inf_exceeds. destruct (exceeds (cur + c) b); norm; [reflexivity|].
    change (match d with Some k => set_in k taken | None => false end) with (taken_b d taken).
    destruct (taken_b d taken) eqn:Et; norm; [reflexivity|].
    assert (Hlen : forall dd, length ((dd, c) :: path) = Datatypes.S j) by (intros dd; cbn [length]; f_equal; exact Hp).
    destruct d as [k|]; norm.
    - rewrite (enc_snoc S j cur_s (Some k) c path Hp En), Nat.add_1_r.
      destruct (Nat.eqb_spec (Datatypes.S j) (length S)) as [El|El].
      + assert (Hr : rest = []) by (apply skipn_all2; rewrite map_length, El; apply le_n).
        rewrite Hr; cbn [search].
        pose proof (leaf_improve S (cur + c) ((Some k, c) :: path) b) as Hli.
        assert (Hall : firstn (Datatypes.S j) S = S) by (rewrite El; apply firstn_all).
        destruct (lt_inf (cur + c) (bsum_of b)); injection Hli as H1 H2; norm;
          rewrite Z.add_simpl_r, (set_remove_add _ _ Et); norm;
          rewrite (enc_pop S j cur_s (Some k) c path Hp En); rewrite ?Hall;
          unfold obj; rewrite <- H1, <- H2; reflexivity.
      + match goal with |- context [py_do_recur fuel ?st (Datatypes.S j)] =>
          change st with (obj ms S (Datatypes.S j) (k :: taken) (cur + c) ((Some k, c) :: path) b) end.
        rewrite IHf by (try apply Hlen; lia). unfold obj. norm.
        change (k :: taken) with (set_add k taken).
        rewrite Z.add_simpl_r, (set_remove_add _ _ Et); norm.
        match goal with |- context [deque_pop ?x] =>
          replace (deque_pop x) with (Some (enc_pairs (firstn j S) (rev path)))
            by (symmetry; apply (enc_pop S j cur_s (Some k) c path Hp En)) end.
        reflexivity.
    - rewrite (enc_snoc S j cur_s None c path Hp En), Nat.add_1_r.
      destruct (Nat.eqb_spec (Datatypes.S j) (length S)) as [El|El].
      + assert (Hr : rest = []) by (apply skipn_all2; rewrite map_length, El; apply le_n).
        rewrite Hr; cbn [search].
        pose proof (leaf_improve S (cur + c) ((None, c) :: path) b) as Hli.
        assert (Hall : firstn (Datatypes.S j) S = S) by (rewrite El; apply firstn_all).
        destruct (lt_inf (cur + c) (bsum_of b)); injection Hli as H1 H2; norm;
          rewrite Z.add_simpl_r;
          rewrite (enc_pop S j cur_s None c path Hp En); rewrite ?Hall;
          unfold obj; rewrite <- H1, <- H2; reflexivity.
      + match goal with |- context [py_do_recur fuel ?st (Datatypes.S j)] =>
          change st with (obj ms S (Datatypes.S j) taken (cur + c) ((None, c) :: path) b) end.
        rewrite IHf by (try apply Hlen; lia). unfold obj. norm.
        rewrite Z.add_simpl_r.
        match goal with |- context [deque_pop ?x] =>
          replace (deque_pop x) with (Some (enc_pairs (firstn j S) (rev path)))
            by (symmetry; apply (enc_pop S j cur_s None c path Hp En)) end.
        reflexivity. }
  assert (Hloop : forall cs best,
    for_each body cs (obj ms S j taken cur path best)
      = Normal (obj ms S j taken cur path (loop rest taken cur path cs best)) \/
    for_each body cs (obj ms S j taken cur path best)
      = Return (obj ms S j taken cur path (loop rest taken cur path cs best))).
  { induction cs as [|[d c] cs IHcs]; intros b; [left; reflexivity|].
    cbn [for_each loop]. rewrite Hstep.
    destruct (exceeds (cur + c) b); [right; reflexivity|].
    destruct (taken_b d taken); apply IHcs. }
  destruct (Hloop (forward_cands cur_s) best) as [H|H]; unfold obj in H at 1; rewrite H; reflexivity.
Qed.

(* do_recur(0) from the state __init__ leaves: the whole search, [solve] *)
Theorem py_do_recur_solve ms (S : list spoint) :
  S <> [] ->
  py_do_recur (Datatypes.S (length S)) (mk_linker ms S (length S) None [] None [] 0) 0
  = Done (mk_linker ms S (length S) (bpairs_of S (solve (map snd S))) []
                    (bsum_of (solve (map snd S))) [] 0).
Proof.
  intros Hne.
  assert (Hl : (0 < length S)%nat) by (destruct S; [congruence|cbn; lia]).
  pose proof (py_do_recur_search (Datatypes.S (length S)) ms S 0 [] 0 [] None Hl) as H.
  unfold obj in H. cbn [firstn rev enc_pairs combine skipn bpairs_of bsum_of option_map] in H.
  unfold solve. apply H; [lia|reflexivity].
Qed.

(* ---- the constructor ---- *)
Definition klen (x : spoint) : nat := length (forward_cands x).

Lemma insert_key_length {A : Type} (k : A -> nat) x l : length (insert_key k x l) = Datatypes.S (length l).
Proof. induction l as [|y l IH]; cbn; [reflexivity|]. destruct (k x <=? k y)%nat; cbn; [reflexivity|]. rewrite IH. reflexivity. Qed.
Lemma sort_key_length {A : Type} (k : A -> nat) l : length (sort_key k l) = length l.
Proof.
  induction l as [|x l IH]; [reflexivity|].
  change (sort_key k (x :: l)) with (insert_key k x (sort_key k l)).
  rewrite insert_key_length, IH. reflexivity.
Qed.
Lemma insert_key_perm {A : Type} (k : A -> nat) x l : Permutation.Permutation (insert_key k x l) (x :: l).
Proof.
  induction l as [|y l IH]; cbn; [apply Permutation.Permutation_refl|].
  destruct (k x <=? k y)%nat; [apply Permutation.Permutation_refl|].
  eapply Permutation.perm_trans; [apply Permutation.perm_skip; exact IH|apply Permutation.perm_swap].
Qed.
Lemma sort_key_perm {A : Type} (k : A -> nat) l : Permutation.Permutation (sort_key k l) l.
Proof.
  induction l as [|x l IH]; [constructor|].
  change (sort_key k (x :: l)) with (insert_key k x (sort_key k l)).
  eapply Permutation.perm_trans; [apply insert_key_perm|apply Permutation.perm_skip; exact IH].
Qed.

(* SubnetLinker(s_sn, dest_size, search_range, max_size): raises SubnetOversizeException exactly
   when there are more than max_size sources; IndexError (s_lst[0]) on an empty subnet; and
   otherwise ends with best_sum / best_pairs = [solve] on the sources sorted by their number
   of candidates, every working field back at its initial value *)
Theorem py_init_solve (s_sn : list spoint) (ms : nat) :
  let S := sort_key klen s_sn in
  py_SubnetLinker_init s_sn ms =
  if (ms <? length s_sn)%nat then Fail SubnetOversizeException
  else match s_sn with
       | [] => Fail IndexError
       | _ => Done (mk_linker ms S (length S) (bpairs_of S (solve (map snd S))) []
                              (bsum_of (solve (map snd S))) [] 0)
       end.
Proof.
  intros S. unfold py_SubnetLinker_init.
  cbv beta iota zeta delta [blank_linker set_max_size set_s_lst set_MAX set_best_pairs set_cur_pairs set_best_sum
    set_d_taken set_cur_sum max_size s_lst MAX best_pairs cur_pairs best_sum d_taken cur_sum recur_fuel].
  change (sort_key (fun x : spoint => length (forward_cands x)) s_sn) with S.
  assert (HS : length S = length s_sn) by apply sort_key_length.
  rewrite HS. destruct (ms <? length s_sn)%nat; norm; [reflexivity|].
  unfold recur_fuel. norm. rewrite <- HS.
  destruct s_sn as [|x l].
  - reflexivity.
  - rewrite py_do_recur_solve; [reflexivity|].
    intros E. rewrite E in HS. discriminate.
Qed.

(* the generated search is optimal: C02_bnb_optimal restated for the generated constructor *)
Theorem py_linker_optimal (s_sn : list spoint) (ms : nat) (o : linker) v :
  nonneg (map snd s_sn) -> Forall sorted (map snd s_sn) ->
  py_SubnetLinker_init s_sn ms = Done o -> best_sum o = Some v ->
  exists a, best_pairs o = Some (combine (s_lst o) (map fst a)) /\
            Permutation.Permutation (s_lst o) s_sn /\
            completion (map snd (s_lst o)) [] a /\ v = total a /\
            (forall sigma, completion (map snd (s_lst o)) [] sigma -> v <= total sigma).
Proof.
  intros Hn Hs Hi Hv. rewrite py_init_solve in Hi.
  destruct (ms <? length s_sn)%nat; [discriminate|].
  destruct s_sn as [|x l] eqn:E; [discriminate|]. rewrite <- E in *.
  injection Hi as Hi. subst o. cbn [best_sum best_pairs s_lst] in *.
  set (S := sort_key klen s_sn) in *.
  assert (HP : Permutation.Permutation S s_sn) by apply sort_key_perm.
  assert (Hn' : nonneg (map snd S)).
  { unfold nonneg in *. rewrite Forall_forall in *. intros cs Hin. apply Hn.
    eapply Permutation.Permutation_in; [apply Permutation.Permutation_map; exact HP|exact Hin]. }
  assert (Hs' : Forall sorted (map snd S)).
  { rewrite Forall_forall in *. intros cs Hin. apply Hs.
    eapply Permutation.Permutation_in; [apply Permutation.Permutation_map; exact HP|exact Hin]. }
  destruct (solve (map snd S)) as [[v' a]|] eqn:Es; [|discriminate].
  cbn in Hv. injection Hv as Hv. subst v'.
  exists a. destruct (solve_optimal _ _ _ Hn' Hs' Es) as [Hc [Ht Ho]].
  repeat split; try assumption; reflexivity.
Qed.

(* ... and it finds an assignment whenever every source has the null link among its candidates *)
Theorem py_linker_finds (s_sn : list spoint) (ms : nat) :
  s_sn <> [] -> (length s_sn <= ms)%nat ->
  nonneg (map snd s_sn) -> Forall sorted (map snd s_sn) ->
  Forall (fun cs => exists c, In (None, c) cs) (map snd s_sn) ->
  exists o v, py_SubnetLinker_init s_sn ms = Done o /\ best_sum o = Some v.
Proof.
  intros Hne Hms Hn Hs Hnull. rewrite py_init_solve.
  destruct (Nat.ltb_spec ms (length s_sn)); [lia|].
  destruct s_sn as [|x l] eqn:E; [congruence|]. rewrite <- E in *.
  set (S := sort_key klen s_sn) in *.
  assert (HP : Permutation.Permutation S s_sn) by apply sort_key_perm.
  assert (Hall : forall P : list cand -> Prop, Forall P (map snd s_sn) -> Forall P (map snd S)).
  { intros P HF. rewrite Forall_forall in *. intros cs Hin. apply HF.
    eapply Permutation.Permutation_in; [apply Permutation.Permutation_map; exact HP|exact Hin]. }
  destruct (solve_some (map snd S)) as [v [a Hsol]]; [apply Hall; exact Hn|apply Hall; exact Hs|apply Hall; exact Hnull|].
  eexists. exists v. split; [reflexivity|]. cbn [best_sum]. rewrite Hsol. reflexivity.
Qed.
