(* What is proved about the edge-correction formulas (over the stdlib reals):
   2-D: the set of directions cut off by one wall is an interval of angular
   width 2 acos(h/r) (= circle_cap_arclen / r); the directions cut off by two
   adjacent walls form an interval of width acos(h1/r) - asin(h2/r)
   (= circle_corner_arclen / r); special values.
   3-D: consistency identities between cap, edge and corner formulas.
   NOT proved: that sphere_edge_area / sphere_corner_area are the areas of the
   spherical regions (covered numerically by the check, against quadrature). *)
From Coq Require Import Reals Lra.
From TP Require Import Model.StaticGeom.
Open Scope R_scope.

Lemma ratio_bounds h r : 0 <= h < r -> 0 <= h / r < 1.
Proof.
  intros [H0 H1]. assert (0 < r) by lra. split.
  - apply Rmult_le_pos; auto. left. apply Rinv_0_lt_compat. auto.
  - apply Rmult_lt_reg_r with r; auto. unfold Rdiv. rewrite Rmult_assoc, Rinv_l by lra. lra.
Qed.

Lemma scaled_lt h r c : 0 < r -> (h < r * c <-> h / r < c).
Proof.
  intros Hr. split; intros H.
  - apply Rmult_lt_reg_r with r; auto. unfold Rdiv. rewrite Rmult_assoc, Rinv_l by lra. lra.
  - apply Rmult_lt_compat_r with (r := r) in H; auto.
    unfold Rdiv in H. rewrite Rmult_assoc, Rinv_l in H by lra. lra.
Qed.

(* A wall at distance h (0 <= h < r) in direction theta = 0 cuts off exactly
   the directions |theta| < acos(h/r): an arc of length 2 r acos(h/r). *)
Theorem cap_excluded_interval h r theta :
  0 <= h < r -> - PI < theta <= PI ->
  (h < r * cos theta <-> Rabs theta < acos (h / r)).
Proof.
  intros Hh Ht. assert (Hr : 0 < r) by lra.
  destruct (ratio_bounds h r Hh) as [X0 X1].
  rewrite (scaled_lt h r (cos theta) Hr).
  assert (C : cos theta = cos (Rabs theta)).
  { unfold Rabs. destruct (Rcase_abs theta); auto. rewrite cos_neg. auto. }
  assert (A : 0 <= Rabs theta <= PI).
  { split; [apply Rabs_pos|]. unfold Rabs. destruct (Rcase_abs theta); lra. }
  destruct (acos_bound (h / r)) as [B0 B1].
  rewrite C. rewrite <- (cos_acos (h / r)) at 1 by lra. split; intros H.
  - apply cos_decreasing_0 in H; lra.
  - apply cos_decreasing_1; lra.
Qed.

Theorem cap_arclen_is_interval_length h r :
  circle_cap_arclen h r = r * (acos (h / r) - (- acos (h / r))).
Proof. unfold circle_cap_arclen. ring. Qed.

(* Two adjacent walls (distances h1 along theta = 0, h2 along theta = PI/2,
   with the corner inside the circle) cut off, in the quadrant between them,
   exactly the directions asin(h2/r) < theta < acos(h1/r). *)
Theorem corner_excluded_interval h1 h2 r theta :
  0 <= h1 < r -> 0 <= h2 < r -> 0 <= theta <= PI / 2 ->
  (h1 < r * cos theta /\ h2 < r * sin theta <-> asin (h2 / r) < theta < acos (h1 / r)).
Proof.
  intros H1 H2 Ht. assert (Hr : 0 < r) by lra.
  assert (P := PI_RGT_0).
  assert (C := cap_excluded_interval h1 r theta H1).
  rewrite Rabs_right in C by lra.
  destruct (ratio_bounds h2 r H2) as [X0 X1].
  destruct (asin_bound (h2 / r)) as [B0 B1].
  rewrite (scaled_lt h2 r (sin theta) Hr).
  rewrite <- (sin_asin (h2 / r)) at 1 by lra.
  split.
  - intros [A B]. split; [|apply C; auto; lra].
    apply sin_increasing_0 in B; lra.
  - intros [A B]. split; [apply C; auto; lra|].
    apply sin_increasing_1; lra.
Qed.

(* the code's expression is that interval's length times r (and is symmetric) *)
Theorem corner_arclen_is_interval_length h1 h2 r :
  0 <= h1 < r -> 0 <= h2 < r ->
  circle_corner_arclen h1 h2 r = r * (acos (h1 / r) - asin (h2 / r)).
Proof.
  intros H1 H2. unfold circle_corner_arclen.
  destruct (ratio_bounds h1 r H1). destruct (ratio_bounds h2 r H2).
  rewrite (acos_asin (h2 / r)), (acos_asin (h1 / r)) by lra. ring.
Qed.

Theorem corner_arclen_sym h1 h2 r :
  0 <= h1 < r -> 0 <= h2 < r ->
  circle_corner_arclen h1 h2 r = circle_corner_arclen h2 h1 r.
Proof.
  intros H1 H2. rewrite (corner_arclen_is_interval_length h1 h2 r H1 H2).
  unfold circle_corner_arclen. reflexivity.
Qed.

Lemma zero_div r : 0 / r = 0.
Proof. unfold Rdiv. ring. Qed.

Theorem cap_arclen_0 r : circle_cap_arclen 0 r = PI * r.
Proof. unfold circle_cap_arclen. rewrite zero_div, acos_0. field. Qed.

Theorem corner_arclen_0 r : circle_corner_arclen 0 0 r = PI * r / 2.
Proof. unfold circle_corner_arclen. rewrite zero_div, acos_0, asin_0. field. Qed.

(* a particle in a corner of the box sees a quarter circle; on a wall, half *)
Theorem arclen_2d_at_corner r big :
  0 < r -> r <= big -> arclen_2d r 0 big 0 big = 2 * PI * r / 4.
Proof.
  intros Hr Hb. unfold arclen_2d, cap_term, corner_term.
  assert (r * r <= big * big) by (apply Rmult_le_compat; lra).
  assert (0 < r * r) by (apply Rmult_lt_0_compat; lra).
  repeat match goal with |- context [Rlt_dec ?a ?b] => destruct (Rlt_dec a b); try lra end.
  rewrite cap_arclen_0, corner_arclen_0. field.
Qed.

Theorem arclen_2d_on_wall r big :
  0 < r -> r <= big -> arclen_2d r 0 big big big = 2 * PI * r / 2.
Proof.
  intros Hr Hb. unfold arclen_2d, cap_term, corner_term.
  assert (r * r <= big * big) by (apply Rmult_le_compat; lra).
  assert (0 < r * r) by (apply Rmult_lt_0_compat; lra).
  repeat match goal with |- context [Rlt_dec ?a ?b] => destruct (Rlt_dec a b); try lra end.
  rewrite cap_arclen_0. field.
Qed.

Theorem arclen_2d_interior r big :
  0 < r -> r <= big -> arclen_2d r big big big big = 2 * PI * r.
Proof.
  intros Hr Hb. unfold arclen_2d, cap_term, corner_term.
  assert (r * r <= big * big) by (apply Rmult_le_compat; lra).
  assert (0 < r * r) by (apply Rmult_lt_0_compat; lra).
  repeat match goal with |- context [Rlt_dec ?a ?b] => destruct (Rlt_dec a b); try lra end.
Qed.

(* ---- 3-D consistency identities ---- *)
Theorem sphere_cap_0 r : sphere_cap_area 0 r = 2 * PI * (r * r).
Proof. unfold sphere_cap_area. ring. Qed.

Theorem sphere_edge_y0 x r : sphere_edge_area x 0 r = sphere_cap_area x r / 2.
Proof.
  unfold sphere_edge_area, sphere_cap_area. cbv zeta.
  rewrite Rmult_0_r, !zero_div, atan_0. field.
Qed.

Theorem sphere_edge_is_two_corners x y r :
  sphere_edge_area x y r = 2 * sphere_corner_area x y 0 r.
Proof.
  unfold sphere_edge_area, sphere_corner_area. cbv zeta.
  rewrite !Rmult_0_r, !Rmult_0_l, !zero_div, atan_0.
  replace (r * sqrt (r * r - x * x - y * y)) with (sqrt (r * r - x * x - y * y) * r)
    by apply Rmult_comm.
  field.
Qed.

Theorem sphere_edge_sym x y r : sphere_edge_area x y r = sphere_edge_area y x r.
Proof.
  unfold sphere_edge_area. cbv zeta.
  replace (r * r - y * y - x * x) with (r * r - x * x - y * y) by ring.
  replace (y * x) with (x * y) by ring. ring.
Qed.

Theorem sphere_corner_sym_xy x y z r : sphere_corner_area x y z r = sphere_corner_area y x z r.
Proof.
  unfold sphere_corner_area. cbv zeta.
  replace (r * r - y * y - x * x) with (r * r - x * x - y * y) by ring.
  replace (y * x) with (x * y) by ring. field.
Qed.

Theorem sphere_corner_sym_yz x y z r : sphere_corner_area x y z r = sphere_corner_area x z y r.
Proof.
  unfold sphere_corner_area. cbv zeta.
  replace (r * r - z * z - y * y) with (r * r - y * y - z * z) by ring.
  replace (z * y) with (y * z) by ring. field.
Qed.

(* a sphere centred at a box corner keeps one octant *)
Theorem sphere_corner_000 r : sphere_corner_area 0 0 0 r = 4 * PI * (r * r) / 8.
Proof.
  unfold sphere_corner_area. cbv zeta.
  rewrite !Rmult_0_l, !zero_div, atan_0. field.
Qed.
