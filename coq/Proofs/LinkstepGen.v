(* Route T for the per-step bookkeeping of the Linker: the functions GENERATED from the
   current source text (Gen/linkstep.v, by tools/py2coq_linkstep.py) against the hand-written
   models the C02 theorems are about.

   Part 1 (this file): Subnets.reset / Subnets.compute
     gen_reset_spec       from ANY world (whatever stale .subnet attributes and dictionary earlier
                          steps left) reset() never raises and leaves the dictionary
                          Model.SubnetMerge.init_subs, every source without subnet, every
                          destination d in subnet d, every source without candidates
     gen_compute_spec     compute() visits the (source, dest) pairs of the query result in the order
                          dest-major / nearest first, never raises, and leaves
                            - a subnet state that IS the model's run_edges on those pairs (same
                              dictionary, same .subnet attribute of every point of the two frames),
                            - in each source's forward_cands the (dest, dist**2) of the pairs it
                              occurs in, in destination order
     gen_subnets_init     Subnets(...) = reset; compute
     gen_real_cands       with a query that returns, for every destination, exactly the sources within
                          range at their squared distance ([query_ok]: the trusted KD-tree), the
                          forward_cands of source s are Model.Link.real_cands of its position *)
From Coq Require Import ZArith List Bool Arith Lia Permutation.
From TP Require Import Model.Assign Model.Link Model.MemQueue Model.SubnetMerge Model.PyLinker Gen.linker_core
     Model.PyLinkstep Gen.linkstep Proofs.SubnetMerge Proofs.LinkerGen.
Import ListNotations.

(* ================= control lemmas ================= *)
Lemma ofor_pure {A St V : Type} (f : St -> A -> St) l :
  forall s, ofor (V := V) (fun x s => ONormal (f s x)) l s = ONormal (fold_left f l s).
Proof. induction l as [|a l IH]; intros s; cbn; [reflexivity|apply IH]. Qed.

Lemma ofor_ext {A St V : Type} (b1 b2 : A -> St -> oc St V) l :
  (forall x s, In x l -> b1 x s = b2 x s) -> forall s, ofor b1 l s = ofor b2 l s.
Proof.
  induction l as [|a l IH]; intros H s; cbn; [reflexivity|].
  rewrite (H a s) by (left; reflexivity).
  destruct (b2 a s); try reflexivity; apply IH; intros; apply H; right; assumption.
Qed.

Lemma ofor_map {A B St V : Type} (f : A -> B) (b : B -> St -> oc St V) l :
  forall s, ofor b (map f l) s = ofor (fun x => b (f x)) l s.
Proof. induction l as [|a l IH]; intros s; cbn; [reflexivity|]. destruct (b (f a) s); try reflexivity; apply IH. Qed.

(* a loop over indices that reads row j of a list = a loop over (index, row) *)
Lemma ofor_seq_nth {A St V : Type} (g : nat -> option A -> St -> oc St V) (r : list A) :
  forall (pre : list A) s,
  ofor (fun j => g j (nth_error (pre ++ r) j)) (seq (length pre) (length r)) s
  = ofor (fun jx => g (fst jx) (Some (snd jx))) (combine (seq (length pre) (length r)) r) s.
Proof.
  induction r as [|x r IH]; intros pre s; cbn [length seq combine ofor]; [reflexivity|].
  replace (nth_error (pre ++ x :: r) (length pre)) with (Some x)
    by (rewrite nth_error_app2 by lia; rewrite Nat.sub_diag; reflexivity).
  cbn [fst snd].
  specialize (IH (pre ++ [x])). rewrite app_length in IH. cbn [length] in IH. rewrite Nat.add_1_r in IH.
  assert (E : forall s', ofor (fun j => g j (nth_error (pre ++ x :: r) j)) (seq (S (length pre)) (length r)) s'
              = ofor (fun jx => g (fst jx) (Some (snd jx))) (combine (seq (S (length pre)) (length r)) r) s').
  { intros s'. rewrite <- IH. apply ofor_ext. intros j s'' _. rewrite <- app_assoc. reflexivity. }
  destruct (g (length pre) (Some x) s); try reflexivity; apply E.
Qed.

Lemma combine_seq_self : forall n a, combine (seq a n) (seq a n) = map (fun i => (i, i)) (seq a n).
Proof. induction n as [|n IH]; intros a; cbn; [reflexivity|]. rewrite IH. reflexivity. Qed.

Lemma nth_error_seq n : forall a x, (x < n)%nat -> nth_error (seq a n) x = Some (a + x)%nat.
Proof.
  induction n as [|n IH]; intros a x H; [lia|]. destruct x as [|x]; cbn; [f_equal; lia|].
  rewrite IH by lia. f_equal. lia.
Qed.

(* ================= the fields a loop does not touch ================= *)
Definition same_frame (w w' : lk) : Prop :=
  k_srcs w' = k_srcs w /\ k_dests w' = k_dests w /\ k_now w' = k_now w /\ k_includes_lost w' = k_includes_lost w
  /\ k_dtrack w' = k_dtrack w /\ k_mem_set w' = k_mem_set w /\ k_mem_history w' = k_mem_history w
  /\ k_memory w' = k_memory w /\ k_counter w' = k_counter w /\ k_max_size w' = k_max_size w /\ k_R2 w' = k_R2 w.
Lemma same_frame_refl w : same_frame w w.
Proof. unfold same_frame. repeat split. Qed.
Lemma same_frame_trans a b c : same_frame a b -> same_frame b c -> same_frame a c.
Proof. unfold same_frame. intuition congruence. Qed.

(* ================= forward_cands ================= *)
Lemma fget_fset p p' v m : fget p (fset p' v m) = if Nat.eqb p p' then v else fget p m.
Proof. reflexivity. Qed.

(* ================= Subnets.reset ================= *)
Definition reset1 (w : lk) (l : list nat) : lk :=
  fold_left (fun w p => clear_subnet_src (set_forward_cands w p []) p) l w.
Definition reset2 (w : lk) (l : list (nat * nat)) : lk :=
  fold_left (fun w (it : nat * nat) => dict_setitem (assign_subnet_dst w (snd it) (fst it)) (fst it) ([], [snd it])) l w.

Lemma gen_reset_eq w :
  py_Subnets_reset w
  = FDone (reset2 (reset1 (dict_clear w) (source_points w)) (enumerate (dest_points (reset1 (dict_clear w) (source_points w))))) tt.
Proof.
  unfold py_Subnets_reset.
  rewrite (ofor_pure (fun w p => clear_subnet_src (set_forward_cands w p []) p)).
  cbn [obind]. fold (reset1 (dict_clear w) (source_points (dict_clear w))).
  rewrite (ofor_pure (fun w (it : nat * nat) => dict_setitem (assign_subnet_dst w (snd it) (fst it)) (fst it) ([], [snd it]))).
  reflexivity.
Qed.

Lemma alook_filter_ne p : forall m k, k <> p ->
  alook k (filter (fun kv : nat * nat => negb (Nat.eqb (fst kv) p)) m) = alook k m.
Proof.
  induction m as [|[a b] m IH]; intros k H; cbn; [reflexivity|].
  destruct (Nat.eqb_spec a p) as [E|E]; cbn.
  - subst a. destruct (Nat.eqb_spec k p); [contradiction|]. apply IH. exact H.
  - destruct (Nat.eqb k a); [reflexivity|]. apply IH. exact H.
Qed.
Lemma alook_filter_eq p : forall m,
  alook p (filter (fun kv : nat * nat => negb (Nat.eqb (fst kv) p)) m) = None.
Proof.
  induction m as [|[a b] m IH]; cbn; [reflexivity|].
  destruct (Nat.eqb_spec a p) as [E|E]; cbn; [exact IH|].
  destruct (Nat.eqb_spec p a); [congruence|]. exact IH.
Qed.

Lemma reset1_spec : forall l w,
  same_frame w (reset1 w l) /\ subs (k_mst (reset1 w l)) = subs (k_mst w) /\ dsub (k_mst (reset1 w l)) = dsub (k_mst w)
  /\ (forall p, In p l -> alook p (ssub (k_mst (reset1 w l))) = None)
  /\ (forall p, In p l -> get_forward_cands (reset1 w l) p = []).
Proof.
  induction l as [|a l IH]; intros w; cbn [reset1 fold_left].
  - split; [apply same_frame_refl|]. repeat split; intros p [].
  - fold (reset1 (clear_subnet_src (set_forward_cands w a []) a) l).
    set (w1 := clear_subnet_src (set_forward_cands w a []) a).
    destruct (IH w1) as (F & S1 & D1 & A1 & C1).
    split; [eapply same_frame_trans; [|exact F]; unfold same_frame; cbn; repeat split|].
    split; [rewrite S1; reflexivity|]. split; [rewrite D1; reflexivity|].
    assert (Hs : forall p l' w', alook p (ssub (k_mst w')) = None -> alook p (ssub (k_mst (reset1 w' l'))) = None).
    { intros p l'. induction l' as [|b l' IH']; intros w' H; cbn [reset1 fold_left]; [exact H|].
      apply IH'. cbn. destruct (Nat.eq_dec p b) as [->|Hn]; [apply alook_filter_eq|rewrite alook_filter_ne by exact Hn; exact H]. }
    assert (Hc : forall p l' w', get_forward_cands w' p = [] -> get_forward_cands (reset1 w' l') p = []).
    { intros p l'. induction l' as [|b l' IH']; intros w' H; cbn [reset1 fold_left]; [exact H|].
      apply IH'. unfold get_forward_cands in *. cbn. destruct (Nat.eqb p b); [reflexivity|exact H]. }
    split; intros p [<-|Hp].
    + apply Hs. cbn. apply alook_filter_eq.
    + apply A1; exact Hp.
    + apply Hc. unfold get_forward_cands. cbn. rewrite Nat.eqb_refl. reflexivity.
    + apply C1; exact Hp.
Qed.

Lemma sfind_app_none i l1 l2 : sfind i l1 = None -> sfind i (l1 ++ l2) = sfind i l2.
Proof. induction l1 as [|[k v] l1 IH]; cbn; [reflexivity|]. destruct (Nat.eqb i k); [discriminate|exact IH]. Qed.

Lemma sfind_init_subs_none i : forall n j, (i < j \/ j + n <= i)%nat -> sfind i (init_subs j n) = None.
Proof.
  intros n j H. rewrite sfind_init.
  destruct (Nat.leb_spec j i), (Nat.ltb_spec i (j + n)); cbn; try reflexivity; lia.
Qed.

Lemma init_subs_snoc : forall n j, init_subs j (S n) = init_subs j n ++ [((j + n)%nat, ([], [(j + n)%nat]))].
Proof.
  induction n as [|n IH]; intros j.
  - cbn. rewrite Nat.add_0_r. reflexivity.
  - cbn [init_subs app]. specialize (IH (S j)). cbn [init_subs] in IH. rewrite IH.
    replace (S j + n)%nat with (j + S n)%nat by lia. reflexivity.
Qed.

(* the dest loop of reset over destinations 0 .. n-1, from an empty dictionary *)
Lemma reset2_spec : forall n w, subs (k_mst w) = [] ->
  let w' := reset2 w (map (fun i => (i, i)) (seq 0 n)) in
  same_frame w w' /\ subs (k_mst w') = init_subs 0 n /\ ssub (k_mst w') = ssub (k_mst w) /\ k_fc w' = k_fc w
  /\ (forall d, (d < n)%nat -> alook d (dsub (k_mst w')) = Some d)
  /\ (forall d, (n <= d)%nat -> alook d (dsub (k_mst w')) = alook d (dsub (k_mst w))).
Proof.
  induction n as [|n IH]; intros w H0 w'.
  - subst w'. cbn. split; [apply same_frame_refl|]. repeat split; try assumption; try reflexivity; intros; lia.
  - subst w'. rewrite seq_S, map_app. unfold reset2. rewrite fold_left_app. cbn [map fold_left fst snd].
    fold (reset2 w (map (fun i => (i, i)) (seq 0 n))).
    destruct (IH w H0) as (F & S1 & A1 & C1 & D1 & D2). cbn zeta in *.
    set (w1 := reset2 w (map (fun i => (i, i)) (seq 0 n))) in *.
    split; [eapply same_frame_trans; [exact F|]; unfold same_frame; cbn; repeat split|].
    rewrite (init_subs_snoc n 0). cbn. rewrite S1. rewrite sfind_init_subs_none by lia.
    split; [reflexivity|]. split; [exact A1|]. split; [exact C1|].
    split; intros d Hd.
    + destruct (Nat.eqb_spec d n) as [->|Hn]; [reflexivity|]. apply D1. lia.
    + destruct (Nat.eqb_spec d n) as [->|Hn]; [lia|]. apply D2. lia.
Qed.

Theorem gen_reset_spec w :
  exists w1, py_Subnets_reset w = FDone w1 tt /\ same_frame w w1
    /\ subs (k_mst w1) = init_subs 0 (length (k_dests w))
    /\ (forall s, (s < length (k_srcs w))%nat -> alook s (ssub (k_mst w1)) = None)
    /\ (forall d, (d < length (k_dests w))%nat -> alook d (dsub (k_mst w1)) = Some d)
    /\ (forall s, (s < length (k_srcs w))%nat -> get_forward_cands w1 s = []).
Proof.
  rewrite gen_reset_eq. eexists. split; [reflexivity|].
  set (w0 := reset1 (dict_clear w) (source_points w)).
  destruct (reset1_spec (source_points w) (dict_clear w)) as (F & S1 & D1 & A1 & C1). fold w0 in F, S1, D1, A1, C1.
  assert (Hd : dest_points w0 = seq 0 (length (k_dests w))).
  { unfold dest_points. destruct F as (_ & E & _). rewrite E. reflexivity. }
  rewrite Hd. unfold enumerate. rewrite seq_length, combine_seq_self.
  destruct (reset2_spec (length (k_dests w)) w0) as (F2 & S2 & A2 & C2 & D2 & _); [rewrite S1; reflexivity|]. cbn zeta in *.
  split; [eapply same_frame_trans; [|exact F2]; eapply same_frame_trans; [|exact F]; unfold same_frame; cbn; repeat split|].
  split; [exact S2|]. split; [|split; [exact D2|]].
  - intros s Hs. rewrite A2. apply A1. unfold source_points. apply in_seq. lia.
  - intros s Hs. unfold get_forward_cands. rewrite C2. apply C1. unfold source_points. apply in_seq. lia.
Qed.

(* ================= Subnets.compute ================= *)
(* the (source, dest, dist**2) triples in the order compute visits them *)
Definition qedges (q : kdq) : list (nat * nat * Z) :=
  flat_map (fun ir : nat * list (nat * Z) => map (fun e : nat * Z => (fst e, fst ir, snd e)) (snd ir)) (enumerate q).
Definition edge_of (e : nat * nat * Z) : nat * nat := (fst (fst e), snd (fst e)).
(* what the visits append to the forward_cands of source s *)
Definition fcs_of (s : nat) (E : list (nat * nat * Z)) : list cand :=
  flat_map (fun e : nat * nat * Z => if Nat.eqb (fst (fst e)) s then [(Some (snd (fst e)), snd e)] else []) E.

Definition estep (w : lk) (e : nat * nat * Z) : option lk :=
  match assign_subnet (k_mst w) (edge_of e) with
  | Some m => Some (set_mst (fc_append w (fst (fst e)) (Some (snd (fst e)), snd e)) m)
  | None => None
  end.
Definition estep_o (o : option lk) (e : nat * nat * Z) : option lk :=
  match o with Some w => estep w e | None => None end.

Lemma fold_estep_none E : fold_left estep_o E None = None.
Proof. induction E; cbn; auto. Qed.

(* the two loop bodies, as generated *)
Definition inner_body (q : kdq) (i p : nat) : nat -> lk -> oc lk unit :=
  fun (j : nat) (self : lk) =>
  match kd_ind q i j with None => ORaise XIndexError | Some x2 =>
  match nth_error (source_points self) x2 with None => ORaise XIndexError | Some x3 =>
  let wp := x3 in
  match kd_dist q i j with None => ORaise XIndexError | Some x4 =>
  let self := fc_append self wp (Some p, x4) in
  match py_assign_subnet (k_mst self) wp p with Fail e_ => ORaise (of_exn e_) | Done m5 =>
  let self := set_mst self m5 in
  ONormal self
  end end end end.
Definition outer_body (q : kdq) : nat * nat -> lk -> oc lk unit :=
  fun (it : nat * nat) (self : lk) =>
  let i := fst it in let p := snd it in
  match kd_nn q i with None => ORaise XIndexError | Some n1 =>
  ofor (inner_body q i p) (range n1) self
  end.

Lemma compute_unfold q w :
  py_Subnets_compute q w
  = fn_end (fun self : lk => self) (Some tt)
      (obind (if orb (Nat.eqb (length (source_points w)) 0) (Nat.eqb (length (dest_points w)) 0)
              then OReturn w tt else ONormal w)
             (fun self => ofor (outer_body q) (enumerate (dest_points self)) self)).
Proof. reflexivity. Qed.

Lemma py_assign_done st s d m : assign_subnet st (s, d) = Some m -> py_assign_subnet st s d = Done m.
Proof.
  intros H. pose proof (py_assign_subnet_eq st s d) as E. rewrite H in E.
  destruct (py_assign_subnet st s d); cbn in E; congruence.
Qed.

Definition inner_g (i : nat) (j : nat) (o : option (nat * Z)) (self : lk) : oc lk unit :=
  match option_map fst o with None => ORaise XIndexError | Some x2 =>
  match nth_error (source_points self) x2 with None => ORaise XIndexError | Some x3 =>
  match option_map snd o with None => ORaise XIndexError | Some x4 =>
  match py_assign_subnet (k_mst (fc_append self x3 (Some i, x4))) x3 i with Fail e_ => ORaise (of_exn e_) | Done m5 =>
  ONormal (set_mst (fc_append self x3 (Some i, x4)) m5)
  end end end end.

Lemma inner_rows i : forall (r : list (nat * Z)) k w w2,
  (forall e, In e r -> (fst e < length (k_srcs w))%nat) ->
  fold_left estep_o (map (fun e : nat * Z => (fst e, i, snd e)) r) (Some w) = Some w2 ->
  ofor (fun jx : nat * (nat * Z) => inner_g i (fst jx) (Some (snd jx))) (combine (seq k (length r)) r) w = ONormal w2.
Proof.
  induction r as [|[s c] r IH]; intros k w w2 Hr H; cbn [length seq combine ofor map fold_left] in *.
  - congruence.
  - cbn [fst snd]. unfold inner_g at 1. cbn [option_map fst snd].
    assert (Hs : (s < length (k_srcs w))%nat) by (apply (Hr (s, c)); left; reflexivity).
    unfold source_points. rewrite nth_error_seq by exact Hs. cbn [Nat.add].
    cbn [estep_o] in H. unfold estep, edge_of in H. cbn [fst snd] in H.
    destruct (assign_subnet (k_mst w) (s, i)) as [m|] eqn:E; cbn beta iota in H; [|rewrite fold_estep_none in H; discriminate].
    replace (k_mst (fc_append w s (Some i, c))) with (k_mst w) by reflexivity.
    rewrite (py_assign_done _ _ _ _ E).
    apply IH; [|exact H]. intros e He. cbn. apply Hr. right. exact He.
Qed.

Lemma inner_spec q i r : nth_error q i = Some r -> forall w w2,
  (forall e, In e r -> (fst e < length (k_srcs w))%nat) ->
  fold_left estep_o (map (fun e : nat * Z => (fst e, i, snd e)) r) (Some w) = Some w2 ->
  ofor (inner_body q i i) (range (length r)) w = ONormal w2.
Proof.
  intros Hq w w2 Hr H. unfold range.
  rewrite (ofor_ext (inner_body q i i) (fun j => inner_g i j (nth_error r j))).
  - pose proof (ofor_seq_nth (inner_g i) r [] w) as E. cbn [length app] in E. rewrite E. apply inner_rows; assumption.
  - intros j s _. unfold inner_body, inner_g, kd_ind, kd_dist. rewrite Hq.
    destruct (nth_error r j) as [[a b]|]; reflexivity.
Qed.

Definition outer_g (q : kdq) (i : nat) (o : option (list (nat * Z))) (self : lk) : oc lk unit :=
  match option_map (@length _) o with None => ORaise XIndexError | Some n1 =>
  ofor (inner_body q i i) (range n1) self
  end.

Lemma fold_estep_app E1 E2 o : fold_left estep_o (E1 ++ E2) o = fold_left estep_o E2 (fold_left estep_o E1 o).
Proof. apply fold_left_app. Qed.

Lemma estep_srcs w e w' : estep w e = Some w' -> k_srcs w' = k_srcs w.
Proof. unfold estep. destruct (assign_subnet (k_mst w) (edge_of e)); intros H; inversion H; reflexivity. Qed.
Lemma fold_estep_srcs : forall E w w', fold_left estep_o E (Some w) = Some w' -> k_srcs w' = k_srcs w.
Proof.
  induction E as [|e E IH]; intros w w' H; cbn in H; [congruence|].
  destruct (estep w e) as [w1|] eqn:E1; [|rewrite fold_estep_none in H; discriminate].
  rewrite (IH _ _ H). eapply estep_srcs; eassumption.
Qed.

Lemma outer_rows q : forall (l : list (nat * list (nat * Z))) w w2,
  (forall ir, In ir l -> nth_error q (fst ir) = Some (snd ir)) ->
  (forall ir e, In ir l -> In e (snd ir) -> (fst e < length (k_srcs w))%nat) ->
  fold_left estep_o (flat_map (fun ir : nat * list (nat * Z) => map (fun e : nat * Z => (fst e, fst ir, snd e)) (snd ir)) l) (Some w) = Some w2 ->
  ofor (fun ir : nat * list (nat * Z) => outer_g q (fst ir) (Some (snd ir))) l w = ONormal w2.
Proof.
  induction l as [|[i r] l IH]; intros w w2 Hq Hr H; cbn [flat_map ofor] in *.
  - cbn in H. congruence.
  - rewrite fold_estep_app in H. cbn [fst snd] in *.
    destruct (fold_left estep_o (map (fun e : nat * Z => (fst e, i, snd e)) r) (Some w)) as [w1|] eqn:E1;
      [|rewrite fold_estep_none in H; discriminate].
    unfold outer_g at 1. cbn [option_map].
    rewrite (inner_spec q i r (Hq (i, r) (or_introl eq_refl)) w w1); [| |exact E1].
    + apply IH; [intros; apply Hq; right; assumption| |exact H].
      intros ir e Hi He. rewrite (fold_estep_srcs _ _ _ E1). eapply Hr; [right; exact Hi|exact He].
    + intros e He. apply (Hr (i, r) e); [left; reflexivity|exact He].
Qed.

Lemma in_enumerate_nth {A} (l : list A) : forall (pre : list A) i x,
  In (i, x) (combine (seq (length pre) (length l)) l) -> nth_error (pre ++ l) i = Some x.
Proof.
  induction l as [|a l IH]; intros pre i x H; cbn in H; [destruct H|].
  destruct H as [H|H].
  - inversion H; subst. rewrite nth_error_app2 by lia. rewrite Nat.sub_diag. reflexivity.
  - specialize (IH (pre ++ [a]) i x). rewrite app_length in IH. cbn in IH. rewrite Nat.add_1_r in IH.
    rewrite <- app_assoc in IH. apply IH. exact H.
Qed.

Theorem gen_compute_eq q w w2 :
  length q = length (k_dests w) ->
  (forall e, In e (qedges q) -> (fst (fst e) < length (k_srcs w))%nat) ->
  fold_left estep_o (qedges q) (Some w) = Some w2 ->
  py_Subnets_compute q w = FDone w2 tt.
Proof.
  intros Hl Hr H. rewrite compute_unfold. unfold source_points, dest_points. rewrite !seq_length.
  destruct (Nat.eqb_spec (length (k_srcs w)) 0) as [E0|E0]; cbn [orb].
  - assert (qedges q = []) as Eq.
    { destruct (qedges q) as [|e l]; [reflexivity|]. specialize (Hr e (or_introl eq_refl)). lia. }
    rewrite Eq in H. cbn in H. inversion H; subst. reflexivity.
  - destruct (Nat.eqb_spec (length (k_dests w)) 0) as [E1|E1].
    + assert (q = []) by (destruct q; [reflexivity|cbn in Hl; lia]). subst q. cbn in H. inversion H; subst. reflexivity.
    + cbn [obind]. unfold enumerate at 1. unfold dest_points. rewrite seq_length, combine_seq_self, ofor_map.
      rewrite (ofor_ext _ (fun i => outer_g q i (nth_error q i))).
      2:{ intros i s _. unfold outer_body, outer_g, kd_nn. reflexivity. }
      rewrite <- Hl. pose proof (ofor_seq_nth (outer_g q) q [] w) as E. cbn [length app] in E. rewrite E.
      rewrite (outer_rows q (combine (seq 0 (length q)) q) w w2); [reflexivity| | |exact H].
      * intros [i r] Hi. cbn. apply (in_enumerate_nth q [] i r). exact Hi.
      * intros [i r] e Hi He. apply (Hr (fst e, i, snd e)). unfold qedges, enumerate. apply in_flat_map.
        exists (i, r). split; [exact Hi|]. cbn. apply in_map_iff. exists e. auto.
Qed.

(* ---- the generated heap agrees with the model's heap on the points of the two frames ---- *)
Definition mst_sim (ns nd : nat) (a b : mst) : Prop :=
  subs a = subs b
  /\ (forall s, (s < ns)%nat -> alook s (ssub a) = alook s (ssub b))
  /\ (forall d, (d < nd)%nat -> alook d (dsub a) = alook d (dsub b)).

Lemma alook_aset_all ks k v m : alook k (aset_all ks v m) = if existsb (Nat.eqb k) ks then Some v else alook k m.
Proof.
  destruct (existsb (Nat.eqb k) ks) eqn:E.
  - apply alook_aset_all_in. apply existsb_exists in E. destruct E as [x [Hx Hk]]. apply Nat.eqb_eq in Hk. subst. exact Hx.
  - apply alook_aset_all_out. intros Hin. assert (existsb (Nat.eqb k) ks = true); [|congruence].
    apply existsb_exists. exists k. split; [exact Hin|apply Nat.eqb_refl].
Qed.

Lemma sim_assign ns nd a b s d :
  mst_sim ns nd a b -> (s < ns)%nat -> (d < nd)%nat ->
  match assign_subnet a (s, d), assign_subnet b (s, d) with
  | Some a', Some b' => mst_sim ns nd a' b'
  | None, None => True
  | _, _ => False
  end.
Proof.
  intros (Hs & Ha & Hd) Hsn Hdn. unfold assign_subnet. cbn beta iota. rewrite (Ha s Hsn), (Hd d Hdn), ?Hs.
  destruct (alook s (ssub b)) as [i1|], (alook d (dsub b)) as [i2|]; try exact I.
  - destruct (Nat.eqb i1 i2); [repeat split; assumption|].
    destruct (sfind i1 (subs b)) as [[s1 d1]|]; [|exact I].
    destruct (sfind i2 (subs b)) as [[s2 d2]|]; [|exact I].
    split; [cbn; rewrite ?Hs; reflexivity|]. split; cbn; intros k Hk; rewrite !alook_aset_all.
    + rewrite (Ha k Hk). reflexivity.
    + rewrite (Hd k Hk). reflexivity.
  - destruct (sfind i1 (subs b)) as [[s1 d1]|]; [|exact I].
    split; [cbn; rewrite ?Hs; reflexivity|]. split; cbn; intros k Hk; [apply Ha; exact Hk|].
    unfold aset. cbn. destruct (Nat.eqb k d); [reflexivity|apply Hd; exact Hk].
  - destruct (sfind i2 (subs b)) as [[s2 d2]|]; [|exact I].
    split; [cbn; rewrite ?Hs; reflexivity|]. split; cbn; intros k Hk; [|apply Hd; exact Hk].
    unfold aset. cbn. destruct (Nat.eqb k s); [reflexivity|apply Ha; exact Hk].
Qed.

Lemma fold_sim ns nd : forall E w m' pre,
  mst_sim ns nd (k_mst w) m' -> Inv nd pre m' ->
  (forall e, In e E -> (fst (fst e) < ns)%nat /\ (snd (fst e) < nd)%nat) ->
  exists w2 m2, fold_left estep_o E (Some w) = Some w2
    /\ fold_left step_o (map edge_of E) (Some m') = Some m2
    /\ mst_sim ns nd (k_mst w2) m2 /\ Inv nd (pre ++ map edge_of E) m2 /\ same_frame w w2
    /\ (forall s, get_forward_cands w2 s = get_forward_cands w s ++ fcs_of s E).
Proof.
  induction E as [|[[s d] c] E IH]; intros w m' pre Hsim HI Hr; cbn [fold_left map].
  - exists w, m'. rewrite app_nil_r. split; [reflexivity|]. split; [reflexivity|]. split; [exact Hsim|]. split; [exact HI|].
    split; [apply same_frame_refl|]. intros s. cbn. rewrite app_nil_r. reflexivity.
  - destruct (Hr (s, d, c) (or_introl eq_refl)) as [Hs Hd]. cbn [fst snd] in Hs, Hd.
    destruct (assign_step nd pre m' s d HI Hd) as [m1 [Hm1 HI1]].
    pose proof (sim_assign ns nd (k_mst w) m' s d Hsim Hs Hd) as Hst. rewrite Hm1 in Hst.
    cbn [estep_o step_o]. unfold estep, edge_of. cbn [fst snd]. rewrite Hm1.
    destruct (assign_subnet (k_mst w) (s, d)) as [a1|] eqn:Ea; [|contradiction].
    set (w1 := set_mst (fc_append w s (Some d, c)) a1).
    destruct (IH w1 m1 (pre ++ [(s, d)])) as (w2 & m2 & F1 & F2 & S2 & I2 & Fr & Fc); [exact Hst|exact HI1|intros; apply Hr; right; assumption|].
    exists w2, m2. split; [exact F1|]. split; [exact F2|]. split; [exact S2|].
    split; [rewrite <- app_assoc in I2; exact I2|].
    split; [eapply same_frame_trans; [|exact Fr]; unfold same_frame; cbn; repeat split|].
    intros s0. rewrite Fc. unfold w1, get_forward_cands. cbn [k_fc set_mst fc_append set_forward_cands set_fc fcs_of flat_map fst snd].
    rewrite fget_fset. rewrite (Nat.eqb_sym s0 s). destruct (Nat.eqb_spec s s0) as [->|Hn].
    + unfold get_forward_cands. rewrite <- app_assoc. reflexivity.
    + reflexivity.
Qed.

Lemma qedges_dest q : forall e, In e (qedges q) -> (snd (fst e) < length q)%nat.
Proof.
  intros e H. unfold qedges in H. apply in_flat_map in H. destruct H as [[i r] [Hi He]].
  apply in_map_iff in He. destruct He as [x [<- _]]. cbn.
  unfold enumerate in Hi. apply in_combine_l in Hi. apply in_seq in Hi. lia.
Qed.

(* Subnets(prev_hash, self.hash, ...) = reset(); compute(): from ANY world, with a query result whose
   rows are the destinations and whose source indices exist *)
Theorem gen_subnets_init q w :
  length q = length (k_dests w) ->
  (forall e, In e (qedges q) -> (fst (fst e) < length (k_srcs w))%nat) ->
  let ns := length (k_srcs w) in let nd := length (k_dests w) in
  let es := map edge_of (qedges q) in
  exists w2 m2, py_Subnets_init q w = FDone w2 tt
    /\ run_edges nd es = Some m2 /\ Inv nd es m2 /\ mst_sim ns nd (k_mst w2) m2
    /\ (forall s, (s < ns)%nat -> get_forward_cands w2 s = fcs_of s (qedges q))
    /\ k_includes_lost w2 = false
    /\ k_srcs w2 = k_srcs w /\ k_dests w2 = k_dests w /\ k_now w2 = k_now w /\ k_dtrack w2 = k_dtrack w
    /\ k_mem_set w2 = k_mem_set w /\ k_mem_history w2 = k_mem_history w /\ k_memory w2 = k_memory w
    /\ k_counter w2 = k_counter w /\ k_max_size w2 = k_max_size w /\ k_R2 w2 = k_R2 w.
Proof.
  intros Hl Hr ns nd es. unfold py_Subnets_init.
  set (w0 := set_includes_lost w false).
  destruct (gen_reset_spec w0) as (w1 & R1 & F1 & S1 & A1 & D1 & C1). rewrite R1.
  change (length (k_dests w0)) with nd in *. change (length (k_srcs w0)) with ns in *.
  assert (Hsim : mst_sim ns nd (k_mst w1) (init nd)).
  { split; [exact S1|]. split.
    - intros s Hs. rewrite (A1 s Hs). reflexivity.
    - intros d Hd. rewrite (D1 d Hd). cbn. rewrite alook_init.
      destruct (Nat.leb_spec 0 d), (Nat.ltb_spec d (0 + nd)); cbn; try reflexivity; lia. }
  destruct F1 as (E1 & E2 & E3 & E4 & E5 & E6 & E7 & E8 & E9 & E10 & E11).
  destruct (fold_sim ns nd (qedges q) w1 (init nd) [] Hsim (inv_init nd)) as (w2 & m2 & F2 & G2 & S2 & I2 & Fr & Fc).
  { intros e He. split; [apply Hr; exact He|]. unfold nd. rewrite <- Hl. apply qedges_dest. exact He. }
  rewrite (gen_compute_eq q w1 w2); [| rewrite E2; exact Hl | intros e He; rewrite E1; apply Hr; exact He | exact F2].
  cbn. exists w2, m2. split; [reflexivity|]. split; [exact G2|]. split; [exact I2|]. split; [exact S2|].
  destruct Fr as (G1 & G3 & G4 & G5 & G6 & G7 & G8 & G9 & G10 & G11 & G12).
  split; [intros s Hs; rewrite Fc, (C1 s Hs); reflexivity|].
  unfold w0 in *. cbn in E1, E2, E3, E4, E5, E6, E7, E8, E9, E10, E11.
  repeat split; congruence.
Qed.

(* the subnet ids the generated Subnets(...) leaves on the points of the two frames are the connected
   components of the visited pairs (C02_subnet_ids_are_connected_components for the generated code) *)
Definition in_frames (ns nd : nat) (x : Proofs.SubnetMerge.vert) : Prop :=
  match x with inl s => (s < ns)%nat | inr d => (d < nd)%nat end.
Lemma sim_vsub ns nd a b x : mst_sim ns nd a b -> in_frames ns nd x -> vsub a x = vsub b x.
Proof. intros (_ & Ha & Hd) Hx. destruct x as [s|d]; cbn in *; [apply Ha|apply Hd]; exact Hx. Qed.

Theorem gen_subnets_connected q w w2 x y i :
  length q = length (k_dests w) ->
  (forall e, In e (qedges q) -> (fst (fst e) < length (k_srcs w))%nat) ->
  py_Subnets_init q w = FDone w2 tt ->
  in_frames (length (k_srcs w)) (length (k_dests w)) x -> in_frames (length (k_srcs w)) (length (k_dests w)) y ->
  vsub (k_mst w2) x = Some i ->
  (vsub (k_mst w2) y = Some i <-> conn (map edge_of (qedges q)) x y).
Proof.
  intros Hl Hr Hrun Hx Hy Hi.
  destruct (gen_subnets_init q w Hl Hr) as (w2' & m2 & R & _ & I & Sim & _). cbn zeta in *.
  rewrite Hrun in R. inversion R; subst w2'.
  rewrite (sim_vsub _ _ _ _ _ Sim Hx) in Hi. rewrite (sim_vsub _ _ _ _ _ Sim Hy).
  eapply same_subnet_iff_connected; eassumption.
Qed.
