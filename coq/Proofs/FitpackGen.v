(* C15, route T: the functions generated into Gen/fitpack.v from
   trackpy/refine/least_squares.py equal the hand-written models
   (Model/Pack.v: pack / unpack) for all inputs; the param_mode block of
   FitFunctions.__init__ never leaves a `var` background.
   The closures (residual / jacobian) are treated in Proofs/FitpackGen2.v. *)
From Coq Require Import String ZArith List Bool Arith Lia.
From TP Require Import Model.Pack Model.PyFitpack Gen.fitpack Proofs.Pack.
Import ListNotations.
Open Scope nat_scope.

(* ------------------------------------------------------------------ *)
(* generic facts about pres / mapM / list_set                            *)
(* ------------------------------------------------------------------ *)
Lemma mapM_opt_map : forall {I T : Type} (F : I -> pres T) (G : I -> option T) l,
  (forall x, pres_opt (F x) = G x) -> pres_opt (mapM F l) = opt_map G l.
Proof.
  intros I T F G l H. induction l as [|a l IH]; simpl; [reflexivity|].
  rewrite <- H, <- IH. destruct (F a); simpl; [|reflexivity]. destruct (mapM F l); reflexivity.
Qed.

Lemma list_set_same : forall {T : Type} (l : list T) i c, nth_error l i = Some c -> list_set l i c = l.
Proof.
  induction l as [|a l IH]; destruct i; simpl; intros c H; try discriminate; [congruence|].
  f_equal. apply IH. exact H.
Qed.
Lemma list_set_twice : forall {T : Type} (l : list T) i a b, list_set (list_set l i a) i b = list_set l i b.
Proof. induction l as [|x l IH]; destruct i; simpl; intros; try reflexivity. f_equal. apply IH. Qed.
Lemma nth_error_list_set : forall {T : Type} (l : list T) i c v, nth_error l i = Some c -> nth_error (list_set l i v) i = Some v.
Proof. induction l as [|x l IH]; destruct i; simpl; intros c v H; try discriminate; [reflexivity|]. eapply IH; eauto. Qed.
Lemma list_set_app : forall {T : Type} (d : list T) c cs v, list_set (d ++ c :: cs) (length d) v = d ++ v :: cs.
Proof. induction d as [|x d IH]; simpl; intros; [reflexivity|]. f_equal. apply IH. Qed.
Lemma nth_error_app_len : forall {T : Type} (d : list T) c cs, nth_error (d ++ c :: cs) (length d) = Some c.
Proof. induction d; simpl; auto. Qed.

Lemma skipn_cons_nth : forall {T : Type} (v : list T) k a r,
  skipn k v = a :: r -> nth_error v k = Some a /\ skipn (k + 1) v = r.
Proof.
  induction v as [|x v IH]; intros k a r H.
  - destruct k; discriminate.
  - destruct k; simpl in *.
    + inversion H. auto.
    + apply IH. exact H.
Qed.
Lemma skipn_add : forall {T : Type} (v : list T) a b, skipn b (skipn a v) = skipn (a + b) v.
Proof.
  induction v as [|x v IH]; intros a b.
  - destruct a, b; reflexivity.
  - destruct a; simpl; [reflexivity|]. apply IH.
Qed.
Lemma skipn_nil_nth : forall {T : Type} (v : list T) k, skipn k v = [] -> nth_error v k = None.
Proof.
  induction v as [|x v IH]; intros k H; destruct k; simpl in *; auto; discriminate.
Qed.

Section GenPack.
Context {A : Type}.
Implicit Types (col c : list A) (g : list nat) (gt : list (list nat)).

(* ------------------------------------------------------------------ *)
(* vect_from_params = pack                                              *)
(* ------------------------------------------------------------------ *)
Lemma mapM_first_gather : forall col gt,
  match mapM list_first gt with POk idx => gather col idx | PRaise _ => None end = opt_map (first_of col) gt.
Proof.
  intros col gt. induction gt as [|g gt IH]; simpl; [reflexivity|].
  destruct g as [|j g]; simpl; [reflexivity|].
  destruct (mapM list_first gt) as [idx|e]; simpl.
  - unfold gather in *. simpl. rewrite IH. reflexivity.
  - rewrite <- IH. destruct (nth_error col j); reflexivity.
Qed.

Lemma select_takeone : forall groups m, select groups (S (S m)) = TakeOne <-> ((S (S m) =? 2) || is_none groups) = true.
Proof.
  intros groups m. unfold select. destruct m as [|m]; simpl.
  - tauto.
  - destruct groups as [gs|]; simpl; [|tauto]. destruct (nth_error gs (m - 0)). all: split; intro; discriminate.
Qed.

Lemma from_body : forall (params : list (list A)) groups op pn res i mode col,
  nth_error params i = Some col ->
  match pack_col op groups mode col with
  | Some a => exists res', vect_from_params_loop1 params groups op pn res (i, mode) = POk res' /\ concat res' = concat res ++ a
  | None => exists e, vect_from_params_loop1 params groups op pn res (i, mode) = PRaise e
  end.
Proof.
  intros params groups op pn res i mode col Hc.
  unfold vect_from_params_loop1, py_int.
  destruct mode as [|[|m]].
  - simpl. exists res. split; [reflexivity|]. rewrite app_nil_r. reflexivity.
  - simpl. unfold arr_col. rewrite Hc. simpl. eexists. split; [reflexivity|].
    rewrite concat_app. simpl. rewrite app_nil_r. reflexivity.
  - change (S (S m) =? 0) with false. change (S (S m) =? 1) with false. cbv iota.
    unfold pack_col.
    destruct (select groups (S (S m))) as [|gt|] eqn:Hs.
    + apply select_takeone in Hs. rewrite Hs.
      destruct op as [f|]; simpl.
      * unfold arr_col. rewrite Hc. simpl. destruct (f col) as [a|]; simpl; [|eexists; reflexivity].
        eexists. split; [reflexivity|]. rewrite concat_app. reflexivity.
      * unfold arr_at, arr_col. rewrite Hc. clear Hc. destruct col as [|a col']; simpl; [eexists; reflexivity|].
        eexists. split; [reflexivity|]. rewrite concat_app. reflexivity.
    + assert (Hb : ((S (S m) =? 2) || is_none groups) = false).
      { destruct ((S (S m) =? 2) || is_none groups) eqn:E; [|reflexivity]. apply select_takeone in E. congruence. }
      rewrite Hb. unfold select in Hs. destruct m as [|m]; [discriminate|]. destruct groups as [gs|]; [|discriminate].
      simpl in Hs. simpl groups_get. destruct (nth_error gs (m - 0)) as [gt'|]; [|discriminate]. inversion Hs; subst gt'. simpl.
      destruct op as [f|]; simpl.
      * pose proof (mapM_opt_map
          (fun group => bind (arr_gather params group i) (fun tmp8 => bind (call_op (Some f) tmp8) (fun tmp9 => POk tmp9)))
          (fun g => match gather col g with Some vals => f vals | None => None end) gt) as HM.
        rewrite <- HM.
        2:{ intro g. unfold arr_gather, arr_col. rewrite Hc. simpl. destruct (gather col g) as [vals|]; simpl; [|reflexivity].
            destruct (f vals); reflexivity. }
        destruct (mapM _ gt) as [gv|e]; simpl; [|eexists; reflexivity].
        eexists. split; [reflexivity|]. rewrite concat_app. simpl. rewrite app_nil_r. reflexivity.
      * pose proof (mapM_first_gather col gt) as HM. rewrite <- HM.
        destruct (mapM list_first gt) as [idx|e]; simpl; [|eexists; reflexivity].
        unfold arr_gather, arr_col. rewrite Hc. simpl. destruct (gather col idx) as [vals|]; simpl; [|eexists; reflexivity].
        eexists. split; [reflexivity|]. rewrite concat_app. simpl. rewrite app_nil_r. reflexivity.
    + assert (Hb : ((S (S m) =? 2) || is_none groups) = false).
      { destruct ((S (S m) =? 2) || is_none groups) eqn:E; [|reflexivity]. apply select_takeone in E. congruence. }
      rewrite Hb. unfold select in Hs. destruct m as [|m]; [discriminate|]. destruct groups as [gs|]; [|discriminate].
      simpl in Hs. simpl groups_get. destruct (nth_error gs (m - 0)) as [gt'|]; [discriminate|]. simpl. eexists. reflexivity.
Qed.

Lemma from_fold : forall (params : list (list A)) groups op pn ms cols k res,
  (forall j, nth_error cols j = nth_error params (k + j)) -> length ms = length cols ->
  match pack op groups ms cols with
  | Some v => exists res', foldM (vect_from_params_loop1 params groups op pn) (combine (seq k (length ms)) ms) res = POk res'
                           /\ concat res' = concat res ++ v
  | None => exists e, foldM (vect_from_params_loop1 params groups op pn) (combine (seq k (length ms)) ms) res = PRaise e
  end.
Proof.
  intros params groups op pn ms. induction ms as [|m ms IH]; intros cols k res Hn HL; destruct cols as [|c cs]; try discriminate.
  - simpl. exists res. split; [reflexivity|]. rewrite app_nil_r. reflexivity.
  - cbn [pack length seq combine foldM].
    assert (Hc : nth_error params k = Some c). { specialize (Hn 0). simpl in Hn. rewrite Nat.add_0_r in Hn. auto. }
    pose proof (from_body params groups op pn res k m c Hc) as HB.
    destruct (pack_col op groups m c) as [a|].
    + destruct HB as (res1 & E1 & C1). rewrite E1. simpl bind.
      specialize (IH cs (S k) res1).
      assert (Hn' : forall j, nth_error cs j = nth_error params (S k + j)).
      { intro j. specialize (Hn (S j)). simpl in Hn. rewrite Hn. f_equal. lia. }
      specialize (IH Hn' ltac:(simpl in HL; lia)).
      destruct (pack op groups ms cs) as [b|].
      * destruct IH as (res' & E & C). exists res'. split; [exact E|]. rewrite C, C1, app_assoc. reflexivity.
      * exact IH.
    + destruct HB as (e & E1). rewrite E1. simpl. eexists. reflexivity.
Qed.

Lemma pack_length : forall op groups ms (cols : list (list A)) v, pack op groups ms cols = Some v -> length ms = length cols.
Proof.
  intros op groups ms. induction ms as [|m ms IH]; intros cols v H; destruct cols as [|c cs]; simpl in H; try discriminate; auto.
  destruct (pack_col op groups m c); [|discriminate]. destruct (pack op groups ms cs) eqn:E; [|discriminate].
  simpl. f_equal. eapply IH; eauto.
Qed.

(* the generated vect_from_params is Model/Pack.v's pack; a Python exception is
   the model's None.  modes <> []: Python's `min(modes)` raises on an empty
   list where the model returns the empty vector. *)
Theorem gen_vect_from_params_eq : forall n (params : list (list A)) modes groups op,
  modes <> [] -> pres_opt (vect_from_params n params modes groups op) = pack op groups modes params.
Proof.
  intros n params modes groups op Hne. unfold vect_from_params.
  destruct modes as [|m ms]; [congruence|]. cbv beta iota zeta. unfold py_min. cbn [bind].
  destruct (length (m :: ms) =? length params) eqn:EL; cbn [negb].
  - apply Nat.eqb_eq in EL. change (0 <=? fold_left Nat.min ms m) with true. cbn [negb].
    pose proof (from_fold params groups op n (m :: ms) params 0 [] (fun j => eq_refl) EL) as HF.
    unfold enumerate. destruct (pack op groups (m :: ms) params) as [v|].
    + destruct HF as (res' & E & C). rewrite E. cbn [bind]. simpl in C. subst v.
      destruct (length res' =? 0) eqn:E0; simpl; [|reflexivity].
      apply Nat.eqb_eq in E0. destruct res'; [reflexivity|discriminate].
    + destruct HF as (e & E). rewrite E. reflexivity.
  - apply Nat.eqb_neq in EL. cbn [pres_opt]. destruct (pack op groups (m :: ms) params) eqn:E; [|reflexivity].
    apply pack_length in E. contradiction.
Qed.

(* ------------------------------------------------------------------ *)
(* vect_to_params = unpack                                               *)
(* ------------------------------------------------------------------ *)
Lemma to_groups : forall i pn gt (vals : list A) (result : list (list A)) col,
  nth_error result i = Some col ->
  match assign_groups col gt vals with
  | Some c' => foldM (vect_to_params_loop2 i pn) (combine gt vals) result = POk (list_set result i c')
  | None => exists e, foldM (vect_to_params_loop2 i pn) (combine gt vals) result = PRaise e
  end.
Proof.
  intros i pn gt. induction gt as [|g gt IH]; intros vals result col Hc.
  - simpl. rewrite (list_set_same _ _ _ Hc). reflexivity.
  - destruct vals as [|v vals].
    + simpl. rewrite (list_set_same _ _ _ Hc). reflexivity.
    + cbn [assign_groups combine foldM].
      assert (Hs : vect_to_params_loop2 i pn result (g, v)
                   = match set_group col g v with Some c1 => POk (list_set result i c1) | None => PRaise EIndex end).
      { unfold vect_to_params_loop2, arr_set_group, arr_col. rewrite Hc. simpl. destruct (set_group col g v); reflexivity. }
      rewrite Hs. destruct (set_group col g v) as [c1|]; cbn [bind]; [|eexists; reflexivity].
      specialize (IH vals (list_set result i c1) c1 (nth_error_list_set _ _ _ _ Hc)).
      destruct (assign_groups c1 gt vals) as [c'|].
      * rewrite IH, list_set_twice. reflexivity.
      * exact IH.
Qed.

Lemma to_body : forall n (vect : list A) groups (result : list (list A)) cur i mode col,
  nth_error result i = Some col ->
  match unpack_col groups n mode (skipn cur vect) col with
  | Some (c', rest') => exists cur', vect_to_params_loop1 n vect groups n (result, cur) (i, mode) = POk (list_set result i c', cur')
                                     /\ rest' = skipn cur' vect
  | None => exists e, vect_to_params_loop1 n vect groups n (result, cur) (i, mode) = PRaise e
  end.
Proof.
  intros n vect groups result cur i mode col Hc.
  unfold vect_to_params_loop1, py_int.
  destruct mode as [|[|m]].
  - simpl. exists cur. rewrite (list_set_same _ _ _ Hc). auto.
  - simpl. unfold arr_set_col, arr_col, slice. rewrite Hc. simpl bind.
    replace (cur + n - cur) with n by lia.
    destruct (set_col n (firstn n (skipn cur vect))) as [c'|]; simpl; [|eexists; reflexivity].
    exists (cur + n). split; [reflexivity|]. rewrite skipn_add. reflexivity.
  - change (S (S m) =? 0) with false. change (S (S m) =? 1) with false. cbv iota.
    unfold unpack_col.
    destruct (select groups (S (S m))) as [|gt|] eqn:Hs.
    + apply select_takeone in Hs. rewrite Hs. unfold vec_at, arr_fill_col, arr_col.
      destruct (skipn cur vect) as [|a r] eqn:Er.
      * rewrite (skipn_nil_nth _ _ Er). simpl. eexists. reflexivity.
      * destruct (skipn_cons_nth _ _ _ _ Er) as (Hn & Hr). rewrite Hn. simpl. rewrite Hc. simpl.
        exists (cur + 1). auto.
    + assert (Hb : ((S (S m) =? 2) || is_none groups) = false).
      { destruct ((S (S m) =? 2) || is_none groups) eqn:E; [|reflexivity]. apply select_takeone in E. congruence. }
      rewrite Hb. unfold select in Hs. destruct m as [|m]; [discriminate|]. destruct groups as [gs|]; [|discriminate].
      simpl in Hs. simpl groups_get. destruct (nth_error gs (m - 0)) as [gt'|]; [|discriminate]. inversion Hs; subst gt'. simpl bind.
      unfold slice. replace (cur + length gt - cur) with (length gt) by lia.
      pose proof (to_groups i n gt (firstn (length gt) (skipn cur vect)) result col Hc) as HG.
      destruct (assign_groups col gt (firstn (length gt) (skipn cur vect))) as [c'|].
      * rewrite HG. simpl. exists (cur + length gt). split; [reflexivity|]. rewrite skipn_add. reflexivity.
      * destruct HG as (e & HG). rewrite HG. simpl. eexists. reflexivity.
    + assert (Hb : ((S (S m) =? 2) || is_none groups) = false).
      { destruct ((S (S m) =? 2) || is_none groups) eqn:E; [|reflexivity]. apply select_takeone in E. congruence. }
      rewrite Hb. unfold select in Hs. destruct m as [|m]; [discriminate|]. destruct groups as [gs|]; [|discriminate].
      simpl in Hs. simpl groups_get. destruct (nth_error gs (m - 0)) as [gt'|]; [discriminate|]. simpl. eexists. reflexivity.
Qed.

Lemma to_fold : forall n (vect : list A) groups ms done todo cur,
  length ms = length todo ->
  match unpack groups n ms (skipn cur vect) todo with
  | Some (todo', rest') => exists cur', foldM (vect_to_params_loop1 n vect groups n) (combine (seq (length done) (length ms)) ms) (done ++ todo, cur)
                                        = POk (done ++ todo', cur') /\ rest' = skipn cur' vect
  | None => exists e, foldM (vect_to_params_loop1 n vect groups n) (combine (seq (length done) (length ms)) ms) (done ++ todo, cur) = PRaise e
  end.
Proof.
  intros n vect groups ms. induction ms as [|m ms IH]; intros done todo cur HL; destruct todo as [|c cs]; try discriminate.
  - simpl. exists cur. auto.
  - cbn [unpack length seq combine foldM].
    pose proof (to_body n vect groups (done ++ c :: cs) cur (length done) m c (nth_error_app_len done c cs)) as HB.
    destruct (unpack_col groups n m (skipn cur vect) c) as [[c' rest']|].
    + destruct HB as (cur1 & E1 & R1). rewrite E1. simpl bind. rewrite list_set_app. subst rest'.
      specialize (IH (done ++ [c']) cs cur1 ltac:(simpl in HL; lia)).
      rewrite app_length in IH. simpl in IH. rewrite Nat.add_1_r in IH. rewrite <- !app_assoc in IH. simpl in IH.
      destruct (unpack groups n ms (skipn cur1 vect) cs) as [[cs' rest'']|].
      * destruct IH as (cur' & E & R). exists cur'. rewrite <- app_assoc in E. simpl in E. split; [exact E|exact R].
      * exact IH.
    + destruct HB as (e & E1). rewrite E1. simpl. eexists. reflexivity.
Qed.

Lemma unpack_length : forall groups n ms (rest : list A) cols r, unpack groups n ms rest cols = Some r -> length ms = length cols.
Proof.
  intros groups n ms. induction ms as [|m ms IH]; intros rest cols r H; destruct cols as [|c cs]; simpl in H; try discriminate; auto.
  destruct (unpack_col groups n m rest c) as [[c' rest']|]; [|discriminate].
  destruct (unpack groups n ms rest' cs) as [[cs' r'']|] eqn:E; [|discriminate]. simpl. f_equal. eapply IH; eauto.
Qed.

(* the generated vect_to_params is Model/Pack.v's unpack (which also returns
   the unread tail of the vector) *)
Theorem gen_vect_to_params_eq : forall n (params : list (list A)) modes groups (vect : list A),
  modes <> [] -> pres_opt (vect_to_params vect n params modes groups) = option_map fst (unpack groups n modes vect params).
Proof.
  intros n params modes groups vect Hne. unfold vect_to_params.
  destruct modes as [|m ms]; [congruence|]. cbv beta iota zeta. unfold py_min. cbn [bind].
  destruct (length (m :: ms) =? length params) eqn:EL; cbn [negb].
  - apply Nat.eqb_eq in EL. change (0 <=? fold_left Nat.min ms m) with true. cbn [negb].
    pose proof (to_fold n vect groups (m :: ms) [] params 0 EL) as HF. cbn [skipn app] in HF.
    unfold enumerate. change (length (@nil (list A))) with 0 in HF.
    destruct (unpack groups n (m :: ms) vect params) as [[P rest]|].
    + destruct HF as (cur' & E & _). rewrite E. reflexivity.
    + destruct HF as (e & E). rewrite E. reflexivity.
  - apply Nat.eqb_neq in EL. cbn [pres_opt]. destruct (unpack groups n (m :: ms) vect params) eqn:E; [|reflexivity].
    apply unpack_length in E. contradiction.
Qed.

End GenPack.

(* ------------------------------------------------------------------ *)
(* FitFunctions.__init__: param_mode -> self.modes                       *)
(* ------------------------------------------------------------------ *)
Lemma d_find_set_same : forall d k v, d_find (d_set d k v) k = Some v.
Proof.
  induction d as [|[k' v'] d IH]; simpl; intros k v.
  - rewrite String.eqb_refl. reflexivity.
  - destruct (String.eqb k k') eqn:E; simpl.
    + rewrite String.eqb_refl. reflexivity.
    + rewrite E. apply IH.
Qed.

Lemma mapM_length : forall {I T : Type} (F : I -> pres T) l r, mapM F l = POk r -> length r = length l.
Proof.
  intros I T F l. induction l as [|a l IH]; simpl; intros r H.
  - inversion H. reflexivity.
  - destruct (F a); simpl in H; [|discriminate]. destruct (mapM F l) eqn:E; simpl in H; [|discriminate].
    inversion H. simpl. f_equal. apply IH. reflexivity.
Qed.

Definition s_background : string := "background".
Definition s_signal : string := "signal".
Definition background_warning : string :=
  "The background param mode cannot vary per feature. Varying per cluster now.".

(* Whatever param_mode the caller passes (strings or ints, broadcast keys,
   missing keys): when __init__ gets through the block, self.params is
   (background, signal, <pos>, <size>, <model parameters>), self.modes has one
   entry per parameter, and the mode of the background is NEVER 1 ('var'):
   either no warning was issued and it is what MODE_DICT gave, or exactly the
   one warning was issued and it is 3 ('cluster').  This is what the hypothesis
   bg_mode_ok of the gradient theorem relies on. *)
Theorem gen_init_modes_background : forall pos size fp iso pm params modes warns,
  init_modes pos size fp iso pm = POk (params, modes, warns) ->
  params = "background"%string :: "signal"%string :: pos ++ size ++ fp /\
  length modes = length params /\
  hd 0%Z modes <> 1%Z /\
  (warns = [] \/ (warns = [background_warning] /\ hd 0%Z modes = 3%Z)).
Proof.
  intros pos size fp iso pm params modes warns H. unfold init_modes in H. cbv zeta in H.
  repeat (match type of H with
          | bind ?x _ = POk _ => destruct x eqn:?; cbn [bind] in H; [|discriminate]
          end;
          try match type of H with
              | context [match ?p with pair _ _ => _ end] => is_var p; destruct p
              end).
  injection H as H1 H2 H3. subst params modes warns.
  split; [rewrite <- app_assoc; reflexivity|].
  match goal with Hm : mapM _ _ = POk _ |- _ => pose proof (mapM_length _ _ _ Hm) as HL; rename Hm into HM end.
  split; [exact HL|].
  cbn [app mapM] in HM.
  match goal with Hi : (if pyval_is_int ?t 1%Z then _ else _) = POk _ |- _ =>
    destruct (pyval_is_int t 1%Z) eqn:EI; injection Hi as Hw Hp; subst end.
  - unfold d_get in HM. rewrite d_find_set_same in HM. cbn [of_opt bind pyval_int] in HM.
    match type of HM with bind ?x _ = _ => destruct x; cbn [bind] in HM; [|discriminate] end.
    injection HM as HM; subst. cbn [hd].
    split; [discriminate|]. right. split; reflexivity.
  - match goal with Hg : d_get _ "background"%string = POk _ |- _ => rewrite Hg in HM end. cbn [bind] in HM.
    match goal with t : pyval |- _ => destruct t as [z|s]; cbn [pyval_int bind] in HM; [|discriminate] end.
    match type of HM with bind ?x _ = _ => destruct x; cbn [bind] in HM; [|discriminate] end.
    injection HM as HM; subst. cbn [hd].
    split; [|left; reflexivity]. intro; subst z. unfold pyval_is_int, pyval_eqb in EI. discriminate.
Qed.

(* ------------------------------------------------------------------ *)
(* the round trips, for the generated functions                          *)
(* ------------------------------------------------------------------ *)
Lemma pres_opt_some : forall {T : Type} (x : pres T) v, pres_opt x = Some v -> x = POk v.
Proof. intros T [t|e] v H; simpl in H; [congruence|discriminate]. Qed.

Lemma consistent_length : forall {A : Type} groups n modes (cols cols0 : list (list A)),
  consistent groups n modes cols cols0 -> length modes = length cols.
Proof.
  intros A groups n modes. induction modes as [|m ms IH]; intros cols cols0 H; destruct cols as [|c cs]; destruct cols0 as [|c0 cs0];
    simpl in H; try contradiction; auto.
  simpl. f_equal. destruct H as (_ & _ & _ & _ & H). eapply IH; eauto.
Qed.

Theorem gen_unpack_pack : forall {A : Type} (op : option (list A -> option A)) groups n modes (cols cols0 : list (list A)),
  modes <> [] -> ops_ok op -> consistent groups n modes cols cols0 ->
  exists v, vect_from_params n cols modes groups op = POk v /\
            length v = packed_len groups n modes /\
            vect_to_params v n cols0 modes groups = POk cols.
Proof.
  intros A op groups n modes cols cols0 Hne Hop Hc.
  destruct (unpack_pack op groups n modes cols cols0 Hop Hc) as (v & Hp & Hl & Hu).
  exists v. split; [|split; [exact Hl|]].
  - apply pres_opt_some. rewrite gen_vect_from_params_eq by exact Hne. exact Hp.
  - apply pres_opt_some. rewrite gen_vect_to_params_eq by exact Hne.
    specialize (Hu []). rewrite app_nil_r in Hu. rewrite Hu. reflexivity.
Qed.

Theorem gen_pack_unpack : forall {A : Type} (op : option (list A -> option A)) groups n modes (cols0 : list (list A)) (v : list A),
  modes <> [] -> ops_ok op -> length modes = length cols0 ->
  Forall (fun c => length c = n) cols0 -> Forall (mode_wf groups n) modes ->
  length v = packed_len groups n modes ->
  exists P, vect_to_params v n cols0 modes groups = POk P /\
            Forall (fun c => length c = n) P /\
            vect_from_params n P modes groups op = POk v.
Proof.
  intros A op groups n modes cols0 v Hne Hop HL HS HW HV.
  destruct (pack_unpack op groups n modes cols0 v [] Hop HL HS HW HV) as (P & Hu & HP & Hp).
  rewrite app_nil_r in Hu. exists P. split; [|split; [exact HP|]].
  - apply pres_opt_some. rewrite gen_vect_to_params_eq by exact Hne. rewrite Hu. reflexivity.
  - apply pres_opt_some. rewrite gen_vect_from_params_eq by exact Hne. exact Hp.
Qed.

(* non-vacuity of gen_init_modes_background: 2-D isotropic gauss, the caller asks for a
   `var` background and broadcasts 'pos' *)
Definition ex_init_param_mode : pydict :=
  [("background"%string, PStr "var"); ("pos"%string, PStr "global"); ("size"%string, PInt 3)].
Example ex_init_modes :
  init_modes ["y"%string; "x"%string] ["size"%string] [] true (Some ex_init_param_mode)
  = POk (["background"; "signal"; "y"; "x"; "size"]%string, [3; 1; 2; 2; 3]%Z, [background_warning]).
Proof. vm_compute. reflexivity. Qed.
Example ex_init_modes_default :
  init_modes ["y"%string; "x"%string] ["size"%string] [] true None
  = POk (["background"; "signal"; "y"; "x"; "size"]%string, [3; 1; 1; 1; 0]%Z, []).
Proof. vm_compute. reflexivity. Qed.
