(* C09 -- Proofs/PreprocessMoved.v WITHOUT the restriction threshold >= 0.
   In (35) the non-negative threshold serves two purposes: image.max() in convert_to_int is the same number in both canvases
   (with a negative threshold the bandpassed content may be negative everywhere, and then the maximum is 0 exactly when the
   canvas has a pixel outside the grown content box), and the scale factor iinfo.max / image.max() is not negative.  Both follow as
   well from: EACH canvas has a pixel outside the content box grown by the filter reach (h + 2 ry < H or w + 2 rx < W) -- the blank
   pixel is 0 after bandpass, so image.max() >= 0 in both canvases, and it is the same number.  The negative pixels that a negative
   threshold lets through are removed by convert_to_int's clip at 0 before anything else reads them. *)
From Coq Require Import ZArith QArith Qround Qabs String List Bool Arith Lia Permutation Setoid Morphisms.
From TP Require Import Model.Bandpass Model.BandpassSpec Model.BandpassShift Model.BandpassGen Model.PyPreproc
                       Proofs.Bandpass Proofs.BandpassGen Proofs.BandpassShift.
From TP Require Gen.preproc.
From TP Require Import Model.Dilation Model.COM Model.Equivariance Model.PyTail Model.PyLocatehead Model.LocatePipe2
                       Gen.locatehead Model.PreprocessMoved Proofs.Dilation Proofs.Equivariance Proofs.LocateheadGen
                       Proofs.PreprocessMoved.
Import ListNotations.
Open Scope Z_scope.

(* one content shown in two canvases, the second maximum known to be non-negative *)
Lemma pasted_max_le2 H1 W1 H2 W2 oy1 ox1 oy2 ox2 h w g (out1 out2 : img2) m1 m2 :
  pasted2 H1 W1 oy1 ox1 h w g out1 -> pasted2 H2 W2 oy2 ox2 h w g out2 ->
  0 <= oy2 -> oy2 + h <= Z.of_nat H2 -> 0 <= ox2 -> ox2 + w <= Z.of_nat W2 ->
  (0 <= m2)%Q ->
  qmax_list (concat out1) = Some m1 -> qmax_list (concat out2) = Some m2 -> (m1 <= m2)%Q.
Proof.
  intros [R1 P1] [R2 P2] A1 A2 A3 A4 G E1 E2.
  destruct (qmax_list_spec _ _ E1) as [I1 _]. destruct (qmax_list_spec _ _ E2) as [I2 M2].
  destruct (in_concat_px2 H1 W1 out1 m1 R1 I1) as (i & j & Hi & Hj & ->).
  rewrite (P1 i j Hi Hj). unfold place2.
  destruct (in_iv oy1 h i && in_iv ox1 w j) eqn:B; [|exact G].
  apply andb_true_iff in B as [Bi Bj]. apply in_iv_true in Bi, Bj.
  set (i2 := i - oy1 + oy2). set (j2 := j - ox1 + ox2).
  assert (Hi2 : 0 <= i2 < Z.of_nat H2) by (unfold i2; lia).
  assert (Hj2 : 0 <= j2 < Z.of_nat W2) by (unfold j2; lia).
  pose proof (M2 _ (px2_in_concat H2 W2 out2 i2 j2 R2 Hi2 Hj2)) as Le.
  rewrite (P2 i2 j2 Hi2 Hj2) in Le. unfold place2 in Le.
  assert (Bi2 : in_iv oy2 h i2 = true) by (apply in_iv_true; unfold i2; lia).
  assert (Bj2 : in_iv ox2 w j2 = true) by (apply in_iv_true; unfold j2; lia).
  rewrite Bi2, Bj2 in Le. cbn [andb] in Le.
  replace (i2 - oy2) with (i - oy1) in Le by (unfold i2; lia).
  replace (j2 - ox2) with (j - ox1) in Le by (unfold j2; lia). exact Le.
Qed.

Section Stage2.
  Variables (np_exp : Q -> Q) (dt : int_dtype) (content : image) (h w : Z) (ny nx : Q) (sy sx : Z) (thr : Q).
  Hypothesis S : shape content = [h; w].
  Hypothesis Hwf : forall c, pix content c <> 0 -> in_bounds (shape content) c.
  Hypothesis Hh : 1 <= h.
  Hypothesis Hw : 1 <= w.
  Hypothesis Hdt : 0 <= iinfo_max dt.
  Hypothesis Sy1 : 1 <= sy.
  Hypothesis Sx1 : 1 <= sx.
  Hypothesis Gy : (ny < inject_Z sy)%Q.
  Hypothesis Gx : (nx < inject_Z sx)%Q.
  Hypothesis Oy : Z.odd sy = true.
  Hypothesis Ox : Z.odd sx = true.

  Let T := Gen.preproc.py_bandpass_default_truncate.
  Let py := stage_par np_exp ny sy.
  Let px := stage_par np_exp nx sx.
  Let ry := stage_reach np_exp ny sy.
  Let rx := stage_reach np_exp nx sx.
  Let bpc := bp_content2 T py px thr h w (content_fn content).

  (* one canvas that has a pixel outside the grown content box *)
  Lemma stage_canvas2 Hz Wz oy ox :
    paddedb [Hz; Wz] [oy; ox] [h; w] [ghw_of T py; ghw_of T px] [bhw_of py; bhw_of px] = true ->
    h + 2 * ry < Hz \/ w + 2 * rx < Wz ->
    exists out vmax,
      pasted2 (Z.to_nat Hz) (Z.to_nat Wz) (oy - ry) (ox - rx) (h + 2 * ry) (w + 2 * rx) bpc out /\
      qmax_list (List.concat out) = Some vmax /\ (0 <= vmax)%Q /\
      preprocess_stage np_exp dt (embed [Hz; Wz] [oy; ox] content) [ny; nx] [sy; sx] thr =
        ROk (sf_of dt vmax,
             ImZ dt (fo_trunc fops2 (map (map (fun v => (sf_of dt vmax * v)%Q)) (map (map clip0q) out)))) /\
      0 <= ry <= oy /\ oy + h + ry <= Hz /\ 0 <= rx <= ox /\ ox + w + rx <= Wz.
  Proof.
    intros Hpad Hblank. pose proof (padded2_unpackZ _ _ _ _ _ _ _ _ _ _ Hpad) as U.
    fold (reach_of T py) (reach_of T px) in U. change (reach_of T py) with ry in U. change (reach_of T px) with rx in U.
    destruct U as (Y1 & Y2 & X1 & X2).
    assert (Spy : (1 <= size py)%Z) by exact Sy1. assert (Spx : (1 <= size px)%Z) by exact Sx1.
    destruct (reach_of_bounds T py Spy) as (Ry0 & _ & _). destruct (reach_of_bounds T px Spx) as (Rx0 & _ & _).
    change (reach_of T py) with ry in Ry0. change (reach_of T px) with rx in Rx0.
    assert (HzE : Z.of_nat (Z.to_nat Hz) = Hz) by lia. assert (WzE : Z.of_nat (Z.to_nat Wz) = Wz) by lia.
    destruct (stage_bandpass_ok np_exp ny nx sy sx thr Gy Gx Oy Ox (embed [Hz; Wz] [oy; ox] content)) as (out & Eb & Ep).
    fold T py px in Eb, Ep.
    pose proof (embed_pasted2 Hz Wz oy ox content h w S Hwf) as Pin.
    assert (Hpad' : paddedb [Z.of_nat (Z.to_nat Hz); Z.of_nat (Z.to_nat Wz)] [oy; ox] [h; w]
                            [ghw_of T py; ghw_of T px] [bhw_of py; bhw_of px] = true) by (rewrite HzE, WzE; exact Hpad).
    pose proof (bandpass2_pasted _ _ T py px thr oy ox h w _ _ out T_nonneg Spy Spx Pin Hpad' Eb) as Pout.
    change (reach_of T py) with ry in Pout. change (reach_of T px) with rx in Pout.
    fold bpc in Pout.
    pose proof Pout as [Rout Pp].
    assert (Hne : List.concat out <> []).
    { intros Hnil. pose proof (px2_in_concat _ _ out 0 0 Rout ltac:(lia) ltac:(lia)) as I. rewrite Hnil in I. exact I. }
    destruct (qmax_list_some _ Hne) as [vmax Emax].
    assert (Vpos : (0 <= vmax)%Q).
    { destruct (qmax_list_spec _ _ Emax) as [_ M].
      assert (Hb : exists i j, 0 <= i < Hz /\ 0 <= j < Wz /\
                               in_iv (oy - ry) (h + 2 * ry) i && in_iv (ox - rx) (w + 2 * rx) j = false).
      { destruct Hblank as [B|B].
        - destruct (Z.eq_dec (oy - ry) 0) as [E0|N0].
          + exists (Hz - 1), 0. split; [lia|]. split; [lia|]. apply andb_false_iff. left. apply in_iv_false. lia.
          + exists 0, 0. split; [lia|]. split; [lia|]. apply andb_false_iff. left. apply in_iv_false. lia.
        - destruct (Z.eq_dec (ox - rx) 0) as [E0|N0].
          + exists 0, (Wz - 1). split; [lia|]. split; [lia|]. apply andb_false_iff. right. apply in_iv_false. lia.
          + exists 0, 0. split; [lia|]. split; [lia|]. apply andb_false_iff. right. apply in_iv_false. lia. }
      destruct Hb as (i & j & Hi & Hj & Bf).
      pose proof (M _ (px2_in_concat _ _ out i j Rout ltac:(lia) ltac:(lia))) as Le.
      rewrite (Pp i j ltac:(lia) ltac:(lia)) in Le. unfold place2 in Le. rewrite Bf in Le. exact Le. }
    exists out, vmax. split; [exact Pout|]. split; [exact Emax|]. split; [exact Vpos|]. split; [|lia].
    unfold preprocess_stage. fold T. rewrite Ep. cbn [of_bandpass rbind].
    rewrite (convert_to_int_float fops2 out dt vmax Emax). reflexivity.
  Qed.

  Theorem preprocess_stage_embed2 H1 W1 oy1 ox1 H2 W2 oy2 ox2 :
    paddedb [H1; W1] [oy1; ox1] [h; w] [ghw_of T py; ghw_of T px] [bhw_of py; bhw_of px] = true ->
    paddedb [H2; W2] [oy2; ox2] [h; w] [ghw_of T py; ghw_of T px] [bhw_of py; bhw_of px] = true ->
    h + 2 * ry < H1 \/ w + 2 * rx < W1 -> h + 2 * ry < H2 \/ w + 2 * rx < W2 ->
    exists sf1 sf2,
      let content' := pre_content np_exp sf1 ny nx sy sx thr content in
      preprocess_stage np_exp dt (embed [H1; W1] [oy1; ox1] content) [ny; nx] [sy; sx] thr =
        ROk (sf1, ImZ dt (embed [H1; W1] [oy1 - ry; ox1 - rx] content')) /\
      preprocess_stage np_exp dt (embed [H2; W2] [oy2; ox2] content) [ny; nx] [sy; sx] thr =
        ROk (sf2, ImZ dt (embed [H2; W2] [oy2 - ry; ox2 - rx] content')) /\
      (sf1 == sf2)%Q /\
      shape content' = [h + 2 * ry; w + 2 * rx] /\
      (forall c, pix content' c <> 0 -> in_bounds (shape content') c) /\
      (forall c, 0 <= pix content' c) /\
      fitsb [H1; W1] [oy1 - ry; ox1 - rx] (shape content') [0; 0] = true /\
      fitsb [H2; W2] [oy2 - ry; ox2 - rx] (shape content') [0; 0] = true.
  Proof.
    intros D1 D2 K1 K2.
    destruct (stage_canvas2 H1 W1 oy1 ox1 D1 K1) as (out1 & v1 & P1 & M1 & V1 & E1 & B1).
    destruct (stage_canvas2 H2 W2 oy2 ox2 D2 K2) as (out2 & v2 & P2 & M2 & V2 & E2 & B2).
    assert (Ev : (v1 == v2)%Q).
    { apply Qle_antisym.
      - apply (pasted_max_le2 _ _ _ _ _ _ _ _ _ _ _ out1 out2 v1 v2 P1 P2); try exact M1; try exact M2; try exact V2; lia.
      - apply (pasted_max_le2 _ _ _ _ _ _ _ _ _ _ _ out2 out1 v2 v1 P2 P1); try exact M1; try exact M2; try exact V1; lia. }
    exists (sf_of dt v1), (sf_of dt v2). cbv zeta.
    split. { rewrite E1. do 3 f_equal. apply (stage_image_is_embed np_exp dt content h w ny nx sy sx thr S); [exact P1|lia|lia|reflexivity]. }
    split. { rewrite E2. do 3 f_equal. apply (stage_image_is_embed np_exp dt content h w ny nx sy sx thr S); [exact P2|lia|lia|].
             symmetry. apply sf_of_comp, Ev. }
    split. { apply sf_of_comp, Ev. }
    split. { apply (pre_content_shape np_exp content h w ny nx sy sx thr S). }
    split. { intros c. apply pre_content_wf. }
    split. { intros c. apply pre_content_nonneg. apply sf_of_nonneg; assumption. }
    rewrite (pre_content_shape np_exp content h w ny nx sy sx thr S). cbn [fitsb]. rewrite !andb_true_iff, !Z.leb_le. lia.
  Qed.
End Stage2.

(* (35) without threshold >= 0 *)
Theorem preprocess_moved2 np_exp dt content h w ny nx sy sx thr :
  shape content = [h; w] -> (forall c, pix content c <> 0 -> in_bounds (shape content) c) ->
  1 <= h -> 1 <= w -> 0 <= iinfo_max dt -> 1 <= sy -> 1 <= sx ->
  (ny < inject_Z sy)%Q -> (nx < inject_Z sx)%Q -> Z.odd sy = true -> Z.odd sx = true ->
  forall H1 W1 oy1 ox1 H2 W2 oy2 ox2,
  let T := Gen.preproc.py_bandpass_default_truncate in
  let py := stage_par np_exp ny sy in
  let px := stage_par np_exp nx sx in
  let ry := stage_reach np_exp ny sy in
  let rx := stage_reach np_exp nx sx in
  let csh' := [h + 2 * ry; w + 2 * rx] in
  let d := vsub [oy2; ox2] [oy1; ox1] in
  paddedb [H1; W1] [oy1; ox1] [h; w] [ghw_of T py; ghw_of T px] [bhw_of py; bhw_of px] = true ->
  paddedb [H2; W2] [oy2; ox2] [h; w] [ghw_of T py; ghw_of T px] [bhw_of py; bhw_of px] = true ->
  h + 2 * ry < H1 \/ w + 2 * rx < W1 -> h + 2 * ry < H2 \/ w + 2 * rx < W2 ->
  exists sf1 sf2 im1 im2,
    preprocess_stage np_exp dt (embed [H1; W1] [oy1; ox1] content) [ny; nx] [sy; sx] thr = ROk (sf1, ImZ dt im1) /\
    preprocess_stage np_exp dt (embed [H2; W2] [oy2; ox2] content) [ny; nx] [sy; sx] thr = ROk (sf2, ImZ dt im2) /\
    (sf1 == sf2)%Q /\ shape im1 = [H1; W1] /\ shape im2 = [H2; W2] /\
    moved d im1 im2 /\
    (forall p, 0 <= pix im1 p) /\ (forall p, 0 <= pix im2 p) /\
    (forall mg, fitsb [H1; W1] [oy1 - ry; ox1 - rx] csh' mg = true -> content_inside mg im1) /\
    (forall mg, fitsb [H2; W2] [oy2 - ry; ox2 - rx] csh' mg = true -> content_inside mg im2) /\
    (forall P, let m := map (fun r => r + Z.of_nat (pred (iters_of (lp_maxit P)))) (lp_radius P) in
               fitsb [H1; W1] [oy1 - ry; ox1 - rx] csh' m = true -> fitsb [H2; W2] [oy2 - ry; ox2 - rx] csh' m = true ->
               content_has_room P d im1 im2).
Proof.
  intros S Hwf Hh Hw Hdt Sy1 Sx1 Gy Gx Oy Ox H1 W1 oy1 ox1 H2 W2 oy2 ox2 T py px ry rx csh' d D1 D2 K1 K2.
  destruct (preprocess_stage_embed2 np_exp dt content h w ny nx sy sx thr S Hwf Hh Hw Hdt Sy1 Sx1 Gy Gx Oy Ox
              H1 W1 oy1 ox1 H2 W2 oy2 ox2 D1 D2 K1 K2) as (sf1 & sf2 & E1 & E2 & Es & Sc & Wc & Nc & F1 & F2).
  fold ry rx in E1, E2, Sc, F1, F2.
  set (content' := pre_content np_exp sf1 ny nx sy sx thr content) in *.
  exists sf1, sf2, (embed [H1; W1] [oy1 - ry; ox1 - rx] content'), (embed [H2; W2] [oy2 - ry; ox2 - rx] content').
  split; [exact E1|]. split; [exact E2|]. split; [exact Es|]. split; [reflexivity|]. split; [reflexivity|].
  assert (Ed : d = vsub [oy2 - ry; ox2 - rx] [oy1 - ry; ox1 - rx]).
  { unfold d. cbn [vsub]. f_equal; [lia|f_equal; lia]. }
  split.
  { rewrite Ed. apply embed_moved; try reflexivity.
    intros c _ Hc. apply Wc in Hc.
    destruct (fitsb_spec _ _ _ _ c F1 Hc) as [A _]. destruct (fitsb_spec _ _ _ _ c F2 Hc) as [B _]. split; assumption. }
  split. { apply embed_nonneg. exact Nc. }
  split. { apply embed_nonneg. exact Nc. }
  split. { intros mg Hf. apply embed_content_inside; [reflexivity|exact Wc|]. rewrite Sc. exact Hf. }
  split. { intros mg Hf. apply embed_content_inside; [reflexivity|exact Wc|]. rewrite Sc. exact Hf. }
  intros P m Hf1 Hf2. rewrite Ed. apply embed_has_room; try reflexivity; try exact Wc; rewrite Sc; assumption.
Qed.
