(* Proofs about Model/TrajFilter.v: the pandas groupby-filter (group keys,
   per-group positions, np.sort of the concatenated positions, take) returns
   exactly the rows whose group passes, in table order.  From that:
   filter_stubs / filter_clusters exactness. *)
From Coq Require Import ZArith QArith Qround List Bool Arith Lia Permutation Sorted.
From TP Require Import Model.TrajFilter.
Import ListNotations.
Local Open Scope nat_scope.

(* ---- insertion sort ------------------------------------------------------- *)
Lemma insert_perm {A} (leb : A -> A -> bool) x l : Permutation (insert leb x l) (x :: l).
Proof.
  induction l as [|y l IH]; cbn; [reflexivity|].
  destruct (leb x y); [reflexivity|].
  rewrite IH. apply perm_swap.
Qed.

Lemma isort_perm {A} (leb : A -> A -> bool) l : Permutation (isort leb l) l.
Proof.
  induction l as [|x l IH]; cbn; [reflexivity|].
  rewrite insert_perm. now constructor.
Qed.

Lemma insert_sorted x l : StronglySorted le l -> StronglySorted le (insert Nat.leb x l).
Proof.
  induction 1 as [|y l Hs IH Hy]; cbn.
  - repeat constructor.
  - destruct (Nat.leb x y) eqn:E.
    + apply Nat.leb_le in E. constructor; [constructor; assumption|].
      constructor; [exact E|]. eapply Forall_impl; [|exact Hy]. intros; cbn in *; lia.
    + apply Nat.leb_gt in E. constructor; [exact IH|].
      eapply Permutation_Forall; [symmetry; apply insert_perm|].
      constructor; [lia|exact Hy].
Qed.

Lemma isort_sorted l : StronglySorted le (isort Nat.leb l).
Proof. induction l; cbn; [constructor|now apply insert_sorted]. Qed.

Lemma sorted_nodup_strict l : StronglySorted le l -> NoDup l -> StronglySorted lt l.
Proof.
  induction 1 as [|x l Hs IH Hx]; intros Hn; [constructor|].
  inversion Hn; subst. constructor; [auto|].
  rewrite Forall_forall in *. intros y Hy. specialize (Hx y Hy).
  assert (x <> y) by (intros ->; contradiction). lia.
Qed.

Lemma strict_sorted_unique l1 : forall l2,
  StronglySorted lt l1 -> StronglySorted lt l2 ->
  (forall x : nat, In x l1 <-> In x l2) -> l1 = l2.
Proof.
  induction l1 as [|a l1 IH]; intros [|b l2] H1 H2 E.
  - reflexivity.
  - exfalso. apply (proj2 (E b)). now left.
  - exfalso. apply (proj1 (E a)). now left.
  - inversion H1 as [|? ? S1 F1]; inversion H2 as [|? ? S2 F2]; subst.
    rewrite Forall_forall in F1, F2.
    assert (a = b).
    { destruct (proj1 (E a) (or_introl eq_refl)) as [->|Ha]; [reflexivity|].
      destruct (proj2 (E b) (or_introl eq_refl)) as [->|Hb]; [reflexivity|].
      specialize (F2 a Ha). specialize (F1 b Hb). lia. }
    subst b. f_equal. apply IH; auto.
    intros x; split; intros Hx.
    + destruct (proj1 (E x) (or_intror Hx)) as [->|]; [|assumption].
      specialize (F1 x Hx). lia.
    + destruct (proj2 (E x) (or_intror Hx)) as [->|]; [|assumption].
      specialize (F2 x Hx). lia.
Qed.

Lemma seq_strict n : forall a, StronglySorted lt (seq a n).
Proof.
  induction n; intros a; cbn; constructor; auto.
  rewrite Forall_forall. intros x Hx. apply in_seq in Hx. lia.
Qed.

Lemma filter_strict (f : nat -> bool) l : StronglySorted lt l -> StronglySorted lt (filter f l).
Proof.
  induction 1 as [|x l Hs IH Hx]; cbn; [constructor|].
  destruct (f x); [|exact IH].
  constructor; [exact IH|]. rewrite Forall_forall in *. intros y Hy.
  apply filter_In in Hy. apply Hx, Hy.
Qed.

Lemma nodup_app {A} (l1 l2 : list A) :
  NoDup l1 -> NoDup l2 -> (forall a, In a l1 -> ~ In a l2) -> NoDup (l1 ++ l2).
Proof.
  induction 1 as [|x l1 Hx Hn IH]; intros H2 D; cbn; [assumption|].
  constructor.
  - rewrite in_app_iff. intros [?|?]; [contradiction|]. apply (D x); [now left|assumption].
  - apply IH; [assumption|]. intros a Ha. apply D. now right.
Qed.

Lemma nodup_flat_map {A B} (f : A -> list B) ks :
  NoDup ks -> (forall k, NoDup (f k)) ->
  (forall k1 k2 i, In i (f k1) -> In i (f k2) -> k1 = k2) ->
  NoDup (flat_map f ks).
Proof.
  induction 1 as [|k ks Hk Hn IH]; intros Hf D; cbn; [constructor|].
  apply nodup_app; [apply Hf|apply IH; assumption|].
  intros i Hi Hi2. apply in_flat_map in Hi2 as (k2 & Hk2 & Hi2).
  assert (k = k2) by (eapply D; eassumption). subst. contradiction.
Qed.

(* ---- groups ----------------------------------------------------------------- *)
Lemma has_pid_iff k r : has_pid k r = true <-> pid r = Some k.
Proof.
  unfold has_pid. destruct (pid r) as [p|]; [|split; discriminate].
  rewrite Z.eqb_eq. split; [intros ->; reflexivity|intros [=]; assumption].
Qed.

Lemma group_keys_in rows k : In k (group_keys rows) <-> exists r, In r rows /\ pid r = Some k.
Proof.
  unfold group_keys.
  split.
  - intros H. apply (Permutation_in _ (isort_perm _ _)) in H.
    apply nodup_In in H. apply in_flat_map in H as (r & Hr & Hk).
    exists r; split; [assumption|]. destruct (pid r); cbn in Hk; [|contradiction].
    destruct Hk as [->|[]]; reflexivity.
  - intros (r & Hr & Hk). apply (Permutation_in _ (Permutation_sym (isort_perm _ _))).
    apply nodup_In. apply in_flat_map. exists r; split; [assumption|]. rewrite Hk. now left.
Qed.

Lemma group_keys_nodup rows : NoDup (group_keys rows).
Proof.
  unfold group_keys. eapply Permutation_NoDup; [symmetry; apply isort_perm|]. apply NoDup_nodup.
Qed.

Lemma positions_from_in k rows : forall a i,
  In i (positions_from a k rows) <->
  exists j r, i = a + j /\ nth_error rows j = Some r /\ pid r = Some k.
Proof.
  induction rows as [|r0 rows IH]; intros a i; cbn.
  - split; [contradiction|]. intros (j & r & _ & H & _). destruct j; discriminate.
  - rewrite in_app_iff, IH. split.
    + intros [H|(j & r & -> & Hj & Hr)].
      * destruct (has_pid k r0) eqn:E; [|contradiction]. destruct H as [<-|[]].
        exists 0, r0. rewrite Nat.add_0_r. repeat split. now apply has_pid_iff.
      * exists (S j), r. repeat split; [lia|assumption|assumption].
    + intros (j & r & -> & Hj & Hr). destruct j as [|j]; cbn in Hj.
      * injection Hj as ->. left. apply has_pid_iff in Hr. rewrite Hr. left. lia.
      * right. exists j, r. repeat split; [lia|assumption|assumption].
Qed.

Lemma positions_from_nodup k rows : forall a, NoDup (positions_from a k rows).
Proof.
  induction rows as [|r0 rows IH]; intros a; cbn; [constructor|].
  apply nodup_app; [destruct (has_pid k r0); repeat constructor; intros []|apply IH|].
  intros i Hi Hi2. apply positions_from_in in Hi2 as (j & r & -> & _).
  destruct (has_pid k r0); [|contradiction]. destruct Hi as [Hi|[]]. lia.
Qed.

(* ---- take of the increasing positions = filter -------------------------------- *)
Lemma take_filter_seq (keep : row -> bool) (fpos : nat -> bool) rows : forall pre,
  (forall i r, nth_error (pre ++ rows) i = Some r -> fpos i = keep r) ->
  take (filter fpos (seq (length pre) (length rows))) (pre ++ rows) = filter keep rows.
Proof.
  induction rows as [|r rows IH]; intros pre H; [reflexivity|].
  cbn [length seq filter].
  assert (E : nth_error (pre ++ r :: rows) (length pre) = Some r).
  { rewrite nth_error_app2 by lia. now rewrite Nat.sub_diag. }
  rewrite (H _ _ E).
  assert (IH' := IH (pre ++ [r])). rewrite <- app_assoc, app_length in IH'. cbn in IH'.
  rewrite Nat.add_1_r in IH'. specialize (IH' H).
  destruct (keep r); cbn.
  - unfold take in *. cbn. rewrite E. cbn. f_equal. exact IH'.
  - exact IH'.
Qed.

(* ---- the general theorem -------------------------------------------------------- *)
Definition group_passes (func : list row -> bool) (rows : list row) (r : row) : bool :=
  match pid r with Some k => func (group_rows k rows) | None => false end.

Theorem gb_filter_exact func rows :
  gb_filter func rows = filter (group_passes func rows) rows.
Proof.
  unfold gb_filter.
  set (f := fun k => if func (group_rows k rows) then positions k rows else []).
  set (fpos := fun i => match nth_error rows i with Some r => group_passes func rows r | None => false end).
  assert (Hin : forall i, In i (flat_map f (group_keys rows)) <-> In i (filter fpos (seq 0 (length rows)))).
  { intros i. rewrite in_flat_map, filter_In, in_seq. unfold f, fpos, positions. split.
    - intros (k & Hk & Hi). destruct (func (group_rows k rows)) eqn:Ef; [|contradiction].
      apply positions_from_in in Hi as (j & r & -> & Hj & Hr). cbn.
      split; [assert (j < length rows) by (apply nth_error_Some; congruence); lia|].
      rewrite Hj. unfold group_passes. now rewrite Hr.
    - intros (Hlt & Hp). destruct (nth_error rows i) as [r|] eqn:Hi; [|discriminate].
      unfold group_passes in Hp. destruct (pid r) as [k|] eqn:Hk; [|discriminate].
      exists k. split.
      + apply group_keys_in. exists r. split; [eapply nth_error_In; eassumption|assumption].
      + rewrite Hp. apply positions_from_in. exists i, r. repeat split; assumption. }
  assert (Hnd : NoDup (flat_map f (group_keys rows))).
  { apply nodup_flat_map; [apply group_keys_nodup| |].
    - intros k. unfold f. destruct (func _); [apply positions_from_nodup|constructor].
    - intros k1 k2 i H1 H2. unfold f, positions in *.
      destruct (func (group_rows k1 rows)); [|contradiction].
      destruct (func (group_rows k2 rows)); [|contradiction].
      apply positions_from_in in H1 as (j1 & r1 & -> & Hj1 & Hr1).
      apply positions_from_in in H2 as (j2 & r2 & E & Hj2 & Hr2).
      cbn in E. subst j2. congruence. }
  assert (Heq : isort Nat.leb (flat_map f (group_keys rows)) = filter fpos (seq 0 (length rows))).
  { apply strict_sorted_unique.
    - apply sorted_nodup_strict; [apply isort_sorted|].
      eapply Permutation_NoDup; [symmetry; apply isort_perm|exact Hnd].
    - apply filter_strict, seq_strict.
    - intros x. rewrite <- Hin. split; apply Permutation_in;
        [apply isort_perm|symmetry; apply isort_perm]. }
  rewrite Heq. apply (take_filter_seq (group_passes func rows) fpos rows []).
  intros i r Hi. unfold fpos. cbn in Hi. now rewrite Hi.
Qed.

(* ---- the two filters, against declarative specifications --------------------------- *)
(* number of observations of trajectory p: rows labelled p that have a frame number *)
Definition observations (p : Z) (rows : list row) : Z :=
  Z.of_nat (length (filter (fun r => has_pid p r && has_frame r) rows)).

(* mean size of trajectory p: arithmetic mean of the sizes recorded for p *)
Definition traj_sizes (p : Z) (rows : list row) : list Q :=
  flat_map (fun r => if has_pid p r then opt_list (size r) else []) rows.

Lemma filter_filter {A} (f g : A -> bool) l : filter f (filter g l) = filter (fun x => g x && f x) l.
Proof.
  induction l as [|x l IH]; cbn; [reflexivity|].
  destruct (g x); cbn; [destruct (f x); cbn; now rewrite IH|exact IH].
Qed.

Lemma sizes_group p rows : sizes (group_rows p rows) = traj_sizes p rows.
Proof.
  unfold sizes, group_rows, traj_sizes.
  induction rows as [|r rows IH]; cbn; [reflexivity|].
  destruct (has_pid p r); cbn; now rewrite IH.
Qed.

Theorem filter_stubs_exact rows threshold :
  filter_stubs rows threshold =
  filter (fun r => match pid r with
                   | Some p => (threshold <=? observations p rows)%Z
                   | None => false
                   end) rows.
Proof.
  unfold filter_stubs. rewrite gb_filter_exact. apply filter_ext. intros r.
  unfold group_passes, stub_func, observations, group_rows.
  destruct (pid r); [|reflexivity]. now rewrite filter_filter.
Qed.

Theorem filter_clusters_exact rows cut :
  filter_clusters rows cut =
  filter (fun r => match pid r with
                   | Some p => match qmean (traj_sizes p rows) with
                               | Some m => Qltb m cut
                               | None => false
                               end
                   | None => false
                   end) rows.
Proof.
  unfold filter_clusters. rewrite gb_filter_exact. apply filter_ext. intros r.
  unfold group_passes, cluster_func. destruct (pid r); [|reflexivity].
  now rewrite sizes_group.
Qed.

(* the numeric meaning of the two executable tests used above *)
Local Open Scope Q_scope.
Lemma Qltb_lt a b : Qltb a b = true <-> a < b.
Proof.
  unfold Qltb. rewrite negb_true_iff. split.
  - intros H. apply Qnot_le_lt. intros L. apply Qle_bool_iff in L. congruence.
  - intros H. destruct (Qle_bool b a) eqn:E; [|reflexivity].
    apply Qle_bool_iff in E. exfalso. eapply Qlt_not_le; eassumption.
Qed.

Lemma qmean_spec l m : qmean l = Some m ->
  l <> [] /\ m * inject_Z (Z.of_nat (length l)) == qsum l.
Proof.
  destruct l as [|x l]; [discriminate|]. intros H.
  assert (Hm : m = Qred (qsum (x :: l) / inject_Z (Z.of_nat (length (x :: l))))).
  { unfold qmean in H. congruence. }
  clear H. subst m. split; [discriminate|].
  rewrite Qred_correct. field.
  intros H. assert (0 < inject_Z (Z.of_nat (length (x :: l)))).
  { change 0 with (inject_Z 0). rewrite <- Zlt_Qlt. cbn [length]. lia. }
  rewrite H in H0. now apply Qlt_irrefl in H0.
Qed.

Local Close Scope Q_scope.
(* consequences stated relationally: nothing invented, order kept *)
Inductive subseq {A} : list A -> list A -> Prop :=
| sub_nil : subseq [] []
| sub_keep x l1 l2 : subseq l1 l2 -> subseq (x :: l1) (x :: l2)
| sub_drop x l1 l2 : subseq l1 l2 -> subseq l1 (x :: l2).

Lemma filter_subseq {A} (f : A -> bool) l : subseq (filter f l) l.
Proof. induction l; cbn; [constructor|destruct (f a); now constructor]. Qed.

Theorem filters_select_rows rows :
  (forall t, subseq (filter_stubs rows t) rows) /\ (forall c, subseq (filter_clusters rows c) rows).
Proof.
  split; intros; [rewrite filter_stubs_exact|rewrite filter_clusters_exact]; apply filter_subseq.
Qed.

(* whole trajectories: a kept row's trajectory is kept entirely *)
Theorem filter_stubs_whole_trajectories rows t r r' :
  In r (filter_stubs rows t) -> In r' rows -> pid r' = pid r -> In r' (filter_stubs rows t).
Proof.
  rewrite filter_stubs_exact, !filter_In. intros [_ H] Hr' E. split; [assumption|]. now rewrite E.
Qed.

Theorem filter_clusters_whole_trajectories rows c r r' :
  In r (filter_clusters rows c) -> In r' rows -> pid r' = pid r -> In r' (filter_clusters rows c).
Proof.
  rewrite filter_clusters_exact, !filter_In. intros [_ H] Hr' E. split; [assumption|]. now rewrite E.
Qed.
