(* C12, route T: the subnet-linker parameter of the generated adaptive_link_wrap instantiated with the GENERATED
   subnet_linker_recursive (Gen/linkstep.v) through the adapter Model/RecLinker.gen_rec_linker.

   C12_generated_is_model (Proofs/AdaptiveEquiv.gen_adaptive_is_asplit) keeps the subnet linker as a parameter whose
   specification is asked of EVERY heap, source set and destination set and of every level.  The generated recursive
   linker does not meet it in that generality:
     - its three one-to-one shortcuts answer from the SETS alone (a subnet of one source and one destination is linked
       whatever the candidate list says; a source-less subnet with two destinations ends in IndexError);
     - whether it leaves its null candidate behind depends on the destination set too (shortcut or not);
     - the null candidate carries search_range**2 of the level in force, R2*(p/q)^(2k), as an exact integer of the
       cost unit -- possible for the levels of one run (choose the unit), not for all k at once.
   So the wrapper theorem is proved again here with the linker's specification asked only of the subnets the
   recursion can reach: a precondition [Pre k] that depends on the level, levels bounded by the level K at which
   adaptive_stop is reached, heaps after the linker that may depend on the destination set.

     py_adaptive_asplit_pre    generated adaptive_link_wrap = asplit_g, linker / split_subnet specified under Pre
     rec_*                     the adapter: fget = fc_get, the null loop is AdaptiveEquiv.add_null
     rec_linker_spec           the generated subnet_linker_recursive meets the linker specification:
                               SubnetOversizeException exactly above the limit, heap effect = the null candidates,
                               links = solve_leaf's links on the subnet in the set's iteration order
                               (through Proofs/SolveScale: the search is invariant under a common positive factor)
     rec_split_spec            the generated split_subnet meets the split_subnet specification, Pre preserved
     gen_adaptive_rec_asplit   the composition against Model/Adaptive.asplit *)
From Coq Require Import ZArith List Bool Arith Lia Permutation.
From TP Require Import Model.Assign Model.Link Model.LinkCheck Model.Adaptive Model.MemQueue Model.SubnetMerge
     Model.PyLinker Gen.linker_core Model.PyLinkstep Gen.linkstep
     Proofs.BnB Proofs.Opt Proofs.Cands Proofs.Comps Proofs.Connected Proofs.Step Proofs.SubnetMerge Proofs.SplitMerge
     Proofs.LinkerGen Proofs.LinkstepGen Proofs.LinkstepGen2 Proofs.SolveScale.
From TP Require Import Model.SplitSubnet Model.Strategies Model.PyAdaptive Model.Adaptive2 Gen.adaptive Model.RecLinker
     Proofs.SplitIndep Proofs.Adaptive Proofs.AdaptiveGen Proofs.AdaptiveGen2 Proofs.AdaptiveEquiv.
Import ListNotations.

(* ================= adaptive_link_wrap, linker and split_subnet specified on reachable subnets only ================= *)
Section AdaptiveGenericPre.
Variable num : Type.
Variable ops : num_ops num.
Variable a : acfg.
Variable lvl : nat -> num.
Variable stop step : num.
Hypothesis mul_lvl : forall k, n_mul ops (lvl k) step = lvl (S k).
Hypothesis le_stop : forall k, n_le ops (lvl k) stop = at_stop a k.
Variable kw : Type.
Variable kwargs : kw.
Variable SL : heap -> list nat -> list nat -> num -> kw -> fresult pairs.     (* subnet_linker *)
Variable SP : heap -> list nat -> list nat -> num -> fresult (list sets).      (* split_subnet *)
Variable spl : splitter.
Variable slv : nat -> group -> list (nat * option nat).
Variable slh : nat -> heap -> list nat -> list nat -> heap.      (* the heap SL leaves when it raises *)
Variable sld : nat -> heap -> list nat -> list nat -> heap.      (* the heap SL leaves when it returns *)
Variable K : nat.                                                (* the level at which adaptive_stop is reached *)
Variable Pre : nat -> group -> list nat -> Prop.                 (* what is known of a subnet met at level k *)

Hypothesis SL_spec : forall h ss ds k, (k <= K)%nat -> Pre k (grp h ss) ds ->
  if (a_max a <? length ss)%nat then SL h ss ds (lvl k) kwargs = Fail (slh k h ss ds) SubnetOversizeException
  else exists r, SL h ss ds (lvl k) kwargs = Done (sld k h ss ds) r /\ wf_pairs r /\ links_of r = slv k (grp h ss).
Hypothesis slh_frame : forall k h ss ds, same_fc_outside ss h (slh k h ss ds).
Hypothesis sld_frame : forall k h ss ds, same_fc_outside ss h (sld k h ss ds).
Hypothesis SP_spec : forall h ss ds k, (k < K)%nat -> Pre k (grp h ss) ds ->
  exists h' parts, SP (slh k h ss ds) ss ds (lvl (S k)) = Done h' parts /\
    map (fun p : sets => (grp h' (fst p), snd p)) parts = fst (spl (S k) (grp h ss) ds) /\
    same_fc_outside ss h h' /\
    (forall p, In p parts -> incl (fst p) ss) /\
    ForallOrdPairs (fun p q : sets => forall s, In s (fst p) -> ~ In s (fst q)) parts /\
    Forall (fun p : sets => Pre (S k) (grp h' (fst p)) (snd p)) parts.

Definition pyp := py_adaptive_link_wrap num ops kw SL SP.

Lemma flat_leaf_dropped_p (l : list nat) : flat_map (leaf_links slv) (map Dropped l) = [].
Proof. induction l; cbn; auto. Qed.

Theorem py_adaptive_asplit_pre : forall fuel h ss ds k,
  (fuel + k = K)%nat -> at_stop a K = true -> Pre k (grp h ss) ds ->
  exists h', same_fc_outside ss h h' /\
    match asplit_g spl fuel a k (grp h ss) ds with
    | Oversize => pyp (S fuel) h ss ds (lvl k) (Some stop) step kwargs = Fail h' SubnetOversizeException
    | Ok ls => exists r, pyp (S fuel) h ss ds (lvl k) (Some stop) step kwargs = Done h' r /\ wf_pairs r /\
                         links_of r = flat_map (leaf_links slv) ls
    end.
Proof.
  induction fuel as [|fuel IH]; intros h ss ds k HK Hstop Hpre.
  - assert (Hs0 : at_stop a k = true) by (rewrite <- HK in Hstop; exact Hstop).
    assert (HkK : (k <= K)%nat) by lia.
    unfold pyp. cbn [py_adaptive_link_wrap asplit_g wrap_frame0 w_heap].
    unfold grp at 1. rewrite map_length.
    pose proof (SL_spec h ss ds k HkK Hpre) as Hsl.
    destruct (Nat.ltb_spec (a_max a) (length ss)) as [Hov|Hfit].
    + destruct (Nat.leb_spec (length ss) (a_max a)) as [Hc|_]; [lia|]. rewrite Hs0.
      exists (slh k h ss ds). split; [apply slh_frame|]. rewrite Hsl. cbn. rewrite le_stop, Hs0. reflexivity.
    + destruct (Nat.leb_spec (length ss) (a_max a)) as [_|Hc]; [|lia].
      destruct Hsl as [[r1 r2] [Hr [Hwf Hl]]]. exists (sld k h ss ds). split; [apply sld_frame|].
      exists (r1, r2). rewrite Hr. cbn. split; [reflexivity|split; [exact Hwf|]]. rewrite app_nil_r. exact Hl.
  - assert (HkK : (k <= K)%nat) by lia. assert (HkK' : (k < K)%nat) by lia.
    cbn [asplit_g]. unfold grp at 1. rewrite map_length.
    unfold pyp. remember (S fuel) as f1 eqn:Ef1. cbn [py_adaptive_link_wrap wrap_frame0 w_heap].
    pose proof (SL_spec h ss ds k HkK Hpre) as Hsl.
    destruct (Nat.ltb_spec (a_max a) (length ss)) as [Hov|Hfit].
    2:{ destruct (Nat.leb_spec (length ss) (a_max a)) as [_|Hc]; [|lia].
        destruct Hsl as [[r1 r2] [Hr [Hwf Hl]]]. exists (sld k h ss ds). split; [apply sld_frame|].
        exists (r1, r2). rewrite Hr. cbn. split; [reflexivity|split; [exact Hwf|]]. rewrite app_nil_r. exact Hl. }
    destruct (Nat.leb_spec (length ss) (a_max a)) as [Hc|_]; [lia|].
    rewrite Hsl. cbn [try_except exn_eqb wrap_frame0 set_w_heap w_heap sn_spl sn_dpl]. rewrite le_stop, mul_lvl.
    destruct (at_stop a k) eqn:Es.
    { exists (slh k h ss ds). split; [apply slh_frame|]. reflexivity. }
    cbn [bind set_sn_spl set_sn_dpl set_w_heap w_heap sn_spl sn_dpl].
    destruct (SP_spec h ss ds k HkK' Hpre) as [h1 [parts [Hsp [Hmap [Hfr [Hincl [Hdis Hpp]]]]]]].
    rewrite Hsp. cbn [set_w_heap set_sn_spl set_sn_dpl w_heap sn_spl sn_dpl].
    rewrite <- Hmap.
    match goal with |- context [for_each ?b parts _] => set (body := b) end.
    set (F := fun p : sgroup => asplit_g spl fuel a (S k) (fst p) (snd p)).
    set (tl := map Dropped (snd (spl (S k) (grp h ss) ds))).
    assert (Hloop : forall ps hc accs accd,
      Forall (fun p : sets => Pre (S k) (grp h1 (fst p)) (snd p)) ps ->
      ForallOrdPairs (fun p q : sets => forall s, In s (fst p) -> ~ In s (fst q)) ps ->
      (forall p s, In p ps -> In s (fst p) -> fc_get s (h_fc hc) = fc_get s (h_fc h1)) ->
      exists he, (forall s, (forall p, In p ps -> ~ In s (fst p)) -> fc_get s (h_fc he) = fc_get s (h_fc hc)) /\
        match seq_res_g F (map (fun p : sets => (grp h1 (fst p), snd p)) ps) tl with
        | Oversize => exists xs xd, for_each body ps (mk_wrap hc accs accd) = Raise (mk_wrap he xs xd) SubnetOversizeException
        | Ok ls => exists rs rd, for_each body ps (mk_wrap hc accs accd) = Normal (mk_wrap he (accs ++ rs) (accd ++ rd)) /\
                                 length rs = length rd /\ links_of (rs, rd) = flat_map (leaf_links slv) ls
        end).
    { induction ps as [|p ps IHps]; intros hc accs accd Hp Hd Hag.
      - exists hc. split; [reflexivity|]. cbn [map seq_res_g for_each]. exists [], []. rewrite !app_nil_r.
        split; [reflexivity|split; [reflexivity|]]. unfold tl. rewrite flat_leaf_dropped_p. reflexivity.
      - pose proof (Forall_inv Hp) as Hp1. pose proof (Forall_inv_tail Hp) as Hp'.
        destruct (FOP_inv _ _ _ Hd) as [Hd1 Hd'].
        assert (Eg : grp hc (fst p) = grp h1 (fst p)).
        { apply grp_ext. intros s Hs. apply (Hag p s); [left; reflexivity|exact Hs]. }
        assert (Hst' : (fuel + S k = K)%nat) by lia.
        cbv beta in Hp1. rewrite <- Eg in Hp1.
        destruct (IH hc (fst p) (snd p) (S k) Hst' Hstop Hp1) as [h2 [Hfr2 Hres]]. unfold pyp in Hres. cbv beta in Hp1.
        assert (Hb : body p (mk_wrap hc accs accd) =
          match py_adaptive_link_wrap num ops kw SL SP f1 hc (fst p) (snd p) (lvl (S k)) (Some stop) step kwargs with
          | Done h7 r9 => Normal (mk_wrap h7 (accs ++ fst r9) (accd ++ snd r9))
          | Fail h7 e8 => Raise (mk_wrap h7 accs accd) e8
          end) by reflexivity.
        cbn [map seq_res_g for_each]. rewrite Hb. unfold F at 1. cbn [fst snd]. rewrite <- Eg.
        destruct (asplit_g spl fuel a (S k) (grp hc (fst p)) (snd p)) as [l|].
        + destruct Hres as [[r1 r2] [Hr [Hwf Hl]]]. rewrite Hr. cbn [fst snd].
          destruct (IHps h2 (accs ++ r1) (accd ++ r2) Hp' Hd') as [he [Hfe Hrest]].
          { intros q s Hq Hs. rewrite Hfr2.
            - apply (Hag q s); [right; exact Hq|exact Hs].
            - rewrite Forall_forall in Hd1. intros Hin. exact (Hd1 q Hq s Hin Hs). }
          exists he. split.
          { intros s Hs. rewrite Hfe by (intros q Hq; apply Hs; right; exact Hq).
            apply Hfr2. apply Hs. left; reflexivity. }
          destruct (seq_res_g F (map (fun p0 : sets => (grp h1 (fst p0), snd p0)) ps) tl) as [l'|].
          * destruct Hrest as [rs [rd [Hfe' [Hlen Hlk]]]]. exists (r1 ++ rs), (r2 ++ rd).
            rewrite !app_assoc. split; [exact Hfe'|]. split.
            -- rewrite !app_length. unfold wf_pairs in Hwf. cbn [fst snd] in Hwf. lia.
            -- rewrite links_of_app by exact Hwf. rewrite flat_map_app, Hl, Hlk. reflexivity.
          * exact Hrest.
        + rewrite Hres.
          exists h2. split.
          { intros s Hs. apply Hfr2. apply Hs. left; reflexivity. }
          exists accs, accd. reflexivity. }
    change (set_w_heap (set_sn_dpl (set_sn_spl (set_w_heap (wrap_frame0 h) (slh k h ss ds)) []) []) h1) with (mk_wrap h1 [] []).
    destruct (Hloop parts h1 [] [] Hpp Hdis (fun _ _ _ _ => eq_refl)) as [he [Hfe Hres]].
    exists he. split.
    { intros s Hs. rewrite Hfe.
      - apply Hfr. exact Hs.
      - intros p Hp Hin. apply Hs. apply (Hincl p Hp). exact Hin. }
    fold F. fold tl.
    destruct (seq_res_g F (map (fun p : sets => (grp h1 (fst p), snd p)) parts) tl) as [ls|].
    + destruct Hres as [rs [rd [Hfe' [Hlen Hlk]]]]. rewrite Hfe'. cbn [bind fn_end w_heap sn_spl sn_dpl app].
      exists (rs, rd). split; [reflexivity|split; [exact Hlen|exact Hlk]].
    + destruct Hres as [xs [xd Hx]]. rewrite Hx. reflexivity.
Qed.

End AdaptiveGenericPre.

(* ================= the adapter ================= *)
Lemma fget_fc_get p (m : PyLinkstep.fcmap) : fget p m = fc_get p m.
Proof. induction m as [|[k v] m IH]; cbn; [reflexivity|]. rewrite IH. reflexivity. Qed.

Lemma rec_heap_world h R ms : rec_heap (rec_world h R ms) = h.
Proof. destruct h. reflexivity. Qed.

(* statements 387-388, run alone, leave exactly the heap AdaptiveEquiv.add_null describes *)
Lemma null_loop_fold c : forall l w,
  k_fc (fold_left (fun w s_ => fc_append w s_ (None, c)) l w)
    = fold_left (fun f s => fc_set s (fc_get s f ++ [(None, c)]) f) l (k_fc w) /\
  k_mst (fold_left (fun w s_ => fc_append w s_ (None, c)) l w) = k_mst w.
Proof.
  induction l as [|s l IH]; intros w; cbn [fold_left]; [split; reflexivity|].
  destruct (IH (fc_append w s (None, c))) as [E1 E2]. rewrite E1, E2. split; [|reflexivity].
  unfold fc_append, PyLinkstep.set_forward_cands, set_fc, get_forward_cands. cbn [k_fc]. rewrite fget_fc_get. reflexivity.
Qed.
Lemma rec_null_heap ord h R ms ss c :
  rec_heap (null_loop_world ord (rec_world h R ms) ss c) = add_null c (ord ss) h.
Proof.
  unfold null_loop_world, rec_heap, add_null, PyLinkstep.set_iter.
  destruct (null_loop_fold c (ord ss) (rec_world h R ms)) as [E1 E2]. rewrite E1, E2. reflexivity.
Qed.

Lemma perm_single (ord : list nat -> list nat) x : (forall l, Permutation (ord l) l) -> ord [x] = [x].
Proof. intros H. apply Permutation_length_1_inv. apply Permutation_sym. apply H. Qed.
Lemma perm_nil (ord : list nat -> list nat) : (forall l, Permutation (ord l) l) -> ord [] = [].
Proof. intros H. apply Permutation_nil. apply Permutation_sym. apply H. Qed.

Lemma links_of_cons s d a b : links_of (Some s :: a, d :: b) = (s, d) :: links_of (a, b).
Proof. reflexivity. Qed.
Lemma links_of_cons_none d a b : links_of (None :: a, d :: b) = links_of (a, b).
Proof. reflexivity. Qed.
Lemma links_of_links l : links_of (links_src l, links_dst l) = map strip_cost l.
Proof.
  induction l as [|x l IH]; [reflexivity|].
  change (links_src (x :: l)) with (Some (fst x) :: links_src l). change (links_dst (x :: l)) with (fst (snd x) :: links_dst l).
  rewrite links_of_cons, IH. reflexivity.
Qed.
Lemma links_of_unclaimed (U : list nat) : links_of (map (fun _ => @None nat) U, map Some U) = [].
Proof. induction U as [|d U IH]; [reflexivity|]. cbn [map]. rewrite links_of_cons_none. exact IH. Qed.

Lemma solve_group_fits n m (g : group) : (length g <= n)%nat -> (length g <= m)%nat -> solve_group n g = solve_group m g.
Proof.
  intros Hn Hm. unfold solve_group.
  destruct (Nat.ltb_spec n (length g)); [lia|]. destruct (Nat.ltb_spec m (length g)); [lia|]. reflexivity.
Qed.

(* ---- the generated subnet_linker_recursive past its shortcuts, on the heap (cf. LinkstepGen2.gen_entry_solve,
   which has the sort loop of assign_links in front) ---- *)
Section RecGeneral.
Variable ord : list nat -> list nat.
Hypothesis ord_perm : forall l, Permutation (ord l) l.
Variable num : Type.
Variable sq : num -> Z.

Definition null_group (h : heap) (c : Z) (ss : list nat) : group :=
  map (fun s => (s, fc_get s (h_fc h) ++ [(None, c)])) ss.

Theorem rec_general (h : heap) (ss ds : list nat) (rho : num) (ms : nat) :
  NoDup ss -> ss <> [] ->
  (Nat.eqb (length ss) 1 && Nat.eqb (length ds) 1 = false) ->
  (Nat.eqb (length ss) 1 && Nat.eqb (length ds) 0 = false) ->
  let g := null_group h (sq rho) (ord ss) in
  Forall item_ok g ->
  gen_rec_linker num sq ord h ss ds rho ms
  = match solve_group ms g with
    | Oversize => Fail (add_null (sq rho) (ord ss) h) SubnetOversizeException
    | Ok l => let U := PyLinkstep.set_iter ord (nset_diff ds (somes (links_dst l))) in
              Done (add_null (sq rho) (ord ss) h) (links_src l ++ map (fun _ => None) U, links_dst l ++ map Some U)
    end.
Proof.
  intros Hnd Hne Hc2 Hc3 g Hok. set (c := sq rho) in *.
  pose proof (nodup_ord ord ord_perm ss Hnd) as Hno.
  set (w1 := rec_world h c ms).
  destruct (fc_upd_fold (fun c0 => c0 ++ [(None, c)]) (ord ss) w1 Hno) as (F2 & M2 & C2). cbn zeta in *.
  set (w2 := fold_left (fc_upd (fun c0 => c0 ++ [(None, c)])) (ord ss) w1) in *.
  assert (Ew2 : w2 = null_loop_world ord w1 ss c) by reflexivity.
  assert (Hheap : rec_heap w2 = add_null c (ord ss) h) by (rewrite Ew2; apply rec_null_heap).
  assert (Hg : map (spoint_of w2) (PyLinkstep.set_iter ord ss) = g).
  { unfold g, null_group, PyLinkstep.set_iter. apply map_ext_in. intros s Hs. unfold spoint_of. rewrite C2.
    rewrite in_existsb by exact Hs. unfold get_forward_cands, w1, rec_world. cbn [k_fc]. rewrite fget_fc_get. reflexivity. }
  unfold gen_rec_linker. fold c. fold w1. rewrite <- Ew2, Hheap.
  unfold py_subnet_linker_recursive.
  assert (Hc1 : Nat.eqb (length ss) 0 && Nat.eqb (length ds) 1 = false).
  { destruct ss; [congruence|reflexivity]. }
  rewrite Hc1, Hc2, Hc3. cbn [obind].
  rewrite (null_loop c (PyLinkstep.set_iter ord ss) w1 blank_linker [] []). cbn [obind]. unfold PyLinkstep.set_iter at 1. fold w2.
  rewrite Hg. rewrite (py_init_solve g ms). cbv zeta.
  unfold solve_group. unfold spoint.
  destruct (ms <? length g)%nat; [reflexivity|].
  assert (Hgne : g <> []).
  { unfold g, null_group. intros E. apply map_eq_nil in E. apply Hne. apply Permutation_nil. rewrite <- E. apply ord_perm. }
  destruct g as [|x0 g0] eqn:Eg; [congruence|]. rewrite <- Eg in *. clear Hgne.
  rewrite sort_items_key. unfold spoint. set (Sg := @sort_key item klen g).
  assert (Hs : Forall item_ok Sg) by (eapply Forall_perm; [apply Permutation_sym, sort_key_perm|exact Hok]).
  destruct (items_ok_solver _ Hs) as (Hn & Hsrt & Hnull).
  destruct (solve_some _ Hn Hsrt Hnull) as (v & al & Hsol). rewrite Hsol.
  cbn [bpairs_of option_map snd best_pairs]. unfold enc_pairs.
  destruct (solve_is_opt Sg v al Hn Hsrt Hsol) as [(Hperm & _ & _) _].
  assert (Hlen : combine Sg (map fst al) <> []).
  { intros E. assert (L : length (combine Sg al) = length Sg) by (rewrite <- (map_length fst (combine Sg al)); apply Permutation_length; exact Hperm).
    assert (length (combine Sg (map fst al)) = length (combine Sg al)) by (rewrite !combine_length, map_length; reflexivity).
    rewrite E in H. cbn in H. assert (length Sg = length g) by apply sort_key_length. rewrite Eg in H0. cbn in H0. lia. }
  match goal with |- context [unzip_pairs ?x] =>
    replace (unzip_pairs x) with (@inr xexn _ (map (fun p : spair => Some (fst (fst p))) (combine Sg (map fst al)),
                                            map (fun p : spair => snd p) (combine Sg (map fst al))))
      by (symmetry; apply unzip_nonempty; exact Hlen) end.
  destruct (combine_links Sg al) as [L1 L2]. cbn [fst snd]. rewrite L1, L2.
  rewrite unclaimed_loop. cbn [obind PyLinkstep.fn_end]. unfold PyLinkstep.set_iter at 1. fold w2. rewrite Hheap. reflexivity.
Qed.
End RecGeneral.

(* ================= the generated subnet_linker_recursive meets the linker specification ================= *)
Open Scope Z_scope.

Lemma ogrp_grp (ord : list nat -> list nat) h ss : (forall l, Permutation (ord l) l) -> ogrp ord (grp h ss) = grp h (ord ss).
Proof.
  intros Hp. unfold ogrp. rewrite grp_fst. unfold grp at 2. apply map_ext_in. intros s Hs.
  assert (Hin : In s ss) by (eapply Permutation_in; [apply Hp|exact Hs]).
  unfold grp. rewrite (fc_get_map_in (fun x => fc_get x (h_fc h)) ss s Hin). reflexivity.
Qed.

(* a group in the iteration order of its sources is a permutation of the group *)
Lemma ogrp_perm (ord : list nat -> list nat) (g : group) : (forall l, Permutation (ord l) l) -> NoDup (map fst g) ->
  Permutation (ogrp ord g) g.
Proof.
  intros Hp Hnd. unfold ogrp.
  eapply Permutation_trans; [apply Permutation_map; apply Hp|].
  rewrite map_map. rewrite <- (map_id g) at 2. apply Permutation_refl'. apply map_ext_in. intros [s cs] Hin. cbn [fst].
  rewrite (fc_get_in g s cs Hnd Hin). reflexivity.
Qed.

Section RecSpec.
Variable a : acfg.
Variable R2 : Z.
Variable ord : list nat -> list nat.
Hypothesis ord_perm : forall l, Permutation (ord l) l.
Variable num : Type.
Variable sq : num -> Z.
Variable lvl : nat -> num.
Variable K : nat.
Variable nullc : nat -> Z.                  (* search_range**2 of level k in the unit of the candidate costs *)
Hypothesis Hsq : forall k, (k <= K)%nat -> sq (lvl k) = nullc k.
Hypothesis Hnull : forall k, (k <= K)%nat -> nullc k * den a k = R2 * Adaptive.num a k.
Hypothesis Hp : 0 < a_p a.
Hypothesis Hpq : a_p a < a_q a.
Hypothesis HR : 0 < R2.
Hypothesis Hmax : (1 <= a_max a)%nat.

(* what is known of a subnet met at level k: well formed (AdaptiveGen2.subnet_wf), candidate lists sorted,
   non-negative, within the range in force, every source has a candidate, a source-less subnet is one destination
   (what Subnets.compute and split_subnet build: a source enters a subnet through assign_subnet with one of its
   candidates, destinations are merged through sources only) *)
Definition Pre2 (k : nat) (g : group) (ds : list nat) : Prop :=
  subnet_wf g ds /\ Forall real_item g /\ Forall (within a R2 k) g /\
  Forall (fun it : item => snd it <> []) g /\ (g = [] -> exists d, ds = [d]).

Definition shortcut (ss ds : list nat) : bool :=
  (Nat.eqb (length ss) 0 && Nat.eqb (length ds) 1) || (Nat.eqb (length ss) 1 && Nat.eqb (length ds) 1)
  || (Nat.eqb (length ss) 1 && Nat.eqb (length ds) 0).
Definition rslh (k : nat) (h : heap) (ss ds : list nat) : heap := add_null (nullc k) (ord ss) h.
Definition rsld (k : nat) (h : heap) (ss ds : list nat) : heap := if shortcut ss ds then h else add_null (nullc k) (ord ss) h.
(* the links of a leaf: Model/Adaptive.solve_leaf on the leaf's sources in the set's iteration order *)
Definition rec_slv (k : nat) (g : group) : list (nat * option nat) := map strip_cost (solve_leaf a R2 (Leaf k (ogrp ord g))).
Definition SLr (h : heap) (ss ds : list nat) (rho : num) (ms : nat) : fresult pairs := gen_rec_linker num sq ord h ss ds rho ms.

Lemma den_pos k : 0 < den a k.
Proof. apply pow_pos_z. lia. Qed.
Lemma num_pos k : 0 < Adaptive.num a k.
Proof. apply pow_pos_z. exact Hp. Qed.
Lemma acfg_ok_a : acfg_ok a.
Proof. unfold acfg_ok. lia. Qed.

(* the unscaled items the generated linker works on are well formed for the solver *)
Lemma null_group_ok h ss k : (k <= K)%nat -> Forall real_item (grp h ss) -> Forall (within a R2 k) (grp h ss) ->
  Forall item_ok (null_group h (nullc k) ss).
Proof.
  intros Hk Hr Hw. unfold null_group. rewrite Forall_forall. intros it Hit. apply in_map_iff in Hit. destruct Hit as [s [E Hs]]. subst it.
  rewrite Forall_forall in Hr, Hw.
  assert (Hin : In (s, fc_get s (h_fc h)) (grp h ss)) by (unfold grp; apply in_map_iff; exists s; auto).
  destruct (Hr _ Hin) as [Hsrt [Hnn _]]. pose proof (Hw _ Hin) as Hwi. unfold within in Hwi. cbn [snd] in *.
  pose proof (den_pos k) as Hd. pose proof (num_pos k) as Hn. pose proof (Hnull k Hk) as Hc.
  unfold item_ok. cbn [snd]. split; [|split].
  - apply sorted_app_last; [exact Hsrt|]. rewrite Forall_forall in *. intros y Hy. cbn [snd]. specialize (Hwi y Hy). nia.
  - apply Forall_app. split; [exact Hnn|]. constructor; [cbn [snd]; nia|constructor].
  - exists (nullc k). apply in_or_app. right. left. reflexivity.
Qed.

(* the model's leaf items are the generated linker's items with every cost multiplied by q^(2k) *)
Lemma leaf_items_scale h ss k : (k <= K)%nat ->
  leaf_items a R2 k (grp h ss) = map (scale_item (den a k)) (null_group h (nullc k) ss).
Proof.
  intros Hk. unfold leaf_items, null_group, grp. rewrite !map_map. apply map_ext. intros s.
  unfold scale_item, scale_cs. cbn [fst snd]. rewrite map_app. cbn [map]. unfold scale_c at 2. cbn [fst snd].
  rewrite (Hnull k Hk). reflexivity.
Qed.

(* ... so, by the scale invariance of the search, both choose the same links *)
Lemma rec_links_scale h ss k l : (k <= K)%nat -> (length ss <= a_max a)%nat ->
  solve_group (a_max a) (null_group h (nullc k) ss) = Ok l ->
  map strip_cost (solve_leaf a R2 (Leaf k (grp h ss))) = map strip_cost l.
Proof.
  intros Hk Hfit Hl. unfold solve_leaf. rewrite (leaf_items_scale h ss k Hk).
  rewrite (solve_group_scale (den a k) _ _ (den_pos k)).
  assert (Hlen : length (null_group h (nullc k) ss) = length ss) by (unfold null_group; apply map_length).
  rewrite (solve_group_fits (length (grp h ss)) (a_max a)).
  - rewrite Hl. rewrite map_map. apply map_ext. intros [s [d c]]. reflexivity.
  - rewrite Hlen. unfold grp. rewrite map_length. lia.
  - rewrite Hlen. exact Hfit.
Qed.

Theorem rec_linker_spec : forall h ss ds k, (k <= K)%nat -> Pre2 k (grp h ss) ds ->
  if (a_max a <? length ss)%nat then SLr h ss ds (lvl k) (a_max a) = Fail (rslh k h ss ds) SubnetOversizeException
  else exists r, SLr h ss ds (lvl k) (a_max a) = Done (rsld k h ss ds) r /\ wf_pairs r /\ links_of r = rec_slv k (grp h ss).
Proof.
  intros h ss ds k Hk [Hwf [Hr [Hw [Hhc Hsl]]]].
  pose proof Hwf as [Hnd [Hndd [Hcl Hreal]]]. rewrite grp_fst in Hnd.
  assert (Hno : NoDup (ord ss)) by (eapply Permutation_NoDup; [apply Permutation_sym, ord_perm|exact Hnd]).
  assert (Hro : Forall real_item (grp h (ord ss))).
  { rewrite Forall_forall in *. intros it Hit. apply Hr. unfold grp in *. apply in_map_iff in Hit. destruct Hit as [s [E Hs]].
    apply in_map_iff. exists s. split; [exact E|]. eapply Permutation_in; [apply ord_perm|exact Hs]. }
  assert (Hwo : Forall (within a R2 k) (grp h (ord ss))).
  { rewrite Forall_forall in *. intros it Hit. apply Hw. unfold grp in *. apply in_map_iff in Hit. destruct Hit as [s [E Hs]].
    apply in_map_iff. exists s. split; [exact E|]. eapply Permutation_in; [apply ord_perm|exact Hs]. }
  pose proof (null_group_ok h (ord ss) k Hk Hro Hwo) as Hok.
  assert (Hlo : length (ord ss) = length ss) by (apply Permutation_length, ord_perm).
  (* the general path, whenever no shortcut applies *)
  assert (Hgen : ss <> [] ->
    (Nat.eqb (length ss) 1 && Nat.eqb (length ds) 1 = false) -> (Nat.eqb (length ss) 1 && Nat.eqb (length ds) 0 = false) ->
    if (a_max a <? length ss)%nat then SLr h ss ds (lvl k) (a_max a) = Fail (rslh k h ss ds) SubnetOversizeException
    else exists r, SLr h ss ds (lvl k) (a_max a) = Done (rsld k h ss ds) r /\ wf_pairs r /\ links_of r = rec_slv k (grp h ss)).
  { intros Hne Hc2 Hc3.
    assert (Hsc : shortcut ss ds = false).
    { unfold shortcut. rewrite Hc2, Hc3. destruct ss; [congruence|reflexivity]. }
    unfold SLr. rewrite (rec_general ord ord_perm num sq h ss ds (lvl k) (a_max a) Hnd Hne Hc2 Hc3); rewrite (Hsq k Hk); [|exact Hok].
    unfold solve_group at 1. assert (Hlen : length (null_group h (nullc k) (ord ss)) = length ss) by (unfold null_group; rewrite map_length; exact Hlo).
    rewrite Hlen. destruct (Nat.ltb_spec (a_max a) (length ss)) as [Hov|Hfit]; [reflexivity|].
    fold (solve_group (a_max a) (null_group h (nullc k) (ord ss))).
    assert (Hsg : exists l, solve_group (a_max a) (null_group h (nullc k) (ord ss)) = Ok l).
    { unfold solve_group. rewrite Hlen. destruct (Nat.ltb_spec (a_max a) (length ss)); [lia|].
      destruct (solve _) as [[v al]|]; eauto. }
    destruct Hsg as [l Hl]. rewrite Hl. cbv zeta.
    eexists. split; [unfold rsld; rewrite Hsc; reflexivity|]. split.
    - unfold wf_pairs. cbn [fst snd]. unfold links_src, links_dst. rewrite !app_length, !map_length. reflexivity.
    - rewrite links_of_app by (unfold links_src, links_dst; rewrite !map_length; reflexivity).
      rewrite links_of_links, links_of_unclaimed, app_nil_r.
      unfold rec_slv. rewrite (ogrp_grp ord h ss ord_perm). symmetry. apply rec_links_scale; [exact Hk|lia|exact Hl]. }
  destruct ss as [|s [|s2 ss']].
  - (* no source: one destination, first shortcut *)
    destruct (Hsl eq_refl) as [d Ed]. subst ds. cbn [length]. destruct (Nat.ltb_spec (a_max a) 0); [lia|].
    eexists. unfold SLr, gen_rec_linker, py_subnet_linker_recursive. cbn [length Nat.eqb andb PyLinkstep.set_pop PyLinkstep.set_iter].
    unfold PyLinkstep.set_pop, PyLinkstep.set_iter. rewrite (perm_single ord d ord_perm). cbn [hd_error obind PyLinkstep.fn_end]. rewrite rec_heap_world.
    split; [reflexivity|]. split; [reflexivity|].
    unfold rec_slv, ogrp. cbn [grp map]. rewrite (perm_nil ord ord_perm). reflexivity.
  - destruct ds as [|d [|d2 ds']].
    + (* one source, no destination: excluded (the source has a candidate, its destination is in the set) *)
      exfalso. rewrite Forall_forall in Hhc, Hreal.
      assert (Hin : In (s, fc_get s (h_fc h)) (grp h [s])) by (left; reflexivity).
      specialize (Hhc _ Hin). specialize (Hreal _ Hin). cbn [snd] in *.
      destruct (fc_get s (h_fc h)) as [|[[d|] c] cs] eqn:E; [congruence| |].
      * apply (Hcl _ d Hin). cbn. left. reflexivity.
      * inversion Hreal as [|? ? Hx _]; subst. discriminate.
    + (* one source, one destination: second shortcut *)
      cbn [length]. destruct (Nat.ltb_spec (a_max a) 1); [lia|].
      eexists. unfold SLr, gen_rec_linker, py_subnet_linker_recursive. cbn [length Nat.eqb andb PyLinkstep.set_pop PyLinkstep.set_iter].
      unfold PyLinkstep.set_pop, PyLinkstep.set_iter. rewrite (perm_single ord s ord_perm), (perm_single ord d ord_perm). cbn [hd_error obind PyLinkstep.fn_end]. rewrite rec_heap_world.
      split; [reflexivity|]. split; [reflexivity|].
      unfold rec_slv. rewrite (ogrp_grp ord h [s] ord_perm), (perm_single ord s ord_perm).
      rewrite Forall_forall in Hhc, Hreal, Hr, Hw.
      assert (Hin : In (s, fc_get s (h_fc h)) (grp h [s])) by (left; reflexivity).
      pose proof (Hhc _ Hin) as H1. pose proof (Hreal _ Hin) as H2. pose proof (Hr _ Hin) as H3. pose proof (Hw _ Hin) as H4. cbn [snd] in *.
      pose proof (leaf_item_ok a R2 k _ acfg_ok_a (Z.lt_le_incl _ _ HR) H3 H4) as [Hsrt _]. cbn [fst snd] in Hsrt.
      unfold solve_leaf, leaf_items, grp. cbn [map length fst snd].
      destruct (fc_get s (h_fc h)) as [|[[d'|] c] cs] eqn:E; [congruence| |].
      * assert (d' = d).
        { assert (Hd : In d' [d]) by (apply (Hcl _ d' Hin); cbn; left; reflexivity).
          destruct Hd as [Hd|[]]. auto. }
        subst d'. cbn [map app fst snd] in *.
        rewrite (solve_single_first s d (c * den a k) _ 1 (le_n 1) Hsrt). reflexivity.
      * inversion H2 as [|? ? Hx _]; subst. discriminate.
    + apply Hgen; [discriminate|reflexivity|reflexivity].
  - apply Hgen; [discriminate|reflexivity|reflexivity].
Qed.

Lemma rslh_frame : forall k h ss ds, same_fc_outside ss h (rslh k h ss ds).
Proof.
  intros k h ss ds s Hs. unfold rslh. apply add_null_frame. intros Hin. apply Hs. eapply Permutation_in; [apply ord_perm|exact Hin].
Qed.
Lemma rsld_frame : forall k h ss ds, same_fc_outside ss h (rsld k h ss ds).
Proof. intros k h ss ds. unfold rsld. destruct (shortcut ss ds); [intros s _; reflexivity|apply (rslh_frame k h ss ds)]. Qed.
Lemma rslh_cut : forall k h ss ds s, (k <= K)%nat ->
  take_le (le_lvl a R2 (S k)) (fc_get s (h_fc (rslh k h ss ds))) = take_le (le_lvl a R2 (S k)) (fc_get s (h_fc h)).
Proof. intros k h ss ds s Hk. unfold rslh. apply add_null_cut. apply null_beyond; auto. Qed.
End RecSpec.

(* ================= split_subnet keeps the precondition ================= *)
Local Open Scope nat_scope.
Definition touched (es : list (nat * nat)) (x : Proofs.SubnetMerge.vert) : Prop :=
  match x with inl s => exists d, In (s, d) es | inr d => exists s, In (s, d) es end.
Lemma conn_touch es x y : conn es x y -> x = y \/ (touched es x /\ touched es y).
Proof.
  intros H. induction H as [x y [s [d [Hin [Hx Hy]]]] | x | x y _ IH | x y z _ IH1 _ IH2].
  - right. subst. split; cbn; eauto.
  - left. reflexivity.
  - destruct IH as [E|[A B]]; [left; auto|right; auto].
  - destruct IH1 as [E1|[A1 B1]]; [subst; exact IH2|]. destruct IH2 as [E2|[A2 B2]]; [subst; right; auto|right; auto].
Qed.

(* a dictionary entry without a source holds exactly one destination: destinations are merged through sources only *)
Lemma inv2_sourceless S D es st i dd : Inv2 S D es st -> sfind i (subs st) = Some ([], dd) -> exists d, dd = [d].
Proof.
  intros I Hf. pose proof (j_nonempty _ _ _ _ I i _ Hf) as Hne. cbn [snd] in Hne.
  destruct dd as [|d [|d2 dd']]; [congruence|eauto|]. exfalso.
  destruct (j_nodup _ _ _ _ I i _ Hf) as [_ Hndd]. cbn [snd] in Hndd.
  assert (Hc : conn es (inr d) (inr d2)).
  { apply (j_conn _ _ _ _ I i ([], d :: d2 :: dd')); [exact Hf|cbn; auto|cbn; auto]. }
  destruct (conn_touch es _ _ Hc) as [E|[[s Hs] _]].
  - inversion E; subst. inversion Hndd as [|? ? Hn _]; subst. apply Hn. left. reflexivity.
  - destruct (j_edge _ _ _ _ I s d Hs) as [i' [H1 H2]].
    pose proof (j_sub _ _ _ _ I i _ (inr d) Hf) as H3. cbn in H3. specialize (H3 (or_introl eq_refl)).
    assert (i' = i) by congruence. subst i'.
    destruct (j_es _ _ _ _ I s d Hs) as [HS _].
    destruct (j_in _ _ _ _ I (inl s) i HS H1) as [v [Hv Hx]]. rewrite Hf in Hv. inversion Hv; subst v. exact Hx.
Qed.

Lemma py_splitter_part_facts a R2 g ds k : subnet_wf g ds -> forall p, In p (fst (py_splitter a R2 k g ds)) ->
  Forall (fun it : item => snd it <> []) (fst p) /\ (fst p = [] -> exists d, snd p = [d]).
Proof.
  intros [Hnd [Hndd [Hcl Hreal]]] p Hp.
  set (g' := map (take_item a R2 k) g) in *.
  assert (Hfst : map fst g' = map fst g) by (unfold g'; rewrite map_map; reflexivity).
  assert (Hndg : NoDup (map fst g')) by (rewrite Hfst; exact Hnd).
  assert (Hcl' : forall it d, In it g' -> In d (reals (snd it)) -> In d ds).
  { intros it d Hit Hd. unfold g' in Hit. apply in_map_iff in Hit. destruct Hit as [it0 [E H0]]. subst it.
    unfold take_item in Hd. cbn [snd] in Hd. apply reals_take_incl in Hd. eapply Hcl; eassumption. }
  destruct (split_dict_inv empty_mst ds (edges_of_group g') Hndd) as [st [Hrun I]].
  { unfold edges_of_group. rewrite map_map. cbn [fst]. exact Hndg. }
  { intros s dl d Hin Hd. unfold edges_of_group in Hin. apply in_map_iff in Hin. destruct Hin as [it [E Hit]].
    injection E as E1 E2. rewrite <- E2 in Hd. eapply Hcl'; eassumption. }
  unfold py_splitter in Hp. fold g' in Hp. rewrite Hrun in Hp. cbn [fst] in Hp.
  apply in_map_iff in Hp. destruct Hp as [[sv dv] [E Hv]]. subst p.
  apply in_map_iff in Hv. destruct Hv as [[i v] [E Hi]]. cbn in E. subst v.
  apply (sfind_In i (sv, dv) _ (j_ids _ _ _ _ I)) in Hi.
  destruct (split_dict_components empty_mst ds g' st Hndd Hndg Hcl' Hrun) as [_ [_ [_ [P4 _]]]].
  destruct (P4 i sv dv Hi) as [_ [_ [_ [_ Hincl]]]].
  unfold part_of. cbn [fst snd]. split.
  - rewrite Forall_forall. intros it Hit. apply in_map_iff in Hit. destruct Hit as [s [E Hs]]. subst it. cbn [snd].
    specialize (Hincl s Hs). apply in_map_iff in Hincl. destruct Hincl as [[s0 cs] [E Hit]]. cbn in E. subst s0.
    apply filter_In in Hit. destruct Hit as [Hit Hhr]. unfold cands_in. rewrite (fc_get_in g' s cs Hndg Hit).
    unfold has_reals in Hhr. cbn [snd] in Hhr. intros E. subst cs. discriminate.
  - intros E. apply map_eq_nil in E. subst sv. eapply inv2_sourceless; eassumption.
Qed.

Section RecSplit.
Variable num : Type.
Variable ops : num_ops num.
Variable a : acfg.
Variable R2 : Z.
Variable lvl : nat -> num.
Hypothesis dist_lvl : forall (d : option nat) (c : Z) (k : nat), n_dist_le ops c (lvl k) = le_lvl a R2 k (d, c).
Variable A : mst -> nat -> nat -> mresult.
Hypothesis A_spec : forall m s d,
  match A m s d with MDone m' => assign_subnet m (s, d) = Some m' | MFail _ => assign_subnet m (s, d) = None end.

Theorem rec_split_spec h hs ss ds k : Pre2 a R2 k (grp h ss) ds ->
  (forall s, In s ss -> take_le (le_lvl a R2 (S k)) (fc_get s (h_fc hs)) = take_le (le_lvl a R2 (S k)) (fc_get s (h_fc h))) ->
  same_fc_outside ss h hs ->
  exists h' parts, py_split_subnet num ops A hs ss ds (lvl (S k)) = Done h' parts /\
    map (fun p : sets => (grp h' (fst p), snd p)) parts = fst (py_splitter a R2 (S k) (grp h ss) ds) /\
    same_fc_outside ss h h' /\
    (forall p, In p parts -> incl (fst p) ss) /\
    ForallOrdPairs (fun p q : sets => forall s, In s (fst p) -> ~ In s (fst q)) parts /\
    Forall (fun p : sets => Pre2 a R2 (S k) (grp h' (fst p)) (snd p)) parts.
Proof.
  intros [HP [Hr _]] Hc Ho.
  destruct (gen_split_spec_fc num ops a R2 lvl dist_lvl A A_spec h hs ss ds k HP Hc Ho) as [h' [parts [H1 [H2 [H3 [H4 [H5 [H6 H7]]]]]]]].
  exists h', parts. repeat split; try assumption.
  rewrite Forall_forall in *. intros p Hp.
  assert (Hin : In (grp h' (fst p), snd p) (fst (py_splitter a R2 (S k) (grp h ss) ds))).
  { rewrite <- H2. apply in_map_iff. exists p. auto. }
  destruct (py_splitter_parts a R2 (grp h ss) ds k HP _ Hin) as [_ Hit]. cbn [fst snd] in Hit.
  destruct (py_splitter_part_facts a R2 (grp h ss) ds (S k) HP _ Hin) as [Hhc Hsl]. cbn [fst snd] in Hhc, Hsl.
  unfold Pre2. split; [apply H6; exact Hp|]. split; [|split; [|split; [exact Hhc|exact Hsl]]].
  - rewrite Forall_forall. intros it Hi. destruct (Hit it Hi) as [it0 [H0 E]]. subst it.
    rewrite take_item_prune by (apply Hr; exact H0). apply prune_real. apply Hr. exact H0.
  - rewrite Forall_forall. intros it Hi. destruct (Hit it Hi) as [it0 [H0 E]]. subst it.
    rewrite take_item_prune by (apply Hr; exact H0). apply prune_within.
Qed.
End RecSplit.

(* ================= the composition ================= *)
Definition leaf_nd (lf : aleaf) : Prop := match lf with Leaf _ g => NoDup (map fst g) | _ => True end.

(* the leaves reached through split_subnet's splitter have distinct sources *)
Theorem asplit_g_py_leaves_nodup a R2 : forall fuel k g ds ls,
  subnet_wf g ds -> asplit_g (py_splitter a R2) fuel a k g ds = Ok ls -> Forall leaf_nd ls.
Proof.
  induction fuel as [|fuel IH]; intros k g ds ls HP H; cbn in H.
  - destruct (length g <=? a_max a)%nat; [inversion H; subst; repeat constructor; apply HP|].
    destruct (at_stop a k); [discriminate|]. inversion H; subst. repeat constructor.
  - destruct (length g <=? a_max a)%nat; [inversion H; subst; repeat constructor; apply HP|].
    destruct (at_stop a k); [discriminate|].
    destruct (seq_res_g_ok _ _ _ _ H) as [_ [_ HPp]]. apply HPp.
    + intros p lp Hp Ep. destruct (py_splitter_parts a R2 g ds k HP p Hp) as [HPre _]. eapply IH; eassumption.
    + rewrite Forall_forall. intros x Hx. apply in_map_iff in Hx. destruct Hx as [i [E _]]. subst x. exact I.
Qed.

(* a leaf with its sources in the iteration order of the set *)
Definition oleaf (ord : list nat -> list nat) (lf : aleaf) : aleaf :=
  match lf with Leaf k g => Leaf k (ogrp ord g) | other => other end.

Lemma oleaf_equiv (ord : list nat -> list nat) ls : (forall l, Permutation (ord l) l) -> Forall leaf_nd ls ->
  leaves_equiv (map (oleaf ord) ls) ls.
Proof.
  intros Hp Hnd. exists (filter live_leaf (map (oleaf ord) ls)). split; [apply Permutation_refl|].
  induction Hnd as [|lf ls Hlf _ IH]; [constructor|]. cbn [map filter].
  destruct lf as [k g|i|]; cbn [oleaf live_leaf].
  - destruct g as [|it g].
    + unfold ogrp. cbn [map]. rewrite (perm_nil ord Hp). cbn [map]. exact IH.
    + assert (HP : Permutation (ogrp ord (it :: g)) (it :: g)) by (apply ogrp_perm; [exact Hp|exact Hlf]).
      destruct (ogrp ord (it :: g)) as [|it' g'] eqn:E; [apply Permutation_nil in HP; discriminate|].
      constructor; [constructor; exact HP|exact IH].
  - constructor; [constructor|exact IH].
  - constructor; [constructor|exact IH].
Qed.

Section RecComposed.
Variable num : Type.
Variable ops : num_ops num.
Variable a : acfg.
Variable R2 : Z.
Variable lvl : nat -> num.
Hypothesis dist_lvl : forall (d : option nat) (c : Z) (k : nat), n_dist_le ops c (lvl k) = le_lvl a R2 k (d, c).
Variable A : mst -> nat -> nat -> mresult.
Hypothesis A_spec : forall m s d,
  match A m s d with MDone m' => assign_subnet m (s, d) = Some m' | MFail _ => assign_subnet m (s, d) = None end.
Variable stop step : num.
Hypothesis mul_lvl : forall k, n_mul ops (lvl k) step = lvl (S k).
Hypothesis le_stop : forall k, n_le ops (lvl k) stop = at_stop a k.
Variable ord : list nat -> list nat.
Hypothesis ord_perm : forall l, Permutation (ord l) l.
Variable sq : num -> Z.
Variable K : nat.
Variable nullc : nat -> Z.
Hypothesis Hsq : forall k, (k <= K)%nat -> sq (lvl k) = nullc k.
Hypothesis Hnull : forall k, (k <= K)%nat -> (nullc k * den a k = R2 * Adaptive.num a k)%Z.
Hypothesis Hp : (0 < a_p a)%Z.
Hypothesis Hpq : (a_p a < a_q a)%Z.
Hypothesis HR : (0 < R2)%Z.
Hypothesis Hmax : (1 <= a_max a)%nat.
Hypothesis stop_mono : forall k, at_stop a k = true -> at_stop a (S k) = true.

(* the generated adaptive_link_wrap over the generated split_subnet over the generated subnet_linker_recursive *)
Definition gen_wrap_rec := py_adaptive_link_wrap num ops nat (SLr ord num sq) (py_split_subnet num ops A).

Theorem gen_adaptive_rec_asplit_g : forall fuel h ss ds k,
  (fuel + k = K)%nat -> at_stop a K = true -> Pre2 a R2 k (grp h ss) ds ->
  exists h', same_fc_outside ss h h' /\
    match asplit_g (py_splitter a R2) fuel a k (grp h ss) ds with
    | Oversize => gen_wrap_rec (S fuel) h ss ds (lvl k) (Some stop) step (a_max a) = Fail h' SubnetOversizeException
    | Ok ls => exists r, gen_wrap_rec (S fuel) h ss ds (lvl k) (Some stop) step (a_max a) = Done h' r /\ wf_pairs r /\
                         links_of r = flat_map (leaf_links (rec_slv a R2 ord)) ls
    end.
Proof.
  apply (py_adaptive_asplit_pre num ops a lvl stop step mul_lvl le_stop nat (a_max a) (SLr ord num sq) (py_split_subnet num ops A)
           (py_splitter a R2) (rec_slv a R2 ord) (rslh ord nullc) (rsld ord nullc) K (Pre2 a R2)).
  - apply (rec_linker_spec a R2 ord ord_perm num sq lvl K nullc Hsq Hnull Hp Hpq HR Hmax).
  - apply (rslh_frame ord ord_perm nullc).
  - apply (rsld_frame ord ord_perm nullc).
  - intros h ss ds k Hk HP. apply (rec_split_spec num ops a R2 lvl dist_lvl A A_spec); [exact HP| |apply (rslh_frame ord ord_perm nullc)].
    intros s _. apply (rslh_cut a R2 ord K nullc Hnull Hp Hpq HR). lia.
Qed.

Theorem gen_adaptive_rec_asplit : forall fuel h ss ds k,
  (fuel + k = K)%nat -> at_stop a K = true -> Pre2 a R2 k (grp h ss) ds ->
  exists h', same_fc_outside ss h h' /\
    match asplit fuel a R2 k (grp h ss) with
    | Oversize =>
        gen_wrap_rec (S fuel) h ss ds (lvl k) (Some stop) step (a_max a) = Fail h' SubnetOversizeException /\
        exists k' g', reach a R2 k (grp h ss) k' g' /\ (a_max a < length g')%nat /\ at_stop a k' = true
    | Ok lm =>
        ~ In Adaptive.OutOfFuel lm /\
        (forall k' g', reach a R2 k (grp h ss) k' g' -> (a_max a < length g')%nat -> at_stop a k' = false) /\
        Forall (leaf_within a R2) lm /\ Forall leaf_real lm /\
        exists r ls,
          gen_wrap_rec (S fuel) h ss ds (lvl k) (Some stop) step (a_max a) = Done h' r /\
          wf_pairs r /\ links_of r = flat_map (leaf_links (rec_slv a R2 ord)) ls /\
          leaves_equiv (map (oleaf ord) ls) lm /\
          (forall k' g', In (Leaf k' g') ls ->
             Permutation (ogrp ord g') g' /\
             exists P, solve_leaf a R2 (Leaf k' (ogrp ord g')) = map strip P /\ is_opt (leaf_items a R2 k' (ogrp ord g')) P) /\
          (forall k' g', In (Leaf k' g') lm -> g' <> [] ->
             exists g'', In (Leaf k' g'') ls /\ Permutation (ogrp ord g'') g' /\
               exists P, solve_leaf a R2 (Leaf k' (ogrp ord g'')) = map strip P /\ is_opt (leaf_items a R2 k' g') P) /\
          links_total (flat_map (solve_leaf a R2) (map (oleaf ord) ls)) = links_total (flat_map (solve_leaf a R2) lm) /\
          Permutation (map fst (flat_map (solve_leaf a R2) (map (oleaf ord) ls))) (map fst (flat_map (solve_leaf a R2) lm))
    end.
Proof.
  intros fuel h ss ds k HK Hstop HP. pose proof HP as [Hwf [Hr [Hw _]]].
  assert (Ha : acfg_ok a) by (unfold acfg_ok; lia). assert (HR2 : (0 <= R2)%Z) by lia.
  assert (Hs : at_stop a (fuel + k) = true) by (rewrite HK; exact Hstop).
  destruct (gen_adaptive_rec_asplit_g fuel h ss ds k HK Hstop HP) as [h' [Hfr Hres]].
  exists h'. split; [exact Hfr|].
  pose proof (asplit_g_py_equiv a R2 fuel k (grp h ss) (grp h ss) ds (Permutation_refl _) Hwf Hr) as Heq.
  destruct (asplit_g (py_splitter a R2) fuel a k (grp h ss) ds) as [ls|] eqn:Eg;
    destruct (asplit fuel a R2 k (grp h ss)) as [lm|] eqn:Em; cbn in Heq; try contradiction.
  - destruct Hres as [r [Hrun [Hwp Hl]]].
    pose proof (asplit_g_no_out_of_fuel a (py_splitter a R2) stop_mono fuel k _ _ ls Hs Eg) as Hnf.
    assert (Hnfm : ~ In Adaptive.OutOfFuel lm).
    { intros Hin. destruct (leaves_equiv_in ls lm Adaptive.OutOfFuel Heq Hin eq_refl) as [lf [Hlf He]]. inversion He; subst. contradiction. }
    pose proof (asplit_leaves_within a R2 fuel k _ lm Hw Em) as Hlw.
    pose proof (asplit_leaves_real a R2 fuel k _ lm Hr Em) as Hlr.
    pose proof (asplit_g_py_leaves_nodup a R2 fuel k _ ds ls Hwf Eg) as Hnd.
    destruct (asplit_g_py_leaves a R2 fuel k _ ds ls Hwf Hr Hw Eg) as [Hgw Hgr].
    assert (Hoe : leaves_equiv (map (oleaf ord) ls) lm).
    { eapply leaves_equiv_trans; [apply oleaf_equiv; [exact ord_perm|exact Hnd]|exact Heq]. }
    split; [exact Hnfm|]. split; [intros k' g' Hre Hov; eapply asplit_ok_complete; eassumption|].
    split; [exact Hlw|]. split; [exact Hlr|].
    exists r, ls. split; [exact Hrun|]. split; [exact Hwp|]. split; [exact Hl|]. split; [exact Hoe|]. split; [|split].
    + intros k' g' Hin. rewrite Forall_forall in Hnd, Hgw, Hgr.
      pose proof (Hnd _ Hin) as N. pose proof (Hgw _ Hin) as W. pose proof (Hgr _ Hin) as Rr. cbn in N, W, Rr.
      assert (HPm : Permutation (ogrp ord g') g') by (apply ogrp_perm; assumption).
      split; [exact HPm|].
      apply leaf_solved_optimally; [exact Ha|exact HR2| |]; eapply Forall_perm; [apply Permutation_sym; exact HPm|exact Rr|apply Permutation_sym; exact HPm|exact W].
    + intros k' g' Hin Hne. destruct (leaves_equiv_in (map (oleaf ord) ls) lm (Leaf k' g') Hoe Hin) as [lf [Hlf He]].
      { destruct g'; [congruence|reflexivity]. }
      apply in_map_iff in Hlf. destruct Hlf as [lf0 [E Hlf0]]. subst lf.
      destruct lf0 as [k0 g0|i|]; cbn [oleaf] in He; inversion He as [k1 g1 g2 HPm| |]; subst.
      exists g0. split; [exact Hlf0|]. split; [exact HPm|].
      rewrite Forall_forall in Hlw, Hlr.
      destruct (leaf_eq_solved a R2 Ha HR2 k' (ogrp ord g0) g' HPm (Hlw _ Hin) (Hlr _ Hin)) as [P1 [_ [E1 [_ [O1 _]]]]].
      exists P1. split; assumption.
    + apply (leaves_equiv_solved a R2 Ha HR2 _ lm Hoe Hlw Hlr).
  - split; [exact Hres|]. eapply asplit_raise_sound. exact Em.
Qed.

(* a subnet within the size limit: the wrapper returns the generated linker's answer, the model's single leaf solved *)
Theorem gen_adaptive_rec_plain : forall fuel h ss ds k,
  (k <= K)%nat -> Pre2 a R2 k (grp h ss) ds -> (length ss <= a_max a)%nat ->
  asplit fuel a R2 k (grp h ss) = Ok [Leaf k (grp h ss)] /\
  exists r, gen_wrap_rec (S fuel) h ss ds (lvl k) (Some stop) step (a_max a) = Done (rsld ord nullc k h ss ds) r /\
            wf_pairs r /\ links_of r = map strip_cost (solve_leaf a R2 (Leaf k (ogrp ord (grp h ss)))).
Proof.
  intros fuel h ss ds k Hk HP Hfit. split; [apply asplit_fits; unfold grp; rewrite map_length; exact Hfit|].
  pose proof (rec_linker_spec a R2 ord ord_perm num sq lvl K nullc Hsq Hnull Hp Hpq HR Hmax h ss ds k Hk HP) as Hsl.
  destruct (Nat.ltb_spec (a_max a) (length ss)) as [Hlt|_]; [lia|].
  destruct Hsl as [r [Hd [Hwp Hl]]]. exists r. split; [|auto].
  apply (py_adaptive_plain_when_fits num ops nat (a_max a) (SLr ord num sq) (py_split_subnet num ops A)). exact Hd.
Qed.
End RecComposed.

(* the precondition written out (for the statement in Properties/C12.v) *)
Lemma Pre2_intro a R2 k h ss ds :
  subnet_wf (grp h ss) ds -> Forall real_item (grp h ss) -> Forall (within a R2 k) (grp h ss) ->
  Forall (fun it : item => snd it <> []) (grp h ss) -> (ss = [] -> exists d, ds = [d]) ->
  Pre2 a R2 k (grp h ss) ds.
Proof.
  intros H1 H2 H3 H4 H5. unfold Pre2. split; [exact H1|split; [exact H2|split; [exact H3|split; [exact H4|]]]].
  intros E. apply H5. unfold grp in E. apply map_eq_nil in E. exact E.
Qed.

(* ================= the statements of Properties/C12.v ================= *)
Open Scope Z_scope.
Theorem gen_adaptive_recursive :
  forall (num : Type) (ops : num_ops num) (a : acfg) (R2 : Z) (lvl : nat -> num),
  (forall (d : option nat) (c : Z) (k : nat), n_dist_le ops c (lvl k) = le_lvl a R2 k (d, c)) ->
  forall A : mst -> nat -> nat -> mresult,
  (forall m s d, match A m s d with MDone m' => assign_subnet m (s, d) = Some m' | MFail _ => assign_subnet m (s, d) = None end) ->
  forall stop step : num,
  (forall k, n_mul ops (lvl k) step = lvl (S k)) ->
  (forall k, n_le ops (lvl k) stop = at_stop a k) ->
  forall ord : list nat -> list nat, (forall l, Permutation (ord l) l) ->
  forall (sq : num -> Z) (K : nat) (nullc : nat -> Z),
  (forall k, (k <= K)%nat -> sq (lvl k) = nullc k) ->
  (forall k, (k <= K)%nat -> nullc k * den a k = R2 * Adaptive.num a k) ->
  0 < a_p a -> a_p a < a_q a -> 0 < R2 -> (1 <= a_max a)%nat ->
  (forall k, at_stop a k = true -> at_stop a (S k) = true) ->
  forall fuel h ss ds k,
  (fuel + k = K)%nat -> at_stop a K = true ->
  subnet_wf (grp h ss) ds -> Forall real_item (grp h ss) -> Forall (within a R2 k) (grp h ss) ->
  Forall (fun it : item => snd it <> []) (grp h ss) -> (ss = [] -> exists d, ds = [d]) ->
  exists h', same_fc_outside ss h h' /\
    match asplit fuel a R2 k (grp h ss) with
    | Oversize =>
        py_adaptive_link_wrap num ops nat (gen_rec_linker num sq ord) (py_split_subnet num ops A)
          (S fuel) h ss ds (lvl k) (Some stop) step (a_max a) = Fail h' SubnetOversizeException /\
        exists k' g', reach a R2 k (grp h ss) k' g' /\ (a_max a < length g')%nat /\ at_stop a k' = true
    | Ok lm =>
        ~ In Adaptive.OutOfFuel lm /\
        (forall k' g', reach a R2 k (grp h ss) k' g' -> (a_max a < length g')%nat -> at_stop a k' = false) /\
        Forall (leaf_within a R2) lm /\ Forall leaf_real lm /\
        exists r ls,
          py_adaptive_link_wrap num ops nat (gen_rec_linker num sq ord) (py_split_subnet num ops A)
            (S fuel) h ss ds (lvl k) (Some stop) step (a_max a) = Done h' r /\
          wf_pairs r /\
          links_of r = flat_map (leaf_links (fun k' g' => map strip_cost (solve_leaf a R2 (Leaf k' (ogrp ord g'))))) ls /\
          leaves_equiv (map (oleaf ord) ls) lm /\
          (forall k' g', In (Leaf k' g') ls ->
             Permutation (ogrp ord g') g' /\
             exists P, solve_leaf a R2 (Leaf k' (ogrp ord g')) = map strip P /\ is_opt (leaf_items a R2 k' (ogrp ord g')) P) /\
          (forall k' g', In (Leaf k' g') lm -> g' <> [] ->
             exists g'', In (Leaf k' g'') ls /\ Permutation (ogrp ord g'') g' /\
               exists P, solve_leaf a R2 (Leaf k' (ogrp ord g'')) = map strip P /\ is_opt (leaf_items a R2 k' g') P) /\
          links_total (flat_map (solve_leaf a R2) (map (oleaf ord) ls)) = links_total (flat_map (solve_leaf a R2) lm) /\
          Permutation (map fst (flat_map (solve_leaf a R2) (map (oleaf ord) ls))) (map fst (flat_map (solve_leaf a R2) lm))
    end.
Proof.
  intros num ops a R2 lvl Hd A HA stop step Hm Hl ord Ho sq K nullc Hsq Hn Hp Hpq HR Hmax Hmono fuel h ss ds k HK Hst H1 H2 H3 H4 H5.
  exact (gen_adaptive_rec_asplit num ops a R2 lvl Hd A HA stop step Hm Hl ord Ho sq K nullc Hsq Hn Hp Hpq HR Hmax Hmono
           fuel h ss ds k HK Hst (Pre2_intro a R2 k h ss ds H1 H2 H3 H4 H5)).
Qed.

(* the generated recursive linker alone, on a subnet met at a level k <= K *)
Theorem gen_recursive_linker_spec :
  forall (a : acfg) (R2 : Z) (ord : list nat -> list nat), (forall l, Permutation (ord l) l) ->
  forall (num : Type) (sq : num -> Z) (lvl : nat -> num) (K : nat) (nullc : nat -> Z),
  (forall k, (k <= K)%nat -> sq (lvl k) = nullc k) ->
  (forall k, (k <= K)%nat -> nullc k * den a k = R2 * Adaptive.num a k) ->
  0 < a_p a -> a_p a < a_q a -> 0 < R2 -> (1 <= a_max a)%nat ->
  forall h ss ds k, (k <= K)%nat ->
  subnet_wf (grp h ss) ds -> Forall real_item (grp h ss) -> Forall (within a R2 k) (grp h ss) ->
  Forall (fun it : item => snd it <> []) (grp h ss) -> (ss = [] -> exists d, ds = [d]) ->
  let shortcut := (Nat.eqb (length ss) 0 && Nat.eqb (length ds) 1) || (Nat.eqb (length ss) 1 && Nat.eqb (length ds) 1)
                  || (Nat.eqb (length ss) 1 && Nat.eqb (length ds) 0) in
  if (a_max a <? length ss)%nat
  then gen_rec_linker num sq ord h ss ds (lvl k) (a_max a) = Fail (add_null (nullc k) (ord ss) h) SubnetOversizeException
  else exists r, gen_rec_linker num sq ord h ss ds (lvl k) (a_max a)
                   = Done (if shortcut then h else add_null (nullc k) (ord ss) h) r /\
                 wf_pairs r /\ links_of r = map strip_cost (solve_leaf a R2 (Leaf k (ogrp ord (grp h ss)))).
Proof.
  intros a R2 ord Ho num sq lvl K nullc Hsq Hn Hp Hpq HR Hmax h ss ds k Hk H1 H2 H3 H4 H5.
  exact (rec_linker_spec a R2 ord Ho num sq lvl K nullc Hsq Hn Hp Hpq HR Hmax h ss ds k Hk (Pre2_intro a R2 k h ss ds H1 H2 H3 H4 H5)).
Qed.

(* the heap the linker leaves when it raises satisfies the two heap hypotheses of C12_generated_is_model, at the
   levels of one run (k <= K) *)
Theorem gen_recursive_linker_heap :
  forall (a : acfg) (R2 : Z) (ord : list nat -> list nat), (forall l, Permutation (ord l) l) ->
  forall (K : nat) (nullc : nat -> Z),
  (forall k, (k <= K)%nat -> nullc k * den a k = R2 * Adaptive.num a k) ->
  0 < a_p a -> a_p a < a_q a -> 0 < R2 ->
  (forall k h ss s, (k <= K)%nat ->
     take_le (le_lvl a R2 (S k)) (fc_get s (h_fc (add_null (nullc k) (ord ss) h))) = take_le (le_lvl a R2 (S k)) (fc_get s (h_fc h))) /\
  (forall k h ss, same_fc_outside ss h (add_null (nullc k) (ord ss) h)).
Proof.
  intros a R2 ord Ho K nullc Hn Hp Hpq HR. split.
  - intros k h ss s Hk. exact (rslh_cut a R2 ord K nullc Hn Hp Hpq HR k h ss [] s Hk).
  - intros k h ss. exact (rslh_frame ord Ho nullc k h ss []).
Qed.

(* whenever the generated function returns past its shortcuts, the heap it returns with is the heap after its loop of
   statements 387-388 run alone -- the heap Model/RecLinker.gen_rec_linker attaches to a raise *)
Theorem rec_done_heap (ord : list nat -> list nat) (num : Type) (sq : num -> Z) h ss ds rho ms w' r :
  ((Nat.eqb (length ss) 0 && Nat.eqb (length ds) 1) || (Nat.eqb (length ss) 1 && Nat.eqb (length ds) 1)
   || (Nat.eqb (length ss) 1 && Nat.eqb (length ds) 0) = false)%bool ->
  py_subnet_linker_recursive ord (rec_world h (sq rho) ms) ss ds (sq rho) ms = FDone w' r ->
  rec_heap w' = rec_heap (null_loop_world ord (rec_world h (sq rho) ms) ss (sq rho)).
Proof.
  intros Hsc Hrun. set (c := sq rho) in *. set (w1 := rec_world h c ms) in *.
  apply orb_false_iff in Hsc. destruct Hsc as [Hsc Hc3]. apply orb_false_iff in Hsc. destruct Hsc as [Hc1 Hc2].
  unfold py_subnet_linker_recursive in Hrun. rewrite Hc1, Hc2, Hc3 in Hrun. cbn [obind] in Hrun.
  rewrite (null_loop c (PyLinkstep.set_iter ord ss) w1 blank_linker [] []) in Hrun. cbn [obind] in Hrun.
  change (fold_left (fc_upd (fun c0 : list cand => c0 ++ [(None, c)])) (PyLinkstep.set_iter ord ss) w1)
    with (null_loop_world ord w1 ss c) in Hrun.
  destruct (py_SubnetLinker_init _ _) as [x5|e]; [|discriminate].
  destruct (unzip_pairs (best_pairs x5)) as [e|x6]; [discriminate|].
  rewrite unclaimed_loop in Hrun. cbn [obind PyLinkstep.fn_end] in Hrun. inversion Hrun; subst. reflexivity.
Qed.
