(* Route T for the per-step bookkeeping of the Linker, part 2: Linker.assign_links.

     gen_sort_loop        the loop `for sp in source_set: sp.forward_cands.sort(key=lambda x: x[1])`
                          sorts the candidates of exactly the sources of the set (any iteration order)
     gen_entry_solve      for one entry (source_set, dest_set) of the subnet dictionary that is not one of
                          the three shortcut shapes, the generated sort loop followed by the generated
                          subnet_linker_recursive (null candidate appended to every source, the generated
                          SubnetLinker constructor of Gen/linker_core.v, zip of best_pairs, unclaimed
                          destinations) IS Model.Link.solve_group on the group
                            [ (s, sorted forward_cands of s ++ [(None, search_range**2)]) | s in source_set ]
                          (in the set's iteration order): SubnetOversizeException exactly when the model
                          says Oversize, otherwise the model's links (source, chosen destination or None)
                          followed by one (None, dp) per destination of the set nobody claimed
     gen_entry_optimal    hence (Proofs/Step.solve_group_spec) the links made for the subnet are a
                          one-to-one assignment of minimal total cost of that group, and the exception is
                          raised exactly when the group has more than MAX_SUB_NET_SIZE sources
     gen_assign_links_eq  assign_links = that, entry by entry in dictionary order, then the lost sources *)
From Coq Require Import ZArith List Bool Arith Lia Permutation.
From TP Require Import Model.Assign Model.Link Model.MemQueue Model.SubnetMerge Model.PyLinker Gen.linker_core
     Model.PyLinkstep Gen.linkstep Proofs.BnB Proofs.Opt Proofs.Step Proofs.SubnetMerge Proofs.LinkerGen Proofs.LinkstepGen.
Import ListNotations.

(* ---- sort_items of the model = the generated stable sort on the number of candidates ---- *)
Lemma insert_i_key x l : insert_i x l = insert_key klen x l.
Proof.
  induction l as [|y l IH]; cbn [insert_i insert_key]; [reflexivity|]. rewrite IH.
  change (klen x) with (length (snd x)). change (klen y) with (length (snd y)).
  destruct (Nat.ltb_spec (length (snd y)) (length (snd x))) as [H|H];
    destruct (Nat.leb_spec (length (snd x)) (length (snd y))) as [H'|H']; try reflexivity; exfalso; lia.
Qed.
Lemma sort_items_key l : sort_items l = sort_key klen l.
Proof. unfold sort_items, sort_key. induction l as [|x l IH]; cbn [fold_right]; [reflexivity|]. rewrite IH. apply insert_i_key. Qed.

(* ---- updates of forward_cands at the members of a set ---- *)
Definition fc_upd (f : list cand -> list cand) (w : lk) (s : nat) : lk :=
  set_forward_cands w s (f (get_forward_cands w s)).
Lemma fc_upd_fold f : forall l w, NoDup l ->
  let w' := fold_left (fc_upd f) l w in
  same_frame w w' /\ k_mst w' = k_mst w
  /\ forall s, get_forward_cands w' s = if existsb (Nat.eqb s) l then f (get_forward_cands w s) else get_forward_cands w s.
Proof.
  induction l as [|a l IH]; intros w Hn; cbn [fold_left existsb].
  - split; [apply same_frame_refl|]. split; reflexivity.
  - inversion Hn as [|? ? Ha Hn']; subst.
    destruct (IH (fc_upd f w a) Hn') as (F & M & C). cbn zeta in *.
    split; [eapply same_frame_trans; [|exact F]; unfold same_frame; cbn; repeat split|].
    split; [rewrite M; reflexivity|].
    intros s. rewrite C. unfold get_forward_cands, fc_upd, set_forward_cands, set_fc. cbn [k_fc]. rewrite fget_fset.
    destruct (Nat.eqb_spec s a) as [->|Hne]; cbn [orb].
    + destruct (existsb (Nat.eqb a) l) eqn:E; [|reflexivity].
      exfalso. apply Ha. apply existsb_exists in E. destruct E as [x [Hx Hax]]. apply Nat.eqb_eq in Hax. subst. exact Hx.
    + reflexivity.
Qed.

Definition links_src (l : list link_t) : list (option nat) := map (fun x : link_t => Some (fst x)) l.
Definition links_dst (l : list link_t) : list (option nat) := map (fun x : link_t => fst (snd x)) l.

Lemma combine_links (Sg : list item) (a : list cand) :
  map (fun p : spair => Some (fst (fst p))) (combine Sg (map fst a)) = links_src (combine (map fst Sg) a)
  /\ map (fun p : spair => snd p) (combine Sg (map fst a)) = links_dst (combine (map fst Sg) a).
Proof.
  revert a. induction Sg as [|x Sg IH]; intros [|c a]; cbn; try (split; reflexivity).
  destruct (IH a) as [H1 H2]. unfold links_src, links_dst in *. rewrite H1, H2. split; reflexivity.
Qed.

(* the item of source s as the subnet linker sees it after sort and null candidate *)
Definition raw_item (w : lk) (s : nat) : item := (s, sort_cands (get_forward_cands w s) ++ [(None, k_R2 w)]).

Lemma in_existsb s l : In s l -> existsb (Nat.eqb s) l = true.
Proof. intros H. apply existsb_exists. exists s. split; [exact H|apply Nat.eqb_refl]. Qed.

Lemma unzip_nonempty (l : list spair) : l <> [] ->
  unzip_pairs (Some l) = inr (map (fun p : spair => Some (fst (fst p))) l, map (fun p : spair => snd p) l).
Proof. destruct l; [congruence|reflexivity]. Qed.

Section Entry.
Variable ord : list nat -> list nat.
Hypothesis ord_perm : forall l, Permutation (ord l) l.

(* the sort loop of assign_links *)
Definition sort_loop (w : lk) (S : list nat) : lk := fold_left (fc_upd sort_cands) (ord S) w.

Lemma nodup_ord S : NoDup S -> NoDup (ord S).
Proof. intros H. eapply Permutation_NoDup; [apply Permutation_sym, ord_perm|exact H]. Qed.

Lemma existsb_ord s S : existsb (Nat.eqb s) (ord S) = existsb (Nat.eqb s) S.
Proof.
  destruct (existsb (Nat.eqb s) S) eqn:E.
  - apply existsb_exists in E. destruct E as [x [Hx Hsx]]. apply Nat.eqb_eq in Hsx. subst x.
    apply in_existsb. eapply Permutation_in; [apply Permutation_sym, ord_perm|exact Hx].
  - destruct (existsb (Nat.eqb s) (ord S)) eqn:E'; [|reflexivity].
    apply existsb_exists in E'. destruct E' as [x [Hx Hsx]]. apply Nat.eqb_eq in Hsx. subst x.
    rewrite in_existsb in E; [discriminate|]. eapply Permutation_in; [apply ord_perm|exact Hx].
Qed.

(* the unclaimed-destination loop of subnet_linker_recursive *)
Lemma unclaimed_loop (U : list nat) : forall (w : lk) (snl : linker) (a b : list (option nat)),
  ofor (V := list (option nat) * list (option nat))
    (fun (dp : nat) (st_ : (lk * (linker) * (list (option nat)) * (list (option nat)))%type) =>
       let '(self, snl, sn_spl, sn_dpl) := st_ in
       ONormal (self, snl, sn_spl ++ [None], sn_dpl ++ [Some dp])) U (w, snl, a, b)
  = ONormal (w, snl, a ++ map (fun _ => None) U, b ++ map Some U).
Proof.
  induction U as [|d U IH]; intros w snl a b; cbn [ofor map].
  - rewrite !app_nil_r. reflexivity.
  - rewrite IH. rewrite <- !app_assoc. reflexivity.
Qed.

Lemma null_loop (R : Z) (l : list nat) : forall (w : lk) (snl : linker) (a b : list (option nat)),
  ofor (V := list (option nat) * list (option nat))
    (fun (s_ : nat) (st_ : (lk * (linker) * (list (option nat)) * (list (option nat)))%type) =>
       let '(self, snl, sn_spl, sn_dpl) := st_ in
       ONormal (fc_append self s_ (None, R), snl, sn_spl, sn_dpl)) l (w, snl, a, b)
  = ONormal (fold_left (fc_upd (fun c => c ++ [(None, R)])) l w, snl, a, b).
Proof. induction l as [|s l IH]; intros w snl a b; cbn [ofor fold_left]; [reflexivity|]. rewrite IH. reflexivity. Qed.

Theorem gen_entry_solve (w : lk) (S Dd : list nat) :
  NoDup S -> S <> [] ->
  (Nat.eqb (length S) 1 && Nat.eqb (length Dd) 1 = false) ->
  (Nat.eqb (length S) 1 && Nat.eqb (length Dd) 0 = false) ->
  let g := map (raw_item w) (ord S) in
  Forall item_ok g ->
  exists w2,
    py_subnet_linker_recursive ord (sort_loop w S) S Dd (k_R2 w) (k_max_size w)
    = match solve_group (k_max_size w) g with
      | Oversize => FFail XSubnetOversizeException
      | Ok l => let U := set_iter ord (nset_diff Dd (somes (links_dst l))) in
                FDone w2 (links_src l ++ map (fun _ => None) U, links_dst l ++ map Some U)
      end
    /\ same_frame w w2 /\ k_mst w2 = k_mst w
    /\ forall s, get_forward_cands w2 s = if existsb (Nat.eqb s) S then snd (raw_item w s) else get_forward_cands w s.
Proof.
  intros Hnd Hne Hc2 Hc3 g Hok.
  pose proof (nodup_ord S Hnd) as Hno.
  destruct (fc_upd_fold sort_cands (ord S) w Hno) as (F1 & M1 & C1). cbn zeta in *. fold (sort_loop w S) in F1, M1, C1.
  set (w1 := sort_loop w S) in *.
  destruct (fc_upd_fold (fun c => c ++ [(None, k_R2 w)]) (ord S) w1 Hno) as (F2 & M2 & C2). cbn zeta in *.
  set (w2 := fold_left (fc_upd (fun c => c ++ [(None, k_R2 w)])) (ord S) w1) in *.
  assert (HR : k_R2 w1 = k_R2 w) by (destruct F1 as (_ & _ & _ & _ & _ & _ & _ & _ & _ & _ & E); exact E).
  assert (Hfc : forall s, get_forward_cands w2 s = if existsb (Nat.eqb s) S then snd (raw_item w s) else get_forward_cands w s).
  { intros s. rewrite C2, C1, existsb_ord. destruct (existsb (Nat.eqb s) S); reflexivity. }
  exists w2. split; [|split; [eapply same_frame_trans; eassumption|split; [congruence|exact Hfc]]].
  assert (Hg : map (spoint_of w2) (set_iter ord S) = g).
  { unfold g, set_iter. apply map_ext_in. intros s Hs. unfold spoint_of, raw_item. rewrite Hfc.
    rewrite in_existsb by (eapply Permutation_in; [apply ord_perm|exact Hs]). reflexivity. }
  unfold py_subnet_linker_recursive.
  assert (Hc1 : Nat.eqb (length S) 0 && Nat.eqb (length Dd) 1 = false).
  { destruct S; [congruence|reflexivity]. }
  rewrite Hc1, Hc2, Hc3. cbn [obind].
  rewrite (null_loop (k_R2 w) (set_iter ord S) w1 blank_linker [] []). cbn [obind]. unfold set_iter at 1. fold w2.
  rewrite Hg. rewrite (py_init_solve g (k_max_size w)). cbv zeta.
  unfold solve_group. unfold spoint. replace (length g) with (length S) by (unfold g; rewrite map_length; symmetry; apply Permutation_length, ord_perm).
  destruct (k_max_size w <? length S)%nat; [reflexivity|].
  assert (Hgne : g <> []).
  { unfold g. intros E. apply map_eq_nil in E. apply Hne. apply Permutation_nil. rewrite <- E. apply ord_perm. }
  destruct g as [|x0 g0] eqn:Eg; [congruence|]. rewrite <- Eg in *. clear Hgne.
  rewrite sort_items_key. unfold spoint. set (Sg := @sort_key item klen g).
  assert (Hs : Forall item_ok Sg) by (eapply Forall_perm; [apply Permutation_sym, sort_key_perm|exact Hok]).
  destruct (items_ok_solver _ Hs) as (Hn & Hsrt & Hnull).
  destruct (solve_some _ Hn Hsrt Hnull) as (v & a & Hsol). rewrite Hsol.
  cbn [bpairs_of option_map snd best_pairs]. unfold enc_pairs.
  destruct (solve_is_opt Sg v a Hn Hsrt Hsol) as [(Hperm & _ & _) _].
  assert (Hlen : combine Sg (map fst a) <> []).
  { intros E. assert (L : length (combine Sg a) = length Sg) by (rewrite <- (map_length fst (combine Sg a)); apply Permutation_length; exact Hperm).
    assert (length (combine Sg (map fst a)) = length (combine Sg a)) by (rewrite !combine_length, map_length; reflexivity).
    rewrite E in H. cbn in H. assert (length Sg = length g) by apply sort_key_length. rewrite Eg in H0. cbn in H0. lia. }
  match goal with |- context [unzip_pairs ?x] =>
    replace (unzip_pairs x) with (@inr xexn _ (map (fun p : spair => Some (fst (fst p))) (combine Sg (map fst a)),
                                            map (fun p : spair => snd p) (combine Sg (map fst a))))
      by (symmetry; apply unzip_nonempty; exact Hlen) end.
  destruct (combine_links Sg a) as [L1 L2]. cbn [fst snd]. rewrite L1, L2.
  rewrite unclaimed_loop. cbn [obind fn_end]. reflexivity.
Qed.

(* C02_bnb_optimal / the size clause, for what the generated code does with one subnet *)
Corollary gen_entry_optimal (w : lk) (S Dd : list nat) :
  NoDup S -> S <> [] ->
  (Nat.eqb (length S) 1 && Nat.eqb (length Dd) 1 = false) ->
  (Nat.eqb (length S) 1 && Nat.eqb (length Dd) 0 = false) ->
  let g := map (raw_item w) (ord S) in
  Forall item_ok g ->
  (py_subnet_linker_recursive ord (sort_loop w S) S Dd (k_R2 w) (k_max_size w) = FFail XSubnetOversizeException
     <-> (k_max_size w < length S)%nat) /\
  (forall w2 spl dpl, py_subnet_linker_recursive ord (sort_loop w S) S Dd (k_R2 w) (k_max_size w) = FDone w2 (spl, dpl) ->
     exists pairs U, is_opt g pairs
       /\ spl = links_src (map strip pairs) ++ map (fun _ => None) U
       /\ dpl = links_dst (map strip pairs) ++ map Some U
       /\ Permutation U (nset_diff Dd (somes (links_dst (map strip pairs))))).
Proof.
  intros Hnd Hne Hc2 Hc3 g Hok.
  destruct (gen_entry_solve w S Dd Hnd Hne Hc2 Hc3 Hok) as (w2 & E & _). fold g in E. rewrite E.
  destruct (solve_group_spec (k_max_size w) g Hok) as [Ho Hk].
  assert (Hl : length g = length S) by (unfold g; rewrite map_length; apply Permutation_length, ord_perm).
  destruct (solve_group (k_max_size w) g) as [l|] eqn:Es.
  - split.
    + split; [discriminate|]. intros Hlt. rewrite <- Hl in Hlt. apply Ho in Hlt. discriminate.
    + intros w3 spl dpl H. cbv zeta in H. inversion H; subst.
      destruct (Hk l eq_refl) as [pairs [Hp Hopt]]. subst l.
      eexists pairs, _. split; [exact Hopt|]. split; [reflexivity|]. split; [reflexivity|]. apply ord_perm.
  - split; [|intros; discriminate].
    split; [intros _; rewrite <- Hl; apply Ho; reflexivity|reflexivity].
Qed.

End Entry.

(* ================= Linker.assign_links: the loop over the dictionary ================= *)
Section AssignLinks.
Variable ord : list nat -> list nat.

Definition LOL := list (option nat).
(* the generated body of `for source_set, dest_set in self.subnets` *)
Definition al_body : sets -> (lk * LOL * LOL * list nat) -> oc (lk * LOL * LOL * list nat) (LOL * LOL) :=
  fun (it : sets) (st_ : (lk * (list (option nat)) * (list (option nat)) * (list nat))%type) =>
  let '(self, spl, dpl, lost) := st_ in
  let source_set := fst it in let dest_set := snd it in
  obind (ofor (fun (sp : nat) (st_ : (lk * (list (option nat)) * (list (option nat)) * (list nat))%type) =>
  let '(self, spl, dpl, lost) := st_ in
  let self := fc_sort self sp in
  ONormal (self, spl, dpl, lost))
  (set_iter ord source_set) (self, spl, dpl, lost)) (fun (st_ : (lk * (list (option nat)) * (list (option nat)) * (list nat))%type) =>
  let '(self, spl, dpl, lost) := st_ in
  match py_subnet_linker_recursive ord self source_set dest_set (k_R2 self) (k_max_size self) with FFail e_ => ORaise e_ | FDone self v1 =>
  let sn_spl := fst v1 in
  let sn_dpl := snd v1 in
  let spl := spl ++ sn_spl in
  let dpl := dpl ++ sn_dpl in
  ONormal (self, spl, dpl, lost)
  end).

Lemma assign_links_unfold w :
  py_Linker_assign_links ord w
  = fn_end (fun st_ : (lk * LOL * LOL * list nat)%type => let '(self, spl, dpl, lost) := st_ in self) None
      (obind (ofor al_body (py_Subnets_iter w) (w, [], [], []))
         (fun st_ => let '(self, spl, dpl, lost) := st_ in
            match py_Subnets_lost self with FFail e_ => ORaise e_ | FDone self v2 =>
            OReturn (self, spl ++ map Some v2, dpl ++ repeat None (length v2), v2)
                    (spl ++ map Some v2, dpl ++ repeat None (length v2)) end)).
Proof. reflexivity. Qed.

Lemma sort_ofor (l : list nat) : forall (w : lk) (a b : LOL) (c : list nat),
  ofor (V := LOL * LOL)
    (fun (sp : nat) (st_ : (lk * (list (option nat)) * (list (option nat)) * (list nat))%type) =>
       let '(self, spl, dpl, lost) := st_ in
       let self := fc_sort self sp in
       ONormal (self, spl, dpl, lost)) l (w, a, b, c)
  = ONormal (fold_left (fc_upd sort_cands) l w, a, b, c).
Proof. induction l as [|s l IH]; intros w a b c; cbn [ofor fold_left]; [reflexivity|]. apply IH. Qed.

(* entry by entry: sort the candidates of the entry's sources, call the subnet linker, collect *)
Fixpoint entries_run (es : list sets) (w : lk) (spl dpl : LOL) : fres lk (LOL * LOL) :=
  match es with
  | [] => FDone w (spl, dpl)
  | e :: es' =>
    let w1 := sort_loop ord w (fst e) in
    match py_subnet_linker_recursive ord w1 (fst e) (snd e) (k_R2 w1) (k_max_size w1) with
    | FFail x => FFail x
    | FDone w' v => entries_run es' w' (spl ++ fst v) (dpl ++ snd v)
    end
  end.

Lemma al_loop : forall es w spl dpl lost,
  ofor al_body es (w, spl, dpl, lost)
  = match entries_run es w spl dpl with
    | FFail x => ORaise x
    | FDone w' v => ONormal (w', fst v, snd v, lost)
    end.
Proof.
  induction es as [|e es IH]; intros w spl dpl lost; cbn [ofor entries_run]; [reflexivity|].
  unfold al_body at 1. rewrite sort_ofor. cbn [obind]. unfold set_iter. fold (sort_loop ord w (fst e)).
  destruct (py_subnet_linker_recursive ord (sort_loop ord w (fst e)) (fst e) (snd e) (k_R2 (sort_loop ord w (fst e)))
              (k_max_size (sort_loop ord w (fst e)))) as [w' v|x]; [|reflexivity].
  apply IH.
Qed.

(* Linker.assign_links = the entries of the dictionary in insertion order, each handled by the sort loop and the
   subnet linker of gen_entry_solve, then the sources without subnet (Subnets.lost), each paired with None *)
Theorem gen_assign_links_eq w :
  py_Linker_assign_links ord w
  = match entries_run (dict_values w) w [] [] with
    | FFail x => FFail x
    | FDone w' v =>
      if k_includes_lost w' then FFail XValueError
      else let lost := filter (subnet_is_none w') (source_points w') in
           FDone w' (fst v ++ map Some lost, snd v ++ repeat None (length lost))
    end.
Proof.
  rewrite assign_links_unfold, al_loop. unfold py_Subnets_iter.
  destruct (entries_run (dict_values w) w [] []) as [w' v|x]; [|reflexivity].
  cbn [obind]. unfold py_Subnets_lost. destruct (k_includes_lost w'); reflexivity.
Qed.

End AssignLinks.

(* Linker.next_level = update_hash; Subnets(...); assign_links; apply_links *)
Theorem gen_next_level_eq ord ordp q w coords t :
  py_Linker_next_level ord ordp q w coords t
  = match py_Subnets_init q (update_hash_abs ordp w coords t) with
    | FFail x => FFail x
    | FDone w1 _ =>
      match py_Linker_assign_links ord w1 with
      | FFail x => FFail x
      | FDone w2 v =>
        match py_Linker_apply_links w2 (fst v) (snd v) with
        | FFail x => FFail x
        | FDone w3 _ => FDone w3 tt
        end
      end
    end.
Proof.
  unfold py_Linker_next_level.
  destruct (py_Subnets_init q (update_hash_abs ordp w coords t)) as [w1 u1|x]; [|reflexivity].
  destruct (py_Linker_assign_links ord w1) as [w2 v|x]; [|reflexivity].
  destruct (py_Linker_apply_links w2 (fst v) (snd v)) as [w3 u3|x]; reflexivity.
Qed.
