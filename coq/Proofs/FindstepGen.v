(* C14, route T for FindLinker.next_level / assign_links, the Subnets lost-feature methods,
   FindLinker.__init__ and find_link_iter: the functions of Gen/findstep.v (generated from the
   source) equal the hand-written model of the code (Model/FindLink3.v), for all inputs. *)
From Coq Require Import ZArith QArith List Bool Arith Lia Permutation.
From TP Require Import Model.Assign Model.Link Model.Dilation Model.FindLink Model.FindLink3 Model.PyFind Model.PyFindlink
     Model.PyFindstep Gen.findstep Proofs.Cands Proofs.Labels Proofs.Comps Proofs.FindLink.
Import ListNotations.
Open Scope Z_scope.

(* ------------------------------------------------------------ small facts *)
Lemma fold_max_ge l : forall a, (a <= fold_left Nat.max l a)%nat /\ forall x, In x l -> (x <= fold_left Nat.max l a)%nat.
Proof.
  induction l as [|y l IH]; intros a; cbn; [split; [lia|intros x []]|].
  destruct (IH (Nat.max a y)) as [H1 H2]. split; [lia|]. intros x [->|Hx]; [lia|apply H2; exact Hx].
Qed.

Lemma d_max_ge d k : In k (map fst d) -> (k <= d_max d)%nat.
Proof. intros H. unfold d_max. apply (proj2 (fold_max_ge (map fst d) 0%nat)). exact H. Qed.

Lemma d_set_fresh k g d : (forall k', In k' (map fst d) -> k' <> k) -> d_set k g d = d ++ [(k, g)].
Proof.
  induction d as [|[k' g'] d IH]; intros H; cbn; [reflexivity|].
  destruct (Nat.eqb k k') eqn:E.
  - apply Nat.eqb_eq in E. exfalso. apply (H k'); [left; reflexivity|congruence].
  - f_equal. apply IH. intros k0 H0. apply H. right. exact H0.
Qed.

Lemma set_sn_same s : set_sn_subnets s (sn_subnets s) = s.
Proof. destruct s; reflexivity. Qed.

(* ------------------------------------------------------------ include_lost *)
Definition incl_body (acc : subnets_t * nat) (p : item) : subnets_t * nat :=
  let '(self, counter) := acc in
  if (length (forward_cands p) =? 0)%nat then
    let '(subnet, counter) := py_next counter in
    (set_sn_subnets self (d_set subnet [p] (sn_subnets self)), counter)
  else (self, counter).

Lemma incl_fold items : forall s c,
  (forall k', In k' (map fst (sn_subnets s)) -> (k' < c)%nat) ->
  fst (fold_left incl_body items (s, c)) = set_sn_subnets s (sn_subnets s ++ lost_from c items).
Proof.
  induction items as [|it items IH]; intros s c Hc; cbn [fold_left lost_from].
  - cbn. rewrite app_nil_r. symmetry. apply set_sn_same.
  - unfold incl_body at 2. unfold has_cands, forward_cands.
    destruct (length (snd it) =? 0)%nat; cbn [negb].
    + cbn [py_next]. rewrite IH.
      * cbn [sn_subnets set_sn_subnets]. rewrite d_set_fresh by (intros k' Hk E; apply Hc in Hk; lia).
        rewrite <- app_assoc. destruct s; reflexivity.
      * cbn [sn_subnets set_sn_subnets]. rewrite d_set_fresh by (intros k' Hk E; apply Hc in Hk; lia).
        intros k' Hk. rewrite map_app in Hk. apply in_app_or in Hk. destruct Hk as [Hk|[<-|[]]]; [apply Hc in Hk; lia|cbn; lia].
    + apply IH. exact Hc.
Qed.

Theorem py_include_lost_eq s :
  py_include_lost s = set_sn_includes_lost (set_sn_subnets s (include_lost_c (sn_subnets s) (sn_points s))) true.
Proof.
  unfold py_include_lost, include_lost_c, itertools_count, source_points, d_len.
  match goal with |- context [fold_left ?f ?l ?a] => change (fold_left f l a) with (fold_left incl_body l a) end.
  set (c := if (0 <? length (sn_subnets s))%nat then (d_max (sn_subnets s) + 1)%nat else 0%nat).
  assert (Hc : forall k', In k' (map fst (sn_subnets s)) -> (k' < c)%nat).
  { intros k' Hk. unfold c. destruct (sn_subnets s) as [|e d] eqn:E; [destruct Hk|].
    cbn [length]. cbn [Nat.ltb Nat.leb]. apply d_max_ge in Hk. lia. }
  pose proof (incl_fold (sn_points s) s c Hc) as H.
  destruct (fold_left incl_body (sn_points s) (s, c)) as [s' c'] eqn:E. cbn [fst] in H. subst s'.
  unfold c. replace (S (d_max (sn_subnets s))) with (d_max (sn_subnets s) + 1)%nat by lia. reflexivity.
Qed.

(* ------------------------------------------------------------ merge_lost_subnets *)
Lemma shortage_pos g : (0 <? py_sub_len (length g) (length (dest_set_of g))) = (0 <? shortage g)%nat.
Proof.
  unfold py_sub_len, shortage, dest_set_of.
  destruct (0 <? length g - length (dedup (gdests g)))%nat eqn:E.
  - apply Nat.ltb_lt in E. apply Z.ltb_lt. lia.
  - apply Nat.ltb_ge in E. apply Z.ltb_ge. lia.
Qed.

Lemma shortage_nat g : Z.to_nat (py_sub_len (length g) (length (dest_set_of g))) = shortage g.
Proof. unfold py_sub_len, shortage, dest_set_of. lia. Qed.

Lemma fold_app_flat {A B} (f : B -> list A) l : forall a,
  fold_left (fun acc x => acc ++ f x) l a = a ++ flat_map f l.
Proof.
  induction l as [|x l IH]; intros a; cbn; [rewrite app_nil_r; reflexivity|].
  rewrite IH, app_assoc. reflexivity.
Qed.

Lemma lost_fold d keys :
  fold_left (fun (lost_source : list item) key =>
     let '(source, dest) := d_entry d key in
     let shortage := py_sub_len (length source) (length dest) in
     if 0 <? shortage then lost_source ++ source else lost_source) keys []
  = flat_map (fun k => match d_get k d with
                       | Some g => if (0 <? shortage g)%nat then g else []
                       | None => []
                       end) keys.
Proof.
  set (f := fun k => match d_get k d with
                     | Some g => if (0 <? shortage g)%nat then g else []
                     | None => []
                     end).
  change (fold_left (fun (lost_source : list item) key =>
     let '(source, dest) := d_entry d key in
     let shortage := py_sub_len (length source) (length dest) in
     if 0 <? shortage then lost_source ++ source else lost_source) keys [] = flat_map f keys).
  transitivity ([] ++ flat_map f keys); [|reflexivity]. rewrite <- fold_app_flat.
  generalize (@nil item). induction keys as [|k keys IH]; intros a; cbn [fold_left]; [reflexivity|].
  rewrite IH. f_equal. unfold f, d_entry. destruct (d_get k d) as [g|].
  - rewrite shortage_pos. destruct (0 <? shortage g)%nat; [reflexivity|rewrite app_nil_r; reflexivity].
  - cbn. rewrite app_nil_r. reflexivity.
Qed.

Lemma merge_step s p wp :
  (let '(i1, i2) := (point_subnet s p, index_subnet s wp) in
   if negb (optnat_eqb i1 i2) then
     let '(i1, i2) := if optnat_ltb i1 i2 then (i2, i1) else (i1, i2) in subnets_merge s i2 i1
   else s)
  = set_sn_subnets s (merge_one (sn_subnets s) (fst p) wp).
Proof.
  unfold point_subnet, index_subnet, merge_one.
  destruct (d_key_of (fst p) (sn_subnets s)) as [a|], (d_key_of wp (sn_subnets s)) as [b|];
    cbn [optnat_eqb optnat_ltb negb subnets_merge];
    try (symmetry; apply set_sn_same).
  destruct (Nat.eqb a b); cbn [negb]; [symmetry; apply set_sn_same|].
  destruct (a <? b)%nat; reflexivity.
Qed.

Lemma fold_sn {B} (F : subnets_t -> B -> subnets_t) (f : sdict -> B -> sdict) s0 l :
  (forall d x, F (set_sn_subnets s0 d) x = set_sn_subnets s0 (f d x)) ->
  forall d, fold_left F l (set_sn_subnets s0 d) = set_sn_subnets s0 (fold_left f l d).
Proof. intros H. induction l as [|x l IH]; intros d; cbn; [reflexivity|]. rewrite H. apply IH. Qed.

Lemma set_sn_set s d d' : set_sn_subnets (set_sn_subnets s d) d' = set_sn_subnets s d'.
Proof. reflexivity. Qed.

Theorem py_merge_lost_subnets_eq s m :
  sn_includes_lost s = true ->
  py_merge_lost_subnets s m = set_sn_subnets s (merge_lost_c m (sn_pos s) (sn_npts s) (sn_subnets s)).
Proof.
  intros Hi. unfold py_merge_lost_subnets. rewrite Hi. cbn [negb].
  unfold d_keys. rewrite lost_fold. fold (lost_sources (sn_subnets s)). unfold merge_lost_c.
  destruct (lost_sources (sn_subnets s)) as [|p0 lost] eqn:El.
  - cbn. symmetry. apply set_sn_same.
  - cbn [length Nat.eqb]. rewrite <- El. clear El p0 lost.
    match goal with |- fold_left ?F ?l s = _ =>
      transitivity (fold_left F l (set_sn_subnets s (sn_subnets s))); [rewrite set_sn_same; reflexivity|] end.
    apply (fold_sn _ (fun d (p : item) => fold_left (fun d wp => merge_one d (fst p) wp) (near_sources m (sn_pos s) (sn_npts s) (fst p)) d)).
    intros d p.
    change (hash_query_within (set_sn_subnets s d) (range_twice m) p) with (near_sources m (sn_pos s) (sn_npts s) (fst p)).
    apply fold_sn. intros d' wp. exact (merge_step (set_sn_subnets s d') p wp).
Qed.

(* ------------------------------------------------------------ add_dest_points *)
Definition extend_raw (m : metric) (pos : nat -> pt) (new : list pt) (base : nat) (it : item) : item :=
  (fst it, snd it ++ real_cands m (pos (fst it)) new base).

Lemma fold_fc_append cs : forall it, fold_left (fun source dest => fc_append source dest) cs it = (fst it, snd it ++ cs).
Proof.
  induction cs as [|c cs IH]; intros it; cbn [fold_left]; [rewrite app_nil_r; destruct it; reflexivity|].
  rewrite IH. unfold fc_append. cbn [fst snd]. rewrite <- app_assoc. reflexivity.
Qed.

Lemma map_snd_number base l : map snd (number_from base l) = l.
Proof.
  unfold number_from. revert base. induction l as [|x l IH]; intros base; cbn; [reflexivity|]. f_equal. apply IH.
Qed.

Lemma map_fst_number base l : map fst (number_from base l) = seq base (length l).
Proof.
  unfold number_from. revert base. induction l as [|x l IH]; intros base; cbn; [reflexivity|]. f_equal. apply IH.
Qed.

Theorem py_add_dest_points_eq s g dp m base :
  let new := filter (in_range_of s m g) dp in
  py_add_dest_points s g dp m base = (map (extend_raw m (sn_pos s) new base) g, number_from base new).
Proof.
  cbv zeta. unfold py_add_dest_points. destruct dp as [|q dp].
  - cbn. f_equal. induction g as [|it g IH]; cbn; [reflexivity|]. rewrite <- IH. f_equal.
    unfold extend_raw. destruct m; cbn. rewrite app_nil_r. destruct it; reflexivity.
  - cbn [length Nat.eqb]. f_equal. rewrite map_map. apply map_ext. intros it.
    unfold fc_sort. rewrite fold_fc_append. unfold extend_raw, near_new, sn_point_pos. rewrite map_snd_number. reflexivity.
Qed.
