(* C09 -- feature finding does not depend on where or how the image is processed.
   Only statements closed by [exact]; proofs live in Proofs/Equivariance.v. *)
From Coq Require Import ZArith NArith QArith Qabs List Bool Permutation.
From TP Require Import Model.Dilation Model.COM Model.Equivariance Proofs.Dilation Proofs.Equivariance.
Import ListNotations.
Open Scope Z_scope.

(* Vocabulary (Model/Equivariance.v, Proofs/Equivariance.v, Proofs/Dilation.v):
     moved d im1 im2       im2 has the same number of axes and  pix im2 (p + d) = pix im1 p  for every
                           index tuple p  (pix is 0 outside an array: "content d further, blank elsewhere")
     content_inside mg im  every non-zero pixel lies inside the declared shape and keeps the
                           margin mg from both ends of every axis
     room radius sh k c    radius + k <= c <= sh - 1 - radius - k on every axis
     content_has_room      every non-zero pixel p has room (max_iterations - 1) in canvas 1, and p + d in canvas 2
     find_maxima           grey_dilation(image, separation, percentile, margin, precise=False)   (C06 model)
     refine_at             one row of refine_com, python engine                                  (C07 model)
     locate_discrete       refine_at mapped over find_maxima: locate's table before the tail
     row_moved d a b       position of b == position of a + d (rationals), mass equal, (size, signal, raw_mass) equal
   np.percentile is a section variable; used facts: it depends only on the multiset of the
   non-zero pixels and is non-negative on non-negative pixels. *)

(* (1) Translation, maxima stage: for a non-negative integer image whose content keeps the
   margin from the canvas edges in both placements, the maxima of the moved image are
   exactly the moved maxima (same threshold, same boxes, same margin test). *)
Theorem C09_maxima_moved :
  forall (percentile : list Z -> Q),
    (forall l l', Permutation l l' -> percentile l = percentile l') ->
    (forall l, (forall v, In v l -> 0 <= v) -> (0 <= percentile l)%Q) ->
  forall d im1 im2 P,
    moved d im1 im2 ->
    length d = length (shape im1) ->
    length (lp_sep P) = length (shape im1) -> length (lp_margin P) = length (shape im1) ->
    Forall (fun s => 1 <= s) (sizes_of im1 (lp_sep P)) ->
    content_inside (lp_margin P) im1 -> content_inside (lp_margin P) im2 ->
    (forall p, 0 <= pix im1 p) ->
    forall q, In q (find_maxima percentile P im2) <->
              exists p, q = vadd p d /\ In p (find_maxima percentile P im1).
Proof. exact maxima_moved. Qed.
Print Assumptions C09_maxima_moved.

(* (2) Translation, refinement: started d further on the moved image, with room for
   every possible shift, the centre-of-mass iteration visits the moved windows and
   reports the moved position and the same mass, size(s), signal and raw_mass. *)
Theorem C09_refine_moved : forall P d im1 im2 start,
  moved d im1 im2 -> length d = length (shape im1) -> length (lp_radius P) = length (shape im1) ->
  length start = length (shape im1) ->
  room (lp_radius P) (shape im1) (pred (iters_of (lp_maxit P))) start ->
  room (lp_radius P) (shape im2) (pred (iters_of (lp_maxit P))) (vadd start d) ->
  row_moved d (refine_at P im1 start) (refine_at P im2 (vadd start d)).
Proof. exact refine_at_moved. Qed.
Print Assumptions C09_refine_moved.

(* (3) Translation, composed: locate's table before the tail (integer image,
   preprocess=False) on the moved image consists of the same rows, every position moved
   by exactly d and every other column identical. *)
Theorem C09_locate_discrete_moved :
  forall (percentile : list Z -> Q),
    (forall l l', Permutation l l' -> percentile l = percentile l') ->
    (forall l, (forall v, In v l -> 0 <= v) -> (0 <= percentile l)%Q) ->
  forall d im1 im2 P,
    moved d im1 im2 ->
    length d = length (shape im1) ->
    length (lp_sep P) = length (shape im1) -> length (lp_margin P) = length (shape im1) ->
    length (lp_radius P) = length (shape im1) ->
    Forall (fun s => 1 <= s) (sizes_of im1 (lp_sep P)) ->
    (forall p, 0 <= pix im1 p) ->
    content_inside (lp_margin P) im1 -> content_inside (lp_margin P) im2 ->
    content_has_room P d im1 im2 ->
    exists rows, Permutation (locate_discrete percentile P im2) rows /\
                 Forall2 (row_moved d) (locate_discrete percentile P im1) rows.
Proof. exact locate_discrete_moved. Qed.
Print Assumptions C09_locate_discrete_moved.

(* (3b) The relational premises are met by what the harness builds: the same content
   pasted at two offsets into two blank canvases ([embed]) is [moved] by the offset
   difference; [fitsb sh off csh m] decides "the box [off, off+csh) keeps distance m from
   the edges of sh", which gives content_inside (m = margin) and content_has_room
   (m = radius + max_iterations - 1). *)
Theorem C09_embed_moved : forall content sh1 off1 sh2 off2,
  length off1 = length sh1 -> length off2 = length sh1 -> length sh2 = length sh1 ->
  (forall c, length c = length sh1 -> pix content c <> 0 ->
             in_bounds sh1 (vadd c off1) /\ in_bounds sh2 (vadd c off2)) ->
  moved (vsub off2 off1) (embed sh1 off1 content) (embed sh2 off2 content).
Proof. exact embed_moved. Qed.
Print Assumptions C09_embed_moved.

Theorem C09_embed_content_inside : forall sh off content mg,
  length off = length sh -> (forall c, pix content c <> 0 -> in_bounds (shape content) c) ->
  fitsb sh off (shape content) mg = true ->
  content_inside mg (embed sh off content).
Proof. exact embed_content_inside. Qed.
Print Assumptions C09_embed_content_inside.

Theorem C09_embed_has_room : forall P content sh1 off1 sh2 off2,
  length off1 = length sh1 -> length off2 = length sh1 -> length sh2 = length sh1 ->
  (forall c, pix content c <> 0 -> in_bounds (shape content) c) ->
  let m := map (fun r => r + Z.of_nat (pred (iters_of (lp_maxit P)))) (lp_radius P) in
  fitsb sh1 off1 (shape content) m = true -> fitsb sh2 off2 (shape content) m = true ->
  content_has_room P (vsub off2 off1) (embed sh1 off1 content) (embed sh2 off2 content).
Proof. exact embed_has_room. Qed.
Print Assumptions C09_embed_has_room.

(* Non-vacuity: a 5x5 blob at (4,5) in a 14x15 canvas and at (7,4) in a 16x14 canvas,
   diameter 3, separation 3, max_iterations 3, constant threshold 1/2, meets every
   premise of (1)-(3); one feature is found, at (6,7) resp. (9,6), mass 37. *)
Example C09_translation_premises_satisfiable :
  moved ex_d ex_im1 ex_im2 /\
  length ex_d = length (shape ex_im1) /\
  length (lp_sep ex_P) = length (shape ex_im1) /\ length (lp_margin ex_P) = length (shape ex_im1) /\
  length (lp_radius ex_P) = length (shape ex_im1) /\
  Forall (fun s => 1 <= s) (sizes_of ex_im1 (lp_sep ex_P)) /\
  (forall p, 0 <= pix ex_im1 p) /\
  content_inside (lp_margin ex_P) ex_im1 /\ content_inside (lp_margin ex_P) ex_im2 /\
  content_has_room ex_P ex_d ex_im1 ex_im2.
Proof. exact ex_premises. Qed.

Example C09_translation_instance_nontrivial :
  find_maxima ex_percentile ex_P ex_im1 = [[6; 7]] /\ find_maxima ex_percentile ex_P ex_im2 = [[9; 6]] /\
  map o_mass (locate_discrete ex_percentile ex_P ex_im1) = [37].
Proof. exact ex_nontrivial. Qed.

(* (4) Transposition, maxima stage: for ANY integer image (no premise on its content),
   the maxima of the transposed image (numpy .T: axes reversed), found with separation
   and margin reversed alike, are the transposed maxima. *)
Theorem C09_maxima_transposed :
  forall (percentile : list Z -> Q),
    (forall l l', Permutation l l' -> percentile l = percentile l') ->
  forall im1 im2 P,
    transposed im1 im2 ->
    length (lp_sep P) = length (shape im1) -> length (lp_margin P) = length (shape im1) ->
    Forall (fun s => 1 <= s) (sizes_of im1 (lp_sep P)) ->
    forall q, In q (find_maxima percentile (lp_rev P) im2) <-> In (rev q) (find_maxima percentile P im1).
Proof. exact maxima_transposed. Qed.
Print Assumptions C09_maxima_transposed.

(* (5) batch, in-process (processes <= 1): the returned table is locate on each frame,
   every row tagged with the frame's number (its frame_no attribute, else its
   position in the sequence), concatenated in frame order; frames without features
   contribute nothing.  Holds whether or not locate itself saw the attribute. *)
Theorem C09_batch_is_tagged_concatenation :
  forall (frame row : Type) (locate : frame -> list row) (frame_no : frame -> option nat) seen frames,
    batch_map frame row locate frame_no seen frames = tagged_from frame row locate frame_no 0 frames.
Proof. exact batch_map_spec. Qed.
Print Assumptions C09_batch_is_tagged_concatenation.

(* (6) batch with a pool: whatever the order [sched] in which the workers complete
   the tasks (every task completes), and whether or not frame_no survives the trip
   to the worker, the result is the one of the in-process run. *)
Theorem C09_batch_process_independent :
  forall (frame row : Type) (locate : frame -> list row) (frame_no : frame -> option nat) sched seen seen' frames,
    (forall i, (i < length frames)%nat -> In i sched) ->
    batch_imap frame row locate frame_no sched seen frames = batch_map frame row locate frame_no seen' frames.
Proof. exact batch_process_independent. Qed.
Print Assumptions C09_batch_process_independent.

(* (7) F13 (open finding): with the weights cosmask gives a radius-1 mask (centre
   weight 1), the eccentricity numerator of a neighbourhood [up; left; centre; right;
   down] and of its transpose differ by 4 * centre * (left + right - up - down). *)
Theorem C09_ecc_numerator_under_transposition : forall u l c r d,
  ecc_num cos3 sin3 [u; l; c; r; d] - ecc_num cos3 sin3 (nb_transpose [u; l; c; r; d]) = 4 * c * (l + r - u - d).
Proof. exact ecc_num_transpose_diff. Qed.
Print Assumptions C09_ecc_numerator_under_transposition.

Theorem C09_ecc_transpose_refuted :
  exists nb, zsum (nb_transpose nb) = zsum nb /\ nth 2 (nb_transpose nb) 0 = nth 2 nb 0 /\
             ecc_num cos3 sin3 (nb_transpose nb) <> ecc_num cos3 sin3 nb.
Proof. exact ecc_transpose_refuted. Qed.
Print Assumptions C09_ecc_transpose_refuted.

(* (8) the monitor run on locate's own tables is sound *)
Theorem C09_monitor_moved_sound : forall tolp tol d A B,
  check_moved tolp tol d A B = 0%N -> Forall2 (trow_related tolp tol d) A B.
Proof. exact check_moved_sound. Qed.
Print Assumptions C09_monitor_moved_sound.

Theorem C09_monitor_transposed_sound : forall tolp tol A B,
  check_transposed tolp tol A B = 0%N ->
  exists z, Forall2 (trow_related tolp tol z) A (map rev_pos B) /\ Forall (fun q => q = 0%Q) z.
Proof. exact check_transposed_sound. Qed.
Print Assumptions C09_monitor_transposed_sound.

(* Non-vacuity of (4) and (6). *)
Example C09_transposition_instance :
  transposed ex_im1 (transpose ex_im1) /\
  find_maxima ex_percentile (lp_rev ex_P) (transpose ex_im1) = [[7; 6]].
Proof. exact ex_transposed. Qed.

Example C09_batch_instance :
  batch_imap nat nat (fun n => seq 0 n) (fun n => if Nat.even n then Some (10 + n)%nat else None) [2; 0; 1]%nat false [3; 0; 2]%nat
  = [(0, 0); (1, 0); (2, 0); (0, 12); (1, 12)]%nat.
Proof. exact ex_batch. Qed.

(* ------------------------------------------------------------------------------------
   Transposition of the refinement stage and of the composed discrete pipeline
   (proofs in Proofs/Equivariance2.v).  Vocabulary:
     transposed im1 im2     im2 = im1.T  (numpy: all axes reversed; any number of axes)
     lp_rev P               every per-axis parameter (separation, margin, radius) reversed alike
     row_transposed a b     o_pos b = rev (o_pos a)            position columns reversed
                            o_mass b = o_mass a                mass identical
                            characterize columns: sizes b = rev (sizes a)  (per-axis sizes reversed;
                            isotropic radii report a single size, which is then identical),
                            signal and raw_mass identical
   All equalities are equalities of the model's exact rationals.  ecc is not part of the
   refinement model (open finding F13, theorems (7)). *)
From TP Require Import Proofs.Equivariance2.

(* (9) Transposition, refinement: started at the reversed coordinate on the transposed
   image with the radii reversed, the centre-of-mass iteration (Model/COM.refine_python,
   engine='python') visits the mirrored windows and reports the transposed row.  No
   premise on the image content, the distance to the edges or the iteration count. *)
Theorem C09_refine_transposed : forall P im1 im2 start,
  transposed im1 im2 ->
  length (lp_radius P) = length (shape im1) -> length start = length (shape im1) ->
  row_transposed (refine_at P im1 start) (refine_at (lp_rev P) im2 (rev start)).
Proof. exact refine_at_transposed. Qed.
Print Assumptions C09_refine_transposed.

(* (9b) ... with equal radii on all axes the (size, signal, raw_mass) entry is identical *)
Theorem C09_refine_transposed_isotropic : forall P im1 im2 start,
  transposed im1 im2 ->
  length (lp_radius P) = length (shape im1) -> length start = length (shape im1) ->
  isotropic (lp_radius P) = true ->
  o_char (refine_at (lp_rev P) im2 (rev start)) = o_char (refine_at P im1 start).
Proof. exact refine_at_transposed_isotropic. Qed.
Print Assumptions C09_refine_transposed_isotropic.

(* (10) Transposition, composed: locate's table before the tail (integer image,
   preprocess=False) on the transposed image, parameters reversed with the axes, consists
   of the same rows (as a multiset: the row order follows np.where order, which
   transposition changes), every row transposed.  Holds for ANY integer image. *)
Theorem C09_locate_discrete_transposed :
  forall (percentile : list Z -> Q),
    (forall l l', Permutation l l' -> percentile l = percentile l') ->
  forall im1 im2 P,
    transposed im1 im2 ->
    length (lp_sep P) = length (shape im1) -> length (lp_margin P) = length (shape im1) ->
    length (lp_radius P) = length (shape im1) ->
    Forall (fun s => 1 <= s) (sizes_of im1 (lp_sep P)) ->
    exists rows, Permutation (locate_discrete percentile (lp_rev P) im2) rows /\
                 Forall2 row_transposed (locate_discrete percentile P im1) rows.
Proof. exact locate_discrete_transposed. Qed.
Print Assumptions C09_locate_discrete_transposed.

(* Non-vacuity of (9), (10): the 14x15 canvas ex_im1 and its transpose meet the premises,
   also with anisotropic parameters ex_P2 (diameter (3, 5), separation (3, 5), margin (1, 2)) *)
Example C09_transposition_premises_satisfiable :
  transposed ex_im1 (transpose ex_im1) /\
  length (lp_sep ex_P2) = length (shape ex_im1) /\ length (lp_margin ex_P2) = length (shape ex_im1) /\
  length (lp_radius ex_P2) = length (shape ex_im1) /\
  Forall (fun s => 1 <= s) (sizes_of ex_im1 (lp_sep ex_P2)).
Proof. exact ex_transposed_premises. Qed.

(* isotropic: position columns swapped, one size, everything else identical *)
Example C09_locate_transposed_instance_isotropic :
  locate_discrete ex_percentile ex_P ex_im1 =
    [mkOut [222 # 37; 259 # 37]%Q 37 (Some ([28 # 37]%Q, 9, 37))] /\
  locate_discrete ex_percentile (lp_rev ex_P) (transpose ex_im1) =
    [mkOut [259 # 37; 222 # 37]%Q 37 (Some ([28 # 37]%Q, 9, 37))].
Proof. exact ex_locate_transposed_iso. Qed.

(* anisotropic: the two per-axis sizes differ and are swapped with the axes *)
Example C09_locate_transposed_instance_anisotropic :
  locate_discrete ex_percentile ex_P2 ex_im1 =
    [mkOut [234 # 39; 273 # 39]%Q 39 (Some ([28 # 39; 44 # 39]%Q, 9, 39))] /\
  locate_discrete ex_percentile (lp_rev ex_P2) (transpose ex_im1) =
    [mkOut [273 # 39; 234 # 39]%Q 39 (Some ([44 # 39; 28 # 39]%Q, 9, 39))].
Proof. exact ex_locate_transposed_aniso. Qed.

(* ------------------------------------------------------------------------------------
   Arbitrary axis orders: np.transpose(image, axes) for ANY permutation [axes] of the
   axes of an image with any number of axes (proofs in Proofs/Equivariance3.v).
     permute def axes v      v taken in the order axes:  result[k] = v[axes[k]]
                             (zperm: integer lists, qperm: rational lists)
     axes_permuted axes im1 im2   shape im2 = zperm axes (shape im1)  and
                             pix im2 (zperm axes p) = pix im1 p  for every index tuple p of im1's rank
     lp_perm axes P          separation, margin, radius taken in the order axes
     row_permuted axes a b   o_pos b = qperm axes (o_pos a), mass, signal, raw_mass identical,
                             a single (isotropic) size identical, per-axis sizes = qperm axes (sizes a)
   numpy .T is axes = n-1, ..., 0  ([C09_reversal_is_an_axis_order]). *)
From TP Require Import Proofs.Equivariance3.

(* (11) any axis order, refinement *)
Theorem C09_refine_axes_permuted : forall axes P im1 im2 start,
  Permutation axes (seq 0 (length (shape im1))) -> axes_permuted axes im1 im2 ->
  length (lp_radius P) = length (shape im1) ->
  row_permuted axes (refine_at P im1 start) (refine_at (lp_perm axes P) im2 (zperm axes start)).
Proof. exact refine_at_axes. Qed.
Print Assumptions C09_refine_axes_permuted.

(* (12) any axis order, maxima + refinement composed: locate's table before the tail
   (integer image, preprocess=False) on the image with permuted axes consists of the same
   rows (as a multiset), every row permuted.  Holds for ANY integer image. *)
Theorem C09_locate_discrete_axes_permuted :
  forall (percentile : list Z -> Q),
    (forall l l', Permutation l l' -> percentile l = percentile l') ->
  forall axes im1 im2 P,
    Permutation axes (seq 0 (length (shape im1))) -> axes_permuted axes im1 im2 ->
    length (lp_sep P) = length (shape im1) -> length (lp_margin P) = length (shape im1) ->
    length (lp_radius P) = length (shape im1) ->
    Forall (fun s => 1 <= s) (sizes_of im1 (lp_sep P)) ->
    exists rows, Permutation (locate_discrete percentile (lp_perm axes P) im2) rows /\
                 Forall2 (row_permuted axes) (locate_discrete percentile P im1) rows.
Proof. exact locate_discrete_axes. Qed.
Print Assumptions C09_locate_discrete_axes_permuted.

Theorem C09_reversal_is_an_axis_order : forall (A : Type) (def : A) (v : list A),
  permute def (rev (seq 0 (length v))) v = rev v.
Proof. exact permute_rev_seq. Qed.
Print Assumptions C09_reversal_is_an_axis_order.

(* the harness' np.transpose: the image tabulated in the new axis order is axes_permuted *)
Theorem C09_transpose_axes_permuted : forall axes im,
  Permutation axes (seq 0 (length (shape im))) ->
  (forall p, pix im p <> 0 -> in_bounds (shape im) p) ->
  axes_permuted axes im (transpose_axes axes im).
Proof. exact transpose_axes_permuted. Qed.
Print Assumptions C09_transpose_axes_permuted.

(* Non-vacuity of (11), (12): an ellipsoidal blob at (4, 5, 6) in a 9x10x12 volume, diameter
   (3, 5, 5), axes taken in the order (2, 0, 1): one feature; position and the three per-axis
   sizes (all different) appear in the new order, mass, signal, raw_mass are unchanged *)
Example C09_axes_premises_satisfiable :
  Permutation ex3_axes (seq 0 (length (shape ex3_im))) /\
  axes_permuted ex3_axes ex3_im (transpose_axes ex3_axes ex3_im) /\
  length (lp_sep ex3_P) = length (shape ex3_im) /\ length (lp_margin ex3_P) = length (shape ex3_im) /\
  length (lp_radius ex3_P) = length (shape ex3_im) /\
  Forall (fun s => 1 <= s) (sizes_of ex3_im (lp_sep ex3_P)).
Proof. exact ex3_premises. Qed.

Example C09_axes_instance :
  shape (transpose_axes ex3_axes ex3_im) = [12; 9; 10] /\
  locate_discrete ex_percentile ex3_P ex3_im =
    [mkOut [528 # 132; 660 # 132; 792 # 132]%Q 132 (Some ([54 # 132; 264 # 132; 366 # 132]%Q, 12, 132))] /\
  locate_discrete ex_percentile (lp_perm ex3_axes ex3_P) (transpose_axes ex3_axes ex3_im) =
    [mkOut [792 # 132; 528 # 132; 660 # 132]%Q 132 (Some ([366 # 132; 54 # 132; 264 # 132]%Q, 12, 132))].
Proof. exact ex3_locate_permuted. Qed.

(* ------------------------------------------------------------------------------------
   The WHOLE integer preprocess=False pipeline, tail included (Model/LocateWhole.v, proofs
   in Proofs/LocateWhole.v):
     locate_whole percentile P T im  =  tail_out (lp_sep P) T (locate_discrete percentile P im)
     tail_out sep T table            =  topn (minmass/maxsize filter (table minus where_close's rows))
   where_close, the row dropping and the filters are the definitions of the C08 model
   (Model/LocateTail.v) applied to refine's rows ([C09_tail_is_the_C08_tail]).  Of two rows closer
   than separation where_close (find.py:42-51) drops the one of smaller mass; on EQUAL mass
   the one with the smaller sum of rescaled coordinates; on equal sums the one that comes
   first in the table.
     T = (t_minmass, t_maxsize, t_topn);  t_maxsize = None | Some (maxsize^2)  (the model's
         size entry is size^2), only meaningful for an isotropic diameter (else no 'size' column)
     no_tie sep T table = true   (a boolean, computed from refine's table of the FIRST image):
         no two rows closer than separation have equal mass, and, when topn is given, no
         two rows that reach the topn step have equal mass (argmax/argsort would decide by
         row order).
   The open findings F15 (transposition) and F17 (translation: the float sums of the tie
   rule round differently at another offset) are exactly such ties: under no_tie the tie
   rule is never consulted.  The static error ep (float noise statistics) is not modelled. *)
From TP Require Import Model.LocateTail Model.LocateWhole Model.LocateWholeCheck Proofs.LocateWhole.
Open Scope Z_scope.

(* (13) Translation, whole pipeline: under the premises of (3) and without ties, the final
   table of the moved image consists of the same rows, positions moved by exactly d. *)
Theorem C09_locate_whole_moved :
  forall (percentile : list Z -> Q),
    (forall l l', Permutation l l' -> percentile l = percentile l') ->
    (forall l, (forall v, In v l -> 0 <= v) -> (0 <= percentile l)%Q) ->
  forall d im1 im2 P T,
    moved d im1 im2 ->
    length d = length (shape im1) ->
    length (lp_sep P) = length (shape im1) -> length (lp_margin P) = length (shape im1) ->
    length (lp_radius P) = length (shape im1) ->
    Forall (fun s => 1 <= s) (sizes_of im1 (lp_sep P)) ->
    (forall p, 0 <= pix im1 p) ->
    content_inside (lp_margin P) im1 -> content_inside (lp_margin P) im2 ->
    content_has_room P d im1 im2 ->
    no_tie (lp_sep P) T (locate_discrete percentile P im1) = true ->
    exists rows, Permutation (locate_whole percentile P T im2) rows /\
                 Forall2 (row_moved d) (locate_whole percentile P T im1) rows.
Proof. exact locate_whole_moved. Qed.
Print Assumptions C09_locate_whole_moved.

(* (14) Any axis order, whole pipeline: for ANY integer image, without ties, the final
   table of np.transpose(image, axes) (per-axis parameters in the same order) consists of
   the same rows, every row permuted.  maxsize requires an isotropic diameter. *)
Theorem C09_locate_whole_axes_permuted :
  forall (percentile : list Z -> Q),
    (forall l l', Permutation l l' -> percentile l = percentile l') ->
  forall axes im1 im2 P T,
    Permutation axes (seq 0 (length (shape im1))) -> axes_permuted axes im1 im2 ->
    length (lp_sep P) = length (shape im1) -> length (lp_margin P) = length (shape im1) ->
    length (lp_radius P) = length (shape im1) ->
    Forall (fun s => 1 <= s) (sizes_of im1 (lp_sep P)) ->
    t_maxsize T = None \/ isotropic (lp_radius P) = true ->
    no_tie (lp_sep P) T (locate_discrete percentile P im1) = true ->
    exists rows, Permutation (locate_whole percentile (lp_perm axes P) T im2) rows /\
                 Forall2 (row_permuted axes) (locate_whole percentile P T im1) rows.
Proof. exact locate_whole_axes. Qed.
Print Assumptions C09_locate_whole_axes_permuted.

(* (15) F15 in the model: WITHOUT no_tie (14) fails.  Two equal single-pixel peaks at (4,6) and
   (6,4) of an 11x11 image, separation 4: refine's table is [(4,6); (6,4)], both of mass 9;
   every other premise of (14) holds; the image keeps (6,4), the transposed image keeps
   (6,4) as well, which is not the transposed row. *)
Theorem C09_whole_tie_refuted :
  Permutation nt_axes (seq 0 (length (shape tie_im))) /\
  axes_permuted nt_axes tie_im (transpose_axes nt_axes tie_im) /\
  length (lp_sep nt_P) = length (shape tie_im) /\ length (lp_margin nt_P) = length (shape tie_im) /\
  length (lp_radius nt_P) = length (shape tie_im) /\
  Forall (fun s => 1 <= s) (sizes_of tie_im (lp_sep nt_P)) /\
  (t_maxsize tie_T = None \/ isotropic (lp_radius nt_P) = true) /\
  no_tie (lp_sep nt_P) tie_T (locate_discrete ex_percentile nt_P tie_im) = false /\
  map o_pos (locate_discrete ex_percentile nt_P tie_im) = [[36 # 9; 54 # 9]; [54 # 9; 36 # 9]]%Q /\
  map o_mass (locate_discrete ex_percentile nt_P tie_im) = [9; 9] /\
  map o_pos (locate_whole ex_percentile nt_P tie_T tie_im) = [[54 # 9; 36 # 9]]%Q /\
  map o_pos (locate_whole ex_percentile (lp_perm nt_axes nt_P) tie_T (transpose_axes nt_axes tie_im)) = [[54 # 9; 36 # 9]]%Q /\
  ~ exists rows, Permutation (locate_whole ex_percentile (lp_perm nt_axes nt_P) tie_T (transpose_axes nt_axes tie_im)) rows /\
                 Forall2 (row_permuted nt_axes) (locate_whole ex_percentile nt_P tie_T tie_im) rows.
Proof. exact whole_tie_refuted. Qed.
Print Assumptions C09_whole_tie_refuted.

(* (16) the ingredients of (13), (14), for any table of refine rows:
   (a) without ties among close rows, duplicate removal keeps exactly the rows that have no
       strictly more massive row closer than separation (an order-free description);
   (b) without ties the final table does not depend on the order of refine's table;
   (c) the rows kept are the rows the C08 model of the tail keeps (scale factor 1). *)
Theorem C09_dedupe_without_ties : forall sep table,
  no_close_tie sep table = true ->
  dedupe_out sep table =
  if forallb (Qltb 0) sep then filter (fun x => negb (dominated sep table x)) table else table.
Proof. intros sep table H. apply dedupe_out_no_tie, no_close_tie_iff, H. Qed.
Print Assumptions C09_dedupe_without_ties.

Theorem C09_tail_order_independent : forall sep T table table',
  Permutation table table' -> no_tie sep T table = true ->
  Permutation (tail_out sep T table) (tail_out sep T table').
Proof. exact tail_out_perm. Qed.
Print Assumptions C09_tail_order_independent.

Theorem C09_tail_is_the_C08_tail : forall sep T table,
  map to_row (tail_out sep T table) =
  map snd (select (t_minmass T) (t_maxsize T) (t_topn T) (dedupe sep (map to_row table))).
Proof. exact tail_out_is_C08_tail. Qed.
Print Assumptions C09_tail_is_the_C08_tail.

(* Non-vacuity of (13), (14): five single-pixel peaks A=9, B=7 (three pixels from A, separation
   4), E=6, C=5, D=3 in a 9x10 content, pasted at (4,5) into a 20x21 canvas and at (7,4) into a
   22x20 canvas; minmass 7/2, topn 2.  All premises hold incl. no_tie; refine's table has five
   rows, where_close drops B, minmass drops D, topn drops C; E and A remain, moved by
   (3,-1) resp. with swapped coordinates. *)
Example C09_whole_translation_premises_satisfiable :
  moved nt_d nt_im1 nt_im2 /\
  length nt_d = length (shape nt_im1) /\
  length (lp_sep nt_P) = length (shape nt_im1) /\ length (lp_margin nt_P) = length (shape nt_im1) /\
  length (lp_radius nt_P) = length (shape nt_im1) /\
  Forall (fun s => 1 <= s) (sizes_of nt_im1 (lp_sep nt_P)) /\
  (forall p, 0 <= pix nt_im1 p) /\
  content_inside (lp_margin nt_P) nt_im1 /\ content_inside (lp_margin nt_P) nt_im2 /\
  content_has_room nt_P nt_d nt_im1 nt_im2 /\
  no_tie (lp_sep nt_P) nt_T (locate_discrete ex_percentile nt_P nt_im1) = true.
Proof. exact nt_moved_premises. Qed.

Example C09_whole_axes_premises_satisfiable :
  Permutation nt_axes (seq 0 (length (shape nt_im1))) /\
  axes_permuted nt_axes nt_im1 (transpose_axes nt_axes nt_im1) /\
  length (lp_sep nt_P) = length (shape nt_im1) /\ length (lp_margin nt_P) = length (shape nt_im1) /\
  length (lp_radius nt_P) = length (shape nt_im1) /\
  Forall (fun s => 1 <= s) (sizes_of nt_im1 (lp_sep nt_P)) /\
  (t_maxsize nt_T = None \/ isotropic (lp_radius nt_P) = true) /\
  no_tie (lp_sep nt_P) nt_T (locate_discrete ex_percentile nt_P nt_im1) = true.
Proof. exact nt_axes_premises. Qed.

Example C09_whole_instance :
  map o_mass (locate_discrete ex_percentile nt_P nt_im1) = [9; 6; 7; 5; 3] /\
  map o_mass (dedupe_out (lp_sep nt_P) (locate_discrete ex_percentile nt_P nt_im1)) = [9; 6; 5; 3] /\
  locate_whole ex_percentile nt_P nt_T nt_im1 =
    [mkOut [30 # 6; 78 # 6]%Q 6 (Some ([0 # 6]%Q, 6, 6)); mkOut [45 # 9; 72 # 9]%Q 9 (Some ([0 # 9]%Q, 9, 9))] /\
  locate_whole ex_percentile nt_P nt_T nt_im2 =
    [mkOut [48 # 6; 72 # 6]%Q 6 (Some ([0 # 6]%Q, 6, 6)); mkOut [72 # 9; 63 # 9]%Q 9 (Some ([0 # 9]%Q, 9, 9))] /\
  locate_whole ex_percentile (lp_perm nt_axes nt_P) nt_T (transpose_axes nt_axes nt_im1) =
    [mkOut [78 # 6; 30 # 6]%Q 6 (Some ([0 # 6]%Q, 6, 6)); mkOut [72 # 9; 45 # 9]%Q 9 (Some ([0 # 9]%Q, 9, 9))].
Proof. exact nt_instance. Qed.

(* ------------------------------------------------------------------------------------
   batch over a worker pool with chunking (Model/LocateWhole.batch_pool): Pool.imap cuts the
   tasks 0..n-1 into chunks of c consecutive tasks; chunks complete in the order [csched]
   (every chunk completes); [seen i] says whether locate, in the worker that ran task i,
   saw the frame's frame_no attribute.  The parent process reads frames[i].frame_no itself
   (feature.py:565-575).  The number of workers only influences csched and seen. *)

(* (17) any chunk size, any completion order, attribute seen by any subset of the tasks:
   the table is locate on each frame, tagged with the frame's own frame_no when it has one
   (else its position), concatenated in frame order. *)
Theorem C09_batch_pool_is_tagged_concatenation :
  forall (frame row : Type) (locate : frame -> list row) (frame_no : frame -> option nat) c csched seen frames,
    (0 < c)%nat -> (forall k, (k * c < length frames)%nat -> In k csched) ->
    batch_pool frame row locate frame_no c csched seen frames = tagged_from frame row locate frame_no 0 frames.
Proof. exact batch_pool_spec. Qed.
Print Assumptions C09_batch_pool_is_tagged_concatenation.

(* (18) frames that all carry a number: every row is tagged with ITS FRAME'S number; the
   position of the frame in the sequence handed to batch appears nowhere
   (tagged_own no frames = flat_map (fun f => map (fun x => (x, no f)) (locate f)) frames). *)
Theorem C09_batch_tags_are_frame_numbers :
  forall (frame row : Type) (locate : frame -> list row) (frame_no : frame -> option nat) (no : frame -> nat)
         c csched seen frames,
    (0 < c)%nat -> (forall k, (k * c < length frames)%nat -> In k csched) ->
    (forall f, In f frames -> frame_no f = Some (no f)) ->
    batch_pool frame row locate frame_no c csched seen frames = tagged_own frame row locate no frames.
Proof. exact batch_pool_own_numbers. Qed.
Print Assumptions C09_batch_tags_are_frame_numbers.

(* (19) two pools (different worker counts / chunk sizes / completion orders / attribute
   visibility) and the in-process run return the same table *)
Theorem C09_batch_pool_independent :
  forall (frame row : Type) (locate : frame -> list row) (frame_no : frame -> option nat)
         c csched seen c' csched' seen' seen0 frames,
    (0 < c)%nat -> (forall k, (k * c < length frames)%nat -> In k csched) ->
    (0 < c')%nat -> (forall k, (k * c' < length frames)%nat -> In k csched') ->
    batch_pool frame row locate frame_no c csched seen frames = batch_pool frame row locate frame_no c' csched' seen' frames /\
    batch_pool frame row locate frame_no c csched seen frames = batch_map frame row locate frame_no seen0 frames.
Proof. exact batch_pool_independent. Qed.
Print Assumptions C09_batch_pool_independent.

(* (20) a sub-clip of a numbered movie, run on its own (with any pool), yields exactly the
   segment of the full movie's table *)
Theorem C09_batch_subclip :
  forall (frame row : Type) (locate : frame -> list row) (frame_no : frame -> option nat) (no : frame -> nat)
         c csched seen c' csched' seen' before clip after,
    (0 < c)%nat -> (forall k, (k * c < length (before ++ clip ++ after))%nat -> In k csched) ->
    (0 < c')%nat -> (forall k, (k * c' < length clip)%nat -> In k csched') ->
    (forall f, In f (before ++ clip ++ after) -> frame_no f = Some (no f)) ->
    batch_pool frame row locate frame_no c csched seen (before ++ clip ++ after) =
    tagged_own frame row locate no before ++
    batch_pool frame row locate frame_no c' csched' seen' clip ++
    tagged_own frame row locate no after.
Proof. exact batch_pool_subclip. Qed.
Print Assumptions C09_batch_subclip.

(* Non-vacuity of (17)-(19): frames numbered 25, 24, 23 (a reversed sub-clip), chunks of two
   completing in the order 1, 0, the attribute seen only by the even tasks *)
Example C09_batch_pool_instance :
  batch_pool nat nat (fun n => seq 0 (n - 22)) (fun n => Some n) 2 [1; 0]%nat (fun i => Nat.even i) [25; 24; 23]%nat
  = [(0, 25); (1, 25); (2, 25); (0, 24); (1, 24); (0, 23)]%nat.
Proof. exact ex_batch_pool. Qed.

(* (21) the correspondence check of the whole pipeline run by vp/props/c09.py on locate's own
   final tables (Model/LocateWholeCheck.check_whole) is sound: code 0 means that the case
   has no tie and that locate's table agrees row by row with the model's
   (row_agrees: every position within 2^-30, mass exactly). *)
Theorem C09_whole_check_sound : forall thr P T im rows,
  check_whole thr P T im rows = 0%N ->
  no_tie (lp_sep P) T (locate_discrete (fun _ => thr) P im) = true /\
  Forall2 row_agrees (locate_whole (fun _ => thr) P T im) rows.
Proof. exact check_whole_sound. Qed.
Print Assumptions C09_whole_check_sound.

(* ====================================================================================
   ROUTE T FOR THE HEAD OF locate  (added; nothing above is changed)
   Gen/locatehead.v is regenerated on every run of ./check C09 by tools/py2coq_locatehead.py from
   the CURRENT text of trackpy/feature.py (locate, from its signature and defaults to the
   `refined_coords = refine_com(...)` statement: py_locate_head) and trackpy/preprocessing.py
   (invert_image, convert_to_int, scalefactor_to_gamut, scale_to_gamut), statement by statement,
   over the vocabulary Model/PyLocatehead.v.  The generated head CALLS the other generated files by
   name: Gen.preproc.py_bandpass, Gen.find.grey_dilation, Gen.refine.py_refine_com; py_locate is
   the head followed by Gen.tail.py_locate_tail, the tail's parameters linked by name to the head's
   variables.  Proofs/LocateheadGen.v proves them equal to the hand-written models.
     np_img A              an ndarray: ImZ dtype image (integer array) | ImF a (float64 array)
     squeeze_image         np.squeeze on a Model/Dilation.v image
     locate_args           Model/LocatePipe2.v: validation of diameter / separation / smoothing_size / noise_size
                           in source order, with locate's refusals and their messages
     lparams_of, margin_of the parameters of Model/LocatePipe.v from the validated tuples; LocatePipe.margins
     locate_py             = locate_args ; Model/LocatePipe.locate on the squeezed image
     clipped dt im         image.clip(min=0) for a signed dtype, the image itself for an unsigned one
     head_result           what the head hands on for an integer image (see (22))
     py_engine NA nd e     e = 'python', or e = 'auto' where numba is absent or the image is not 2-D / 3-D
     locate_agrees g m     g and m refuse with the same exception; or m's pipeline raises and g raises; or both
                           return the same table (same index labels, same rows, ep entries equal as float64)
   ==================================================================================== *)
From Coq Require Import String.
From TP Require Import Model.LocatePipe Model.StaticError Model.PyTail Model.PyLocatehead Model.LocatePipe2
                       Gen.locatehead Proofs.LocateheadGen.
From TP Require Model.PyPreproc Model.PyRefine Model.COMRefine Gen.find Gen.refine Gen.preproc Gen.tail.
Open Scope Z_scope.

(* (22) the generated head on an INTEGER image with preprocess=False, invert=False (any dtype, any arguments):
   np.squeeze; the validation locate_args (a refusal is locate's ValueError with its message); then
     image  = the squeezed image, negative pixels clipped when the dtype is signed
     margin = LocatePipe.margins radius separation smoothing_size
     coords = Gen.find.grey_dilation np_percentile false image separation percentile (Some margin) false
     refined_coords = Gen.refine.py_refine_com NUMBA_AVAILABLE raw image (RTuple radius) coords max_iterations engine 0.6 characterize None
   and scale_factor = 1, minmass None -> 0, pos_columns = default_pos_columns(ndim)  (head_result). *)
Theorem C09_gen_head_is_model :
  forall (A : Type) (F : float_ops A) np_percentile np_exp NUMBA_AVAILABLE dt im0 diameter minmass maxsize separation noise_size
         smoothing_size threshold percentile topn max_iterations filter_after characterize engine,
  py_locate_head F np_percentile np_exp NUMBA_AVAILABLE (ImZ dt im0) diameter minmass maxsize separation noise_size smoothing_size
                 threshold false percentile topn false max_iterations None filter_after characterize engine =
  rbind (locate_args (List.length (shape (squeeze_image im0))) diameter maxsize separation smoothing_size noise_size)
        (fun V => head_result np_percentile NUMBA_AVAILABLE dt (squeeze_image im0) V minmass maxsize topn percentile
                              max_iterations characterize engine).
Proof. exact @head_int. Qed.
Print Assumptions C09_gen_head_is_model.

(* (23) preprocess=True, any image (integer or float): after the same validation the generated head calls the
   GENERATED bandpass on the squeezed image with exactly the validated tuples -- lshort = noise_size,
   llong = smoothing_size (default: diameter), threshold = the argument, else 1 for an integer and 1/255 for a
   float image, truncate = bandpass's own default -- a ValueError of bandpass is locate's; its result goes
   through convert_to_int (dtype of the raw image, uint8 for a float image), then margin, grey_dilation and
   refine_com as in (22)  (head_rest). *)
Theorem C09_gen_head_calls_bandpass :
  forall (A : Type) (F : float_ops A) np_percentile np_exp NUMBA_AVAILABLE raw0 diameter minmass maxsize separation noise_size
         smoothing_size threshold percentile topn max_iterations filter_after characterize engine,
  let raw := np_squeeze F raw0 in
  py_locate_head F np_percentile np_exp NUMBA_AVAILABLE raw0 diameter minmass maxsize separation noise_size smoothing_size
                 threshold false percentile topn true max_iterations None filter_after characterize engine =
  rbind (locate_args (List.length (img_shape F raw)) diameter maxsize separation smoothing_size noise_size) (fun V =>
  rbind (of_bandpass (Gen.preproc.py_bandpass (fo_nd F) np_exp (img_as_float F raw) (img_pp_dtype raw)
                        (PyPreproc.PySeq (a_noise V)) (PyPreproc.PySeq (a_smooth V))
                        (Some (threshold_of raw threshold)) Gen.preproc.py_bandpass_default_truncate))
        (fun image => head_rest F np_percentile NUMBA_AVAILABLE raw image V minmass maxsize topn percentile max_iterations
                                characterize engine)).
Proof. exact @head_preprocess. Qed.
Print Assumptions C09_gen_head_calls_bandpass.

(* (24) THE GENERATED WHOLE locate IS THE MODEL (partial: the pure-python engine).  For an integer image whose
   dtype agrees with its content (an unsigned array has no negative entry), at least one axis after squeezing,
   non-negative separations, preprocess=False, invert=False, engine 'python' (or 'auto' without numba):
   py_locate -- generated head ; generated grey_dilation ; generated refine_com ; generated tail -- agrees
   with locate_py = validation ; Model/LocatePipe.locate, the model C08_inside_image is stated about.
   MISSING for the full statement: engine='numba' (LocatePipe.refine_one with l_numba = true; the generated
   refine_com_arr is tied to the kernel model in C07 (13), (14) on nested arrays, not yet to LocatePipe's
   refine_numba on [pix]), and float images (the refinement / tail models are integer models). *)
Theorem C09_gen_locate_is_model_partial :
  forall (A : Type) (F : float_ops A) np_percentile np_exp NUMBA_AVAILABLE sqrtf frame_no dt im0 diameter minmass maxsize
         separation noise_size smoothing_size threshold percentile topn max_iterations filter_after characterize engine,
  let im := squeeze_image im0 in
  shape im <> [] -> dtype_ok dt im -> py_engine NUMBA_AVAILABLE (List.length (shape im)) engine ->
  (forall V, locate_args (List.length (shape im)) diameter maxsize separation smoothing_size noise_size = ROk V ->
             Forall (fun s => (0 <= s)%Q) (a_sep V)) ->
  locate_agrees
    (py_locate F np_percentile np_exp NUMBA_AVAILABLE sqrtf frame_no (ImZ dt im0) diameter minmass maxsize separation noise_size
               smoothing_size threshold false percentile topn false max_iterations None filter_after characterize engine)
    (locate_py (fun l => np_percentile l percentile) sqrtf false im0 diameter minmass maxsize separation noise_size
               smoothing_size topn max_iterations characterize).
Proof. exact @gen_locate_is_model. Qed.
Print Assumptions C09_gen_locate_is_model_partial.

(* (25) the generated head and the C09 model (Model/Equivariance.v): on a NON-NEGATIVE integer image the coords the
   head computes are find_maxima, and the rows of refine_com's frame are the rows of locate_discrete, in order,
   for P = lp_of V = (separation, LocatePipe.margins .., radius, 0.6, max_iterations, characterize) -- so theorems
   (1)-(4), (9)-(12) speak about what the generated head computes. *)
Theorem C09_gen_head_is_discrete_model :
  forall (A : Type) (F : float_ops A) np_percentile np_exp NUMBA_AVAILABLE dt im0 diameter minmass maxsize separation noise_size
         smoothing_size threshold percentile topn max_iterations filter_after characterize engine,
  let im := squeeze_image im0 in
  arr_nonneg (data im) = true -> py_engine NUMBA_AVAILABLE (List.length (shape im)) engine ->
  (forall V, locate_args (List.length (shape im)) diameter maxsize separation smoothing_size noise_size = ROk V ->
             Forall (fun s => (0 <= s)%Q) (a_sep V)) ->
  py_locate_head F np_percentile np_exp NUMBA_AVAILABLE (ImZ dt im0) diameter minmass maxsize separation noise_size smoothing_size
                 threshold false percentile topn false max_iterations None filter_after characterize engine =
  rbind (locate_args (List.length (shape im)) diameter maxsize separation smoothing_size noise_size) (fun V =>
    let P := lp_of V max_iterations characterize in
    let nd := Z.of_nat (List.length (shape im)) in
    ROk (PyRefine.mkFrame (COMRefine.com_columns (PyRefine.default_pos_columns nd) nd characterize (isotropic (lp_radius P))) None
                          (map COMRefine.ref_row (locate_discrete (fun l => np_percentile l percentile) P im)),
         a_sep V, PyRefine.default_pos_columns nd, 1%Q, match minmass with Some m => m | None => 0%Q end, maxsize, topn,
         characterize, ImZ dt im, ImZ dt im, lp_radius P, List.length (shape im), a_noise V,
         find_maxima (fun l => np_percentile l percentile) P im, lp_margin P)).
Proof. exact @gen_head_discrete. Qed.
Print Assumptions C09_gen_head_is_discrete_model.

(* (26) theorem (3) for the GENERATED head: the same content at two places (premises of (3), with the margin and
   radius the head itself derives from the arguments): both runs of the generated head succeed, and the rows of the
   two frames refine_com returns are the rows (COMRefine.ref_row) of outputs that correspond one to one, every
   position moved by exactly d and every other column identical. *)
Theorem C09_gen_head_moved :
  forall (A : Type) (F : float_ops A) (np_percentile : list Z -> Q -> Q) np_exp NUMBA_AVAILABLE percentile,
    (forall l l', Permutation l l' -> np_percentile l percentile = np_percentile l' percentile) ->
    (forall l, (forall v, In v l -> 0 <= v) -> (0 <= np_percentile l percentile)%Q) ->
  forall d dt raw1 raw2 diameter minmass maxsize separation noise_size smoothing_size threshold topn max_iterations filter_after
         characterize engine V,
  let im1 := squeeze_image raw1 in
  let im2 := squeeze_image raw2 in
  let P := lp_of V max_iterations characterize in
  locate_args (List.length (shape im1)) diameter maxsize separation smoothing_size noise_size = ROk V ->
  Forall (fun s => (0 <= s)%Q) (a_sep V) -> List.length (a_sep V) = List.length (shape im1) ->
  List.length (a_smooth V) = List.length (shape im1) ->
  py_engine NUMBA_AVAILABLE (List.length (shape im1)) engine ->
  arr_nonneg (data im1) = true -> arr_nonneg (data im2) = true ->
  moved d im1 im2 -> List.length d = List.length (shape im1) ->
  Forall (fun s => 1 <= s) (sizes_of im1 (lp_sep P)) ->
  (forall p, 0 <= pix im1 p) ->
  content_inside (lp_margin P) im1 -> content_inside (lp_margin P) im2 ->
  content_has_room P d im1 im2 ->
  exists r1 r2 outs1 outs2 rows,
    py_locate_head F np_percentile np_exp NUMBA_AVAILABLE (ImZ dt raw1) diameter minmass maxsize separation noise_size smoothing_size
                   threshold false percentile topn false max_iterations None filter_after characterize engine = ROk r1 /\
    py_locate_head F np_percentile np_exp NUMBA_AVAILABLE (ImZ dt raw2) diameter minmass maxsize separation noise_size smoothing_size
                   threshold false percentile topn false max_iterations None filter_after characterize engine = ROk r2 /\
    PyRefine.of_rows (head_frame r1) = map COMRefine.ref_row outs1 /\
    PyRefine.of_rows (head_frame r2) = map COMRefine.ref_row outs2 /\
    Permutation outs2 rows /\ Forall2 (row_moved d) outs1 rows.
Proof. exact @gen_head_moved. Qed.
Print Assumptions C09_gen_head_moved.

(* (27) convert_to_int / scale_to_gamut / invert_image as generated.  An integer image is returned as it is with
   scale factor 1; a float image a (maximum vmax) is clipped at zero, scaled by iinfo(dtype).max / vmax (by 1 when
   vmax = 0) and truncated to the dtype; scale_to_gamut (scale_factor None, or the factor convert_to_int reports)
   is the image part of convert_to_int whenever vmax is not 0; invert_image XORs an integer image with the largest
   value of its dtype and maps a float image v to 1 - v. *)
Theorem C09_gen_convert_to_int_integer : forall (A : Type) (F : float_ops A) dt im dtype,
  py_convert_to_int F (ImZ dt im) dtype = ROk (1%Q, ImZ dt im).
Proof. exact @convert_to_int_integer. Qed.
Print Assumptions C09_gen_convert_to_int_integer.

Theorem C09_gen_convert_to_int_float : forall (A : Type) (F : float_ops A) a d vmax,
  fo_max F a = Some vmax ->
  py_convert_to_int F (ImF a) (DInt d) =
  let sf := if Qeq_bool vmax 0 then 1%Q else (inject_Z (iinfo_max d) / vmax)%Q in
  ROk (sf, ImZ d (fo_trunc F (PyPreproc.nd_map (fo_nd F) (fun v => (sf * v)%Q)
                   (PyPreproc.nd_map (fo_nd F) (fun v => if Qle_bool 0 v then v else 0%Q) a)))).
Proof. exact @convert_to_int_float. Qed.
Print Assumptions C09_gen_convert_to_int_float.

Theorem C09_gen_scale_to_gamut : forall (A : Type) (F : float_ops A) a d vmax,
  fo_max F a = Some vmax -> Qeq_bool vmax 0 = false ->
  exists sf x, py_convert_to_int F (ImF a) (DInt d) = ROk (sf, x) /\
               py_scalefactor_to_gamut F (ImF a) (DInt d) = ROk sf /\
               py_scale_to_gamut F (ImF a) (DInt d) None = ROk x /\
               py_scale_to_gamut F (ImF a) (DInt d) (Some sf) = ROk x.
Proof. exact @scale_to_gamut_is_convert_to_int. Qed.
Print Assumptions C09_gen_scale_to_gamut.

Theorem C09_gen_invert_image : forall (A : Type) (F : float_ops A),
  (forall dt im, py_invert_image F (ImZ dt im) None =
                 ROk (ImZ dt {| shape := shape im; data := arr_map (fun v => Z.lxor v (iinfo_max dt)) (data im) |})) /\
  (forall a, py_invert_image F (ImF a) None = ROk (ImF (PyPreproc.nd_map (fo_nd F) (fun v => (1 - v)%Q) a))).
Proof. intros A F. split; [exact (invert_image_integer F) | exact (invert_image_float F)]. Qed.
Print Assumptions C09_gen_invert_image.

(* (28) the keyword defaults of locate, convert_to_int, invert_image, scale_to_gamut as generated *)
Theorem C09_gen_locate_defaults :
  py_locate_default_minmass = None /\ py_locate_default_maxsize = None /\ py_locate_default_separation = None /\
  py_locate_default_noise_size = PyPreproc.PyScalar 1%Q /\ py_locate_default_smoothing_size = None /\
  py_locate_default_threshold = None /\ py_locate_default_invert = false /\ py_locate_default_percentile = 64%Q /\
  py_locate_default_topn = None /\ py_locate_default_preprocess = true /\ py_locate_default_max_iterations = 10 /\
  py_locate_default_filter_before = None /\ py_locate_default_filter_after = None /\
  py_locate_default_characterize = true /\ py_locate_default_engine = "auto"%string /\
  py_convert_to_int_default_dtype = np_uint8 /\ py_invert_image_default_max_value = None /\
  py_scale_to_gamut_default_scale_factor = None.
Proof. exact gen_locate_defaults. Qed.
Print Assumptions C09_gen_locate_defaults.

(* Non-vacuity of (24): the 14x15 uint8 canvas of the examples above, diameter 3, max_iterations 3, engine='python'
   meets every premise; the generated whole locate (executed) returns one row with label 0 at (6, 7), mass 37,
   position columns y, x and the column ep; an even diameter is refused with locate's message. *)
Example C09_gen_premises_satisfiable :
  shape (squeeze_image ex_im1) <> [] /\
  dtype_ok (mkDT false 8) (squeeze_image ex_im1) /\
  py_engine false (List.length (shape (squeeze_image ex_im1))) "python"%string /\
  (forall V, locate_args (List.length (shape (squeeze_image ex_im1))) (PyPreproc.PyScalar 3) None None None
                         (PyPreproc.PyScalar 1%Q) = ROk V -> Forall (fun s => (0 <= s)%Q) (a_sep V)).
Proof. exact ex_gen_premises. Qed.

Example C09_gen_locate_runs :
  ex_run = py_locate fops2 (fun _ _ => 1 # 2) (fun _ => 0%Q) false (fun q => q) None (ImZ (mkDT false 8) ex_im1)
                     (PyPreproc.PyScalar 3) None None None (PyPreproc.PyScalar 1%Q) None None false 64%Q None false 3 None None true
                     "python"%string /\
  match ex_run with
  | ROk d => map (fun x => (fst (fst x), r_pos (snd (fst x)), r_mass (snd (fst x)))) (df_lines d) = [(0%nat, [222 # 37; 259 # 37]%Q, 37%Q)] /\
             df_pos_columns d = ["y"%string; "x"%string] /\ df_ep_names d = ["ep"%string]
  | RRaise _ => False
  end.
Proof. split; [reflexivity | exact ex_gen_runs]. Qed.

Example C09_gen_locate_refuses_even_diameter :
  ex_run_even = py_locate fops2 (fun _ _ => 1 # 2) (fun _ => 0%Q) false (fun q => q) None (ImZ (mkDT false 8) ex_im1)
                          (PyPreproc.PySeq [3; 4]) None None None (PyPreproc.PyScalar 1%Q) None None false 64%Q None false 3 None None
                          true "python"%string /\
  ex_run_even = RRaise (EValueError "Feature diameter must be an odd integer. Round up.").
Proof. split; [reflexivity | exact ex_gen_refuses]. Qed.

(* ====================================================================================
   ROUTE T FOR THE HEAD OF locate, SECOND PART (added; nothing above is changed; proofs in Proofs/LocateheadGen2.v)
     numba_engine NA e     e = 'numba', or e = 'auto' with numba available
     engine_is NA nd e numba   which engine refine_com_arr takes:  numba = false: py_engine NA nd e;
                           numba = true: numba_engine NA e on a 2-D or 3-D image.  Every engine string the source accepts
                           falls under it, 'numba' on other than 2 or 3 axes excepted (refine_com_arr raises
                           NotImplementedError there, the model has no such image)  [C09_engine_is_total]
     walk_bright im r n s  no window the walk of at most n iterations from the start pixel s evaluates is dark (Model/COM.ref_nonzero)
     largs_permuted axes V V2   the validated tuples (diameter, separation, smoothing_size) of the second call are
                           those of the first taken in the order axes
     pyarg_perm def axes v a scalar argument as it is, a tuple argument taken in the order axes
   ==================================================================================== *)
From TP Require Import Proofs.LocateheadGen2.
Open Scope Z_scope.

(* (29) THE GENERATED WHOLE locate IS THE MODEL, EVERY ENGINE (closes the first gap named at (24)).  Premises of (24);
   [numba] says which engine the engine string selects (engine_is) and is the l_numba flag of the model; for the numba
   engine the image has 2 or 3 axes and every diameter is at least 3 (radius >= 1: the premise of C07 (1) / (22) under
   which kernel model and reference model agree).  With numba the generated kernels (Gen/com_kernels.v through
   Gen/refine.py_refine_com_arr) return the rows of the python engine when no evaluated window is dark -- this is
   C07_generated_refine_com_engines_agree -- and the whole call raises ZeroDivisionError exactly when the model's
   refine_one answers None (locate_agrees: generated raises / model's pipeline raises).
   STILL MISSING: float images end to end (the refinement / tail models are integer models). *)
Theorem C09_gen_locate_is_model :
  forall (A : Type) (F : float_ops A) np_percentile np_exp NUMBA_AVAILABLE sqrtf frame_no dt im0 diameter minmass maxsize
         separation noise_size smoothing_size threshold percentile topn max_iterations filter_after characterize engine numba,
  let im := squeeze_image im0 in
  shape im <> [] -> dtype_ok dt im -> engine_is NUMBA_AVAILABLE (List.length (shape im)) engine numba ->
  (forall V, locate_args (List.length (shape im)) diameter maxsize separation smoothing_size noise_size = ROk V ->
             Forall (fun s => (0 <= s)%Q) (a_sep V) /\ (numba = true -> Forall (fun d => 3 <= d) (a_diameter V))) ->
  locate_agrees
    (py_locate F np_percentile np_exp NUMBA_AVAILABLE sqrtf frame_no (ImZ dt im0) diameter minmass maxsize separation noise_size
               smoothing_size threshold false percentile topn false max_iterations None filter_after characterize engine)
    (locate_py (fun l => np_percentile l percentile) sqrtf numba im0 diameter minmass maxsize separation noise_size
               smoothing_size topn max_iterations characterize).
Proof. exact @gen_locate_is_model_engines. Qed.
Print Assumptions C09_gen_locate_is_model.

Theorem C09_engine_is_total : forall NUMBA_AVAILABLE nd engine,
  engine = "python"%string \/ engine = "auto"%string \/ (engine = "numba"%string /\ (nd = 2 \/ nd = 3)%nat) ->
  exists numba, engine_is NUMBA_AVAILABLE nd engine numba.
Proof. exact engine_is_total. Qed.
Print Assumptions C09_engine_is_total.

(* (29b) the step of (29) that is new: refine_com as generated, called the way locate calls it with the numba engine (raw image
   im, image imc of the same shape, 2 or 3 axes, radius >= 1 a tuple, coords the integer array of maxima, every start
   window inside the image): if every walk is bright, the frame of the python engine (rows of the reference model, one
   per maximum, in order); otherwise ZeroDivisionError. *)
Theorem C09_gen_refine_com_numba_as_locate_calls_it : forall NUMBA_AVAILABLE (im imc : image) radius coords max_iterations engine characterize,
  shape imc = shape im -> List.length radius = List.length (shape im) ->
  (List.length (shape im) = 2 \/ List.length (shape im) = 3)%nat ->
  Forall (fun r => 1 <= r) radius ->
  Forall (fun p => List.length p = List.length (shape im) /\ window_inside radius (shape imc) p) coords ->
  numba_engine NUMBA_AVAILABLE engine ->
  of_refine (Gen.refine.py_refine_com NUMBA_AVAILABLE (zarr_of im) (zarr_of imc) (PyRefine.RTuple radius)
               (PyRefine.CArray (np_rows_as_array imc coords)) max_iterations engine
               Gen.refine.py_refine_com_default_shift_thresh characterize Gen.refine.py_refine_com_default_pos_columns) =
  if forallb (walk_bright imc radius max_iterations) coords
  then ROk (PyRefine.mkFrame
              (COMRefine.com_columns (PyRefine.default_pos_columns (Z.of_nat (List.length (shape imc))))
                                     (Z.of_nat (List.length (shape imc))) characterize (isotropic radius))
              None
              (COMRefine.refine_rows (pix imc) (pix im) radius (shape imc) LocatePipe.shift_thresh max_iterations characterize coords))
  else RRaise (EUnmodelled "ZeroDivisionError").
Proof. exact refine_com_frame_numba. Qed.
Print Assumptions C09_gen_refine_com_numba_as_locate_calls_it.

(* (30) theorem (11) for the GENERATED refine_com (python engine), called the way locate calls it: on
   np.transpose(image, axes), the radius and every start pixel taken in the order axes, it returns the frame whose rows
   are the rows (COMRefine.ref_row) of the permuted outputs, in the same order.  ANY integer image. *)
Theorem C09_gen_refine_com_axes_permuted : forall NUMBA_AVAILABLE axes (im1 im2 : image) radius coords max_iterations engine characterize,
  Permutation axes (seq 0 (List.length (shape im1))) -> axes_permuted axes im1 im2 ->
  List.length radius = List.length (shape im1) ->
  Forall (fun p => List.length p = List.length (shape im1)) coords ->
  py_engine NUMBA_AVAILABLE (List.length (shape im1)) engine ->
  exists f1 f2 outs1 outs2,
    of_refine (Gen.refine.py_refine_com NUMBA_AVAILABLE (zarr_of im1) (zarr_of im1) (PyRefine.RTuple radius)
                 (PyRefine.CArray (np_rows_as_array im1 coords)) max_iterations engine
                 Gen.refine.py_refine_com_default_shift_thresh characterize Gen.refine.py_refine_com_default_pos_columns) = ROk f1 /\
    of_refine (Gen.refine.py_refine_com NUMBA_AVAILABLE (zarr_of im2) (zarr_of im2) (PyRefine.RTuple (zperm axes radius))
                 (PyRefine.CArray (np_rows_as_array im2 (map (zperm axes) coords))) max_iterations engine
                 Gen.refine.py_refine_com_default_shift_thresh characterize Gen.refine.py_refine_com_default_pos_columns) = ROk f2 /\
    PyRefine.of_rows f1 = map COMRefine.ref_row outs1 /\ PyRefine.of_rows f2 = map COMRefine.ref_row outs2 /\
    Forall2 (row_permuted axes) outs1 outs2.
Proof. exact gen_refine_com_axes. Qed.
Print Assumptions C09_gen_refine_com_axes_permuted.

(* (31) theorem (12) for the GENERATED head (the any-axis-order companion of (26)): raw2 is raw1 with its axes in the order
   axes (after squeezing), located with every per-axis argument in that order (largs_permuted; (31b) shows that permuting
   tuple arguments and keeping scalar ones achieves it), non-negative integer image, python engine: both runs of the
   generated head succeed, the rows of the two frames refine_com returns are the rows of locate_discrete on im1 resp. of
   locate_discrete with permuted parameters on im2, and these correspond one to one (as multisets: np.where order
   changes), every row permuted.  No premise on the image content. *)
Theorem C09_gen_head_axes_permuted :
  forall (A : Type) (F : float_ops A) (np_percentile : list Z -> Q -> Q) np_exp NUMBA_AVAILABLE percentile,
    (forall l l', Permutation l l' -> np_percentile l percentile = np_percentile l' percentile) ->
  forall axes dt raw1 raw2 diameter separation noise_size smoothing_size diameter2 separation2 noise_size2 smoothing_size2
         minmass maxsize threshold topn max_iterations filter_after characterize engine V V2,
  let im1 := squeeze_image raw1 in
  let im2 := squeeze_image raw2 in
  let P := lp_of V max_iterations characterize in
  locate_args (List.length (shape im1)) diameter maxsize separation smoothing_size noise_size = ROk V ->
  locate_args (List.length (shape im2)) diameter2 maxsize separation2 smoothing_size2 noise_size2 = ROk V2 ->
  largs_permuted axes V V2 ->
  Forall (fun s => (0 <= s)%Q) (a_sep V) ->
  py_engine NUMBA_AVAILABLE (List.length (shape im1)) engine ->
  arr_nonneg (data im1) = true -> arr_nonneg (data im2) = true ->
  Permutation axes (seq 0 (List.length (shape im1))) -> axes_permuted axes im1 im2 ->
  Forall (fun s => 1 <= s) (sizes_of im1 (lp_sep P)) ->
  exists r1 r2 outs1 outs2 rows,
    py_locate_head F np_percentile np_exp NUMBA_AVAILABLE (ImZ dt raw1) diameter minmass maxsize separation noise_size smoothing_size
                   threshold false percentile topn false max_iterations None filter_after characterize engine = ROk r1 /\
    py_locate_head F np_percentile np_exp NUMBA_AVAILABLE (ImZ dt raw2) diameter2 minmass maxsize separation2 noise_size2 smoothing_size2
                   threshold false percentile topn false max_iterations None filter_after characterize engine = ROk r2 /\
    PyRefine.of_rows (head_frame r1) = map COMRefine.ref_row outs1 /\
    PyRefine.of_rows (head_frame r2) = map COMRefine.ref_row outs2 /\
    outs1 = locate_discrete (fun l => np_percentile l percentile) P im1 /\
    outs2 = locate_discrete (fun l => np_percentile l percentile) (lp_perm axes P) im2 /\
    Permutation outs2 rows /\ Forall2 (row_permuted axes) outs1 rows.
Proof. exact @gen_head_axes. Qed.
Print Assumptions C09_gen_head_axes_permuted.

(* (31b) locate's validation on arguments taken in the order axes (tuples permuted, scalars kept) succeeds whenever the
   original validation does, and its validated tuples are the original ones permuted *)
Theorem C09_locate_args_permuted : forall axes n diameter maxsize separation smoothing_size noise_size V,
  Permutation axes (seq 0 n) ->
  locate_args n diameter maxsize separation smoothing_size noise_size = ROk V ->
  exists V2, locate_args n (pyarg_perm 0 axes diameter) maxsize (option_map (pyarg_perm 0%Q axes) separation)
                         (option_map (pyarg_perm 0 axes) smoothing_size) (pyarg_perm 0%Q axes noise_size) = ROk V2 /\
             largs_permuted axes V V2 /\ a_noise V2 = qperm axes (a_noise V).
Proof. exact locate_args_permuted. Qed.
Print Assumptions C09_locate_args_permuted.

(* (31c) with them the parameters of the discrete model are the permuted parameters (margin included) *)
Theorem C09_lp_of_permuted : forall axes V V2 max_iterations characterize n,
  largs_permuted axes V V2 -> Permutation axes (seq 0 n) ->
  List.length (a_diameter V) = n -> List.length (a_sep V) = n -> List.length (a_smooth V) = n ->
  lp_of V2 max_iterations characterize = lp_perm axes (lp_of V max_iterations characterize).
Proof. exact lp_of_permuted. Qed.
Print Assumptions C09_lp_of_permuted.

(* (32) theorem (14) for the generated code, PARTIAL: the GENERATED head followed by the tail MODEL of (13)-(16)
   (Model/LocateWhole.tail_out: where_close, minmass / maxsize, topn on refine's rows).  Premises of (31) and those of (14)
   (maxsize only with an isotropic diameter, no_tie on refine's table of the first image): both runs of the generated head
   succeed and the final tables tail_out computes from the rows of the two frames correspond one to one, every row
   permuted.
   MISSING for the full statement (Gen/tail.py_locate_tail in place of tail_out): (29) ties the generated tail to
   Model/LocatePipe.locate = Model/LocateTail.tail on LocatePipe.row_of rows (np.sqrt of size^2 through the parameter
   sqrtf, mass / scale_factor, ep columns), (14) is about tail_out on outputs (size^2 against maxsize^2, no scale
   factor); the two tail models are proved to keep the same rows only on to_row rows with scale factor 1 ((16c)); a
   row-by-row bridge LocateTail.tail (row_of) ~ tail_out for maxsize = None is not proved. *)
Theorem C09_gen_head_then_tail_axes_permuted_partial :
  forall (A : Type) (F : float_ops A) (np_percentile : list Z -> Q -> Q) np_exp NUMBA_AVAILABLE percentile,
    (forall l l', Permutation l l' -> np_percentile l percentile = np_percentile l' percentile) ->
  forall axes dt raw1 raw2 diameter separation noise_size smoothing_size diameter2 separation2 noise_size2 smoothing_size2
         minmass maxsize threshold topn max_iterations filter_after characterize engine V V2 T,
  let im1 := squeeze_image raw1 in
  let im2 := squeeze_image raw2 in
  let P := lp_of V max_iterations characterize in
  locate_args (List.length (shape im1)) diameter maxsize separation smoothing_size noise_size = ROk V ->
  locate_args (List.length (shape im2)) diameter2 maxsize separation2 smoothing_size2 noise_size2 = ROk V2 ->
  largs_permuted axes V V2 ->
  Forall (fun s => (0 <= s)%Q) (a_sep V) ->
  py_engine NUMBA_AVAILABLE (List.length (shape im1)) engine ->
  arr_nonneg (data im1) = true -> arr_nonneg (data im2) = true ->
  Permutation axes (seq 0 (List.length (shape im1))) -> axes_permuted axes im1 im2 ->
  Forall (fun s => 1 <= s) (sizes_of im1 (lp_sep P)) ->
  t_maxsize T = None \/ isotropic (lp_radius P) = true ->
  no_tie (lp_sep P) T (locate_discrete (fun l => np_percentile l percentile) P im1) = true ->
  exists r1 r2 outs1 outs2 rows,
    py_locate_head F np_percentile np_exp NUMBA_AVAILABLE (ImZ dt raw1) diameter minmass maxsize separation noise_size smoothing_size
                   threshold false percentile topn false max_iterations None filter_after characterize engine = ROk r1 /\
    py_locate_head F np_percentile np_exp NUMBA_AVAILABLE (ImZ dt raw2) diameter2 minmass maxsize separation2 noise_size2 smoothing_size2
                   threshold false percentile topn false max_iterations None filter_after characterize engine = ROk r2 /\
    PyRefine.of_rows (head_frame r1) = map COMRefine.ref_row outs1 /\
    PyRefine.of_rows (head_frame r2) = map COMRefine.ref_row outs2 /\
    Permutation (tail_out (qperm axes (lp_sep P)) T outs2) rows /\
    Forall2 (row_permuted axes) (tail_out (lp_sep P) T outs1) rows.
Proof. exact @gen_head_tail_axes_partial. Qed.
Print Assumptions C09_gen_head_then_tail_axes_permuted_partial.

(* Non-vacuity of (29) with numba = true: the 14x15 uint8 canvas, diameter 3, engine='numba' meets every premise; the
   generated locate with the kernels EXECUTED returns the table of the python engine (one row). *)
Example C09_gen_numba_premises_satisfiable :
  shape (squeeze_image ex_im1) <> [] /\
  dtype_ok (mkDT false 8) (squeeze_image ex_im1) /\
  engine_is false (List.length (shape (squeeze_image ex_im1))) "numba"%string true /\
  (forall V, locate_args (List.length (shape (squeeze_image ex_im1))) (PyPreproc.PyScalar 3) None None None
                         (PyPreproc.PyScalar 1%Q) = ROk V ->
             Forall (fun s => (0 <= s)%Q) (a_sep V) /\ (true = true -> Forall (fun d => 3 <= d) (a_diameter V))).
Proof. exact ex_numba_premises. Qed.

Example C09_gen_locate_numba_runs :
  ex_run_numba = py_locate fops2 (fun _ _ => 1 # 2) (fun _ => 0%Q) false (fun q => q) None (ImZ (mkDT false 8) ex_im1)
                           (PyPreproc.PyScalar 3) None None None (PyPreproc.PyScalar 1%Q) None None false 64%Q None false 3 None None true
                           "numba"%string /\
  ex_run_numba = ex_run /\ exists d, ex_run = ROk d /\ List.length (df_lines d) = 1%nat.
Proof. split; [reflexivity | exact ex_numba_runs]. Qed.

(* Non-vacuity of (31): the 14x15 canvas and np.transpose(.., (1, 0)) of it, diameter (3, 5) resp. (5, 3): every premise
   holds; executed, the generated head finds one feature each, position and the two per-axis sizes swapped. *)
Example C09_gen_head_axes_premises_satisfiable :
  exists V V2,
    locate_args (List.length (shape (squeeze_image ex_im1))) (PyPreproc.PySeq [3; 5]) None None None (PyPreproc.PyScalar 1%Q) = ROk V /\
    locate_args (List.length (shape (squeeze_image ex_im1T))) (PyPreproc.PySeq [5; 3]) None None None (PyPreproc.PyScalar 1%Q) = ROk V2 /\
    largs_permuted ex_axes V V2 /\ Forall (fun s => (0 <= s)%Q) (a_sep V) /\
    py_engine false (List.length (shape (squeeze_image ex_im1))) "python"%string /\
    arr_nonneg (data (squeeze_image ex_im1)) = true /\ arr_nonneg (data (squeeze_image ex_im1T)) = true /\
    Permutation ex_axes (seq 0 (List.length (shape (squeeze_image ex_im1)))) /\
    axes_permuted ex_axes (squeeze_image ex_im1) (squeeze_image ex_im1T) /\
    Forall (fun s => 1 <= s) (sizes_of (squeeze_image ex_im1) (lp_sep (lp_of V 3 true))).
Proof. exact ex_axes_head_premises. Qed.

Example C09_gen_head_axes_instance :
  ex_im1T = transpose_axes [1; 0]%nat ex_im1 /\
  match py_locate_head fops2 (fun _ _ => 1 # 2) (fun _ => 0%Q) false (ImZ (mkDT false 8) ex_im1)
                       (PyPreproc.PySeq [3; 5]) None None None (PyPreproc.PyScalar 1%Q) None None false 64%Q None false 3 None None true "python"%string,
        py_locate_head fops2 (fun _ _ => 1 # 2) (fun _ => 0%Q) false (ImZ (mkDT false 8) ex_im1T)
                       (PyPreproc.PySeq [5; 3]) None None None (PyPreproc.PyScalar 1%Q) None None false 64%Q None false 3 None None true "python"%string with
  | ROk r1, ROk r2 =>
      PyRefine.of_rows (head_frame r1) = [COMRefine.ref_row (mkOut [234 # 39; 273 # 39]%Q 39 (Some ([28 # 39; 44 # 39]%Q, 9, 39)))] /\
      PyRefine.of_rows (head_frame r2) = [COMRefine.ref_row (mkOut [273 # 39; 234 # 39]%Q 39 (Some ([44 # 39; 28 # 39]%Q, 9, 39)))]
  | _, _ => False
  end.
Proof. split; [reflexivity | exact ex_axes_head_runs]. Qed.

(* ====================================================================================
   TRANSLATION EQUIVARIANCE WITH PREPROCESSING  (added; nothing above is changed)
   Proofs: Proofs/BandpassShift.v (bandpass), Proofs/PreprocessMoved.v (convert_to_int and the generated head).
   Vocabulary (Model/BandpassShift.v, Model/PreprocessMoved.v):
     pasted2 H W oy ox h w g im   the H x W nested list im of exact rationals is a blank (zero) canvas that shows the
                                  content g (extent h x w) at the offset (oy, ox):  im[i][j] == g (i-oy) (j-ox) inside
                                  the box [oy, oy+h) x [ox, ox+w), == 0 elsewhere                 (pasted3: 3-D)
     ghw_of t p, bhw_of p         the half-widths of the two filters of bandpass on one axis:
                                  floor(truncate*lshort + 1/2) (0 when lshort <= 0)  and  (llong - 1) / 2
     paddedb sh off csh ghw bhw   THE PADDING HYPOTHESIS, a boolean on (canvas shape, offset, shape of the content box,
                                  Gaussian half-widths, boxcar half-widths), any number of axes: on every axis
                                  max(ghw, bhw) <= off  and  off + csh + max(ghw, bhw) <= sh
     qmoved2 dy dx H1 W1 a H2 W2 b   b[i+dy][j+dx] == a[i][j] for ALL integers i, j, an index outside an array
                                  reading 0: "b is a, (dy, dx) further, blank elsewhere"           (qmoved3: 3-D)
     bandpass2 / bandpass3        Model/Bandpass.v: the exact model that Properties/C10.v proves to be the documented
                                  filter and equal to the generated Gen/preproc.py_bandpass
     preprocess_stage nexp dt raw noise smooth thr
                                  = py_convert_to_int fops2 (py_bandpass nd2 nexp (raw as float) integer-dtype noise smooth
                                    (Some thr) truncate=4) (DInt dt): the GENERATED bandpass followed by the GENERATED
                                    convert_to_int on 2-D nested lists of rationals -- what locate(preprocess=True) does to
                                    an integer image between the validation and grey_dilation  [(36)]
   ==================================================================================== *)
From TP Require Import Model.Bandpass Model.BandpassSpec Model.BandpassSpec3 Model.BandpassShift Proofs.BandpassShift.
From TP Require Import Model.Dilation Model.COM Model.Equivariance Model.PreprocessMoved Proofs.Dilation Proofs.Equivariance
                       Proofs.PreprocessMoved.
Open Scope Z_scope.

(* (33) bandpass commutes with moving padded content, 2-D: the same content at two offsets in two blank canvases (of
   any two shapes), both padded by at least the reach of both filters: the two bandpassed images have the shapes
   of their inputs and the second is the first one moved by the offset difference, pixel for pixel, the clip at the
   threshold included (any threshold, any truncate >= 0, per-axis lshort / llong). *)
Theorem C09_bandpass_moved_2d :
  forall (H1 W1 H2 W2 : nat) (oy1 ox1 oy2 ox2 h w : Z) (g : Z -> Z -> Q) (truncate : Q) (py px : axis_par) (threshold : Q)
         (im1 im2 out1 out2 : img2),
  (0 <= truncate)%Q -> 1 <= size py -> 1 <= size px ->
  pasted2 H1 W1 oy1 ox1 h w g im1 -> pasted2 H2 W2 oy2 ox2 h w g im2 ->
  paddedb [Z.of_nat H1; Z.of_nat W1] [oy1; ox1] [h; w] [ghw_of truncate py; ghw_of truncate px] [bhw_of py; bhw_of px] = true ->
  paddedb [Z.of_nat H2; Z.of_nat W2] [oy2; ox2] [h; w] [ghw_of truncate py; ghw_of truncate px] [bhw_of py; bhw_of px] = true ->
  bandpass2 truncate py px threshold im1 = Ok out1 -> bandpass2 truncate py px threshold im2 = Ok out2 ->
  rect2 H1 W1 out1 /\ rect2 H2 W2 out2 /\ qmoved2 (oy2 - oy1) (ox2 - ox1) H1 W1 out1 H2 W2 out2.
Proof. exact bandpass2_moved. Qed.
Print Assumptions C09_bandpass_moved_2d.

(* (33b) 3-D (the bandpass model exists for 2 and 3 axes, as numpy images in trackpy do) *)
Theorem C09_bandpass_moved_3d :
  forall (D1 H1 W1 D2 H2 W2 : nat) (oz1 oy1 ox1 oz2 oy2 ox2 d h w : Z) (g : Z -> Z -> Z -> Q) (truncate : Q)
         (pz py px : axis_par) (threshold : Q) (im1 im2 out1 out2 : img3),
  (0 <= truncate)%Q -> 1 <= size pz -> 1 <= size py -> 1 <= size px ->
  pasted3 D1 H1 W1 oz1 oy1 ox1 d h w g im1 -> pasted3 D2 H2 W2 oz2 oy2 ox2 d h w g im2 ->
  paddedb [Z.of_nat D1; Z.of_nat H1; Z.of_nat W1] [oz1; oy1; ox1] [d; h; w]
          [ghw_of truncate pz; ghw_of truncate py; ghw_of truncate px] [bhw_of pz; bhw_of py; bhw_of px] = true ->
  paddedb [Z.of_nat D2; Z.of_nat H2; Z.of_nat W2] [oz2; oy2; ox2] [d; h; w]
          [ghw_of truncate pz; ghw_of truncate py; ghw_of truncate px] [bhw_of pz; bhw_of py; bhw_of px] = true ->
  bandpass3 truncate pz py px threshold im1 = Ok out1 -> bandpass3 truncate pz py px threshold im2 = Ok out2 ->
  rect3 D1 H1 W1 out1 /\ rect3 D2 H2 W2 out2 /\
  qmoved3 (oz2 - oz1) (oy2 - oy1) (ox2 - ox1) D1 H1 W1 out1 D2 H2 W2 out2.
Proof. exact bandpass3_moved. Qed.
Print Assumptions C09_bandpass_moved_3d.

(* (34) the stronger form behind (33): the bandpassed canvas is itself a canvas -- it shows ONE content
   (bp_content2: a function of the kernel parameters, the threshold and the original content only, NOT of the canvas
   shape or the offset) in the box grown by the reach max(ghw, bhw) on every side, and is blank elsewhere. *)
Theorem C09_bandpass_of_canvas_2d :
  forall (H W : nat) (truncate : Q) (py px : axis_par) (threshold : Q) (oy ox h w : Z) (g : Z -> Z -> Q) (im out : img2),
  (0 <= truncate)%Q -> 1 <= size py -> 1 <= size px ->
  pasted2 H W oy ox h w g im ->
  paddedb [Z.of_nat H; Z.of_nat W] [oy; ox] [h; w] [ghw_of truncate py; ghw_of truncate px] [bhw_of py; bhw_of px] = true ->
  bandpass2 truncate py px threshold im = Ok out ->
  pasted2 H W (oy - reach_of truncate py) (ox - reach_of truncate px)
          (h + 2 * reach_of truncate py) (w + 2 * reach_of truncate px)
          (bp_content2 truncate py px threshold h w g) out.
Proof. exact bandpass2_pasted. Qed.
Print Assumptions C09_bandpass_of_canvas_2d.

(* Non-vacuity of (33): lshort (1, 2), truncate 1: Gaussian half-widths (1, 2); llong (5, 7): boxcar half-widths (2, 3).
   A 3 x 4 content at (2, 4) in a 9 x 12 canvas and at (5, 3) in a 10 x 11 canvas satisfies the padding predicate, at (1, 4)
   it does not; a 3-D configuration satisfies it too.  Executed: both bandpassed images exist, pixel (3, 5) of the first
   and (6, 4) of the second are 53334/20160, (3, 8) and (6, 7) are 18666/20160, the corners are blank. *)
Example C09_padding_satisfiable :
  [ghw_of 1 e_py; ghw_of 1 e_px] = [1; 2] /\ [bhw_of e_py; bhw_of e_px] = [2; 3] /\
  paddedb [9; 12] [2; 4] [3; 4] [ghw_of 1 e_py; ghw_of 1 e_px] [bhw_of e_py; bhw_of e_px] = true /\
  paddedb [10; 11] [5; 3] [3; 4] [ghw_of 1 e_py; ghw_of 1 e_px] [bhw_of e_py; bhw_of e_px] = true /\
  paddedb [9; 12] [1; 4] [3; 4] [ghw_of 1 e_py; ghw_of 1 e_px] [bhw_of e_py; bhw_of e_px] = false /\
  paddedb [7; 9; 12] [3; 2; 4] [2; 3; 4] [ghw_of 1 e_py; ghw_of 1 e_py; ghw_of 1 e_px]
          [bhw_of e_py; bhw_of e_py; bhw_of e_px] = true.
Proof. exact ex_padded2. Qed.

Example C09_canvas_is_pasted : forall H W oy ox h w g, pasted2 H W oy ox h w g (canvas2 H W oy ox h w g).
Proof. exact canvas2_pasted. Qed.

Example C09_bandpass_moved_instance :
  exists a b, bandpass2 1 e_py e_px (1 # 2) (canvas2 9 12 2 4 3 4 e_g) = Ok a /\
              bandpass2 1 e_py e_px (1 # 2) (canvas2 10 11 5 3 3 4 e_g) = Ok b /\
              (px2 a 3 5 == 53334 # 20160)%Q /\ (px2 b 6 4 == 53334 # 20160)%Q /\
              (px2 a 3 8 == 18666 # 20160)%Q /\ (px2 b 6 7 == 18666 # 20160)%Q /\ (px2 a 0 1 == 0)%Q /\ (px2 b 3 0 == 0)%Q.
Proof. exact ex_bandpass2_moved. Qed.

(* (35) THE IMAGE HANDED TO grey_dilation / refine_com BY locate(preprocess=True) IS THE MOVED IMAGE (2-D, integer raw image,
   arrays of exact rationals).  An integer content (h x w, blank outside its declared shape) pasted at two offsets into two
   blank canvases, both padded by the reach of bandpass with truncate = 4 (stage_reach = max(floor(4*noise + 1/2),
   (smoothing - 1)/2) per axis); noise_size < smoothing_size, smoothing_size odd (else bandpass refuses), threshold >= 0.
   Then both runs of generated-bandpass ; generated-convert_to_int succeed, with equal scale factors (image.max() is
   the same number: scale_to_gamut depends on the pixel values only, and nothing is negative), and return integer images
   im1, im2 of the canvases' shapes with  moved (offset difference) im1 im2,  non-negative, whose bright pixels lie in the
   content box grown by the reach: [fitsb] on the grown box gives content_inside / content_has_room.  These are the
   premises of (1), (2), (3), (13) -- C09_maxima_moved, C09_refine_moved, C09_locate_discrete_moved,
   C09_locate_whole_moved apply to im1, im2. *)
Theorem C09_preprocess_moved :
  forall (np_exp : Q -> Q) (dt : int_dtype) (content : image) (h w : Z) (ny nx : Q) (sy sx : Z) (threshold : Q),
  shape content = [h; w] -> (forall c, pix content c <> 0 -> in_bounds (shape content) c) ->
  1 <= h -> 1 <= w -> (0 <= threshold)%Q -> 0 <= iinfo_max dt -> 1 <= sy -> 1 <= sx ->
  (ny < inject_Z sy)%Q -> (nx < inject_Z sx)%Q -> Z.odd sy = true -> Z.odd sx = true ->
  forall H1 W1 oy1 ox1 H2 W2 oy2 ox2,
  let T := Gen.preproc.py_bandpass_default_truncate in
  let py := stage_par np_exp ny sy in
  let px := stage_par np_exp nx sx in
  let ry := stage_reach np_exp ny sy in
  let rx := stage_reach np_exp nx sx in
  let csh' := [h + 2 * ry; w + 2 * rx] in
  let d := vsub [oy2; ox2] [oy1; ox1] in
  paddedb [H1; W1] [oy1; ox1] [h; w] [ghw_of T py; ghw_of T px] [bhw_of py; bhw_of px] = true ->
  paddedb [H2; W2] [oy2; ox2] [h; w] [ghw_of T py; ghw_of T px] [bhw_of py; bhw_of px] = true ->
  exists sf1 sf2 im1 im2,
    preprocess_stage np_exp dt (embed [H1; W1] [oy1; ox1] content) [ny; nx] [sy; sx] threshold = ROk (sf1, ImZ dt im1) /\
    preprocess_stage np_exp dt (embed [H2; W2] [oy2; ox2] content) [ny; nx] [sy; sx] threshold = ROk (sf2, ImZ dt im2) /\
    (sf1 == sf2)%Q /\ shape im1 = [H1; W1] /\ shape im2 = [H2; W2] /\
    moved d im1 im2 /\
    (forall p, 0 <= pix im1 p) /\ (forall p, 0 <= pix im2 p) /\
    (forall mg, fitsb [H1; W1] [oy1 - ry; ox1 - rx] csh' mg = true -> content_inside mg im1) /\
    (forall mg, fitsb [H2; W2] [oy2 - ry; ox2 - rx] csh' mg = true -> content_inside mg im2) /\
    (forall P, let m := map (fun r => r + Z.of_nat (pred (iters_of (lp_maxit P)))) (lp_radius P) in
               fitsb [H1; W1] [oy1 - ry; ox1 - rx] csh' m = true -> fitsb [H2; W2] [oy2 - ry; ox2 - rx] csh' m = true ->
               content_has_room P d im1 im2).
Proof. exact preprocess_moved. Qed.
Print Assumptions C09_preprocess_moved.

(* (35b) the form behind (35): both results are canvases of ONE processed content (pre_content: box grown by the reach,
   value trunc(scale_factor * max(bandpassed content, 0))), so every theorem of (3b) about [embed] applies to them *)
Theorem C09_preprocess_of_canvas :
  forall (np_exp : Q -> Q) (dt : int_dtype) (content : image) (h w : Z) (ny nx : Q) (sy sx : Z) (threshold : Q),
  shape content = [h; w] -> (forall c, pix content c <> 0 -> in_bounds (shape content) c) ->
  1 <= h -> 1 <= w -> (0 <= threshold)%Q -> 0 <= iinfo_max dt -> 1 <= sy -> 1 <= sx ->
  (ny < inject_Z sy)%Q -> (nx < inject_Z sx)%Q -> Z.odd sy = true -> Z.odd sx = true ->
  forall H1 W1 oy1 ox1 H2 W2 oy2 ox2,
  let T := Gen.preproc.py_bandpass_default_truncate in
  let py := stage_par np_exp ny sy in
  let px := stage_par np_exp nx sx in
  let ry := stage_reach np_exp ny sy in
  let rx := stage_reach np_exp nx sx in
  paddedb [H1; W1] [oy1; ox1] [h; w] [ghw_of T py; ghw_of T px] [bhw_of py; bhw_of px] = true ->
  paddedb [H2; W2] [oy2; ox2] [h; w] [ghw_of T py; ghw_of T px] [bhw_of py; bhw_of px] = true ->
  exists sf1 sf2,
    let content' := pre_content np_exp sf1 ny nx sy sx threshold content in
    preprocess_stage np_exp dt (embed [H1; W1] [oy1; ox1] content) [ny; nx] [sy; sx] threshold =
      ROk (sf1, ImZ dt (embed [H1; W1] [oy1 - ry; ox1 - rx] content')) /\
    preprocess_stage np_exp dt (embed [H2; W2] [oy2; ox2] content) [ny; nx] [sy; sx] threshold =
      ROk (sf2, ImZ dt (embed [H2; W2] [oy2 - ry; ox2 - rx] content')) /\
    (sf1 == sf2)%Q /\
    shape content' = [h + 2 * ry; w + 2 * rx] /\
    (forall c, pix content' c <> 0 -> in_bounds (shape content') c) /\
    (forall c, 0 <= pix content' c) /\
    fitsb [H1; W1] [oy1 - ry; ox1 - rx] (shape content') [0; 0] = true /\
    fitsb [H2; W2] [oy2 - ry; ox2 - rx] (shape content') [0; 0] = true.
Proof. exact preprocess_stage_embed. Qed.
Print Assumptions C09_preprocess_of_canvas.

(* (36) the GENERATED head of locate with preprocess=True, invert=False on an integer image (arrays: fops2) is the
   validation, then preprocess_stage on the squeezed image with the validated noise_size / smoothing_size and the threshold
   (default 1 for an integer image), then head_after: grey_dilation on the processed image, refine_com on (raw, processed). *)
Theorem C09_gen_head_runs_preprocess_stage :
  forall np_percentile np_exp NUMBA_AVAILABLE dt raw0 diameter minmass maxsize separation noise_size smoothing_size threshold
         percentile topn max_iterations filter_after characterize engine,
  let raw := squeeze_image raw0 in
  py_locate_head fops2 np_percentile np_exp NUMBA_AVAILABLE (ImZ dt raw0) diameter minmass maxsize separation noise_size
                 smoothing_size threshold false percentile topn true max_iterations None filter_after characterize engine =
  rbind (locate_args (List.length (shape raw)) diameter maxsize separation smoothing_size noise_size) (fun V =>
  rbind (preprocess_stage np_exp dt raw (a_noise V) (a_smooth V) (match threshold with Some t => t | None => 1%Q end))
        (head_after np_percentile NUMBA_AVAILABLE dt raw V minmass maxsize topn percentile max_iterations characterize engine)).
Proof. exact gen_head_preprocess_stage. Qed.
Print Assumptions C09_gen_head_runs_preprocess_stage.

(* (37) (26) WITH PREPROCESSING: the generated head, preprocess=True, python engine, on the same integer content at two
   places (premises of (35); the grown content box keeps the margin and radius + max_iterations - 1 from the edges of both
   canvases): both runs succeed; the maxima found are the moved maxima; the rows of the two frames refine_com returns
   (computed on the processed image, raw_mass on the raw image) correspond one to one, every position moved by exactly the
   offset difference and mass, size(s), signal, raw_mass identical.
   PARTIAL with respect to locate's final table: the tail (where_close / minmass / maxsize / topn, static error) is not
   composed here -- (13) C09_locate_whole_moved covers it for the rows of the processed image under no_tie, with raw = image;
   a tail theorem for rows whose raw_mass comes from a second image is not proved.  Also not covered: float raw images
   (img_as_int raises in the integer refinement model), engine='numba', 3-D for the convert_to_int step (fops2 is 2-D; the
   bandpass step is (33b)), and the correspondence of exact rationals to float64 rounding (harness). *)
Theorem C09_gen_head_preprocess_moved_partial :
  forall (np_percentile : list Z -> Q -> Q) (np_exp : Q -> Q) NUMBA_AVAILABLE percentile,
  (forall l l', Permutation l l' -> np_percentile l percentile = np_percentile l' percentile) ->
  (forall l, (forall v, In v l -> 0 <= v) -> (0 <= np_percentile l percentile)%Q) ->
  forall dt content h w H1 W1 oy1 ox1 H2 W2 oy2 ox2 raw01 raw02 diameter minmass maxsize separation noise_size smoothing_size
         threshold topn max_iterations filter_after characterize engine V ny nx sy sx,
  let thr := match threshold with Some t => t | None => 1%Q end in
  let T := Gen.preproc.py_bandpass_default_truncate in
  let py := stage_par np_exp ny sy in
  let px := stage_par np_exp nx sx in
  let ry := stage_reach np_exp ny sy in
  let rx := stage_reach np_exp nx sx in
  let csh' := [h + 2 * ry; w + 2 * rx] in
  let d := vsub [oy2; ox2] [oy1; ox1] in
  let P := lp_of V max_iterations characterize in
  let m := map (fun r => r + Z.of_nat (pred (iters_of max_iterations))) (lp_radius P) in
  shape content = [h; w] -> (forall c, pix content c <> 0 -> in_bounds (shape content) c) ->
  1 <= h -> 1 <= w -> (0 <= thr)%Q -> 0 <= iinfo_max dt -> 1 <= sy -> 1 <= sx ->
  (ny < inject_Z sy)%Q -> (nx < inject_Z sx)%Q -> Z.odd sy = true -> Z.odd sx = true ->
  squeeze_image raw01 = embed [H1; W1] [oy1; ox1] content -> squeeze_image raw02 = embed [H2; W2] [oy2; ox2] content ->
  locate_args 2 diameter maxsize separation smoothing_size noise_size = ROk V ->
  a_noise V = [ny; nx] -> a_smooth V = [sy; sx] -> List.length (a_sep V) = 2%nat ->
  Forall (fun s => (0 <= s)%Q) (a_sep V) -> Forall (fun s => 1 <= s) (map (box_size 2) (a_sep V)) ->
  py_engine NUMBA_AVAILABLE 2 engine ->
  paddedb [H1; W1] [oy1; ox1] [h; w] [ghw_of T py; ghw_of T px] [bhw_of py; bhw_of px] = true ->
  paddedb [H2; W2] [oy2; ox2] [h; w] [ghw_of T py; ghw_of T px] [bhw_of py; bhw_of px] = true ->
  fitsb [H1; W1] [oy1 - ry; ox1 - rx] csh' (lp_margin P) = true -> fitsb [H2; W2] [oy2 - ry; ox2 - rx] csh' (lp_margin P) = true ->
  fitsb [H1; W1] [oy1 - ry; ox1 - rx] csh' m = true -> fitsb [H2; W2] [oy2 - ry; ox2 - rx] csh' m = true ->
  exists r1 r2 outs1 outs2 rows,
    py_locate_head fops2 np_percentile np_exp NUMBA_AVAILABLE (ImZ dt raw01) diameter minmass maxsize separation noise_size
                   smoothing_size threshold false percentile topn true max_iterations None filter_after characterize engine = ROk r1 /\
    py_locate_head fops2 np_percentile np_exp NUMBA_AVAILABLE (ImZ dt raw02) diameter minmass maxsize separation noise_size
                   smoothing_size threshold false percentile topn true max_iterations None filter_after characterize engine = ROk r2 /\
    PyRefine.of_rows (head_frame r1) = map COMRefine.ref_row outs1 /\
    PyRefine.of_rows (head_frame r2) = map COMRefine.ref_row outs2 /\
    Permutation outs2 rows /\ Forall2 (row_moved d) outs1 rows /\
    Permutation (head_coords r2) (map (fun p => vadd p d) (head_coords r1)).
Proof. exact gen_head_preprocess_moved. Qed.
Print Assumptions C09_gen_head_preprocess_moved_partial.

(* Non-vacuity of (35): the 5 x 5 blob of the examples above, noise_size 1, smoothing_size 5, threshold 1/10 and a stand-in
   for np.exp (q |-> 1/(1-q)): truncate = 4 gives the reach 4; the canvases ex_im1 = embed [14;15] [4;5] and
   ex_im2 = embed [16;14] [7;4] of (1)-(3) satisfy the padding predicate.  Executed: equal scale factors; the brightest
   pixel (255) at (6, 7) resp. (9, 6), the ring of the stand-in kernel at (2, 7) / (5, 6) and (1, 6) / (4, 5), zero between. *)
Example C09_preprocess_premises_satisfiable :
  let T := Gen.preproc.py_bandpass_default_truncate in
  let p := stage_par ex_nexp 1 5 in
  shape ex_content = [5; 5] /\ (forall c, pix ex_content c <> 0 -> in_bounds (shape ex_content) c) /\
  (0 <= 1 # 10)%Q /\ 0 <= iinfo_max (mkDT false 8) /\ (1 < inject_Z 5)%Q /\ Z.odd 5 = true /\
  stage_reach ex_nexp 1 5 = 4 /\
  paddedb [14; 15] [4; 5] [5; 5] [ghw_of T p; ghw_of T p] [bhw_of p; bhw_of p] = true /\
  paddedb [16; 14] [7; 4] [5; 5] [ghw_of T p; ghw_of T p] [bhw_of p; bhw_of p] = true.
Proof. exact ex_pre_premises. Qed.

Example C09_preprocess_instance :
  ex_im1 = embed [14; 15] [4; 5] ex_content /\ ex_im2 = embed [16; 14] [7; 4] ex_content /\
  match preprocess_stage ex_nexp (mkDT false 8) ex_im1 [1; 1]%Q [5; 5] (1 # 10),
        preprocess_stage ex_nexp (mkDT false 8) ex_im2 [1; 1]%Q [5; 5] (1 # 10) with
  | ROk (sf1, ImZ _ im1), ROk (sf2, ImZ _ im2) =>
      sf1 = (803409375 # 1596200)%Q /\ sf2 = sf1 /\ shape im1 = [14; 15] /\ shape im2 = [16; 14] /\
      pix im1 [6; 7] = 255 /\ pix im2 [9; 6] = 255 /\ pix im1 [2; 7] = 172 /\ pix im2 [5; 6] = 172 /\
      pix im1 [1; 6] = 54 /\ pix im2 [4; 5] = 54 /\ pix im1 [6; 6] = 0 /\ pix im2 [9; 5] = 0
  | _, _ => False
  end.
Proof. split; [reflexivity|]. split; [reflexivity|]. exact ex_pre_runs. Qed.

(* ====================================================================================
   TRANSLATION EQUIVARIANCE WITH PREPROCESSING, THE WHOLE locate  (added; nothing above is changed)
   Model: Model/LocateWhole2.v.  Proofs: Proofs/LocateWhole2.v (tail for two images, measure_noise, the model of the whole
   pipeline), Proofs/LocatePreGen.v (the GENERATED py_locate with preprocess=True).
     gtail pass mass sep topn table      the tail of (13)-(16) with the filter [pass] and the column [mass] of the topn step as
                                         parameters: topn (filter pass (table minus where_close's rows)); tail_out is the instance
                                         (pass_out T, out_mass)
     fin_row sqrtf sf o                  the columns of locate's table the tail reads, for the row o of refine_com's table:
                                         position, mass / scale_factor, size = sqrt(Rg^2), raw_mass   (LocateTail.scale, LocatePipe.row_of)
     tail_sf sqrtf sep T sf table        = gtail (mass / sf > minmass [& size < maxsize]) (mass / sf) sep topn table:
                                         where_close on the masses BEFORE rescaling, filters and topn AFTER, as the code does.
                                         T = (t_minmass, t_maxsize, t_topn), t_maxsize = maxsize itself here
     no_tie_sf sqrtf sep T sf table      the boolean of (13): no two rows closer than separation have equal mass, and, when topn
                                         is given, no two rows that reach the topn step have equal mass / sf
     ep_of sqrtf radius noise_size ch im raw r
                                         the ep column(s) of the kept row r (LocateTail.ep_row, the C08 model of _static_error),
                                         black_level / noise = LocatePipe.measure_noise sqrtf im raw radius: the BACKGROUND pixels are
                                         those of the PROCESSED image im (zero on the whole mask neighbourhood), the VALUES averaged
                                         are those of the RAW image
     wline = (output, row, list fval)    one line of the final table: refine_com's row (all columns: position, mass before rescaling,
                                         size(s)^2, signal, raw_mass), fin_row of it, its ep entries
     whole_table sqrtf sep T sf radius noise_size ch im raw table   the final table computed from refine_com's table
     refine_rows2 percentile P raw im    refine_com(raw, im) at the maxima of im (the rows of (37))
     locate_pre_whole sqrtf percentile np_exp dt P T noise_size smoothing_size threshold raw
                                         = preprocess_stage ; refine_rows2 ; whole_table: the model of locate(preprocess=True) on a 2-D
                                         integer image after the validation of the arguments; returns (scale_factor, table)
     wline_moved d a b                   refine_com's row moved by d with every other column identical (row_moved), position column moved,
                                         mass / sf the same number (==), size and raw_mass identical
     wline_moved_ep d a b                wline_moved, and the ep entries equal as float64 values (NaN = NaN, rationals ==)
     dline_moved / dline_moved_ep        the same on the lines of the generated table (dframe: position columns, mass, size, raw_mass, ep)
   ==================================================================================== *)
From TP Require Import Model.LocateWhole2 Proofs.LocateWhole2 Proofs.LocatePreGen.
Open Scope Z_scope.

(* (38) THE TAIL STEP FOR TWO IMAGES.  Two tables of refine rows -- from ANY source: the raw_mass column may have been measured on
   a second image -- that correspond one to one (second table up to its row order), positions moved by d and every other column
   identical; two scale factors that are the same number; no tie in the first table.  Then the tables after where_close,
   mass /= scale_factor, minmass / maxsize and topn correspond one to one in the same way.  (13) is the case sf = 1, raw = image. *)
Theorem C09_tail_two_images_moved :
  forall (sqrtf : Q -> Q) d sep T sf1 sf2 table1 table2 rows,
    (sf1 == sf2)%Q ->
    no_tie_sf sqrtf sep T sf1 table1 = true -> Permutation table2 rows -> Forall2 (row_moved d) table1 rows ->
    exists rows', Permutation (tail_sf sqrtf sep T sf2 table2) rows' /\
                  Forall2 (row_moved d) (tail_sf sqrtf sep T sf1 table1) rows'.
Proof. exact tail_sf_moved. Qed.
Print Assumptions C09_tail_two_images_moved.

(* (38b) the abstract form: any row relation R that preserves the mass, the filter, the topn column and closeness *)
Theorem C09_tail_equivariant_general :
  forall (R : output -> output -> Prop) sep sep' topn passA passB massA massB,
  (forall a b, R a b -> o_mass b = o_mass a) ->
  (forall a b, R a b -> passB b = passA a) ->
  (forall a b, R a b -> (massB b == massA a)%Q) ->
  (forall a b a' b', R a b -> R a' b' -> close sep' (o_pos b) (o_pos b') = close sep (o_pos a) (o_pos a')) ->
  forallb (Qltb 0) sep' = forallb (Qltb 0) sep ->
  forall table1 table2 rows,
    no_tie_g passA massA sep topn table1 = true -> Permutation table2 rows -> Forall2 R table1 rows ->
    exists rows', Permutation (gtail passB massB sep' topn table2) rows' /\
                  Forall2 R (gtail passA massA sep topn table1) rows'.
Proof. exact gtail_equivariant. Qed.
Print Assumptions C09_tail_equivariant_general.

(* (39) WHAT measure_noise SEES.  Processed images im1, im2 and raw images raw1, raw2, both pairs moved by d; every bright pixel of
   the processed image keeps the mask radius from the edges of both canvases; the raw images are blank outside their shapes.  If the
   two canvases have the SAME NUMBER of pixels, the raw values on the background (LocatePipe.background: processed image zero on the
   whole mask neighbourhood) are the same multiset -- hence the same black_level (mean) and noise (standard deviation).  With
   different numbers of pixels the blank part of the background has a different size and mean and deviation change
   (C09_preprocess_whole_instance below shows it happen). *)
Theorem C09_background_values_moved :
  forall d radius im1 im2 raw1 raw2,
    List.length d = List.length radius -> List.length (shape im1) = List.length radius ->
    moved d im1 im2 -> moved d raw1 raw2 -> List.length (shape raw1) = List.length radius ->
    (forall p, pix im1 p <> 0 -> room radius (shape im1) 0 p /\ room radius (shape im2) 0 (vadd p d)) ->
    (forall p, pix raw1 p <> 0 -> in_bounds (shape im1) p) -> (forall p, pix raw2 p <> 0 -> in_bounds (shape im2) p) ->
    List.length (coords (shape im1)) = List.length (coords (shape im2)) ->
    Permutation (map (pix raw1) (LocatePipe.background im1 radius)) (map (pix raw2) (LocatePipe.background im2 radius)).
Proof. exact background_values_moved. Qed.
Print Assumptions C09_background_values_moved.

(* (40) THE WHOLE locate WITH preprocess=True MOVES WITH THE CONTENT (model: locate_pre_whole).  Premises of (35) / (37): an integer
   content (h x w) pasted at two offsets into two blank canvases, both padded by the reach of bandpass; the grown content box keeps
   the margin and radius + max_iterations - 1 from the edges of both canvases; per-axis parameters of length 2; no tie in refine_com's
   table of the FIRST run (a boolean computed from that run).  Then both runs succeed, with scale factors that are the same number,
   and the two final tables correspond one to one (second table up to its row order):
     * every position moved by exactly the offset difference d;
     * mass (before rescaling), size(s), signal, raw_mass IDENTICAL; mass / scale_factor the same number;
     * ep: equal as float64 values PROVIDED the two canvases have the same number of pixels H1 * W1 = H2 * W2 (in particular: equal
       shapes) and np.sqrt is a function of the value of its argument.  Without that proviso ep is NOT invariant: measure_noise averages
       the raw image over the background of the processed image, blank canvas included, so black_level = (sum of the non-blank
       background) / (number of background pixels) depends on the canvas size.
   threshold >= 0 is inherited from (35); (43) below replaces it by 'each canvas has a pixel outside the grown content box'.
   Not covered: float raw images, engine='numba', 3-D (the convert_to_int step is 2-D), float64 rounding. *)
Theorem C09_locate_preprocess_whole_moved :
  forall (sqrtf : Q -> Q) (percentile : list Z -> Q),
    (forall l l', Permutation l l' -> percentile l = percentile l') ->
    (forall l, (forall v, In v l -> 0 <= v) -> (0 <= percentile l)%Q) ->
  forall np_exp dt content h w H1 W1 oy1 ox1 H2 W2 oy2 ox2 (P : Equivariance.lparams) (T : tparams) ny nx sy sx threshold,
  let Tr := Gen.preproc.py_bandpass_default_truncate in
  let py := stage_par np_exp ny sy in
  let px := stage_par np_exp nx sx in
  let ry := stage_reach np_exp ny sy in
  let rx := stage_reach np_exp nx sx in
  let csh' := [h + 2 * ry; w + 2 * rx] in
  let d := vsub [oy2; ox2] [oy1; ox1] in
  let m := map (fun r => r + Z.of_nat (pred (iters_of (lp_maxit P)))) (lp_radius P) in
  let raw1 := embed [H1; W1] [oy1; ox1] content in
  let raw2 := embed [H2; W2] [oy2; ox2] content in
  shape content = [h; w] -> (forall c, pix content c <> 0 -> in_bounds (shape content) c) ->
  1 <= h -> 1 <= w -> (0 <= threshold)%Q -> 0 <= iinfo_max dt -> 1 <= sy -> 1 <= sx ->
  (ny < inject_Z sy)%Q -> (nx < inject_Z sx)%Q -> Z.odd sy = true -> Z.odd sx = true ->
  List.length (lp_sep P) = 2%nat -> List.length (lp_margin P) = 2%nat -> List.length (lp_radius P) = 2%nat ->
  Forall (fun s => 1 <= s) (map (box_size 2) (lp_sep P)) ->
  paddedb [H1; W1] [oy1; ox1] [h; w] [ghw_of Tr py; ghw_of Tr px] [bhw_of py; bhw_of px] = true ->
  paddedb [H2; W2] [oy2; ox2] [h; w] [ghw_of Tr py; ghw_of Tr px] [bhw_of py; bhw_of px] = true ->
  fitsb [H1; W1] [oy1 - ry; ox1 - rx] csh' (lp_margin P) = true -> fitsb [H2; W2] [oy2 - ry; ox2 - rx] csh' (lp_margin P) = true ->
  fitsb [H1; W1] [oy1 - ry; ox1 - rx] csh' m = true -> fitsb [H2; W2] [oy2 - ry; ox2 - rx] csh' m = true ->
  (forall sf im, preprocess_stage np_exp dt raw1 [ny; nx] [sy; sx] threshold = ROk (sf, ImZ dt im) ->
                 no_tie_sf sqrtf (lp_sep P) T sf (refine_rows2 percentile P raw1 im) = true) ->
  exists sf1 sf2 table1 table2 rows,
    locate_pre_whole sqrtf percentile np_exp dt P T [ny; nx] [sy; sx] threshold raw1 = ROk (sf1, table1) /\
    locate_pre_whole sqrtf percentile np_exp dt P T [ny; nx] [sy; sx] threshold raw2 = ROk (sf2, table2) /\
    (sf1 == sf2)%Q /\
    Permutation table2 rows /\ Forall2 (wline_moved d) table1 rows /\
    (H1 * W1 = H2 * W2 -> (forall a b, (a == b)%Q -> (sqrtf a == sqrtf b)%Q) -> Forall2 (wline_moved_ep d) table1 rows).
Proof. exact locate_pre_whole_moved. Qed.
Print Assumptions C09_locate_preprocess_whole_moved.

(* (41) THE MODEL OF (40) IS WHAT THE GENERATED CODE COMPUTES.
   (a) the generated whole locate (generated head ; generated tail) with preprocess=True, invert=False, python engine, on a 2-D integer
       image whose preprocess_stage returns (sf, im): it returns exactly Proofs/TailGen.tail_result -- the C08 selection
       LocateTail.select on LocateTail.candidates with the columns of StaticError.locate_ep, proved equal to Gen/tail.py_locate_tail for
       ALL inputs in C08 -- with the scale factor sf, measure_noise on (im, raw) and the rows of refine_com(raw, im);
   (b) the table of the C08 tail model on those rows is whole_table column by column (index labels aside). *)
Theorem C09_gen_locate_preprocess_is_tail_result :
  forall np_percentile np_exp NUMBA_AVAILABLE sqrtf frame_no dt raw0 diameter minmass maxsize separation noise_size smoothing_size threshold
         percentile topn max_iterations filter_after characterize engine V sf im,
  let raw := squeeze_image raw0 in
  let thr := match threshold with Some t => t | None => 1%Q end in
  let radius := radius_of (a_diameter V) in
  List.length (shape raw) = 2%nat -> List.length (shape im) = 2%nat ->
  locate_args 2 diameter maxsize separation smoothing_size noise_size = ROk V ->
  preprocess_stage np_exp dt raw (a_noise V) (a_smooth V) thr = ROk (sf, ImZ dt im) ->
  Forall (fun s => (0 <= s)%Q) (a_sep V) ->
  py_engine NUMBA_AVAILABLE 2 engine ->
  py_locate fops2 np_percentile np_exp NUMBA_AVAILABLE sqrtf frame_no (ImZ dt raw0) diameter minmass maxsize separation noise_size
            smoothing_size threshold false percentile topn true max_iterations None filter_after characterize engine =
  Proofs.TailGen.tail_result sqrtf (PyRefine.default_pos_columns 2) characterize (characterize && isotropic radius) (a_sep V) sf
              (match minmass with Some m => m | None => 0%Q end) maxsize topn im raw frame_no radius (a_noise V)
              (map (LocatePipe.row_of sqrtf)
                   (refine_rows2 (fun l => np_percentile l percentile) (lp_of V max_iterations characterize) raw im)).
Proof. exact gen_locate_pre_eq. Qed.
Print Assumptions C09_gen_locate_preprocess_is_tail_result.

Theorem C09_tail_model_is_whole_table :
  forall sqrtf sep sf minmass maxsize topn im raw radius noise_size characterize table,
  map unlabel (LocateTail.tail (Proofs.TailGen.tail_P sqrtf sep sf minmass maxsize topn im raw radius noise_size characterize)
                               (map (LocatePipe.row_of sqrtf) table)) =
  map wl_cols (whole_table sqrtf sep (mkTP minmass maxsize topn) sf radius noise_size characterize im raw table).
Proof. exact tail_is_whole_table. Qed.
Print Assumptions C09_tail_model_is_whole_table.

(* (42) (40) FOR THE GENERATED locate: premises of (37), maxsize only with characterize=True (else locate raises KeyError 'size'),
   no tie in refine_com's table of the first run.  Both calls of the generated locate(preprocess=True) return a table; the lines of
   the second (index labels aside, up to the row order) are the lines of the first with the position columns moved by exactly the offset
   difference, mass the same number, size and raw_mass identical; and the ep columns equal as float64 values when the canvases have the
   same number of pixels.  (ecc and signal are not columns of the dframe model; (40) has them.) *)
Theorem C09_gen_locate_preprocess_moved :
  forall (np_percentile : list Z -> Q -> Q) (np_exp : Q -> Q) NUMBA_AVAILABLE (sqrtf : Q -> Q) percentile,
  (forall l l', Permutation l l' -> np_percentile l percentile = np_percentile l' percentile) ->
  (forall l, (forall v, In v l -> 0 <= v) -> (0 <= np_percentile l percentile)%Q) ->
  forall frame_no1 frame_no2 dt content h w H1 W1 oy1 ox1 H2 W2 oy2 ox2 raw01 raw02 diameter minmass maxsize separation noise_size
         smoothing_size threshold topn max_iterations filter_after characterize engine V ny nx sy sx,
  let thr := match threshold with Some t => t | None => 1%Q end in
  let Tr := Gen.preproc.py_bandpass_default_truncate in
  let py := stage_par np_exp ny sy in
  let px := stage_par np_exp nx sx in
  let ry := stage_reach np_exp ny sy in
  let rx := stage_reach np_exp nx sx in
  let csh' := [h + 2 * ry; w + 2 * rx] in
  let d := vsub [oy2; ox2] [oy1; ox1] in
  let P := lp_of V max_iterations characterize in
  let T := mkTP (match minmass with Some m => m | None => 0%Q end) maxsize topn in
  let m := map (fun r => r + Z.of_nat (pred (iters_of max_iterations))) (lp_radius P) in
  shape content = [h; w] -> (forall c, pix content c <> 0 -> in_bounds (shape content) c) ->
  1 <= h -> 1 <= w -> (0 <= thr)%Q -> 0 <= iinfo_max dt -> 1 <= sy -> 1 <= sx ->
  (ny < inject_Z sy)%Q -> (nx < inject_Z sx)%Q -> Z.odd sy = true -> Z.odd sx = true ->
  squeeze_image raw01 = embed [H1; W1] [oy1; ox1] content -> squeeze_image raw02 = embed [H2; W2] [oy2; ox2] content ->
  locate_args 2 diameter maxsize separation smoothing_size noise_size = ROk V ->
  a_noise V = [ny; nx] -> a_smooth V = [sy; sx] -> List.length (a_sep V) = 2%nat ->
  Forall (fun s => (0 <= s)%Q) (a_sep V) -> Forall (fun s => 1 <= s) (map (box_size 2) (a_sep V)) ->
  py_engine NUMBA_AVAILABLE 2 engine ->
  maxsize = None \/ characterize = true ->
  paddedb [H1; W1] [oy1; ox1] [h; w] [ghw_of Tr py; ghw_of Tr px] [bhw_of py; bhw_of px] = true ->
  paddedb [H2; W2] [oy2; ox2] [h; w] [ghw_of Tr py; ghw_of Tr px] [bhw_of py; bhw_of px] = true ->
  fitsb [H1; W1] [oy1 - ry; ox1 - rx] csh' (lp_margin P) = true -> fitsb [H2; W2] [oy2 - ry; ox2 - rx] csh' (lp_margin P) = true ->
  fitsb [H1; W1] [oy1 - ry; ox1 - rx] csh' m = true -> fitsb [H2; W2] [oy2 - ry; ox2 - rx] csh' m = true ->
  (forall sf im, preprocess_stage np_exp dt (embed [H1; W1] [oy1; ox1] content) [ny; nx] [sy; sx] thr = ROk (sf, ImZ dt im) ->
                 no_tie_sf sqrtf (a_sep V) T sf
                           (refine_rows2 (fun l => np_percentile l percentile) P (embed [H1; W1] [oy1; ox1] content) im) = true) ->
  exists d1 d2 lines,
    py_locate fops2 np_percentile np_exp NUMBA_AVAILABLE sqrtf frame_no1 (ImZ dt raw01) diameter minmass maxsize separation noise_size
              smoothing_size threshold false percentile topn true max_iterations None filter_after characterize engine = ROk d1 /\
    py_locate fops2 np_percentile np_exp NUMBA_AVAILABLE sqrtf frame_no2 (ImZ dt raw02) diameter minmass maxsize separation noise_size
              smoothing_size threshold false percentile topn true max_iterations None filter_after characterize engine = ROk d2 /\
    Permutation (map unlabel (df_lines d2)) lines /\
    Forall2 (dline_moved d) (map unlabel (df_lines d1)) lines /\
    (H1 * W1 = H2 * W2 -> (forall a b, (a == b)%Q -> (sqrtf a == sqrtf b)%Q) ->
     Forall2 (dline_moved_ep d) (map unlabel (df_lines d1)) lines).
Proof. exact gen_locate_preprocess_moved. Qed.
Print Assumptions C09_gen_locate_preprocess_moved.

(* Non-vacuity of (40), (42): the 5 x 5 blob and, six columns to its right, one pixel of brightness 1 that the bandpass threshold
   (1/10) removes from the processed image -- it is background with the raw value 1.  noise_size 1, smoothing_size 5 (reach 4),
   diameter 3, separation 4, margin 2, max_iterations 3.  Canvases 20 x 30 (content at (7, 8)) and 24 x 25 (content at (8, 7)): 600
   pixels each, different shapes.  Every premise holds, no_tie and the proviso of the ep part included (xsqrt: a stand-in for np.sqrt
   that respects ==). *)
Example C09_preprocess_whole_premises_satisfiable :
  let Tr := Gen.preproc.py_bandpass_default_truncate in
  let p := stage_par ex_nexp 1 5 in
  shape ycontent = [5; 11] /\ (forall c, pix ycontent c <> 0 -> in_bounds (shape ycontent) c) /\
  (0 <= 1 # 10)%Q /\ 0 <= iinfo_max (mkDT false 8) /\ (1 < inject_Z 5)%Q /\ Z.odd 5 = true /\
  stage_reach ex_nexp 1 5 = 4 /\
  List.length (lp_sep yP) = 2%nat /\ List.length (lp_margin yP) = 2%nat /\ List.length (lp_radius yP) = 2%nat /\
  Forall (fun s => 1 <= s) (map (box_size 2) (lp_sep yP)) /\
  paddedb [20; 30] [7; 8] [5; 11] [ghw_of Tr p; ghw_of Tr p] [bhw_of p; bhw_of p] = true /\
  paddedb [24; 25] [8; 7] [5; 11] [ghw_of Tr p; ghw_of Tr p] [bhw_of p; bhw_of p] = true /\
  fitsb [20; 30] [7 - 4; 8 - 4] [5 + 2 * 4; 11 + 2 * 4] (lp_margin yP) = true /\
  fitsb [24; 25] [8 - 4; 7 - 4] [5 + 2 * 4; 11 + 2 * 4] (lp_margin yP) = true /\
  fitsb [20; 30] [7 - 4; 8 - 4] [5 + 2 * 4; 11 + 2 * 4]
        (map (fun r => r + Z.of_nat (pred (iters_of (lp_maxit yP)))) (lp_radius yP)) = true /\
  fitsb [24; 25] [8 - 4; 7 - 4] [5 + 2 * 4; 11 + 2 * 4]
        (map (fun r => r + Z.of_nat (pred (iters_of (lp_maxit yP)))) (lp_radius yP)) = true /\
  (forall sf im, preprocess_stage ex_nexp (mkDT false 8) yr1 [1; 1]%Q [5; 5] (1 # 10) = ROk (sf, ImZ (mkDT false 8) im) ->
                 no_tie_sf xsqrt (lp_sep yP) yT sf (refine_rows2 ex_percentile yP yr1 im) = true) /\
  20 * 30 = 24 * 25 /\ (forall a b, (a == b)%Q -> (xsqrt a == xsqrt b)%Q).
Proof. exact ex_pre_whole_premises. Qed.

Example C09_gen_preprocess_premises_satisfiable :
  exists V, locate_args 2 (PyPreproc.PyScalar 3) None None (Some (PyPreproc.PyScalar 5)) (PyPreproc.PyScalar 1%Q) = ROk V /\
            a_noise V = [1; 1]%Q /\ a_smooth V = [5; 5] /\ lp_of V 3 true = yP /\
            Forall (fun s => (0 <= s)%Q) (a_sep V) /\ py_engine false 2 "python"%string /\
            squeeze_image yr1 = yr1 /\ squeeze_image yr2 = yr2.
Proof. exact ex_pre_gen_premises. Qed.

(* Executed (the GENERATED locate, preprocess=True): five features on each of the two 600-pixel canvases, every position moved by
   (1, -1), mass / scale_factor, raw_mass and ep identical (ep is NaN where raw_mass - Npx * black_level is negative).  On a THIRD
   canvas, 22 x 25 = 550 pixels, content at (8, 7) as in the second: the same positions, masses and raw masses as the second, but
   ANOTHER ep for the feature that has one: black_level = 25 / (number of background pixels). *)
Example C09_preprocess_whole_instance :
  yr1 = embed [20; 30] [7; 8] ycontent /\ yr2 = embed [24; 25] [8; 7] ycontent /\ yr3 = embed [22; 25] [8; 7] ycontent /\
  (forall raw, yrun raw =
     py_locate fops2 (fun _ _ => 1 # 2)%Q ex_nexp false xsqrt None (ImZ (mkDT false 8) raw)
               (PyPreproc.PyScalar 3) None None None (PyPreproc.PyScalar 1%Q) (Some (PyPreproc.PyScalar 5)) (Some (1 # 10)%Q)
               false 64%Q None true 3 None None true "python"%string) /\
  (forall d, yshow d = map (fun x => (r_pos (snd (fst x)), r_mass (snd (fst x)), r_raw (snd (fst x)), snd x)) (df_lines d)) /\
  match yrun yr1, yrun yr2, yrun yr3 with
  | ROk d1, ROk d2, ROk d3 =>
      yshow d1 = [([2514 # 516; 5160 # 516], 823639200 # 803409375, 0, [FNaN]);
                  ([4644 # 516; 3030 # 516], 823639200 # 803409375, 0, [FNaN]);
                  ([2295 # 255; 2550 # 255], 407031000 # 803409375, 37, [FVal (3166155 # 183380000)]);
                  ([4806 # 534; 7549 # 534], 852370800 # 803409375, 0, [FNaN]);
                  ([6774 # 516; 5160 # 516], 823639200 # 803409375, 0, [FNaN])]%Q /\
      yshow d2 = [([3030 # 516; 4644 # 516], 823639200 # 803409375, 0, [FNaN]);
                  ([5160 # 516; 2514 # 516], 823639200 # 803409375, 0, [FNaN]);
                  ([2550 # 255; 2295 # 255], 407031000 # 803409375, 37, [FVal (3166155 # 183380000)]);
                  ([5340 # 534; 7015 # 534], 852370800 # 803409375, 0, [FNaN]);
                  ([7290 # 516; 4644 # 516], 823639200 # 803409375, 0, [FNaN])]%Q /\
      map (fun l => (fst (fst (fst l)), snd (fst (fst l)), snd (fst l))) (yshow d3) =
      map (fun l => (fst (fst (fst l)), snd (fst (fst l)), snd (fst l))) (yshow d2) /\
      map snd (yshow d3) = [[FNaN]; [FNaN]; [FVal (3038832 # 164880000)%Q]; [FNaN]; [FNaN]] /\
      ~ (3038832 # 164880000 == 3166155 # 183380000)%Q
  | _, _, _ => False
  end.
Proof. do 3 (split; [reflexivity|]). split; [intro; reflexivity|]. split; [intro; reflexivity|]. exact ex_pre_whole_runs. Qed.

(* ------------------------------------------------------------------------------------
   (43) WITHOUT THE RESTRICTION threshold >= 0  (Proofs/PreprocessMoved2.v).  In (35) the non-negative threshold serves image.max() in
   convert_to_int -- with a negative threshold the bandpassed content may be negative everywhere, and then the maximum is 0 exactly when
   the canvas has a pixel outside the grown content box -- and the sign of the scale factor iinfo.max / image.max().  Both follow as well
   from:  EACH canvas has a pixel outside the content box grown by the filter reach  (h + 2 ry < H  or  w + 2 rx < W).  The negative pixels
   a negative threshold lets through are removed by convert_to_int's clip at 0.  (35), (40), (42) with that premise in place of
   threshold >= 0, ANY threshold: *)
Theorem C09_preprocess_moved_any_threshold :
  forall (np_exp : Q -> Q) (dt : int_dtype) (content : image) (h w : Z) (ny nx : Q) (sy sx : Z) (threshold : Q),
  shape content = [h; w] -> (forall c, pix content c <> 0 -> in_bounds (shape content) c) ->
  1 <= h -> 1 <= w -> 0 <= iinfo_max dt -> 1 <= sy -> 1 <= sx ->
  (ny < inject_Z sy)%Q -> (nx < inject_Z sx)%Q -> Z.odd sy = true -> Z.odd sx = true ->
  forall H1 W1 oy1 ox1 H2 W2 oy2 ox2,
  let T := Gen.preproc.py_bandpass_default_truncate in
  let py := stage_par np_exp ny sy in
  let px := stage_par np_exp nx sx in
  let ry := stage_reach np_exp ny sy in
  let rx := stage_reach np_exp nx sx in
  let csh' := [h + 2 * ry; w + 2 * rx] in
  let d := vsub [oy2; ox2] [oy1; ox1] in
  paddedb [H1; W1] [oy1; ox1] [h; w] [ghw_of T py; ghw_of T px] [bhw_of py; bhw_of px] = true ->
  paddedb [H2; W2] [oy2; ox2] [h; w] [ghw_of T py; ghw_of T px] [bhw_of py; bhw_of px] = true ->
  h + 2 * ry < H1 \/ w + 2 * rx < W1 -> h + 2 * ry < H2 \/ w + 2 * rx < W2 ->
  exists sf1 sf2 im1 im2,
    preprocess_stage np_exp dt (embed [H1; W1] [oy1; ox1] content) [ny; nx] [sy; sx] threshold = ROk (sf1, ImZ dt im1) /\
    preprocess_stage np_exp dt (embed [H2; W2] [oy2; ox2] content) [ny; nx] [sy; sx] threshold = ROk (sf2, ImZ dt im2) /\
    (sf1 == sf2)%Q /\ shape im1 = [H1; W1] /\ shape im2 = [H2; W2] /\
    moved d im1 im2 /\
    (forall p, 0 <= pix im1 p) /\ (forall p, 0 <= pix im2 p) /\
    (forall mg, fitsb [H1; W1] [oy1 - ry; ox1 - rx] csh' mg = true -> content_inside mg im1) /\
    (forall mg, fitsb [H2; W2] [oy2 - ry; ox2 - rx] csh' mg = true -> content_inside mg im2) /\
    (forall P, let m := map (fun r => r + Z.of_nat (pred (iters_of (lp_maxit P)))) (lp_radius P) in
               fitsb [H1; W1] [oy1 - ry; ox1 - rx] csh' m = true -> fitsb [H2; W2] [oy2 - ry; ox2 - rx] csh' m = true ->
               content_has_room P d im1 im2).
Proof. exact Proofs.PreprocessMoved2.preprocess_moved2. Qed.
Print Assumptions C09_preprocess_moved_any_threshold.

Theorem C09_locate_preprocess_whole_moved_any_threshold :
  forall (sqrtf : Q -> Q) (percentile : list Z -> Q),
    (forall l l', Permutation l l' -> percentile l = percentile l') ->
    (forall l, (forall v, In v l -> 0 <= v) -> (0 <= percentile l)%Q) ->
  forall np_exp dt content h w H1 W1 oy1 ox1 H2 W2 oy2 ox2 (P : Equivariance.lparams) (T : tparams) ny nx sy sx threshold,
  let Tr := Gen.preproc.py_bandpass_default_truncate in
  let py := stage_par np_exp ny sy in
  let px := stage_par np_exp nx sx in
  let ry := stage_reach np_exp ny sy in
  let rx := stage_reach np_exp nx sx in
  let csh' := [h + 2 * ry; w + 2 * rx] in
  let d := vsub [oy2; ox2] [oy1; ox1] in
  let m := map (fun r => r + Z.of_nat (pred (iters_of (lp_maxit P)))) (lp_radius P) in
  let raw1 := embed [H1; W1] [oy1; ox1] content in
  let raw2 := embed [H2; W2] [oy2; ox2] content in
  shape content = [h; w] -> (forall c, pix content c <> 0 -> in_bounds (shape content) c) ->
  1 <= h -> 1 <= w -> 0 <= iinfo_max dt -> 1 <= sy -> 1 <= sx ->
  (ny < inject_Z sy)%Q -> (nx < inject_Z sx)%Q -> Z.odd sy = true -> Z.odd sx = true ->
  List.length (lp_sep P) = 2%nat -> List.length (lp_margin P) = 2%nat -> List.length (lp_radius P) = 2%nat ->
  Forall (fun s => 1 <= s) (map (box_size 2) (lp_sep P)) ->
  paddedb [H1; W1] [oy1; ox1] [h; w] [ghw_of Tr py; ghw_of Tr px] [bhw_of py; bhw_of px] = true ->
  paddedb [H2; W2] [oy2; ox2] [h; w] [ghw_of Tr py; ghw_of Tr px] [bhw_of py; bhw_of px] = true ->
  h + 2 * ry < H1 \/ w + 2 * rx < W1 -> h + 2 * ry < H2 \/ w + 2 * rx < W2 ->
  fitsb [H1; W1] [oy1 - ry; ox1 - rx] csh' (lp_margin P) = true -> fitsb [H2; W2] [oy2 - ry; ox2 - rx] csh' (lp_margin P) = true ->
  fitsb [H1; W1] [oy1 - ry; ox1 - rx] csh' m = true -> fitsb [H2; W2] [oy2 - ry; ox2 - rx] csh' m = true ->
  (forall sf im, preprocess_stage np_exp dt raw1 [ny; nx] [sy; sx] threshold = ROk (sf, ImZ dt im) ->
                 no_tie_sf sqrtf (lp_sep P) T sf (refine_rows2 percentile P raw1 im) = true) ->
  exists sf1 sf2 table1 table2 rows,
    locate_pre_whole sqrtf percentile np_exp dt P T [ny; nx] [sy; sx] threshold raw1 = ROk (sf1, table1) /\
    locate_pre_whole sqrtf percentile np_exp dt P T [ny; nx] [sy; sx] threshold raw2 = ROk (sf2, table2) /\
    (sf1 == sf2)%Q /\
    Permutation table2 rows /\ Forall2 (wline_moved d) table1 rows /\
    (H1 * W1 = H2 * W2 -> (forall a b, (a == b)%Q -> (sqrtf a == sqrtf b)%Q) -> Forall2 (wline_moved_ep d) table1 rows).
Proof. exact locate_pre_whole_moved2. Qed.
Print Assumptions C09_locate_preprocess_whole_moved_any_threshold.

Theorem C09_gen_locate_preprocess_moved_any_threshold :
  forall (np_percentile : list Z -> Q -> Q) (np_exp : Q -> Q) NUMBA_AVAILABLE (sqrtf : Q -> Q) percentile,
  (forall l l', Permutation l l' -> np_percentile l percentile = np_percentile l' percentile) ->
  (forall l, (forall v, In v l -> 0 <= v) -> (0 <= np_percentile l percentile)%Q) ->
  forall frame_no1 frame_no2 dt content h w H1 W1 oy1 ox1 H2 W2 oy2 ox2 raw01 raw02 diameter minmass maxsize separation noise_size
         smoothing_size threshold topn max_iterations filter_after characterize engine V ny nx sy sx,
  let thr := match threshold with Some t => t | None => 1%Q end in
  let Tr := Gen.preproc.py_bandpass_default_truncate in
  let py := stage_par np_exp ny sy in
  let px := stage_par np_exp nx sx in
  let ry := stage_reach np_exp ny sy in
  let rx := stage_reach np_exp nx sx in
  let csh' := [h + 2 * ry; w + 2 * rx] in
  let d := vsub [oy2; ox2] [oy1; ox1] in
  let P := lp_of V max_iterations characterize in
  let T := mkTP (match minmass with Some m => m | None => 0%Q end) maxsize topn in
  let m := map (fun r => r + Z.of_nat (pred (iters_of max_iterations))) (lp_radius P) in
  shape content = [h; w] -> (forall c, pix content c <> 0 -> in_bounds (shape content) c) ->
  1 <= h -> 1 <= w -> 0 <= iinfo_max dt -> 1 <= sy -> 1 <= sx ->
  (ny < inject_Z sy)%Q -> (nx < inject_Z sx)%Q -> Z.odd sy = true -> Z.odd sx = true ->
  squeeze_image raw01 = embed [H1; W1] [oy1; ox1] content -> squeeze_image raw02 = embed [H2; W2] [oy2; ox2] content ->
  locate_args 2 diameter maxsize separation smoothing_size noise_size = ROk V ->
  a_noise V = [ny; nx] -> a_smooth V = [sy; sx] -> List.length (a_sep V) = 2%nat ->
  Forall (fun s => (0 <= s)%Q) (a_sep V) -> Forall (fun s => 1 <= s) (map (box_size 2) (a_sep V)) ->
  py_engine NUMBA_AVAILABLE 2 engine ->
  maxsize = None \/ characterize = true ->
  paddedb [H1; W1] [oy1; ox1] [h; w] [ghw_of Tr py; ghw_of Tr px] [bhw_of py; bhw_of px] = true ->
  paddedb [H2; W2] [oy2; ox2] [h; w] [ghw_of Tr py; ghw_of Tr px] [bhw_of py; bhw_of px] = true ->
  h + 2 * ry < H1 \/ w + 2 * rx < W1 -> h + 2 * ry < H2 \/ w + 2 * rx < W2 ->
  fitsb [H1; W1] [oy1 - ry; ox1 - rx] csh' (lp_margin P) = true -> fitsb [H2; W2] [oy2 - ry; ox2 - rx] csh' (lp_margin P) = true ->
  fitsb [H1; W1] [oy1 - ry; ox1 - rx] csh' m = true -> fitsb [H2; W2] [oy2 - ry; ox2 - rx] csh' m = true ->
  (forall sf im, preprocess_stage np_exp dt (embed [H1; W1] [oy1; ox1] content) [ny; nx] [sy; sx] thr = ROk (sf, ImZ dt im) ->
                 no_tie_sf sqrtf (a_sep V) T sf
                           (refine_rows2 (fun l => np_percentile l percentile) P (embed [H1; W1] [oy1; ox1] content) im) = true) ->
  exists d1 d2 lines,
    py_locate fops2 np_percentile np_exp NUMBA_AVAILABLE sqrtf frame_no1 (ImZ dt raw01) diameter minmass maxsize separation noise_size
              smoothing_size threshold false percentile topn true max_iterations None filter_after characterize engine = ROk d1 /\
    py_locate fops2 np_percentile np_exp NUMBA_AVAILABLE sqrtf frame_no2 (ImZ dt raw02) diameter minmass maxsize separation noise_size
              smoothing_size threshold false percentile topn true max_iterations None filter_after characterize engine = ROk d2 /\
    Permutation (map unlabel (df_lines d2)) lines /\
    Forall2 (dline_moved d) (map unlabel (df_lines d1)) lines /\
    (H1 * W1 = H2 * W2 -> (forall a b, (a == b)%Q -> (sqrtf a == sqrtf b)%Q) ->
     Forall2 (dline_moved_ep d) (map unlabel (df_lines d1)) lines).
Proof. exact gen_locate_preprocess_moved2. Qed.
Print Assumptions C09_gen_locate_preprocess_moved_any_threshold.

(* Non-vacuity of (43): the instance of (40) with the NEGATIVE threshold -1/10: both canvases are larger than the grown box (13 x 19),
   and refine_com's table of the first run (nine rows) has no tie; the other premises are those of
   C09_preprocess_whole_premises_satisfiable, which do not depend on the threshold. *)
Example C09_preprocess_whole_negative_threshold_satisfiable :
  (-1 # 10 < 0)%Q /\ stage_reach ex_nexp 1 5 = 4 /\ (5 + 2 * 4 < 20 \/ 11 + 2 * 4 < 30) /\ (5 + 2 * 4 < 24 \/ 11 + 2 * 4 < 25) /\
  (forall sf im, preprocess_stage ex_nexp (mkDT false 8) yr1 [1; 1]%Q [5; 5] (-1 # 10) = ROk (sf, ImZ (mkDT false 8) im) ->
                 no_tie_sf xsqrt (lp_sep yP) yT sf (refine_rows2 ex_percentile yP yr1 im) = true).
Proof. exact ex_pre_whole_premises_negthr. Qed.
