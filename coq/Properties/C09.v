(* C09 -- feature finding does not depend on where or how the image is processed.
   Only statements closed by [exact]; proofs live in Proofs/Equivariance.v. *)
From Coq Require Import ZArith NArith QArith Qabs List Bool Permutation.
From TP Require Import Model.Dilation Model.COM Model.Equivariance Proofs.Dilation Proofs.Equivariance.
Import ListNotations.
Open Scope Z_scope.

(* (5) batch, in-process (processes <= 1): the returned table is locate on each frame,
   every row tagged with the frame's number (its frame_no attribute, else its
   position in the sequence), concatenated in frame order; frames without features
   contribute nothing.  Holds whether or not locate itself saw the attribute. *)
Theorem C09_batch_is_tagged_concatenation :
  forall (frame row : Type) (locate : frame -> list row) (frame_no : frame -> option nat) seen frames,
    batch_map frame row locate frame_no seen frames = tagged_from frame row locate frame_no 0 frames.
Proof. exact batch_map_spec. Qed.
Print Assumptions C09_batch_is_tagged_concatenation.

(* (6) batch with a pool: whatever the order [sched] in which the workers complete
   the tasks (every task completes), and whether or not frame_no survives the trip
   to the worker, the result is the one of the in-process run. *)
Theorem C09_batch_process_independent :
  forall (frame row : Type) (locate : frame -> list row) (frame_no : frame -> option nat) sched seen seen' frames,
    (forall i, (i < length frames)%nat -> In i sched) ->
    batch_imap frame row locate frame_no sched seen frames = batch_map frame row locate frame_no seen' frames.
Proof. exact batch_process_independent. Qed.
Print Assumptions C09_batch_process_independent.

(* (7) F13 (open finding): with the weights cosmask gives a radius-1 mask (centre
   weight 1), the eccentricity numerator of a neighbourhood [up; left; centre; right;
   down] and of its transpose differ by 4 * centre * (left + right - up - down). *)
Theorem C09_ecc_numerator_under_transposition : forall u l c r d,
  ecc_num cos3 sin3 [u; l; c; r; d] - ecc_num cos3 sin3 (nb_transpose [u; l; c; r; d]) = 4 * c * (l + r - u - d).
Proof. exact ecc_num_transpose_diff. Qed.
Print Assumptions C09_ecc_numerator_under_transposition.

Theorem C09_ecc_transpose_refuted :
  exists nb, zsum (nb_transpose nb) = zsum nb /\ nth 2 (nb_transpose nb) 0 = nth 2 nb 0 /\
             ecc_num cos3 sin3 (nb_transpose nb) <> ecc_num cos3 sin3 nb.
Proof. exact ecc_transpose_refuted. Qed.
Print Assumptions C09_ecc_transpose_refuted.

(* (8) the monitor run on locate's own tables is sound *)
Theorem C09_monitor_moved_sound : forall tolp tol d A B,
  check_moved tolp tol d A B = 0%N -> Forall2 (trow_related tolp tol d) A B.
Proof. exact check_moved_sound. Qed.
Print Assumptions C09_monitor_moved_sound.

Theorem C09_monitor_transposed_sound : forall tolp tol A B,
  check_transposed tolp tol A B = 0%N ->
  exists z, Forall2 (trow_related tolp tol z) A (map rev_pos B) /\ Forall (fun q => q = 0%Q) z.
Proof. exact check_transposed_sound. Qed.
Print Assumptions C09_monitor_transposed_sound.
