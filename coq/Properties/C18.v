(* C18 -- drift is the mean frame-to-frame displacement, and subtracting it removes it.
   Only statements closed by [exact]; proofs live in Proofs/Drift.v.

   Model: Model/Drift.v (compute_drift: stable sort by (particle, frame), diff,
   mask same particle & frame difference 1, per-frame mean, cumulative sum;
   subtract_drift: rows sorted by (frame, particle), drift value of the row's
   frame subtracted, rows of frames without a value unchanged).  One position
   column at a time (every position column goes through the same pipeline).

   Vocabulary (Model/DriftSpec.v), none of it mentions sorting:
     trajectory_table t  : no particle is listed twice in one frame
     measured t f        : some particle has a row in frame f-1 and a row in frame f
     disps t f           : pos b - pos a over ALL ordered pairs (a, b) of rows of t with
                           particle a = particle b, frame a = f-1, frame b = f
     mean_disp t f       : arithmetic mean of disps t f
     is_cumsum m prev d  : every entry (f, v) of d equals the previous entry's value
                           (prev for the first) plus m f
     row_subtracted d r r' : r' is r with the drift value of r's frame subtracted from
                           its position (unchanged if d has no such frame); particle,
                           frame and all other columns equal
     gapless t           : every measured frame is the first measured one or follows a
                           measured one
     rigid base c t      : pos r == base (particle r) + c (frame r) for every row *)
From Coq Require Import ZArith QArith List Permutation Sorted Lia.
From TP Require Import Model.Drift Model.DriftSpec Proofs.Drift.
Import ListNotations.
Open Scope Z_scope.

(* Definition.  The drift table has one entry per measured frame, in ascending
   frame order, and its values are the running sum of the mean displacement. *)
Theorem C18_def : forall t,
  trajectory_table t ->
  StronglySorted Z.lt (map fst (compute_drift t)) /\
  (forall f, In f (map fst (compute_drift t)) <-> measured t f) /\
  is_cumsum (mean_disp t) 0%Q (compute_drift t).
Proof. exact drift_def. Qed.
Print Assumptions C18_def.

(* Row order is irrelevant: any reordering of the rows gives the identical table. *)
Theorem C18_order_independent : forall t t',
  trajectory_table t -> Permutation t t' -> compute_drift t = compute_drift t'.
Proof. exact drift_order_independent. Qed.
Print Assumptions C18_order_independent.

(* subtract_drift returns the rows of the input (reordered), each with exactly the
   drift value of its frame subtracted, rows of frames without a value and all
   other columns unchanged -- for ANY drift table d. *)
Theorem C18_subtract_exact : forall t d,
  exists t0, Permutation t0 t /\ Forall2 (row_subtracted d) t0 (subtract_drift t d).
Proof. exact subtract_exact. Qed.
Print Assumptions C18_subtract_exact.

(* Re-measuring: on a gapless table the drift of the corrected table has the same
   frames and vanishes everywhere. *)
Theorem C18_remeasured_zero : forall t,
  trajectory_table t -> gapless t ->
  map fst (compute_drift (subtract_own_drift t)) = map fst (compute_drift t) /\
  Forall (fun fv : Z * Q => (snd fv == 0)%Q) (compute_drift (subtract_own_drift t)).
Proof. exact remeasured_zero. Qed.
Print Assumptions C18_remeasured_zero.

(* The premise as worded in the property ("every frame after the first measured
   one contributes at least one displacement") is at least as strong as gapless. *)
Theorem C18_premise_suffices : forall t,
  (forall f0 r, measured t f0 -> In r t -> f0 < frame r -> measured t (frame r)) -> gapless t.
Proof. exact later_frames_measured_gapless. Qed.
Print Assumptions C18_premise_suffices.

(* A rigid common motion c is removed: from the frame before the first measured
   one (f0 - 1) on, every row of a measured frame sits at its particle's own
   offset plus the constant c (f0 - 1). *)
Theorem C18_rigid_motion_removed : forall base c t f0,
  trajectory_table t -> gapless t -> rigid base c t ->
  (measured t f0 /\ forall g, measured t g -> f0 <= g) ->
  forall r', In r' (subtract_own_drift t) ->
  measured t (frame r') \/ frame r' = f0 - 1 ->
  (pos r' == base (particle r') + c (f0 - 1)%Z)%Q.
Proof. exact rigid_removed. Qed.
Print Assumptions C18_rigid_motion_removed.

(* The monitor run on the implementation's drift tables decides the statement of
   C18_def (at tolerance 0 exactly; the run uses the a-priori rounding bound). *)
Theorem C18_monitor_sound : forall t obs,
  check_drift_spec 0 t obs = 0%N ->
  StronglySorted Z.lt (map fst obs) /\
  (forall f, In f (map fst obs) <-> measured t f) /\
  is_cumsum (mean_disp t) 0%Q obs.
Proof. exact monitor_sound. Qed.
Print Assumptions C18_monitor_sound.

(* The harness decides the premise "gapless" by looking at the model's drift frames. *)
Theorem C18_gapless_decided : forall t,
  trajectory_table t -> gapless_b t = true -> gapless t.
Proof. exact gapless_b_sound. Qed.
Print Assumptions C18_gapless_decided.

(* ---- non-vacuity ------------------------------------------------------------ *)
(* particle 0: frames 0-2; particle 1 enters at 1, leaves after 3; particle 2 has a
   gap at frame 1; rows shuffled.  Measured frames 1, 2, 3: gapless. *)
Definition ex_ok : table :=
  [mkRow 1 3 9 0; mkRow 0 0 0 1; mkRow 2 2 (7#2) 2; mkRow 0 1 1 3; mkRow 1 1 5 4;
   mkRow 2 0 4 5; mkRow 0 2 3 6; mkRow 1 2 (11#2) 7; mkRow 2 3 6 8].

Example ex_ok_premises : trajectory_table ex_ok /\ gapless ex_ok.
Proof.
  assert (H : trajectory_table ex_ok) by (apply trajectory_table_dec; vm_compute; reflexivity).
  split; [exact H|]. apply gapless_b_sound; [exact H|vm_compute; reflexivity].
Qed.

Example ex_ok_drift :
  compute_drift ex_ok = [(1, 1%Q); (2, (9#4)%Q); (3, (21#4)%Q)] /\
  map pos (subtract_own_drift ex_ok) = [0; 4; 0; 4; 3#4; 13#4; 5#4; 15#4; 3#4]%Q /\
  compute_drift (subtract_own_drift ex_ok) = [(1, 0%Q); (2, 0%Q); (3, 0%Q)].
Proof. vm_compute. repeat split. Qed.

(* frames 0,1,2 and 5,6: frame 6 is measured, frame 5 is not and is not the first
   measured one.  The table is not gapless and the conclusion of
   C18_remeasured_zero fails (re-measured drift -2 at frame 6): the premise is needed. *)
Definition ex_gap : table :=
  [mkRow 0 0 0 0; mkRow 0 1 1 1; mkRow 0 2 3 2; mkRow 1 1 5 3; mkRow 1 2 5 4;
   mkRow 1 5 9 5; mkRow 1 6 10 6; mkRow 2 9 0 7].

Example ex_gap_not_zero :
  trajectory_table ex_gap /\
  ~ Forall (fun fv : Z * Q => (snd fv == 0)%Q) (compute_drift (subtract_own_drift ex_gap)) /\
  ~ gapless ex_gap.
Proof.
  assert (H : trajectory_table ex_gap) by (apply trajectory_table_dec; vm_compute; reflexivity).
  assert (N : ~ Forall (fun fv : Z * Q => (snd fv == 0)%Q) (compute_drift (subtract_own_drift ex_gap))).
  { intros F. rewrite Forall_forall in F. specialize (F (6, (-2)%Q)).
    assert (In (6, (-2)%Q) (compute_drift (subtract_own_drift ex_gap))) as I by (vm_compute; tauto).
    specialize (F I). discriminate F. }
  split; [exact H|]. split; [exact N|].
  intros G. apply N. now apply remeasured_zero.
Qed.

(* a rigid motion c(f) = f*f on top of per-particle offsets, particles entering and leaving *)
Definition ex_base (p : Z) : Q := inject_Z (10 * p).
Definition ex_c (f : Z) : Q := inject_Z (f * f).
Definition ex_rigid : table :=
  [mkRow 0 2 4 0; mkRow 0 3 9 1; mkRow 1 3 19 2; mkRow 0 4 16 3; mkRow 1 4 26 4; mkRow 1 5 35 5].

Example ex_rigid_premises :
  trajectory_table ex_rigid /\ gapless ex_rigid /\ rigid ex_base ex_c ex_rigid /\
  (measured ex_rigid 3 /\ forall g, measured ex_rigid g -> 3 <= g).
Proof.
  assert (H : trajectory_table ex_rigid) by (apply trajectory_table_dec; vm_compute; reflexivity).
  split; [exact H|]. split; [apply gapless_b_sound; [exact H|vm_compute; reflexivity]|]. split.
  - intros r Hr. repeat (destruct Hr as [<-|Hr]; [vm_compute; reflexivity|]). destruct Hr.
  - split.
    + exists (mkRow 0 2 4 0), (mkRow 0 3 9 1). cbn. intuition.
    + intros g Hg. apply (drift_def ex_rigid H) in Hg. vm_compute in Hg. intuition lia.
Qed.

Example ex_rigid_result :
  map (fun r => (particle r, frame r, pos r)) (subtract_own_drift ex_rigid) =
  [(0, 2, 4%Q); (0, 3, 4%Q); (1, 3, 14%Q); (0, 4, 4%Q); (1, 4, 14%Q); (1, 5, 14%Q)].
Proof. vm_compute. reflexivity. Qed.

(* ==== route T: the same statements for the code GENERATED from trackpy/motion.py ==========
   tools/py2coq_drift.py translates the current text of compute_drift / subtract_drift
   (and guess_pos_columns of utils.py) into Gen/drift.v: py_compute_drift,
   py_subtract_drift, py_guess_pos_columns, polymorphic in the pandas interface of
   Model/PyDrift.v.  Below they are read in the interpretation [DriftI rolling]: a table
   [T : mtable] carries ALL columns (m_val r c is the value of row r in column c),
   [proj c T] is the one-column table of Model/Drift.v that column c of T is,
   [curve_col c d] is column c of a drift table, [rolling] is the smoothing primitive
   (dx.rolling(n, min_periods=0).mean(), left uninterpreted; not reached for smoothing <= 0).
   py_subtract_drift returns (the caller's table afterwards, the returned table). *)
From Coq Require Import String.
From TP Require Import Model.PyDrift Gen.drift Proofs.DriftGen.
Local Open Scope string_scope.

(* The generated compute_drift is the model, column by column, whatever position columns are asked for. *)
Theorem C18_gen_compute_drift : forall rolling T s pcs c,
  s <= 0 ->
  curve_col c (py_compute_drift (DriftI rolling) T s (Some pcs)) = compute_drift (proj c T).
Proof. exact gen_compute_drift_eq. Qed.
Print Assumptions C18_gen_compute_drift.

(* Its columns are the position columns asked for, in that order (names other than particle / frame / frame_diff). *)
Theorem C18_gen_compute_drift_columns : forall rolling T s pcs,
  s <= 0 -> pos_names_ok pcs = true ->
  p_columns (DriftI rolling) (py_compute_drift (DriftI rolling) T s (Some pcs)) = pcs.
Proof. exact gen_compute_drift_columns. Qed.
Print Assumptions C18_gen_compute_drift_columns.

(* pos_columns=None: the columns guess_pos_columns names (['z','y','x'] if there is a column z, else ['y','x']). *)
Theorem C18_gen_compute_drift_default : forall rolling T s c,
  s <= 0 ->
  curve_col c (py_compute_drift (DriftI rolling) T s None) = compute_drift (proj c T) /\
  p_columns (DriftI rolling) (py_compute_drift (DriftI rolling) T s None) = py_guess_pos_columns (DriftI rolling) T.
Proof. exact gen_compute_drift_default. Qed.
Print Assumptions C18_gen_compute_drift_default.

(* The generated subtract_drift(traj, drift): the caller's table is untouched, every column of the
   drift table goes through the model's subtract_drift, every other column is only reordered. *)
Theorem C18_gen_subtract_drift : forall rolling T D,
  NoDup (cv_cols D) ->
  let out := py_subtract_drift (DriftI rolling) T (Some D) false in
  fst out = T /\
  (forall c, In c (cv_cols D) -> proj c (snd out) = subtract_drift (proj c T) (curve_col c D)) /\
  (forall c, ~ In c (cv_cols D) -> proj c (snd out) = isort le_fp (proj c T)).
Proof. exact gen_subtract_drift_eq. Qed.
Print Assumptions C18_gen_subtract_drift.

(* inplace=True: the caller's table is the returned one. *)
Theorem C18_gen_subtract_drift_inplace : forall rolling T D,
  fst (py_subtract_drift (DriftI rolling) T (Some D) true) = snd (py_subtract_drift (DriftI rolling) T (Some D) true).
Proof. exact gen_subtract_drift_inplace. Qed.
Print Assumptions C18_gen_subtract_drift_inplace.

(* drift=None: the table's own drift (measured on the caller's table before anything else happens). *)
Theorem C18_gen_subtract_own_drift : forall rolling T,
  let out := py_subtract_drift (DriftI rolling) T None false in
  fst out = T /\
  (forall c, In c (py_guess_pos_columns (DriftI rolling) T) -> proj c (snd out) = subtract_own_drift (proj c T)) /\
  (forall c, ~ In c (py_guess_pos_columns (DriftI rolling) T) -> proj c (snd out) = isort le_fp (proj c T)).
Proof. exact gen_subtract_own_eq. Qed.
Print Assumptions C18_gen_subtract_own_drift.

(* C18_def for the generated function. *)
Theorem C18_gen_def : forall rolling T pcs c,
  trajectory_table (proj c T) ->
  let d := curve_col c (py_compute_drift (DriftI rolling) T 0 pcs) in
  StronglySorted Z.lt (map fst d) /\
  (forall f, In f (map fst d) <-> measured (proj c T) f) /\
  is_cumsum (mean_disp (proj c T)) 0%Q d.
Proof. exact gen_drift_def. Qed.
Print Assumptions C18_gen_def.

(* C18_order_independent for the generated function. *)
Theorem C18_gen_order_independent : forall rolling T T' pcs c,
  trajectory_table (proj c T) -> Permutation (mt_rows T) (mt_rows T') ->
  curve_col c (py_compute_drift (DriftI rolling) T 0 (Some pcs)) =
  curve_col c (py_compute_drift (DriftI rolling) T' 0 (Some pcs)).
Proof. exact gen_drift_order_independent. Qed.
Print Assumptions C18_gen_order_independent.

(* C18_subtract_exact for the generated function, with the caller's table. *)
Theorem C18_gen_subtract_exact : forall rolling T D c,
  NoDup (cv_cols D) -> In c (cv_cols D) ->
  fst (py_subtract_drift (DriftI rolling) T (Some D) false) = T /\
  exists t0, Permutation t0 (proj c T) /\
    Forall2 (row_subtracted (curve_col c D)) t0 (proj c (snd (py_subtract_drift (DriftI rolling) T (Some D) false))).
Proof. exact gen_subtract_exact. Qed.
Print Assumptions C18_gen_subtract_exact.

(* Columns that are not columns of the drift table keep their values (rows reordered). *)
Theorem C18_gen_other_columns : forall rolling T D c,
  NoDup (cv_cols D) -> ~ In c (cv_cols D) ->
  Permutation (proj c (snd (py_subtract_drift (DriftI rolling) T (Some D) false))) (proj c T).
Proof. exact gen_subtract_other_columns. Qed.
Print Assumptions C18_gen_other_columns.

(* C18_remeasured_zero: compute_drift(subtract_drift(traj)), both generated. *)
Theorem C18_gen_remeasured_zero : forall rolling T c,
  In c (py_guess_pos_columns (DriftI rolling) T) ->
  trajectory_table (proj c T) -> gapless (proj c T) ->
  let again := curve_col c (py_compute_drift (DriftI rolling)
                              (snd (py_subtract_drift (DriftI rolling) T None false)) 0 None) in
  map fst again = map fst (curve_col c (py_compute_drift (DriftI rolling) T 0 None)) /\
  Forall (fun fv : Z * Q => (snd fv == 0)%Q) again.
Proof. exact gen_remeasured_zero. Qed.
Print Assumptions C18_gen_remeasured_zero.

(* C18_rigid_motion_removed for the generated subtract_drift. *)
Theorem C18_gen_rigid_motion_removed : forall rolling base cc T c f0,
  In c (py_guess_pos_columns (DriftI rolling) T) ->
  trajectory_table (proj c T) -> gapless (proj c T) -> rigid base cc (proj c T) ->
  (measured (proj c T) f0 /\ forall g, measured (proj c T) g -> f0 <= g) ->
  forall r', In r' (proj c (snd (py_subtract_drift (DriftI rolling) T None false))) ->
  measured (proj c T) (frame r') \/ frame r' = f0 - 1 ->
  (pos r' == base (particle r') + cc (f0 - 1)%Z)%Q.
Proof. exact gen_rigid_removed. Qed.
Print Assumptions C18_gen_rigid_motion_removed.

(* non-vacuity: ex_ok as column y, 2*y + 1 as column x, a third column left alone; the table is
   indexed by frame as filter_stubs returns it.  The generated code is run. *)
Definition ex_gen : mtable :=
  mkMT ["y"; "x"; "mass"] ["frame"]
       (map (fun r => mkM (particle r) (frame r)
                          (fun n => if String.eqb n "y" then pos r
                                    else if String.eqb n "x" then (2 * pos r + 1)%Q else 7%Q)
                          (other r)) ex_ok).
Definition ex_I := DriftI (fun d _ => d).

Example ex_gen_run :
  proj "y" ex_gen = ex_ok /\
  p_columns ex_I (py_compute_drift ex_I ex_gen 0 None) = ["y"; "x"] /\
  curve_col "y" (py_compute_drift ex_I ex_gen 0 None) = [(1, 1%Q); (2, (9#4)%Q); (3, (21#4)%Q)] /\
  curve_col "x" (py_compute_drift ex_I ex_gen 0 None) = [(1, 2%Q); (2, (9#2)%Q); (3, (21#2)%Q)] /\
  mt_index (fst (py_subtract_drift ex_I ex_gen None false)) = ["frame"] /\
  mt_index (snd (py_subtract_drift ex_I ex_gen None false)) = ["frame"; "particle"] /\
  map pos (proj "y" (snd (py_subtract_drift ex_I ex_gen None false))) = [0; 4; 0; 4; 3#4; 13#4; 5#4; 15#4; 3#4]%Q /\
  map pos (proj "mass" (snd (py_subtract_drift ex_I ex_gen None false))) = [7; 7; 7; 7; 7; 7; 7; 7; 7]%Q /\
  curve_col "x" (py_compute_drift ex_I (snd (py_subtract_drift ex_I ex_gen None false)) 0 None) = [(1, 0%Q); (2, 0%Q); (3, 0%Q)].
Proof. vm_compute. repeat split. Qed.

(* The primitive p_pandas_sort against the body of trackpy.utils.pandas_sort as C20's translator
   generates it (Gen/filtering.v py_pandas_sort), read on the same tables (Proofs/DriftSortLink.v
   SortI: index attributes from mt_index, sort_values = stable lexicographic sort on the key
   columns): on a table with a RangeIndex -- what compute_drift passes, the result of
   reset_index(drop=True) -- the generated pandas_sort leaves its argument as it is and returns
   what the primitive returns. *)
From TP Require Proofs.DriftSortLink Model.TrajLayout Model.PyFiltering Gen.filtering.
Theorem C18_gen_pandas_sort_primitive : forall rolling (T : mtable) (by_ : list name),
  mt_index T = [] ->
  Gen.filtering.py_pandas_sort Proofs.DriftSortLink.SortI T (Model.TrajLayout.ByList by_) false =
  Model.PyFiltering.ROk (T, Some (p_pandas_sort (DriftI rolling) T by_)).
Proof. exact Proofs.DriftSortLink.pandas_sort_primitive. Qed.
Print Assumptions C18_gen_pandas_sort_primitive.
