(* C11 — a predictor only moves the search origin. *)
From Coq Require Import ZArith List.
From TP Require Import Model.Assign Model.Link Model.Predict Proofs.Cands Proofs.Labels Proofs.Predict.
Import ListNotations.
Open Scope Z_scope.

(* Linking a movie to which the drift v*t has been added (t = frame number of the
   step, any numbering), with the predictor pos + v*(t1 - t_seen) applied to every
   live source (remembered ones included), yields label for label the result of
   linking the undrifted movie without predictor - any movie, any v, any memory. *)
Theorem C11_drift_compensated : forall m mem max_size v tags frames,
  link_iter m mem max_size (pred_drift v tags) (drift_frames v tags 0 frames)
  = link_iter m mem max_size no_pred frames.
Proof. exact link_iter_drift. Qed.
Print Assumptions C11_drift_compensated.

(* A predictor that predicts no motion is plain linking. *)
Theorem C11_null_predictor : forall m mem max_size frames,
  link_iter m mem max_size (fun _ s => s_pos s) frames = link_iter m mem max_size no_pred frames.
Proof. exact null_predict_plain. Qed.
Print Assumptions C11_null_predictor.

(* Labels stay unique per frame with ANY predictor. *)
Theorem C11_any_predictor_valid : forall m mem max_size pred frames out,
  metric_ok m -> link_iter m mem max_size pred frames = Ok out ->
  Forall2 (fun ds labs => length labs = length ds /\ NoDup labs) frames out.
Proof. exact link_iter_valid. Qed.
Print Assumptions C11_any_predictor_valid.

(* the geometric core: the candidate graph only sees differences of positions *)
Theorem C11_translation_invariant : forall w a p q, d2w w (shift a p) (shift a q) = d2w w p q.
Proof. exact d2w_shift. Qed.
Print Assumptions C11_translation_invariant.

Example C11_example :
  link_iter {| mw := [1]; mR2 := 4 |} 1 30 (pred_drift [100] [0; 1; 3]) (drift_frames [100] [0; 1; 3] 0 [[[0]; [10]]; [[11]]; [[1]; [12]]])
  = Ok [[0; 1]; [1]; [0; 1]]%nat.
Proof. vm_compute. reflexivity. Qed.
