(* C11 — a predictor only moves the search origin. *)
From Coq Require Import ZArith List.
From TP Require Import Model.Assign Model.Link Model.Predict Proofs.Cands Proofs.Labels Proofs.Predict.
Import ListNotations.
Open Scope Z_scope.

(* Linking a movie to which the drift v*t has been added (t = frame number of the
   step, any numbering), with the predictor pos + v*(t1 - t_seen) applied to every
   live source (remembered ones included), yields label for label the result of
   linking the undrifted movie without predictor - any movie, any v, any memory. *)
Theorem C11_drift_compensated : forall m mem max_size v tags frames,
  link_iter m mem max_size (pred_drift v tags) (drift_frames v tags 0 frames)
  = link_iter m mem max_size no_pred frames.
Proof. exact link_iter_drift. Qed.
Print Assumptions C11_drift_compensated.

(* A predictor that predicts no motion is plain linking. *)
Theorem C11_null_predictor : forall m mem max_size frames,
  link_iter m mem max_size (fun _ s => s_pos s) frames = link_iter m mem max_size no_pred frames.
Proof. exact null_predict_plain. Qed.
Print Assumptions C11_null_predictor.

(* Labels stay unique per frame with ANY predictor. *)
Theorem C11_any_predictor_valid : forall m mem max_size pred frames out,
  metric_ok m -> link_iter m mem max_size pred frames = Ok out ->
  Forall2 (fun ds labs => length labs = length ds /\ NoDup labs) frames out.
Proof. exact link_iter_valid. Qed.
Print Assumptions C11_any_predictor_valid.

(* the geometric core: the candidate graph only sees differences of positions *)
Theorem C11_translation_invariant : forall w a p q, d2w w (shift a p) (shift a q) = d2w w p q.
Proof. exact d2w_shift. Qed.
Print Assumptions C11_translation_invariant.

Example C11_example :
  link_iter {| mw := [1]; mR2 := 4 |} 1 30 (pred_drift [100] [0; 1; 3]) (drift_frames [100] [0; 1; 3] 0 [[[0]; [10]]; [[11]]; [[1]; [12]]])
  = Ok [[0; 1]; [1]; [0; 1]]%nat.
Proof. vm_compute. reflexivity. Qed.

(* ===================================================================================================
   Route T.  tools/py2coq_predict.py translates the CURRENT source text of trackpy/predict.py (the
   predictor decorator, null_predict, NullPredict, _RecentVelocityPredict.__init__ / state,
   DriftPredict.predict), of HashBase / HashKDTree in trackpy/linking/subnet.py (set_predictor, predict,
   coords, coords_predict, rebuild, tree, coords_mapped, ...), of points_to_arr / points_from_arr and of
   Linker.update_hash into Gen/predict.v (vocabulary: Model/PyPredict.v).  The theorems below are about
   those generated functions (Proofs/PredictGen.v); definitions used in the statements: Model/Predict2.v.
   =================================================================================================== *)
From Coq Require Import String.
From TP Require Import Model.PyPredict Gen.predict Model.Predict2 Proofs.PredictGen.

(* A PREDICTOR ONLY MOVES THE SEARCH ORIGIN, as a theorem about the generated Linker / HashBase code.
   Let the Linker object L (its self.hash h, memory set and heap of Point objects) stand for the model
   state st: the points of h followed by the memory set (iterated in the order ord) are the live sources,
   attribute by attribute.  Let pred be what L's predictor computes particle by particle (or the stored
   position if there is none).  Run the generated Linker.update_hash on the coordinates ds of frame
   t = tag tags (now st) and then make the reads Subnets.compute makes (dest_hash.coords_mapped,
   source_hash.tree).  Then, for every movie state, predictor, memory content and iteration order:
     - the candidate links of the model's step are EXACTLY those computed from the data of the source
       tree (the predicted positions of all live sources, remembered ones included) and the destination
       coordinates, and the destination coordinates are the observed ds: the predictor enters the
       candidate search through the source tree and nowhere else;
     - the source Point objects keep their stored (observed) positions, frame numbers and track ids:
       what apply_links later copies into labels and stored positions is not the prediction;
     - the new Points carry the observed coordinates ds and the frame number t. *)
Theorem C11_generated_predictor_only_moves_search_origin :
  forall ord tags L h st ds pred m max_size,
  represents ord tags L h st -> l_to_eucl L = None ->
  match l_predictor L with
  | None => forall s, pred (now st) s = s_pos s
  | Some P => exists f, elementwise P f /\
              forall p s, same_obs tags p s -> f (Some (tag tags (now st))) p = pred (now st) s
  end ->
  exists lv, gen_level ord L ds (tag tags (now st)) = POk lv
    /\ step_links m max_size pred st ds
       = solve_groups max_size (components (items_of_coords m (lv_src_coords lv) (lv_dst_coords lv)))
    /\ lv_dst_coords lv = ds
    /\ Forall2 (same_obs tags) (derefs (l_heap (lv_linker lv)) (h_points (lv_src_hash lv))) (live st)
    /\ derefs (l_heap (lv_linker lv)) (h_points (lv_dst_hash lv)) = map (new_point (tag tags (now st))) ds.
Proof. exact gen_search_origin. Qed.
Print Assumptions C11_generated_predictor_only_moves_search_origin.

(* the same with any coordinate transformation to_eucl (anisotropic search ranges): source tree =
   to_eucl(predicted), destination = to_eucl(observed); the new self.hash has no predictor *)
Theorem C11_generated_level_coordinates :
  forall ord tags L h st ds pred,
  represents ord tags L h st -> eucl_of (l_to_eucl L) [] = [] ->
  match l_predictor L with
  | None => forall s, pred (now st) s = s_pos s
  | Some P => exists f, elementwise P f /\
              forall p s, same_obs tags p s -> f (Some (tag tags (now st))) p = pred (now st) s
  end ->
  exists lv, gen_level ord L ds (tag tags (now st)) = POk lv
    /\ lv_src_coords lv = eucl_of (l_to_eucl L) (map (pred (now st)) (live st))
    /\ lv_dst_coords lv = eucl_of (l_to_eucl L) ds
    /\ h_points (lv_src_hash lv) = source_pids ord L h
    /\ Forall2 (same_obs tags) (derefs (l_heap (lv_linker lv)) (h_points (lv_src_hash lv))) (live st)
    /\ derefs (l_heap (lv_linker lv)) (h_points (lv_dst_hash lv)) = map (new_point (tag tags (now st))) ds
    /\ exists dh0, l_hash (lv_linker lv) = Some dh0 /\ h_predictor dh0 = None
         /\ h_to_eucl dh0 = eucl_of (l_to_eucl L) /\ h_points dh0 = h_points (lv_dst_hash lv).
Proof. exact gen_level_spec. Qed.
Print Assumptions C11_generated_level_coordinates.

(* the generated @predictor decorator applies the single-particle function to every particle, at the same t1 *)
Theorem C11_generated_predictor_decorator : forall f t1 particles,
  py_predictor f t1 particles = POk (map (f t1) particles).
Proof. exact gen_predictor_elementwise. Qed.
Print Assumptions C11_generated_predictor_decorator.

(* C11_drift_compensated for the generated code: any single-particle function that extrapolates by
   exactly v per frame, vectorised by the generated @predictor ... *)
Theorem C11_generated_drift_compensated : forall m mem max_size v f tags frames,
  (forall t1 p, f (Some t1) p = shift (scale (t1 - p_t p) v) (p_pos p)) ->
  link_iter m mem max_size (pred_of_vpred (py_predictor f) tags) (drift_frames v tags 0 frames)
  = link_iter m mem max_size no_pred frames.
Proof. exact gen_drift_compensated. Qed.
Print Assumptions C11_generated_drift_compensated.

(* ... and the library's own DriftPredict.predict with self.vel = v (movies of the dimension of v) *)
Theorem C11_generated_DriftPredict_compensated : forall m mem max_size v self tags frames,
  o_vel self = Some v -> Forall (Forall (fun p => List.length p = List.length v)) frames ->
  link_iter m mem max_size (pred_of_vpred (py_DriftPredict_predict self) tags) (drift_frames v tags 0 frames)
  = link_iter m mem max_size no_pred frames.
Proof. exact gen_DriftPredict_compensated. Qed.
Print Assumptions C11_generated_DriftPredict_compensated.

(* DriftPredict.predict itself: positions + vel * (t1 - t), particle by particle *)
Theorem C11_generated_DriftPredict_predict : forall self v t1 ps,
  o_vel self = Some v -> ps <> [] -> Forall (fun p => List.length (p_pos p) = List.length v) ps ->
  py_DriftPredict_predict self (Some t1) ps = POk (map (fun p => shift (scale (t1 - p_t p) v) (p_pos p)) ps).
Proof. exact gen_DriftPredict_predict_exact. Qed.
Print Assumptions C11_generated_DriftPredict_predict.

(* C11_null_predictor for the generated code: null_predict and NullPredict.predict are plain linking *)
Theorem C11_generated_null_predictor : forall m mem max_size self tags frames,
  link_iter m mem max_size (pred_of_vpred py_null_predict tags) frames = link_iter m mem max_size no_pred frames
  /\ link_iter m mem max_size (pred_of_vpred (py_NullPredict_predict self) tags) frames = link_iter m mem max_size no_pred frames.
Proof. exact gen_null_predictor_both. Qed.
Print Assumptions C11_generated_null_predictor.

(* NullPredict.wrap / link_df_iter, for all arguments (error cases included): the frames reach the linking
   function unchanged and in order, kw['predictor'] = "every particle stays where it was seen", observe
   changes nothing, every linked frame is yielded ([wrap_spec], Model/Predict2.v) *)
Theorem C11_generated_NullPredict_wrap : forall self lf args kw,
  py_NullPredict_wrap NullPredict_cls self lf args kw = wrap_spec self lf args kw
  /\ py_NullPredict_link_df_iter NullPredict_cls lf self args kw = wrap_spec self lf args kw.
Proof. exact gen_wrap_both. Qed.
Print Assumptions C11_generated_NullPredict_wrap.

Theorem C11_generated_NullPredict_wrap_single : forall self lf args kw,
  py_NullPredict_wrap_single NullPredict_cls self lf args kw = wrap_single_spec self lf args kw
  /\ py_NullPredict_link_df NullPredict_cls lf self args kw = wrap_single_spec self lf args kw.
Proof. exact gen_wrap_single_both. Qed.
Print Assumptions C11_generated_NullPredict_wrap_single.

(* NullPredict().link_df_iter with the model's link step as linking.link_df_iter: the yielded frames carry,
   label for label, the result of plain linking *)
Theorem C11_generated_NullPredict_link_df_iter_is_plain : forall m mem max_size tags self f0 fs rest kw pc labs,
  wrap_pos_columns self kw f0 = POk pc ->
  link_iter m mem max_size no_pred (map frame_pts (f0 :: fs)) = Ok labs ->
  py_NullPredict_link_df_iter NullPredict_cls (lf_model m mem max_size tags) self (AFrames (f0 :: fs) :: rest) kw
  = POk (wrap_self self kw pc, label_frames (f0 :: fs) labs).
Proof. exact gen_NullPredict_link_df_iter_plain. Qed.
Print Assumptions C11_generated_NullPredict_link_df_iter_is_plain.

(* C11_any_predictor_valid for the generated predictors is an instance of the theorem above (it holds
   for ANY pred, hence for pred_of_vpred P tags with P generated or not). *)
Theorem C11_generated_any_predictor_valid : forall m mem max_size (P : vpred) tags frames out,
  metric_ok m -> link_iter m mem max_size (pred_of_vpred P tags) frames = Ok out ->
  Forall2 (fun ds labs => List.length labs = List.length ds /\ NoDup labs) frames out.
Proof. exact (fun m mem max_size P tags => link_iter_valid m mem max_size (pred_of_vpred P tags)). Qed.
Print Assumptions C11_generated_any_predictor_valid.

(* non-vacuity: a Linker object with two points in its hash, one remembered point and the generated
   @predictor around an exact-drift function: the generated code puts the PREDICTED positions of all three
   sources into the source tree, hands out the OBSERVED destination coordinates, and leaves the stored
   positions alone *)
Definition C11_ex_heap : heap :=
  [ {| p_t := 5; p_pos := [0]; p_track := Some 0%nat; p_fc := [] |};
    {| p_t := 5; p_pos := [10]; p_track := Some 1%nat; p_fc := [] |};
    {| p_t := 3; p_pos := [20]; p_track := Some 2%nat; p_fc := [(Some 0%nat, 1)] |} ].
Definition C11_ex_linker : linker :=
  {| l_ndim := Some 1%nat;
     l_hash := Some {| h_ndim := Some 1%nat; h_points := [0; 1]%nat; h_t := None; h_predictor := None; h_clean := false;
                       h_kdtree := None; h_to_eucl := fun x => x |};
     l_mem_set := [2%nat];
     l_predictor := Some (py_predictor (fun t1 p => match t1 with Some t => shift (scale (t - p_t p) [100]) (p_pos p) | None => p_pos p end));
     l_to_eucl := None; l_dist_func := None; l_heap := C11_ex_heap |}.
Example C11_generated_example :
  match gen_level (fun s => s) C11_ex_linker [[101]; [299]] 6 with
  | POk lv => lv_src_coords lv = [[100]; [110]; [320]] /\ lv_dst_coords lv = [[101]; [299]]
              /\ map p_pos (derefs (l_heap (lv_linker lv)) (h_points (lv_src_hash lv))) = [[0]; [10]; [20]]
              /\ map p_pos (derefs (l_heap (lv_linker lv)) (h_points (lv_dst_hash lv))) = [[101]; [299]]
  | PRaises _ => False
  end.
Proof. vm_compute. repeat split. Qed.
