(* C14 — find_link re-finds lost features and emits only admissible ones.
   PROVED here: the SAFETY half, for the model of FindLinker as the code is now
   (isotropic parameters, integer pixel coordinates, integer images).
   NOT a theorem (monitored only by vp/props/c14.py on generated blob movies):
   the COMPLETENESS half ("returns the complete trajectories whatever is
   withheld") -- it depends on the blob images (a masked local maximum
   reappears at the blob), an analytic statement like C05.
   Only statements closed by [exact]; proofs live in Proofs/FindLink.v.

   Vocabulary (Proofs/FindLink.v):
     far k S a b        : S*S <= k*k*|a-b|^2          (a, b at least S/k apart)
     in_range m p q     : d2w (mw m) p q <= mR2 m      (q within search_range of p)
     off_margin sh r a  : r <= a_i <= sh_i - r - 1 on every axis
     separated k S l    : NoDup l and every two different points of l are far
     bg_covers P        : 0 < k, 0 < separation, slice_radius*k + separation*k <= bg_radius*k *)
From Coq Require Import ZArith NArith QArith List Permutation.
From TP Require Import Model.Assign Model.Link Model.LinkCheck Model.Dilation Model.FindLink Model.FindLinkCheck
     Proofs.Cands Proofs.Labels Proofs.FindLink.
Import ListNotations.
Open Scope Z_scope.

(* (1) Labels, for EVERY relocation oracle [rel] (whatever the image search
   returns): one step of FindLinker keeps the linker state valid, gives every
   feature of the new frame -- detected [ds] or added -- exactly one label, no
   label twice, and every feature it ADDED lies within search_range of the
   (predicted) position of a live source: a feature of the previous frame or a
   remembered one. *)
Theorem C14_labels_unique_added_in_range :
  forall m mem max_size pred, metric_ok m ->
  forall rel st ds st' labs D,
    state_ok mem st ->
    find_step m mem max_size pred rel st ds = Ok (st', labs, D) ->
    state_ok mem st' /\ now st' = S (now st) /\ length labs = length D /\ NoDup labs /\
    exists added, D = ds ++ added /\
      forall q, In q added -> exists s, In s (live st) /\ in_range m (pred (now st) s) q.
Proof. exact find_step_labels. Qed.
Print Assumptions C14_labels_unique_added_in_range.

(* (2) The masking argument.  A relocation candidate is never closer than
   separation to ANY point the frame already holds ([known] = self.hash: the
   detected points and the points added by earlier subnets), although only the
   points returned by the background query are masked -- provided the query
   radius covers (bg_covers), the threshold is not negative and all points
   have as many coordinates as the image has axes. *)
Theorem C14_candidates_far_from_known :
  forall P im t pos known,
    (forall t0, t = Some t0 -> (0 <= t0)%Q) ->
    Forall (fun p => length p = length (shape im)) pos ->
    Forall (fun b => length b = length (shape im)) known ->
    bg_covers P ->
    forall x b, In x (relocate_cands P im t pos known) -> In b known ->
                far (fk P) (sepk P) (fst x) b.
Proof. exact cand_far_from_known. Qed.
Print Assumptions C14_candidates_far_from_known.

(* (3) ... and FindLinker.__init__ as it is now (bg_radius = slice_radius +
   max(radius, separation) + 1) satisfies that hypothesis for all parameters. *)
Theorem C14_bg_radius_covers :
  forall ndim k srk sepk_ rad_ mm fx,
    0 < k -> 0 <= srk -> 0 < sepk_ -> 0 <= rad_ ->
    bg_covers (mk_params ndim k srk sepk_ rad_ mm false fx).
Proof. exact mk_params_covers. Qed.
Print Assumptions C14_bg_radius_covers.

(* (4) Every candidate of get_relocate_candidates is within search_range of one
   of the positions searched around; two candidates are at least separation
   apart; (code as it is now) every candidate lies outside the margin and has a
   finite mass of at least minmass. *)
Theorem C14_candidates_in_range :
  forall P im t pos known,
    (forall t0, t = Some t0 -> (0 <= t0)%Q) ->
    forall x, In x (relocate_cands P im t pos known) ->
      exists p, In p pos /\ in_range (fmet P) p (fst x).
Proof. exact cand_in_range. Qed.
Print Assumptions C14_candidates_in_range.

Theorem C14_candidates_pairwise_separated :
  forall P im t pos known,
    (forall t0, t = Some t0 -> (0 <= t0)%Q) ->
    0 < fk P -> 0 < sepk P ->
    NoDup (map fst (relocate_cands P im t pos known)) /\
    forall x y, In x (relocate_cands P im t pos known) -> In y (relocate_cands P im t pos known) ->
      fst x <> fst y -> far (fk P) (sepk P) (fst x) (fst y).
Proof.
  exact (fun P im t pos known Ht Hk Hs =>
           conj (cands_nodup P im t pos known) (cands_pairwise_far P im t pos known Ht Hk Hs)).
Qed.
Print Assumptions C14_candidates_pairwise_separated.

Theorem C14_candidates_margin_mass :
  forall P im t pos known,
    (forall t0, t = Some t0 -> (0 <= t0)%Q) ->
    fixed P = true ->
    forall x, In x (relocate_cands P im t pos known) ->
      off_margin (shape im) (rad P) (fst x) /\
      exists v, snd x = Some v /\ (minmass P <= inject_Z v)%Q.
Proof. exact cand_margin_mass. Qed.
Print Assumptions C14_candidates_margin_mass.

(* (5) Hence FindLinker's image search is an admissible relocation oracle
   (rel_ok: what it returns has the image's dimension, lies outside the margin,
   is pairwise separated and separated from everything known) ... *)
Theorem C14_image_search_admissible :
  forall P im t,
    bg_covers P -> fixed P = true -> (forall t0, t = Some t0 -> (0 <= t0)%Q) ->
    rel_ok (image_reloc P im t) (length (shape im)) (fk P) (sepk P) (off_margin (shape im) (rad P)).
Proof. exact image_reloc_ok. Qed.
Print Assumptions C14_image_search_admissible.

(* (6) ... and on ANY movie whose frames hand separated detected points of the
   right dimension to the linker (input_ok; C06 proves grey_dilation(precise)
   delivers that, and withholding detections keeps it), with admissible oracles,
   every output frame of find_link has one label per feature and no label twice,
   features pairwise at least separation apart, and the features it added lie
   outside the margin (Good) and within search_range of a feature of a
   preceding output frame (run_ok / frame_ok, written out in Proofs/FindLink.v). *)
Theorem C14_movie_safe :
  forall m mem max_size n k S Good,
    metric_ok m -> 0 < S ->
    forall f0 rest out,
      Forall (fun p => length p = n) f0 ->
      Forall (input_ok n k S Good) rest ->
      find_link_model m mem max_size no_pred f0 rest = Ok out ->
      exists labs0 out', out = (labs0, f0) :: out' /\ length labs0 = length f0 /\ NoDup labs0 /\
                         run_ok m k S Good [f0] rest out'.
Proof. exact find_link_safe. Qed.
Print Assumptions C14_movie_safe.

(* [frame_ok], unfolded, is the property's per-frame clause: *)
Theorem C14_frame_ok_unfolded :
  forall m k S Good hist ds labs D,
    frame_ok m k S Good hist ds labs D <->
    (length labs = length D /\ NoDup labs /\
     (NoDup D /\ forall a b, In a D -> In b D -> a <> b -> S * S <= k * k * sqd a b) /\
     exists added, D = ds ++ added /\ Forall Good added /\
       forall q, In q added -> exists D0 p, In D0 hist /\ In p D0 /\ d2w (mw m) p q <= mR2 m).
Proof. exact (fun m k S Good hist ds labs D => iff_refl _). Qed.

(* (7) The monitor run on the implementation's find_link output is sound: a movie
   it accepts has, in every frame, unique labels, features at least separation
   apart, every added feature within search_range of a feature of one of the
   memory+1 preceding frames, every feature outside the margin with a finite
   mass of at least minmass. *)
Theorem C14_monitor_sound :
  forall mp frames, check_movie mp frames = 0%N -> movie_admissible mp [] frames.
Proof. exact check_movie_sound. Qed.
Print Assumptions C14_monitor_sound.

(* (8) Regression witnesses for the two earlier states of the code. *)
(* F12: with the pinned bg_radius = slice_radius + radius + 1 a candidate 7 px from
   a known feature is accepted at separation 9. *)
Theorem C14_separation_refuted_old_bg_radius :
  let P := mk_params 2 2 7 18 2 0 true true in
  let im := spots 24 24 [(10, 13, 100)] in
  In ([10; 13], Some 100) (relocate_cands P im (Some (Qmake 50 1)) [[10; 10]] [[10; 20]]) /\
  ~ far (fk P) (sepk P) [10; 13] [10; 20] /\
  ~ bg_covers P /\
  relocate_cands (mk_params 2 2 7 18 2 0 false true) im (Some (Qmake 50 1)) [[10; 10]] [[10; 20]] = [].
Proof. exact separation_refuted_old_bg_radius. Qed.

(* F16: with the edge rejection on slice-relative coordinates the only candidate
   returned lies inside the margin and has no finite mass. *)
Theorem C14_margin_mass_refuted_old_edge_test :
  let im := spots 40 40 [(36, 20, 100); (26, 28, 100)] in
  relocate_cands (mk_params 2 1 5 9 4 0 false false) im (Some (Qmake 50 1)) [[32; 20]; [26; 27]] [] = [([36; 20], None)] /\
  ~ off_margin (shape im) 4 [36; 20] /\
  relocate_cands (mk_params 2 1 5 9 4 0 false true) im (Some (Qmake 50 1)) [[32; 20]; [26; 27]] [] = [([26; 28], Some 100)].
Proof. exact margin_mass_refuted_old_edge_test. Qed.

(* ------------------------------------------------------------ non-vacuity *)
(* the hypotheses of (2)-(6) are met by the default parameters (separation 9,
   search_range 5, radius 4) and the model then really relocates: two features,
   both withheld in the second frame, are re-found and keep their labels *)
Example C14_example_params : bg_covers (mk_params 2 1 5 9 4 0 false true) /\ fixed (mk_params 2 1 5 9 4 0 false true) = true.
Proof. split; [apply mk_params_covers; reflexivity || discriminate|reflexivity]. Qed.

Example C14_example_refinds :
  let P := mk_params 2 1 5 9 4 0 false true in
  let im := spots 40 40 [(33, 20, 100); (26, 28, 100)] in
  find_link_model (fmet P) 0 30 no_pred [[32; 20]; [26; 27]] [([], image_reloc P im (Some (Qmake 50 1)))]
  = Ok [([0; 1]%nat, [[32; 20]; [26; 27]]); ([0; 1]%nat, [[33; 20]; [26; 28]])].
Proof. exact find_link_refinds. Qed.

(* the monitor accepts a good frame pair and rejects a relocated feature in the margin *)
Example C14_example_monitor :
  let mp := {| m_met := {| mw := [1; 1]; mR2 := 25 |}; m_k := 1; m_sepk := 9; m_rad := 4;
               m_shape := [40; 40]; m_minmass := 0; m_mem := 0%nat |} in
  let f p l ms ad := {| f_pos := p; f_lab := l; f_mass := ms; f_added := ad |} in
  check_movie mp [[f [32; 20] 0%nat (Some (100 # 1)%Q) false]; [f [33; 20] 0%nat (Some (100 # 1)%Q) true]] = 0%N /\
  check_movie mp [[f [32; 20] 0%nat (Some (100 # 1)%Q) false]; [f [36; 20] 0%nat None true]] = 4%N.
Proof. split; reflexivity. Qed.
