(* C14 — find_link re-finds lost features and emits only admissible ones.
   PROVED here: the SAFETY half, for the model of FindLinker as the code is now
   (isotropic parameters, integer pixel coordinates, integer images).
   The COMPLETENESS half ("returns the complete trajectories whatever is
   withheld"; "equals detect-then-link") is proved at the end of this file,
   (9)-(13), for the model with FindLinker's image search abstracted into a
   relocation oracle: under executable hypotheses on the blob tracks plus ONE
   hypothesis on the oracle (finds: it returns the unknown blobs in range).
   That the real image search satisfies [finds] on blob images (a masked local
   maximum reappears at the blob) stays an analytic statement like C05: it is
   checked by enumeration on an example (13b) and otherwise monitored by
   vp/props/c14.py on generated blob movies.
   Only statements closed by [exact]; proofs live in Proofs/FindLink.v, Proofs/FindLink2.v.

   Vocabulary (Proofs/FindLink.v):
     far k S a b        : S*S <= k*k*|a-b|^2          (a, b at least S/k apart)
     in_range m p q     : d2w (mw m) p q <= mR2 m      (q within search_range of p)
     off_margin sh r a  : r <= a_i <= sh_i - r - 1 on every axis
     separated k S l    : NoDup l and every two different points of l are far
     bg_covers P        : 0 < k, 0 < separation, slice_radius*k + separation*k <= bg_radius*k *)
From Coq Require Import ZArith NArith QArith List Permutation.
From TP Require Import Model.Assign Model.Link Model.LinkCheck Model.Dilation Model.FindLink Model.FindLinkCheck
     Model.FindLink2 Proofs.Cands Proofs.Labels Proofs.FindLink Proofs.FindLink2.
Import ListNotations.
Open Scope Z_scope.

(* (1) Labels, for EVERY relocation oracle [rel] (whatever the image search
   returns): one step of FindLinker keeps the linker state valid, gives every
   feature of the new frame -- detected [ds] or added -- exactly one label, no
   label twice, and every feature it ADDED lies within search_range of the
   (predicted) position of a live source: a feature of the previous frame or a
   remembered one. *)
Theorem C14_labels_unique_added_in_range :
  forall m mem max_size pred, metric_ok m ->
  forall rel st ds st' labs D,
    state_ok mem st ->
    find_step m mem max_size pred rel st ds = Ok (st', labs, D) ->
    state_ok mem st' /\ now st' = S (now st) /\ length labs = length D /\ NoDup labs /\
    exists added, D = ds ++ added /\
      forall q, In q added -> exists s, In s (live st) /\ in_range m (pred (now st) s) q.
Proof. exact find_step_labels. Qed.
Print Assumptions C14_labels_unique_added_in_range.

(* (2) The masking argument.  A relocation candidate is never closer than
   separation to ANY point the frame already holds ([known] = self.hash: the
   detected points and the points added by earlier subnets), although only the
   points returned by the background query are masked -- provided the query
   radius covers (bg_covers), the threshold is not negative and all points
   have as many coordinates as the image has axes. *)
Theorem C14_candidates_far_from_known :
  forall P im t pos known,
    (forall t0, t = Some t0 -> (0 <= t0)%Q) ->
    Forall (fun p => length p = length (shape im)) pos ->
    Forall (fun b => length b = length (shape im)) known ->
    bg_covers P ->
    forall x b, In x (relocate_cands P im t pos known) -> In b known ->
                far (fk P) (sepk P) (fst x) b.
Proof. exact cand_far_from_known. Qed.
Print Assumptions C14_candidates_far_from_known.

(* (3) ... and FindLinker.__init__ as it is now (bg_radius = slice_radius +
   max(radius, separation) + 1) satisfies that hypothesis for all parameters. *)
Theorem C14_bg_radius_covers :
  forall ndim k srk sepk_ rad_ mm fx,
    0 < k -> 0 <= srk -> 0 < sepk_ -> 0 <= rad_ ->
    bg_covers (mk_params ndim k srk sepk_ rad_ mm false fx).
Proof. exact mk_params_covers. Qed.
Print Assumptions C14_bg_radius_covers.

(* (4) Every candidate of get_relocate_candidates is within search_range of one
   of the positions searched around; two candidates are at least separation
   apart; (code as it is now) every candidate lies outside the margin and has a
   finite mass of at least minmass. *)
Theorem C14_candidates_in_range :
  forall P im t pos known,
    (forall t0, t = Some t0 -> (0 <= t0)%Q) ->
    forall x, In x (relocate_cands P im t pos known) ->
      exists p, In p pos /\ in_range (fmet P) p (fst x).
Proof. exact cand_in_range. Qed.
Print Assumptions C14_candidates_in_range.

Theorem C14_candidates_pairwise_separated :
  forall P im t pos known,
    (forall t0, t = Some t0 -> (0 <= t0)%Q) ->
    0 < fk P -> 0 < sepk P ->
    NoDup (map fst (relocate_cands P im t pos known)) /\
    forall x y, In x (relocate_cands P im t pos known) -> In y (relocate_cands P im t pos known) ->
      fst x <> fst y -> far (fk P) (sepk P) (fst x) (fst y).
Proof.
  exact (fun P im t pos known Ht Hk Hs =>
           conj (cands_nodup P im t pos known) (cands_pairwise_far P im t pos known Ht Hk Hs)).
Qed.
Print Assumptions C14_candidates_pairwise_separated.

Theorem C14_candidates_margin_mass :
  forall P im t pos known,
    (forall t0, t = Some t0 -> (0 <= t0)%Q) ->
    fixed P = true ->
    forall x, In x (relocate_cands P im t pos known) ->
      off_margin (shape im) (rad P) (fst x) /\
      exists v, snd x = Some v /\ (minmass P <= inject_Z v)%Q.
Proof. exact cand_margin_mass. Qed.
Print Assumptions C14_candidates_margin_mass.

(* (5) Hence FindLinker's image search is an admissible relocation oracle
   (rel_ok: what it returns has the image's dimension, lies outside the margin,
   is pairwise separated and separated from everything known) ... *)
Theorem C14_image_search_admissible :
  forall P im t,
    bg_covers P -> fixed P = true -> (forall t0, t = Some t0 -> (0 <= t0)%Q) ->
    rel_ok (image_reloc P im t) (length (shape im)) (fk P) (sepk P) (off_margin (shape im) (rad P)).
Proof. exact image_reloc_ok. Qed.
Print Assumptions C14_image_search_admissible.

(* (6) ... and on ANY movie whose frames hand separated detected points of the
   right dimension to the linker (input_ok; C06 proves grey_dilation(precise)
   delivers that, and withholding detections keeps it), with admissible oracles,
   every output frame of find_link has one label per feature and no label twice,
   features pairwise at least separation apart, and the features it added lie
   outside the margin (Good) and within search_range of a feature of a
   preceding output frame (run_ok / frame_ok, written out in Proofs/FindLink.v). *)
Theorem C14_movie_safe :
  forall m mem max_size n k S Good,
    metric_ok m -> 0 < S ->
    forall f0 rest out,
      Forall (fun p => length p = n) f0 ->
      Forall (input_ok n k S Good) rest ->
      find_link_model m mem max_size no_pred f0 rest = Ok out ->
      exists labs0 out', out = (labs0, f0) :: out' /\ length labs0 = length f0 /\ NoDup labs0 /\
                         run_ok m k S Good [f0] rest out'.
Proof. exact find_link_safe. Qed.
Print Assumptions C14_movie_safe.

(* [frame_ok], unfolded, is the property's per-frame clause: *)
Theorem C14_frame_ok_unfolded :
  forall m k S Good hist ds labs D,
    frame_ok m k S Good hist ds labs D <->
    (length labs = length D /\ NoDup labs /\
     (NoDup D /\ forall a b, In a D -> In b D -> a <> b -> S * S <= k * k * sqd a b) /\
     exists added, D = ds ++ added /\ Forall Good added /\
       forall q, In q added -> exists D0 p, In D0 hist /\ In p D0 /\ d2w (mw m) p q <= mR2 m).
Proof. exact (fun m k S Good hist ds labs D => iff_refl _). Qed.

(* (7) The monitor run on the implementation's find_link output is sound: a movie
   it accepts has, in every frame, unique labels, features at least separation
   apart, every added feature within search_range of a feature of one of the
   memory+1 preceding frames, every feature outside the margin with a finite
   mass of at least minmass. *)
Theorem C14_monitor_sound :
  forall mp frames, check_movie mp frames = 0%N -> movie_admissible mp [] frames.
Proof. exact check_movie_sound. Qed.
Print Assumptions C14_monitor_sound.

(* (8) Regression witnesses for the two earlier states of the code. *)
(* F12: with the pinned bg_radius = slice_radius + radius + 1 a candidate 7 px from
   a known feature is accepted at separation 9. *)
Theorem C14_separation_refuted_old_bg_radius :
  let P := mk_params 2 2 7 18 2 0 true true in
  let im := spots 24 24 [(10, 13, 100)] in
  In ([10; 13], Some 100) (relocate_cands P im (Some (Qmake 50 1)) [[10; 10]] [[10; 20]]) /\
  ~ far (fk P) (sepk P) [10; 13] [10; 20] /\
  ~ bg_covers P /\
  relocate_cands (mk_params 2 2 7 18 2 0 false true) im (Some (Qmake 50 1)) [[10; 10]] [[10; 20]] = [].
Proof. exact separation_refuted_old_bg_radius. Qed.

(* F16: with the edge rejection on slice-relative coordinates the only candidate
   returned lies inside the margin and has no finite mass. *)
Theorem C14_margin_mass_refuted_old_edge_test :
  let im := spots 40 40 [(36, 20, 100); (26, 28, 100)] in
  relocate_cands (mk_params 2 1 5 9 4 0 false false) im (Some (Qmake 50 1)) [[32; 20]; [26; 27]] [] = [([36; 20], None)] /\
  ~ off_margin (shape im) 4 [36; 20] /\
  relocate_cands (mk_params 2 1 5 9 4 0 false true) im (Some (Qmake 50 1)) [[32; 20]; [26; 27]] [] = [([26; 28], Some 100)].
Proof. exact margin_mass_refuted_old_edge_test. Qed.

(* ------------------------------------------------------------ non-vacuity *)
(* the hypotheses of (2)-(6) are met by the default parameters (separation 9,
   search_range 5, radius 4) and the model then really relocates: two features,
   both withheld in the second frame, are re-found and keep their labels *)
Example C14_example_params : bg_covers (mk_params 2 1 5 9 4 0 false true) /\ fixed (mk_params 2 1 5 9 4 0 false true) = true.
Proof. split; [apply mk_params_covers; reflexivity || discriminate|reflexivity]. Qed.

Example C14_example_refinds :
  let P := mk_params 2 1 5 9 4 0 false true in
  let im := spots 40 40 [(33, 20, 100); (26, 28, 100)] in
  find_link_model (fmet P) 0 30 no_pred [[32; 20]; [26; 27]] [([], image_reloc P im (Some (Qmake 50 1)))]
  = Ok [([0; 1]%nat, [[32; 20]; [26; 27]]); ([0; 1]%nat, [[33; 20]; [26; 28]])].
Proof. exact find_link_refinds. Qed.

(* the monitor accepts a good frame pair and rejects a relocated feature in the margin *)
Example C14_example_monitor :
  let mp := {| m_met := {| mw := [1; 1]; mR2 := 25 |}; m_k := 1; m_sepk := 9; m_rad := 4;
               m_shape := [40; 40]; m_minmass := 0; m_mem := 0%nat |} in
  let f p l ms ad := {| f_pos := p; f_lab := l; f_mass := ms; f_added := ad |} in
  check_movie mp [[f [32; 20] 0%nat (Some (100 # 1)%Q) false]; [f [33; 20] 0%nat (Some (100 # 1)%Q) true]] = 0%N /\
  check_movie mp [[f [32; 20] 0%nat (Some (100 # 1)%Q) false]; [f [36; 20] 0%nat None true]] = 4%N.
Proof. split; reflexivity. Qed.

(* ================================================================ COMPLETENESS
   (9)-(13): the completeness half, for the MODEL of FindLinker with the image
   search abstracted into the frame's relocation oracle.  Proofs/FindLink2.v.

   A blob movie: first frame B0; per later frame the true blob positions B
   (blob i = i-th entry of every frame), the detections ds handed to the linker
   (the others are withheld) and the frame's relocation oracle rel
   (bframe = (B, ds, rel); linker_input forgets B).

   Hypotheses, exactly those used (all but the last are booleans, Model/FindLink2.v,
   evaluated in Coq on the generated movies by vp/props/c14.py):
     moves_b  m Bp B : same number of blobs; blob i moves AT MOST search_range
                       (d2w <= mR2: the property's "less than" is more than enough)
     cross_b  m Bp B : no blob comes within search_range of the PREVIOUS position
                       of ANOTHER blob  (for i <> j: d2w Bp_i B_j > mR2).
                       This is what "well-separated" must mean for the linker;
                       it follows from blobs of one frame being more than
                       2*search_range apart, and is weaker.  Neither separation
                       nor the 2*search_range merging of lost subnets adds a
                       constraint: under cross_b every source has its own blob
                       as the only candidate, however the subnets are merged.
     given_b  B ds   : ds is a duplicate-free selection of B -- ANY subset is
                       withheld; nothing that is not a blob is detected
     first frame complete: B0 itself is the first frame
     length B0 <= max_size: merge_lost_subnets may chain ALL lost features into
                       one subnet (each within 2*search_range of the next), so
                       SubnetOversizeException is excluded only by
                       #blobs <= MAX_SUB_NET_SIZE (or by blobs > 2*search_range apart)
     finds m Bp B rel: the ORACLE hypothesis (not a boolean; it is the analytic
                       statement about the blob images): searched around
                       previous blob positions pos, knowing blobs known, asked
                       for as many points as there are blobs of B within
                       search_range of pos that are not known, rel returns
                       exactly these blobs (anything it returns beyond
                       search_range is ignored).  For FindLinker's image search
                       this needs what (2)-(4) say it cannot do otherwise: the
                       blob outside the margin, mass >= minmass, at least
                       separation away from every known feature and from the
                       other candidates, above the percentile threshold, a local
                       maximum of the masked image, and NO other such maximum
                       within search_range.  So "well-separated" must also grant
                       blobs >= separation apart -- more than the property text
                       says explicitly.  finds_b checks the hypothesis by
                       enumeration for a concrete oracle (example (13b)).
   No hypothesis on memory, none on the metric (weights may be anything). *)

(* (9) one step: the live sources are the blobs of the previous frame, source of
   blob i labelled i (tracks_inv).  Whatever is withheld, the step returns the
   given detections plus added features, every blob of the new frame is there
   under its own label and nothing else (frame_complete), no exception is
   raised, and the new state is again the blobs under their own labels. *)
Theorem C14_step_complete :
  forall m mem max_size rel st Bp B ds,
    tracks_inv Bp st -> moves m Bp B -> cross m Bp B -> given B ds -> finds m Bp B rel ->
    (length Bp <= max_size)%nat ->
    exists st' labs added,
      find_step m mem max_size no_pred rel st ds = Ok (st', labs, ds ++ added) /\
      length labs = length (ds ++ added) /\
      frame_complete B labs (ds ++ added) /\ tracks_inv B st'.
Proof. exact find_step_tracks. Qed.
Print Assumptions C14_step_complete.

(* the hypotheses of (9), unfolded *)
Theorem C14_hypotheses_unfolded :
  forall m Bp B ds rel,
    (moves m Bp B <-> (length B = length Bp /\
        forall i p q, nth_error Bp i = Some p -> nth_error B i = Some q -> d2w (mw m) p q <= mR2 m)) /\
    (cross m Bp B <->
        forall i j p q, nth_error Bp i = Some p -> nth_error B j = Some q -> i <> j -> mR2 m < d2w (mw m) p q) /\
    (given B ds <-> (NoDup ds /\ incl ds B)) /\
    (finds m Bp B rel <->
        forall pos known, incl pos Bp -> NoDup pos -> incl known B -> NoDup known ->
          unknown_in_range m B pos known <> [] ->
          Permutation (filter (in_range_any m pos) (rel pos known (length (unknown_in_range m B pos known))))
                      (unknown_in_range m B pos known)).
Proof. exact (fun m Bp B ds rel => conj (iff_refl _) (conj (iff_refl _) (conj (iff_refl _) (iff_refl _)))). Qed.

(* [frame_complete], unfolded: the (label, position) pairs of the frame are
   exactly the pairs (i, blob i) *)
Theorem C14_frame_complete_unfolded :
  forall B labs D, frame_complete B labs D <-> Permutation (combine labs D) (combine (seq 0 (length B)) B).
Proof. exact (fun B labs D => iff_refl _). Qed.

(* (10) whole movies, by induction over the frames: for ANY pattern of withheld
   detections after the first frame the model of find_link raises nothing, and
   its output is the first frame followed, per frame, by the given detections
   plus added features forming exactly the blobs under their own labels. *)
Theorem C14_movie_complete :
  forall m mem max_size B0 (frames : list bframe),
    movie_hyp_b m B0 (map fst frames) = true ->      (* moves_b, cross_b, given_b for every frame *)
    oracles_find m B0 frames ->                      (* finds for every frame's oracle *)
    (length B0 <= max_size)%nat ->
    exists out,
      find_link_model m mem max_size no_pred B0 (map linker_input frames)
      = Ok ((seq 0 (length B0), B0) :: out) /\ out_complete frames out.
Proof. exact find_link_complete. Qed.
Print Assumptions C14_movie_complete.

Theorem C14_out_complete_unfolded :
  forall B ds rel frames labs D out,
    out_complete ((B, ds, rel) :: frames) ((labs, D) :: out) <->
    ((exists added, D = ds ++ added) /\ frame_complete B labs D /\ out_complete frames out).
Proof. exact (fun B ds rel frames labs D out => iff_refl _). Qed.

(* (11) detect-then-link (the plain Linker on the completely detected frames) gives
   blob i the label i in every frame ... *)
Theorem C14_detect_then_link :
  forall m mem max_size B0 Bs,
    blobs_ok m B0 Bs ->                               (* moves and cross between consecutive frames *)
    (length B0 <= max_size)%nat ->
    link_iter m mem max_size no_pred (B0 :: Bs) = Ok (map (fun B => seq 0 (length B)) (B0 :: Bs)).
Proof. exact link_iter_tracks. Qed.
Print Assumptions C14_detect_then_link.

(* (12) ... hence, whatever is withheld, find_link's output equals detect-then-link's:
   the same features under the same labels in every frame (same_tracks: per frame
   the (label, position) pairs are a permutation of each other) -- in particular
   the same partition of the detections into trajectories, all trajectories complete. *)
Theorem C14_equals_detect_then_link :
  forall m mem max_size B0 (frames : list bframe),
    movie_hyp_b m B0 (map fst frames) = true -> oracles_find m B0 frames ->
    (length B0 <= max_size)%nat ->
    exists out dl,
      find_link_model m mem max_size no_pred B0 (map linker_input frames) = Ok out /\
      link_iter m mem max_size no_pred (B0 :: map (fun f : bframe => fst (fst f)) frames) = Ok dl /\
      same_tracks out dl (B0 :: map (fun f : bframe => fst (fst f)) frames).
Proof. exact find_link_equals_detect_then_link. Qed.
Print Assumptions C14_equals_detect_then_link.

(* the hypothesis cross_b follows from a per-frame separation: blobs of the previous
   frame farther apart than 2*search_range, each moving at most search_range
   (isotropic metric as built by mk_params: weight k*k per axis, R = search_range*k) *)
Theorem C14_cross_from_twice_search_range :
  forall k n R Bp B,
    0 <= R ->
    let m := {| mw := repeat (k * k) n; mR2 := R * R |} in
    Forall (fun p => length p = n) Bp -> Forall (fun p => length p = n) B ->
    moves m Bp B ->
    (forall i j p p', nth_error Bp i = Some p -> nth_error Bp j = Some p' -> i <> j ->
                      4 * (R * R) < d2w (mw m) p p') ->
    cross m Bp B.
Proof. exact cross_of_twice. Qed.
Print Assumptions C14_cross_from_twice_search_range.

(* the oracle hypothesis is satisfiable for EVERY movie (the ideal oracle, which
   returns the unknown blobs within range), and checkable for a concrete oracle *)
Theorem C14_ideal_oracle_finds : forall m Bp B, finds m Bp B (blob_oracle m B).
Proof. exact blob_oracle_finds. Qed.
Theorem C14_finds_checkable : forall m Bp B rel, finds_b m Bp B rel = true -> finds m Bp B rel.
Proof. exact finds_b_sound. Qed.
Print Assumptions C14_finds_checkable.

(* (13) non-vacuity.  (a) three blobs, three later frames, all / one / no detection
   withheld, ideal oracle: the hypotheses of (10) hold, and the run is as (10) says *)
Example C14_example_complete_hyps :
  movie_hyp_b ex_m ex_B0 (map fst ex_frames) = true /\ oracles_find ex_m ex_B0 ex_frames /\ (length ex_B0 <= 30)%nat.
Proof. exact complete_example_hyps. Qed.

Example C14_example_complete_run :
  find_link_model ex_m 0 30 no_pred ex_B0 (map linker_input ex_frames)
  = Ok [([0; 1; 2]%nat, [[10; 10]; [10; 30]; [30; 20]]);
        ([2; 1; 0]%nat, [[30; 24]; [10; 26]; [13; 12]]);             (* nothing given: all three relocated *)
        ([2; 0; 1]%nat, [[27; 27]; [16; 14]; [12; 23]]);             (* blobs 2 and 0 given, blob 1 relocated *)
        ([0; 1; 2]%nat, [[16; 18]; [12; 23]; [25; 30]])].            (* everything given *)
Proof. exact complete_example_run. Qed.

(* (b) FindLinker's own image search as the oracle (search_range 5, separation 9,
   radius 4; one bright pixel per blob): the oracle hypothesis holds (checked by
   finds_b); everything withheld in the second frame, one blob in the third *)
Example C14_example_complete_image_hyps :
  let P := mk_params 2 1 5 9 4 0 false true in
  let t := Some (Qmake 50 1) in
  let frames : list bframe :=
    [([[33; 20]; [26; 28]], [], image_reloc P (spots 40 40 [(33, 20, 100); (26, 28, 100)]) t);
     ([[34; 21]; [27; 28]], [[27; 28]], image_reloc P (spots 40 40 [(34, 21, 100); (27, 28, 100)]) t)] in
  movie_hyp_b (fmet P) [[32; 20]; [26; 27]] (map fst frames) = true /\
  oracles_find (fmet P) [[32; 20]; [26; 27]] frames /\ (2 <= 30)%nat.
Proof. exact complete_image_example_hyps. Qed.

Example C14_example_complete_image_run :
  let P := mk_params 2 1 5 9 4 0 false true in
  let t := Some (Qmake 50 1) in
  find_link_model (fmet P) 0 30 no_pred [[32; 20]; [26; 27]]
    [([], image_reloc P (spots 40 40 [(33, 20, 100); (26, 28, 100)]) t);
     ([[27; 28]], image_reloc P (spots 40 40 [(34, 21, 100); (27, 28, 100)]) t)]
  = Ok [([0; 1]%nat, [[32; 20]; [26; 27]]); ([0; 1]%nat, [[33; 20]; [26; 28]]); ([1; 0]%nat, [[27; 28]; [34; 21]])].
Proof. exact complete_image_example_run. Qed.

(* ================================================================ ROUTE T
   (14)-(19): the relocation of lost features, for the code GENERATED from the current text
   of trackpy/linking/find_link.py (Gen/findlink.v, by tools/py2coq_findlink.py; vocabulary
   Model/PyFindlink.v; proofs Proofs/FindlinkGen.v):

     py_percentile_threshold      FindLinker.percentile_threshold (the per-frame threshold cache)
     py_get_relocate_candidates   FindLinker.get_relocate_candidates (slice, mask of the search
                                  region, mask of the already found features, threshold, box maxima,
                                  edge rejection, search-range filter, separation filter, mass,
                                  minmass selection, every early return)
     py_relocate                  FindLinker.relocate

   They are proved EQUAL, for all inputs, to the hand-written model the theorems above are
   stated about (relocate_cands / relocate / image_reloc with fixed = true), and (2), (4), (5),
   (6) are restated for them.  A returned pair (coordinates, extra_data) is read as the list of
   (coordinate, mass) pairs [cands_of]; a FindLinker object is the record [flinker]
   (parameters fl_P, frame image, frame number, the points self.hash holds = fl_known, the
   threshold cache, the percentile); np.percentile is the parameter [npp].

   NOT translated (what is missing for a route T of the whole of FindLinker): FindLinker.__init__
   (the derived radii: (3) stays a theorem about Model.FindLink.mk_params), assign_links /
   next_level and Subnets.include_lost / merge_lost_subnets / add_dest_points -- the subnet
   dictionary with its point attributes against the model's list of groups (find_groups /
   group_step) is an abstraction modulo dict order, not an equality; note also that the model
   keeps every relocated point within range in the frame whereas assign_links keeps only the
   CLAIMED ones (a superset: the safety theorems (1), (6) cover the code's frame).  The tie of
   that part stays the monitor (7) and the correspondence runs of vp/props/c14.py. *)
From TP Require Import Model.PyFind Model.PyFindlink Gen.findlink Proofs.FindlinkGen.

(* (14) the threshold cache: the generated percentile_threshold returns the threshold of the
   frame -- the cached one when the cache was filled for this frame number, else
   np.percentile of the non-black pixels (None on a black frame), which it then caches;
   after any call the cache holds for this frame and returns the same value. *)
Theorem C14_gen_threshold_cache :
  forall npp self,
    py_percentile_threshold npp self (fl_percentile self) = (thr_of npp self, after_thr npp self) /\
    (cached self = false -> thr_of npp self = fresh_thr npp self) /\
    cached (after_thr npp self) = true /\ thr_of npp (after_thr npp self) = thr_of npp self.
Proof.
  exact (fun npp self => conj (py_percentile_threshold_eq npp self)
          (conj (threshold_recomputed npp self)
             (conj (proj1 (threshold_cached_after npp self)) (proj1 (proj2 (threshold_cached_after npp self)))))).
Qed.
Print Assumptions C14_gen_threshold_cache.

Theorem C14_gen_threshold_unfolded :
  forall npp self,
    (cached self = optZ_eq (Some (fl_curr_t self)) (fst (fl_threshold self))) /\
    (thr_of npp self = if cached self then snd (fl_threshold self) else fresh_thr npp self) /\
    (fresh_thr npp self = match not_black (fl_image self) with [] => None | l => Some (npp l (fl_percentile self)) end).
Proof. exact (fun npp self => conj eq_refl (conj eq_refl eq_refl)). Qed.

(* (15) the generated get_relocate_candidates IS the model's relocate_cands (code as it is
   now), at the frame's threshold, searched around pos, against the points the hash holds;
   the call changes nothing of the object but (possibly) the threshold cache. *)
Theorem C14_gen_candidates_are_model :
  forall npp self pos,
    fixed (fl_P self) = true ->
    cands_of (fst (py_get_relocate_candidates npp self pos))
    = relocate_cands (fl_P self) (fl_image self) (thr_of npp self) pos (fl_known self).
Proof. exact py_get_relocate_candidates_eq. Qed.
Print Assumptions C14_gen_candidates_are_model.

Theorem C14_gen_candidates_state :
  forall npp self pos,
    snd (py_get_relocate_candidates npp self pos) = self \/
    snd (py_get_relocate_candidates npp self pos) = after_thr npp self.
Proof. exact py_get_relocate_candidates_state. Qed.

(* (16) generated relocate(pos, n) = the n best candidates = the relocation oracle image_reloc
   of (5), (6), (9)-(13). *)
Theorem C14_gen_relocate_is_oracle :
  forall npp self pos n,
    fixed (fl_P self) = true ->
    fst (py_relocate npp self pos n)
    = image_reloc (fl_P self) (fl_image self) (thr_of npp self) pos (fl_known self) n.
Proof. exact py_relocate_image_reloc. Qed.
Print Assumptions C14_gen_relocate_is_oracle.

(* (17) = (2), (4) for the generated code: a candidate it returns is at least separation away
   from every point the hash holds, within search_range of a searched position, outside the
   margin with a finite mass of at least minmass, and two candidates are at least separation apart. *)
Theorem C14_gen_candidates_admissible :
  forall npp self pos,
    fixed (fl_P self) = true ->
    (forall t0, thr_of npp self = Some t0 -> (0 <= t0)%Q) ->
    let P := fl_P self in
    let out := cands_of (fst (py_get_relocate_candidates npp self pos)) in
    (Forall (fun p => length p = length (shape (fl_image self))) pos ->
     Forall (fun b => length b = length (shape (fl_image self))) (fl_known self) ->
     bg_covers P ->
     forall x b, In x out -> In b (fl_known self) -> far (fk P) (sepk P) (fst x) b) /\
    (forall x, In x out -> exists p, In p pos /\ in_range (fmet P) p (fst x)) /\
    (forall x, In x out -> off_margin (shape (fl_image self)) (rad P) (fst x) /\
                           exists v, snd x = Some v /\ (minmass P <= inject_Z v)%Q) /\
    (0 < fk P -> 0 < sepk P ->
     NoDup (map fst out) /\
     forall x y, In x out -> In y out -> fst x <> fst y -> far (fk P) (sepk P) (fst x) (fst y)).
Proof.
  exact (fun npp self pos Hfix Hthr =>
    conj (gen_cand_far_from_known npp self pos Hfix Hthr)
      (conj (gen_cand_in_range npp self pos Hfix Hthr)
         (conj (gen_cand_margin_mass npp self pos Hfix Hthr) (gen_cand_pairwise npp self pos Hfix Hthr)))).
Qed.
Print Assumptions C14_gen_candidates_admissible.

(* (18) = (5): the generated relocate of a frame (object with the frame's image, number and
   cache; known = what self.hash holds at the call) is an admissible relocation oracle ... *)
Theorem C14_gen_relocate_admissible :
  forall npp P im curr_t cache perc,
    bg_covers P -> fixed P = true ->
    (forall t0, frame_thr npp im curr_t cache perc = Some t0 -> (0 <= t0)%Q) ->
    rel_ok (gen_reloc npp P im curr_t cache perc) (length (shape im)) (fk P) (sepk P) (off_margin (shape im) (rad P)).
Proof. exact gen_reloc_ok. Qed.
Print Assumptions C14_gen_relocate_admissible.

Theorem C14_gen_reloc_unfolded :
  forall npp P im curr_t cache perc pos known n,
    gen_reloc npp P im curr_t cache perc pos known n
    = fst (py_relocate npp (mk_flinker P im curr_t known cache perc) pos n).
Proof. exact (fun _ _ _ _ _ _ _ _ _ => eq_refl). Qed.

(* (19) = (6): ... so the model of find_link run with the GENERATED relocate as every frame's
   oracle (frames of one shape sh, separated detections, non-negative thresholds) has in every
   output frame one label per feature, no label twice, features pairwise at least separation
   apart, added features outside the margin and within search_range of a feature of a preceding
   output frame. *)
Theorem C14_gen_movie_safe :
  forall npp P mem max_size sh f0 (frames : list gframe) out,
    metric_ok (fmet P) -> 0 < sepk P -> bg_covers P -> fixed P = true ->
    Forall (fun p => length p = length sh) f0 ->
    Forall (gframe_ok npp P sh) frames ->
    find_link_model (fmet P) mem max_size no_pred f0 (map (g_input npp P) frames) = Ok out ->
    exists labs0 out', out = (labs0, f0) :: out' /\ length labs0 = length f0 /\ NoDup labs0 /\
                       run_ok (fmet P) (fk P) (sepk P) (off_margin sh (rad P)) [f0] (map (g_input npp P) frames) out'.
Proof. exact gen_movie_safe. Qed.
Print Assumptions C14_gen_movie_safe.

Theorem C14_gframe_unfolded :
  forall npp P sh (fr : gframe),
    (g_input npp P fr = (fst fr, gen_reloc npp P (g_im fr) (g_t fr) (g_cache fr) (g_perc fr))) /\
    (gframe_ok npp P sh fr <->
       (shape (g_im fr) = sh /\
        (forall t0, frame_thr npp (g_im fr) (g_t fr) (g_cache fr) (g_perc fr) = Some t0 -> (0 <= t0)%Q) /\
        separated (fk P) (sepk P) (fst fr) /\ Forall (fun p => length p = length sh) (fst fr))).
Proof. exact (fun npp P sh fr => conj eq_refl (iff_refl _)). Qed.

(* non-vacuity: on the example of (13b) the generated code, run inside Coq, re-finds the two
   withheld features -- the threshold cache empty, np.percentile answering 50 *)
Example C14_gen_example_refinds :
  let P := mk_params 2 1 5 9 4 0 false true in
  let im := spots 40 40 [(33, 20, 100); (26, 28, 100)] in
  let self := mk_flinker P im 1 [] (None, None) (Qmake 64 1) in
  fixed (fl_P self) = true /\
  thr_of (fun _ _ => Qmake 50 1) self = Some (Qmake 50 1) /\
  cands_of (fst (py_get_relocate_candidates (fun _ _ => Qmake 50 1) self [[32; 20]; [26; 27]]))
  = [([33; 20], Some 100); ([26; 28], Some 100)] /\
  fst (py_relocate (fun _ _ => Qmake 50 1) self [[32; 20]; [26; 27]] 2) = [[33; 20]; [26; 28]].
Proof. vm_compute. repeat split; reflexivity. Qed.

(* ================================================================ ROUTE T, part 2
   (20)-(28): the LINKING STEP of find_link, for the code GENERATED from the current text of
   trackpy/linking/find_link.py and subnet.py (Gen/findstep.v, by tools/py2coq_findstep.py; vocabulary
   Model/PyFindstep.v; proofs Proofs/FindstepGen.v, FindstepGen2-4.v, FindstepSafe.v):

     py_FindLinker_init       FindLinker.__init__ (radius, dilation_size, slice_radius, bg_radius, percentile, threshold cache)
     py_include_lost          Subnets.include_lost
     py_merge_lost_subnets    Subnets.merge_lost_subnets (subnets within 2*search_range of a lost source merged)
     py_add_dest_points       Subnets.add_dest_points (only re-found points within range become candidates)
     py_assign_links          FindLinker.assign_links (shortage -> relocate around the sources' positions -> add_dest_points ->
                              subnet linker -> ONLY THE CLAIMED re-found points are added to the frame hash, before the
                              next subnet is handled)
     py_next_level            FindLinker.next_level
     py_find_link_iter        find_link_iter: detection, before_link hook, minmass cut on the detected features, the
                              FindLinker built from the driver's own arguments (percentile included), the frame loop

   The model these are proved EQUAL to is Model/FindLink3.v (find_step_gs / find_link_gs): Model/FindLink.find_step
   with the two differences the code has: the subnets are those the code builds (code_dict: components of the
   sources that have a candidate, lost sources as subnets of their own, dictionary merging by key) visited in an
   order that is a PARAMETER (ord, any order that keeps the source points: ord_ok), and only the claimed relocated
   points enter the frame.  Full equality with find_step does not hold (find_step keeps every relocated point within
   range); the safety theorems (1), (6) are therefore proved again for find_step_gs, for ANY partition of the
   source points into subnets, and restated for the generated functions.

   NOT proved in this part (proved in part 3 below, (29)-(35)): the completeness half (9)-(12) for the generated step
   (C14_movie_complete for py_find_link_iter).  It needs: under the hypotheses of (9) every relocated point is claimed, so that
   find_step_gs coincides with find_step on the same subnets, and (9)/(10) generalised from find_groups to any
   partition (their proofs use nothing else).  Also not translated: after_link / refine, anisotropic ranges, the
   predictor's positions in hash order (theorems are for predictor = None), Subnets.__init__ / the subnet linker /
   update_hash / apply_links (route T of C01-C02, named primitives here). *)
From TP Require Import Model.FindLink3 Model.PyFindstep Gen.findstep Proofs.FindstepGen Proofs.FindstepGen2 Proofs.FindstepGen3
     Proofs.FindstepSafe Proofs.FindstepGen4.

(* (20) = (3) for the generated __init__: the parameters it derives ARE mk_params (bg_radius with max(radius,
   separation)), the user's percentile and minmass are stored, the threshold cache starts empty; hence bg_covers. *)
Theorem C14_gen_init_is_mk_params :
  forall k sr sep diam mm perc kw,
    let d := match diam with Some d => d | None => sep end in
    let o := py_FindLinker_init k sr sep diam mm perc kw in
    params_of o = mk_params (t_n sr) k (t_v sr) (t_v sep) (t_v d / (2 * k)) mm false true /\
    i_percentile o = perc /\ i_threshold o = (None, None) /\ i_memory o = kw_memory kw /\ i_minmass o = mm.
Proof. exact py_FindLinker_init_eq. Qed.
Print Assumptions C14_gen_init_is_mk_params.

Theorem C14_gen_init_bg_covers :
  forall k sr sep diam mm perc kw,
    0 < k -> 0 <= t_v sr -> 0 < t_v sep -> 0 <= t_v (match diam with Some d => d | None => sep end) / (2 * k) ->
    bg_covers (params_of (py_FindLinker_init k sr sep diam mm perc kw)) /\
    fixed (params_of (py_FindLinker_init k sr sep diam mm perc kw)) = true.
Proof. exact init_covers. Qed.
Print Assumptions C14_gen_init_bg_covers.

(* (21) the generated Subnets methods are the model's dictionary operations *)
Theorem C14_gen_include_lost :
  forall s, py_include_lost s = set_sn_includes_lost (set_sn_subnets s (include_lost_c (sn_subnets s) (sn_points s))) true.
Proof. exact py_include_lost_eq. Qed.
Print Assumptions C14_gen_include_lost.

Theorem C14_gen_merge_lost_subnets :
  forall s m, sn_includes_lost s = true ->
    py_merge_lost_subnets s m = set_sn_subnets s (merge_lost_c m (sn_pos s) (sn_npts s) (sn_subnets s)).
Proof. exact py_merge_lost_subnets_eq. Qed.
Print Assumptions C14_gen_merge_lost_subnets.

Theorem C14_merge_lost_unfolded :
  forall m pos n d,
    merge_lost_c m pos n d
    = fold_left (fun d (p : item) =>
        fold_left (fun d wp => merge_one d (fst p) wp)
                  (filter (fun j => d2w (mw m) (pos (fst p)) (pos j) <=? 4 * mR2 m) (seq 0 n)) d)   (* within 2*search_range *)
        (lost_sources d) d.
Proof. exact (fun _ _ _ _ => eq_refl). Qed.

Theorem C14_gen_add_dest_points :
  forall s g dp m base,
    let new := filter (in_range_of s m g) dp in                  (* only the points within range of a source of the subnet *)
    py_add_dest_points s g dp m base = (map (extend_raw m (sn_pos s) new base) g, number_from base new).
Proof. exact py_add_dest_points_eq. Qed.
Print Assumptions C14_gen_add_dest_points.

(* (22) the subnets the code builds are a partition of the source points (every source in exactly one subnet) *)
Theorem C14_gen_subnets_partition :
  forall m pred st ds, Permutation (concat (map snd (code_dict m pred st ds))) (raw_items m pred st ds).
Proof. exact code_dict_partition. Qed.
Print Assumptions C14_gen_subnets_partition.

(* (23) generated next_level (with assign_links inside) = the model of the code, for every relocate method, every
   visiting order of the subnet dictionary that keeps the source points, every linker without predictor *)
Theorem C14_gen_next_level_is_model :
  forall relocate_m ord (self : flk) coords t im,
    ord_ok ord -> k_pred self = None ->
    let m := k_met self in
    let rel := relocate_m (params_of (k_init self)) im t (i_threshold (k_init self)) (i_percentile (k_init self)) in
    map_result flk_view (py_next_level relocate_m ord self coords t im)
    = find_step_gs m (k_mem self) (k_max self) no_pred rel (gen_grouping ord m (k_st self) coords) (k_st self) coords.
Proof. exact py_next_level_gen. Qed.
Print Assumptions C14_gen_next_level_is_model.

Theorem C14_ord_unfolded :
  forall ord, (ord_ok ord <-> forall d, Permutation (concat (ord d)) (concat (map snd d))) /\ ord_ok (map snd).
Proof. exact (fun ord => conj (iff_refl _) ord_snd_ok). Qed.

(* the claimed-only rule of the model of the code, unfolded: after a subnet with relocated points [new] (numbered
   from c_next) is solved with links l, exactly the points some link claims are appended to the frame *)
Theorem C14_claimed_only_unfolded :
  forall m max_size pred rel st ds a g,
    group_step_c m max_size pred rel st ds a g =
    let sh := shortage g in
    let pos := map (fun it : item => src_pos pred st (fst it)) g in
    let new := if (0 <? sh)%nat then filter (in_range_any m pos) (rel pos (ds ++ c_added a) sh) else [] in
    match solve_group max_size (map (ext_item m pred st ds new (c_next a)) g) with
    | Oversize => Oversize
    | Ok l =>
      let mask := map (claimed_b l) (seq (c_next a) (length new)) in
      Ok {| c_added := c_added a ++ keep mask new;
            c_ids := c_ids a ++ keep mask (seq (c_next a) (length new));
            c_next := (c_next a + length new)%nat;
            c_links := c_links a ++ l |}
    end.
Proof. exact (fun _ _ _ _ _ _ _ _ => eq_refl). Qed.

(* (24) = (1) for the model of the code: for EVERY partition gs of the source points into subnets ... *)
Theorem C14_code_step_labels :
  forall m mem max_size pred rel gs st ds st' labs D,
    metric_ok m -> state_ok mem st ->
    Permutation (concat gs) (raw_items m pred st ds) ->
    find_step_gs m mem max_size pred rel gs st ds = Ok (st', labs, D) ->
    state_ok mem st' /\ now st' = S (now st) /\ length labs = length D /\ NoDup labs /\
    exists added, D = ds ++ added /\
      forall q, In q added -> exists s, In s (live st) /\ in_range m (pred (now st) s) q.
Proof. exact find_step_gs_labels. Qed.
Print Assumptions C14_code_step_labels.

(* ... and for the GENERATED next_level: valid linker state, one label per feature, no label twice, every feature it
   added within search_range of a live source *)
Theorem C14_gen_step_labels :
  forall relocate_m ord (self self' : flk) coords t im,
    ord_ok ord -> k_pred self = None -> metric_ok (k_met self) -> state_ok (k_mem self) (k_st self) ->
    py_next_level relocate_m ord self coords t im = Ok self' ->
    state_ok (k_mem self) (k_st self') /\ now (k_st self') = S (now (k_st self)) /\
    length (k_labs self') = length (hash_points self') /\ NoDup (k_labs self') /\
    exists added, hash_points self' = coords ++ added /\
      forall q, In q added -> exists s, In s (live (k_st self)) /\ in_range (k_met self) (s_pos s) q.
Proof. exact gen_step_labels. Qed.
Print Assumptions C14_gen_step_labels.

(* (25) = (6) for the model of the code, any grouping that partitions the source points *)
Theorem C14_code_movie_safe :
  forall m mem max_size n k S Good (grp : grouping),
    metric_ok m -> 0 < S ->
    (forall st ds, Permutation (concat (grp st ds)) (raw_items m no_pred st ds)) ->
    forall f0 rest out,
      Forall (fun p => length p = n) f0 ->
      Forall (input_ok n k S Good) rest ->
      find_link_gs m mem max_size no_pred grp f0 rest = Ok out ->
      exists labs0 out', out = (labs0, f0) :: out' /\ length labs0 = length f0 /\ NoDup labs0 /\
                         run_ok m k S Good [f0] rest out'.
Proof. exact find_link_gs_safe. Qed.
Print Assumptions C14_code_movie_safe.

(* (26) the generated driver IS the model of the code run on: the detections at the user's separation / percentile /
   margin after before_link and the minmass cut; the parameters the generated __init__ derives from the driver's
   arguments; every frame's oracle = the relocate method with THE USER'S percentile and an empty threshold cache. *)
Theorem C14_gen_driver_is_model :
  forall relocate_m ord gd ch k max_size r0 rest sr sep diam perc mm pf bl kw,
    ord_ok ord ->
    let ndim := py_len (np_shape (r_image r0)) in
    let sr' := validate_tup sr ndim in
    let sep' := validate_tup sep ndim in
    let d' := match diam with None => sep' | Some d => validate_tup d ndim end in
    let pf' := match pf with None => identity_proc | Some f => f end in
    let dets := detections gd ch k sep' d' perc mm pf' bl in
    let init0 := py_FindLinker_init k sr' sep' (Some d') mm perc kw in
    margins_cover (np_shape (r_image r0)) (tup_map (fun d => num_half_int k d) d') = false ->
    py_find_link_iter relocate_m ord gd ch k max_size (r0, rest) sr sep diam perc mm pf bl kw
    = Some (find_link_gs (fmet (params_of init0)) (kw_memory kw) max_size no_pred (gen_grouping ord (fmet (params_of init0)))
              (dets r0) (map (frame_of relocate_m init0 dets pf') rest)).
Proof. exact py_find_link_iter_model. Qed.
Print Assumptions C14_gen_driver_is_model.

Theorem C14_driver_frames_unfolded :
  forall relocate_m (init0 : flinit) dets pf gd ch k sep diam perc mm bl (fr : rframe),
    frame_of relocate_m init0 dets pf fr
    = (dets fr, relocate_m (params_of init0) (pf (r_image fr)) (r_no fr) (i_threshold init0) (i_percentile init0)) /\
    detections gd ch k sep diam perc mm pf bl fr
    = (let radius := tup_map (fun d => num_half_int k d) diam in
       let c0 := gd (pf (r_image fr)) sep perc radius in
       let c1 := match bl with Some f => f c0 fr (pf (r_image fr)) | None => c0 end in
       mask_select (vec_ge_minmass (extra_mass (ch c1 (r_image fr) radius)) mm) c1).
Proof. exact (fun _ _ _ _ _ _ _ _ _ _ _ _ _ => conj eq_refl eq_refl). Qed.

(* (27) = C14_movie_safe for the GENERATED code end to end (generated find_link_iter, generated __init__, generated
   next_level / assign_links / Subnets methods, generated relocate of (14)-(19) as the relocate method): every output
   frame has one label per feature, no label twice, features pairwise at least separation apart, added features
   outside the margin and within search_range of a feature of a preceding output frame. *)
Theorem C14_gen_driver_movie_safe :
  forall npp ord gd ch k max_size r0 rest sr sep diam perc mm pf bl kw sh out,
    ord_ok ord ->
    let ndim := py_len (np_shape (r_image r0)) in
    let sr' := validate_tup sr ndim in
    let sep' := validate_tup sep ndim in
    let d' := match diam with None => sep' | Some d => validate_tup d ndim end in
    let pf' := match pf with None => identity_proc | Some f => f end in
    let dets := detections gd ch k sep' d' perc mm pf' bl in
    let P := params_of (py_FindLinker_init k sr' sep' (Some d') mm perc kw) in
    0 < k -> 0 <= t_v sr -> 0 < t_v sep -> 0 <= t_v d' / (2 * k) -> metric_ok (fmet P) ->
    Forall (fun p => length p = length sh) (dets r0) ->
    Forall (dframe_ok npp P perc sh pf' dets) rest ->
    py_find_link_iter (gen_reloc npp) ord gd ch k max_size (r0, rest) sr sep diam perc mm pf bl kw = Some (Ok out) ->
    exists labs0 out', out = (labs0, dets r0) :: out' /\ length labs0 = length (dets r0) /\ NoDup labs0 /\
      run_ok (fmet P) (fk P) (sepk P) (off_margin sh (rad P)) [dets r0]
             (map (frame_of (gen_reloc npp) (py_FindLinker_init k sr' sep' (Some d') mm perc kw) dets pf') rest) out'.
Proof. exact gen_driver_safe. Qed.
Print Assumptions C14_gen_driver_movie_safe.

Theorem C14_dframe_unfolded :
  forall npp P perc sh pf dets fr,
    dframe_ok npp P perc sh pf dets fr <->
    (shape (pf (r_image fr)) = sh /\
     (forall t0, frame_thr npp (pf (r_image fr)) (r_no fr) (None, None) perc = Some t0 -> (0 <= t0)%Q) /\
     separated (fk P) (sepk P) (dets fr) /\ Forall (fun p => length p = length sh) (dets fr)).
Proof. exact (fun _ _ _ _ _ _ _ => iff_refl _). Qed.

(* (28) non-vacuity: the generated driver, run inside Coq on the example of (13b) (two frames; detection returns
   the two features in the first frame and nothing in the second; np.percentile answering 50): both withheld
   features are re-found, claimed and keep their labels *)
Example C14_gen_driver_example :
  let im0 := spots 40 40 [(32, 20, 100); (26, 27, 100)] in
  let im1 := spots 40 40 [(33, 20, 100); (26, 28, 100)] in
  let gd := fun (im : image) (_ : tup) (_ : Q) (_ : tup) => if pix im [32; 20] =? 100 then [[32; 20]; [26; 27]] else [] in
  let ch := fun (c : list pt) (_ : image) (_ : tup) => map (fun _ => Some 100) c in
  py_find_link_iter (gen_reloc (fun _ _ => Qmake 50 1)) (map snd) gd ch 1 30
    (mk_rframe im0 0, [mk_rframe im1 1]) (mk_tup 5 2) (mk_tup 9 2) None (Qmake 64 1) 0 None None (mk_kw 0 false)
  = Some (Ok [([0; 1]%nat, [[32; 20]; [26; 27]]); ([0; 1]%nat, [[33; 20]; [26; 28]])]).
Proof. vm_compute. reflexivity. Qed.

(* ================================================================ ROUTE T, part 3
   (29)-(35): COMPLETENESS for the model of the code (Model/FindLink3.v) and for the GENERATED step and driver
   (Gen/findstep.v) -- the item named "NOT proved" above.  Proofs/FindstepComplete.v, FindstepComplete2.v.

   What was missing and is proved here:
     (a) under the hypotheses of (9) every relocated point is claimed by a link of its own subnet, so the
         claimed-only rule of the code drops nothing and the links need no renumbering: on the same subnets
         find_step_gs returns what find_step returns (29);
     (b) (9), (10), (12) hold for ANY partition of the source points into subnets -- raw source points, visited in
         any order (30)-(32); in particular for the subnets the code builds (code_groups, gen_grouping);
   hence (33)-(35) for the generated next_level and the generated driver py_find_link_iter with the generated
   relocate as every frame's oracle.  Hypotheses: those of (9)/(10), nothing added (the oracle hypothesis
   [finds] stays the analytic statement about the blob images, checkable by enumeration: finds_b). *)
From TP Require Import Proofs.FindstepComplete Proofs.FindstepComplete2.

(* (29) = (a): on the subnets of the first model the model of the code IS the first model *)
Theorem C14_code_step_coincides :
  forall m mem max_size rel st Bp B ds,
    tracks_inv Bp st -> moves m Bp B -> cross m Bp B -> given B ds -> finds m Bp B rel ->
    (length Bp <= max_size)%nat ->
    find_step_gs m mem max_size no_pred rel (find_groups m no_pred st ds) st ds
    = find_step m mem max_size no_pred rel st ds.
Proof. exact find_step_gs_coincides. Qed.
Print Assumptions C14_code_step_coincides.

(* (30) = (9) for the model of the code, for EVERY partition gs of the (raw) source points into subnets: whatever is
   withheld, the step raises nothing, returns the given detections plus added (= claimed relocated) features, every
   blob of the new frame is there under its own label and nothing else, and the new state is again the blobs under
   their own labels *)
Theorem C14_code_step_complete :
  forall m mem max_size rel gs st Bp B ds,
    Permutation (concat gs) (raw_items m no_pred st ds) ->
    tracks_inv Bp st -> moves m Bp B -> cross m Bp B -> given B ds -> finds m Bp B rel ->
    (length Bp <= max_size)%nat ->
    exists st' labs added,
      find_step_gs m mem max_size no_pred rel gs st ds = Ok (st', labs, ds ++ added) /\
      length labs = length (ds ++ added) /\
      frame_complete B labs (ds ++ added) /\ tracks_inv B st'.
Proof. exact find_step_gs_tracks. Qed.
Print Assumptions C14_code_step_complete.

(* ... in particular on the subnets the code builds (components of the sources that have a candidate, lost sources
   as subnets of their own, merge_lost_subnets by dictionary key) *)
Theorem C14_code_groups_step_complete :
  forall m mem max_size rel st Bp B ds,
    tracks_inv Bp st -> moves m Bp B -> cross m Bp B -> given B ds -> finds m Bp B rel ->
    (length Bp <= max_size)%nat ->
    exists st' labs added,
      find_step_gs m mem max_size no_pred rel (code_groups m no_pred st ds) st ds = Ok (st', labs, ds ++ added) /\
      length labs = length (ds ++ added) /\
      frame_complete B labs (ds ++ added) /\ tracks_inv B st'.
Proof. exact find_step_c_tracks. Qed.
Print Assumptions C14_code_groups_step_complete.

(* (31) = (10) for the model of the code, the grouping of every step any partition of the source points *)
Theorem C14_code_movie_complete :
  forall m mem max_size (grp : grouping),
    (forall st ds, Permutation (concat (grp st ds)) (raw_items m no_pred st ds)) ->
    forall B0 (frames : list bframe),
      movie_hyp_b m B0 (map fst frames) = true ->      (* moves_b, cross_b, given_b for every frame *)
      oracles_find m B0 frames ->                      (* finds for every frame's oracle *)
      (length B0 <= max_size)%nat ->
      exists out,
        find_link_gs m mem max_size no_pred grp B0 (map linker_input frames)
        = Ok ((seq 0 (length B0), B0) :: out) /\ out_complete frames out.
Proof. exact find_link_gs_complete. Qed.
Print Assumptions C14_code_movie_complete.

(* (32) = (12) for the model of the code *)
Theorem C14_code_equals_detect_then_link :
  forall m mem max_size (grp : grouping),
    (forall st ds, Permutation (concat (grp st ds)) (raw_items m no_pred st ds)) ->
    forall B0 (frames : list bframe),
      movie_hyp_b m B0 (map fst frames) = true -> oracles_find m B0 frames ->
      (length B0 <= max_size)%nat ->
      exists out dl,
        find_link_gs m mem max_size no_pred grp B0 (map linker_input frames) = Ok out /\
        link_iter m mem max_size no_pred (B0 :: map (fun f : bframe => fst (fst f)) frames) = Ok dl /\
        same_tracks out dl (B0 :: map (fun f : bframe => fst (fst f)) frames).
Proof. exact find_link_gs_equals_detect_then_link. Qed.
Print Assumptions C14_code_equals_detect_then_link.

(* (33) = (9) for the GENERATED next_level (generated assign_links / Subnets methods inside), every relocate method,
   every visiting order of the subnet dictionary that keeps the source points: the linker's tracks being the blobs
   of the previous frame under their own labels, the generated step raises nothing, the frame hash holds the given
   detections plus added features = exactly the blobs under their own labels, and the tracks are again the blobs *)
Theorem C14_gen_step_complete :
  forall relocate_m ord (self : flk) coords t im Bp B,
    ord_ok ord -> k_pred self = None ->
    let m := k_met self in
    let rel := relocate_m (params_of (k_init self)) im t (i_threshold (k_init self)) (i_percentile (k_init self)) in
    tracks_inv Bp (k_st self) -> moves m Bp B -> cross m Bp B -> given B coords -> finds m Bp B rel ->
    (length Bp <= k_max self)%nat ->
    exists self' added,
      py_next_level relocate_m ord self coords t im = Ok self' /\
      hash_points self' = coords ++ added /\
      length (k_labs self') = length (coords ++ added) /\
      frame_complete B (k_labs self') (coords ++ added) /\ tracks_inv B (k_st self').
Proof. exact gen_step_complete. Qed.
Print Assumptions C14_gen_step_complete.

(* (34) = (10) = C14_movie_complete for the GENERATED code end to end: generated find_link_iter, generated __init__,
   generated next_level / assign_links / Subnets methods, generated relocate of (14)-(19) as the relocate method.
   The movie: the first frame r0 and, per later frame, the true blobs B with the reader's frame fr; the driver is
   handed the frames only.  What the linker is given in a frame is what the driver's own detection chain returns on
   it (dets: grey_dilation, before_link -- the hook that withholds detections --, minmass cut), the oracle of the
   frame is the generated relocate on the frame's (preprocessed) image at the user's percentile with an empty
   threshold cache (C14_gen_movie_frames_unfolded).  Hypotheses as in (10): the detection of the first frame is
   complete (= B0); moves_b, cross_b, given_b for every later frame; the oracle hypothesis for every frame;
   #blobs <= max_size; and the margin does not cover the image (else find_link_iter raises ValueError).
   Then the generated driver raises nothing and returns the first frame followed, per frame, by the given
   detections plus added features forming exactly the blobs under their own labels. *)
Theorem C14_gen_driver_movie_complete :
  forall npp ord gd ch k max_size r0 (movie : list (list pt * rframe)) sr sep diam perc mm pf bl kw B0,
    ord_ok ord ->
    let ndim := py_len (np_shape (r_image r0)) in
    let sr' := validate_tup sr ndim in
    let sep' := validate_tup sep ndim in
    let d' := match diam with None => sep' | Some d => validate_tup d ndim end in
    let pf' := match pf with None => identity_proc | Some f => f end in
    let dets := detections gd ch k sep' d' perc mm pf' bl in
    let init0 := py_FindLinker_init k sr' sep' (Some d') mm perc kw in
    let m := fmet (params_of init0) in
    let frames := map (bframe_of (gen_reloc npp) init0 dets pf') movie in
    margins_cover (np_shape (r_image r0)) (tup_map (fun d => num_half_int k d) d') = false ->
    dets r0 = B0 ->
    movie_hyp_b m B0 (map fst frames) = true -> oracles_find m B0 frames ->
    (length B0 <= max_size)%nat ->
    exists out,
      py_find_link_iter (gen_reloc npp) ord gd ch k max_size (r0, map snd movie) sr sep diam perc mm pf bl kw
      = Some (Ok ((seq 0 (length B0), B0) :: out)) /\ out_complete frames out.
Proof. exact (fun npp ord gd ch k max_size r0 movie sr sep diam perc mm pf bl kw B0 Ho =>
                gen_driver_complete (gen_reloc npp) ord Ho gd ch k max_size r0 movie sr sep diam perc mm pf bl kw B0). Qed.
Print Assumptions C14_gen_driver_movie_complete.

Theorem C14_gen_movie_frames_unfolded :
  forall npp k sr sep diam mm perc kw dets pf B fr,
    bframe_of (gen_reloc npp) (py_FindLinker_init k sr sep diam mm perc kw) dets pf (B, fr)
    = (B, dets fr,
       gen_reloc npp (params_of (py_FindLinker_init k sr sep diam mm perc kw)) (pf (r_image fr)) (r_no fr) (None, None) perc).
Proof. exact bframe_of_gen. Qed.

(* (35) = (12) = C14_equals_detect_then_link for the GENERATED driver: whatever is withheld, its output equals
   detect-then-link's (the plain Linker on the completely detected frames B0 :: blobs): the same features under the
   same labels in every frame *)
Theorem C14_gen_driver_equals_detect_then_link :
  forall npp ord gd ch k max_size r0 (movie : list (list pt * rframe)) sr sep diam perc mm pf bl kw B0,
    ord_ok ord ->
    let ndim := py_len (np_shape (r_image r0)) in
    let sr' := validate_tup sr ndim in
    let sep' := validate_tup sep ndim in
    let d' := match diam with None => sep' | Some d => validate_tup d ndim end in
    let pf' := match pf with None => identity_proc | Some f => f end in
    let dets := detections gd ch k sep' d' perc mm pf' bl in
    let init0 := py_FindLinker_init k sr' sep' (Some d') mm perc kw in
    let m := fmet (params_of init0) in
    let frames := map (bframe_of (gen_reloc npp) init0 dets pf') movie in
    margins_cover (np_shape (r_image r0)) (tup_map (fun d => num_half_int k d) d') = false ->
    dets r0 = B0 ->
    movie_hyp_b m B0 (map fst frames) = true -> oracles_find m B0 frames ->
    (length B0 <= max_size)%nat ->
    exists out dl,
      py_find_link_iter (gen_reloc npp) ord gd ch k max_size (r0, map snd movie) sr sep diam perc mm pf bl kw = Some (Ok out) /\
      link_iter m (kw_memory kw) max_size no_pred (B0 :: map fst movie) = Ok dl /\
      same_tracks out dl (B0 :: map fst movie).
Proof. exact (fun npp ord gd ch k max_size r0 movie sr sep diam perc mm pf bl kw B0 Ho =>
                gen_driver_equals_detect_then_link (gen_reloc npp) ord Ho gd ch k max_size r0 movie sr sep diam perc mm pf bl kw B0). Qed.
Print Assumptions C14_gen_driver_equals_detect_then_link.

(* non-vacuity: the movie of (13b) (two blobs, three frames; grey_dilation returns both features in the first frame,
   nothing in the second and one of the two in the third; np.percentile answering 50) through the GENERATED driver:
   the hypotheses of (34) hold -- the oracle hypothesis for the generated relocate checked by enumeration (finds_b) -- *)
Example C14_gen_driver_complete_example_hyps :
  let frames := map (bframe_of (gen_reloc exg_npp) exg_init exg_dets identity_proc) exg_movie in
  margins_cover (np_shape exg_im0) (tup_map (fun d => num_half_int 1 d) (mk_tup 9 2)) = false /\
  exg_dets (mk_rframe exg_im0 0) = [[32; 20]; [26; 27]] /\
  movie_hyp_b (fmet (params_of exg_init)) [[32; 20]; [26; 27]] (map fst frames) = true /\
  oracles_find (fmet (params_of exg_init)) [[32; 20]; [26; 27]] frames /\ (2 <= 30)%nat.
Proof. exact gen_driver_complete_example_hyps. Qed.

Theorem C14_gen_example_unfolded :
  exg_im0 = spots 40 40 [(32, 20, 100); (26, 27, 100)] /\
  exg_movie = [([[33; 20]; [26; 28]], mk_rframe (spots 40 40 [(33, 20, 100); (26, 28, 100)]) 1);
               ([[34; 21]; [27; 28]], mk_rframe (spots 40 40 [(34, 21, 100); (27, 28, 100)]) 2)] /\
  exg_gd = (fun (im : image) (_ : tup) (_ : Q) (_ : tup) =>
              if pix im [32; 20] =? 100 then [[32; 20]; [26; 27]] else if pix im [27; 28] =? 100 then [[27; 28]] else []) /\
  exg_ch = (fun (c : list pt) (_ : image) (_ : tup) => map (fun _ => Some 100) c) /\
  exg_npp = (fun _ _ => Qmake 50 1) /\
  exg_init = py_FindLinker_init 1 (mk_tup 5 2) (mk_tup 9 2) (Some (mk_tup 9 2)) 0 (Qmake 64 1) (mk_kw 0 false) /\
  exg_dets = detections exg_gd exg_ch 1 (mk_tup 9 2) (mk_tup 9 2) (Qmake 64 1) 0 identity_proc None.
Proof. repeat split. Qed.

(* ... and the generated driver, run inside Coq (vm_compute), returns what (34) says: both blobs under their own
   labels in every frame, the withheld ones re-found and claimed *)
Example C14_gen_driver_complete_example_run :
  py_find_link_iter (gen_reloc exg_npp) (map snd) exg_gd exg_ch 1 30
    (mk_rframe exg_im0 0, map snd exg_movie) (mk_tup 5 2) (mk_tup 9 2) None (Qmake 64 1) 0 None None (mk_kw 0 false)
  = Some (Ok [([0; 1]%nat, [[32; 20]; [26; 27]]); ([0; 1]%nat, [[33; 20]; [26; 28]]); ([1; 0]%nat, [[27; 28]; [34; 21]])]).
Proof. vm_compute. reflexivity. Qed.
