(* C16 - refine_leastsq honours bounds and survives failed fits.
   Only statements closed by [exact]; proofs live in Proofs/RefineBounds.v and
   Proofs/RefineDriver.v.  Status: PARTIAL.  Proved here, for the model of
   validate_bounds / compute_bounds / the driver loop (Model/RefineBounds.v,
   Model/RefineDriver.v): the bounds algebra, failure isolation for an arbitrary
   optimiser, success-within-bounds under the contract "a successful SLSQP
   result lies in the box", and exactly when the model lets an exception
   escape.  NOT provable (no theorem, monitor only): that no other Python
   exception escapes, and the 0.1 px accuracy sentence (optimiser + analysis). *)
From Coq Require Import QArith List Bool Arith.
From TP Require Import Model.RefineBounds Model.RefineDriver Model.RefineCheck Proofs.RefineBounds Proofs.RefineDriver Proofs.RefineCheck.
Import ListNotations.
Open Scope Q_scope.

(* ---- 1. bounds algebra --------------------------------------------------------
   sat_low c v / sat_high c v read a float bound c as a constraint on v, NaN
   meaning "no bound".  The entry of bound_low (nanmax, fmax, NaN -> -inf) is
   exactly the conjunction of the difference bound  start - d, the relative
   bound  start / r  and the absolute bound a; dually for bound_high.  So the
   box is the intersection of all requested and default intervals, and an
   absent bound is infinite. *)
Theorem C16_bounds_algebra : forall start a_lo a_hi d_lo d_hi r_lo r_hi v,
  (sat_low (bound_low start a_lo d_lo r_lo) v <->
     sat_low (esub start d_lo) v /\ sat_low (ediv start r_lo) v /\ sat_low a_lo v) /\
  (sat_high (bound_high start a_hi d_hi r_hi) v <->
     sat_high (eadd start d_hi) v /\ sat_high (emul start r_hi) v /\ sat_high a_hi v) /\
  bound_low start NaN NaN NaN = NInf /\ bound_high start NaN NaN NaN = PInf.
Proof.
  exact (fun s al ah dl dh rl rh v =>
           conj (bound_low_spec s al dl rl v)
                (conj (bound_high_spec s ah dh rh v)
                      (conj (bound_low_absent s) (bound_high_absent s)))).
Qed.
Print Assumptions C16_bounds_algebra.

(* default: unless '<pos>_abs' / 'pos_abs' is given, the interval of a position
   lies within the mask radius of its start, whatever else is in the dictionary *)
Theorem C16_default_position_within_radius : forall d radius k start v,
  get d (KParam (PPos k) FDiff) = None -> get d (KPos FDiff) = None ->
  let b := validate_one d radius (PPos k) in
  sat_low (bound_low start (fst (b_abs b)) (fst (b_diff b)) (fst (b_rel b))) v ->
  sat_high (bound_high start (snd (b_abs b)) (snd (b_diff b)) (snd (b_rel b))) v ->
  start - nth k radius 0 <= v /\ v <= start + nth k radius 0.
Proof. exact default_pos_within_radius. Qed.
Print Assumptions C16_default_position_within_radius.

(* default: unless an absolute bound is given for it, background / signal / size
   have lower bound 1e-7, hence stay positive *)
Theorem C16_default_positive : forall d radius pk start v,
  positive_kind pk -> get_form d pk FAbs = None ->
  let b := validate_one d radius pk in
  sat_low (bound_low start (fst (b_abs b)) (fst (b_diff b)) (fst (b_rel b))) v ->
  eps <= v /\ 0 < v.
Proof. exact default_positive. Qed.
Print Assumptions C16_default_positive.

(* ---- 2. failure isolation -------------------------------------------------------
   For ANY in_image / optimiser behaviour (no hypothesis on them), if the loop
   over pairwise disjoint units returns table t from t0, then for every unit u,
   with o the outcome of u's try block evaluated on u's rows of the INPUT table:
     o = Failed      : every parameter of every row of u is as in t0, cost = NaN;
     o = Fitted p r  : the rows of u hold p, cost = r;
     o = Raised      : impossible (the call would not have returned);
   and rows belonging to no unit are untouched.  [unit_result] spells this out. *)
Theorem C16_failure_isolated :
  forall in_image opt ps modes ndim bd radius max_iter max_shift max_rms_dev us t0 t,
  disjoint_units us ->
  run in_image opt ps modes ndim bd radius max_iter max_shift max_rms_dev t0 us = Some t ->
  (forall u, In u us ->
     unit_result t0 t u
       (outcome_on in_image opt ps modes ndim bd radius max_iter max_shift max_rms_dev t0 u)) /\
  (forall i, (forall u, In u us -> ~ In i (fst u)) -> same_row t0 t i).
Proof. exact failure_isolated. Qed.
Print Assumptions C16_failure_isolated.

(* ---- 3. success within bounds ---------------------------------------------------
   Assume only: a result SLSQP reports as success lies in the box it was given
   (opt_in_box).  If the try block of a unit with finite start values params0
   ends in success with parameter array p, then p has the shape of params0 and,
   for parameter j of feature i (b = its requested-or-default bounds):
     mode const            : p[i,j] = start value;
     mode var              : p[i,j] satisfies all six constraints
                             start - d_lo, start / r_lo, a_lo <= . <= start + d_hi, start * r_hi, a_hi;
     mode global / cluster : p[i,j] satisfies the absolute bounds a_lo <= . <= a_hi
                             (the code packs these with min / max "as broad as possible"). *)
Theorem C16_success_in_bounds :
  forall in_image opt ps modes ndim bd radius max_iter max_shift max_rms_dev,
  opt_in_box opt ->
  forall g params0, length modes = length params0 -> length ps = length params0 ->
  forall params_e p r,
  all_fin2 params_e = Some params0 ->
  fit in_image opt ps modes ndim bd radius max_iter max_shift max_rms_dev g params_e = Fitted p r ->
  shape p = shape params0 /\
  forall j i, (j < length params0)%nat -> (i < length (nth j params0 []))%nat ->
    let b := nth j (validate_bounds bd radius ps) (validate_one bd radius PSignal) in
    let start := nth i (nth j params0 []) 0 in
    let v := nth i (nth j p []) 0 in
    match nth j modes 0%nat with
    | 0%nat => v = start
    | 1%nat => within_all b start v
    | _ => groups_ok g (length (nth j params0 [])) -> within_abs b v
    end.
Proof. exact fit_success_in_bounds. Qed.
Print Assumptions C16_success_in_bounds.

(* ---- 4. which exceptions the model lets escape --------------------------------- *)
(* none, PROVIDED the box of the unit is non-empty (every lower bound <= its upper
   bound: the bounds dictionary is feasible for these start values) and max_iter > 0 *)
Theorem C16_no_raise_when_box_nonempty :
  forall in_image opt ps modes ndim bd radius max_iter max_shift max_rms_dev g params_e,
  (0 < max_iter)%nat ->
  (forall params0, all_fin2 params_e = Some params0 ->
     box_empty (box_low (validate_bounds bd radius ps) modes g params0)
               (box_high (validate_bounds bd radius ps) modes g params0) = false) ->
  fit in_image opt ps modes ndim bd radius max_iter max_shift max_rms_dev g params_e <> Raised.
Proof. exact fit_no_raise. Qed.
Print Assumptions C16_no_raise_when_box_nonempty.

(* model fact, outside the property: a bounds dictionary whose box is empty for
   some unit (a lower bound above its upper bound, possibly through the default
   bounds) is an invalid argument; scipy rejects it with ValueError, which is
   not a RefineException and leaves refine_leastsq.  This is why the theorem
   above carries the non-empty-box hypothesis explicitly. *)
Theorem C16_empty_box_is_rejected :
  forall in_image opt ps modes ndim bd radius max_iter max_shift max_rms_dev g params_e params0,
  (0 < max_iter)%nat -> all_fin2 params_e = Some params0 ->
  in_image (coords_of ndim params0) = true ->
  box_empty (box_low (validate_bounds bd radius ps) modes g params0)
            (box_high (validate_bounds bd radius ps) modes g params0) = true ->
  fit in_image opt ps modes ndim bd radius max_iter max_shift max_rms_dev g params_e = Raised.
Proof. exact fit_raises_on_empty_box. Qed.
Print Assumptions C16_empty_box_is_rejected.

(* ---- 5. the executable monitor run on the implementation's outputs is sound -------
   (vp/props/c16.py evaluates check_unit on every unit of every real run, with a
   1e-9 relative tolerance for float rounding; at tolerance 0:) code 0 on a unit
   reported as fitted means start and returned rows are finite, the returned
   rows are exactly unpack(vector) and the vector lies in the model's box -- the
   premise from which section 3 derives the per-entry bounds; code 0 on a
   failed unit (cost all NaN) means the rows are identical to the input. *)
Theorem C16_monitor_sound_fitted : forall d radius ps modes g start out cost,
  check_unit d radius ps modes g start out cost 0 = 0%N ->
  forallb is_nan cost = false ->
  exists s o, all_fin2 start = Some s /\ all_fin2 out = Some o /\
    qcols_eqb (unpack modes g (pack 0 hd0 modes g o) s) o = true /\
    Forall2 sat_low (box_low (validate_bounds d radius ps) modes g s) (pack 0 hd0 modes g o) /\
    Forall2 sat_high (box_high (validate_bounds d radius ps) modes g s) (pack 0 hd0 modes g o).
Proof. exact check_unit_sound_fitted. Qed.
Print Assumptions C16_monitor_sound_fitted.

Theorem C16_monitor_sound_failed : forall d radius ps modes g start out cost tol,
  check_unit d radius ps modes g start out cost tol = 0%N ->
  forallb is_nan cost = true -> cols_eqb start out = true.
Proof. exact check_unit_sound_failed. Qed.
Print Assumptions C16_monitor_sound_failed.

(* ---- non-vacuity ----------------------------------------------------------------- *)
(* the 2-D isotropic Gaussian fit: background, signal, y, x, size; default modes *)
Definition ps2 : list pkind := [PBackground; PSignal; PPos 0; PPos 1; PSize 0].
Definition modes2 : list nat := [3; 1; 1; 1; 0]%nat.
(* one feature: background 5, signal 150, y 16, x 20, size 3; mask radius 6 *)
Definition start1 : list (list ext) := [[Fin 5]; [Fin 150]; [Fin 16]; [Fin 20]; [Fin 3]].

(* concrete instance of an empty box: bounds {'x': (0, 5)} with a feature at x = 20, radius 6 *)
Example C16_empty_box_instance : forall opt,
  fit (fun _ => true) opt ps2 modes2 2 [(KParam (PPos 1) FAbs, Pair (Fin 0) (Fin 5))] [6; 6]
      10 1 1 None start1 = Raised.
Proof. intro opt. vm_compute. reflexivity. Qed.

(* the contract hypothesis is met by an actual optimiser (projection on the box) ... *)
Example C16_contract_satisfiable : opt_in_box clip_opt.
Proof. exact clip_opt_in_box. Qed.

(* ... with which the try block succeeds, under a non-trivial bounds dictionary,
   and the fitted signal sits on its requested upper bound 140 *)
Example C16_success_reachable :
  fit (fun _ => true) clip_opt ps2 modes2 2
      [(KParam PSignal FAbs, Pair (Fin 100) (Fin 140)); (KPos FDiff, Scalar (Fin (1#4)))] [6; 6]
      10 1 1 None start1
  = Fitted [[5]; [140]; [16]; [20]; [3]] 0.
Proof. vm_compute. reflexivity. Qed.

(* failure isolation is not vacuous: two units, the second has a NaN signal; the
   run returns, unit 1 is fitted, unit 2 keeps its values and gets cost NaN *)
Example C16_isolation_reachable :
  let t0 := {| pcols := [[Fin 5; Fin 5]; [Fin 150; NaN]; [Fin 16; Fin 30]; [Fin 20; Fin 30]; [Fin 3; Fin 3]];
               cost := [PInf; PInf] |} in
  run (fun _ => true) clip_opt ps2 modes2 2 [(KParam PSignal FAbs, Pair (Fin 100) (Fin 140))] [6; 6]
      10 1 1 t0 [([0%nat], None); ([1%nat], None)]
  = Some {| pcols := [[Fin 5; Fin 5]; [Fin 140; NaN]; [Fin 16; Fin 30]; [Fin 20; Fin 30]; [Fin 3; Fin 3]];
            cost := [Fin 0; NaN] |}.
Proof. vm_compute. reflexivity. Qed.

(* =====================================================================================
   Deepening round.  (A) Route T for the bounds assembly: Gen/bounds.v is regenerated on
   every check run from the CURRENT source of FitFunctions.validate_bounds,
   FitFunctions.compute_bounds and the statements of refine_leastsq that wire them to
   scipy (tools/py2coq_bounds.py, vocabulary Model/PyBounds.v); Proofs/BoundsGen.v proves
   the generated functions equal to the hand model for all inputs, so sections 1-5 above
   are theorems about the translated code.  (B) Model/RefineDriver2.v follows the control
   flow of the recentring loop statement by statement, with oracles indexed by unit and
   iteration; Proofs/RefineDriver2.v.
   Hand-written and trusted on the generated side: the translator and the vocabulary
   (dictionary look-up, `is np.nan`, membership in pos/size columns, IEEE special values
   of - / + *, nanmax/fmax = NaN-ignoring max, broadcasting, vect_from_params = pack).
   ===================================================================================== *)
From Coq Require Import ZArith String.
From TP Require Import Model.PyBounds Gen.bounds Proofs.BoundsGen Model.RefineDriver2 Proofs.RefineDriver2.

(* ---- 6. generated = hand model, for all inputs ----------------------------------------
   what minimize receives as bounds= for a unit with start values params (computed once,
   before the recentring loop, from diameter // 2) is the model's box *)
Theorem C16_gen_f_bounds_is_model : forall ps modes d diameter params g,
  Gen.bounds.refine_leastsq_f_bounds ps modes (Some d) diameter params g =
  (box_low (RefineBounds.validate_bounds d (radiusQ (Gen.bounds.refine_leastsq_radius diameter)) ps) modes g params,
   box_high (RefineBounds.validate_bounds d (radiusQ (Gen.bounds.refine_leastsq_radius diameter)) ps) modes g params).
Proof. exact gen_f_bounds_eq. Qed.
Print Assumptions C16_gen_f_bounds_is_model.

(* bounds=None behaves as bounds={} *)
Theorem C16_gen_f_bounds_none : forall ps modes diameter params g,
  Gen.bounds.refine_leastsq_f_bounds ps modes None diameter params g =
  Gen.bounds.refine_leastsq_f_bounds ps modes (Some []) diameter params g.
Proof. exact gen_f_bounds_none. Qed.
Print Assumptions C16_gen_f_bounds_none.

(* the three (2, P) arrays of the generated validate_bounds are the model's per-parameter records *)
Theorem C16_gen_validate_is_model : forall ps d radius,
  Gen.bounds.validate_bounds ps (Some d) radius =
  (map b_abs (RefineBounds.validate_bounds d (radiusQ radius) ps),
   map b_diff (RefineBounds.validate_bounds d (radiusQ radius) ps),
   map b_rel (RefineBounds.validate_bounds d (radiusQ radius) ps)).
Proof. exact gen_validate_eq. Qed.
Print Assumptions C16_gen_validate_is_model.

(* one entry of the generated compute_bounds is the model's bound_low / bound_high *)
Theorem C16_gen_entry_is_model : forall a d r p,
  Gen.bounds.compute_bounds_bound_low a d r p = bound_low p (fst a) (fst d) (fst r) /\
  Gen.bounds.compute_bounds_bound_high a d r p = bound_high p (snd a) (snd d) (snd r).
Proof. exact (fun a d r p => conj (gen_bound_low_eq a d r p) (gen_bound_high_eq a d r p)). Qed.
Print Assumptions C16_gen_entry_is_model.

(* ---- 7. the bounds theorems of section 1, about the generated functions ------------------
   a, d, r = column j of the arrays (abs, diff, reldiff); start = params[i, j] *)
Theorem C16_gen_bounds_algebra : forall start a d r v,
  (sat_low (Gen.bounds.compute_bounds_bound_low a d r start) v <->
     sat_low (esub start (fst d)) v /\ sat_low (ediv start (fst r)) v /\ sat_low (fst a) v) /\
  (sat_high (Gen.bounds.compute_bounds_bound_high a d r start) v <->
     sat_high (eadd start (snd d)) v /\ sat_high (emul start (snd r)) v /\ sat_high (snd a) v) /\
  Gen.bounds.compute_bounds_bound_low (NaN, NaN) (NaN, NaN) (NaN, NaN) start = NInf /\
  Gen.bounds.compute_bounds_bound_high (NaN, NaN) (NaN, NaN) (NaN, NaN) start = PInf.
Proof. exact gen_bounds_algebra. Qed.
Print Assumptions C16_gen_bounds_algebra.

(* unless '<pos>_abs' / 'pos_abs' is given, a position stays within radius[k] of its start *)
Theorem C16_gen_default_position_within_radius : forall d radius k start v,
  dict_get d (key_param (PPos k) "_abs") = None -> dict_get d (key_lit "pos_abs") = None ->
  let '(a, df, r) := Gen.bounds.validate_bounds_loop d radius (PPos k) in
  sat_low (Gen.bounds.compute_bounds_bound_low a df r start) v ->
  sat_high (Gen.bounds.compute_bounds_bound_high a df r start) v ->
  start - inject_Z (nth k radius 0%Z) <= v /\ v <= start + inject_Z (nth k radius 0%Z).
Proof. exact gen_default_position_within_radius. Qed.
Print Assumptions C16_gen_default_position_within_radius.

(* unless an absolute bound is given (own key, or 'size' for a size column), background /
   signal / size stay >= 1e-7 > 0 *)
Theorem C16_gen_default_positive : forall d radius pk start v,
  positive_kind pk ->
  dict_get d (key_param pk "") = None ->
  (in_size_columns pk = true -> dict_get d (key_lit "size") = None) ->
  let '(a, df, r) := Gen.bounds.validate_bounds_loop d radius pk in
  sat_low (Gen.bounds.compute_bounds_bound_low a df r start) v ->
  eps <= v /\ 0 < v.
Proof. exact gen_default_positive. Qed.
Print Assumptions C16_gen_default_positive.

(* ---- 8. the recentring loop, exactly ------------------------------------------------------
   Model/RefineDriver2.v: in_image u n / opt u n are the behaviour of prepare_subimages /
   minimize in iteration n of unit u, with NO assumption (they may answer differently in
   every iteration).  With oracles that ignore u and n it is the model of sections 2-4. *)
Theorem C16_driver2_refines : forall in_image opt ps modes ndim bd radius max_iter max_shift max_rms_dev us t,
  run2 (fun _ _ => in_image) (fun _ _ => opt) ps modes ndim bd radius max_iter max_shift max_rms_dev t us =
  run in_image opt ps modes ndim bd radius max_iter max_shift max_rms_dev t us.
Proof. exact run2_refines. Qed.
Print Assumptions C16_driver2_refines.

(* the functional loop IS the Python control flow.  passed u n .. s s' brk: iteration n of
   unit u found the unit in the image, a non-empty box, a successful optimiser result
   (x, r), set params := vect_to_params(x, params), rms_dev := r, and the shift test came
   out as brk (true: break, coords unchanged; false: coords := new_coords).  steps n s m s':
   iterations n .. m-1 all passed with brk = false.
   The for statement, started at iteration n with fuel iterations left, ends
     by break in iteration m        iff  m < n + fuel, iterations n..m-1 passed without
                                         break and iteration m passed with break;
     by exhaustion, without a break iff  all iterations n..n+fuel-1 passed without break
                                         (the state is that of the last iteration). *)
Theorem C16_loop_break_iff : forall in_image opt modes ndim max_shift fuel u n g lo hi vect s s' m,
  for_loop in_image opt modes ndim max_shift u n fuel g lo hi vect s = L2End s' true (S m) <->
  (m < n + fuel)%nat /\
  exists s1, steps in_image opt modes ndim max_shift u g lo hi vect n s m s1 /\
             passed in_image opt modes ndim max_shift u m g lo hi vect s1 s' true.
Proof. exact for_loop_break_iff. Qed.
Print Assumptions C16_loop_break_iff.

Theorem C16_loop_exhaust_iff : forall in_image opt modes ndim max_shift fuel u n g lo hi vect s s' m,
  for_loop in_image opt modes ndim max_shift u n fuel g lo hi vect s = L2End s' false m <->
  m = (n + fuel)%nat /\ steps in_image opt modes ndim max_shift u g lo hi vect n s m s'.
Proof. exact for_loop_exhaust_iff. Qed.
Print Assumptions C16_loop_exhaust_iff.

(* a unit reported as success went through between 1 and max_iter iterations, ended by
   break or -- only after exactly max_iter iterations -- by exhaustion, holds the
   parameters of its last iteration, and its cost r is that iteration's rms deviation with
   r <= max_rms_dev: the test after the loop applies to both endings *)
Theorem C16_unit_fitted_inv :
  forall in_image opt ps modes ndim bd radius max_iter max_shift max_rms_dev u g params_e p r,
  fit2 in_image opt ps modes ndim bd radius max_iter max_shift max_rms_dev u g params_e = Fitted p r ->
  exists params0 s b m,
    all_fin2 params_e = Some params0 /\
    run_loop in_image opt ps modes ndim bd radius max_iter max_shift u g params0 = L2End s b m /\
    (1 <= m <= max_iter)%nat /\ (b = false -> m = max_iter) /\
    l_params s = p /\ l_rms s = Some r /\ r <= max_rms_dev.
Proof. exact fit2_fitted_inv. Qed.
Print Assumptions C16_unit_fitted_inv.

(* ---- 9. full strength: any unit sequence, any oracle outcomes per unit and iteration --------
   Hypotheses: the units are pairwise disjoint row sets (groupby), max_iter > 0, and the
   bounds dictionary is feasible for every unit with finite start values (a non-empty box:
   otherwise scipy rejects the ARGUMENT with ValueError, section 4).  NO hypothesis on
   in_image / opt.  Then
     - the call returns a table t (no failed fit -- non-finite start, out of image in any
       iteration, optimiser failure in any iteration, rms_dev > max_rms_dev after a break or
       after max_iter iterations -- makes it raise);
     - rows belonging to no unit are untouched;
     - every unit u either kept every input value and has cost NaN on all its rows
       (kept_with_nan_cost = unit_result t0 t u Failed, spelled out in section 2), or
       holds a parameter array p with cost r (holds_fit) where r <= max_rms_dev and, if
       successful SLSQP results lie in the box they were given (opt_in_box2), every entry of
       p is within all requested and default bounds of its start value (entries_within: the
       per-entry statement of section 3). *)
Theorem C16_driver_full :
  forall in_image opt ps modes ndim bd radius max_iter max_shift max_rms_dev us t0,
  disjoint_units us -> (0 < max_iter)%nat ->
  (forall u, In u us -> feasible ps modes bd radius t0 u) ->
  exists t, run2 in_image opt ps modes ndim bd radius max_iter max_shift max_rms_dev t0 us = Some t /\
    (forall i, (forall u, In u us -> ~ In i (fst u)) -> same_row t0 t i) /\
    forall u, In u us ->
      kept_with_nan_cost t0 t u \/
      exists p r, holds_fit t0 t u p r /\ r <= max_rms_dev /\
        (opt_in_box2 opt -> forall params0,
           all_fin2 (rows_of t0 u) = Some params0 ->
           List.length modes = List.length params0 -> List.length ps = List.length params0 ->
           entries_within ps modes bd radius (snd u) params0 p).
Proof. exact driver_full. Qed.
Print Assumptions C16_driver_full.

(* the per-unit half, usable without the table: no exception escapes the try block *)
Theorem C16_unit_no_raise :
  forall in_image opt ps modes ndim bd radius max_iter max_shift max_rms_dev u g params_e,
  (0 < max_iter)%nat ->
  (forall params0, all_fin2 params_e = Some params0 ->
     box_empty (box_low (RefineBounds.validate_bounds bd radius ps) modes g params0)
               (box_high (RefineBounds.validate_bounds bd radius ps) modes g params0) = false) ->
  fit2 in_image opt ps modes ndim bd radius max_iter max_shift max_rms_dev u g params_e <> Raised.
Proof. exact fit2_no_raise. Qed.
Print Assumptions C16_unit_no_raise.

(* ---- non-vacuity of the deepening round ------------------------------------------------------ *)
(* an optimiser that moves y by one pixel in every iteration and reports rms 1/2: with
   max_shift = 1 the accept test never fires; max_iter = 2 is exhausted WITHOUT a break *)
Definition walk_opt (_ n : nat) (_ _ : list ext) (_ : list Q) (_ _ : list (list Q)) : ores :=
  OSucc [5; 150; 16 + inject_Z (Z.of_nat (S n)); 20] (1 # 2).

Example C16_exhaustion_reachable :
  run_loop (fun _ _ _ => true) walk_opt ps2 modes2 2 [] [6; 6] 2 1 0%nat None [[5]; [150]; [16]; [20]; [3]]
  = L2End {| l_params := [[5]; [150]; [18]; [20]; [3]]; l_coords := [[18]; [20]]; l_rms := Some (1 # 2) |} false 2.
Proof. vm_compute. reflexivity. Qed.

(* ... accepted when max_rms_dev = 1, a failed fit (values kept, cost NaN) when max_rms_dev = 1/4 *)
Example C16_exhaustion_then_rms_test :
  fit2 (fun _ _ _ => true) walk_opt ps2 modes2 2 [] [6; 6] 2 1 1 0%nat None start1 = Fitted [[5]; [150]; [18]; [20]; [3]] (1 # 2) /\
  fit2 (fun _ _ _ => true) walk_opt ps2 modes2 2 [] [6; 6] 2 1 (1 # 4) 0%nat None start1 = Failed.
Proof. split; vm_compute; reflexivity. Qed.

(* an oracle that answers differently per iteration: in the image at first, out of it in
   iteration 1 -> failed fit, not an exception *)
Example C16_out_of_image_in_a_later_iteration :
  fit2 (fun _ n _ => Nat.eqb n 0) walk_opt ps2 modes2 2 [] [6; 6] 5 1 1 0%nat None start1 = Failed.
Proof. vm_compute. reflexivity. Qed.

(* the indexed contract is met by an actual optimiser *)
Example C16_contract2_satisfiable : opt_in_box2 (fun _ _ => clip_opt).
Proof. exact clip_opt2_in_box. Qed.

(* the generated code on a concrete dictionary: {'signal': (100, 140), 'pos_abs': 0.25},
   diameter 13 -> radius 6, one feature *)
Example C16_gen_box_instance :
  Gen.bounds.refine_leastsq_f_bounds ps2 modes2
    (Some [(KParam PSignal FAbs, Pair (Fin 100) (Fin 140)); (KPos FDiff, Scalar (Fin (1#4)))]) [13%Z; 13%Z]
    [[5]; [150]; [16]; [20]; [3]] None
  = ([Fin eps; Fin 100; Fin (63 # 4); Fin (79 # 4)], [PInf; Fin 140; Fin (65 # 4); Fin (81 # 4)]).
Proof. vm_compute. reflexivity. Qed.

(* =====================================================================================
   Route T for the DRIVER.  Gen/refinedriver.v is regenerated on every check run from the
   CURRENT source of refine_leastsq, from `for _, f_iter in iterable:` to `return f`
   (tools/py2coq_refinedriver.py, vocabulary Model/PyRefinedriver.v): the per-unit statements,
   try / except RefineException / else, `for _n_iter in range(max_iter)` with its break, the
   rms test after the loop, the compute_error block, the write-back on success, the NaN cost
   on failure -- control flow translated generically, so the scope of the try block and the
   place of every test and write is the place in the source.  Named primitives = the oracles
   of section 8 (W : world): prepare_subimages, minimize (per unit and iteration), the Hessian
   block, the pandas writes; ff.compute_bounds is the GENERATED Gen.bounds.compute_bounds.
   Proofs/RefinedriverGen.v.
   Hand-written and trusted on the generated side: the translator and the vocabulary.
   ===================================================================================== *)
From TP Require Import Model.PyRefinedriver Gen.refinedriver Proofs.RefinedriverGen.

(* ---- 10. generated driver = the control-flow model of section 8/9, for all oracles ------------
   W: any oracles and any argument values (max_iter = 0 included); bo: the bounds argument
   (None or a dictionary); diameter; t: any table; us: any sequence of units.  The generated
   driver, entered with the GENERATED validate_bounds of the bounds argument and
   radius = diameter // 2, returns exactly what run2 returns (the same table, or None = an
   exception leaves refine_leastsq).  compute_error=False (the model has no <param>_std
   columns; see 12).  whole_table: at level 'global' the source assigns whole columns
   (f['cost'] = ..., f[ff.params] = ...), which is the unit's rows because the only unit of
   that level is the whole table (iterable = [(None, f)], checked by the translator); no
   condition at level 'cluster'. *)
Theorem C16_gen_driver_is_model : forall (W : world) (bo : option bdict) (diameter : list Z) t us,
  w_compute_error W = false ->
  (w_level_global W = true -> forall u, In u us -> fst u = tbl_index t) ->
  Gen.refinedriver.refine_leastsq_driver W
    (Gen.bounds.validate_bounds (w_ff_params W) bo (Gen.bounds.refine_leastsq_radius diameter)) t us =
  run2 (w_prepare_subimages W) (w_minimize W) (w_ff_params W) (w_ff_modes W) (w_ndim W)
       (match bo with None => [] | Some d => d end) (radiusQ (Gen.bounds.refine_leastsq_radius diameter))
       (w_max_iter W) (w_max_shift W) (w_max_rms_dev W) t us.
Proof. exact gen_driver_eq. Qed.
Print Assumptions C16_gen_driver_is_model.

(* ---- 11. C16_driver_full, about the generated driver ------------------------------------------
   the statement of section 9 word for word, with the translated code in place of run2 *)
Theorem C16_gen_driver_full : forall (W : world) (bo : option bdict) (diameter : list Z) us t0,
  let bd := match bo with None => [] | Some d => d end in
  let radius := radiusQ (Gen.bounds.refine_leastsq_radius diameter) in
  w_compute_error W = false ->
  (w_level_global W = true -> forall u, In u us -> fst u = tbl_index t0) ->
  disjoint_units us -> (0 < w_max_iter W)%nat ->
  (forall u, In u us -> feasible (w_ff_params W) (w_ff_modes W) bd radius t0 u) ->
  exists t,
    Gen.refinedriver.refine_leastsq_driver W
      (Gen.bounds.validate_bounds (w_ff_params W) bo (Gen.bounds.refine_leastsq_radius diameter)) t0 us = Some t /\
    (forall i, (forall u, In u us -> ~ In i (fst u)) -> same_row t0 t i) /\
    forall u, In u us ->
      kept_with_nan_cost t0 t u \/
      exists p r, holds_fit t0 t u p r /\ r <= w_max_rms_dev W /\
        (opt_in_box2 (w_minimize W) -> forall params0,
           all_fin2 (rows_of t0 u) = Some params0 ->
           List.length (w_ff_modes W) = List.length params0 -> List.length (w_ff_params W) = List.length params0 ->
           entries_within (w_ff_params W) (w_ff_modes W) bd radius (snd u) params0 p).
Proof. exact gen_driver_full. Qed.
Print Assumptions C16_gen_driver_full.

(* ---- 12. compute_error=True, as far as it affects what is written ---------------------------------
   Whatever the Hessian block does (w_hessian / w_result_std / w_params_std arbitrary): a table
   that IS returned is the table of the model -- the ff.params and cost columns are written
   exactly as with compute_error=False; the block can only add exceptions (it is inside the
   try block, but what it raises is not a RefineException). *)
Theorem C16_gen_compute_error_only_adds_exceptions : forall (W : world) (bo : option bdict) (diameter : list Z) t us t',
  (w_level_global W = true -> forall u, In u us -> fst u = tbl_index t) ->
  Gen.refinedriver.refine_leastsq_driver W
    (Gen.bounds.validate_bounds (w_ff_params W) bo (Gen.bounds.refine_leastsq_radius diameter)) t us = Some t' ->
  run2 (w_prepare_subimages W) (w_minimize W) (w_ff_params W) (w_ff_modes W) (w_ndim W)
       (match bo with None => [] | Some d => d end) (radiusQ (Gen.bounds.refine_leastsq_radius diameter))
       (w_max_iter W) (w_max_shift W) (w_max_rms_dev W) t us = Some t'.
Proof. exact gen_driver_compute_error_le. Qed.
Print Assumptions C16_gen_compute_error_only_adds_exceptions.

(* source fact, outside the property's reach in this environment (compute_error=True needs
   numdifftools, which is absent: ImportError at entry): at level 'cluster' the handler's
   `f[f_iter.index, cols_std] = np.nan` is not a .loc write -- pandas raises TypeError
   (unhashable Index in a tuple key).  So with compute_error=True a failed fit of the first
   unit (and likewise of any later one) does NOT end in cost NaN: the exception leaves
   refine_leastsq.  Stated for the translated code: *)
Theorem C16_gen_compute_error_failed_fit_escapes : forall (W : world) (bo : option bdict) (diameter : list Z) t u us,
  w_compute_error W = true -> w_level_global W = false ->
  fit2 (w_prepare_subimages W) (w_minimize W) (w_ff_params W) (w_ff_modes W) (w_ndim W)
       (match bo with None => [] | Some d => d end) (radiusQ (Gen.bounds.refine_leastsq_radius diameter))
       (w_max_iter W) (w_max_shift W) (w_max_rms_dev W) 0%nat (snd u) (rows_of t u) = Failed ->
  Gen.refinedriver.refine_leastsq_driver W
    (Gen.bounds.validate_bounds (w_ff_params W) bo (Gen.bounds.refine_leastsq_radius diameter)) t (u :: us) = None.
Proof. exact gen_compute_error_failed_fit_escapes. Qed.
Print Assumptions C16_gen_compute_error_failed_fit_escapes.

(* ---- non-vacuity: the generated driver, executed ------------------------------------------------- *)
Definition W_ex (opt : nat -> nat -> list ext -> list ext -> list Q -> list (list Q) -> list (list Q) -> ores)
           (max_iter : nat) (max_rms_dev : Q) (level_global compute_error : bool) : world :=
  {| w_prepare_subimages := fun _ _ _ => true; w_minimize := opt;
     w_hessian := fun _ _ => None; w_result_std := fun _ => None; w_params_std := fun _ _ _ => None;
     w_ff_params := ps2; w_ff_modes := modes2; w_ndim := 2; w_max_iter := max_iter; w_max_shift := 1;
     w_max_rms_dev := max_rms_dev; w_level_global := level_global; w_compute_error := compute_error |}.
Definition t_ex : tbl :=
  {| pcols := [[Fin 5; Fin 5]; [Fin 150; NaN]; [Fin 16; Fin 30]; [Fin 20; Fin 30]; [Fin 3; Fin 3]]; cost := [PInf; PInf] |}.

(* the run of C16_isolation_reachable through the TRANSLATED code (bounds {'signal': (100, 140)},
   diameter 13): unit 1 fitted with its signal on the upper bound, unit 2 (NaN signal) keeps
   its values and gets cost NaN *)
Example C16_gen_driver_runs :
  Gen.refinedriver.refine_leastsq_driver (W_ex (fun _ _ => clip_opt) 10 1 false false)
    (Gen.bounds.validate_bounds ps2 (Some [(KParam PSignal FAbs, Pair (Fin 100) (Fin 140))]) (Gen.bounds.refine_leastsq_radius [13%Z; 13%Z]))
    t_ex [([0%nat], None); ([1%nat], None)]
  = Some {| pcols := [[Fin 5; Fin 5]; [Fin 140; NaN]; [Fin 16; Fin 30]; [Fin 20; Fin 30]; [Fin 3; Fin 3]];
            cost := [Fin 0; NaN] |}.
Proof. vm_compute. reflexivity. Qed.

(* exhaustion of max_iter = 2 without a break, then the rms test AFTER the loop (walk_opt: rms 1/2):
   accepted for max_rms_dev = 1, a failed fit for max_rms_dev = 1/4; max_iter = 0: NameError escapes *)
Example C16_gen_exhaustion_then_rms_test :
  let vb := Gen.bounds.validate_bounds ps2 None [6%Z; 6%Z] in
  let t := {| pcols := [[Fin 5]; [Fin 150]; [Fin 16]; [Fin 20]; [Fin 3]]; cost := [PInf] |} in
  Gen.refinedriver.refine_leastsq_driver (W_ex walk_opt 2 1 false false) vb t [([0%nat], None)]
    = Some {| pcols := [[Fin 5]; [Fin 150]; [Fin 18]; [Fin 20]; [Fin 3]]; cost := [Fin (1 # 2)] |} /\
  Gen.refinedriver.refine_leastsq_driver (W_ex walk_opt 2 (1 # 4) false false) vb t [([0%nat], None)]
    = Some {| pcols := pcols t; cost := [NaN] |} /\
  Gen.refinedriver.refine_leastsq_driver (W_ex walk_opt 0 1 false false) vb t [([0%nat], None)] = None.
Proof. repeat split; vm_compute; reflexivity. Qed.

(* level 'global' (whole-column writes), one unit = the whole table: same result as at level 'cluster' *)
Example C16_gen_driver_runs_global :
  Gen.refinedriver.refine_leastsq_driver (W_ex (fun _ _ => clip_opt) 10 1 true false)
    (Gen.bounds.validate_bounds ps2 (Some [(KParam PSignal FAbs, Pair (Fin 100) (Fin 140))]) [6%Z; 6%Z])
    {| pcols := [[Fin 5]; [Fin 150]; [Fin 16]; [Fin 20]; [Fin 3]]; cost := [PInf] |} [([0%nat], None)]
  = Some {| pcols := [[Fin 5]; [Fin 140]; [Fin 16]; [Fin 20]; [Fin 3]]; cost := [Fin 0] |}.
Proof. vm_compute. reflexivity. Qed.

(* compute_error=True at level 'cluster': the NaN start of unit 2 is a failed fit, and the call raises *)
Example C16_gen_compute_error_escape_instance :
  Gen.refinedriver.refine_leastsq_driver (W_ex (fun _ _ => clip_opt) 10 1 false true)
    (Gen.bounds.validate_bounds ps2 None [6%Z; 6%Z]) t_ex [([1%nat], None)] = None.
Proof. vm_compute. reflexivity. Qed.
