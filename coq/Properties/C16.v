(* C16 - refine_leastsq honours bounds and survives failed fits.
   Only statements closed by [exact]; proofs live in Proofs/RefineBounds.v and
   Proofs/RefineDriver.v.  Status: PARTIAL.  Proved here, for the model of
   validate_bounds / compute_bounds / the driver loop (Model/RefineBounds.v,
   Model/RefineDriver.v): the bounds algebra, failure isolation for an arbitrary
   optimiser, success-within-bounds under the contract "a successful SLSQP
   result lies in the box", and exactly when the model lets an exception
   escape.  NOT provable (no theorem, monitor only): that no other Python
   exception escapes, and the 0.1 px accuracy sentence (optimiser + analysis). *)
From Coq Require Import QArith List Bool Arith.
From TP Require Import Model.RefineBounds Model.RefineDriver Model.RefineCheck Proofs.RefineBounds Proofs.RefineDriver Proofs.RefineCheck.
Import ListNotations.
Open Scope Q_scope.

(* ---- 1. bounds algebra --------------------------------------------------------
   sat_low c v / sat_high c v read a float bound c as a constraint on v, NaN
   meaning "no bound".  The entry of bound_low (nanmax, fmax, NaN -> -inf) is
   exactly the conjunction of the difference bound  start - d, the relative
   bound  start / r  and the absolute bound a; dually for bound_high.  So the
   box is the intersection of all requested and default intervals, and an
   absent bound is infinite. *)
Theorem C16_bounds_algebra : forall start a_lo a_hi d_lo d_hi r_lo r_hi v,
  (sat_low (bound_low start a_lo d_lo r_lo) v <->
     sat_low (esub start d_lo) v /\ sat_low (ediv start r_lo) v /\ sat_low a_lo v) /\
  (sat_high (bound_high start a_hi d_hi r_hi) v <->
     sat_high (eadd start d_hi) v /\ sat_high (emul start r_hi) v /\ sat_high a_hi v) /\
  bound_low start NaN NaN NaN = NInf /\ bound_high start NaN NaN NaN = PInf.
Proof.
  exact (fun s al ah dl dh rl rh v =>
           conj (bound_low_spec s al dl rl v)
                (conj (bound_high_spec s ah dh rh v)
                      (conj (bound_low_absent s) (bound_high_absent s)))).
Qed.
Print Assumptions C16_bounds_algebra.

(* default: unless '<pos>_abs' / 'pos_abs' is given, the interval of a position
   lies within the mask radius of its start, whatever else is in the dictionary *)
Theorem C16_default_position_within_radius : forall d radius k start v,
  get d (KParam (PPos k) FDiff) = None -> get d (KPos FDiff) = None ->
  let b := validate_one d radius (PPos k) in
  sat_low (bound_low start (fst (b_abs b)) (fst (b_diff b)) (fst (b_rel b))) v ->
  sat_high (bound_high start (snd (b_abs b)) (snd (b_diff b)) (snd (b_rel b))) v ->
  start - nth k radius 0 <= v /\ v <= start + nth k radius 0.
Proof. exact default_pos_within_radius. Qed.
Print Assumptions C16_default_position_within_radius.

(* default: unless an absolute bound is given for it, background / signal / size
   have lower bound 1e-7, hence stay positive *)
Theorem C16_default_positive : forall d radius pk start v,
  positive_kind pk -> get_form d pk FAbs = None ->
  let b := validate_one d radius pk in
  sat_low (bound_low start (fst (b_abs b)) (fst (b_diff b)) (fst (b_rel b))) v ->
  eps <= v /\ 0 < v.
Proof. exact default_positive. Qed.
Print Assumptions C16_default_positive.

(* ---- 2. failure isolation -------------------------------------------------------
   For ANY in_image / optimiser behaviour (no hypothesis on them), if the loop
   over pairwise disjoint units returns table t from t0, then for every unit u,
   with o the outcome of u's try block evaluated on u's rows of the INPUT table:
     o = Failed      : every parameter of every row of u is as in t0, cost = NaN;
     o = Fitted p r  : the rows of u hold p, cost = r;
     o = Raised      : impossible (the call would not have returned);
   and rows belonging to no unit are untouched.  [unit_result] spells this out. *)
Theorem C16_failure_isolated :
  forall in_image opt ps modes ndim bd radius max_iter max_shift max_rms_dev us t0 t,
  disjoint_units us ->
  run in_image opt ps modes ndim bd radius max_iter max_shift max_rms_dev t0 us = Some t ->
  (forall u, In u us ->
     unit_result t0 t u
       (outcome_on in_image opt ps modes ndim bd radius max_iter max_shift max_rms_dev t0 u)) /\
  (forall i, (forall u, In u us -> ~ In i (fst u)) -> same_row t0 t i).
Proof. exact failure_isolated. Qed.
Print Assumptions C16_failure_isolated.

(* ---- 3. success within bounds ---------------------------------------------------
   Assume only: a result SLSQP reports as success lies in the box it was given
   (opt_in_box).  If the try block of a unit with finite start values params0
   ends in success with parameter array p, then p has the shape of params0 and,
   for parameter j of feature i (b = its requested-or-default bounds):
     mode const            : p[i,j] = start value;
     mode var              : p[i,j] satisfies all six constraints
                             start - d_lo, start / r_lo, a_lo <= . <= start + d_hi, start * r_hi, a_hi;
     mode global / cluster : p[i,j] satisfies the absolute bounds a_lo <= . <= a_hi
                             (the code packs these with min / max "as broad as possible"). *)
Theorem C16_success_in_bounds :
  forall in_image opt ps modes ndim bd radius max_iter max_shift max_rms_dev,
  opt_in_box opt ->
  forall g params0, length modes = length params0 -> length ps = length params0 ->
  forall params_e p r,
  all_fin2 params_e = Some params0 ->
  fit in_image opt ps modes ndim bd radius max_iter max_shift max_rms_dev g params_e = Fitted p r ->
  shape p = shape params0 /\
  forall j i, (j < length params0)%nat -> (i < length (nth j params0 []))%nat ->
    let b := nth j (validate_bounds bd radius ps) (validate_one bd radius PSignal) in
    let start := nth i (nth j params0 []) 0 in
    let v := nth i (nth j p []) 0 in
    match nth j modes 0%nat with
    | 0%nat => v = start
    | 1%nat => within_all b start v
    | _ => groups_ok g (length (nth j params0 [])) -> within_abs b v
    end.
Proof. exact fit_success_in_bounds. Qed.
Print Assumptions C16_success_in_bounds.

(* ---- 4. which exceptions the model lets escape --------------------------------- *)
(* none, PROVIDED the box of the unit is non-empty (every lower bound <= its upper
   bound: the bounds dictionary is feasible for these start values) and max_iter > 0 *)
Theorem C16_no_raise_when_box_nonempty :
  forall in_image opt ps modes ndim bd radius max_iter max_shift max_rms_dev g params_e,
  (0 < max_iter)%nat ->
  (forall params0, all_fin2 params_e = Some params0 ->
     box_empty (box_low (validate_bounds bd radius ps) modes g params0)
               (box_high (validate_bounds bd radius ps) modes g params0) = false) ->
  fit in_image opt ps modes ndim bd radius max_iter max_shift max_rms_dev g params_e <> Raised.
Proof. exact fit_no_raise. Qed.
Print Assumptions C16_no_raise_when_box_nonempty.

(* model fact, outside the property: a bounds dictionary whose box is empty for
   some unit (a lower bound above its upper bound, possibly through the default
   bounds) is an invalid argument; scipy rejects it with ValueError, which is
   not a RefineException and leaves refine_leastsq.  This is why the theorem
   above carries the non-empty-box hypothesis explicitly. *)
Theorem C16_empty_box_is_rejected :
  forall in_image opt ps modes ndim bd radius max_iter max_shift max_rms_dev g params_e params0,
  (0 < max_iter)%nat -> all_fin2 params_e = Some params0 ->
  in_image (coords_of ndim params0) = true ->
  box_empty (box_low (validate_bounds bd radius ps) modes g params0)
            (box_high (validate_bounds bd radius ps) modes g params0) = true ->
  fit in_image opt ps modes ndim bd radius max_iter max_shift max_rms_dev g params_e = Raised.
Proof. exact fit_raises_on_empty_box. Qed.
Print Assumptions C16_empty_box_is_rejected.

(* ---- 5. the executable monitor run on the implementation's outputs is sound -------
   (vp/props/c16.py evaluates check_unit on every unit of every real run, with a
   1e-9 relative tolerance for float rounding; at tolerance 0:) code 0 on a unit
   reported as fitted means start and returned rows are finite, the returned
   rows are exactly unpack(vector) and the vector lies in the model's box -- the
   premise from which section 3 derives the per-entry bounds; code 0 on a
   failed unit (cost all NaN) means the rows are identical to the input. *)
Theorem C16_monitor_sound_fitted : forall d radius ps modes g start out cost,
  check_unit d radius ps modes g start out cost 0 = 0%N ->
  forallb is_nan cost = false ->
  exists s o, all_fin2 start = Some s /\ all_fin2 out = Some o /\
    qcols_eqb (unpack modes g (pack 0 hd0 modes g o) s) o = true /\
    Forall2 sat_low (box_low (validate_bounds d radius ps) modes g s) (pack 0 hd0 modes g o) /\
    Forall2 sat_high (box_high (validate_bounds d radius ps) modes g s) (pack 0 hd0 modes g o).
Proof. exact check_unit_sound_fitted. Qed.
Print Assumptions C16_monitor_sound_fitted.

Theorem C16_monitor_sound_failed : forall d radius ps modes g start out cost tol,
  check_unit d radius ps modes g start out cost tol = 0%N ->
  forallb is_nan cost = true -> cols_eqb start out = true.
Proof. exact check_unit_sound_failed. Qed.
Print Assumptions C16_monitor_sound_failed.

(* ---- non-vacuity ----------------------------------------------------------------- *)
(* the 2-D isotropic Gaussian fit: background, signal, y, x, size; default modes *)
Definition ps2 : list pkind := [PBackground; PSignal; PPos 0; PPos 1; PSize 0].
Definition modes2 : list nat := [3; 1; 1; 1; 0]%nat.
(* one feature: background 5, signal 150, y 16, x 20, size 3; mask radius 6 *)
Definition start1 : list (list ext) := [[Fin 5]; [Fin 150]; [Fin 16]; [Fin 20]; [Fin 3]].

(* concrete instance of an empty box: bounds {'x': (0, 5)} with a feature at x = 20, radius 6 *)
Example C16_empty_box_instance : forall opt,
  fit (fun _ => true) opt ps2 modes2 2 [(KParam (PPos 1) FAbs, Pair (Fin 0) (Fin 5))] [6; 6]
      10 1 1 None start1 = Raised.
Proof. intro opt. vm_compute. reflexivity. Qed.

(* the contract hypothesis is met by an actual optimiser (projection on the box) ... *)
Example C16_contract_satisfiable : opt_in_box clip_opt.
Proof. exact clip_opt_in_box. Qed.

(* ... with which the try block succeeds, under a non-trivial bounds dictionary,
   and the fitted signal sits on its requested upper bound 140 *)
Example C16_success_reachable :
  fit (fun _ => true) clip_opt ps2 modes2 2
      [(KParam PSignal FAbs, Pair (Fin 100) (Fin 140)); (KPos FDiff, Scalar (Fin (1#4)))] [6; 6]
      10 1 1 None start1
  = Fitted [[5]; [140]; [16]; [20]; [3]] 0.
Proof. vm_compute. reflexivity. Qed.

(* failure isolation is not vacuous: two units, the second has a NaN signal; the
   run returns, unit 1 is fitted, unit 2 keeps its values and gets cost NaN *)
Example C16_isolation_reachable :
  let t0 := {| pcols := [[Fin 5; Fin 5]; [Fin 150; NaN]; [Fin 16; Fin 30]; [Fin 20; Fin 30]; [Fin 3; Fin 3]];
               cost := [PInf; PInf] |} in
  run (fun _ => true) clip_opt ps2 modes2 2 [(KParam PSignal FAbs, Pair (Fin 100) (Fin 140))] [6; 6]
      10 1 1 t0 [([0%nat], None); ([1%nat], None)]
  = Some {| pcols := [[Fin 5; Fin 5]; [Fin 140; NaN]; [Fin 16; Fin 30]; [Fin 20; Fin 30]; [Fin 3; Fin 3]];
            cost := [Fin 0; NaN] |}.
Proof. vm_compute. reflexivity. Qed.
