(* C12 — adaptive search only ever shrinks the range of oversize groups. *)
From Coq Require Import ZArith List.
From TP Require Import Model.Assign Model.Link Model.Adaptive Proofs.Cands Proofs.Step Proofs.Opt Proofs.Adaptive.
Import ListNotations.
Open Scope Z_scope.

(* With adaptive_stop set, whenever no group of competing particles exceeds the adaptive
   size limit the step is exactly the plain step (same links, same raise behaviour). *)
Theorem C12_plain_when_fits : forall fuel a m pred st ds,
  metric_ok m ->
  Forall (fun g => (length g <= a_max a)%nat) (components (items_of m pred st ds)) ->
  astep_links fuel a m pred st ds = step_links m (a_max a) pred st ds.
Proof. exact adaptive_plain_when_fits. Qed.
Print Assumptions C12_plain_when_fits.

(* Every sub-group finally solved at level k (range = search_range * step^k) only contains
   candidate pairs within that range: no link longer than the range in force is made. *)
Theorem C12_no_long_link : forall a R2 fuel k g ls,
  Forall (within a R2 k) g -> asplit fuel a R2 k g = Ok ls -> Forall (leaf_within a R2) ls.
Proof. exact asplit_leaves_within. Qed.
Print Assumptions C12_no_long_link.

(* A group that fits is not split at all. *)
Theorem C12_fits_is_leaf : forall fuel a R2 k g,
  (length g <= a_max a)%nat -> asplit fuel a R2 k g = Ok [Leaf k g].
Proof. exact asplit_fits. Qed.
Print Assumptions C12_fits_is_leaf.

(* Each sub-group is then solved optimally with that reduced range as the cost of not
   linking (costs brought to the common denominator q^(2k); null link at R2*p^(2k)). *)
Theorem C12_leaf_solved_optimally : forall a R2 k g,
  acfg_ok a -> 0 <= R2 -> Forall real_item g -> Forall (within a R2 k) g ->
  exists pairs, solve_leaf a R2 (Leaf k g) = map strip pairs /\ is_opt (leaf_items a R2 k g) pairs.
Proof. exact leaf_solved_optimally. Qed.
Print Assumptions C12_leaf_solved_optimally.

(* ... and the hypotheses of the previous theorem hold for every leaf the split produces *)
Theorem C12_leaves_wellformed : forall a R2 fuel k g ls,
  Forall real_item g -> asplit fuel a R2 k g = Ok ls -> Forall leaf_real ls.
Proof. exact asplit_leaves_real. Qed.
Print Assumptions C12_leaves_wellformed.

(* SubnetOversizeException is raised exactly when a still-oversize group has reached a
   range at or below adaptive_stop: (=>) a raise exhibits such a group among the groups met
   while splitting; (<=) a normal return (fuel not exhausted) means none was. *)
Theorem C12_raise_only_at_stop : forall a R2 fuel k g,
  asplit fuel a R2 k g = Oversize ->
  exists k' g', reach a R2 k g k' g' /\ (a_max a < length g')%nat /\ at_stop a k' = true.
Proof. exact asplit_raise_sound. Qed.
Print Assumptions C12_raise_only_at_stop.

Theorem C12_no_raise_means_none_at_stop : forall a R2 fuel k g ls,
  asplit fuel a R2 k g = Ok ls -> ~ In OutOfFuel ls ->
  forall k' g', reach a R2 k g k' g' -> (a_max a < length g')%nat -> at_stop a k' = false.
Proof. exact asplit_ok_complete. Qed.
Print Assumptions C12_no_raise_means_none_at_stop.

(* Fuel is always sufficient: for adaptive_step = p/q in (0,1) and adaptive_stop > 0 the
   range reaches the stop after at most p*sd reductions, so with more fuel than that no
   OutOfFuel leaf can appear - the previous theorem then holds unconditionally:
   SubnetOversizeException is raised EXACTLY when a still-oversize group has reached a
   range at or below adaptive_stop. *)
Theorem C12_fuel_sufficient : forall a R2,
  0 < a_p a -> a_p a < a_q a -> 0 < a_sn a -> 0 < a_sd a ->
  forall fuel k g ls, (Z.to_nat (a_p a * a_sd a) < fuel + k)%nat ->
  asplit fuel a R2 k g = Ok ls -> ~ In OutOfFuel ls.
Proof. exact asplit_no_out_of_fuel. Qed.
Print Assumptions C12_fuel_sufficient.

(* non-vacuity / raise behaviour on a concrete oversize group (limit 1, step 1/2):
   three sources competing for 0..2; stop at 1/4 of the range -> split succeeds;
   stop at 3/4 of the range -> raise at the first level. *)
Definition ex_group : group :=
  [(0%nat, [(Some 0%nat, 1); (Some 1%nat, 49)]); (1%nat, [(Some 1%nat, 1); (Some 0%nat, 49); (Some 2%nat, 64)]); (2%nat, [(Some 2%nat, 1); (Some 1%nat, 64)])].
Example C12_example_split :
  asplit 10 {| a_max := 1; a_p := 1; a_q := 2; a_sn := 1; a_sd := 4 |} 100 0 ex_group
  = Ok [Leaf 1 [(2%nat, [(Some 2%nat, 1)])]; Leaf 1 [(1%nat, [(Some 1%nat, 1)])]; Leaf 1 [(0%nat, [(Some 0%nat, 1)])]].
Proof. vm_compute. reflexivity. Qed.
Example C12_example_raise :
  asplit 10 {| a_max := 1; a_p := 1; a_q := 2; a_sn := 5; a_sd := 4 |} 100 0 ex_group = Oversize.
Proof. vm_compute. reflexivity. Qed.
