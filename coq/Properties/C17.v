(* C17 -- MSD functions compute the defined statistic, gaps and units included.
   Only statements closed by [exact]; proofs live in Proofs/MSD.v, the model of
   trackpy/motion.py in Model/MSD.v, the declarative side in Model/MSDSpec.v:
     pairs n t      all ordered pairs (a, b) of rows of t with frame b - frame a = n
     msd_def        mean over (pairs n t) of mpp^2 * sum_axes (b_d - a_d)^2, None (NaN) if no pair
     span t         largest minus smallest frame
     N_eff t n      Qian et al. number of independent measurements (weight of t at lag n)
     emsd_def       sum N_i m_i / sum N_i over the particles with a value at the lag
   Numbers are canonical rationals (Qc), [None] is NaN, the outer [option] of a
   result is "raised". *)
From Coq Require Import ZArith QArith Qcanon List Permutation Sorted.
From TP Require Import Model.MSD Model.MSDSpec Model.MSDOld Proofs.MSD Proofs.MSDOld.
Import ListNotations.
Open Scope Qc_scope.

(* The FFT path's quantity S1(m) - 2 S2(m), with D = r^2, S1 from the total and
   the running sum of D_j + D_(N-1-j), S2 the autocorrelation, is the sum over
   all i < N - m of (r_(i+m) - r_i)^2. *)
Theorem C17_fft_identity : forall (r : list Qc) (m : nat), (m <= length r)%nat ->
  let D := map sqr r in
  q2 * qsum D - (qsum (firstn m D) + qsum (firstn m (rev D))) - q2 * autocorr r m
  = qsum (map2 (fun x y => sqr (y - x)) r (skipn m r)).
Proof. exact fft_identity. Qed.
Print Assumptions C17_fft_identity.

(* msd returns, for every trajectory (any length, gaps, start frame, row order),
   one row per lag 1 .. min(max_lagtime, span), carrying lag, lag/fps and the mean
   over all pairs of observations that many frames apart of the squared
   displacement times mpp^2 -- NaN where there is no such pair. *)
Theorem C17_msd_eq_def : forall traj mpp fps maxlag ndim,
  traj <> [] -> NoDup (map fst traj) -> (0 < ndim)%nat ->
  exists rows, msd traj mpp fps maxlag ndim = Some rows /\
    map (fun r => (r_lag r, r_lagt r, r_msd r)) rows =
    map (fun n => (n, nq n / fps, msd_def mpp ndim traj n)) (seq 1 (Nat.min maxlag (span traj))).
Proof. exact msd_eq_def. Qed.
Print Assumptions C17_msd_eq_def.

(* the companion columns: <x_d^2> is the per-axis mean over the same pairs, and N
   is the Qian weight of the trajectory *)
Theorem C17_msd_columns : forall traj mpp fps maxlag ndim,
  traj <> [] -> NoDup (map fst traj) -> (0 < ndim)%nat ->
  exists rows, msd traj mpp fps maxlag ndim = Some rows /\
    map r_lag rows = seq 1 (Nat.min maxlag (span traj)) /\
    Forall (fun r =>
      r_lagt r = nq (r_lag r) / fps /\
      r_msd r = msd_def mpp ndim traj (r_lag r) /\
      r_sq r = map (fun d => axis_sq_def mpp d traj (r_lag r)) (seq 0 ndim) /\
      r_N r = N_eff traj (r_lag r)) rows.
Proof. exact msd_ok. Qed.
Print Assumptions C17_msd_columns.

(* a reported value is NaN exactly when no two observations are that many frames apart *)
Theorem C17_nan_iff_no_pair : forall traj mpp fps maxlag ndim,
  traj <> [] -> NoDup (map fst traj) -> (0 < ndim)%nat ->
  exists rows, msd traj mpp fps maxlag ndim = Some rows /\
    forall r, In r rows -> (r_msd r = None <-> pairs (Z.of_nat (r_lag r)) traj = []).
Proof. exact msd_nan_iff_no_pair. Qed.
Print Assumptions C17_nan_iff_no_pair.

(* the whole result (every column, raised or not) is the same for any
   reordering of the input rows *)
Theorem C17_order_independent : forall traj traj' mpp fps maxlag ndim,
  NoDup (map fst traj) -> Permutation traj traj' ->
  msd traj mpp fps maxlag ndim = msd traj' mpp fps maxlag ndim.
Proof. exact msd_order_independent. Qed.
Print Assumptions C17_order_independent.

(* missing frames do not change what is computed: C17_msd_eq_def holds with and
   without gaps, and where both algorithms apply (sorted gap-free table) the FFT
   path and the reindex/nanmean path return the same table *)
Theorem C17_gap_independent : forall r0 t' mpp fps maxlag ndim,
  StronglySorted (fun a b : row => (fst a <= fst b)%Z) (r0 :: t') ->
  NoDup (map fst (r0 :: t')) -> (0 < ndim)%nat ->
  (fst (last (r0 :: t') r0) - fst r0 + 1 = Z.of_nat (length (r0 :: t')))%Z ->
  exists rows, msd_gaps (r0 :: t') mpp fps maxlag ndim = Some rows /\
    map (fun r => (r_lag r, r_lagt r, r_msd r, r_sq r, r_N r)) rows =
    map (fun r => (r_lag r, r_lagt r, r_msd r, r_sq r, r_N r)) (msd_fft (r0 :: t') mpp fps maxlag ndim).
Proof. exact paths_agree. Qed.
Print Assumptions C17_gap_independent.

(* imsd: one column per particle that has at least one lag, one row per lag up
   to the longest particle table; entry (lag, particle) is that particle's
   msd value by the definition (NaN beyond its own span) *)
Theorem C17_imsd : forall tr mpp fps maxlag ndim,
  tr <> [] -> (forall p, In p (pids tr) -> NoDup (map fst (rows_of p tr))) -> (0 < ndim)%nat ->
  exists rows, imsd tr mpp fps maxlag ndim = Some (imsd_columns maxlag tr, rows) /\
    map i_lag rows = seq 1 (ens_lags maxlag tr) /\
    forall r, In r rows ->
      i_lagt r = nq (i_lag r) / fps /\
      i_vals r = map (fun p => msd_def mpp ndim (rows_of p tr) (i_lag r)) (imsd_columns maxlag tr).
Proof. exact imsd_ok. Qed.
Print Assumptions C17_imsd.

(* emsd at lag n is sum N_i m_i / sum N_i over exactly the particles that have
   a value at lag n (NaN if none), N_i their Qian weights; the reported ensemble N
   is the sum of those weights *)
Theorem C17_emsd_weighted : forall tr mpp fps maxlag ndim,
  tr <> [] -> (forall p, In p (pids tr) -> NoDup (map fst (rows_of p tr))) -> (0 < ndim)%nat ->
  exists rows, emsd tr mpp fps maxlag ndim = Some rows /\
    map e_lag rows = seq 1 (ens_lags maxlag tr) /\
    forall r, In r rows ->
      e_lagt r = nq (e_lag r) / fps /\
      e_msd r = emsd_def mpp ndim tr (e_lag r) /\
      e_N r = qsum (map fst (contributing mpp ndim tr (e_lag r))).
Proof. exact emsd_ok. Qed.
Print Assumptions C17_emsd_weighted.

(* ---- the pinned (pre-fix) code, Model/MSDOld.v, violated the property:
   regression witnesses for DESIGN 4 F6, F7, F11 ---------------------------------- *)
Theorem C17_refuted_order :
  Permutation w_sorted w_shuffled /\ NoDup (map fst w_sorted) /\
  vals (msd_old w_sorted 1 1 100 1) <> vals (msd_old w_shuffled 1 1 100 1).
Proof. exact old_order_dependent. Qed.
Print Assumptions C17_refuted_order.

Theorem C17_refuted_zero :
  pairs 1 w_two = [] /\
  exists rows r, msd_old w_two 1 1 100 2 = Some rows /\ In r rows /\ r_lag r = 1%nat /\ r_msd r = Some 0.
Proof. exact old_zero_for_no_pair. Qed.
Print Assumptions C17_refuted_zero.

Theorem C17_emsd_refuted :
  option_map this (emsd_def 1 1 w_ens 1) = Some (15 # 2)%Q /\
  option_map (fun rows => option_map this (e_msd (hd (Build_erow 0 0 None 0) rows))) (emsd_old w_ens 1 1 100 1)
  = Some (Some (75 # 16)%Q).
Proof. exact old_emsd_wrong. Qed.
Print Assumptions C17_emsd_refuted.

(* ---- non-vacuity: the hypotheses are met by non-trivial values, and the
   conclusions are not trivially "NaN everywhere" ------------------------------ *)
Definition ex_traj : list row :=      (* shuffled, gapped, start frame 4 *)
  [(9%Z, [zq 4; zq 6]); (4%Z, [zq 1; zq 2]); (6%Z, [zq 1; zq 3])].

Example C17_ex_hyps : ex_traj <> [] /\ NoDup (map fst ex_traj) /\ (0 < 2)%nat.
Proof.
  split. discriminate. split; [|auto].
  repeat constructor; simpl; intuition discriminate.
Qed.

(* lags 1..5; pairs exist at lags 2, 3, 5 only: (1), (9+9), (9+16) *)
Example C17_ex_values :
  option_map (map (fun r => (r_lag r, option_map this (r_msd r)))) (msd ex_traj 1 1 100 2)
  = Some [(1, None); (2, Some (1 # 1)); (3, Some (18 # 1)); (4, None); (5, Some (25 # 1))]%nat%Q.
Proof. vm_compute. reflexivity. Qed.

(* DESIGN 4, F11: particle 0 on frames 0-4, particle 1 on frames 0,2,4;
   only particle 0 has a lag-1 pair, so emsd(lag 1) is its value 7.5 *)
Definition ex_ens : list prow :=
  map (fun fx => (0%Z, (fst fx, [zq (snd fx)]))) [(0, 0); (1, 1); (2, 3); (3, 6); (4, 10)]%Z ++
  map (fun fx => (1%Z, (fst fx, [zq (snd fx)]))) [(0, 0); (2, 5); (4, 7)]%Z.

Example C17_ex_ens_hyps : ex_ens <> [] /\
  (forall p, In p (pids ex_ens) -> NoDup (map fst (rows_of p ex_ens))).
Proof.
  split. discriminate. intros p Hp. vm_compute in Hp.
  destruct Hp as [<-|[<-|[]]]; vm_compute; repeat constructor; simpl; intuition discriminate.
Qed.

Example C17_ex_emsd_F11 :
  option_map (fun rows => option_map this (e_msd (hd (Build_erow 0 0 None 0) rows))) (emsd ex_ens 1 1 100 1)
  = Some (Some (15 # 2)%Q).
Proof. vm_compute. reflexivity. Qed.

(* ==== ROUTE T: the same statements about the functions GENERATED from the current
   trackpy/motion.py by tools/py2coq_msd.py (Gen/msd.v; vocabulary Model/PyMsd.v:
   numpy / pandas operations as named primitives, np.fft as the exact circular
   autocorrelation of the zero-padded signal).  Proofs in Proofs/MSDGen.v.
     frame_of_mrows pc detail rows   the pandas table whose rows are the model rows [rows]:
                                     index = lag, index name 'lagt', columns <p>.., <p^2>.., msd, [N,] lagt
     agrees view g m                 g = Ret (view b) when the model returns b;  g raises when the model raises
   Python ints are Z (max_lagtime = Z.of_nat maxlag), pos_columns = the first ndim axes. ==== *)
From TP Require Import Model.PyMsd Model.MSDGen Gen.msd Proofs.MSDGen.

(* _msd_N as written (np.where over the vector of lag times) is the Qian weight of the model *)
Theorem C17_gen_msd_N_equal_model : forall (N : nat) (ts : list nat),
  py__msd_N (Z.of_nat N) (map Z.of_nat ts) = map (msd_N N) ts.
Proof. exact gen_msd_N. Qed.
Print Assumptions C17_gen_msd_N_equal_model.

(* _msd_gaps (set_index / reindex / _msd_iter / DataFrame assembly) equals the model for EVERY table:
   same rows, and it raises exactly when the model raises (empty table, duplicated frame) *)
Theorem C17_gen_msd_gaps_equal_model : forall t mpp fps maxlag ndim detail,
  agrees (frame_of_mrows (seq 0 ndim) detail)
         (py__msd_gaps t mpp fps (Z.of_nat maxlag) detail (Some (seq 0 ndim)))
         (msd_gaps t mpp fps maxlag ndim).
Proof. exact gen_msd_gaps. Qed.
Print Assumptions C17_gen_msd_gaps_equal_model.

(* _msd_fft (reversed slices, cumulative sums, S1 - 2 S2 with S2 the circular autocorrelation
   of the signal zero-padded to 2N) equals the model for every non-empty table *)
Theorem C17_gen_msd_fft_equal_model : forall t mpp fps maxlag ndim detail, t <> [] -> (0 < ndim)%nat ->
  py__msd_fft t mpp fps (Z.of_nat maxlag) detail (Some (seq 0 ndim))
  = Ret (frame_of_mrows (seq 0 ndim) detail (msd_fft t mpp fps maxlag ndim)).
Proof. exact gen_msd_fft. Qed.
Print Assumptions C17_gen_msd_fft_equal_model.

(* msd (stable argsort by frame, span + 1 == len dispatcher) equals the model for every table *)
Theorem C17_gen_msd_equal_model : forall traj mpp fps maxlag ndim detail, (0 < ndim)%nat ->
  agrees (frame_of_mrows (seq 0 ndim) detail)
         (py_msd traj mpp fps (Z.of_nat maxlag) detail (Some (seq 0 ndim)))
         (msd traj mpp fps maxlag ndim).
Proof. exact gen_msd. Qed.
Print Assumptions C17_gen_msd_equal_model.

(* C17_msd_eq_def for the generated msd *)
Theorem C17_gen_msd_eq_def : forall traj mpp fps maxlag ndim detail,
  traj <> [] -> NoDup (map fst traj) -> (0 < ndim)%nat ->
  exists rows, py_msd traj mpp fps (Z.of_nat maxlag) detail (Some (seq 0 ndim))
               = Ret (frame_of_mrows (seq 0 ndim) detail rows) /\
    map (fun r => (r_lag r, r_lagt r, r_msd r)) rows =
    map (fun n => (n, nq n / fps, msd_def mpp ndim traj n)) (seq 1 (Nat.min maxlag (span traj))).
Proof. exact gen_msd_eq_def. Qed.
Print Assumptions C17_gen_msd_eq_def.

(* C17_msd_columns for the generated msd *)
Theorem C17_gen_msd_columns : forall traj mpp fps maxlag ndim detail,
  traj <> [] -> NoDup (map fst traj) -> (0 < ndim)%nat ->
  exists rows, py_msd traj mpp fps (Z.of_nat maxlag) detail (Some (seq 0 ndim))
               = Ret (frame_of_mrows (seq 0 ndim) detail rows) /\
    map r_lag rows = seq 1 (Nat.min maxlag (span traj)) /\
    Forall (fun r =>
      r_lagt r = nq (r_lag r) / fps /\
      r_msd r = msd_def mpp ndim traj (r_lag r) /\
      r_sq r = map (fun d => axis_sq_def mpp d traj (r_lag r)) (seq 0 ndim) /\
      r_N r = N_eff traj (r_lag r)) rows.
Proof. exact gen_msd_columns. Qed.
Print Assumptions C17_gen_msd_columns.

(* C17_nan_iff_no_pair for the generated msd *)
Theorem C17_gen_nan_iff_no_pair : forall traj mpp fps maxlag ndim detail,
  traj <> [] -> NoDup (map fst traj) -> (0 < ndim)%nat ->
  exists rows, py_msd traj mpp fps (Z.of_nat maxlag) detail (Some (seq 0 ndim))
               = Ret (frame_of_mrows (seq 0 ndim) detail rows) /\
    forall r, In r rows -> (r_msd r = None <-> pairs (Z.of_nat (r_lag r)) traj = []).
Proof. exact gen_msd_nan_iff_no_pair. Qed.
Print Assumptions C17_gen_nan_iff_no_pair.

(* C17_order_independent for the generated msd: the same table for any reordering of the rows *)
Theorem C17_gen_order_independent : forall traj traj' mpp fps maxlag ndim detail,
  traj <> [] -> NoDup (map fst traj) -> (0 < ndim)%nat -> Permutation traj traj' ->
  py_msd traj mpp fps (Z.of_nat maxlag) detail (Some (seq 0 ndim))
  = py_msd traj' mpp fps (Z.of_nat maxlag) detail (Some (seq 0 ndim)).
Proof. exact gen_msd_order_independent. Qed.
Print Assumptions C17_gen_order_independent.

(* C17_gap_independent for the generated _msd_gaps / _msd_fft: on a sorted gap-free table both return
   tables with the same lag, lagt, msd, <x^2> and N columns *)
Theorem C17_gen_gap_independent : forall r0 t' mpp fps maxlag ndim detail,
  StronglySorted (fun a b : row => (fst a <= fst b)%Z) (r0 :: t') ->
  NoDup (map fst (r0 :: t')) -> (0 < ndim)%nat ->
  (fst (last (r0 :: t') r0) - fst r0 + 1 = Z.of_nat (length (r0 :: t')))%Z ->
  exists rows_g rows_f,
    py__msd_gaps (r0 :: t') mpp fps (Z.of_nat maxlag) detail (Some (seq 0 ndim)) = Ret (frame_of_mrows (seq 0 ndim) detail rows_g) /\
    py__msd_fft (r0 :: t') mpp fps (Z.of_nat maxlag) detail (Some (seq 0 ndim)) = Ret (frame_of_mrows (seq 0 ndim) detail rows_f) /\
    map (fun r => (r_lag r, r_lagt r, r_msd r, r_sq r, r_N r)) rows_g =
    map (fun r => (r_lag r, r_lagt r, r_msd r, r_sq r, r_N r)) rows_f.
Proof. exact gen_paths_agree. Qed.
Print Assumptions C17_gen_gap_independent.

(* imsd / emsd, first half: the loop `for pid, ptraj in traj.reset_index(drop=True).groupby('particle')`
   with its msd(...) calls (detail=False in imsd, True in emsd) collects exactly the model's per-particle
   tables, in the model's order, and raises exactly when the model's per_particle does; what follows the
   loop is the pandas pipeline imsd_tail / emsd_tail (Model/MSDGen.v: the generated text after the loop)
   applied to them.  (Named _partial: they are one half; the other half and the full statements follow.) *)
Theorem C17_gen_imsd_partial : forall tr mpp fps ml ndim, (0 < ndim)%nat ->
  match per_particle tr mpp fps ml ndim with
  | Some tabs => py_imsd tr mpp fps (Z.of_nat ml) LMsd (Some (seq 0 ndim))
                 = imsd_tail fps LMsd (tabs_ids tabs) (tabs_frames (seq 0 ndim) false tabs)
  | None => exists e, py_imsd tr mpp fps (Z.of_nat ml) LMsd (Some (seq 0 ndim)) = Raise e
  end.
Proof. exact gen_imsd_partial. Qed.
Print Assumptions C17_gen_imsd_partial.

Theorem C17_gen_emsd_partial : forall tr mpp fps ml ndim detail, (0 < ndim)%nat ->
  match per_particle tr mpp fps ml ndim with
  | Some tabs => py_emsd tr mpp fps (Z.of_nat ml) detail (Some (seq 0 ndim))
                 = emsd_tail fps detail (tabs_ids tabs) (tabs_frames (seq 0 ndim) true tabs)
  | None => exists e, py_emsd tr mpp fps (Z.of_nat ml) detail (Some (seq 0 ndim)) = Raise e
  end.
Proof. exact gen_emsd_partial. Qed.
Print Assumptions C17_gen_emsd_partial.

(* imsd / emsd, second half and the full statements: the pandas pipeline after the loop -- concat with keys,
   swaplevel + [statistic] + unstack (imsd); N.where(msd.notna()), mul(N, axis=0), groupby(level=1).mean(),
   div by the mean weight, groupby(level=1).sum() (emsd) -- assembles exactly the model's tables.
     widef_of_irows (cols, rows)   the imsd table: float index lag/fps named 'lag time [s]', one column per particle
     emsd_frame_agrees f rows      index of f = the lags of rows; columns lagt, msd, N of f = those of rows *)
Theorem C17_gen_imsd_equal_model : forall tr mpp fps ml ndim, (0 < ndim)%nat ->
  agrees widef_of_irows (py_imsd tr mpp fps (Z.of_nat ml) LMsd (Some (seq 0 ndim))) (imsd tr mpp fps ml ndim).
Proof. exact gen_imsd. Qed.
Print Assumptions C17_gen_imsd_equal_model.

Theorem C17_gen_emsd_equal_model : forall tr mpp fps ml ndim, (0 < ndim)%nat ->
  match emsd tr mpp fps ml ndim with
  | Some rows => exists f, py_emsd tr mpp fps (Z.of_nat ml) true (Some (seq 0 ndim)) = Ret (EmsdFrame f) /\
                           emsd_frame_agrees f rows
  | None => exists e, py_emsd tr mpp fps (Z.of_nat ml) true (Some (seq 0 ndim)) = Raise e
  end.
Proof. exact gen_emsd. Qed.
Print Assumptions C17_gen_emsd_equal_model.

(* C17_imsd for the generated imsd *)
Theorem C17_gen_imsd : forall tr mpp fps maxlag ndim,
  tr <> [] -> (forall p, In p (pids tr) -> NoDup (map fst (rows_of p tr))) -> (0 < ndim)%nat ->
  exists rows, py_imsd tr mpp fps (Z.of_nat maxlag) LMsd (Some (seq 0 ndim))
               = Ret (widef_of_irows (imsd_columns maxlag tr, rows)) /\
    map i_lag rows = seq 1 (ens_lags maxlag tr) /\
    forall r, In r rows ->
      i_lagt r = nq (i_lag r) / fps /\
      i_vals r = map (fun p => msd_def mpp ndim (rows_of p tr) (i_lag r)) (imsd_columns maxlag tr).
Proof. exact gen_imsd_ok. Qed.
Print Assumptions C17_gen_imsd.

(* C17_emsd_weighted for the generated emsd(detail=True) *)
Theorem C17_gen_emsd_weighted : forall tr mpp fps maxlag ndim,
  tr <> [] -> (forall p, In p (pids tr) -> NoDup (map fst (rows_of p tr))) -> (0 < ndim)%nat ->
  exists f rows, py_emsd tr mpp fps (Z.of_nat maxlag) true (Some (seq 0 ndim)) = Ret (EmsdFrame f) /\
    emsd_frame_agrees f rows /\
    map e_lag rows = seq 1 (ens_lags maxlag tr) /\
    forall r, In r rows ->
      e_lagt r = nq (e_lag r) / fps /\
      e_msd r = emsd_def mpp ndim tr (e_lag r) /\
      e_N r = qsum (map fst (contributing mpp ndim tr (e_lag r))).
Proof. exact gen_emsd_ok. Qed.
Print Assumptions C17_gen_emsd_weighted.

(* non-vacuity: the generated msd on the example trajectory returns the table of the model's rows, with the
   values of C17_ex_values in its msd column, and the generated emsd / imsd run on the F11 ensemble *)
Example C17_gen_ex_values :
  match py_msd ex_traj 1 1 100 true (Some [0; 1]%nat) with
  | Ret f => (f_index f, option_map (map (option_map this)) (getcol (f_cols f) LMsd))
  | Raise _ => ([], None)
  end = ([1; 2; 3; 4; 5]%Z, Some [None; Some (1 # 1); Some (18 # 1); None; Some (25 # 1)]%Q).
Proof. vm_compute. reflexivity. Qed.

Example C17_gen_ex_emsd_F11 :
  cmp_gen_emsd (py_emsd ex_ens 1 1 100 true (Some [0]%nat)) (emsd ex_ens 1 1 100 1) = 0%N /\
  cmp_gen_imsd (py_imsd ex_ens 1 1 100 LMsd (Some [0]%nat)) (imsd ex_ens 1 1 100 1) = 0%N.
Proof. vm_compute. split; reflexivity. Qed.
