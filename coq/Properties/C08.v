(* C08 — locate's output obeys its documented filters and bounds.
   Only statements closed by [exact]; the model is Model/LocateTail.v (the tail
   of trackpy.feature.locate after refine_com), the vocabulary of the
   statements is Model/LocateTailSpec.v, proofs are in Proofs/LocateTail.v. *)
From Coq Require Import QArith List Permutation NArith.
From TP Require Import Model.LocateTail Model.LocateTailSpec Model.LocateTailCheck Proofs.LocateTail.
Import ListNotations.
Open Scope Q_scope.

(* [out_rows P rows] is the table the tail returns for the refine_com table
   [rows]: each returned row with its ep column(s). *)

(* 1. Every returned feature has mass > minmass, size < maxsize (when given),
      lies inside the image (given that refine_com's positions do: C07), no two
      returned features are closer than separation, and no ep is negative. *)
Theorem C08_filters_and_bounds : forall shape P rows,
  Forall (fun r => inside_image shape (r_pos r)) rows ->
  Forall (fun x => p_minmass P < r_mass (fst x) /\
                   match p_maxsize P with None => True | Some s => r_size (fst x) < s end)
         (out_rows P rows) /\
  Forall (fun x => inside_image shape (r_pos (fst x))) (out_rows P rows) /\
  (Forall (fun s => 0 < s) (p_sep P) ->
     forall i j a b, i <> j ->
       nth_error (map fst (out_rows P rows)) i = Some a ->
       nth_error (map fst (out_rows P rows)) j = Some b ->
       ~ dist2_sep (p_sep P) (r_pos a) (r_pos b) < 1) /\
  Forall (fun x => Forall ep_not_negative (snd x)) (out_rows P rows).
Proof. exact tail_output_ok. Qed.
Print Assumptions C08_filters_and_bounds.

(* 2. The duplicate removal itself (where_close + drop, any table, any
      dimension): afterwards no two rows are closer than separation. *)
Theorem C08_dedupe_separated : forall sep rows,
  forallb (Qltb 0) sep = true ->
  ForallOrdPairs (fun a b => ~ dist2_sep sep (r_pos a) (r_pos b) < 1) (dedupe sep rows).
Proof. exact dedupe_separated. Qed.
Print Assumptions C08_dedupe_separated.

(*    ... and it only drops for a reason: every dropped row belongs to a pair
      closer than separation whose other member is at least as bright. *)
Theorem C08_dedupe_justified : forall sep pts k,
  In k (where_close sep pts) ->
  exists x y, In (x, y) (ordpairs (index pts)) /\
    close sep (i_pos x) (i_pos y) = true /\
    ((k = i_lab x /\ i_int x <= i_int y) \/ (k = i_lab y /\ i_int y <= i_int x)).
Proof. exact where_close_justified. Qed.
Print Assumptions C08_dedupe_justified.

(* 3. What is returned is a selection of the deduplicated, rescaled table:
      rows are only removed, never altered; without topn exactly the rows that
      fail a filter are removed; with topn = n >= 1 at most n rows are returned
      and a passing row is left out only if n rows are returned, each at least
      as massive. *)
Theorem C08_topn_selection : forall P rows, p_topn P <> Some 0%nat ->
  exists removed,
    Permutation (map fst (out_rows P rows) ++ removed) (candidates (p_sep P) (p_sf P) rows) /\
    Forall (keeps (p_minmass P) (p_maxsize P)) (map fst (out_rows P rows)) /\
    match p_topn P with
    | None => Forall (fun r => ~ keeps (p_minmass P) (p_maxsize P) r) removed
    | Some n =>
        (length (map fst (out_rows P rows)) <= n)%nat /\
        forall r, In r removed -> keeps (p_minmass P) (p_maxsize P) r ->
                  length (map fst (out_rows P rows)) = n /\
                  Forall (fun o => r_mass r <= r_mass o) (map fst (out_rows P rows))
    end.
Proof. exact tail_selection. Qed.
Print Assumptions C08_topn_selection.

(* 4. Raising minmass, lowering maxsize or setting topn only removes rows from
      the unrestricted result and changes no value (ep included) in the rows
      kept; with topn the kept rows are the most massive of the UNRESTRICTED
      RESULT. *)
Theorem C08_restriction : forall sep sf noise black npx cs mm0 ms0 mm1 ms1 n rows,
  mm0 <= mm1 -> size_le ms1 ms0 -> n <> Some 0%nat ->
  let P0 := mkparams sep sf mm0 ms0 None noise black npx cs in
  let P1 := mkparams sep sf mm1 ms1 n noise black npx cs in
  selection_of mm1 ms1 n (map fst (out_rows P0 rows)) (map fst (out_rows P1 rows)) /\
  exists removed, Permutation (out_rows P1 rows ++ removed) (out_rows P0 rows).
Proof. exact tail_restriction. Qed.
Print Assumptions C08_restriction.

(* 5. Why the check can feed the model with locate's own unrestricted table:
      filtering/topn of the laxer result equals the direct result. *)
Theorem C08_restriction_commutes : forall mm0 ms0 mm1 ms1 n l,
  mm0 <= mm1 -> size_le ms1 ms0 ->
  sel mm1 ms1 n (sel mm0 ms0 None l) = sel mm1 ms1 n l.
Proof. exact sel_restriction. Qed.
Print Assumptions C08_restriction_commutes.

(* 6. ep = noise / (raw_mass - N*black_level) * geometry, negative -> NaN:
      never negative for any input; a positive number (or +inf / NaN) whenever
      the measured noise and the geometric factors are positive. *)
Theorem C08_ep_not_negative : forall noise black npx c raw,
  ep_not_negative (ep_one noise black npx c raw).
Proof. exact ep_one_not_negative. Qed.
Print Assumptions C08_ep_not_negative.

Theorem C08_ep_positive : forall P rows nz,
  p_noise P = Some nz -> 0 < nz -> Forall (fun c => 0 < c) (p_cs P) ->
  Forall (fun x => Forall ep_positive_or_nan (snd x)) (out_rows P rows).
Proof. exact tail_ep_positive. Qed.
Print Assumptions C08_ep_positive.

(* 7. The monitors run on the implementation's tables are sound: code 0 means
      the table satisfies the property's clauses. *)
Theorem C08_monitor_sound : forall shape sep mm ms np out,
  monitor shape sep mm ms np out = 0%N -> output_ok shape sep mm ms out.
Proof. exact monitor_sound. Qed.
Print Assumptions C08_monitor_sound.

Theorem C08_check_mask_sound : forall mm ms n cands mask,
  check_mask mm ms n cands mask = 0%N ->
  selection_of mm ms n cands (select_mask mask cands).
Proof. exact check_mask_sound. Qed.
Print Assumptions C08_check_mask_sound.

(* 8. The code before the fixes violated the property (regression witnesses):
      negative ep (F2), and the anisotropic ep frame joined by label (F3). *)
Theorem C08_ep_refuted : exists noise black npx c raw,
  0 < noise /\ 0 < c /\ ~ ep_not_negative (ep_one_old (Some noise) (Some black) npx c raw).
Proof. exact ep_old_refuted. Qed.
Print Assumptions C08_ep_refuted.

Theorem C08_aniso_refuted :
  map (fun x => (fst (fst x), match snd (fst x) with Some r => Some (r_raw r) | None => None end, snd x))
      (tail_old_aniso aniso_P aniso_rows)
  = [ (2%nat, Some 200, None);
      (0%nat, None, Some [FVal (1 # 100); FVal (2 # 100)]);
      (1%nat, Some 100, Some [FVal (1 # 200); FVal (2 # 200)]) ]
  /\ map (fun x => (r_raw (snd (fst x)), snd x)) (tail aniso_P aniso_rows)
  = [ (100, [FVal (1 # 100); FVal (2 # 100)]); (200, [FVal (1 # 200); FVal (2 # 200)]) ].
Proof. exact aniso_old_refuted. Qed.
Print Assumptions C08_aniso_refuted.

(* 9. topn = 0 is outside the property: argsort(mass)[-0:] is the whole table. *)
Theorem C08_topn_zero_returns_everything : forall l, l <> [] ->
  length (topn_sel (Some 0%nat) l) = length l.
Proof. exact topn_zero_returns_everything. Qed.
Print Assumptions C08_topn_zero_returns_everything.

(* ---- non-vacuity: the hypotheses are met by non-trivial values --------- *)
(* five refined features in a 64 x 64 image; the first two are 3 px apart
   (closer than separation 6), two have equal mass; minmass 50, maxsize 3,
   topn 2, noise 2, black level 1 over 13 mask pixels *)
Definition ex_rows : list row :=
  [ mkrow [10; 10] 300 2 900; mkrow [10; 13] 250 2 800; mkrow [30; 30] 400 (5 # 2) 1000;
    mkrow [50; 20] 400 (7 # 2) 1100; mkrow [40; 50] 40 1 10 ].
Definition ex_P : params := mkparams [6; 6] 2 50 (Some 3) (Some 2%nat) (Some 2) (Some 1) 13 [3].

Example ex_inside : Forall (fun r => inside_image [64; 64] (r_pos r)) ex_rows.
Proof. repeat constructor; vm_compute; discriminate. Qed.

Example ex_sep_positive : Forall (fun s => 0 < s) (p_sep ex_P).
Proof. repeat constructor. Qed.

Example ex_topn : p_topn ex_P <> Some 0%nat.
Proof. discriminate. Qed.

(* the close, dimmer second feature is dropped, the oversize fourth and the
   faint fifth are filtered, the two most massive of the rest are returned
   (ascending mass, as argsort leaves them), masses halved by the scale factor *)
Example ex_output :
  map (fun x => (fst (fst x), r_pos (snd (fst x)), Qred (r_mass (snd (fst x))), map (fun v => match v with FVal e => Some (Qred e) | _ => None end) (snd x)))
      (tail ex_P ex_rows)
  = [ (0%nat, [10; 10], 150, [Some (6 # 887)]); (1%nat, [30; 30], 200, [Some (2 # 329)]) ].
Proof. vm_compute. reflexivity. Qed.

Example ex_restriction_hyps : 0 <= 50 /\ size_le (Some 3) None /\ Some 2%nat <> Some 0%nat.
Proof. split; [discriminate|]. split; [exact I|discriminate]. Qed.

Example ex_ep_positive_hyps :
  p_noise ex_P = Some 2 /\ 0 < 2 /\ Forall (fun c => 0 < c) (p_cs ex_P).
Proof. split; [reflexivity|]. split; [reflexivity|]. repeat constructor. Qed.

(* the monitors accept the model's own table and reject a broken one *)
Example ex_monitor_accepts :
  monitor [64; 64] (p_sep ex_P) 50 (Some 3) true (out_rows ex_P ex_rows) = 0%N.
Proof. vm_compute. reflexivity. Qed.

Example ex_monitor_rejects_close_pair :
  monitor [64; 64] [6; 6] 50 None true
          [ (mkrow [10; 10] 300 2 900, [FVal 1]); (mkrow [10; 13] 250 2 800, [FVal 1]) ] = 4%N.
Proof. vm_compute. reflexivity. Qed.

Example ex_check_mask_accepts :
  check_mask 100 None (Some 1%nat) [mkrow [] 150 0 0; mkrow [] 200 0 0; mkrow [] 90 0 0] [false; true; false] = 0%N.
Proof. vm_compute. reflexivity. Qed.

Example ex_check_mask_rejects_wrong_topn :
  check_mask 100 None (Some 1%nat) [mkrow [] 150 0 0; mkrow [] 200 0 0; mkrow [] 90 0 0] [true; false; false] = 7%N.
Proof. vm_compute. reflexivity. Qed.
