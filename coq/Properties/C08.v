(* C08 — locate's output obeys its documented filters and bounds.
   Only statements closed by [exact]; the model is Model/LocateTail.v (the tail
   of trackpy.feature.locate after refine_com), the vocabulary of the
   statements is Model/LocateTailSpec.v, proofs are in Proofs/LocateTail.v. *)
From Coq Require Import QArith List Permutation NArith.
From TP Require Import Model.LocateTail Model.LocateTailSpec Model.LocateTailCheck Proofs.LocateTail.
Import ListNotations.
Open Scope Q_scope.

(* [out_rows P rows] is the table the tail returns for the refine_com table
   [rows]: each returned row with its ep column(s). *)

(* 1. Every returned feature has mass > minmass, size < maxsize (when given),
      lies inside the image (given that refine_com's positions do: C07), no two
      returned features are closer than separation, and no ep is negative. *)
Theorem C08_filters_and_bounds : forall shape P rows,
  Forall (fun r => inside_image shape (r_pos r)) rows ->
  Forall (fun x => p_minmass P < r_mass (fst x) /\
                   match p_maxsize P with None => True | Some s => r_size (fst x) < s end)
         (out_rows P rows) /\
  Forall (fun x => inside_image shape (r_pos (fst x))) (out_rows P rows) /\
  (Forall (fun s => 0 < s) (p_sep P) ->
     forall i j a b, i <> j ->
       nth_error (map fst (out_rows P rows)) i = Some a ->
       nth_error (map fst (out_rows P rows)) j = Some b ->
       ~ dist2_sep (p_sep P) (r_pos a) (r_pos b) < 1) /\
  Forall (fun x => Forall ep_not_negative (snd x)) (out_rows P rows).
Proof. exact tail_output_ok. Qed.
Print Assumptions C08_filters_and_bounds.

(* 2. The duplicate removal itself (where_close + drop, any table, any
      dimension): afterwards no two rows are closer than separation. *)
Theorem C08_dedupe_separated : forall sep rows,
  forallb (Qltb 0) sep = true ->
  ForallOrdPairs (fun a b => ~ dist2_sep sep (r_pos a) (r_pos b) < 1) (dedupe sep rows).
Proof. exact dedupe_separated. Qed.
Print Assumptions C08_dedupe_separated.

(*    ... and it only drops for a reason: every dropped row belongs to a pair
      closer than separation whose other member is at least as bright. *)
Theorem C08_dedupe_justified : forall sep pts k,
  In k (where_close sep pts) ->
  exists x y, In (x, y) (ordpairs (index pts)) /\
    close sep (i_pos x) (i_pos y) = true /\
    ((k = i_lab x /\ i_int x <= i_int y) \/ (k = i_lab y /\ i_int y <= i_int x)).
Proof. exact where_close_justified. Qed.
Print Assumptions C08_dedupe_justified.

(* 3. What is returned is a selection of the deduplicated, rescaled table:
      rows are only removed, never altered; without topn exactly the rows that
      fail a filter are removed; with topn = n >= 1 at most n rows are returned
      and a passing row is left out only if n rows are returned, each at least
      as massive. *)
Theorem C08_topn_selection : forall P rows, p_topn P <> Some 0%nat ->
  exists removed,
    Permutation (map fst (out_rows P rows) ++ removed) (candidates (p_sep P) (p_sf P) rows) /\
    Forall (keeps (p_minmass P) (p_maxsize P)) (map fst (out_rows P rows)) /\
    match p_topn P with
    | None => Forall (fun r => ~ keeps (p_minmass P) (p_maxsize P) r) removed
    | Some n =>
        (length (map fst (out_rows P rows)) <= n)%nat /\
        forall r, In r removed -> keeps (p_minmass P) (p_maxsize P) r ->
                  length (map fst (out_rows P rows)) = n /\
                  Forall (fun o => r_mass r <= r_mass o) (map fst (out_rows P rows))
    end.
Proof. exact tail_selection. Qed.
Print Assumptions C08_topn_selection.

(* 4. Raising minmass, lowering maxsize or setting topn only removes rows from
      the unrestricted result and changes no value (ep included) in the rows
      kept; with topn the kept rows are the most massive of the UNRESTRICTED
      RESULT. *)
Theorem C08_restriction : forall sep sf noise black npx cs mm0 ms0 mm1 ms1 n rows,
  mm0 <= mm1 -> size_le ms1 ms0 -> n <> Some 0%nat ->
  let P0 := mkparams sep sf mm0 ms0 None noise black npx cs in
  let P1 := mkparams sep sf mm1 ms1 n noise black npx cs in
  selection_of mm1 ms1 n (map fst (out_rows P0 rows)) (map fst (out_rows P1 rows)) /\
  exists removed, Permutation (out_rows P1 rows ++ removed) (out_rows P0 rows).
Proof. exact tail_restriction. Qed.
Print Assumptions C08_restriction.

(* 5. Why the check can feed the model with locate's own unrestricted table:
      filtering/topn of the laxer result equals the direct result. *)
Theorem C08_restriction_commutes : forall mm0 ms0 mm1 ms1 n l,
  mm0 <= mm1 -> size_le ms1 ms0 ->
  sel mm1 ms1 n (sel mm0 ms0 None l) = sel mm1 ms1 n l.
Proof. exact sel_restriction. Qed.
Print Assumptions C08_restriction_commutes.

(* 6. ep = noise / (raw_mass - N*black_level) * geometry, negative -> NaN:
      never negative for any input; a positive number (or +inf / NaN) whenever
      the measured noise and the geometric factors are positive. *)
Theorem C08_ep_not_negative : forall noise black npx c raw,
  ep_not_negative (ep_one noise black npx c raw).
Proof. exact ep_one_not_negative. Qed.
Print Assumptions C08_ep_not_negative.

Theorem C08_ep_positive : forall P rows nz,
  p_noise P = Some nz -> 0 < nz -> Forall (fun c => 0 < c) (p_cs P) ->
  Forall (fun x => Forall ep_positive_or_nan (snd x)) (out_rows P rows).
Proof. exact tail_ep_positive. Qed.
Print Assumptions C08_ep_positive.

(* 7. The monitors run on the implementation's tables are sound: code 0 means
      the table satisfies the property's clauses. *)
Theorem C08_monitor_sound : forall shape sep mm ms np out,
  monitor shape sep mm ms np out = 0%N -> output_ok shape sep mm ms out.
Proof. exact monitor_sound. Qed.
Print Assumptions C08_monitor_sound.

Theorem C08_check_mask_sound : forall mm ms n cands mask,
  check_mask mm ms n cands mask = 0%N ->
  selection_of mm ms n cands (select_mask mask cands).
Proof. exact check_mask_sound. Qed.
Print Assumptions C08_check_mask_sound.

(* 8. The code before the fixes violated the property (regression witnesses):
      negative ep (F2), and the anisotropic ep frame joined by label (F3). *)
Theorem C08_ep_refuted : exists noise black npx c raw,
  0 < noise /\ 0 < c /\ ~ ep_not_negative (ep_one_old (Some noise) (Some black) npx c raw).
Proof. exact ep_old_refuted. Qed.
Print Assumptions C08_ep_refuted.

Theorem C08_aniso_refuted :
  map (fun x => (fst (fst x), match snd (fst x) with Some r => Some (r_raw r) | None => None end, snd x))
      (tail_old_aniso aniso_P aniso_rows)
  = [ (2%nat, Some 200, None);
      (0%nat, None, Some [FVal (1 # 100); FVal (2 # 100)]);
      (1%nat, Some 100, Some [FVal (1 # 200); FVal (2 # 200)]) ]
  /\ map (fun x => (r_raw (snd (fst x)), snd x)) (tail aniso_P aniso_rows)
  = [ (100, [FVal (1 # 100); FVal (2 # 100)]); (200, [FVal (1 # 200); FVal (2 # 200)]) ].
Proof. exact aniso_old_refuted. Qed.
Print Assumptions C08_aniso_refuted.

(* 9. topn = 0 is outside the property: argsort(mass)[-0:] is the whole table. *)
Theorem C08_topn_zero_returns_everything : forall l, l <> [] ->
  length (topn_sel (Some 0%nat) l) = length l.
Proof. exact topn_zero_returns_everything. Qed.
Print Assumptions C08_topn_zero_returns_everything.

(* ---- non-vacuity: the hypotheses are met by non-trivial values --------- *)
(* five refined features in a 64 x 64 image; the first two are 3 px apart
   (closer than separation 6), two have equal mass; minmass 50, maxsize 3,
   topn 2, noise 2, black level 1 over 13 mask pixels *)
Definition ex_rows : list row :=
  [ mkrow [10; 10] 300 2 900; mkrow [10; 13] 250 2 800; mkrow [30; 30] 400 (5 # 2) 1000;
    mkrow [50; 20] 400 (7 # 2) 1100; mkrow [40; 50] 40 1 10 ].
Definition ex_P : params := mkparams [6; 6] 2 50 (Some 3) (Some 2%nat) (Some 2) (Some 1) 13 [3].

Example ex_inside : Forall (fun r => inside_image [64; 64] (r_pos r)) ex_rows.
Proof. repeat constructor; vm_compute; discriminate. Qed.

Example ex_sep_positive : Forall (fun s => 0 < s) (p_sep ex_P).
Proof. repeat constructor. Qed.

Example ex_topn : p_topn ex_P <> Some 0%nat.
Proof. discriminate. Qed.

(* the close, dimmer second feature is dropped, the oversize fourth and the
   faint fifth are filtered, the two most massive of the rest are returned
   (ascending mass, as argsort leaves them), masses halved by the scale factor *)
Example ex_output :
  map (fun x => (fst (fst x), r_pos (snd (fst x)), Qred (r_mass (snd (fst x))), map (fun v => match v with FVal e => Some (Qred e) | _ => None end) (snd x)))
      (tail ex_P ex_rows)
  = [ (0%nat, [10; 10], 150, [Some (6 # 887)]); (1%nat, [30; 30], 200, [Some (2 # 329)]) ].
Proof. vm_compute. reflexivity. Qed.

Example ex_restriction_hyps : 0 <= 50 /\ size_le (Some 3) None /\ Some 2%nat <> Some 0%nat.
Proof. split; [discriminate|]. split; [exact I|discriminate]. Qed.

Example ex_ep_positive_hyps :
  p_noise ex_P = Some 2 /\ 0 < 2 /\ Forall (fun c => 0 < c) (p_cs ex_P).
Proof. split; [reflexivity|]. split; [reflexivity|]. repeat constructor. Qed.

(* the monitors accept the model's own table and reject a broken one *)
Example ex_monitor_accepts :
  monitor [64; 64] (p_sep ex_P) 50 (Some 3) true (out_rows ex_P ex_rows) = 0%N.
Proof. vm_compute. reflexivity. Qed.

Example ex_monitor_rejects_close_pair :
  monitor [64; 64] [6; 6] 50 None true
          [ (mkrow [10; 10] 300 2 900, [FVal 1]); (mkrow [10; 13] 250 2 800, [FVal 1]) ] = 4%N.
Proof. vm_compute. reflexivity. Qed.

Example ex_check_mask_accepts :
  check_mask 100 None (Some 1%nat) [mkrow [] 150 0 0; mkrow [] 200 0 0; mkrow [] 90 0 0] [false; true; false] = 0%N.
Proof. vm_compute. reflexivity. Qed.

Example ex_check_mask_rejects_wrong_topn :
  check_mask 100 None (Some 1%nat) [mkrow [] 150 0 0; mkrow [] 200 0 0; mkrow [] 90 0 0] [true; false; false] = 7%N.
Proof. vm_compute. reflexivity. Qed.

(* ==========================================================================
   10. "Lies inside the image" for the WHOLE pipeline (not only the tail).
   Model/LocatePipe.locate is locate(raw_image, diameter, ..., preprocess=False) on an
   integer image as the code is after 7e846f3 (F18), composed from
     image = raw_image.clip(min=0)   (the identity on unsigned images; the model always clips),
   the models of C06 (grey_dilation on [image] with locate's
   margin = max(radius, separation//2 - 1, smoothing_size//2)), C07 (refine_com on [image],
   raw_mass from [raw_image], python or numba engine, shift_thresh 0.6) and the tail above
   (where_close, filters, topn, ep with measure_noise(image, raw_image)); np.percentile and
   np.sqrt are arbitrary functions.  [None] = locate raises.
   For EVERY integer image -- negative pixels included --, every radius >= 0
   (diameter >= 1), separation, smoothing_size, noise_size, percentile, max_iterations,
   characterize, minmass, maxsize, topn (for engine='numba': >= 2 axes and diameter >= 3,
   where the kernels are proved equal to the reference), every returned feature has
     0 <= coordinate <= shape - 1 on every axis,
   and, sharper: it lies in the mask window (within radius_d of the centre along axis d)
   of a window centre c that keeps the distance radius from every border:
     radius_d <= c_d <= shape_d - 1 - radius_d  and  c_d - radius_d <= pos_d <= c_d + radius_d.
   (The bound 0 / shape-1 itself is attained only when all the brightness of the last
   window sits in its outermost pixel.) *)
From Coq Require Import ZArith String.
From TP Require Import Model.Dilation Model.COM Model.LocatePipe Model.StaticError Proofs.LocatePipe Proofs.StaticError.

Theorem C08_inside_image : forall (percentile : list Z -> Q) (sqrtf : Q -> Q) L raw_image out,
  Forall (fun r => (0 <= r)%Z) (l_radius L) ->
  List.length (l_radius L) = List.length (shape raw_image) ->
  List.length (l_sep L) = List.length (shape raw_image) ->
  List.length (l_smooth L) = List.length (shape raw_image) ->
  (l_numba L = true -> (2 <= List.length (l_radius L))%nat /\ Forall (fun r => (1 <= r)%Z) (l_radius L)) ->
  locate percentile sqrtf L raw_image = Some out ->
  Forall (fun x => in_a_window (l_radius L) (shape raw_image) (r_pos (snd (fst x))) /\
                   inside_image (map inject_Z (shape raw_image)) (r_pos (snd (fst x)))) out.
Proof. exact locate_inside_image. Qed.
Print Assumptions C08_inside_image.

(*     The same for the part of locate after "image = ...", for any image handed to the
       maxima finding and refinement that has no negative pixel (what bandpass returns,
       what convert_to_int returns for a float image, what the clip returns), whatever
       the raw image. *)
Theorem C08_inside_image_on : forall (percentile : list Z -> Q) (sqrtf : Q -> Q) L image raw_image out,
  (forall p, (0 <= pix image p)%Z) ->
  Forall (fun r => (0 <= r)%Z) (l_radius L) ->
  List.length (l_radius L) = List.length (shape image) ->
  List.length (l_sep L) = List.length (shape image) -> List.length (l_smooth L) = List.length (shape image) ->
  (l_numba L = true -> (2 <= List.length (l_radius L))%nat /\ Forall (fun r => (1 <= r)%Z) (l_radius L)) ->
  locate_on percentile sqrtf L image raw_image = Some out ->
  Forall (fun x => in_a_window (l_radius L) (shape image) (r_pos (snd (fst x))) /\
                   inside_image (map inject_Z (shape image)) (r_pos (snd (fst x)))) out.
Proof. exact locate_on_inside_image. Qed.
Print Assumptions C08_inside_image_on.

(*     The ingredient about one refinement: whatever the start window inside the image,
       the position _refine reports lies in the mask window of an admissible centre. *)
Theorem C08_refined_position_in_window : forall pix rawpix radius shape thresh maxit ch start,
  (forall p, (0 <= pix p)%Z) -> Forall (fun r => (0 <= r)%Z) radius ->
  List.length start = List.length radius -> window_inside radius shape start ->
  in_a_window radius shape (o_pos (refine_python pix rawpix radius shape thresh maxit ch start)).
Proof. exact refine_python_in_window. Qed.
Print Assumptions C08_refined_position_in_window.

(*     F18 (fixed in 7e846f3) -- regression witnesses.  The pipeline WITHOUT the clip
       (locate_without_clip: image = raw_image, as the code was) leaves the image on a
       signed image with a negative pixel next to the maximum:
         locate(np.array([[0,0,0],[0,5,-4],[0,0,0]], np.int16), 3, preprocess=False, percentile=0)
       returned x = -3.0, and the 9 x 9 int16 frame with 50 at [4,1] and -49 at [4,2]
       (diameter 3, preprocess=False) x = -48.0; with the clip both features sit on their
       bright pixel. *)
Definition ex_negative_image : image :=
  {| shape := [3; 3]%Z;
     data := Node (map (fun r => Node (map Leaf r)) [[0; 0; 0]; [0; 5; -4]; [0; 0; 0]]%Z) |}.
Definition ex_negative_params : lparams :=
  mkL [1; 1]%Z [4; 4] [3; 3] [1; 1] 10 true false 0 None None.
Definition ex_negative_image9 : image :=
  {| shape := [9; 9]%Z;
     data := Node (map (fun y => Node (map (fun x => Leaf (if (y =? 4)%Z then (if (x =? 1)%Z then 50 else if (x =? 2)%Z then -49 else 0) else 0)%Z)
                                            [0; 1; 2; 3; 4; 5; 6; 7; 8]%Z))
                       [0; 1; 2; 3; 4; 5; 6; 7; 8]%Z) |}.

Theorem C08_inside_without_clip_refuted :
  option_map (map (fun x => r_pos (snd (fst x))))
             (locate_without_clip (fun _ => 0) (fun q => q) ex_negative_params ex_negative_image)
  = Some [[1; -3]] /\
  option_map (map (fun x => r_pos (snd (fst x))))
             (locate_without_clip (fun _ => 1436 # 100) (fun q => q) ex_negative_params ex_negative_image9)
  = Some [[4; -48]] /\
  ~ inside_image [3; 3] [1; -3] /\ ~ inside_image [9; 9] [4; -48].
Proof.
  split; [vm_compute; reflexivity|]. split; [vm_compute; reflexivity|].
  split; cbn; intros [_ [_ [H _]]]; revert H; unfold Qle; cbn; intro H; discriminate H || (exfalso; apply H; reflexivity).
Qed.

Example ex_negative_images_with_clip :
  option_map (map (fun x => map Qred (r_pos (snd (fst x)))))
             (locate (fun _ => 0) (fun q => q) ex_negative_params ex_negative_image)
  = Some [[1; 1]] /\
  option_map (map (fun x => map Qred (r_pos (snd (fst x)))))
             (locate (fun _ => 1436 # 100) (fun q => q) ex_negative_params ex_negative_image9)
  = Some [[4; 1]].
Proof. split; vm_compute; reflexivity. Qed.

(* ==========================================================================
   11. The static error on ALL its columns.  Model/StaticError.v models
   trackpy.uncertainty._static_error with both branches -- isotropic (all radii equal and
   all noise sizes equal: one value per feature, column 'ep') and anisotropic (one value
   per feature and axis, columns ep_<axis>) -- in float64 arithmetic with NaN and +-inf,
   the block of locate that calls it (mass = raw_mass - Npx * black_level; ep[ep<0] = nan;
   column 'ep' or frame ep_z/ep_y/ep_x) and the public static_error (reversed tuples,
   scalar or per-feature noise, ep[ep<0] = nan, columns ep_x/ep_y/ep_z).
   For ALL inputs -- any radii, noise sizes (negative ones included), black level and
   noise (NaN, infinite), raw masses below the background, any sqrt -- no entry of any
   ep column is negative: each is NaN, +inf or a number >= 0. *)
Theorem C08_locate_ep_columns_not_negative : forall sqrtf radius noise_size black noise raw_mass,
  Forall (fun c => Forall ep_not_negative (snd c))
         (locate_ep sqrtf radius noise_size black noise raw_mass).
Proof. exact locate_ep_not_negative. Qed.
Print Assumptions C08_locate_ep_columns_not_negative.

Theorem C08_static_error_columns_not_negative : forall sqrtf mass noise diameter noise_size,
  Forall (fun c => Forall ep_not_negative (snd c))
         (static_error sqrtf mass noise diameter noise_size).
Proof. exact static_error_not_negative. Qed.
Print Assumptions C08_static_error_columns_not_negative.

(*     Which columns locate attaches, and that each has one entry per feature. *)
Theorem C08_locate_ep_column_names : forall sqrtf radius noise_size black noise raw_mass,
  map fst (locate_ep sqrtf radius noise_size black noise raw_mass) =
    (if ep_iso radius noise_size then ["ep"%string]
     else map (fun cc => String.append "ep_"%string cc) (pos_columns (List.length radius))) /\
  Forall (fun c => List.length (snd c) = List.length raw_mass)
         (locate_ep sqrtf radius noise_size black noise raw_mass).
Proof. exact locate_ep_columns. Qed.
Print Assumptions C08_locate_ep_column_names.

(*     The array model and the per-row formula of the tail (theorems 1, 6 above; the
       formula the correspondence run compares with locate's own columns) are the same
       function: entry by entry the same float64 value, in both branches, including the
       NaN / +inf cases (noise or black level not measurable, raw_mass = Npx*black_level). *)
Theorem C08_static_error_is_tail_formula : forall sqrtf radius noise_size black noise raws,
  Forall2 (Forall2 feq)
    (ep_table (locate_ep_arr sqrtf radius noise_size (of_opt black) (of_opt noise) raws))
    (map (fun raw => ep_row noise black (inject_Z (n_mask radius)) (ep_consts sqrtf radius noise_size)
                            (mkrow [] 0 0 raw)) raws).
Proof. exact locate_ep_is_tail_ep. Qed.
Print Assumptions C08_static_error_is_tail_formula.

(* ---- non-vacuity for 10 and 11 ---- *)
(* a 9 x 11 image with two blobs, diameter 5, separation 3, threshold 1: hypotheses of
   C08_inside_image hold and two features are returned (python and numba engine) *)
Definition ex_pipe_image : image :=
  {| shape := [9; 11]%Z;
     data := Node (map (fun r => Node (map Leaf r))
       [[0;0;0;0;0;0;0;0;0;0;0]; [0;0;0;0;0;0;0;0;0;0;0]; [0;0;1;2;1;0;0;0;0;0;0];
        [0;0;2;9;4;0;0;0;0;0;0]; [0;0;1;3;1;0;0;1;2;0;0]; [0;0;0;0;0;0;1;3;8;1;0];
        [0;0;0;0;0;0;0;2;3;0;0]; [0;0;0;0;0;0;0;0;0;0;0]; [0;0;0;0;0;0;0;0;0;0;0]]%Z) |}.
Definition ex_pipe_params (numba : bool) : lparams :=
  mkL [2; 2]%Z [3; 3] [5; 5] [1; 3 # 2] 10 true numba 0 None None.

Example ex_pipe_runs : forall numba,
  option_map (map (fun x => map Qred (r_pos (snd (fst x)))))
             (locate (fun _ => 1) (fun q => q) (ex_pipe_params numba) ex_pipe_image)
  = Some [[73 # 24; 37 # 12]; [107 # 21; 23 # 3]].
Proof. intros [|]; vm_compute; reflexivity. Qed.

Example ex_pipe_hyps : forall numba,
  Forall (fun r => (0 <= r)%Z) (l_radius (ex_pipe_params numba)) /\
  (2 <= List.length (l_radius (ex_pipe_params numba)))%nat /\
  Forall (fun r => (1 <= r)%Z) (l_radius (ex_pipe_params numba)).
Proof. intros. cbn. repeat split; repeat constructor; discriminate. Qed.

(* anisotropic static error (radius (4,5), black level 10, noise 2): the feature darker
   than the background (raw_mass 100 < 63 * 10) and the one exactly at the background
   get NaN / +inf in BOTH columns, the bright one positive numbers *)
Example ex_locate_ep_aniso :
  map (fun c => (fst c, map (fun v => match v with FVal e => Some (Qred e) | _ => None end) (snd c)))
      (locate_ep (fun q => q) [4; 5]%Z [1; 1] (FVal 10) (FVal 2) [100; 3000; 630])
  = [("ep_y"%string, [None; Some (248 # 1185); None]); ("ep_x"%string, [None; Some (406 # 1185); None])] /\
  map snd (locate_ep (fun q => q) [4; 5]%Z [1; 1] (FVal 10) (FVal 2) [100; 630])
  = [[FNaN; FPInf]; [FNaN; FPInf]].
Proof. vm_compute. split; reflexivity. Qed.

(* the comparison run on the implementation's ep columns (Model/StaticErrorCheck.v)
   accepts the model's own frame and rejects a frame with the columns swapped or with
   a negative entry where the model has NaN *)
From TP Require Import Model.StaticErrorCheck.
Definition ex_se_table : list (Q * Q) := [(248, 16); (406, 20)].

Example ex_check_se_accepts :
  check_se (1 # 1000000000)
    (SELocate ex_se_table [4; 5]%Z [1; 1] (FVal 10) (FVal 2) [100; 3000]
              [("ep_y"%string, [FNaN; FVal (32 # 2370)]); ("ep_x"%string, [FNaN; FVal (40 # 2370)])]) = 0%N.
Proof. vm_compute. reflexivity. Qed.

Example ex_check_se_rejects :
  check_se (1 # 1000000000)
    (SELocate ex_se_table [4; 5]%Z [1; 1] (FVal 10) (FVal 2) [100; 3000]
              [("ep_x"%string, [FNaN; FVal (40 # 2370)]); ("ep_y"%string, [FNaN; FVal (32 # 2370)])]) = 2%N /\
  check_se (1 # 1000000000)
    (SELocate ex_se_table [4; 5]%Z [1; 1] (FVal 10) (FVal 2) [100; 3000]
              [("ep_y"%string, [FVal (- (32 # 530)); FVal (32 # 2370)]); ("ep_x"%string, [FNaN; FVal (40 # 2370)])]) = 11%N.
Proof. vm_compute. split; reflexivity. Qed.

(* 12. That comparison is a sound monitor: when it answers 0 on columns observed on the
   implementation (tolerance at most 1), these carry the model's column names in the
   model's order and none of their entries is negative. *)
Theorem C08_check_se_sound : forall tol c, 0 <= tol -> tol <= 1 -> check_se tol c = 0%N ->
  let observed := match c with SELocate _ _ _ _ _ _ o => o | SEStatic _ _ _ _ _ o => o end in
  Forall (fun col => Forall ep_not_negative (snd col)) observed /\
  map fst observed =
    match c with
    | SELocate t radius ns black noise raws _ => map fst (locate_ep (sqrt_table t) radius ns black noise raws)
    | SEStatic t mass noise diameter ns _ => map fst (static_error (sqrt_table t) mass noise diameter ns)
    end.
Proof. exact check_se_sound. Qed.
Print Assumptions C08_check_se_sound.

(* the measure_noise comparison (Model/LocatePipeCheck.v) accepts the model's own answer:
   3 x 3 image with one lit pixel in a corner, radius 1: six background pixels (mean 4, variance 20/3) *)
From TP Require Import Model.LocatePipeCheck.
Example ex_check_noise_accepts :
  check_noise (1 # 1000000000)
    (mk_ncase [(20 # 3, 5 # 2)]
       {| shape := [3; 3]%Z; data := Node (map (fun r => Node (map Leaf r)) [[7; 0; 0]; [0; 0; 0]; [0; 0; 0]]%Z) |}
       {| shape := [3; 3]%Z; data := Node (map (fun r => Node (map Leaf r)) [[9; 9; 1]; [9; 2; 3]; [4; 5; 9]]%Z) |}
       [1; 1]%Z (Some 4) (Some (5 # 2))) = 0%N.
Proof. vm_compute. reflexivity. Qed.

(* ==========================================================================
   13. ROUTE T.  Gen/tail.v is regenerated by tools/py2coq_tail.py from the CURRENT text of
   trackpy/uncertainty.py (measure_noise, _root_sum_x_squared, _static_error, static_error) and
   trackpy/feature.py (locate from the statement after `refined_coords = refine_com(...)` to the
   final return: py_locate_tail; batch: py_batch) on every run of the check, statement by
   statement, over the vocabulary Model/PyTail.v (numpy / scipy / pandas operations are named
   primitives with the meaning the hand-written models give them).  Proofs/TailGen.v proves, for
   all inputs, that the generated functions ARE the models the theorems above are stated about;
   the headline theorems are restated here for the generated functions. *)
From TP Require Import Model.PyTail Gen.tail Proofs.TailGen.

(* 13a. the generated functions are the models *)
Theorem C08_gen_measure_noise_is_model : forall sqrtf im raw radius,
  py_measure_noise sqrtf im raw radius =
  (of_opt (fst (measure_noise sqrtf im raw radius)), of_opt (snd (measure_noise sqrtf im raw radius))).
Proof. exact py_measure_noise_eq. Qed.
Print Assumptions C08_gen_measure_noise_is_model.

Theorem C08_gen_static_error_arr_is_model : forall sqrtf mass noise radius noise_size,
  py__static_error sqrtf mass noise radius noise_size = static_error_arr sqrtf mass noise radius noise_size.
Proof. exact py_static_error_arr_eq. Qed.
Print Assumptions C08_gen_static_error_arr_is_model.

(*      the public static_error: [diameter] / [noise_size] are the validated tuples; when diameter
        is a scalar (not iterable) its length is the parameter ndim; per-frame noise is the value
        joined to each feature on 'frame' *)
Theorem C08_gen_static_error_is_model : forall sqrtf it features noise diameter noise_size ndim,
  (it = false -> ndim = List.length diameter) ->
  py_static_error sqrtf it features noise diameter noise_size ndim =
  static_error sqrtf (se_mass features)
               (match noise with NIScalar v => NScalar v | NITable t => NSeries (joined_noise features t) end)
               diameter noise_size.
Proof. exact py_static_error_eq. Qed.
Print Assumptions C08_gen_static_error_is_model.

(*      the tail of locate on refine_com's table [rows] (RangeIndex; position columns pc; with
        characterize [ch] the columns raw_mass / signal; with [hs] the column size): it returns
        [tail_result]: the empty table unchanged; KeyError 'size' when maxsize is given and the
        column is missing; the empty table when nothing passes the filters (no ep columns, no frame
        tag); else the rows LocateTail.select keeps of LocateTail.candidates with the entries of
        StaticError.locate_ep_arr (noise / black level by LocatePipe.measure_noise) attached row by
        row under the names 'ep' / 'ep_' + pos_columns, and the frame tag *)
Theorem C08_gen_tail_is_model : forall sqrtf pc ch hs sep sf mm ms topn im raw fno radius nd ns rows,
  py_locate_tail sqrtf (df_of_rows pc ch hs rows) sep pc sf mm ms topn ch im raw fno radius nd ns =
  tail_result sqrtf pc ch hs sep sf mm ms topn im raw fno radius ns rows.
Proof. exact py_locate_tail_eq. Qed.
Print Assumptions C08_gen_tail_is_model.

(*      ... and that table is LocateTail.tail (the function theorems 1-9 are about) line by line:
        same index labels, same rows, ep entries equal as float64 values (the array formula of
        _static_error and the per-row formula of the tail differ in the grouping of the products) *)
Theorem C08_gen_tail_is_tail : forall sqrtf pc ch hs sep sf mm ms topn im raw fno radius nd ns rows d,
  py_locate_tail sqrtf (df_of_rows pc ch hs rows) sep pc sf mm ms topn ch im raw fno radius nd ns = ROk d ->
  Forall2 (fun x y => fst x = fst y /\ Forall2 feq (snd x) (snd y))
          (df_lines d) (tail (tail_P sqrtf sep sf mm ms topn im raw radius ns ch) rows).
Proof. exact py_tail_is_tail. Qed.
Print Assumptions C08_gen_tail_is_tail.

(*      the glue: LocatePipe.locate_on (head: maxima, refinement; then the hand-written tail) and the
        same head followed by the GENERATED tail return the same answer (None = locate raises) *)
Theorem C08_gen_locate_on_is_model : forall percentile sqrtf pc fno L im raw,
  match locate_on_gen percentile sqrtf pc fno L im raw, locate_on percentile sqrtf L im raw with
  | Some x, Some y => Forall2 (fun a b => fst a = fst b /\ Forall2 feq (snd a) (snd b)) x y
  | None, None => True
  | _, _ => False
  end.
Proof. exact locate_on_gen_eq. Qed.
Print Assumptions C08_gen_locate_on_is_model.

(* 13b. theorem 1 for the generated tail: filters, inside the image, separation, ep not negative *)
Theorem C08_gen_filters_and_bounds : forall shape sqrtf pc ch hs sep sf mm ms topn im raw fno radius nd ns rows d,
  Forall (fun r => inside_image shape (r_pos r)) rows ->
  py_locate_tail sqrtf (df_of_rows pc ch hs rows) sep pc sf mm ms topn ch im raw fno radius nd ns = ROk d ->
  Forall (fun x => mm < r_mass (fst x) /\ match ms with None => True | Some s => r_size (fst x) < s end) (gen_out d) /\
  Forall (fun x => inside_image shape (r_pos (fst x))) (gen_out d) /\
  (Forall (fun s => 0 < s) sep ->
     forall i j a b, i <> j -> nth_error (map fst (gen_out d)) i = Some a -> nth_error (map fst (gen_out d)) j = Some b ->
       ~ dist2_sep sep (r_pos a) (r_pos b) < 1) /\
  Forall (fun x => Forall ep_not_negative (snd x)) (gen_out d).
Proof. exact gen_tail_output_ok. Qed.
Print Assumptions C08_gen_filters_and_bounds.

(*      theorem 3 for the generated tail: a selection of the deduplicated, rescaled table *)
Theorem C08_gen_topn_selection : forall sqrtf pc ch hs sep sf mm ms topn im raw fno radius nd ns rows d,
  topn <> Some 0%nat ->
  py_locate_tail sqrtf (df_of_rows pc ch hs rows) sep pc sf mm ms topn ch im raw fno radius nd ns = ROk d ->
  exists removed,
    Permutation (map fst (gen_out d) ++ removed) (candidates sep sf rows) /\
    Forall (keeps mm ms) (map fst (gen_out d)) /\
    match topn with
    | None => Forall (fun r => ~ keeps mm ms r) removed
    | Some n => (List.length (map fst (gen_out d)) <= n)%nat /\
                forall r, In r removed -> keeps mm ms r ->
                  List.length (map fst (gen_out d)) = n /\ Forall (fun o => r_mass r <= r_mass o) (map fst (gen_out d))
    end.
Proof. exact gen_tail_selection. Qed.
Print Assumptions C08_gen_topn_selection.

(*      theorems 11 for the generated code: no entry of any ep column is negative, in the block of
        locate and in the public static_error *)
Theorem C08_gen_locate_ep_not_negative : forall sqrtf radius noise_size black noise raw_mass,
  Forall (Forall ep_not_negative)
    (ep_table (nan_negative (py__static_error sqrtf
        (arr_sub_scalar raw_mass (fmul (fZ (N_binary_mask radius (List.length radius))) black)) (NScalar noise) radius noise_size))).
Proof. exact gen_locate_ep_not_negative. Qed.
Print Assumptions C08_gen_locate_ep_not_negative.

Theorem C08_gen_static_error_not_negative : forall sqrtf it features noise diameter noise_size ndim,
  (it = false -> ndim = List.length diameter) ->
  Forall (fun c => Forall ep_not_negative (snd c)) (py_static_error sqrtf it features noise diameter noise_size ndim).
Proof. exact gen_static_error_not_negative. Qed.
Print Assumptions C08_gen_static_error_not_negative.

(*      theorem 10 for the pipeline with the generated tail *)
Theorem C08_gen_inside_image : forall percentile sqrtf pc fno (L : LocatePipe.lparams) im raw out,
  (forall p, (0 <= pix im p)%Z) ->
  Forall (fun r => (0 <= r)%Z) (l_radius L) ->
  List.length (l_radius L) = List.length (shape im) ->
  List.length (l_sep L) = List.length (shape im) -> List.length (l_smooth L) = List.length (shape im) ->
  (l_numba L = true -> (2 <= List.length (l_radius L))%nat /\ Forall (fun r => (1 <= r)%Z) (l_radius L)) ->
  locate_on_gen percentile sqrtf pc fno L im raw = Some out ->
  Forall (fun x => in_a_window (l_radius L) (shape im) (r_pos (snd (fst x))) /\
                   inside_image (map inject_Z (shape im)) (r_pos (snd (fst x)))) out.
Proof. exact gen_locate_inside_image. Qed.
Print Assumptions C08_gen_inside_image.

(* non-vacuity: the generated tail on the example of theorem 1-9 (ex_rows, ex_P): same two rows,
   same labels, same ep as ex_output; the image / radius only matter for the static error, which
   is given here by a 3 x 3 image with one lit pixel (black level 0 over 5 background pixels ...) *)
Example ex_gen_tail_runs :
  match py_locate_tail (fun q => q) (df_of_rows ["y"; "x"]%string false false ex_rows) [6; 6] ["y"; "x"]%string 2 50 None (Some 2%nat)
                       false ex_negative_image ex_negative_image (Some 7%nat) [1; 1]%Z 2%nat [1; 1] with
  | ROk d => Some (map (fun x => (fst (fst x), r_pos (snd (fst x)), Qred (r_mass (snd (fst x))))) (df_lines d), df_frame d)
  | RRaise _ => None
  end = Some ([ (1%nat, [30; 30], 200); (2%nat, [50; 20], 200) ], Some 7%nat).
Proof. vm_compute. reflexivity. Qed.

Example ex_gen_tail_keyerror :
  py_locate_tail (fun q => q) (df_of_rows ["y"; "x"]%string false false ex_rows) [6; 6] ["y"; "x"]%string 2 50 (Some 3) None
                 false ex_negative_image ex_negative_image None [1; 1]%Z 2%nat [1; 1] = RRaise (EKeyError "size").
Proof. vm_compute. reflexivity. Qed.

(* ==========================================================================
   14. batch (feature.py), ROUTE T -- the theorems about batch belong to C09 (Properties/C09.v
   (5), (6), (17)-(20), stated about Model/Equivariance.batch_map and Model/LocateWhole.batch_pool);
   they are RESTATED here for the generated py_batch (output, meta, after_locate at their default
   None).  A frame is its image and its frame_no attribute; kwargs is abstract with its two
   operations; locate_rows is locate without the frame tag.
   ---- section owned by C09, restated for the generated code ---- *)
From TP Require Import Model.Equivariance Model.LocateWhole.

(* (C09-5g) in the calling process: the generated batch is the model batch_map -- except on an
   EMPTY frame sequence, where the code raises UnboundLocalError (`features` is bound only by the
   loop and read by the empty-result branch) while the model returns the empty table *)
Theorem C08_gen_batch_in_process_is_model :
  forall (F R KW D : Type) (locate_rows : KW -> F -> list R) kw_mem (kw_set : KW -> string -> D -> KW)
         frames diameter seen kwargs,
  kw_mem "raw_image"%string kwargs = false ->
  py_batch locate_rows kw_mem kw_set frames diameter (InProcess seen) kwargs =
  match frames with
  | [] => RRaise (EUnboundLocal "features")
  | _ :: _ => ROk (batch_map (pframe F) R (fun f => locate_rows (kw_set kwargs "diameter"%string diameter) (pf_img f)) pf_no seen frames)
  end.
Proof. intros F R KW D. exact (@py_batch_in_process F R KW D). Qed.
Print Assumptions C08_gen_batch_in_process_is_model.

(* (C09-17g) over a pool: the generated batch is the model batch_pool *)
Theorem C08_gen_batch_pool_is_model :
  forall (F R KW D : Type) (locate_rows : KW -> F -> list R) kw_mem (kw_set : KW -> string -> D -> KW)
         frames diameter c csched seen kwargs,
  kw_mem "raw_image"%string kwargs = false ->
  (0 < c)%nat -> (forall k, (k * c < List.length frames)%nat -> In k csched) ->
  py_batch locate_rows kw_mem kw_set frames diameter (Pool c csched seen) kwargs =
  match frames with
  | [] => RRaise (EUnboundLocal "features")
  | _ :: _ => ROk (batch_pool (pframe F) R (fun f => locate_rows (kw_set kwargs "diameter"%string diameter) (pf_img f)) pf_no
                              c csched seen frames)
  end.
Proof. intros F R KW D. exact (@py_batch_pool F R KW D). Qed.
Print Assumptions C08_gen_batch_pool_is_model.

(* (C09-5/17/19g) hence, for a non-empty frame sequence: whatever the pool (chunk size, completion
   order, visibility of the attribute in the workers) and in the calling process, the generated
   batch returns locate on each frame, every row tagged with the frame's number (its frame_no, else
   its position), concatenated in frame order *)
Theorem C08_gen_batch_is_tagged_concatenation :
  forall (F R KW D : Type) (locate_rows : KW -> F -> list R) kw_mem (kw_set : KW -> string -> D -> KW)
         frames diameter kwargs p,
  kw_mem "raw_image"%string kwargs = false -> frames <> [] ->
  match p with
  | InProcess _ => True
  | Pool c csched _ => (0 < c)%nat /\ (forall k, (k * c < List.length frames)%nat -> In k csched)
  end ->
  py_batch locate_rows kw_mem kw_set frames diameter p kwargs =
  ROk (tagged_from (pframe F) R (fun f => locate_rows (kw_set kwargs "diameter"%string diameter) (pf_img f)) pf_no 0 frames).
Proof. intros F R KW D. exact (@py_batch_tagged F R KW D). Qed.
Print Assumptions C08_gen_batch_is_tagged_concatenation.

Example ex_gen_batch :
  py_batch (fun (_ : unit) (n : nat) => seq 0 (n - 22)) (fun _ _ => false) (fun k _ (_ : unit) => k)
           [mkPF 25 (Some 25); mkPF 24 (Some 24); mkPF 23 None]%nat tt (Pool 2 [1; 0]%nat Nat.even) tt
  = ROk [(0, 25); (1, 25); (2, 25); (0, 24); (1, 24); (0, 2)]%nat.
Proof. vm_compute. reflexivity. Qed.
(* ---- end of the section restated from C09 ---- *)
