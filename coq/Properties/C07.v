(* C07 -- centre-of-mass refinement is engine-independent and self-consistent.
   Only statements closed by [exact]; proofs live in Proofs/COM.v, the models in
   Model/COM.v (refine_python = _refine, refine_numba = the numba kernels behind
   refine_com_arr's preparation).  pix / rawpix are image and raw_image as
   arbitrary functions from index vectors to integers: every image of every size
   and any number (>= 2) of axes is covered. *)
From Coq Require Import ZArith QArith List Bool Lia.
From TP Require Import Model.COM Proofs.COM.
Import ListNotations.
Open Scope Z_scope.

(* (1) Engine independence.  For every image, raw image, per-axis radii >= 1, image
   shape, shift threshold >= 0, iteration limit, characterize flag and start pixel:
   the numba kernels return exactly the row of the reference loop (same position,
   mass, size^2 column(s), signal, raw_mass) when every window the iteration
   evaluates has non-zero brightness under the mask; otherwise they divide by zero. *)
Theorem C07_engines_agree : forall pix rawpix radius shape thresh max_iterations characterize start,
  (0 <= thresh)%Q -> (2 <= length radius)%nat -> Forall (fun r => 1 <= r) radius ->
  refine_numba pix rawpix radius shape thresh max_iterations characterize start =
  if ref_nonzero pix radius shape thresh (binary_mask radius) (pred (iters_of max_iterations)) start
  then KOk (refine_python pix rawpix radius shape thresh max_iterations characterize start)
  else KDivZero.
Proof. exact engines_agree. Qed.
Print Assumptions C07_engines_agree.

(* (2) Self-consistency of the reference engine.  If the start window lies inside the
   image and no evaluated window is dark, there is ONE window centre c with
     r_d <= c_d <= shape_d - 1 - r_d on every axis,
     every pixel of its mask neighbourhood  nbhd radius c  inside the image and inside
       the ellipse  sum ((x_d - c_d)/r_d)^2 <= 1  around c,
   such that the reported position is the brightness centroid of that neighbourhood
     sum I(x) x_d / sum I(x)   on every axis,
   the reported mass is  sum I(x),  size^2 is the (per-axis) squared gyration radius
   about c, signal is the brightest pixel (not below 0) and raw_mass is  sum Raw(x)
   over the very same neighbourhood -- also when the iteration limit stops the walk
   right after a shift. *)
Theorem C07_python_self_consistent : forall pix rawpix radius shape thresh max_iterations characterize start,
  (2 <= length radius)%nat -> Forall (fun r => 1 <= r) radius ->
  length start = length radius -> length shape = length radius ->
  window_inside radius shape start ->
  ref_nonzero pix radius shape thresh (binary_mask radius) (pred (iters_of max_iterations)) start = true ->
  let out := refine_python pix rawpix radius shape thresh max_iterations characterize start in
  exists c,
    length c = length radius /\ window_inside radius shape c /\
    let pts := nbhd radius c in
    (forall x, In x pts -> in_image shape x /\
                           in_ellipse radius (map (fun d => ix x d - ix c d) (seq 0 (length radius)))) /\
    total pix pts <> 0 /\
    length (o_pos out) = length radius /\
    (forall d, (d < length radius)%nat -> (qx (o_pos out) d == centroid pix pts d)%Q) /\
    o_mass out = total pix pts /\
    o_char out =
      if characterize
      then Some (if isotropic radius then [gyration2 pix c pts]
                 else map (gyration2_axis pix c pts) (seq 0 (length radius)),
                 brightest pix pts, total rawpix pts)
      else None.
Proof. exact python_self_consistent. Qed.
Print Assumptions C07_python_self_consistent.

(* (2') The mask neighbourhood used in (2) is exactly the set of image pixels inside the
   ellipse around c, each listed once -- nothing is cut off by the image border. *)
Theorem C07_neighbourhood_is_ellipse : forall radius shape c,
  Forall (fun r => 1 <= r) radius -> length shape = length radius ->
  window_inside radius shape c ->
  NoDup (nbhd radius c) /\
  forall x, In x (nbhd radius c) <->
            length x = length radius /\ in_image shape x /\
            in_ellipse radius (map (fun d => ix x d - ix c d) (seq 0 (length radius))).
Proof. exact nbhd_is_ellipse. Qed.
Print Assumptions C07_neighbourhood_is_ellipse.

(* (3) The same for the kernels: whenever they return a row at all, it is the
   reference row and it is self-consistent in the sense of (2)
   ([row_is_consistent] is literally the "exists c, ..." of (2)). *)
Theorem C07_numba_self_consistent : forall pix rawpix radius shape thresh max_iterations characterize start out,
  (0 <= thresh)%Q -> (2 <= length radius)%nat -> Forall (fun r => 1 <= r) radius ->
  length start = length radius -> length shape = length radius ->
  window_inside radius shape start ->
  refine_numba pix rawpix radius shape thresh max_iterations characterize start = KOk out ->
  out = refine_python pix rawpix radius shape thresh max_iterations characterize start /\
  row_is_consistent pix rawpix radius shape characterize out.
Proof. exact numba_self_consistent. Qed.
Print Assumptions C07_numba_self_consistent.

(* (4) Why the property excludes dark neighbourhoods: there the engines differ. *)
Theorem C07_zero_mass_differs : forall pix rawpix radius shape thresh max_iterations characterize start,
  (0 <= thresh)%Q -> (2 <= length radius)%nat -> Forall (fun r => 1 <= r) radius ->
  nb_sum pix radius (binary_mask radius) start = 0 ->
  refine_numba pix rawpix radius shape thresh max_iterations characterize start = KDivZero.
Proof. exact zero_mass_differs. Qed.
Print Assumptions C07_zero_mass_differs.

(* ---------- non-vacuity ---------- *)
(* a 7x9 image brightening along x: hypotheses hold, every iteration shifts the window
   one pixel along x, and the iteration limit stops the walk right after a shift
   (the row reports the last EVALUATED window: masses 240 / 529 / 1052 for limits 1 / 2 / 3) *)
Definition ex_img (idx : list Z) : Z :=
  match idx with
  | [y; x] => 1 + x * x * x + y
  | _ => 0
  end.

Example C07_hypotheses_satisfiable :
  window_inside [2; 2] [7; 9] [3; 2] /\
  ref_nonzero ex_img [2; 2] [7; 9] (3 # 5) (binary_mask [2; 2]) (pred (iters_of 2)) [3; 2] = true.
Proof.
  split; [|vm_compute; reflexivity].
  intros d Hd. destruct d as [|[|d]]; cbn in *; try lia.
Qed.

Example C07_walk_moves_and_limit_binds :
  refine_numba ex_img ex_img [2; 2] [7; 9] (3 # 5) 2 true [3; 2]
  = KOk (refine_python ex_img ex_img [2; 2] [7; 9] (3 # 5) 2 true [3; 2]) /\
  o_mass (refine_python ex_img ex_img [2; 2] [7; 9] (3 # 5) 2 true [3; 2]) = 529 /\
  o_mass (refine_python ex_img ex_img [2; 2] [7; 9] (3 # 5) 3 true [3; 2]) = 1052 /\
  o_mass (refine_python ex_img ex_img [2; 2] [7; 9] (3 # 5) 1 true [3; 2]) = 240.
Proof. vm_compute. repeat split; reflexivity. Qed.

(* the premise 0 <= shift_thresh of (1) is needed: below 0 the reference's two
   masked updates (+1 then -1) cancel while the kernels' if/elif only adds *)
Example C07_negative_threshold_differs :
  refine_numba ex_img ex_img [2; 2] [7; 9] (-(1 # 2)) 2 false [3; 2]
  <> KOk (refine_python ex_img ex_img [2; 2] [7; 9] (-(1 # 2)) 2 false [3; 2]).
Proof. vm_compute. discriminate. Qed.
